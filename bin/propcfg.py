"""Per-property configuration of bin/check."""

PROPS = {
    "C09": {
        "quick": 1200, "thorough": 40000,
        "model": ["SpecC09"],
        "rule": "one source file per case (12 languages round-robin) holding 1-3 line-count blocks; the first block walks the "
                "full grid operator x bound 0..6 x actual count 0..7 (case index mod 280), the others are random incl. bounds up to 2^64-1; "
                "blank/whitespace-only lines are inserted at random positions, content may start on the tag's line or end on the end tag's line, "
                "nested blocks contribute their tag lines. Distinct = distinct (file text, constraints). Every case is non-trivial (it has a line-count block).",
        "trusted_base": ["tree-sitter grammars (comment node spans are taken from the implementation through the hook)"],
        "assumptions": ["comment spans handed to the model are those the implementation's grammar produced"],
    },
}

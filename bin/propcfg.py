"""Per-property configuration of bin/check."""

PROPS = {
    "C01": {"quick": 3000, "thorough": 100000, "model": ["SpecDrift"], "pending": "in progress"},
    "C02": {"quick": 3000, "thorough": 100000, "model": ["SpecDrift"], "pending": "in progress"},
    "C03": {"quick": 2400, "thorough": 100000, "model": ["SpecList"], "pending": "in progress"},
    "C05": {"quick": 3000, "thorough": 150000, "model": ["SpecList"], "pending": "in progress"},
    "C12": {"quick": 1600, "thorough": 60000, "model": ["SpecList"], "pending": "in progress"},
    "C06": {
        "quick": 3000, "thorough": 120000, "model": ["SpecKeys"],
        "rule": "one file (bash/ruby/js) with 1-3 sibling keep-sorted blocks; the first block's lines enumerate every sequence of length 0..3 over a 7-9 symbol alphabet (ordered, equal, prefix-related, indented, trailing-blank, blank, numeric-looking incl. 0/-0/1e3) and sample lengths 4-5 and longer; direction in {asc,desc,'',ASC,Desc,' ',dEsC} x {no pattern, group pattern, plain pattern} x {lexicographic, numeric}; Unicode keys; content on the tag's line. Non-trivial = a block with at least two non-blank lines; distinct = distinct file text.",
        "technique": 'Rocq proof over a Gallina model of keep_sorted.rs (scan reports exactly the first strictly out-of-order key; order lemmas; direction parsing) + differential correspondence (vm_compute) against the implementation',
        "level_text": 'Theorems in coq/props/C06.v characterise the scan for key sequences of any length (no violation iff all adjacent pairs in order; the reported key is the first out-of-order one; equal neighbours and signed zeros are in order; code-point order; direction parsing). The model is tied to the code by running both on the enumerated alphabet on every run; the executable specification also checks that the reported range delimits the offending key in the file.',
        "level_note": "Trusted: Coq kernel + vm_compute; the hand-written model (validated by the correspondence run); the harness; the regex crate and str::parse::<f64> as oracles (their answers are tabulated per case by the harness with the same crate versions); tree-sitter comment spans (from the implementation via the hook). No axioms.",
        "trusted_base": ["regex crate (match and group ranges are an oracle table per case)", "Rust std f64 parsing (bit patterns are an oracle table per case)", "tree-sitter grammars (comment spans from the implementation through the hook)"],
        "assumptions": ["regex and f64-parse answers are taken from the same crate versions the implementation links"],
    },
    "C07": {
        "quick": 2400, "thorough": 80000, "model": ["SpecKeys"],
        "rule": 'as C06 with keep-unique: alphabets with repeated keys, keys differing only in indentation or trailing blanks, differences outside the regex group, blank and non-matching lines x {no regex, group regex, plain regex}. Non-trivial = a block with at least two non-blank lines.',
        "technique": 'Rocq proof over a Gallina model of keep_unique.rs (seen-set invariant: no violation iff NoDup keys; reported key is the first repeat) + differential correspondence',
        "level_text": 'Theorems in coq/props/C07.v hold for key sequences of any length; the model is tied to the code by the enumerated-alphabet correspondence on every run.',
        "level_note": "Trusted: Coq kernel + vm_compute; the hand-written model (validated by the correspondence run); the harness; the regex crate and str::parse::<f64> as oracles (their answers are tabulated per case by the harness with the same crate versions); tree-sitter comment spans (from the implementation via the hook). No axioms.",
        "trusted_base": ["regex crate (match and group ranges are an oracle table per case)", "Rust std f64 parsing (bit patterns are an oracle table per case)", "tree-sitter grammars (comment spans from the implementation through the hook)"],
        "assumptions": ["regex and f64-parse answers are taken from the same crate versions the implementation links"],
    },
    "C08": {
        "quick": 2400, "thorough": 80000, "model": ["SpecKeys"],
        "rule": 'as C06 with line-pattern: six anchored/unanchored patterns x alphabet of matching, non-matching, indented, blank, partially matching and Unicode lines. Non-trivial = a block with at least two non-blank lines.',
        "technique": 'Rocq proof over a Gallina model of line_pattern.rs (first failing non-blank trimmed line, regex as oracle) + differential correspondence',
        "level_text": 'Theorems in coq/props/C08.v hold for any number of lines with the regex engine as an oracle; the model is tied to the code by the enumerated-alphabet correspondence on every run.',
        "level_note": "Trusted: Coq kernel + vm_compute; the hand-written model (validated by the correspondence run); the harness; the regex crate and str::parse::<f64> as oracles (their answers are tabulated per case by the harness with the same crate versions); tree-sitter comment spans (from the implementation via the hook). No axioms.",
        "trusted_base": ["regex crate (match and group ranges are an oracle table per case)", "Rust std f64 parsing (bit patterns are an oracle table per case)", "tree-sitter grammars (comment spans from the implementation through the hook)"],
        "assumptions": ["regex and f64-parse answers are taken from the same crate versions the implementation links"],
    },
    "C09": {
        "quick": 1200, "thorough": 40000,
        "model": ["SpecC09"],
        "rule": "one source file per case (12 languages round-robin) holding 1-3 line-count blocks; the first block walks the "
                "full grid operator x bound 0..6 x actual count 0..7 (case index mod 280), the others are random incl. bounds up to 2^64-1; "
                "blank/whitespace-only lines are inserted at random positions, content may start on the tag's line or end on the end tag's line, "
                "nested blocks contribute their tag lines. Distinct = distinct (file text, constraints). Every case is non-trivial (it has a line-count block).",
        "technique": "Rocq proof over a Gallina model of line_count.rs (parse/print round trip, count characterisation, violation iff) + differential correspondence (vm_compute) against the implementation",
        "level_text": "Theorems in coq/props/C09.v hold for every operator, bound < 2^64, whitespace layout and content string (no size bound); the model is tied to the code by running both on a full operator x bound x count grid plus random cases on every run, each case also judged by the executable specification.",
        "level_note": "Trusted: Coq kernel + vm_compute; the hand-written model (validated by the correspondence run); the harness; tree-sitter comment spans (taken from the implementation via the hook). No axioms.",
        "trusted_base": ["tree-sitter grammars (comment node spans are taken from the implementation through the hook)"],
        "assumptions": ["comment spans handed to the model are those the implementation's grammar produced"],
    },
}

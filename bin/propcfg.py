"""Per-property configuration of bin/check."""

PROPS = {
    "C06": {"quick": 3000, "thorough": 120000, "model": ["SpecKeys"], "pending": "in progress"},
    "C07": {"quick": 2400, "thorough": 80000, "model": ["SpecKeys"], "pending": "in progress"},
    "C08": {"quick": 2400, "thorough": 80000, "model": ["SpecKeys"], "pending": "in progress"},
    "C09": {
        "quick": 1200, "thorough": 40000,
        "model": ["SpecC09"],
        "rule": "one source file per case (12 languages round-robin) holding 1-3 line-count blocks; the first block walks the "
                "full grid operator x bound 0..6 x actual count 0..7 (case index mod 280), the others are random incl. bounds up to 2^64-1; "
                "blank/whitespace-only lines are inserted at random positions, content may start on the tag's line or end on the end tag's line, "
                "nested blocks contribute their tag lines. Distinct = distinct (file text, constraints). Every case is non-trivial (it has a line-count block).",
        "technique": "Rocq proof over a Gallina model of line_count.rs (parse/print round trip, count characterisation, violation iff) + differential correspondence (vm_compute) against the implementation",
        "level_text": "Theorems in coq/props/C09.v hold for every operator, bound < 2^64, whitespace layout and content string (no size bound); the model is tied to the code by running both on a full operator x bound x count grid plus random cases on every run, each case also judged by the executable specification.",
        "level_note": "Trusted: Coq kernel + vm_compute; the hand-written model (validated by the correspondence run); the harness; tree-sitter comment spans (taken from the implementation via the hook). No axioms.",
        "trusted_base": ["tree-sitter grammars (comment node spans are taken from the implementation through the hook)"],
        "assumptions": ["comment spans handed to the model are those the implementation's grammar produced"],
    },
}

(* Tag.v - the winnow grammar of src/tag_parser.rs, by hand, with winnow's
   backtracking semantics, and the candidate-'<' scan of `next()`. *)
From BW Require Export Defs.
From BWGen Require Import UnicodeTables.

(* char::is_alphanumeric, from the table reflected out of the running
   implementation's `std` on every run *)
Definition is_alnum (c : char) : bool :=
  existsb (fun r => (fst r <=? c) && (c <=? snd r)) alnum_ranges.

Definition is_name_char (c : char) : bool := is_alnum c || (c =? 45) || (c =? 95).

Definition C_LT := 60.   (* < *)
Definition C_GT := 62.   (* > *)
Definition C_EQ := 61.   (* = *)
Definition C_SL := 47.   (* / *)
Definition C_DQ := 34.
Definition C_SQ := 39.

Definition not_char (q : char) (c : char) : bool := negb (c =? q).

(* alt(( "..." , '...' , bare )) *)
Definition parse_value (s : str) : option (str * str) :=
  match s with
  | [] => None
  | c :: r =>
    if (c =? C_DQ) || (c =? C_SQ) then
      match drop_while (not_char c) r with
      | _ :: rest => Some (take_while (not_char c) r, rest)   (* closing quote found *)
      | [] => None          (* quote never closed: the two other alternatives fail on the quote *)
      end
    else
      match take_while is_name_char s with
      | [] => None
      | v => Some (v, drop_while is_name_char s)
      end
  end.

(* preceded(multispace1, (name, opt(preceded((ms0, "=", ms0), value)))) *)
Definition parse_attr (s : str) : option (str * str * str) :=
  match s with
  | [] => None
  | c :: _ =>
    if is_mspace c then
      let s1 := drop_while is_mspace s in
      match take_while is_name_char s1 with
      | [] => None
      | n =>
        let s2 := drop_while is_name_char s1 in
        match drop_while is_mspace s2 with
        | e :: s4 =>
          if e =? C_EQ then
            match parse_value (drop_while is_mspace s4) with
            | Some (v, rest) => Some (n, v, rest)
            | None => Some (n, [], s2)        (* opt() backtracks to just after the name *)
            end
          else Some (n, [], s2)
        | [] => Some (n, [], s2)
        end
      end
    else None
  end.

(* repeat(0.., attr) *)
Fixpoint parse_attrs (fuel : nat) (s : str) : attrs * str :=
  match fuel with
  | O => ([], s)
  | S f =>
    match parse_attr s with
    | Some (n, v, rest) => let '(a, r) := parse_attrs f rest in ((n, v) :: a, r)
    | None => ([], s)
    end
  end.

(* "<block" attrs ws0 ">" *)
Definition parse_start_tag (s : str) : option (attrs * str) :=
  match strip_prefix (T "<block") s with
  | None => None
  | Some s1 =>
    let '(a, s2) := parse_attrs (length s1) s1 in
    match drop_while is_mspace s2 with
    | c :: rest => if c =? C_GT then Some (a, rest) else None
    | [] => None
    end
  end.

(* "<" ws0 "/" ws0 "block" ws0 ">" *)
Definition parse_end_tag (s : str) : option str :=
  match s with
  | c :: s1 =>
    if c =? C_LT then
      match drop_while is_mspace s1 with
      | d :: s2 =>
        if d =? C_SL then
          match strip_prefix (T "block") (drop_while is_mspace s2) with
          | Some s3 =>
            match drop_while is_mspace s3 with
            | e :: rest => if e =? C_GT then Some rest else None
            | [] => None
            end
          | None => None
          end
        else None
      | [] => None
      end
    else None
  | [] => None
  end.

(* a tag found in a comment text; offsets are byte offsets in that text *)
Inductive tag :=
| TStart (lo hi : N) (a : attrs)     (* [lo, hi): from '<' to just after '>' *)
| TEnd (lo : N).

(* scan forward from `s` (which sits at byte offset `off`) for the first '<'
   that begins a tag; returns the tag and the text after it *)
Fixpoint scan_tag (s : str) (off : N) : option (tag * str * N) :=
  match s with
  | [] => None
  | c :: s' =>
    if c =? C_LT then
      match parse_start_tag s with
      | Some (a, rest) =>
        let hi := off + (blen s - blen rest) in Some (TStart off hi a, rest, hi)
      | None =>
        match parse_end_tag s with
        | Some rest => Some (TEnd off, rest, off + (blen s - blen rest))
        | None => scan_tag s' (off + 1)
        end
      end
    else scan_tag s' (off + u8len c)
  end.

(* all tags of a comment text, in order *)
Fixpoint tags_from (fuel : nat) (s : str) (off : N) : list tag :=
  match fuel with
  | O => []
  | S f =>
    match scan_tag s off with
    | Some (t, rest, off') => t :: tags_from f rest off'
    | None => []
    end
  end.
Definition tags_of (text : str) : list tag := tags_from (S (length text)) text 0.

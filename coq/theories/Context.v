(* Context.v - blocks.rs::parse_blocks: which files are examined and how the
   validation context is assembled from the walk and the diff. *)
From BW Require Export Select Suffix Run.
From BWGen Require Import ExtTable.

Record rfile := {
  rf_path : str; rf_text : str; rf_spans : list cspan;
  rf_exists : bool;      (* the directory walk yields it (not hidden, not git-ignored) *)
  rf_readable : bool;    (* reading it succeeds (it is on disk) *)
  rf_allow : bool;       (* positional globs match (globset oracle) *)
  rf_ignore : bool       (* an --ignore glob matches (globset oracle) *)
}.

Record cresult := { cr_ctx : context; cr_errs : list N; cr_panic : bool }.

Definition find_file (p : str) (fs : list rfile) : option rfile :=
  find (fun f => str_eqb (rf_path f) p) fs.

(* parse_file: None = no grammar for this name (skipped silently, never read) *)
Definition parse_one (ext_map : list (str * str)) (f : rfile) (all : bool) (lcs : list lchange)
  : option (res (list bctx)) :=
  match grammar_of ext_table ext_map (rf_path f) with
  | None => None
  | Some _ =>
    Some (if rf_readable f then
            let? bs := parse_file (rf_text f) (rf_spans f) in Ok (select_blocks all lcs bs)
          else Err E_READ)
  end.

Definition add_result (f : rfile) (r : option (res (list bctx))) (acc : cresult) : cresult :=
  match r with
  | None => acc
  | Some (Ok []) => acc
  | Some (Ok bs) =>
    {| cr_ctx := cr_ctx acc ++ [{| fc_path := rf_path f; fc_text := rf_text f; fc_blocks := bs |}];
       cr_errs := cr_errs acc; cr_panic := cr_panic acc |}
  | Some (Err e) => {| cr_ctx := cr_ctx acc; cr_errs := cr_errs acc ++ [e]; cr_panic := cr_panic acc |}
  | Some (Panic _) => {| cr_ctx := cr_ctx acc; cr_errs := cr_errs acc; cr_panic := true |}
  end.

Definition changes_for (p : str) (changes : list (str * list lchange)) : option (list lchange) := assoc p changes.

(* the scan loop: every walked file that is allowed and not ignored, all of its blocks *)
Fixpoint scan_files (ext_map : list (str * str)) (fs : list rfile) (changes : list (str * list lchange))
                    (acc : cresult) : cresult :=
  match fs with
  | [] => acc
  | f :: fs' =>
    if rf_exists f && rf_allow f && negb (rf_ignore f) then
      let lcs := match changes_for (rf_path f) changes with Some l => l | None => [] end in
      scan_files ext_map fs' changes (add_result f (parse_one ext_map f true lcs) acc)
    else scan_files ext_map fs' changes acc
  end.

Definition scanned (f : rfile) : bool := rf_exists f && rf_allow f && negb (rf_ignore f).

(* the diff loop: remaining diff files, not ignored, touched blocks only *)
Fixpoint diff_files (ext_map : list (str * str)) (all : list rfile) (scan : bool)
                    (changes : list (str * list lchange)) (acc : cresult) : cresult :=
  match changes with
  | [] => acc
  | (p, lcs) :: rest =>
    match find_file p all with
    | None => {| cr_ctx := cr_ctx acc; cr_errs := cr_errs acc ++ [E_ORACLE_MISS]; cr_panic := cr_panic acc |}
    | Some f =>
      if (scan && scanned f) || rf_ignore f then diff_files ext_map all scan rest acc
      else diff_files ext_map all scan rest (add_result f (parse_one ext_map f false lcs) acc)
    end
  end.

Definition build_context (ext_map : list (str * str)) (fs : list rfile) (scan : bool)
                         (changes : list (str * list lchange)) : cresult :=
  let acc0 := {| cr_ctx := []; cr_errs := []; cr_panic := false |} in
  let acc1 := if scan then scan_files ext_map fs changes acc0 else acc0 in
  diff_files ext_map fs scan changes acc1.

(* SpecTag.v - the printing side of the tag grammar: what "a start tag written
   as <block + whitespace-separated attributes" means, for the statements of C05. *)
From BW Require Export Tag.

Inductive aval := VNone | VBare (s : str) | VSq (s : str) | VDq (s : str).

(* one attribute as written: whitespace before it, its name, whitespace before
   and after '=', and the value form *)
Record pattr := { p_ws : str; p_name : str; p_w1 : str; p_w2 : str; p_val : aval }.

Definition print_val (v : aval) : str :=
  match v with
  | VNone => []
  | VBare s => s
  | VSq s => [C_SQ] ++ s ++ [C_SQ]
  | VDq s => [C_DQ] ++ s ++ [C_DQ]
  end.

Definition print_attr (p : pattr) : str :=
  p_ws p ++ p_name p ++
  match p_val p with
  | VNone => []
  | v => p_w1 p ++ [C_EQ] ++ p_w2 p ++ print_val v
  end.

Definition print_attrs (ps : list pattr) : str := concat (map print_attr ps).

Definition print_start (ps : list pattr) (wend : str) : str :=
  T "<block" ++ print_attrs ps ++ wend ++ [C_GT].

Definition print_end (w1 w2 w3 : str) : str :=
  [C_LT] ++ w1 ++ [C_SL] ++ w2 ++ T "block" ++ w3 ++ [C_GT].

Definition mspace_str (s : str) : Prop := forallb is_mspace s = true.
Definition name_str (s : str) : Prop := s <> [] /\ forallb is_name_char s = true.

Definition wf_pattr (p : pattr) : Prop :=
  p_ws p <> [] /\ mspace_str (p_ws p) /\ name_str (p_name p) /\
  mspace_str (p_w1 p) /\ mspace_str (p_w2 p) /\
  match p_val p with
  | VNone => True
  | VBare s => name_str s
  | VSq s => ~ In C_SQ s
  | VDq s => ~ In C_DQ s
  end.

Definition attr_of (p : pattr) : str * str :=
  (p_name p, match p_val p with VNone => [] | VBare s | VSq s | VDq s => s end).

(* text in which no '<' begins a block tag, whatever follows the text *)
Definition foreign (noise : str) : Prop :=
  forall pre suf follow, noise = pre ++ C_LT :: suf ->
    parse_start_tag (C_LT :: suf ++ follow) = None /\ parse_end_tag (C_LT :: suf ++ follow) = None.

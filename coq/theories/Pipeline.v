(* Pipeline.v - one file: comment spans -> comments -> blocks; one run:
   files -> context -> validators -> report.  Mirrors blocks.rs::parse_file,
   validators/mod.rs::run and main.rs::process_violations. *)
From BW Require Export Blocks Validators.

(* a comment node as tree-sitter hands it over: byte span, which normaliser the
   language's visitor applies, and which sub-parse it belongs to (0 = the
   language's own comments, 1 = HTML comments inside Markdown html blocks) *)
Record cspan := { cs_lo : N; cs_hi : N; cs_kind : N; cs_group : N }.

Definition mk_comment (file : str) (sp : cspan) : res (option comment) :=
  match bslice file (cs_lo sp) (cs_hi sp) with
  | None => Panic 40
  | Some raw =>
    let? t := normalise (cs_kind sp) raw in
    match t with
    | None => Ok None
    | Some text =>
      Ok (Some {| c_lo := cs_lo sp; c_hi := cs_hi sp;
                  c_ps := pos_of_offset file (cs_lo sp);
                  c_pe := pos_of_offset file (cs_hi sp);
                  c_text := text |})
    end
  end.

Fixpoint mk_comments (file : str) (sps : list cspan) : res (list comment) :=
  match sps with
  | [] => Ok []
  | sp :: sps' =>
    let? c := mk_comment file sp in
    let? cs := mk_comments file sps' in
    Ok (match c with Some c => c :: cs | None => cs end)
  end.

Definition parse_file (file : str) (sps : list cspan) : res (list block) :=
  let? main := mk_comments file (filter (fun sp => cs_group sp =? 0) sps) in
  let? html := mk_comments file (filter (fun sp => negb (cs_group sp =? 0)) sps) in
  let? a := parse_blocks_from_comments main in
  let? b := parse_blocks_from_comments html in
  Ok (merge_blocks (length a + length b) a b).

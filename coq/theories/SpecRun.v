(* SpecRun.v - executable specifications for the properties about a whole
   validation run: exit status and report (C11), malformed rules fail closed
   (C13), --enable / --disable (C14), determinism (C20). They are relations on
   what the implementation was observed to do; the model's prediction is
   compared separately. *)
From BW Require Export RunCase.

(* C11: exit 1 exactly when some diagnostic has severity error *)
Definition exit_matches (ob : obs) : bool :=
  match ob with
  | ObsReport ds ex => ex =? (if existsb (fun pd => d_sev (snd pd) =? 1) ds then 1 else 0)
  | ObsErr _ => true
  | ObsPanic => false
  end.

(* shape: facts about the CLI's output judged by the harness (one JSON object on
   stderr keyed by root-relative path, every diagnostic has range/code/message/
   severity 1-4, nothing printed when there is no diagnostic, stdout empty) *)
Definition check_run (c : rcase) (ob : obs) (shape : bool) : N :=
  verdict (run_agrees (model_run c) ob) (exit_matches ob && shape) (full_missed c).

(* the same run observed in-process and through the CLI *)
Definition obs_eqb (a b : obs) : bool :=
  match a, b with
  | ObsReport x ex, ObsReport y ey => mset_eqb pdiag_eqb x y && (ex =? ey)
  | ObsErr _, ObsErr _ => true
  | ObsPanic, ObsPanic => true
  | _, _ => false
  end.

Definition check_run2 (c : rcase) (inproc cli : obs) (shape : bool) : N :=
  verdict (run_agrees (model_run c) cli && run_agrees (model_run c) inproc)
          (exit_matches cli && shape && obs_eqb inproc cli) (full_missed c).

(* C13: a malformed rule never passes silently: the run stops with an error, or
   (for a rule that is only evaluated lazily) the block gets a diagnostic *)
Definition check_malformed (c : rcase) (ob : obs) (bad_file : str) (bad_line : N) (lazy_ok : bool) : N :=
  let spec :=
    match ob with
    | ObsErr _ => true
    | ObsReport ds ex =>
      lazy_ok && existsb (fun pd => str_eqb (fst pd) bad_file && (bad_line <=? d_sl (snd pd))) ds
    | ObsPanic => false
    end in
  verdict (run_agrees (model_run c) ob) spec (full_missed c).

(* C14: o0 = unrestricted run, o1 = run with the flag; keep v = the validator's
   diagnostics survive the flag *)
Definition spec_flag (keep : N -> bool) (o0 o1 : obs) : bool :=
  match o0, o1 with
  | ObsReport d0 _, ObsReport d1 e1 =>
    mset_eqb pdiag_eqb (filter (fun pd => keep (d_code (snd pd))) d0) d1
    && (e1 =? (if existsb (fun pd => d_sev (snd pd) =? 1) d1 then 1 else 0))
  | ObsErr _, _ => true          (* the unrestricted run fails: nothing is claimed about the restricted one *)
  | ObsReport _ _, ObsErr _ => false
  | _, _ => false
  end.

Definition check_flag (c0 c1 : rcase) (o0 o1 : obs) (enable : bool) (vs : list N) : N :=
  let keep := fun v => if enable then existsb (N.eqb v) vs else negb (existsb (N.eqb v) vs) in
  verdict (run_agrees (model_run c0) o0 && run_agrees (model_run c1) o1)
          (spec_flag keep o0 o1) (full_missed c0 || full_missed c1).

(* C20: every variant of the same run gives the same exit status and the same
   set of diagnostics (an error may show a different message but stays an error) *)
Definition check_same (c : rcase) (runs : list obs) : N :=
  match runs with
  | [] => 4
  | r0 :: rest =>
    verdict (forallb (run_agrees (model_run c)) runs) (forallb (obs_eqb r0) rest) (full_missed c)
  end.

Definition lobs_eqb (a b : lobs) : bool :=
  match a, b with
  | LObsList x, LObsList y => mset_eqb plblock_eqb x y
  | LObsErr _, LObsErr _ => true
  | LObsPanic, LObsPanic => true
  | _, _ => false
  end.

Definition check_same_list (c : rcase) (runs : list lobs) : N :=
  match runs with
  | [] => 4
  | r0 :: rest =>
    verdict (forallb (list_agrees_c (model_context c)) runs) (forallb (lobs_eqb r0) rest)
            (context_missed (model_context c))
  end.

(* C15 / C16: the listed blocks must be exactly those, known by construction, of
   the files in scope / of the files whose names select a grammar; `None` when
   the run must be rejected up front *)
Definition spec_scope (exp : option (list (str * lblock))) (o : lobs) : bool :=
  match exp, o with
  | Some e, LObsList bs => mset_eqb plblock_eqb e bs
  | None, LObsErr _ => true
  | _, _ => false
  end.

Definition check_scope (c : rcase) (lo : lobs) (exp : option (list (str * lblock))) (extra : bool) : N :=
  verdict (match exp with
           | Some _ => list_agrees_c (model_context c) lo
           | None => true        (* flag validation happens before the modelled part *)
           end)
          (spec_scope exp lo && extra) (context_missed (model_context c)).

(* C18 / C19: the diagnostics expected by construction (None = the run must fail) *)
Definition spec_expected_diags (exp : option (list (str * diag))) (ob : obs) : bool :=
  match exp, ob with
  | Some e, ObsReport ds _ => mset_eqb pdiag_eqb e ds
  | None, ObsErr _ => true
  | _, _ => false
  end.

Definition check_expected (c : rcase) (ob : obs) (exp : option (list (str * diag))) (extra : bool) : N :=
  verdict (run_agrees (model_run c) ob) (spec_expected_diags exp ob && exit_matches ob && extra) (full_missed c).

Definition debug_expected (c : rcase) (ob : obs) (exp : option (list (str * diag))) (extra : bool) :=
  let m := model_run c in
  (vr_errs m, vr_panic m,
   match ob with
   | ObsReport ds _ => (filter (fun d => negb (existsb (pdiag_eqb d) ds)) (vr_diags m),
                        filter (fun d => negb (existsb (pdiag_eqb d) (vr_diags m))) ds)
   | _ => ([], [])
   end).

(* C04: on arbitrary input the run ends with a report or a readable error, never
   a panic / abort / timeout; the model (run on the comment spans the grammar
   produced) must predict the same outcome *)
Definition no_crash (lo : lobs) (ro : obs) : bool :=
  match lo with LObsPanic => false | _ => match ro with ObsPanic => false | _ => true end end.

Definition check_robust (c : rcase) (co : cobs) (lo : lobs) (ro : obs) (cli_ok : bool) : N :=
  verdict (full_agrees c co lo ro) (no_crash lo ro && cli_ok) (full_missed c).

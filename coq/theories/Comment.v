(* Comment.v - the comment normalisers of src/language_parsers/*.rs: each maps
   the raw text of a comment node to a text of the same byte length with the
   comment delimiters blanked.  `None` = the node is not a comment for
   blockwatch (shebang, Markdown reference that is not `[//]:`), `Panic` where
   the Rust would panic. *)
From BW Require Export Defs.

Definition spaces (n : N) : str := repeat 32 (N.to_nat n).

(* str::replacen(p, r, 1) *)
Definition replace1 (p r s : str) : str :=
  match find_sub p s with
  | Some (pre, rest) => pre ++ r ++ skipn (length p) rest
  | None => s
  end.

(* one line of a block comment's interior: a decorative leading '*' is blanked *)
Definition deco_line (l : str) : str :=
  match drop_while is_ws l with
  | 42 :: r => take_while is_ws l ++ 32 :: r
  | _ => l
  end.

Definition deco (content : str) : str := concat (map deco_line (split_incl_nl content)).

(* c_style_multiline_comment_processor (total version: see DESIGN F7) *)
Definition c_multiline (s : str) : str :=
  match find_sub (T "/*") s with
  | None => s
  | Some (pre, rest) =>
    let body := skipn 2 rest in
    match rfind_sub (T "*/") body with
    | Some (content, close) => pre ++ T "  " ++ deco content ++ T "  " ++ skipn 2 close
    | None => pre ++ T "  " ++ deco body
    end
  end.

(* xml_style_comments_parser; Panic sites 20 (no opener) 21 (no closer) 22 (overlap) *)
Definition xml_comment (s : str) : res str :=
  match find_sub (T "<!--") s with
  | None => Panic 20
  | Some (pre, rest) =>
    match rfind_sub (T "-->") s with
    | None => Panic 21
    | Some (upto, close) =>
      (* close index must be >= open index + 4 *)
      if blen upto <? blen pre + 4 then Panic 22
      else
        match rfind_sub (T "-->") (skipn 4 rest) with
        | Some (mid, close') => Ok (pre ++ T "    " ++ mid ++ T "   " ++ skipn 3 close')
        | None => Panic 22
        end
    end
  end.

Definition is_md_open (c : char) : bool := (c =? 40) || (c =? 34) || (c =? 39).
(* every byte becomes a space, line breaks are kept *)
Definition blank_all (s : str) : str :=
  concat (map (fun c => if c =? 10 then [10] else spaces (u8len c)) s).

(* Markdown link reference definition used as a comment: [//]: # (text) *)
Definition md_ref_comment (s : str) : option str :=
  match find_sub (T "[//]:") s with
  | None => None
  | Some (pre, rest) =>
    let after := skipn 5 rest in
    match find_char is_md_open after with
    | None => None
    | Some (skipped, o :: body) =>
      let closec := if o =? 40 then 41 else o in
      match rfind_sub [closec] body with
      | None => None
      | Some (content, tail) =>
        Some (pre ++ T "     " ++ blank_all skipped ++ T " " ++ content ++ T " " ++ skipn 1 tail)
      end
    | Some (_, []) => None
    end
  end.

(* comment kinds = which normaliser the language's visitor applies *)
Definition K_HASH := 0.      (* python, ruby, toml, yaml, make: replacen("#"," ",1) *)
Definition K_BASH := 1.      (* as K_HASH, shebang skipped *)
Definition K_C := 2.         (* c, cpp, go, js, ts, tsx: "//" line or block *)
Definition K_CLINE := 3.     (* java, kotlin, swift line comment *)
Definition K_CBLOCK := 4.    (* block comment: rust, java, kotlin, swift, css, sql marginalia *)
Definition K_RUST_LINE := 5.
Definition K_PHP := 6.
Definition K_SQL_LINE := 7.
Definition K_CS := 8.
Definition K_XML := 9.       (* html, xml *)
Definition K_MD_REF := 10.
Definition K_RAW := 11.      (* html comment inside a Markdown html block: text unchanged *)

Definition line2 (s : str) : str := replace1 (T "//") (T "  ") s.

Definition normalise (kind : N) (s : str) : res (option str) :=
  if kind =? K_HASH then Ok (Some (replace1 (T "#") (T " ") s))
  else if kind =? K_BASH then
    if starts_with (T "#!") s then Ok None else Ok (Some (replace1 (T "#") (T " ") s))
  else if kind =? K_C then
    Ok (Some (if starts_with (T "//") s then line2 s else c_multiline s))
  else if kind =? K_CLINE then Ok (Some (line2 s))
  else if kind =? K_CBLOCK then Ok (Some (c_multiline s))
  else if kind =? K_RUST_LINE then
    Ok (Some (if starts_with (T "///") s then replace1 (T "///") (T "   ") s
              else if starts_with (T "//!") s then replace1 (T "//!") (T "   ") s
              else if starts_with (T "//") s then line2 s
              else s))
  else if kind =? K_PHP then
    Ok (Some (if starts_with (T "//") s then line2 s
              else if starts_with (T "#") s then replace1 (T "#") (T " ") s
              else c_multiline s))
  else if kind =? K_SQL_LINE then Ok (Some (replace1 (T "--") (T "  ") s))
  else if kind =? K_CS then
    Ok (Some (if starts_with (T "///") s then replace1 (T "///") (T "   ") s
              else if starts_with (T "//") s then line2 s
              else c_multiline s))
  else if kind =? K_XML then
    match xml_comment s with Ok t => Ok (Some t) | Err e => Err e | Panic p => Panic p end
  else if kind =? K_MD_REF then Ok (md_ref_comment s)
  else Ok (Some s).

(* Select.v - src/blocks.rs: which blocks a diff touches (start tag /
   content), which files are examined, and the validation context. *)
From BW Require Export LineChanges Pipeline.

(* end column of the comparison: None = usize::MAX *)
Definition range_hits_incl (sc : N) (ec : option N) (r : N * N) : bool :=
  (sc <? snd r) && (match ec with None => true | Some e => fst r <=? e end).
Definition range_hits_excl (sc : N) (ec : option N) (r : N * N) : bool :=
  (sc <? snd r) && (match ec with None => true | Some e => fst r <? e end).

(* intersects_with_line_change_inclusive: the start tag's position range, both ends inclusive *)
Definition tag_hit (b : block) (lc : lchange) : bool :=
  if lc_line lc <? fst (b_ts b) then false
  else if fst (b_te b) <? lc_line lc then false
  else
    match lc_ranges lc with
    | None => true
    | Some rs =>
      let sc := if lc_line lc =? fst (b_ts b) then snd (b_ts b) - 1 else 0 in
      let ec := if lc_line lc <? fst (b_te b) then None else Some (snd (b_te b) - 1) in
      existsb (range_hits_incl sc ec) rs
    end.

(* intersects_with_line_change: the content position range, end exclusive in the column *)
Definition content_hit (b : block) (lc : lchange) : bool :=
  if lc_line lc <? fst (b_cs b) then false
  else if fst (b_ce b) <? lc_line lc then false
  else
    match lc_ranges lc with
    | None => true
    | Some rs =>
      let sc := if lc_line lc =? fst (b_cs b) then snd (b_cs b) - 1 else 0 in
      let ec := if lc_line lc <? fst (b_ce b) then None else Some (snd (b_ce b) - 1) in
      existsb (range_hits_excl sc ec) rs
    end.

Definition tag_modified (b : block) (lcs : list lchange) : bool := existsb (tag_hit b) lcs.
Definition content_modified (b : block) (lcs : list lchange) : bool := existsb (content_hit b) lcs.

Definition mk_bctx (lcs : list lchange) (b : block) : bctx :=
  {| bc_block := b; bc_tagmod := tag_modified b lcs; bc_contmod := content_modified b lcs |}.

(* BlocksFilter::All keeps every block; ModifiedOnly keeps the touched ones *)
Definition select_blocks (all : bool) (lcs : list lchange) (bs : list block) : list bctx :=
  filter (fun bc => all || bc_contmod bc || bc_tagmod bc) (map (mk_bctx lcs) bs).

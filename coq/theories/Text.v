(* Text.v - strings as lists of Unicode scalar values, with the UTF-8 byte
   arithmetic blockwatch relies on (all positions and columns in blockwatch are
   byte based).  Faithful ports of the Rust `str` methods the code uses. *)
From Coq Require Export List NArith Bool Lia.
From Coq.Strings Require Export Byte.
Export ListNotations.
Open Scope N_scope.

Definition char := N.
Definition str := list char.

(* ---------- results ---------- *)
Inductive res (A : Type) : Type :=
| Ok (a : A)
| Err (e : N)       (* error class, see Case.v for the enum *)
| Panic (site : N). (* the Rust would panic here *)
Arguments Ok {A} a.
Arguments Err {A} e.
Arguments Panic {A} site.

Definition bind {A B} (r : res A) (f : A -> res B) : res B :=
  match r with Ok a => f a | Err e => Err e | Panic s => Panic s end.
Notation "'let?' x ':=' r 'in' b" := (bind r (fun x => b))
  (at level 200, x pattern, r at level 100, b at level 200).

(* ---------- UTF-8 ---------- *)
Definition u8len (c : char) : N :=
  if c <? 128 then 1 else if c <? 2048 then 2 else if c <? 65536 then 3 else 4.

Fixpoint blen (s : str) : N :=
  match s with [] => 0 | c :: s' => u8len c + blen s' end.

Definition nlen {A} (l : list A) : N := N.of_nat (length l).

(* decode a UTF-8 byte list (as N < 256).  Total; malformed bytes are passed
   through unchanged (the harness only ever supplies valid UTF-8). *)
Fixpoint utf8_decode_fuel (fuel : nat) (bs : list N) : str :=
  match fuel with
  | O => []
  | S fuel' =>
    match bs with
    | [] => []
    | b0 :: r0 =>
      if b0 <? 128 then b0 :: utf8_decode_fuel fuel' r0
      else if b0 <? 224 then
        match r0 with
        | b1 :: r1 => ((b0 - 192) * 64 + (b1 - 128)) :: utf8_decode_fuel fuel' r1
        | _ => [b0]
        end
      else if b0 <? 240 then
        match r0 with
        | b1 :: b2 :: r2 =>
          ((b0 - 224) * 4096 + (b1 - 128) * 64 + (b2 - 128)) :: utf8_decode_fuel fuel' r2
        | _ => [b0]
        end
      else
        match r0 with
        | b1 :: b2 :: b3 :: r3 =>
          ((b0 - 240) * 262144 + (b1 - 128) * 4096 + (b2 - 128) * 64 + (b3 - 128))
            :: utf8_decode_fuel fuel' r3
        | _ => [b0]
        end
    end
  end.
Definition utf8_decode (bs : list N) : str := utf8_decode_fuel (length bs) bs.

(* byte-string literals: "..."%bs is a list of bytes; [T "..."] decodes UTF-8 *)
Inductive bstr := BStr (l : list byte).
Definition bstr_of (l : list byte) : bstr := BStr l.
Definition bstr_to (b : bstr) : list byte := match b with BStr l => l end.
Declare Scope bstr_scope.
Delimit Scope bstr_scope with bs.
String Notation bstr bstr_of bstr_to : bstr_scope.
Definition T (b : bstr) : str := utf8_decode (map Byte.to_N (bstr_to b)).
Arguments T b%bs.

(* ---------- equality ---------- *)
Fixpoint str_eqb (a b : str) : bool :=
  match a, b with
  | [], [] => true
  | x :: a', y :: b' => (x =? y) && str_eqb a' b'
  | _, _ => false
  end.

(* lexicographic comparison by code point (= UTF-8 byte order = Rust `str::cmp`) *)
Fixpoint str_cmp (a b : str) : comparison :=
  match a, b with
  | [], [] => Eq
  | [], _ :: _ => Lt
  | _ :: _, [] => Gt
  | x :: a', y :: b' =>
    match x ?= y with Eq => str_cmp a' b' | c => c end
  end.

(* ---------- character classes ---------- *)
(* char::is_whitespace (Unicode White_Space), 25 code points; compared with
   Rust's over all scalars by the harness on every run *)
Definition is_ws (c : char) : bool :=
  ((9 <=? c) && (c <=? 13)) || (c =? 32) || (c =? 133) || (c =? 160) || (c =? 5760)
  || ((8192 <=? c) && (c <=? 8202)) || (c =? 8232) || (c =? 8233) || (c =? 8239)
  || (c =? 8287) || (c =? 12288).

(* winnow::ascii::multispace: space, \t, \r, \n *)
Definition is_mspace (c : char) : bool :=
  (c =? 32) || (c =? 9) || (c =? 13) || (c =? 10).

Definition is_ascii_digit (c : char) : bool := (48 <=? c) && (c <=? 57).

Definition ascii_lower (c : char) : char :=
  if (65 <=? c) && (c <=? 90) then c + 32 else c.
Definition str_ascii_lower (s : str) : str := map ascii_lower s.
Definition eq_ignore_ascii_case (a b : str) : bool :=
  str_eqb (str_ascii_lower a) (str_ascii_lower b).

(* ---------- slicing by predicates ---------- *)
Fixpoint drop_while (p : char -> bool) (s : str) : str :=
  match s with
  | [] => []
  | c :: s' => if p c then drop_while p s' else s
  end.
Fixpoint take_while (p : char -> bool) (s : str) : str :=
  match s with
  | [] => []
  | c :: s' => if p c then c :: take_while p s' else []
  end.

Definition trim_start (s : str) : str := drop_while is_ws s.
Definition trim_end (s : str) : str := rev (drop_while is_ws (rev s)).
Definition trim (s : str) : str := trim_end (trim_start s).
(* byte offset of the trimmed text inside s (pointer difference in the Rust) *)
Definition trim_off (s : str) : N := blen (take_while is_ws s).

(* ---------- prefixes, search ---------- *)
Fixpoint starts_with (p s : str) : bool :=
  match p, s with
  | [], _ => true
  | x :: p', y :: s' => (x =? y) && starts_with p' s'
  | _ :: _, [] => false
  end.
Fixpoint strip_prefix (p s : str) : option str :=
  match p, s with
  | [], _ => Some s
  | x :: p', y :: s' => if x =? y then strip_prefix p' s' else None
  | _ :: _, [] => None
  end.

(* first occurrence: (chars before, rest starting at the match) *)
Fixpoint find_sub (p s : str) : option (str * str) :=
  if starts_with p s then Some ([], s) else
  match s with
  | [] => None
  | c :: s' =>
    match find_sub p s' with
    | Some (pre, rest) => Some (c :: pre, rest)
    | None => None
    end
  end.
(* byte index of first occurrence *)
Definition find_idx (p s : str) : option N :=
  match find_sub p s with Some (pre, _) => Some (blen pre) | None => None end.

(* last occurrence: (chars before, rest starting at the match) *)
Fixpoint rfind_sub (p s : str) : option (str * str) :=
  match s with
  | [] => if starts_with p [] then Some ([], []) else None
  | c :: s' =>
    match rfind_sub p s' with
    | Some (pre, rest) => Some (c :: pre, rest)
    | None => if starts_with p s then Some ([], s) else None
    end
  end.
Definition rfind_idx (p s : str) : option N :=
  match rfind_sub p s with Some (pre, _) => Some (blen pre) | None => None end.

Fixpoint find_char (p : char -> bool) (s : str) : option (str * str) :=
  match s with
  | [] => None
  | c :: s' =>
    if p c then Some ([], s) else
    match find_char p s' with
    | Some (pre, rest) => Some (c :: pre, rest)
    | None => None
    end
  end.

(* split_once on a single char *)
Definition split_once (d : char) (s : str) : option (str * str) :=
  match find_char (N.eqb d) s with
  | Some (pre, _ :: post) => Some (pre, post)
  | _ => None
  end.

(* split on a single char (Rust `split(',')`: always at least one piece) *)
Fixpoint split_on (d : char) (s : str) : list str :=
  match s with
  | [] => [[]]
  | c :: s' =>
    if c =? d then [] :: split_on d s'
    else match split_on d s' with
         | [] => [[c]]
         | p :: ps => (c :: p) :: ps
         end
  end.

(* ---------- str::lines ---------- *)
Definition starts_nl (s : str) : bool :=
  match s with 10 :: _ => true | _ => false end.

(* split at '\n', strip one '\r' before each '\n', no final empty piece *)
Fixpoint lines (s : str) : list str :=
  match s with
  | [] => []
  | c :: s' =>
    if c =? 10 then [] :: lines s'
    else if (c =? 13) && starts_nl s' then lines s'
    else match lines s' with
         | [] => [[c]]
         | l :: ls => (c :: l) :: ls
         end
  end.

(* split_inclusive('\n') *)
Fixpoint split_incl_nl (s : str) : list str :=
  match s with
  | [] => []
  | c :: s' =>
    if c =? 10 then [10] :: split_incl_nl s'
    else match split_incl_nl s' with
         | [] => [[c]]
         | l :: ls => (c :: l) :: ls
         end
  end.

(* ---------- byte slicing ---------- *)
(* chars of s whose byte offset lies in [a, b); Panic-free helper used after
   boundary checks *)
Fixpoint bskip (s : str) (n : N) : option str :=   (* drop exactly n bytes *)
  if n =? 0 then Some s else
  match s with
  | [] => None
  | c :: s' => if u8len c <=? n then bskip s' (n - u8len c) else None
  end.
Fixpoint btake (s : str) (n : N) : option str :=   (* take exactly n bytes *)
  if n =? 0 then Some [] else
  match s with
  | [] => None
  | c :: s' =>
    if u8len c <=? n then
      match btake s' (n - u8len c) with Some t => Some (c :: t) | None => None end
    else None
  end.
(* &s[a..b]; None = the Rust panics (out of range or off a char boundary) *)
Definition bslice (s : str) (a b : N) : option str :=
  if b <? a then None else
  match bskip s a with
  | Some r => btake r (b - a)
  | None => None
  end.

(* ---------- positions ---------- *)
(* (line, col) 1-based, col in bytes, of byte offset `off` in `s`
   (tree-sitter's row/column + 1) *)
Fixpoint pos_of_offset_aux (s : str) (off line col : N) : N * N :=
  if off =? 0 then (line, col) else
  match s with
  | [] => (line, col)
  | c :: s' =>
    if c =? 10 then pos_of_offset_aux s' (off - 1) (line + 1) 1
    else pos_of_offset_aux s' (off - u8len c) line (col + u8len c)
  end.
Definition pos_of_offset (s : str) (off : N) : N * N := pos_of_offset_aux s off 1 1.

(* ---------- decimal ---------- *)
Fixpoint digits_val (acc : N) (s : str) : option N :=
  match s with
  | [] => Some acc
  | c :: s' => if is_ascii_digit c then digits_val (acc * 10 + (c - 48)) s' else None
  end.
(* usize::from_str: optional '+', at least one digit, overflow at 2^64 *)
Definition parse_usize (s : str) : option N :=
  let d := match s with c :: r => if c =? 43 then r else s | [] => s end in
  match d with
  | [] => None
  | _ => match digits_val 0 d with
         | Some n => if n <? 18446744073709551616 then Some n else None
         | None => None
         end
  end.

(* decimal printing, used by statements (round trip) and by diagnostics data *)
Fixpoint dec_fuel (fuel : nat) (n : N) (acc : str) : str :=
  match fuel with
  | O => acc
  | S f =>
    let acc' := (48 + n mod 10) :: acc in
    if n <? 10 then acc' else dec_fuel f (n / 10) acc'
  end.
Definition dec (n : N) : str := dec_fuel (S (N.to_nat (N.log2 n))) n [].

(* assoc lookup with str keys *)
Fixpoint assoc {A} (k : str) (l : list (str * A)) : option A :=
  match l with
  | [] => None
  | (k', v) :: l' => if str_eqb k k' then Some v else assoc k l'
  end.
(* last binding wins (HashMap insert semantics over a parse-ordered list) *)
Definition assoc_last {A} (k : str) (l : list (str * A)) : option A := assoc k (rev l).

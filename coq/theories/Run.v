(* Run.v - a validation run over a context: which validators are detected,
   what each reports, how results are merged, exit status.
   Mirrors validators/mod.rs and main.rs::process_violations. *)
From BW Require Export Pipeline.

(* one file of the validation context *)
Record fctx := { fc_path : str; fc_text : str; fc_blocks : list bctx }.
Definition context := list fctx.

(* ---------- affects ---------- *)
Definition parse_affects_ref (r : str) : res (option str * str) :=
  let b := trim r in
  match split_once 58 b with
  | None => Err E_AFFECTS
  | Some (f, n) =>
    let f' := trim f in
    Ok (match f' with [] => None | _ => Some f' end, trim n)
  end.
Fixpoint parse_affects (refs : list str) : res (list (option str * str)) :=
  match refs with
  | [] => Ok []
  | r :: rs => let? x := parse_affects_ref r in let? xs := parse_affects rs in Ok (x :: xs)
  end.
Definition parse_affects_attribute (v : str) : res (list (option str * str)) :=
  parse_affects (split_on 44 v).

Definition named_modified (ctx : context) : list (str * str) :=
  flat_map (fun f =>
    flat_map (fun bc =>
      if bc_contmod bc then
        match get_attr (T "name") (b_attrs (bc_block bc)) with
        | Some n => [(fc_path f, n)]
        | None => []
        end
      else []) (fc_blocks f)) ctx.

Definition mem_pair (p : str * str) (l : list (str * str)) : bool :=
  existsb (fun q => str_eqb (fst p) (fst q) && str_eqb (snd p) (snd q)) l.

Definition affects_block (nm : list (str * str)) (path : str) (bc : bctx) : res (list diag) :=
  if bc_contmod bc then
    match get_attr (T "affects") (b_attrs (bc_block bc)) with
    | None => Ok []
    | Some v =>
      let? refs := parse_affects_attribute v in
      let missing := filter (fun r => negb (mem_pair r nm))
                       (map (fun r => (match fst r with Some f => f | None => path end, snd r)) refs) in
      match missing with
      | [] => Ok []
      | _ =>
        let? sev := sev_of (b_attrs (bc_block bc)) in
        Ok (map (fun r => tag_diag (bc_block bc) V_AFFECTS sev [fst r; snd r]) missing)
      end
    end
  else Ok [].

(* ---------- check-lua / check-ai ---------- *)
Definition extract_content (o : oracles) (pat_attr : str) (e_bad : N) (b : block) (content : str) : res str :=
  match get_attr pat_attr (b_attrs b) with
  | None => Ok (trim content)
  | Some pat =>
    match o_rx_ok o pat with
    | None => Err E_ORACLE_MISS
    | Some false => Err e_bad
    | Some true =>
      match o_rx o pat content with
      | None => Err E_ORACLE_MISS
      | Some None => Ok []
      | Some (Some (ms, me, g)) =>
        let '(a, b) := match g with Some (vs, ve) => (vs, ve) | None => (ms, me) end in
        match bslice content a b with Some k => Ok k | None => Err E_ORACLE_MISS end
      end
    end
  end.

(* lua oracle classes: 0 nil, 1 string, others = failure *)
Definition check_lua_block (o : oracles) (path file : str) (b : block) : res (list diag) :=
  match get_attr (T "check-lua") (b_attrs b) with
  | None => Ok []
  | Some script =>
    let? content0 := content_of file b in
    let? content := extract_content o (T "check-lua-pattern") E_LUA_PATTERN b content0 in
    (* the script sees ctx.file and ctx.line (and the attributes, which the tag at that line determines) *)
    match o_lua o script (path ++ 58 :: dec (fst (b_ts b))) content with
    | None => Err E_ORACLE_MISS
    | Some (cls, msg) =>
      if cls =? 0 then Ok []
      else if cls =? 1 then
        let? sev := sev_of (b_attrs b) in
        Ok [tag_diag b V_LUA sev [script; msg]]
      else Err E_LUA_SCRIPT
    end
  end.

(* reply classification: OK / OK. in any ASCII case passes *)
Definition ai_reply_ok (r : str) : bool :=
  eq_ignore_ascii_case r (T "OK") || eq_ignore_ascii_case r (T "OK.").

(* ai oracle classes: 0 reply, others = fault *)
Definition check_ai_block (o : oracles) (file : str) (b : block) : res (list diag) :=
  match get_attr (T "check-ai") (b_attrs b) with
  | None => Ok []
  | Some cond =>
    let? content0 := content_of file b in
    let? content := extract_content o (T "check-ai-pattern") E_AI_PATTERN b content0 in
    match o_ai o cond content with
    | None => Err E_ORACLE_MISS
    | Some (cls, msg) =>
      if cls =? 0 then
        if ai_reply_ok msg then Ok []
        else
          let? sev := sev_of (b_attrs b) in
          Ok [tag_diag b V_AI sev [trim cond; msg]]
      else Err E_AI_API
    end
  end.

(* ---------- one validator on one block ---------- *)
Definition validate_block (o : oracles) (nm : list (str * str)) (v : N) (f : fctx) (bc : bctx)
  : res (list diag) :=
  let b := bc_block bc in
  if v =? V_AFFECTS then affects_block nm (fc_path f) bc
  else if v =? V_SORTED then keep_sorted o (fc_text f) b
  else if v =? V_UNIQUE then keep_unique o (fc_text f) b
  else if v =? V_PATTERN then line_pattern o (fc_text f) b
  else if v =? V_COUNT then line_count (fc_text f) b
  else if v =? V_AI then check_ai_block o (fc_text f) b
  else check_lua_block o (fc_path f) (fc_text f) b.

(* pre-pass failures of the async validators: empty script path / condition
   (checked for every block before any task is spawned) *)
Definition prepass_block (v : N) (bc : bctx) : res unit :=
  let a := b_attrs (bc_block bc) in
  if v =? V_LUA then
    match get_attr (T "check-lua") a with
    | Some p => match trim p with [] => Err E_LUA_EMPTY | _ => Ok tt end
    | None => Ok tt
    end
  else if v =? V_AI then
    match get_attr (T "check-ai") a with
    | Some p => match trim p with [] => Err E_AI_EMPTY | _ => Ok tt end
    | None => Ok tt
    end
  else Ok tt.

(* does validator v fire on this block (ValidatorDetector::detect) *)
Definition detects (v : N) (bc : bctx) : bool :=
  let a := b_attrs (bc_block bc) in
  if v =? V_AFFECTS then bc_contmod bc && has_attr (T "affects") a
  else if v =? V_SORTED then has_attr (T "keep-sorted") a
  else if v =? V_UNIQUE then has_attr (T "keep-unique") a
  else if v =? V_PATTERN then has_attr (T "line-pattern") a
  else if v =? V_COUNT then has_attr (T "line-count") a
  else if v =? V_AI then has_attr (T "check-ai") a
  else has_attr (T "check-lua") a.

Definition all_validators : list N := [0; 1; 2; 3; 4; 5; 6].

Definition all_blocks (ctx : context) : list bctx := flat_map fc_blocks ctx.

(* the set of active validators after --enable / --disable *)
Definition active_validators (enabled disabled : list N) : list N :=
  filter (fun v => match enabled with
                   | [] => negb (existsb (N.eqb v) disabled)
                   | _ => existsb (N.eqb v) enabled
                   end) all_validators.

(* the lazy detection loop of detect_validators, over the iteration order
   `order` of all blocks: detectors are popped from the back, undetected ones
   pushed back, loop ends early when none is left *)
Fixpoint try_detectors (ds : list N) (bc : bctx) (undetected detected : list N) : list N * list N :=
  match ds with
  | [] => (undetected, detected)
  | d :: ds' =>
    if detects d bc then try_detectors ds' bc undetected (detected ++ [d])
    else try_detectors ds' bc (undetected ++ [d]) detected
  end.
Fixpoint detect_loop (pending : list N) (order : list bctx) (detected : list N) : list N :=
  match order with
  | [] => detected
  | bc :: order' =>
    (* pop() takes from the back: iterate the reversed vector *)
    let '(undetected, detected') := try_detectors (rev pending) bc [] detected in
    match undetected with
    | [] => detected'
    | _ => detect_loop undetected order' detected'
    end
  end.
Definition detected_validators (enabled disabled : list N) (ctx : context) : list N :=
  detect_loop (active_validators enabled disabled) (all_blocks ctx) [].

(* ---------- results ---------- *)
(* everything one validator reports: per file diagnostics, or the errors it may
   stop with (which one is shown depends on map iteration order) *)
Record vresult := { vr_diags : list (str * diag); vr_errs : list N; vr_panic : bool }.

Definition vres_empty : vresult := {| vr_diags := []; vr_errs := []; vr_panic := false |}.
Definition vres_app (a b : vresult) : vresult :=
  {| vr_diags := vr_diags a ++ vr_diags b; vr_errs := vr_errs a ++ vr_errs b;
     vr_panic := vr_panic a || vr_panic b |}.

Definition vres_of (path : str) (r : res (list diag)) : vresult :=
  match r with
  | Ok ds => {| vr_diags := map (fun d => (path, d)) ds; vr_errs := []; vr_panic := false |}
  | Err e => {| vr_diags := []; vr_errs := [e]; vr_panic := false |}
  | Panic _ => {| vr_diags := []; vr_errs := []; vr_panic := true |}
  end.

Definition run_validator (o : oracles) (ctx : context) (v : N) : vresult :=
  let nm := named_modified ctx in
  let pre := flat_map (fun f => flat_map (fun bc =>
               match prepass_block v bc with Err e => [e] | _ => [] end) (fc_blocks f)) ctx in
  match pre with
  | _ :: _ => {| vr_diags := []; vr_errs := pre; vr_panic := false |}
  | [] =>
    fold_right vres_app vres_empty
      (flat_map (fun f => map (fun bc => vres_of (fc_path f) (validate_block o nm v f bc))
                              (fc_blocks f)) ctx)
  end.

Definition run_validators (o : oracles) (ctx : context) (vs : list N) : vresult :=
  fold_right vres_app vres_empty (map (run_validator o ctx) vs).

Definition has_error (r : vresult) : bool := existsb (fun pd => d_sev (snd pd) =? 1) (vr_diags r).

(* exit status of a validation run: 1 iff an Err stops the run or some
   diagnostic has severity error *)
Definition exit_code (r : vresult) : N :=
  match vr_errs r with
  | _ :: _ => 1
  | [] => if has_error r then 1 else 0
  end.

(* Lang.v - src/language_parsers/*.rs, the part blockwatch owns: which comment
   convention (normaliser) the visitor of each registered language applies to
   a comment node.  The grammar picks the nodes (tree-sitter, trusted; the
   spans are recorded from the implementation); which normaliser runs on a node
   is decided here, from the file name alone - the case files' own kind field
   is ignored. *)
From BW Require Export Pipeline Suffix.
From BWGen Require Import ExtTable.

Definition F_HASH := 0.       (* python ruby toml yaml make: '#' *)
Definition F_BASH := 1.       (* as F_HASH, shebang is not a comment *)
Definition F_C := 2.          (* c cpp go go.mod js ts tsx: one visitor for // and block comments *)
Definition F_LINEBLOCK := 3.  (* java kotlin swift: line_comment and block/multiline_comment nodes *)
Definition F_RUST := 4.
Definition F_PHP := 5.
Definition F_SQL := 6.
Definition F_CS := 7.
Definition F_CSS := 8.
Definition F_XML := 9.        (* html xml *)
Definition F_MD := 10.

(* by suffix, as read off language_parsers/*.rs *)
Definition family_hand : list (str * N) :=
  map (fun p => (T (fst p), snd p)) [
    ("Makefile", F_HASH); ("bash", F_BASH); ("c", F_C); ("cc", F_C); ("cpp", F_C); ("cs", F_CS);
    ("css", F_CSS); ("d.ts", F_C); ("go", F_C); ("go.mod", F_C); ("go.sum", F_C); ("go.work", F_C);
    ("h", F_C); ("htm", F_XML); ("html", F_XML); ("java", F_LINEBLOCK); ("js", F_C); ("jsx", F_C);
    ("kt", F_LINEBLOCK); ("kts", F_LINEBLOCK); ("makefile", F_HASH); ("markdown", F_MD); ("md", F_MD);
    ("mk", F_HASH); ("php", F_PHP); ("phtml", F_PHP); ("py", F_HASH); ("pyi", F_HASH); ("rb", F_HASH);
    ("rs", F_RUST); ("sh", F_BASH); ("sql", F_SQL); ("swift", F_LINEBLOCK); ("toml", F_HASH);
    ("ts", F_C); ("tsx", F_C); ("xml", F_XML); ("yaml", F_HASH); ("yml", F_HASH) ]%bs.

(* The table the model uses is derived from the REFLECTED extension table: every registered suffix
   gets the convention of the hand-listed suffixes that share its parser object (one parser object =
   one visitor = one convention).  A new alias suffix of a known language is thereby covered; a
   registered suffix whose parser object is shared with no hand-listed suffix has no entry
   (Lang_proofs.every_class_known then fails: the model cannot vouch for that language). *)
Fixpoint class_family_in (hand : list (str * N)) (c : N) : option N :=
  match hand with
  | [] => None
  | (s, f) :: r =>
    match assoc s ext_table with
    | Some c' => if c' =? c then Some f else class_family_in r c
    | None => class_family_in r c
    end
  end.
Definition class_family (c : N) : option N := class_family_in family_hand c.
Definition family_table : list (str * N) :=
  flat_map (fun kv => match class_family (snd kv) with Some f => [(fst kv, f)] | None => [] end) ext_table.

Definition is_block_comment (raw : str) : bool := starts_with (T "/*") raw.

(* raw = the node's text; group = which sub-parse produced it (Markdown: 0 = link
   reference definitions, 1 = HTML comments inside html blocks) *)
Definition kind_of (fam : N) (raw : str) (group : N) : N :=
  if fam =? F_HASH then K_HASH
  else if fam =? F_BASH then K_BASH
  else if fam =? F_C then K_C
  else if fam =? F_LINEBLOCK then (if is_block_comment raw then K_CBLOCK else K_CLINE)
  else if fam =? F_RUST then (if is_block_comment raw then K_CBLOCK else K_RUST_LINE)
  else if fam =? F_PHP then K_PHP
  else if fam =? F_SQL then (if is_block_comment raw then K_CBLOCK else K_SQL_LINE)
  else if fam =? F_CS then K_CS
  else if fam =? F_CSS then K_CBLOCK
  else if fam =? F_XML then K_XML
  else if fam =? F_MD then (if group =? 0 then K_MD_REF else K_RAW)
  else K_RAW.

(* the family the file name selects: the same walk over the name as the grammar lookup *)
Definition family_of (ext_map : list (str * str)) (path : str) : option N :=
  grammar_of family_table ext_map path.

Definition rekind_span (fam : option N) (text : str) (sp : cspan) : cspan :=
  {| cs_lo := cs_lo sp; cs_hi := cs_hi sp;
     cs_kind := match fam, bslice text (cs_lo sp) (cs_hi sp) with
                | Some f, Some raw => kind_of f raw (cs_group sp)
                | _, _ => K_RAW
                end;
     cs_group := cs_group sp |}.

Definition rekind (ext_map : list (str * str)) (path text : str) (sps : list cspan) : list cspan :=
  map (rekind_span (family_of ext_map path) text) sps.

(* Blocks.v - from comments to blocks: src/block_parser.rs.
   A comment is given by its span in the file (byte range and positions, as
   tree-sitter reports them) and its normalised text. *)
From BW Require Export Tag Comment.

Record comment := {
  c_lo : N; c_hi : N;        (* byte range in the file *)
  c_ps : pos; c_pe : pos;    (* start / end position (1-based line, byte column) *)
  c_text : str               (* normalised text, same byte length as the range *)
}.

Definition count_nl (s : str) : N := nlen (filter (N.eqb 10) s).

(* BlockStart::source_position_at, literally:
     line = start.line + text[..p+1].lines().count() - 1
     col  = start.col + p                     on the comment's first line
          = p - text[..p].rfind('\n')          otherwise *)
Definition source_position_at (c : comment) (p : N) : res pos :=
  match bslice (c_text c) 0 (p + 1), bslice (c_text c) 0 p with
  | Some upto, Some before =>
    let nl := nlen (lines upto) in
    if nl =? 0 then Panic 30 (* usize underflow; unreachable: upto is non-empty *)
    else
      let line := fst (c_ps c) + nl - 1 in
      if line =? fst (c_ps c) then Ok (line, snd (c_ps c) + p)
      else
        match rfind_idx [10] before with
        | Some i => Ok (line, p - i)
        | None => Ok (line, p)
        end
  | _, _ => Panic 31
  end.

(* a tag occurrence: the comment it sits in (by index in the comment list) *)
Inductive ptag :=
| PStart (ci : nat) (c : comment) (a : attrs) (ts te : pos)
| PEnd (ci : nat) (c : comment) (lo : N).

Definition ptags_of_comment (ci : nat) (c : comment) : res (list ptag) :=
  (fix go (ts : list tag) : res (list ptag) :=
     match ts with
     | [] => Ok []
     | TStart lo hi a :: ts' =>
       let? ps := source_position_at c lo in
       let? pe := source_position_at c (hi - 1) in
       let? r := go ts' in
       Ok (PStart ci c a ps pe :: r)
     | TEnd lo :: ts' =>
       let? r := go ts' in
       Ok (PEnd ci c lo :: r)
     end) (tags_of (c_text c)).

Fixpoint ptags_from (ci : nat) (cs : list comment) : res (list ptag) :=
  match cs with
  | [] => Ok []
  | c :: cs' =>
    let? a := ptags_of_comment ci c in
    let? b := ptags_from (S ci) cs' in
    Ok (a ++ b)
  end.

Definition mk_block (ci : nat) (c : comment) (a : attrs) (ts te : pos)
                    (cj : nat) (e : comment) : block :=
  let same := Nat.eqb ci cj in
  {| b_attrs := a; b_ts := ts; b_te := te;
     b_clo := if same then 0 else c_hi c;
     b_chi := if same then 0 else c_lo e;
     b_cs := c_pe c; b_ce := c_ps e |}.

(* the start-tag stack; Err on surplus end tag or unclosed start tag *)
Fixpoint pair_tags (ts : list ptag) (stack : list ptag) (acc : list block) : res (list block) :=
  match ts with
  | [] => match stack with [] => Ok (rev acc) | _ :: _ => Err E_PARSE end
  | (PStart _ _ _ _ _ as t) :: ts' => pair_tags ts' (t :: stack) acc
  | PEnd cj e _ :: ts' =>
    match stack with
    | PStart ci c a ts0 te0 :: stack' =>
      pair_tags ts' stack' (mk_block ci c a ts0 te0 cj e :: acc)
    | _ => Err E_PARSE
    end
  end.

(* stable insertion sort by start-tag position *)
Fixpoint insert_block (b : block) (l : list block) : list block :=
  match l with
  | [] => [b]
  | x :: l' => if pos_ltb (b_ts x) (b_ts b) then x :: insert_block b l' else b :: l
  end.
Definition sort_blocks (l : list block) : list block := fold_right insert_block [] l.

Definition parse_blocks_from_comments (cs : list comment) : res (list block) :=
  let? ts := ptags_from 0 cs in
  let? bs := pair_tags ts [] [] in
  Ok (sort_blocks bs).

(* itertools::merge of two sorted block lists (left first on ties) *)
Fixpoint merge_blocks (fuel : nat) (a b : list block) : list block :=
  match fuel with
  | O => a ++ b
  | S f =>
    match a, b with
    | [], _ => b
    | _, [] => a
    | x :: a', y :: b' =>
      if pos_leb (b_ts x) (b_ts y) then x :: merge_blocks f a' b else y :: merge_blocks f a b'
    end
  end.

(* LineChanges.v - src/diff_parser.rs: from parsed hunks to the list of line
   changes (new-file line, optional changed byte ranges). *)
From BW Require Export Unidiff.

(* similar::DiffOp over chars; indices and lengths are in chars *)
Inductive diffop :=
| DEqual (oi ni len : N)
| DDelete (oi olen ni : N)
| DInsert (oi ni nlen : N)
| DReplace (oi olen ni nlen : N).

Definition is_delete (op : diffop) : bool := match op with DDelete _ _ _ => true | _ => false end.

Record lchange := { lc_line : N; lc_ranges : option (list (N * N)) }.   (* ranges: 0-based [start, end) in bytes *)

(* push_or_merge_range: merge with the LAST range when they touch, then sink *)
Fixpoint sink (r : N * N) (rev_sorted : list (N * N)) : list (N * N) :=
  (* rev_sorted is the vector reversed (last element first) *)
  match rev_sorted with
  | [] => [r]
  | x :: rest => if fst r <? fst x then x :: sink r rest else r :: rev_sorted
  end.
Definition push_or_merge (ranges_rev : list (N * N)) (new : N * N) : list (N * N) :=
  match ranges_rev with
  | last :: rest =>
    if (fst new <=? snd last) && (fst last <=? snd new) then
      sink (N.min (fst new) (fst last), N.max (snd new) (snd last)) rest
    else sink new ranges_rev
  | [] => [new]
  end.

(* byte offset of the char with index i in s (s.len() when i is past the end) *)
Fixpoint byte_at (s : str) (i : N) : N :=
  if i =? 0 then 0 else
  match s with
  | [] => 0
  | c :: s' => u8len c + byte_at s' (i - 1)
  end.

(* line_diff: changed byte ranges of `new`, from the char-level ops *)
Fixpoint line_diff_ops (new : str) (ops : list diffop) (prev_delete : bool) (acc_rev : list (N * N))
  : list (N * N) :=
  match ops with
  | [] => rev acc_rev
  | op :: ops' =>
    let acc' :=
      match op with
      | DDelete _ _ ni =>
        if prev_delete then acc_rev
        else
          let nchars := nlen new in
          let i := N.min (nchars - 1) ni in
          push_or_merge acc_rev (byte_at new i, if nchars =? 0 then 1 else byte_at new (i + 1))
      | DInsert _ ni nl => push_or_merge acc_rev (byte_at new ni, byte_at new (ni + nl))
      | DReplace _ _ ni nl => push_or_merge acc_rev (byte_at new ni, byte_at new (ni + nl))
      | DEqual _ _ _ => acc_rev
      end in
    line_diff_ops new ops' (is_delete op) acc'
  end.

(* deque handling of removed lines *)
Definition fold_deleted (deleted : list dline) (acc_rev : list lchange) : list lchange :=
  match deleted with
  | d :: _ => {| lc_line := dl_src d; lc_ranges := None |} :: acc_rev
  | [] => acc_rev
  end.

Definition clear_or_fold (prev_added : bool) (deleted : list dline) (acc_rev : list lchange) : list lchange :=
  if prev_added then acc_rev else fold_deleted deleted acc_rev.

Section WithDiff.
(* the char-level diff of (old, new) is an oracle (the `similar` crate) *)
Context (cdiff : str -> str -> option (list diffop)).

(* one hunk's lines; state: deque of deleted lines, whether the previous line
   was an added line (prev_line persists across hunks), accumulated changes.
   None = the oracle table has no entry *)
Fixpoint hunk_lines (ls : list dline) (deleted : list dline) (prev_added : bool) (acc_rev : list lchange)
  : option (list dline * bool * list lchange) :=
  match ls with
  | [] => Some (deleted, prev_added, acc_rev)
  | l :: ls' =>
    match dl_kind l with
    | KAdd =>
      match deleted with
      | d :: deleted' =>
        match cdiff (dl_val d) (dl_val l) with
        | None => None
        | Some ops =>
          hunk_lines ls' deleted' true
            ({| lc_line := dl_tgt l; lc_ranges := Some (line_diff_ops (dl_val l) ops false []) |} :: acc_rev)
        end
      | [] => hunk_lines ls' [] true ({| lc_line := dl_tgt l; lc_ranges := None |} :: acc_rev)
      end
    | KDel => hunk_lines ls' (deleted ++ [l]) false acc_rev
    | KCtx =>
      (* clear_or_fold looks at the line BEFORE this one; afterwards the deque is empty *)
      hunk_lines ls' [] false (clear_or_fold prev_added deleted acc_rev)
    | KOther => hunk_lines ls' deleted false acc_rev
    end
  end.

Fixpoint hunks_changes (hs : list hunk) (deleted : list dline) (prev_added : bool) (acc_rev : list lchange)
  : option (list lchange) :=
  match hs with
  | [] => Some (rev acc_rev)
  | h :: hs' =>
    match hunk_lines (h_lines h) deleted prev_added acc_rev with
    | None => None
    | Some (deleted', prev_added', acc') =>
      (* end of hunk: clear_or_fold, deque emptied either way *)
      hunks_changes hs' [] prev_added' (clear_or_fold prev_added' deleted' acc')
    end
  end.

Definition line_changes (f : pfile) : option (list lchange) := hunks_changes (pf_hunks f) [] false [].

(* line_changes_from_diff: map keyed by target path, removed files skipped,
   a later section for the same path replaces an earlier one *)
Fixpoint changes_of_files (fs : list pfile) (acc : list (str * list lchange)) : res (list (str * list lchange)) :=
  match fs with
  | [] => Ok acc
  | f :: fs' =>
    if is_removed_file f then changes_of_files fs' acc
    else
      match line_changes f with
      | None => Err E_ORACLE_MISS
      | Some lcs =>
        let p := target_path f in
        changes_of_files fs' (filter (fun e => negb (str_eqb (fst e) p)) acc ++ [(p, lcs)])
      end
  end.

Definition line_changes_from_diff (diff : str) : res (list (str * list lchange)) :=
  let? fs := parse_patch diff in changes_of_files fs [].
End WithDiff.

(* Defs.v - records shared by all model files: attributes, blocks, diagnostics,
   error classes, oracles. *)
From BW Require Export Text.

(* attribute list in parse order; HashMap::insert semantics = last wins *)
Definition attrs := list (str * str).
Definition get_attr (k : str) (a : attrs) : option str := assoc_last k a.
Definition has_attr (k : str) (a : attrs) : bool :=
  match get_attr k a with Some _ => true | None => false end.

Definition pos := (N * N)%type.   (* (line, byte column), both 1-based *)
Definition pos_ltb (a b : pos) : bool :=
  (fst a <? fst b) || ((fst a =? fst b) && (snd a <? snd b)).
Definition pos_leb (a b : pos) : bool :=
  (fst a <? fst b) || ((fst a =? fst b) && (snd a <=? snd b)).

Record block := {
  b_attrs : attrs;
  b_ts : pos;           (* position of the start tag's '<' *)
  b_te : pos;           (* position of the start tag's '>' *)
  b_clo : N;            (* content byte range [b_clo, b_chi) in the file *)
  b_chi : N;
  b_cs : pos;           (* content position range (end of start comment .. start of end comment) *)
  b_ce : pos
}.

Record bctx := {
  bc_block : block;
  bc_tagmod : bool;
  bc_contmod : bool
}.

(* validator codes *)
Definition V_AFFECTS := 0.
Definition V_SORTED := 1.
Definition V_UNIQUE := 2.
Definition V_PATTERN := 3.
Definition V_COUNT := 4.
Definition V_AI := 5.
Definition V_LUA := 6.

Record diag := {
  d_sl : N; d_sc : N; d_el : N; d_ec : N;
  d_code : N;
  d_sev : N;              (* 1 error, 2 warning, 3 info, 4 hint *)
  d_data : list str       (* canonical data fields, per code *)
}.

(* error classes (recognised by message prefix in the harness) *)
Definition E_PARSE := 1.          (* "Failed to parse file" : unbalanced tags *)
Definition E_SORT_DIR := 2.
Definition E_SORT_FMT := 3.
Definition E_SORT_PATTERN := 4.
Definition E_NOT_NUMBER := 5.
Definition E_UNIQUE_PATTERN := 6.
Definition E_LINE_PATTERN := 7.
Definition E_LINE_COUNT := 8.
Definition E_AFFECTS := 9.
Definition E_SEVERITY := 10.
Definition E_LUA_EMPTY := 11.
Definition E_LUA_SCRIPT := 12.
Definition E_LUA_PATTERN := 13.
Definition E_AI_EMPTY := 14.
Definition E_AI_API := 15.
Definition E_AI_PATTERN := 16.
Definition E_DIFF := 17.
Definition E_READ := 18.
Definition E_FLAGS := 19.
(* a message the harness cannot classify (reworded, or new).  The properties never pin the wording
   or the kind of an error - only that the run fails - so ANY observed error agrees with any
   predicted error; the classes are kept in the evidence for the reader *)
Definition E_UNKNOWN := 98.
Definition E_ORACLE_MISS := 99.   (* the case file lacks an oracle entry: harness bug, never a verdict *)

(* ---------- oracles (external engines; finite tables per case) ---------- *)
(* regex: whole match byte range and optional "value" group byte range *)
Definition rxmatch := (N * N * option (N * N))%type.
Record oracles := {
  o_rx_ok : str -> option bool;                       (* does the pattern compile *)
  o_rx : str -> str -> option (option rxmatch);       (* captures(pattern, text) *)
  o_f64 : str -> option (option N);                   (* str::parse::<f64> -> to_bits *)
  o_lua : str -> str -> str -> option (N * str);      (* script path, file, content -> (class, message) *)
  o_ai : str -> str -> option (N * str)               (* condition, content -> (class, reply) *)
}.

Definition sev_of (a : attrs) : res N :=
  match get_attr (T "severity") a with
  | None => Ok 1
  | Some s =>
    let l := str_ascii_lower s in
    if str_eqb l (T "error") then Ok 1
    else if str_eqb l (T "warning") then Ok 2
    else if str_eqb l (T "info") then Ok 3
    else if str_eqb l (T "hint") then Ok 4
    else Err E_SEVERITY
  end.

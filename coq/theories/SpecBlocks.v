(* SpecBlocks.v - what "the well-nested tag pairs" means: the Dyck matching of
   a tag sequence, for the statements of C03 and C12. *)
From BW Require Export Blocks.

(* Dyck ts bs: ts is balanced and bs are its matched pairs, each built from its
   own start and end tag, listed in the order of their end tags *)
Inductive Dyck : list ptag -> list block -> Prop :=
| Dyck_nil : Dyck [] []
| Dyck_cat : forall a b ba bb, Dyck a ba -> Dyck b bb -> Dyck (a ++ b) (ba ++ bb)
| Dyck_wrap : forall ci c at0 ts te inner bi cj e lo,
    Dyck inner bi ->
    Dyck (PStart ci c at0 ts te :: inner ++ [PEnd cj e lo]) (bi ++ [mk_block ci c at0 ts te cj e]).

Definition sorted_by_start (bs : list block) : Prop :=
  forall i j a b, (i < j)%nat -> nth_error bs i = Some a -> nth_error bs j = Some b ->
                  pos_ltb (b_ts b) (b_ts a) = false.

(* position reached from `p0` after the first `n` bytes of `s` *)
Definition advance (s : str) (n : N) (p0 : pos) : pos := pos_of_offset_aux s n (fst p0) (snd p0).

(* byte-level shape of a text: one entry per byte, true where the byte is '\n' *)
Definition byte_shape (s : str) : list bool :=
  concat (map (fun c => repeat (c =? 10) (N.to_nat (u8len c))) s).

(* Validators.v - the four content validators (keep-sorted, keep-unique,
   line-pattern, line-count) as functions of one block and its file text.
   Mirrors src/validators/{keep_sorted,keep_unique,line_pattern,line_count}.rs. *)
From BW Require Export Defs.

Definition content_of (file : str) (b : block) : res str :=
  match bslice file (b_clo b) (b_chi b) with
  | Some c => Ok c
  | None => Panic 1            (* &source[range] off a boundary / out of range *)
  end.

(* a key: index of its line in the content, key text, 1-based inclusive byte
   columns relative to that content line *)
Record key := { k_idx : N; k_val : str; k_a : N; k_b : N }.

Definition trimmed_key (idx : N) (line : str) : option key :=
  match trim line with
  | [] => None
  | t => let a := trim_off line + 1 in
         Some {| k_idx := idx; k_val := t; k_a := a; k_b := a + blen t - 1 |}
  end.

Definition regex_key (o : oracles) (pat : str) (idx : N) (line : str) : res (option key) :=
  match o_rx o pat line with
  | None => Err E_ORACLE_MISS
  | Some None => Ok None
  | Some (Some (ms, me, g)) =>
    let '(a, b) := match g with Some (vs, ve) => (vs, ve) | None => (ms, me) end in
    match bslice line a b with
    | Some k => Ok (Some {| k_idx := idx; k_val := k; k_a := a + 1; k_b := b |})
    | None => Err E_ORACLE_MISS
    end
  end.

Fixpoint keys_trim (idx : N) (ls : list str) : list key :=
  match ls with
  | [] => []
  | l :: ls' =>
    match trimmed_key idx l with
    | Some k => k :: keys_trim (idx + 1) ls'
    | None => keys_trim (idx + 1) ls'
    end
  end.

Fixpoint keys_rx (o : oracles) (pat : str) (idx : N) (ls : list str) : res (list key) :=
  match ls with
  | [] => Ok []
  | l :: ls' =>
    let? k := regex_key o pat idx l in
    let? ks := keys_rx o pat (idx + 1) ls' in
    Ok (match k with Some k => k :: ks | None => ks end)
  end.

(* keys of a block: `pat` empty -> trimmed lines; otherwise regex.  A pattern
   that does not compile is reported only when there is at least one line
   (the Rust matches on `Some(Err(e))` inside the loop). *)
Definition keys_of (o : oracles) (pat : str) (e_bad : N) (content : str) : res (list key) :=
  let ls := lines content in
  match pat with
  | [] => Ok (keys_trim 0 ls)
  | _ =>
    match o_rx_ok o pat with
    | None => Err E_ORACLE_MISS
    | Some false => match ls with [] => Ok [] | _ => Err e_bad end
    | Some true => keys_rx o pat 0 ls
    end
  end.

(* ---------- keep-sorted ---------- *)

(* f64 bit pattern helpers *)
Definition two63 : N := 9223372036854775808.
Definition f64_is_nan (bits : N) : bool :=
  let m := bits mod two63 in 9218868437227405312 <? m.   (* exp all ones, mantissa <> 0 *)
(* order-preserving key of total_cmp *)
Definition f64_total_key (bits : N) : N :=
  if bits <? two63 then two63 + bits else two63 - 1 - (bits - two63).
(* numeric order: as total order but with -0 = +0 (not for NaN) *)
Definition f64_num_key (bits : N) : N :=
  if bits =? two63 then two63 else f64_total_key bits.
(* f64::partial_cmp, falling back to total_cmp when a NaN is involved *)
Definition f64_cmp (a b : N) : comparison :=
  if f64_is_nan a || f64_is_nan b then f64_total_key a ?= f64_total_key b
  else f64_num_key a ?= f64_num_key b.

Inductive sort_format := Lexicographic | Numeric.

Definition sort_cmp (o : oracles) (f : sort_format) (a b : str) : res comparison :=
  match f with
  | Lexicographic => Ok (str_cmp a b)
  | Numeric =>
    match o_f64 o a with
    | None => Err E_ORACLE_MISS
    | Some None => Err E_NOT_NUMBER
    | Some (Some xa) =>
      match o_f64 o b with
      | None => Err E_ORACLE_MISS
      | Some None => Err E_NOT_NUMBER
      | Some (Some xb) => Ok (f64_cmp xa xb)
      end
    end
  end.

Definition cmp_eqb (a b : comparison) : bool :=
  match a, b with Eq, Eq | Lt, Lt | Gt, Gt => true | _, _ => false end.

(* scan: first key strictly out of order w.r.t. its predecessor *)
Fixpoint ks_scan (viol : str -> str -> res bool) (prev : str) (ks : list key) : res (option key) :=
  match ks with
  | [] => Ok None
  | k :: ks' =>
    let? v := viol prev (k_val k) in
    if v then Ok (Some k) else ks_scan viol (k_val k) ks'
  end.
Definition ks_check (viol : str -> str -> res bool) (ks : list key) : res (option key) :=
  match ks with [] => Ok None | k :: ks' => ks_scan viol (k_val k) ks' end.

(* range of a key diagnostic: line = content start line + index; on the first
   content line the columns are shifted by the content's start column *)
Definition key_diag (b : block) (k : key) (code sev : N) (data : list str) : diag :=
  let off := if k_idx k =? 0 then snd (b_cs b) - 1 else 0 in
  let line := fst (b_cs b) + k_idx k in
  {| d_sl := line; d_sc := k_a k + off; d_el := line; d_ec := k_b k + off;
     d_code := code; d_sev := sev; d_data := data |}.

Definition parse_direction (v : str) : res bool :=   (* true = asc *)
  let norm := match trim v with [] => T "asc" | _ => str_ascii_lower v end in
  if str_eqb norm (T "asc") then Ok true
  else if str_eqb norm (T "desc") then Ok false
  else Err E_SORT_DIR.

Definition parse_format (a : attrs) : res sort_format :=
  match get_attr (T "keep-sorted-format") a with
  | None => Ok Lexicographic
  | Some v =>
    match trim v with
    | [] => Ok Lexicographic
    | t => let l := str_ascii_lower t in
           if str_eqb l (T "lexicographic") then Ok Lexicographic
           else if str_eqb l (T "numeric") then Ok Numeric
           else Err E_SORT_FMT
    end
  end.

Definition keep_sorted (o : oracles) (file : str) (b : block) : res (list diag) :=
  match get_attr (T "keep-sorted") (b_attrs b) with
  | None => Ok []
  | Some v =>
    let? asc := parse_direction v in
    let pat := match get_attr (T "keep-sorted-pattern") (b_attrs b) with Some p => p | None => [] end in
    let? fmt := parse_format (b_attrs b) in
    let? content := content_of file b in
    let? ks := keys_of o pat E_SORT_PATTERN content in
    let viol := fun p c => let? r := sort_cmp o fmt p c in
                           Ok (cmp_eqb r (if asc then Gt else Lt)) in
    let? r := ks_check viol ks in
    match r with
    | None => Ok []
    | Some k =>
      let? sev := sev_of (b_attrs b) in
      Ok [key_diag b k V_SORTED sev [if asc then T "asc" else T "desc"]]
    end
  end.

(* ---------- keep-unique ---------- *)
Fixpoint mem_str (s : str) (l : list str) : bool :=
  match l with [] => false | x :: l' => str_eqb s x || mem_str s l' end.

Fixpoint ku_scan (seen : list str) (ks : list key) : option key :=
  match ks with
  | [] => None
  | k :: ks' => if mem_str (k_val k) seen then Some k else ku_scan (k_val k :: seen) ks'
  end.

Definition keep_unique (o : oracles) (file : str) (b : block) : res (list diag) :=
  match get_attr (T "keep-unique") (b_attrs b) with
  | None => Ok []
  | Some pat =>
    let? content := content_of file b in
    let? ks := keys_of o pat E_UNIQUE_PATTERN content in
    match ku_scan [] ks with
    | None => Ok []
    | Some k =>
      let? sev := sev_of (b_attrs b) in
      Ok [key_diag b k V_UNIQUE sev []]
    end
  end.

(* ---------- line-pattern ---------- *)
Fixpoint lp_scan (o : oracles) (pat : str) (idx : N) (ls : list str) : res (option key) :=
  match ls with
  | [] => Ok None
  | l :: ls' =>
    match trimmed_key idx l with
    | None => lp_scan o pat (idx + 1) ls'
    | Some k =>
      match o_rx o pat (k_val k) with
      | None => Err E_ORACLE_MISS
      | Some (Some _) => lp_scan o pat (idx + 1) ls'
      | Some None => Ok (Some k)
      end
    end
  end.

Definition line_pattern (o : oracles) (file : str) (b : block) : res (list diag) :=
  match get_attr (T "line-pattern") (b_attrs b) with
  | None => Ok []
  | Some pat =>
    match o_rx_ok o pat with
    | None => Err E_ORACLE_MISS
    | Some false => Err E_LINE_PATTERN
    | Some true =>
      let? content := content_of file b in
      let? r := lp_scan o pat 0 (lines content) in
      match r with
      | None => Ok []
      | Some k =>
        let? sev := sev_of (b_attrs b) in
        Ok [key_diag b k V_PATTERN sev [pat]]
      end
    end
  end.

(* ---------- line-count ---------- *)
Inductive cop := OLt | OLe | OEq | OGe | OGt.
Definition cop_str (op : cop) : str :=
  match op with OLt => T "<" | OLe => T "<=" | OEq => T "==" | OGe => T ">=" | OGt => T ">" end.
Definition cop_holds (op : cop) (actual expected : N) : bool :=
  match op with
  | OLt => actual <? expected
  | OLe => actual <=? expected
  | OEq => actual =? expected
  | OGe => expected <=? actual
  | OGt => expected <? actual
  end.

(* operator prefixes are tried in the order <= >= == < > *)
Definition strip_op (t : str) : option (cop * str) :=
  match strip_prefix (T "<=") t with Some r => Some (OLe, r) | None =>
  match strip_prefix (T ">=") t with Some r => Some (OGe, r) | None =>
  match strip_prefix (T "==") t with Some r => Some (OEq, r) | None =>
  match strip_prefix (T "<") t with Some r => Some (OLt, r) | None =>
  match strip_prefix (T ">") t with Some r => Some (OGt, r) | None => None
  end end end end end.

Definition parse_constraint (s : str) : option (cop * N) :=
  match strip_op (trim s) with
  | None => None
  | Some (op, r) =>
    match trim r with
    | [] => None
    | num => match parse_usize num with Some n => Some (op, n) | None => None end
    end
  end.

Definition nonblank (l : str) : bool := match trim l with [] => false | _ => true end.
Definition count_nonblank (content : str) : N :=
  match content with
  | [] => 0
  | _ => nlen (filter nonblank (lines content))
  end.

Definition tag_diag (b : block) (code sev : N) (data : list str) : diag :=
  {| d_sl := fst (b_ts b); d_sc := snd (b_ts b); d_el := fst (b_te b); d_ec := snd (b_te b);
     d_code := code; d_sev := sev; d_data := data |}.

Definition line_count (file : str) (b : block) : res (list diag) :=
  match get_attr (T "line-count") (b_attrs b) with
  | None => Ok []
  | Some expr =>
    match parse_constraint expr with
    | None => Err E_LINE_COUNT
    | Some (op, expected) =>
      let? content := content_of file b in
      let actual := count_nonblank content in
      if cop_holds op actual expected then Ok []
      else
        let? sev := sev_of (b_attrs b) in
        Ok [tag_diag b V_COUNT sev [dec actual; cop_str op; dec expected]]
    end
  end.

(* Main.v - src/main.rs and src/flags.rs: from the command line to the run.
   What is modelled: the value parsers of -E / -d / -e, Args::validate, the
   terminal-mode / glob / diff mode matrix, the repository-root check, the
   choice between `list` and the validation run, the exit status.
   What is trusted: clap's splitting of argv into the typed values (it rejects
   whatever a value parser rejects with exit status 2), globset (an oracle per
   file: rf_allow / rf_ignore), the directory walk (rf_exists). *)
From BW Require Export RunCase.
From BWGen Require Import ExtTable.

Definition E_USAGE := 20.     (* clap: usage error, exit status 2 *)
Definition E_ROOT := 21.      (* "Could not find the repository root directory" *)
Definition E_GLOB := 22.      (* "Invalid glob pattern" / "Invalid ignore glob pattern" *)

(* -E / -d / -e / --ignore are clap "global" flags: they may be typed before or
   after the `list` subcommand.  clap checks every occurrence with the flag's
   value parser, but hands main only the values of the DEEPEST level at which
   the flag occurs: values typed before `list` are dropped as soon as the same
   flag also occurs after it (observed on the real binary; finding F12). *)
Definition effective {A} (pre post : list A) : list A := match post with [] => pre | _ => post end.

Record cliargs := {
  ca_ext_pre : list str;      (* the values typed after -E / --extension, before the subcommand *)
  ca_ext_post : list str;     (* ... after `list` *)
  ca_dis_pre : list str;      (* after -d / --disable *)
  ca_dis_post : list str;
  ca_en_pre : list str;       (* after -e / --enable *)
  ca_en_post : list str;
  ca_ign_post : N;            (* number of --ignore globs typed after `list` *)
  ca_nglobs : N;              (* positional globs, top level plus those after `list` *)
  ca_globs_ok : bool;         (* Glob::new accepts each positional glob (globset oracle) *)
  ca_ign_pre_ok : bool;       (* ... and each --ignore glob typed before the subcommand *)
  ca_ign_post_ok : bool;      (* ... after it *)
  ca_list : bool;             (* the `list` subcommand *)
  ca_terminal : bool;         (* stdin is a terminal, or BLOCKWATCH_TERMINAL_MODE is set *)
  ca_stdin : str;             (* what stdin holds *)
  ca_root : bool              (* some ancestor of the start directory holds .git/ or .hg/ *)
}.

(* flags.rs::parse_extensions: split at the first '=', both sides trimmed *)
Definition parse_extension (s : str) : option (str * str) :=
  match split_once 61 s with
  | Some (k, v) => Some (trim k, trim v)
  | None => None
  end.

(* flags.rs::parse_validator: the value must be one of the registered names, as typed *)
Fixpoint index_of (s : str) (l : list str) (i : N) : option N :=
  match l with
  | [] => None
  | x :: r => if str_eqb s x then Some i else index_of s r (i + 1)
  end.
Definition parse_validator (s : str) : option N := index_of s validator_names 0.

Fixpoint map_opt {A B} (f : A -> option B) (l : list A) : option (list B) :=
  match l with
  | [] => Some []
  | x :: r => match f x, map_opt f r with Some y, Some ys => Some (y :: ys) | _, _ => None end
  end.

(* Args::validate: every -E value names a registered suffix *)
Definition supported (v : str) : bool := match assoc v ext_table with Some _ => true | None => false end.

Definition nonempty {A} (l : list A) : bool := match l with [] => false | _ => true end.

(* what main.rs hands to parse_blocks / detect_validators *)
Record plan := {
  pl_scan : bool;             (* should_scan_files *)
  pl_star : bool;             (* the glob set was replaced by "**" *)
  pl_diff : option str;       (* the diff that is read, if any *)
  pl_ext : list (str * str);
  pl_enabled : list N;
  pl_disabled : list N
}.

Definition ca_ext_raw (a : cliargs) : list str := ca_ext_pre a ++ ca_ext_post a.
Definition ca_dis_raw (a : cliargs) : list str := ca_dis_pre a ++ ca_dis_post a.
Definition ca_en_raw (a : cliargs) : list str := ca_en_pre a ++ ca_en_post a.

Definition plan_of (a : cliargs) : res plan :=
  (* every occurrence goes through its value parser ... *)
  match map_opt parse_extension (ca_ext_raw a), map_opt parse_validator (ca_dis_raw a),
        map_opt parse_validator (ca_en_raw a) with
  | Some _, Some _, Some _ =>
  (* ... main sees the effective ones *)
  match map_opt parse_extension (effective (ca_ext_pre a) (ca_ext_post a)),
        map_opt parse_validator (effective (ca_dis_pre a) (ca_dis_post a)),
        map_opt parse_validator (effective (ca_en_pre a) (ca_en_post a)) with
  | Some exts, Some dis, Some en =>
    if negb (forallb (fun kv => supported (snd kv)) exts) then Err E_FLAGS
    else if nonempty dis && nonempty en then Err E_FLAGS
    else if negb (ca_globs_ok a) then Err E_GLOB
    else
      let star := (ca_nglobs a =? 0) && ca_terminal a in
      let scan := star || negb (ca_nglobs a =? 0) in
      if negb (if ca_ign_post a =? 0 then ca_ign_pre_ok a else ca_ign_post_ok a) then Err E_GLOB
      else if negb (ca_root a) then Err E_ROOT
      else Ok {| pl_scan := scan; pl_star := star;
                 pl_diff := if ca_terminal a then None else Some (ca_stdin a);
                 pl_ext := exts; pl_enabled := en; pl_disabled := dis |}
  | _, _, _ => Err E_USAGE
  end
  | _, _, _ => Err E_USAGE
  end.

(* a file as main sees it: globset's verdict on the --ignore globs typed before
   and after the subcommand, separately *)
Record mfile := { mf_file : rfile; mf_ign_pre : bool; mf_ign_post : bool }.
Definition effective_file (a : cliargs) (m : mfile) : rfile :=
  let f := mf_file m in
  {| rf_path := rf_path f; rf_text := rf_text f; rf_spans := rf_spans f; rf_exists := rf_exists f;
     rf_readable := rf_readable f; rf_allow := rf_allow f;
     rf_ignore := if ca_ign_post a =? 0 then mf_ign_pre m else mf_ign_post m |}.
Definition mkmfile p t sp walked readable al ig_pre ig_post : mfile :=
  {| mf_file := mkrfile' p t sp walked readable al false; mf_ign_pre := ig_pre; mf_ign_post := ig_post |}.

(* with the "**" fallback every file is allowed *)
Definition allow_all (f : rfile) : rfile :=
  {| rf_path := rf_path f; rf_text := rf_text f; rf_spans := rf_spans f; rf_exists := rf_exists f;
     rf_readable := rf_readable f; rf_allow := true; rf_ignore := rf_ignore f |}.

Definition rcase_of (p : plan) (fs : list rfile) (tb : tables) (cd : list (str * str * list diffop)) : rcase :=
  {| rc_files := if pl_star p then map allow_all fs else fs;
     rc_diff := pl_diff p; rc_scan := pl_scan p; rc_ext := pl_ext p;
     rc_enabled := pl_enabled p; rc_disabled := pl_disabled p; rc_tables := tb; rc_cdiff := cd |}.

Inductive mainres :=
| MFail (cls : N)                 (* exit 2 for E_USAGE, exit 1 otherwise; nothing on stdout *)
| MList (cr : cresult)            (* `list`: the context that is printed (or its errors) *)
| MRun (v : vresult).             (* the validation run *)

Definition main_model (a : cliargs) (ms : list mfile) (tb : tables) (cd : list (str * str * list diffop)) : mainres :=
  match plan_of a with
  | Err e => MFail e
  | Panic _ => MFail E_USAGE
  | Ok p =>
    let c := rcase_of p (map (effective_file a) ms) tb cd in
    if ca_list a then MList (model_context c) else MRun (model_run c)
  end.

(* the process exit status *)
Definition main_exit (r : mainres) : N :=
  match r with
  | MFail e => if e =? E_USAGE then 2 else 1
  | MList cr => if cr_panic cr then 101 else match cr_errs cr with [] => 0 | _ => 1 end
  | MRun v => if vr_panic v then 101 else match vr_errs v with [] => exit_code v | _ => 1 end
  end.

(* ---------- what the binary was observed to do ---------- *)
Inductive mobs :=
| MObsFail (exit cls : N)         (* a complaint on stderr: exit status, message class *)
| MObsList (l : lobs)
| MObsRun (o : obs).

Definition main_agrees (r : mainres) (o : mobs) : bool :=
  match r, o with
  (* the exit status tells a usage error (2) from a refusal (1); the wording of a refusal is not pinned *)
  | MFail e, MObsFail x _ => x =? (if e =? E_USAGE then 2 else 1)
  | MFail e, MObsList (LObsErr _) => negb (e =? E_USAGE)
  | MFail e, MObsRun (ObsErr _) => negb (e =? E_USAGE)
  | MList cr, MObsList l => list_agrees_c cr l
  | MRun v, MObsRun ob => run_agrees v ob
  | _, _ => false
  end.

Definition main_missed (r : mainres) : bool :=
  match r with
  | MFail _ => false
  | MList cr => context_missed cr
  | MRun v => oracle_missed v
  end.

Definition mkcli e e' d d' n n' ip g gok iok iok' l t s r : cliargs :=
  {| ca_ext_pre := e; ca_ext_post := e'; ca_dis_pre := d; ca_dis_post := d'; ca_en_pre := n; ca_en_post := n';
     ca_ign_post := ip; ca_nglobs := g; ca_globs_ok := gok; ca_ign_pre_ok := iok; ca_ign_post_ok := iok';
     ca_list := l; ca_terminal := t; ca_stdin := s; ca_root := r |}.

(* the kind of every span is decided by the model (Lang.v), under the -E map main ends up with *)
Definition rekind_mfile (ext : list (str * str)) (m : mfile) : mfile :=
  {| mf_file := rekind_file ext (mf_file m); mf_ign_pre := mf_ign_pre m; mf_ign_post := mf_ign_post m |}.
Definition rekind_for (a : cliargs) (ms : list mfile) : list mfile :=
  match plan_of a with Ok p => map (rekind_mfile (pl_ext p)) ms | _ => ms end.

(* F12: the class of command lines on which values are dropped *)
Definition split_flags (a : cliargs) (ms : list mfile) : bool :=
  (nonempty (ca_ext_pre a) && nonempty (ca_ext_post a))
  || (negb (ca_ign_post a =? 0) && existsb (fun m => mf_ign_pre m && negb (mf_ign_post m)) ms).
Definition KNOWN_F12 := 8 + 4 * 256.

(* C15 through main: the listed blocks are those of the files in scope, by construction
   (None = the run must stop with an error) *)
Definition spec_scope_main (exp : option (list (str * lblock))) (o : mobs) : bool :=
  match exp, o with
  | Some e, MObsList (LObsList bs) => mset_eqb plblock_eqb e bs
  | None, MObsFail _ _ => true
  | None, MObsList (LObsErr _) => true
  | _, _ => false
  end.

(* C14 through main: the flagged run reports exactly the unrestricted run's diagnostics of the
   validators that stay switched on *)
Definition spec_flag_main (keep : N -> bool) (o0 : obs) (o1 : mobs) : bool :=
  match o0, o1 with
  | ObsReport ds0 _, MObsRun (ObsReport ds1 ex1) =>
    mset_eqb pdiag_eqb (filter (fun d => keep (d_code (snd d))) ds0) ds1
    && (ex1 =? (if existsb (fun d => d_sev (snd d) =? 1) ds1 then 1 else 0))
  | ObsErr _, _ => true
  | _, _ => false
  end.

(* verdict for a run of the real binary against the model of main *)
Definition check_main (a : cliargs) (fs : list mfile) (tb : tables) (cd : list (str * str * list diffop))
                      (o : mobs) (spec_ok : bool) : N :=
  let fs := rekind_for a fs in
  let r := main_model a fs tb cd in
  verdict (main_agrees r o) spec_ok (main_missed r).

Definition check_scope_main (a : cliargs) (fs : list mfile) (tb : tables) (cd : list (str * str * list diffop))
                            (o : mobs) (exp : option (list (str * lblock))) (extra : bool) : N :=
  let fs := rekind_for a fs in
  let r := main_model a fs tb cd in
  let spec := spec_scope_main exp o && extra in
  (* the implementation does what the faithful model says, the property is not met, and the
     command line is in the known class: finding F12, not a new violation *)
  if main_agrees r o && negb spec && split_flags a fs && negb (main_missed r) then KNOWN_F12
  else verdict (main_agrees r o) spec (main_missed r).

Definition check_flag_main (c0 : rcase) (o0 : obs) (a : cliargs) (fs : list mfile) (tb : tables)
                           (o1 : mobs) (enable : bool) (vs : list N) : N :=
  let keep := fun v => if enable then existsb (N.eqb v) vs else negb (existsb (N.eqb v) vs) in
  let fs := rekind_for a fs in
  let r := main_model a fs tb [] in
  verdict (run_agrees (model_run c0) o0 && main_agrees r o1) (spec_flag_main keep o0 o1)
          (full_missed c0 || main_missed r).


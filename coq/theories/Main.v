(* Main.v - src/main.rs and src/flags.rs: from the command line to the run.
   What is modelled: the value parsers of -E / -d / -e, Args::validate, the
   terminal-mode / glob / diff mode matrix, the repository-root check, the
   choice between `list` and the validation run, the exit status.
   What is trusted: clap's splitting of argv into the typed values (it rejects
   whatever a value parser rejects with exit status 2), globset (an oracle per
   file: rf_allow / rf_ignore), the directory walk (rf_exists). *)
From BW Require Export RunCase.
From BWGen Require Import ExtTable.

Definition E_USAGE := 20.     (* clap: usage error, exit status 2 *)
Definition E_ROOT := 21.      (* "Could not find the repository root directory" *)
Definition E_GLOB := 22.      (* "Invalid glob pattern" / "Invalid ignore glob pattern" *)

Record cliargs := {
  ca_ext_raw : list str;      (* the values typed after -E / --extension *)
  ca_dis_raw : list str;      (* after -d / --disable *)
  ca_en_raw : list str;       (* after -e / --enable *)
  ca_nglobs : N;              (* positional globs, top level plus those after `list` *)
  ca_globs_ok : bool;         (* Glob::new accepts each positional glob (globset oracle) *)
  ca_ignores_ok : bool;       (* ... and each --ignore glob *)
  ca_list : bool;             (* the `list` subcommand *)
  ca_terminal : bool;         (* stdin is a terminal, or BLOCKWATCH_TERMINAL_MODE is set *)
  ca_stdin : str;             (* what stdin holds *)
  ca_root : bool              (* some ancestor of the start directory holds .git/ or .hg/ *)
}.

(* flags.rs::parse_extensions: split at the first '=', both sides trimmed *)
Definition parse_extension (s : str) : option (str * str) :=
  match split_once 61 s with
  | Some (k, v) => Some (trim k, trim v)
  | None => None
  end.

(* flags.rs::parse_validator: the value must be one of the registered names, as typed *)
Fixpoint index_of (s : str) (l : list str) (i : N) : option N :=
  match l with
  | [] => None
  | x :: r => if str_eqb s x then Some i else index_of s r (i + 1)
  end.
Definition parse_validator (s : str) : option N := index_of s validator_names 0.

Fixpoint map_opt {A B} (f : A -> option B) (l : list A) : option (list B) :=
  match l with
  | [] => Some []
  | x :: r => match f x, map_opt f r with Some y, Some ys => Some (y :: ys) | _, _ => None end
  end.

(* Args::validate: every -E value names a registered suffix *)
Definition supported (v : str) : bool := match assoc v ext_table with Some _ => true | None => false end.

Definition nonempty {A} (l : list A) : bool := match l with [] => false | _ => true end.

(* what main.rs hands to parse_blocks / detect_validators *)
Record plan := {
  pl_scan : bool;             (* should_scan_files *)
  pl_star : bool;             (* the glob set was replaced by "**" *)
  pl_diff : option str;       (* the diff that is read, if any *)
  pl_ext : list (str * str);
  pl_enabled : list N;
  pl_disabled : list N
}.

Definition plan_of (a : cliargs) : res plan :=
  match map_opt parse_extension (ca_ext_raw a), map_opt parse_validator (ca_dis_raw a),
        map_opt parse_validator (ca_en_raw a) with
  | Some exts, Some dis, Some en =>
    if negb (forallb (fun kv => supported (snd kv)) exts) then Err E_FLAGS
    else if nonempty dis && nonempty en then Err E_FLAGS
    else if negb (ca_globs_ok a) then Err E_GLOB
    else
      let star := (ca_nglobs a =? 0) && ca_terminal a in
      let scan := star || negb (ca_nglobs a =? 0) in
      if negb (ca_ignores_ok a) then Err E_GLOB
      else if negb (ca_root a) then Err E_ROOT
      else Ok {| pl_scan := scan; pl_star := star;
                 pl_diff := if ca_terminal a then None else Some (ca_stdin a);
                 pl_ext := exts; pl_enabled := en; pl_disabled := dis |}
  | _, _, _ => Err E_USAGE
  end.

(* with the "**" fallback every file is allowed *)
Definition allow_all (f : rfile) : rfile :=
  {| rf_path := rf_path f; rf_text := rf_text f; rf_spans := rf_spans f; rf_exists := rf_exists f;
     rf_readable := rf_readable f; rf_allow := true; rf_ignore := rf_ignore f |}.

Definition rcase_of (p : plan) (fs : list rfile) (tb : tables) (cd : list (str * str * list diffop)) : rcase :=
  {| rc_files := if pl_star p then map allow_all fs else fs;
     rc_diff := pl_diff p; rc_scan := pl_scan p; rc_ext := pl_ext p;
     rc_enabled := pl_enabled p; rc_disabled := pl_disabled p; rc_tables := tb; rc_cdiff := cd |}.

Inductive mainres :=
| MFail (cls : N)                 (* exit 2 for E_USAGE, exit 1 otherwise; nothing on stdout *)
| MList (cr : cresult)            (* `list`: the context that is printed (or its errors) *)
| MRun (v : vresult).             (* the validation run *)

Definition main_model (a : cliargs) (fs : list rfile) (tb : tables) (cd : list (str * str * list diffop)) : mainres :=
  match plan_of a with
  | Err e => MFail e
  | Panic _ => MFail E_USAGE
  | Ok p =>
    let c := rcase_of p fs tb cd in
    if ca_list a then MList (model_context c) else MRun (model_run c)
  end.

(* the process exit status *)
Definition main_exit (r : mainres) : N :=
  match r with
  | MFail e => if e =? E_USAGE then 2 else 1
  | MList cr => if cr_panic cr then 101 else match cr_errs cr with [] => 0 | _ => 1 end
  | MRun v => if vr_panic v then 101 else match vr_errs v with [] => exit_code v | _ => 1 end
  end.

(* ---------- what the binary was observed to do ---------- *)
Inductive mobs :=
| MObsFail (exit cls : N)         (* a complaint on stderr: exit status, message class *)
| MObsList (l : lobs)
| MObsRun (o : obs).

Definition main_agrees (r : mainres) (o : mobs) : bool :=
  match r, o with
  | MFail e, MObsFail x c => (x =? (if e =? E_USAGE then 2 else 1)) && (c =? e)
  | MList cr, MObsList l => list_agrees_c cr l
  | MRun v, MObsRun ob => run_agrees v ob
  | _, _ => false
  end.

Definition main_missed (r : mainres) : bool :=
  match r with
  | MFail _ => false
  | MList cr => context_missed cr
  | MRun v => oracle_missed v
  end.

Definition mkcli e d n g gok iok l t s r : cliargs :=
  {| ca_ext_raw := e; ca_dis_raw := d; ca_en_raw := n; ca_nglobs := g; ca_globs_ok := gok; ca_ignores_ok := iok;
     ca_list := l; ca_terminal := t; ca_stdin := s; ca_root := r |}.

(* C15 through main: the listed blocks are those of the files in scope, by construction
   (None = the run must stop with an error) *)
Definition spec_scope_main (exp : option (list (str * lblock))) (o : mobs) : bool :=
  match exp, o with
  | Some e, MObsList (LObsList bs) => mset_eqb plblock_eqb e bs
  | None, MObsFail _ _ => true
  | None, MObsList (LObsErr _) => true
  | _, _ => false
  end.

(* C14 through main: the flagged run reports exactly the unrestricted run's diagnostics of the
   validators that stay switched on *)
Definition spec_flag_main (keep : N -> bool) (o0 : obs) (o1 : mobs) : bool :=
  match o0, o1 with
  | ObsReport ds0 _, MObsRun (ObsReport ds1 ex1) =>
    mset_eqb pdiag_eqb (filter (fun d => keep (d_code (snd d))) ds0) ds1
    && (ex1 =? (if existsb (fun d => d_sev (snd d) =? 1) ds1 then 1 else 0))
  | ObsErr _, _ => true
  | _, _ => false
  end.

(* verdict for a run of the real binary against the model of main *)
Definition check_main (a : cliargs) (fs : list rfile) (tb : tables) (cd : list (str * str * list diffop))
                      (o : mobs) (spec_ok : bool) : N :=
  let r := main_model a fs tb cd in
  verdict (main_agrees r o) spec_ok (main_missed r).

(* Merge.v - how validator results are merged per file:
   `violations.entry(file).or_insert_with(Vec::new).extend(file_violations)`
   in run_sync_validators / run_async_validators / run (validators/mod.rs). *)
From BW Require Export Run.

Definition vmap := list (str * list diag).     (* one entry per file *)

Fixpoint merge_entry (acc : vmap) (f : str) (ds : list diag) : vmap :=
  match acc with
  | [] => [(f, ds)]
  | (g, es) :: acc' => if str_eqb f g then (g, es ++ ds) :: acc' else (g, es) :: merge_entry acc' f ds
  end.

Definition merge_map (acc m : vmap) : vmap :=
  fold_left (fun a e => merge_entry a (fst e) (snd e)) m acc.

(* results arrive one validator after the other, in any order *)
Definition merge_all (arrivals : list vmap) : vmap := fold_left merge_map arrivals [].

Definition flatten (m : vmap) : list (str * diag) :=
  flat_map (fun e => map (fun d => (fst e, d)) (snd e)) m.

(* what one validator hands over: its violations grouped by file (a file appears
   only if it has a violation) *)
Fixpoint group_by_file (ds : list (str * diag)) : vmap :=
  match ds with
  | [] => []
  | (f, d) :: ds' => merge_entry (group_by_file ds') f [d]
  end.

(* main.rs::process_violations *)
Definition has_error_severity (m : vmap) : bool :=
  existsb (fun e => existsb (fun d => d_sev d =? 1) (snd e)) m.

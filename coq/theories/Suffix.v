(* Suffix.v - blocks.rs::parser_for_file_path: which grammar a file name selects. *)
From BW Require Export Defs.

Definition C_DOT := 46.
Definition C_SLASH := 47.

(* the text after the last '/' *)
Fixpoint file_name (path : str) : str :=
  match path with
  | [] => []
  | c :: r => if existsb (N.eqb C_SLASH) r then file_name r
              else if c =? C_SLASH then r else path
  end.

(* the texts after each '.', leftmost first *)
Fixpoint dot_suffixes (name : str) : list str :=
  match name with
  | [] => []
  | c :: r => if c =? C_DOT then r :: dot_suffixes r else dot_suffixes r
  end.

Section Lookup.
Context (table : list (str * N)) (ext_map : list (str * str)).

(* try_parser_for_extension: remap, then look up *)
Definition lookup_ext (e : str) : option N :=
  assoc (match assoc_last e ext_map with Some v => v | None => e end) table.

Fixpoint first_some (cands : list str) : option N :=
  match cands with
  | [] => None
  | e :: r => match lookup_ext e with Some g => Some g | None => first_some r end
  end.

(* dots are tried right to left, then the whole file name *)
Definition grammar_of (path : str) : option N :=
  let name := file_name path in
  match name with
  | [] => None
  | _ => first_some (rev (dot_suffixes name) ++ [name])
  end.
End Lookup.

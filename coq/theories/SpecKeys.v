(* SpecKeys.v - executable specification shared by keep-sorted (C06),
   keep-unique (C07), line-pattern (C08) and the key-range half of C10:
   which key, if any, must be reported for a block whose content and rule the
   generator knows by construction, and what the reported range must delimit. *)
From BW Require Export Case.

(* the text a (line, start col .. end col) range delimits in a file: 1-based
   line, 1-based inclusive byte columns *)
Definition text_at (file : str) (line sc ec : N) : option str :=
  if (line =? 0) || (sc =? 0) then None else
  match nth_error (split_on 10 file) (N.to_nat (line - 1)) with
  | None => None
  | Some l => bslice l (sc - 1) ec
  end.

Record intentK := {
  ik_ts : pos;             (* start tag '<' by construction: identifies the block *)
  ik_cs : pos;             (* position where the content starts (end of the start-tag comment) *)
  ik_content : str;        (* content by construction *)
  ik_rule : N;             (* V_SORTED / V_UNIQUE / V_PATTERN *)
  ik_asc : bool;
  ik_pat : str;            (* "" = trimmed lines *)
  ik_numeric : bool;
  ik_sev : N
}.

(* strictly out of order under the rule's order; total on the keys it is asked about *)
Definition spec_ooo (o : oracles) (i : intentK) (prev cur : str) : res bool :=
  let? c := sort_cmp o (if ik_numeric i then Numeric else Lexicographic) prev cur in
  Ok (cmp_eqb c (if ik_asc i then Gt else Lt)).

(* the key that must be reported, by the rule's definition *)
Definition spec_expected (o : oracles) (i : intentK) : res (option key) :=
  if ik_rule i =? V_SORTED then
    let? ks := keys_of o (ik_pat i) E_SORT_PATTERN (ik_content i) in
    ks_check (spec_ooo o i) ks
  else if ik_rule i =? V_UNIQUE then
    let? ks := keys_of o (ik_pat i) E_UNIQUE_PATTERN (ik_content i) in
    Ok (ku_scan [] ks)
  else
    lp_scan o (ik_pat i) 0 (lines (ik_content i)).

(* diagnostics of this rule that belong to the block: the generator gives every
   block of a file a distinct rule-or-line, so (code, line within the block's
   content lines) identifies them; blocks in these cases are siblings *)
Definition in_content_lines (i : intentK) (d : diag) : bool :=
  (fst (ik_cs i) <=? d_sl d) && (d_sl d <? fst (ik_cs i) + N.max 1 (nlen (lines (ik_content i)))).

Definition spec_keys_block (o : oracles) (file : str) (i : intentK) (ds : list diag) : bool :=
  let mine := filter (fun d => (d_code d =? ik_rule i) && in_content_lines i d) ds in
  match spec_expected o i with
  | Ok None => match mine with [] => true | _ => false end
  | Ok (Some k) =>
    match mine with
    | [d] =>
      (d_sl d =? fst (ik_cs i) + k_idx k) && (d_el d =? d_sl d) && (d_sev d =? ik_sev i)
      && match text_at file (d_sl d) (d_sc d) (d_ec d) with
         | Some t => str_eqb t (k_val k)
         | None => false
         end
    | _ => false
    end
  | _ => false   (* an expected error is judged at run level *)
  end.

Definition spec_expects_err (o : oracles) (i : intentK) : bool :=
  match spec_expected o i with Err _ => true | _ => false end.

(* verdict of one generated case: one file, sibling blocks with key rules *)
Definition check_keys (t : tables) (f : fcase) (ob : obs) (intents : list intentK) : N :=
  let o := oracles_of t in
  let m := model_scan_run t [f] [] [] in
  let spec :=
    if existsb (spec_expects_err o) intents then
      match ob with ObsErr _ => true | _ => false end
    else
      match ob with
      | ObsReport ds _ => forallb (fun i => spec_keys_block o (f_text f) i (diags_of_file (f_path f) ds)) intents
      | _ => false
      end in
  verdict (run_agrees m ob) spec (oracle_missed m).

Definition mkintentK ts cs content rule asc pat numeric sev : intentK :=
  {| ik_ts := ts; ik_cs := cs; ik_content := content; ik_rule := rule; ik_asc := asc;
     ik_pat := pat; ik_numeric := numeric; ik_sev := sev |}.

(* ---------- C10: ranges ---------- *)
(* a rule whose diagnostic must span exactly the start tag, '<' to '>' *)
Record intentT := { it_ts : pos; it_te : pos; it_code : N }.

Definition char_at (file : str) (p : pos) : option str := text_at file (fst p) (snd p) (snd p).

Definition spec_tag_block (file : str) (i : intentT) (ds : list diag) : bool :=
  let mine := filter (fun d => (d_code d =? it_code i) && (d_sl d =? fst (it_ts i)) && (d_sc d =? snd (it_ts i))) ds in
  match mine with
  | [d] =>
    (d_el d =? fst (it_te i)) && (d_ec d =? snd (it_te i))
    && match char_at file (d_sl d, d_sc d), char_at file (d_el d, d_ec d) with
       | Some [60], Some [62] => true
       | _, _ => false
       end
  | _ => false
  end.

Definition check_ranges (t : tables) (f : fcase) (ob : obs)
                        (ks : list intentK) (ts : list intentT) : N :=
  let o := oracles_of t in
  let m := model_scan_run t [f] [] [] in
  let spec :=
    match ob with
    | ObsReport ds _ =>
      let mine := diags_of_file (f_path f) ds in
      forallb (fun i => spec_keys_block o (f_text f) i mine) ks
      && forallb (fun i => spec_tag_block (f_text f) i mine) ts
    | _ => false
    end in
  verdict (run_agrees m ob) spec (oracle_missed m).

Definition mkintentT ts te code : intentT := {| it_ts := ts; it_te := te; it_code := code |}.

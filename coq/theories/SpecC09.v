(* SpecC09.v - executable specification of the line-count rule, written
   independently of the model's loop structure. *)
From BW Require Export Case.

(* a line is non-blank when it holds a non-whitespace character *)
Definition seg_nonblank (l : str) : bool := existsb (fun c => negb (is_ws c)) l.
Definition spec_count (content : str) : N := nlen (filter seg_nonblank (lines content)).

(* the attribute value printed from (op, n) with arbitrary whitespace *)
Definition print_constraint (w1 w2 w3 : str) (op : cop) (n : N) : str :=
  w1 ++ cop_str op ++ w2 ++ dec n ++ w3.

Record intent09 := {
  i9_ts : pos; i9_te : pos;      (* start tag '<' and '>' by construction *)
  i9_content : str;              (* text between the two tag comments, by construction *)
  i9_op : cop; i9_n : N;
  i9_sev : N
}.

Definition at_tag (ts te : pos) (d : diag) : bool :=
  (d_sl d =? fst ts) && (d_sc d =? snd ts) && (d_el d =? fst te) && (d_ec d =? snd te).

(* what the diagnostics of the block's file must look like *)
Definition spec_c09 (i : intent09) (ds : list diag) : bool :=
  let actual := spec_count (i9_content i) in
  let mine := filter (fun d => (d_code d =? V_COUNT) && (d_sl d =? fst (i9_ts i)) && (d_sc d =? snd (i9_ts i))) ds in
  if cop_holds (i9_op i) actual (i9_n i) then
    match mine with [] => true | _ => false end
  else
    match mine with
    | [d] => at_tag (i9_ts i) (i9_te i) d && (d_sev d =? i9_sev i)
             && list_eqb str_eqb (d_data d) [dec actual; cop_str (i9_op i); dec (i9_n i)]
    | _ => false
    end.

(* verdict of one generated case *)
Definition check_c09 (t : tables) (fs : list fcase) (o : obs) (intents : list (str * intent09)) : N :=
  let m := model_scan_run t fs [] [] in
  let spec := match o with
              | ObsReport ds _ => forallb (fun pi => spec_c09 (snd pi) (diags_of_file (fst pi) ds)) intents
              | _ => false
              end in
  verdict (run_agrees m o) spec (oracle_missed m).

Definition mkintent09 ts te content op n sev : intent09 :=
  {| i9_ts := ts; i9_te := te; i9_content := content; i9_op := op; i9_n := n; i9_sev := sev |}.

(* RunCase.v - a complete run as a generated case gives it: files (walk order),
   optional diff text, scan flag, -E map, --enable/--disable, oracle tables;
   the model's prediction of `list` and of the validation run, and the
   comparison with what the implementation did. *)
From BW Require Export Context Case Lang.

Record rcase := {
  rc_files : list rfile;
  rc_diff : option str;
  rc_scan : bool;                       (* should_scan_files: positional globs given / terminal mode *)
  rc_ext : list (str * str);            (* -E KEY=VALUE *)
  rc_enabled : list N;
  rc_disabled : list N;
  rc_tables : tables;
  rc_cdiff : list (str * str * list diffop)   (* similar::TextDiff::from_chars ops per (old, new) *)
}.

Definition cdiff_of (c : rcase) : str -> str -> option (list diffop) :=
  fun a b => assoc2 a b (rc_cdiff c).

Definition model_changes (c : rcase) : res (list (str * list lchange)) :=
  match rc_diff c with
  | None => Ok []
  | Some d => line_changes_from_diff (cdiff_of c) d
  end.

Definition model_context (c : rcase) : cresult :=
  match model_changes c with
  | Ok ch => build_context (rc_ext c) (rc_files c) (rc_scan c) ch
  | Err e => {| cr_ctx := []; cr_errs := [e]; cr_panic := false |}
  | Panic _ => {| cr_ctx := []; cr_errs := []; cr_panic := true |}
  end.

Definition model_run (c : rcase) : vresult :=
  let cr := model_context c in
  if cr_panic cr then {| vr_diags := []; vr_errs := []; vr_panic := true |}
  else match cr_errs cr with
       | _ :: _ => {| vr_diags := []; vr_errs := cr_errs cr; vr_panic := false |}
       | [] => run_validators (oracles_of (rc_tables c)) (cr_ctx cr)
                 (detected_validators (rc_enabled c) (rc_disabled c) (cr_ctx cr))
       end.

(* list: blocks, or the set of errors one of which stops the run *)
Definition list_agrees_c (cr : cresult) (o : lobs) : bool :=
  if cr_panic cr then match o with LObsPanic => true | _ => false end
  else match cr_errs cr with
       | _ :: _ => match o with LObsErr _ => true | _ => false end
       | [] => match o with
               | LObsList bs => mset_eqb plblock_eqb (list_of_context (cr_ctx cr)) bs
                                && per_file_order_eqb (list_of_context (cr_ctx cr)) bs
               | _ => false end
       end.

(* line changes as the implementation reports them, per file *)
Definition lchange_eqb (a b : lchange) : bool :=
  (lc_line a =? lc_line b) &&
  match lc_ranges a, lc_ranges b with
  | None, None => true
  | Some x, Some y => list_eqb (fun p q => (fst p =? fst q) && (snd p =? snd q)) x y
  | _, _ => false
  end.
Definition pchanges_eqb (a b : str * list lchange) : bool :=
  str_eqb (fst a) (fst b) && list_eqb lchange_eqb (snd a) (snd b).

Inductive cobs :=
| CObs (ch : list (str * list lchange))
| CObsErr
| CObsPanic.

Definition changes_agree (m : res (list (str * list lchange))) (o : cobs) : bool :=
  match m, o with
  | Ok a, CObs b => mset_eqb pchanges_eqb a b
  | Err e, CObsErr => negb (e =? E_ORACLE_MISS)
  | Panic _, CObsPanic => true
  | _, _ => false
  end.

Definition context_missed (cr : cresult) : bool := existsb (N.eqb E_ORACLE_MISS) (cr_errs cr).

(* model vs implementation on everything observable of one run *)
Definition full_agrees (c : rcase) (co : cobs) (lo : lobs) (ro : obs) : bool :=
  changes_agree (model_changes c) co && list_agrees_c (model_context c) lo && run_agrees (model_run c) ro.

Definition full_missed (c : rcase) : bool :=
  context_missed (model_context c) || oracle_missed (model_run c).

(* constructors for generated case files *)
Definition mkrfile p t sp ex al ig : rfile :=
  {| rf_path := p; rf_text := t; rf_spans := sp; rf_exists := ex; rf_readable := ex; rf_allow := al; rf_ignore := ig |}.
(* walked / readable given separately (hidden or git-ignored files named in a diff) *)
Definition mkrfile' p t sp walked readable al ig : rfile :=
  {| rf_path := p; rf_text := t; rf_spans := sp; rf_exists := walked; rf_readable := readable; rf_allow := al; rf_ignore := ig |}.
(* the kind of every span is decided by the model (Lang.v) from the file name and the -E map *)
Definition rekind_file (ext : list (str * str)) (f : rfile) : rfile :=
  {| rf_path := rf_path f; rf_text := rf_text f;
     rf_spans := rekind ext (rf_path f) (rf_text f) (rf_spans f);
     rf_exists := rf_exists f; rf_readable := rf_readable f; rf_allow := rf_allow f; rf_ignore := rf_ignore f |}.
Definition mkrcase fs d scan ext en dis tb cd : rcase :=
  {| rc_files := map (rekind_file ext) fs; rc_diff := d; rc_scan := scan; rc_ext := ext; rc_enabled := en; rc_disabled := dis;
     rc_tables := tb; rc_cdiff := cd |}.
Definition mklc (line : N) (r : option (list (N * N))) : lchange := {| lc_line := line; lc_ranges := r |}.

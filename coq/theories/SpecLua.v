(* SpecLua.v - what the dumped graph predicts for each concrete escape attempt,
   and what each BLOCKWATCH_LUA_MODE must allow. *)
From BW Require Export LuaCap.

Definition has_path (g : lgraph) (p : str) : bool := existsb (fun n => str_eqb (ln_path n) p) (lg_nodes g).

(* attempt name -> the global path the attempt needs; [] = never possible *)
Definition attempt_needs : list (str * str) :=
  map (fun p => (T (fst p), T (snd p))) [
    ("io.open", "io.open"); ("io.lines", "io.lines"); ("os.execute", "os.execute"); ("os.getenv", "os.getenv");
    ("os.remove", "os.remove"); ("io.popen", "io.popen"); ("require-os", "require"); ("require-io", "require");
    ("dofile", "dofile"); ("loadfile", "loadfile"); ("package.loadlib", "package.loadlib");
    ("package.searchpath", "package.searchpath"); ("debug.getinfo", "debug.getinfo");
    ("debug.getregistry", "debug.getregistry"); ("load-os", "os"); ("load-io", "io.open");
    ("string-meta-escape", ""); ("_G.io", "io"); ("_G.os", "os"); ("_G.package", "package");
    ("_G.debug", "debug"); ("_G.require", "require");
    ("coroutine", "coroutine.wrap"); ("string.rep", "string.rep"); ("math", "math.max");
    ("utf8", "utf8.char"); ("table", "table.concat") ]%bs.

Definition benign : list str := map (fun b => T b) ["coroutine"; "string.rep"; "math"; "utf8"; "table"]%bs.

(* mlua's safe mode keeps `package.loadlib` as a stub that raises an error and
   replaces the C-module searchers: the graph shows the name, calling it fails *)
Definition predict (g : lgraph) (cls : N) (name : str) : option bool :=
  match assoc name attempt_needs with
  | Some [] => Some false
  | Some p => Some (has_path g p && negb (str_eqb name (T "package.loadlib") && negb (cls =? 2)))
  | None => None
  end.

(* mode classes: 0 sandboxed (unset / sandboxed / anything else), 1 safe, 2 unsafe *)
Definition mode_allows (cls : N) (name : str) : option bool :=
  if existsb (str_eqb name) benign then Some true
  else if str_eqb name (T "string-meta-escape") then Some false
  else if cls =? 0 then Some false
  else if cls =? 1 then
    (* io, os, package (and what the base library offers with them); no debug, no native loading *)
    if starts_with (T "debug") name || str_eqb name (T "_G.debug") || str_eqb name (T "package.loadlib") then Some false
    else Some true
  else Some true.

(* attempts named top.X use what the script's top-level chunk captured: they
   are predicted from the graph dumped at load time *)
Definition strip_top (name : str) : option str := strip_prefix (T "top.") name.

Definition check_escape2 (g gtop : lgraph) (cls : N) (outcomes : list (str * bool)) : N :=
  let pred := fun o => match strip_top (fst o) with
                       | Some n => predict gtop cls n
                       | None => predict g cls (fst o) end in
  let allow := fun o => match strip_top (fst o) with
                        | Some n => mode_allows cls n
                        | None => mode_allows cls (fst o) end in
  let agree := forallb (fun o => match pred o with Some b => Bool.eqb b (snd o) | None => false end) outcomes in
  let spec := forallb (fun o => match allow o with Some b => Bool.eqb b (snd o) | None => false end) outcomes in
  let both := existsb (fun o => match strip_top (fst o) with Some _ => true | None => false end) outcomes in
  (if agree then 0 else 1) + (if spec && both then 0 else 2).

(* outcomes: (attempt name, succeeded) *)
Definition check_escape (g : lgraph) (cls : N) (outcomes : list (str * bool)) : N :=
  let agree := forallb (fun o => match predict g cls (fst o) with Some b => Bool.eqb b (snd o) | None => false end) outcomes in
  let spec := forallb (fun o => match mode_allows cls (fst o) with Some b => Bool.eqb b (snd o) | None => false end) outcomes in
  (if agree then 0 else 1) + (if spec then 0 else 2).

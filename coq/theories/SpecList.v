(* SpecList.v - executable specification for the properties observed through
   `blockwatch list` in scan mode (C03, C05, C12): the listed blocks must be
   exactly the blocks the generator wrote, by construction. *)
From BW Require Export Case.

(* expected: Some blocks (file, name, line, column of '<', not modified, attribute map)
   or None when the file set holds an unbalanced file and the run must fail *)
Definition spec_list (exp : option (list (str * lblock))) (o : lobs) : bool :=
  match exp, o with
  | Some e, LObsList bs => mset_eqb plblock_eqb e bs && in_source_order bs
  | None, LObsErr _ => true
  | _, _ => false
  end.

Definition check_list (fs : list fcase) (o : lobs) (exp : option (list (str * lblock))) : N :=
  verdict (list_agrees (model_scan_list fs) o) (spec_list exp o) false.

(* content echo: (file, tag line, tag col, content) as observed through a
   check-lua script that returns its content argument *)
Definition content_eqb (a b : str * N * N * str) : bool :=
  let '(f1, l1, c1, t1) := a in let '(f2, l2, c2, t2) := b in
  str_eqb f1 f2 && (l1 =? l2) && (c1 =? c2) && str_eqb t1 t2.

Definition model_contents (fs : list fcase) : res (list (str * N * N * str)) :=
  let? ctx := scan_context fs in
  (fix go (l : list (fctx * bctx)) : res (list (str * N * N * str)) :=
     match l with
     | [] => Ok []
     | (f, bc) :: l' =>
       let? c := content_of (fc_text f) (bc_block bc) in
       let? r := go l' in
       Ok ((fc_path f, fst (b_ts (bc_block bc)), snd (b_ts (bc_block bc)), c) :: r)
     end) (flat_map (fun f => map (fun bc => (f, bc)) (fc_blocks f)) ctx).

Definition check_contents (fs : list fcase) (obs exp : list (str * N * N * str)) : N :=
  let agree := match model_contents fs with Ok m => mset_eqb content_eqb m obs | _ => false end in
  verdict agree (mset_eqb content_eqb exp obs) false.

(* C03 in full: listed blocks, their contents (echoed verbatim by a check-lua
   script with check-lua-pattern="[\s\S]*") and the comment spans the grammar
   produced, all against what the generator wrote *)
Definition restrict_contents (keys : list (str * N * N * str)) (all : list (str * N * N * str)) : list (str * N * N * str) :=
  filter (fun a => existsb (fun k => let '(f1, l1, c1, _) := a in let '(f2, l2, c2, _) := k in
                                     str_eqb f1 f2 && (l1 =? l2) && (c1 =? c2)) keys) all.

Definition check_blocks (fs : list fcase) (o : lobs) (exp : option (list (str * lblock)))
                        (obs_contents exp_contents : list (str * N * N * str)) (spans_ok : bool) : N :=
  let agree_c := match model_contents fs with
                 | Ok m => mset_eqb content_eqb (restrict_contents obs_contents m) obs_contents
                 | _ => match obs_contents with [] => true | _ => false end
                 end in
  verdict (list_agrees (model_scan_list fs) o && agree_c)
          (spec_list exp o && mset_eqb content_eqb exp_contents obs_contents && spans_ok) false.

(* Case.v - the record a generated correspondence case is written in, the
   canonical comparison between the model's prediction and the implementation's
   observed behaviour, and the verdict printed per case. *)
From BW Require Export Run Lang.

(* ---------- oracle tables ---------- *)
Record tables := {
  t_rx_ok : list (str * bool);
  t_rx : list (str * str * option rxmatch);
  t_f64 : list (str * option N);
  t_lua : list (str * str * str * (N * str));
  t_ai : list (str * str * (N * str))
}.

Fixpoint assoc2 {A} (k1 k2 : str) (l : list (str * str * A)) : option A :=
  match l with
  | [] => None
  | (a, b, v) :: l' => if str_eqb k1 a && str_eqb k2 b then Some v else assoc2 k1 k2 l'
  end.
Fixpoint assoc3 {A} (k1 k2 k3 : str) (l : list (str * str * str * A)) : option A :=
  match l with
  | [] => None
  | (a, b, c, v) :: l' =>
    if str_eqb k1 a && str_eqb k2 b && str_eqb k3 c then Some v else assoc3 k1 k2 k3 l'
  end.

Definition oracles_of (t : tables) : oracles :=
  {| o_rx_ok := fun p => assoc p (t_rx_ok t);
     o_rx := fun p s => assoc2 p s (t_rx t);
     o_f64 := fun s => assoc s (t_f64 t);
     o_lua := fun sc f c => assoc3 sc f c (t_lua t);
     o_ai := fun c s => assoc2 c s (t_ai t) |}.

Definition no_tables : tables :=
  {| t_rx_ok := []; t_rx := []; t_f64 := []; t_lua := []; t_ai := [] |}.

(* ---------- equality on diagnostics ---------- *)
Fixpoint list_eqb {A} (eqb : A -> A -> bool) (a b : list A) : bool :=
  match a, b with
  | [], [] => true
  | x :: a', y :: b' => eqb x y && list_eqb eqb a' b'
  | _, _ => false
  end.

(* the machine-readable payload is compared where a property speaks about it: line-count (actual
   count, operator, bound), check-lua (the string the script returned), check-ai (the reply) *)
Definition data_matters (code : N) : bool := (code =? V_COUNT) || (code =? V_LUA) || (code =? V_AI).

Definition diag_eqb (a b : diag) : bool :=
  (d_sl a =? d_sl b) && (d_sc a =? d_sc b) && (d_el a =? d_el b) && (d_ec a =? d_ec b)
  && (d_code a =? d_code b) && (d_sev a =? d_sev b)
  && (negb (data_matters (d_code a)) || list_eqb str_eqb (d_data a) (d_data b)).

Definition pdiag_eqb (a b : str * diag) : bool :=
  str_eqb (fst a) (fst b) && diag_eqb (snd a) (snd b).

(* multiset equality *)
Fixpoint remove_first {A} (eqb : A -> A -> bool) (x : A) (l : list A) : option (list A) :=
  match l with
  | [] => None
  | y :: l' => if eqb x y then Some l'
               else match remove_first eqb x l' with Some r => Some (y :: r) | None => None end
  end.
Fixpoint mset_eqb {A} (eqb : A -> A -> bool) (a b : list A) : bool :=
  match a with
  | [] => match b with [] => true | _ => false end
  | x :: a' => match remove_first eqb x b with Some b' => mset_eqb eqb a' b' | None => false end
  end.

(* ---------- what the implementation was observed to do ---------- *)
Inductive obs :=
| ObsReport (ds : list (str * diag)) (exit : N)   (* validation run finished; diagnostics, exit status *)
| ObsErr (cls : N)                                (* run stopped with an error of this class *)
| ObsPanic.

(* model prediction vs observation for a validation run *)
Definition run_agrees (r : vresult) (o : obs) : bool :=
  if vr_panic r then match o with ObsPanic => true | _ => false end
  else
    match vr_errs r with
    | _ :: _ => match o with ObsErr _ => true | _ => false end
    | [] =>
      match o with
      | ObsReport ds ex => mset_eqb pdiag_eqb (vr_diags r) ds && (ex =? exit_code r)
      | _ => false
      end
    end.

Definition oracle_missed (r : vresult) : bool := existsb (N.eqb E_ORACLE_MISS) (vr_errs r).

(* ---------- list report ---------- *)
Record lblock := { l_name : str; l_line : N; l_col : N; l_mod : bool; l_attrs : attrs }.

Definition attrs_sub (a b : attrs) : bool :=
  forallb (fun kv => match get_attr (fst kv) b with
                     | Some v => str_eqb v (match get_attr (fst kv) a with Some x => x | None => [] end)
                     | None => false end) a.
Definition attrs_equiv (a b : attrs) : bool := attrs_sub a b && attrs_sub b a.

Definition lblock_eqb (a b : lblock) : bool :=
  str_eqb (l_name a) (l_name b) && (l_line a =? l_line b) && (l_col a =? l_col b)
  && Bool.eqb (l_mod a) (l_mod b) && attrs_equiv (l_attrs a) (l_attrs b).

Definition lblock_of (bc : bctx) : lblock :=
  let b := bc_block bc in
  {| l_name := match get_attr (T "name") (b_attrs b) with Some n => n | None => T "(unnamed)" end;
     l_line := fst (b_ts b); l_col := snd (b_ts b); l_mod := bc_contmod bc;
     l_attrs := b_attrs b |}.

Definition plblock_eqb (a b : str * lblock) : bool :=
  str_eqb (fst a) (fst b) && lblock_eqb (snd a) (snd b).

Definition list_of_context (ctx : context) : list (str * lblock) :=
  flat_map (fun f => map (fun bc => (fc_path f, lblock_of bc)) (fc_blocks f)) ctx.

Inductive lobs :=
| LObsList (bs : list (str * lblock))
| LObsErr (cls : N)
| LObsPanic.

(* verdict codes, summed: 1 model<>impl, 2 spec fails on impl, 4 oracle table miss (harness defect) *)
Definition verdict (agree spec miss : bool) : N :=
  (if agree then 0 else 1) + (if spec then 0 else 2) + (if miss then 4 else 0).

(* two checks on one case: the first non-zero verdict *)
Definition both_verdicts (a b : N) : N := if a =? 0 then b else a.

(* indices of the cases whose verdict is non-zero *)
Fixpoint failures_from (i : N) (vs : list N) : list (N * N) :=
  match vs with
  | [] => []
  | v :: vs' => if v =? 0 then failures_from (i + 1) vs' else (i, v) :: failures_from (i + 1) vs'
  end.
Definition failures (vs : list N) : list (N * N) := failures_from 0 vs.

(* ---------- files as given in a case ---------- *)
Record fcase := { f_path : str; f_text : str; f_spans : list cspan }.

(* full-scan context: every block of every file, nothing modified *)
Fixpoint scan_context (fs : list fcase) : res context :=
  match fs with
  | [] => Ok []
  | f :: fs' =>
    let? bs := parse_file (f_text f) (f_spans f) in
    let? rest := scan_context fs' in
    Ok (match bs with
        | [] => rest
        | _ => {| fc_path := f_path f; fc_text := f_text f;
                  fc_blocks := map (fun b => {| bc_block := b; bc_tagmod := false; bc_contmod := false |}) bs |}
               :: rest
        end)
  end.

Definition res_vresult (r : res vresult) : vresult :=
  match r with
  | Ok v => v
  | Err e => {| vr_diags := []; vr_errs := [e]; vr_panic := false |}
  | Panic _ => {| vr_diags := []; vr_errs := []; vr_panic := true |}
  end.

Definition model_scan_run (t : tables) (fs : list fcase) (enabled disabled : list N) : vresult :=
  res_vresult
    (let? ctx := scan_context fs in
     Ok (run_validators (oracles_of t) ctx (detected_validators enabled disabled ctx))).

Definition model_scan_list (fs : list fcase) : res (list (str * lblock)) :=
  let? ctx := scan_context fs in Ok (list_of_context ctx).

(* the blocks of each file in the same ORDER (files themselves come in hash-map order) *)
Definition of_file (p : str) (l : list (str * lblock)) : list (str * lblock) :=
  filter (fun x => str_eqb p (fst x)) l.
Definition per_file_order_eqb (a b : list (str * lblock)) : bool :=
  forallb (fun x => list_eqb plblock_eqb (of_file (fst x) a) (of_file (fst x) b)) a.

(* a file's blocks are listed in source order: strictly increasing start-tag position *)
Fixpoint in_source_order (l : list (str * lblock)) : bool :=
  match l with
  | [] => true
  | x :: r =>
    forallb (fun y => negb (str_eqb (fst x) (fst y))
                      || pos_ltb (l_line (snd x), l_col (snd x)) (l_line (snd y), l_col (snd y))) r
    && in_source_order r
  end.

Definition list_agrees (m : res (list (str * lblock))) (o : lobs) : bool :=
  match m, o with
  | Ok a, LObsList b => mset_eqb plblock_eqb a b && per_file_order_eqb a b
  | Err _, LObsErr _ => true
  | Panic _, LObsPanic => true
  | _, _ => false
  end.

Definition diags_of_file (p : str) (ds : list (str * diag)) : list diag :=
  map snd (filter (fun pd => str_eqb (fst pd) p) ds).

(* constructors used by generated case files *)
Definition mkspan (lo hi kind group : N) : cspan :=
  {| cs_lo := lo; cs_hi := hi; cs_kind := kind; cs_group := group |}.
(* the kind of every span is decided by the model (Lang.v) from the file name; what the case file says is ignored *)
Definition mkfile (p t : str) (sp : list cspan) : fcase := {| f_path := p; f_text := t; f_spans := rekind [] p t sp |}.
Definition mkdiag (sl sc el ec code sev : N) (data : list str) : diag :=
  {| d_sl := sl; d_sc := sc; d_el := el; d_ec := ec; d_code := code; d_sev := sev; d_data := data |}.
Definition mklblock (name : str) (line col : N) (m : bool) (a : attrs) : lblock :=
  {| l_name := name; l_line := line; l_col := col; l_mod := m; l_attrs := a |}.
Definition mktables rxok rx f64 lua ai : tables :=
  {| t_rx_ok := rxok; t_rx := rx; t_f64 := f64; t_lua := lua; t_ai := ai |}.

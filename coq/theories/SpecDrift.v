(* SpecDrift.v - executable specification of C01 / C02: which blocks a diff
   must (not) mark and select, from the edit script's footprints in new-file
   coordinates and the blocks' comment lines, both known by construction; and
   the affects rule as a relation between the listed flags and the diagnostics. *)
From BW Require Export RunCase.

(* one change group: before new line t, `a` added lines [t, t+a-1], `d` deleted
   old lines the first of which had old-file line number `src` *)
Record fp := { fp_t : N; fp_a : N; fp_d : N; fp_src : N }.

(* a block by construction: first/last line of the comment holding its start
   tag, first/last line of the comment holding its end tag.
   expect: 0 = judged by footprints; 1 = only attribute text inside the start tag
   was edited; 2 = only the end-tag comment was edited; 3 = only content that
   shares the start tag's line was edited *)
Record bfacts := {
  bf_file : str; bf_ts : pos;
  bf_sf : N; bf_sl : N; bf_ef : N; bf_el : N;
  bf_expect : N
}.

Definition fp_lines (f : fp) : N * N :=
  if fp_a f =? 0 then (fp_t f - 1, fp_t f) else (fp_t f, fp_t f + fp_a f - 1).

(* a line strictly between the tag comments is added/edited, or old lines are
   deleted from between them (the line following the gap is after the start
   comment and not after the end comment's first line) *)
Definition must_content (b : bfacts) (fps : list fp) : bool :=
  existsb (fun f =>
    if fp_a f =? 0 then (0 <? fp_d f) && (bf_sl b <? fp_t f) && (fp_t f <=? bf_ef b)
    else (fp_t f <? bf_ef b) && (bf_sl b <? fp_t f + fp_a f - 1) && (bf_sl b + 1 <? bf_ef b)) fps.

(* nothing touches or adjoins the block's tag lines or anything between them *)
Definition far_from (b : bfacts) (fps : list fp) : bool :=
  forallb (fun f => let '(lo, hi) := fp_lines f in (hi + 1 <? bf_sf b) || (bf_el b + 1 <? lo)) fps.

(* known finding F2: a pure deletion is placed at its OLD line number *)
Definition near (b : bfacts) (x : N) : bool := (bf_sf b <=? x + 1) && (x <=? bf_el b + 1).
Definition known_f2 (b : bfacts) (fps : list fp) : bool :=
  existsb (fun f => (fp_a f =? 0) && (0 <? fp_d f) && negb (fp_src f =? fp_t f)
                    && (near b (fp_src f) || near b (fp_t f))) fps.

Definition find_listed (b : bfacts) (l : list (str * lblock)) : option lblock :=
  match find (fun pl => str_eqb (fst pl) (bf_file b) && (l_line (snd pl) =? fst (bf_ts b))
                        && (l_col (snd pl) =? snd (bf_ts b))) l with
  | Some pl => Some (snd pl)
  | None => None
  end.

(* scanned = the block's file matches the positional globs (every block listed) *)
Definition block_ok (scanned : bool) (fps : list fp) (l : list (str * lblock)) (b : bfacts) : bool :=
  let listed := find_listed b l in
  if bf_expect b =? 1 then match listed with Some lb => negb (l_mod lb) | None => false end
  else if bf_expect b =? 2 then
    match listed with Some lb => scanned && negb (l_mod lb) | None => negb scanned end
  else if bf_expect b =? 3 then match listed with Some lb => l_mod lb | None => false end
  else if must_content b fps then match listed with Some lb => l_mod lb | None => false end
  else if far_from b fps then
    match listed with Some lb => scanned && negb (l_mod lb) | None => negb scanned end
  else match listed with Some _ => true | None => negb scanned end.

Definition fps_of (file : str) (all : list (str * list fp)) : list fp :=
  match assoc file all with Some l => l | None => [] end.

(* (holds on every block outside the known class, some block inside the known class fails) *)
Definition spec_flags (scanned : str -> bool) (facts : list bfacts) (all : list (str * list fp))
                      (l : list (str * lblock)) : bool * bool :=
  let bad := filter (fun b => negb (block_ok (scanned (bf_file b)) (fps_of (bf_file b) all) l b)) facts in
  let known := filter (fun b => known_f2 b (fps_of (bf_file b) all)) bad in
  (forallb (fun b => known_f2 b (fps_of (bf_file b) all)) bad, match known with [] => false | _ => true end).

(* ---------- affects, as a relation between the list report and the diagnostics ---------- *)
Definition aff_eqb (a b : str * N * N * str * str) : bool :=
  let '(f1, l1, c1, x1, y1) := a in let '(f2, l2, c2, x2, y2) := b in
  str_eqb f1 f2 && (l1 =? l2) && (c1 =? c2) && str_eqb x1 x2 && str_eqb y1 y2.

Definition expected_affects (l : list (str * lblock)) : option (list (str * N * N * str * str)) :=
  let modified := filter (fun pl => l_mod (snd pl)) l in
  let nm := flat_map (fun pl => match get_attr (T "name") (l_attrs (snd pl)) with
                                | Some n => [(fst pl, n)] | None => [] end) modified in
  (fix go (bs : list (str * lblock)) : option (list (str * N * N * str * str)) :=
     match bs with
     | [] => Some []
     | (f, b) :: bs' =>
       match go bs' with
       | None => None
       | Some rest =>
         match get_attr (T "affects") (l_attrs b) with
         | None => Some rest
         | Some v =>
           match parse_affects_attribute v with
           | Ok refs =>
             Some (flat_map (fun r =>
                     let rf := match fst r with Some x => x | None => f end in
                     if mem_pair (rf, snd r) nm then [] else [(f, l_line b, l_col b, rf, snd r)]) refs
                   ++ rest)
           | _ => None
           end
         end
       end
     end) modified.

Definition observed_affects (ds : list (str * diag)) : list (str * N * N * str * str) :=
  flat_map (fun pd => if d_code (snd pd) =? V_AFFECTS then
                        match d_data (snd pd) with
                        | [x; y] => [(fst pd, d_sl (snd pd), d_sc (snd pd), x, y)]
                        | _ => [(fst pd, d_sl (snd pd), d_sc (snd pd), [], [])]
                        end
                      else []) ds.

Definition spec_affects (lo : lobs) (ro : obs) : bool :=
  match lo, ro with
  | LObsList l, ObsReport ds _ =>
    match expected_affects l with
    | Some e => mset_eqb aff_eqb e (observed_affects ds)
    | None => false
    end
  | LObsList l, ObsErr _ => match expected_affects l with None => true | Some _ => true end
  | _, _ => true
  end.

(* verdict of a drift case.
   accept: the diff must be accepted (no error) - known finding F3 when the
   generator planted a header look-alike in a hunk body *)
(* rel: the relational oracle of C02 judged by the harness - the content-rule
   diagnostics of the diff-mode run equal those of a full scan of the same files
   restricted to the blocks the diff-mode run selected *)
Definition check_drift_rel (c : rcase) (co : cobs) (lo : lobs) (ro : obs)
                       (scanned : list str) (facts : list bfacts) (all : list (str * list fp))
                       (f3 : bool) (rel : bool) : N :=
  let agree := full_agrees c co lo ro in
  let miss := full_missed c in
  let is_scanned := fun f => existsb (str_eqb f) scanned in
  match lo with
  | LObsList l =>
    let '(ok, known) := spec_flags is_scanned facts all l in
    let ok2 := ok && spec_affects lo ro && rel in
    (* a header look-alike in a hunk body may also truncate the file's later hunks silently *)
    if f3 && negb ok2 then (if agree then 0 else 1) + 8 + 768
    else verdict agree ok2 miss + (if known && ok2 then 8 + 512 else 0)
  | _ =>
    (* the run failed although the diff is an ordinary git diff over healthy files *)
    if f3 then (if agree then 0 else 1) + 8 + 768 else verdict agree false miss
  end.

Definition check_drift (c : rcase) (co : cobs) (lo : lobs) (ro : obs)
                       (scanned : list str) (facts : list bfacts) (all : list (str * list fp))
                       (f3 : bool) : N :=
  check_drift_rel c co lo ro scanned facts all f3 true.

Definition mkfp t a d src : fp := {| fp_t := t; fp_a := a; fp_d := d; fp_src := src |}.
Definition mkbfacts f ts sf sl ef el ex : bfacts :=
  {| bf_file := f; bf_ts := ts; bf_sf := sf; bf_sl := sl; bf_ef := ef; bf_el := el; bf_expect := ex |}.

(* debugging aid: the ingredients of the verdict *)
Definition debug_drift (c : rcase) (co : cobs) (lo : lobs) (ro : obs)
                       (scanned : list str) (facts : list bfacts) (all : list (str * list fp))
                       (f3 : bool) :=
  let is_scanned := fun f => existsb (str_eqb f) scanned in
  (changes_agree (model_changes c) co, list_agrees_c (model_context c) lo, run_agrees (model_run c) ro,
   match lo with LObsList l => map (fun b => (bf_ts b, block_ok (is_scanned (bf_file b)) (fps_of (bf_file b) all) l b,
                                              known_f2 b (fps_of (bf_file b) all))) facts | _ => [] end,
   spec_affects lo ro).

(* LuaCap.v - an object-capability abstraction of what a check-lua script can
   reach. The graph of values reachable from the script's global environment is
   dumped from the REAL interpreter in each BLOCKWATCH_LUA_MODE on every run
   (gen/LuaGraph.v); this file gives the standard-library authority table, the
   closure computation, and the confinement argument. *)
From BW Require Export Text.

(* authorities a builtin function can exercise *)
Definition A_FILE_READ := 1.
Definition A_FILE_WRITE := 2.
Definition A_EXEC := 3.
Definition A_LOAD_DISK := 4.
Definition A_LOAD_NATIVE := 5.
Definition A_HOST_INSPECT := 6.

(* node kinds *)
Definition LK_TABLE := 0.
Definition LK_CFUNC := 1.
Definition LK_LFUNC := 2.
Definition LK_OTHER := 3.

Record lnode := { ln_id : N; ln_kind : N; ln_path : str }.
Record ledge := { le_from : N; le_key : str; le_to : N }.
Record lgraph := { lg_nodes : list lnode; lg_edges : list ledge }.

(* Lua 5.4 standard library: what each builtin can do, by its canonical path.
   Some [] = no authority beyond computing on its arguments; None = unknown name. *)
Definition safe_names : list str :=
  map (fun b => T b) [
    "assert"; "collectgarbage"; "error"; "getmetatable"; "ipairs"; "load"; "next"; "pairs"; "pcall";
    "print"; "rawequal"; "rawget"; "rawlen"; "rawset"; "select"; "setmetatable"; "tonumber";
    "tostring"; "type"; "warn"; "xpcall";
    "coroutine.close"; "coroutine.create"; "coroutine.isyieldable"; "coroutine.resume";
    "coroutine.running"; "coroutine.status"; "coroutine.wrap"; "coroutine.yield";
    "math.abs"; "math.acos"; "math.asin"; "math.atan"; "math.ceil"; "math.cos"; "math.deg"; "math.exp";
    "math.floor"; "math.fmod"; "math.log"; "math.max"; "math.min"; "math.modf"; "math.rad";
    "math.random"; "math.randomseed"; "math.sin"; "math.sqrt"; "math.tan"; "math.tointeger";
    "math.type"; "math.ult";
    "math.cosh"; "math.sinh"; "math.tanh"; "math.frexp"; "math.ldexp"; "math.log10"; "math.pow";
    "string.byte"; "string.char"; "string.dump"; "string.find"; "string.format"; "string.gmatch";
    "string.gsub"; "string.len"; "string.lower"; "string.match"; "string.pack"; "string.packsize";
    "string.rep"; "string.reverse"; "string.sub"; "string.unpack"; "string.upper";
    "table.concat"; "table.insert"; "table.move"; "table.pack"; "table.remove"; "table.sort"; "table.unpack";
    "utf8.char"; "utf8.codepoint"; "utf8.codes"; "utf8.len"; "utf8.offset";
    (* string metatable arithmetic helpers registered by lstrlib *)
    "meta<string>.__add"; "meta<string>.__sub"; "meta<string>.__mul"; "meta<string>.__mod";
    "meta<string>.__pow"; "meta<string>.__div"; "meta<string>.__idiv"; "meta<string>.__unm";
    (* the script's own entry point *)
    "validate"
  ]%bs.

Definition authority_table : list (str * list N) :=
  [ (T "dofile", [A_LOAD_DISK; A_FILE_READ]); (T "loadfile", [A_LOAD_DISK; A_FILE_READ]);
    (T "require", [A_LOAD_DISK; A_LOAD_NATIVE; A_FILE_READ]);
    (T "io.close", [A_FILE_WRITE]); (T "io.flush", [A_FILE_WRITE]); (T "io.input", [A_FILE_READ]);
    (T "io.lines", [A_FILE_READ]); (T "io.open", [A_FILE_READ; A_FILE_WRITE]); (T "io.output", [A_FILE_WRITE]);
    (T "io.popen", [A_EXEC]); (T "io.read", [A_FILE_READ]); (T "io.tmpfile", [A_FILE_WRITE]);
    (T "io.type", []); (T "io.write", [A_FILE_WRITE]);
    (T "os.clock", [A_HOST_INSPECT]); (T "os.date", [A_HOST_INSPECT]); (T "os.difftime", []);
    (T "os.execute", [A_EXEC]); (T "os.exit", [A_EXEC]); (T "os.getenv", [A_HOST_INSPECT]);
    (T "os.remove", [A_FILE_WRITE]); (T "os.rename", [A_FILE_WRITE]); (T "os.setlocale", [A_HOST_INSPECT]);
    (T "os.time", [A_HOST_INSPECT]); (T "os.tmpname", [A_FILE_WRITE]);
    (T "package.loadlib", [A_LOAD_NATIVE]); (T "package.searchpath", [A_FILE_READ]) ].

Definition authority_of (path : str) : option (list N) :=
  if existsb (str_eqb path) safe_names then Some []
  else match assoc path authority_table with
       | Some a => Some a
       | None => None
       end.

Definition starts_with_any (ps : list str) (s : str) : bool := existsb (fun p => starts_with p s) ps.

(* functions reachable only through file handles, package searchers/loaders and
   the debug library are classified by the library they come from *)
Definition library_authority (path : str) : option (list N) :=
  match authority_of path with
  | Some a => Some a
  | None =>
    if starts_with (T "debug.") path then Some [A_HOST_INSPECT]
    else if starts_with_any [T "package.searchers"; T "package.loaders"] path then Some [A_LOAD_DISK; A_LOAD_NATIVE; A_FILE_READ]
    else if starts_with_any [T "package.preload"; T "package.loaded"] path then None
    else if starts_with_any [T "io.stdin"; T "io.stdout"; T "io.stderr"] path then Some [A_FILE_READ; A_FILE_WRITE]
    else None
  end.

Definition is_func (n : lnode) : bool := (ln_kind n =? LK_CFUNC) || (ln_kind n =? LK_LFUNC).

(* the dump is closed: every edge joins dumped nodes (node 0 is the virtual
   root of the per-type metatables) *)
Definition node_ids (g : lgraph) : list N := 0 :: map ln_id (lg_nodes g).
Definition closed (g : lgraph) : bool :=
  existsb (N.eqb 1) (node_ids g) &&
  forallb (fun e => existsb (N.eqb (le_from e)) (node_ids g) && existsb (N.eqb (le_to e)) (node_ids g)) (lg_edges g).

(* authorities reachable in a graph; None if some reachable builtin is unknown *)
Fixpoint graph_authority (ns : list lnode) : option (list N) :=
  match ns with
  | [] => Some []
  | n :: ns' =>
    match graph_authority ns' with
    | None => None
    | Some rest =>
      if ln_kind n =? LK_CFUNC then
        match library_authority (ln_path n) with
        | Some a => Some (a ++ rest)
        | None => None
        end
      else Some rest
    end
  end.

Definition global_names (g : lgraph) : list str :=
  map le_key (filter (fun e => le_from e =? 1) (lg_edges g)).     (* node 1 is _G *)

Definition has_global (g : lgraph) (name : str) : bool := existsb (str_eqb name) (global_names g).

(* the sandbox claim for one dumped graph *)
Definition forbidden_globals : list str :=
  map (fun b => T b) ["io"; "os"; "package"; "debug"; "require"; "dofile"; "loadfile"]%bs.

Definition sandboxed (g : lgraph) : bool :=
  closed g
  && match graph_authority (lg_nodes g) with Some [] => true | _ => false end
  && forallb (fun n => negb (has_global g n)) forbidden_globals
  && forallb (fun n => negb (ln_kind n =? LK_OTHER) || negb (starts_with (T "io.") (ln_path n))) (lg_nodes g).

Definition has_auth (a : N) (g : lgraph) : bool :=
  match graph_authority (lg_nodes g) with Some l => existsb (N.eqb a) l | None => true end.

(* safe mode: io, os, package appear; debug and native loading do not *)
Definition safe_mode_ok (g : lgraph) : bool :=
  closed g && has_global g (T "io") && has_global g (T "os") && has_global g (T "package")
  && negb (has_global g (T "debug")).

Definition unsafe_mode_ok (g : lgraph) : bool :=
  closed g && has_global g (T "debug") && has_global g (T "package") && has_auth A_LOAD_NATIVE g.

(* ---------- confinement: navigation never leaves the dumped node set ---------- *)
(* what a script can do to the values it holds: follow a table entry or a
   metatable link (both are dumped as edges) *)
Inductive reach (g : lgraph) : N -> Prop :=
| reach_root : reach g 1
| reach_meta_root : reach g 0
| reach_edge : forall e, In e (lg_edges g) -> reach g (le_from e) -> reach g (le_to e).

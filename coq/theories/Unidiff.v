(* Unidiff.v - the unified-diff parser blockwatch inherits from the `unidiff`
   crate (0.4.0): a line-driven state machine in which EVERY line of the diff,
   hunk bodies included, is tested for file headers and hunk headers. *)
From BW Require Export Defs.

Inductive dkind := KAdd | KDel | KCtx | KOther.

Record dline := {
  dl_kind : dkind;
  dl_val : str;
  dl_src : N;      (* source line number (meaningful for KDel, KCtx) *)
  dl_tgt : N       (* target line number (meaningful for KAdd, KCtx) *)
}.

Record hunk := {
  h_ss : N; h_sl : N; h_ts : N; h_tl : N;
  h_lines : list dline
}.

Record pfile := { pf_source : str; pf_target : str; pf_hunks : list hunk }.

(* ---------- header recognisers (the three regexes) ---------- *)
(* ^--- (?P<filename>[^\t\n]+)... : "--- " followed by at least one non-tab char *)
Definition header_name (prefix : str) (l : str) : option str :=
  match strip_prefix prefix l with
  | Some r =>
    match take_while (fun c => negb (c =? 9)) r with
    | [] => None
    | n => Some n
    end
  | None => None
  end.
Definition source_header (l : str) : option str := header_name (T "--- ") l.
Definition target_header (l : str) : option str := header_name (T "+++ ") l.

Definition take_digits (s : str) : option (N * str) :=
  match take_while is_ascii_digit s with
  | [] => None
  | d => match digits_val 0 d with
         | Some n => Some (n, drop_while is_ascii_digit s)
         | None => None
         end
  end.

(* optional ",N" *)
Definition opt_len (s : str) : N * str :=
  match s with
  | 44 :: r => match take_digits r with Some (n, r') => (n, r') | None => (1, s) end
  | _ => (1, s)
  end.

(* ^@@ -(\d+)(?:,(\d+))? \+(\d+)(?:,(\d+))? @@ *)
Definition hunk_header (l : str) : option (N * N * N * N) :=
  match strip_prefix (T "@@ -") l with
  | None => None
  | Some r0 =>
    match take_digits r0 with
    | None => None
    | Some (ss, r1) =>
      let '(sl, r2) := opt_len r1 in
      match strip_prefix (T " +") r2 with
      | None => None
      | Some r3 =>
        match take_digits r3 with
        | None => None
        | Some (ts, r4) =>
          let '(tl, r5) := opt_len r4 in
          match strip_prefix (T " @@") r5 with
          | Some _ => Some (ss, sl, ts, tl)
          | None => None
          end
        end
      end
    end
  end.

(* ---------- hunk body ---------- *)
(* first char in [- + space \] selects the type; anything else (incl. the empty
   line) is context with the whole line as value *)
Definition classify (l : str) : dkind * str :=
  match l with
  | 43 :: v => (KAdd, v)
  | 45 :: v => (KDel, v)
  | 32 :: v => (KCtx, v)
  | 92 :: v => (KOther, v)
  | _ => (KCtx, l)
  end.

Fixpoint parse_hunk_lines (ls : list str) (src tgt src_end tgt_end : N) : list dline :=
  match ls with
  | [] => []
  | l :: ls' =>
    let '(k, v) := classify l in
    let d := {| dl_kind := k; dl_val := v; dl_src := src; dl_tgt := tgt |} in
    let src' := match k with KDel | KCtx => src + 1 | _ => src end in
    let tgt' := match k with KAdd | KCtx => tgt + 1 | _ => tgt end in
    if (src_end <=? src') && (tgt_end <=? tgt') then [d]
    else d :: parse_hunk_lines ls' src' tgt' src_end tgt_end
  end.

Definition parse_hunk (hdr : N * N * N * N) (body : list str) : hunk :=
  let '(ss, sl, ts, tl) := hdr in
  {| h_ss := ss; h_sl := sl; h_ts := ts; h_tl := tl;
     h_lines := parse_hunk_lines body ss ts (ss + sl) (ts + tl) |}.

(* ---------- the outer loop ---------- *)
Definition E_TARGET_WITHOUT_SOURCE := E_DIFF.
Definition E_UNEXPECTED_HUNK := E_DIFF.

(* state: finished files (reversed), current file, last seen source name *)
Fixpoint parse_lines (ls : list str) (files : list pfile) (cur : option pfile) (src : option str)
  : res (list pfile) :=
  match ls with
  | [] => Ok (rev (match cur with Some f => f :: files | None => files end))
  | l :: ls' =>
    match source_header l with
    | Some name =>
      parse_lines ls' (match cur with Some f => f :: files | None => files end) None (Some name)
    | None =>
      match target_header l with
      | Some name =>
        match cur with
        | Some _ => Err E_TARGET_WITHOUT_SOURCE
        | None =>
          match src with
          | None => Panic 50            (* source_file.clone().unwrap() *)
          | Some s => parse_lines ls' files (Some {| pf_source := s; pf_target := name; pf_hunks := [] |}) src
          end
        end
      | None =>
        match hunk_header l with
        | Some hdr =>
          match cur with
          | None => Err E_UNEXPECTED_HUNK
          | Some f =>
            parse_lines ls' files
              (Some {| pf_source := pf_source f; pf_target := pf_target f;
                       pf_hunks := pf_hunks f ++ [parse_hunk hdr ls'] |}) src
          end
        | None => parse_lines ls' files cur src
        end
      end
    end
  end.

Definition parse_patch (diff : str) : res (list pfile) := parse_lines (lines diff) [] None None.

Definition is_removed_file (f : pfile) : bool :=
  match pf_hunks f with
  | [h] => (h_ts h =? 0) && (h_tl h =? 0)
  | _ => false
  end.

(* target path as blockwatch keys it: one leading "b/" removed *)
Definition target_path (f : pfile) : str :=
  match strip_prefix (T "b/") (pf_target f) with Some p => p | None => pf_target f end.

(* C02 - Diff mode validates exactly the touched blocks, with full-scan verdicts.
   Property theorems only; proofs are in coq/proofs. *)
From BW Require Import Select Run.
From BWP Require Import TextFacts Select_proofs Diff_proofs C01_proofs.

(* In diff-only mode a block is selected iff the diff touches its start tag or its content. *)
Theorem C02_selected_iff_touched : forall lcs bs bc,
  In bc (select_blocks false lcs bs) <->
  exists b, In b bs /\ bc = mk_bctx lcs b /\ (content_modified b lcs = true \/ tag_modified b lcs = true).
Proof. exact selected_iff_touched. Qed.
Print Assumptions C02_selected_iff_touched.

(* With path arguments matching the file every block is selected, in order. *)
Theorem C02_scan_selects_all : forall lcs bs, map bc_block (select_blocks true lcs bs) = bs.
Proof. exact scan_selects_all. Qed.
Print Assumptions C02_scan_selects_all.

(* Whole-line changes hit exactly the lines of the range. *)
Theorem C02_content_whole_line : forall b lc, lc_ranges lc = None ->
  content_hit b lc = (fst (b_cs b) <=? lc_line lc) && (lc_line lc <=? fst (b_ce b)).
Proof. exact content_hit_whole_line. Qed.
Print Assumptions C02_content_whole_line.
Theorem C02_tag_whole_line : forall b lc, lc_ranges lc = None ->
  tag_hit b lc = (fst (b_ts b) <=? lc_line lc) && (lc_line lc <=? fst (b_te b)).
Proof. exact tag_hit_whole_line. Qed.
Print Assumptions C02_tag_whole_line.

(* Editing only the attributes inside a start tag selects the block but is not a content change. *)
Theorem C02_tag_only_edit : forall b lc rs,
  fst (b_ts b) = fst (b_te b) -> fst (b_cs b) = fst (b_ts b) -> snd (b_te b) < snd (b_cs b) ->
  fst (b_ts b) < fst (b_ce b) ->
  lc_line lc = fst (b_ts b) -> lc_ranges lc = Some rs ->
  (forall r, In r rs -> snd (b_ts b) - 1 <= fst r /\ fst r < snd r /\ snd r <= snd (b_te b)) ->
  rs <> [] ->
  tag_hit b lc = true /\ content_hit b lc = false.
Proof. exact tag_only_edit. Qed.
Print Assumptions C02_tag_only_edit.

(* Editing only the end-tag comment does neither. *)
Theorem C02_end_tag_only_edit : forall b lc rs,
  lc_line lc = fst (b_ce b) -> fst (b_cs b) < fst (b_ce b) -> fst (b_te b) < fst (b_ce b) ->
  lc_ranges lc = Some rs -> (forall r, In r rs -> snd (b_ce b) - 1 <= fst r) ->
  tag_hit b lc = false /\ content_hit b lc = false.
Proof. exact end_tag_only_edit. Qed.
Print Assumptions C02_end_tag_only_edit.

(* Content that shares the start tag's line is content. *)
Theorem C02_content_on_tag_line : forall b lc rs r,
  fst (b_ts b) = fst (b_te b) -> fst (b_cs b) = fst (b_ts b) -> snd (b_te b) < snd (b_cs b) ->
  fst (b_ts b) < fst (b_ce b) ->
  lc_line lc = fst (b_ts b) -> lc_ranges lc = Some rs -> In r rs -> snd (b_cs b) - 1 < snd r ->
  content_hit b lc = true.
Proof. exact content_on_tag_line_edit. Qed.
Print Assumptions C02_content_on_tag_line.

(* Code outside the block: nothing far from the block selects or marks it. *)
Theorem C02_outside : forall b lcs,
  (forall lc, In lc lcs -> (lc_line lc < fst (b_ts b) /\ lc_line lc < fst (b_cs b)) \/
                           (fst (b_te b) < lc_line lc /\ fst (b_ce b) < lc_line lc)) ->
  tag_modified b lcs = false /\ content_modified b lcs = false.
Proof. exact far_not_selected. Qed.
Print Assumptions C02_outside.

(* Changed ranges of a modified line come out sorted, so the per-line range test is order-independent. *)
Theorem C02_ranges_sorted : forall new ops pd acc,
  rsorted acc -> sorted_by_start (line_diff_ops new ops pd acc).
Proof. exact line_diff_ops_sorted. Qed.
Print Assumptions C02_ranges_sorted.

(* --- compositions --- *)
From BW Require Import SpecTag SpecBlocks Merge Context.
From BWP Require Import Run_proofs Compose_proofs.
From Coq Require Import Permutation.
(* For the sort, uniqueness, pattern, count, AI and script rules the diagnostics of the run over the selected blocks are exactly those a full scan computes for those blocks - none of an unselected block is reported, none of a selected block is dropped. *)
Theorem C02_verdicts_agree : forall o ctx sel v,
  In v [V_SORTED; V_UNIQUE; V_PATTERN; V_COUNT; V_AI; V_LUA] ->
  (forall f bc, In f ctx -> In bc (fc_blocks f) -> prepass_block v bc = Ok tt) ->
  vr_diags (run_validator o (restrict sel ctx) v) =
  flat_map (fun f => flat_map (fun bc =>
      if sel bc then vr_diags (vres_of (fc_path f) (validate_block o (named_modified ctx) v f bc))
      else []) (fc_blocks f)) ctx.
Proof. exact diff_mode_verdicts_agree. Qed.
Print Assumptions C02_verdicts_agree.

(* These rules look only at the block itself (not at diff flags, not at other blocks). *)
Theorem C02_rules_are_local : forall o nm nm' v f bc bc',
  In v [V_SORTED; V_UNIQUE; V_PATTERN; V_COUNT; V_AI; V_LUA] ->
  bc_block bc = bc_block bc' ->
  validate_block o nm v f bc = validate_block o nm' v f bc'.
Proof. exact validate_block_local. Qed.
Print Assumptions C02_rules_are_local.

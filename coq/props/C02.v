(* C02 - Diff mode validates exactly the touched blocks, with full-scan verdicts.
   Property theorems only; proofs are in coq/proofs. *)
From BW Require Import Select Run.
From BWP Require Import TextFacts Select_proofs Diff_proofs C01_proofs.

(* In diff-only mode a block is selected iff the diff touches its start tag or its content. *)
Theorem C02_selected_iff_touched : forall lcs bs bc,
  In bc (select_blocks false lcs bs) <->
  exists b, In b bs /\ bc = mk_bctx lcs b /\ (content_modified b lcs = true \/ tag_modified b lcs = true).
Proof. exact selected_iff_touched. Qed.
Print Assumptions C02_selected_iff_touched.

(* With path arguments matching the file every block is selected, in order. *)
Theorem C02_scan_selects_all : forall lcs bs, map bc_block (select_blocks true lcs bs) = bs.
Proof. exact scan_selects_all. Qed.
Print Assumptions C02_scan_selects_all.

(* Whole-line changes hit exactly the lines of the range. *)
Theorem C02_content_whole_line : forall b lc, lc_ranges lc = None ->
  content_hit b lc = (fst (b_cs b) <=? lc_line lc) && (lc_line lc <=? fst (b_ce b)).
Proof. exact content_hit_whole_line. Qed.
Print Assumptions C02_content_whole_line.
Theorem C02_tag_whole_line : forall b lc, lc_ranges lc = None ->
  tag_hit b lc = (fst (b_ts b) <=? lc_line lc) && (lc_line lc <=? fst (b_te b)).
Proof. exact tag_hit_whole_line. Qed.
Print Assumptions C02_tag_whole_line.

(* Editing only the attributes inside a start tag selects the block but is not a content change. *)
Theorem C02_tag_only_edit : forall b lc rs,
  fst (b_ts b) = fst (b_te b) -> fst (b_cs b) = fst (b_ts b) -> snd (b_te b) < snd (b_cs b) ->
  fst (b_ts b) < fst (b_ce b) ->
  lc_line lc = fst (b_ts b) -> lc_ranges lc = Some rs ->
  (forall r, In r rs -> snd (b_ts b) - 1 <= fst r /\ fst r < snd r /\ snd r <= snd (b_te b)) ->
  rs <> [] ->
  tag_hit b lc = true /\ content_hit b lc = false.
Proof. exact tag_only_edit. Qed.
Print Assumptions C02_tag_only_edit.

(* Editing only the end-tag comment does neither. *)
Theorem C02_end_tag_only_edit : forall b lc rs,
  lc_line lc = fst (b_ce b) -> fst (b_cs b) < fst (b_ce b) -> fst (b_te b) < fst (b_ce b) ->
  lc_ranges lc = Some rs -> (forall r, In r rs -> snd (b_ce b) - 1 <= fst r) ->
  tag_hit b lc = false /\ content_hit b lc = false.
Proof. exact end_tag_only_edit. Qed.
Print Assumptions C02_end_tag_only_edit.

(* Content that shares the start tag's line is content. *)
Theorem C02_content_on_tag_line : forall b lc rs r,
  fst (b_ts b) = fst (b_te b) -> fst (b_cs b) = fst (b_ts b) -> snd (b_te b) < snd (b_cs b) ->
  fst (b_ts b) < fst (b_ce b) ->
  lc_line lc = fst (b_ts b) -> lc_ranges lc = Some rs -> In r rs -> snd (b_cs b) - 1 < snd r ->
  content_hit b lc = true.
Proof. exact content_on_tag_line_edit. Qed.
Print Assumptions C02_content_on_tag_line.

(* Code outside the block: nothing far from the block selects or marks it. *)
Theorem C02_outside : forall b lcs,
  (forall lc, In lc lcs -> (lc_line lc < fst (b_ts b) /\ lc_line lc < fst (b_cs b)) \/
                           (fst (b_te b) < lc_line lc /\ fst (b_ce b) < lc_line lc)) ->
  tag_modified b lcs = false /\ content_modified b lcs = false.
Proof. exact far_not_selected. Qed.
Print Assumptions C02_outside.

(* Changed ranges of a modified line come out sorted, so the per-line range test is order-independent. *)
Theorem C02_ranges_sorted : forall new ops pd acc,
  rsorted acc -> sorted_by_start (line_diff_ops new ops pd acc).
Proof. exact line_diff_ops_sorted. Qed.
Print Assumptions C02_ranges_sorted.

(* --- compositions --- *)
From BW Require Import SpecTag SpecBlocks Merge Context.
From BWP Require Import Run_proofs Compose_proofs.
From Coq Require Import Permutation.
From BW Require Import Main.
From BWGen Require Import ExtTable.
From BWP Require Import Context_proofs Run_proofs Compose_proofs Main_proofs MainCompose_proofs Scope_proofs DiffScanE2E_proofs.
(* For the sort, uniqueness, pattern, count, AI and script rules the diagnostics of the run over the selected blocks are exactly those a full scan computes for those blocks - none of an unselected block is reported, none of a selected block is dropped. *)
Theorem C02_verdicts_agree : forall o ctx sel v,
  In v [V_SORTED; V_UNIQUE; V_PATTERN; V_COUNT; V_AI; V_LUA] ->
  (forall f bc, In f ctx -> In bc (fc_blocks f) -> prepass_block v bc = Ok tt) ->
  vr_diags (run_validator o (restrict sel ctx) v) =
  flat_map (fun f => flat_map (fun bc =>
      if sel bc then vr_diags (vres_of (fc_path f) (validate_block o (named_modified ctx) v f bc))
      else []) (fc_blocks f)) ctx.
Proof. exact diff_mode_verdicts_agree. Qed.
Print Assumptions C02_verdicts_agree.

(* These rules look only at the block itself (not at diff flags, not at other blocks). *)
Theorem C02_rules_are_local : forall o nm nm' v f bc bc',
  In v [V_SORTED; V_UNIQUE; V_PATTERN; V_COUNT; V_AI; V_LUA] ->
  bc_block bc = bc_block bc' ->
  validate_block o nm v f bc = validate_block o nm' v f bc'.
Proof. exact validate_block_local. Qed.
Print Assumptions C02_rules_are_local.

(* Every file of the diff-mode context is a file of the full-scan context (when the scan examines it) holding exactly the scan's blocks that the diff touches, in the same order. *)
Theorem C02_diff_context_is_selected_scan_context : forall ext fs ch,
  NoDup (map rf_path fs) -> NoDup (map fst ch) ->
  (forall p l, In (p, l) ch -> find_file p fs <> None) ->
  let scan := build_context ext fs true [] in
  let dif := build_context ext fs false ch in
  forall f_dif, In f_dif (cr_ctx dif) ->
  exists rf lcs,
    In rf fs /\ rf_path rf = fc_path f_dif /\ rf_text rf = fc_text f_dif /\ rf_ignore rf = false /\
    In (fc_path f_dif, lcs) ch /\ lcs_of ch (fc_path f_dif) = lcs /\
    (* when the scan examines the file too: walked and allowed *)
    (rf_exists rf && rf_allow rf = true ->
     exists f_scan, In f_scan (cr_ctx scan) /\
       fc_path f_scan = fc_path f_dif /\ fc_text f_scan = fc_text f_dif /\
       map bc_block (fc_blocks f_dif) = map bc_block (filter (touched_by lcs) (fc_blocks f_scan))).
Proof. exact diff_context_is_selected_scan_context. Qed.
Print Assumptions C02_diff_context_is_selected_scan_context.

(* Diff mode reports nothing the full scan would not report for the same block. *)
Theorem C02_nothing_extra : forall (o : oracles) (ext : list (str * str)) (fs : list rfile) (ch : list (str * list lchange)) (v : N),
  In v content_validators -> NoDup (map rf_path fs) -> NoDup (map fst ch) ->
  (forall (p : str) (l : list lchange), In (p, l) ch -> find_file p fs <> None) ->
  diff_in_scan_scope fs ch ->
  prepass_clean v (cr_ctx (build_context ext fs true [])) ->
  forall pd : str * diag,
  In pd (vr_diags (run_validator o (cr_ctx (build_context ext fs false ch)) v)) ->
  In pd (vr_diags (run_validator o (cr_ctx (build_context ext fs true [])) v)) /\
  (exists (f : fctx) (bc : bctx),
     In f (cr_ctx (build_context ext fs true [])) /\ In bc (fc_blocks f) /\
     touched_by (lcs_of ch (fc_path f)) bc = true /\
     In pd (block_verdict o (named_modified (cr_ctx (build_context ext fs true []))) v f bc)).
Proof. exact diff_nothing_extra. Qed.
Print Assumptions C02_nothing_extra.

(* Every full-scan verdict of a touched block is reported in diff mode. *)
Theorem C02_nothing_lost : forall (o : oracles) (ext : list (str * str)) (fs : list rfile) (ch : list (str * list lchange)) (v : N),
  In v content_validators -> NoDup (map rf_path fs) -> NoDup (map fst ch) ->
  (forall (p : str) (l : list lchange), In (p, l) ch -> find_file p fs <> None) ->
  diff_in_scan_scope fs ch ->
  prepass_clean v (cr_ctx (build_context ext fs true [])) ->
  forall (f : fctx) (bc : bctx) (pd : str * diag),
  In f (cr_ctx (build_context ext fs true [])) -> In bc (fc_blocks f) ->
  touched_by (lcs_of ch (fc_path f)) bc = true ->
  In pd (block_verdict o (named_modified (cr_ctx (build_context ext fs true []))) v f bc) ->
  In pd (vr_diags (run_validator o (cr_ctx (build_context ext fs false ch)) v)).
Proof. exact diff_nothing_lost. Qed.
Print Assumptions C02_nothing_lost.

(* Through main, two command lines (interactive scan; diff on stdin without globs) on the same files: for every content validator that is switched on, the diff run's diagnostics are exactly the scan run's verdicts of the touched blocks - nothing extra, nothing lost. *)
Theorem C02_process_diff_run_vs_scan_run : forall a_scan a_diff p_s p_d ms tb cd ch v,
  plan_of a_scan = Ok p_s -> plan_of a_diff = Ok p_d -> scan_vs_diff a_scan a_diff ->
  NoDup (map (fun m => rf_path (mf_file m)) ms) ->
  model_changes (main_case a_diff p_d ms tb cd) = Ok ch -> NoDup (map fst ch) ->
  (forall m l, In m ms -> In (rf_path (mf_file m), l) ch -> eff_ignored a_diff m = false ->
     rf_exists (mf_file m) = true /\ (pl_star p_s = true \/ rf_allow (mf_file m) = true)) ->
  let cs := model_context (main_case a_scan p_s ms tb cd) in
  let cdf := model_context (main_case a_diff p_d ms tb cd) in
  cr_panic cs = false -> cr_errs cs = [] -> cr_panic cdf = false -> cr_errs cdf = [] ->
  In v content_validators ->
  In v (active_validators (pl_enabled p_s) (pl_disabled p_s)) ->
  prepass_clean v (cr_ctx cs) ->
  let o := oracles_of tb in
  let of_v := fun pd : str * diag => d_code (snd pd) =? v in
  exists r_s r_d,
    main_model a_scan ms tb cd = MRun r_s /\ main_model a_diff ms tb cd = MRun r_d /\
    (* exactly the touched blocks, with full-scan verdicts *)
    Permutation (filter of_v (vr_diags r_d)) (selected_scan_diags o v ch (cr_ctx cs)) /\
    Permutation (filter of_v (vr_diags r_s))
      (flat_map (fun f => flat_map (block_verdict o (named_modified (cr_ctx cs)) v f) (fc_blocks f)) (cr_ctx cs)) /\
    (* nothing extra *)
    (forall pd, In pd (vr_diags r_d) -> d_code (snd pd) = v -> In pd (vr_diags r_s)) /\
    (* nothing lost *)
    (forall f bc pd, In f (cr_ctx cs) -> In bc (fc_blocks f) ->
       touched_by (lcs_of ch (fc_path f)) bc = true ->
       In pd (block_verdict o (named_modified (cr_ctx cs)) v f bc) ->
       In pd (vr_diags r_d) /\ In pd (vr_diags r_s) /\ d_code (snd pd) = v).
Proof. exact main_diff_run_vs_scan_run. Qed.
Print Assumptions C02_process_diff_run_vs_scan_run.

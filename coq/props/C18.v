(* C18 - check-lua: one call per block, faithful arguments, errors fail the run. The script is an oracle o_lua keyed by (script path, file:tag line, content argument); Tokio and mlua are runtime, exercised through the real binary.
   Property theorems only; proofs are in coq/proofs. *)
From BW Require Import Merge.
From BWP Require Import TextFacts Keys_proofs Run_proofs Script_proofs.
From Coq Require Import Permutation.

(* The validator applies the per-block function exactly once to every block of the context (any number of blocks and files). *)
Theorem C18_validator_per_block o ctx :
  (forall f bc, In f ctx -> In bc (fc_blocks f) -> prepass_block V_LUA bc = Ok tt) ->
  run_validator o ctx V_LUA =
    fold_right vres_app vres_empty
      (flat_map (fun f => map (fun bc => vres_of (fc_path f) (check_lua_block o (fc_path f) (fc_text f) (bc_block bc)))
                              (fc_blocks f)) ctx).
Proof. exact (lua_validator_per_block o ctx). Qed.
Print Assumptions C18_validator_per_block.

(* For a scripted block the one call is made with the file's path, the tag's line and the selected content, and its result alone decides. *)
Theorem C18_call o path file b script content0 content :
  get_attr (T "check-lua") (b_attrs b) = Some script ->
  content_of file b = Ok content0 ->
  extract_content o (T "check-lua-pattern") E_LUA_PATTERN b content0 = Ok content ->
  check_lua_block o path file b =
    match o_lua o script (lua_key path b) content with
    | None => Err E_ORACLE_MISS
    | Some (cls, msg) =>
      if cls =? 0 then Ok []
      else if cls =? 1 then (let? sev := sev_of (b_attrs b) in Ok [tag_diag b V_LUA sev [script; msg]])
      else Err E_LUA_SCRIPT
    end.
Proof. exact (lua_call o path file b script content0 content). Qed.
Print Assumptions C18_call.

(* The content argument: the trimmed content ... *)
Theorem C18_content_trimmed o pat_attr e b content :
  get_attr pat_attr (b_attrs b) = None -> extract_content o pat_attr e b content = Ok (trim content).
Proof. exact (extract_no_pattern o pat_attr e b content). Qed.
Print Assumptions C18_content_trimmed.

(* ... or with check-lua-pattern the value group ... *)
Theorem C18_content_value_group o pat_attr e b content pat ms me vs ve k :
  get_attr pat_attr (b_attrs b) = Some pat -> o_rx_ok o pat = Some true ->
  o_rx o pat content = Some (Some (ms, me, Some (vs, ve))) -> bslice content vs ve = Some k ->
  extract_content o pat_attr e b content = Ok k.
Proof. exact (extract_value_group o pat_attr e b content pat ms me vs ve k). Qed.
Print Assumptions C18_content_value_group.

(* ... else the whole first match ... *)
Theorem C18_content_whole_match o pat_attr e b content pat ms me k :
  get_attr pat_attr (b_attrs b) = Some pat -> o_rx_ok o pat = Some true ->
  o_rx o pat content = Some (Some (ms, me, None)) -> bslice content ms me = Some k ->
  extract_content o pat_attr e b content = Ok k.
Proof. exact (extract_whole_match o pat_attr e b content pat ms me k). Qed.
Print Assumptions C18_content_whole_match.

(* ... empty if none. *)
Theorem C18_content_no_match o pat_attr e b content pat :
  get_attr pat_attr (b_attrs b) = Some pat -> o_rx_ok o pat = Some true ->
  o_rx o pat content = Some None -> extract_content o pat_attr e b content = Ok [].
Proof. exact (extract_no_match o pat_attr e b content pat). Qed.
Print Assumptions C18_content_no_match.

(* nil: no diagnostic. *)
Theorem C18_nil_passes o path file b script content0 content msg :
  get_attr (T "check-lua") (b_attrs b) = Some script -> content_of file b = Ok content0 ->
  extract_content o (T "check-lua-pattern") E_LUA_PATTERN b content0 = Ok content ->
  o_lua o script (lua_key path b) content = Some (0, msg) ->
  check_lua_block o path file b = Ok [].
Proof. exact (lua_nil_passes o path file b script content0 content msg). Qed.
Print Assumptions C18_nil_passes.

(* A string: exactly one check-lua diagnostic carrying that string, at the start tag. *)
Theorem C18_string_reports_once o path file b script content0 content msg sev :
  get_attr (T "check-lua") (b_attrs b) = Some script -> content_of file b = Ok content0 ->
  extract_content o (T "check-lua-pattern") E_LUA_PATTERN b content0 = Ok content ->
  o_lua o script (lua_key path b) content = Some (1, msg) -> sev_of (b_attrs b) = Ok sev ->
  check_lua_block o path file b = Ok [tag_diag b V_LUA sev [script; msg]].
Proof. exact (lua_string_reports_once o path file b script content0 content msg sev). Qed.
Print Assumptions C18_string_reports_once.

Theorem C18_unscripted_silent o path file b :
  get_attr (T "check-lua") (b_attrs b) = None -> check_lua_block o path file b = Ok [].
Proof. exact (lua_unscripted_silent o path file b). Qed.
Print Assumptions C18_unscripted_silent.

(* Anything else (syntax or runtime error, missing validate, non-string result, unreadable script) is an error ... *)
Theorem C18_fail_closed : forall o path file b script content0 content cls msg,
  get_attr (T "check-lua") (b_attrs b) = Some script ->
  content_of file b = Ok content0 ->
  extract_content o (T "check-lua-pattern") E_LUA_PATTERN b content0 = Ok content ->
  o_lua o script (path ++ (58 : char) :: dec (fst (b_ts b))) content = Some (cls, msg) ->
  cls <> 0 -> cls <> 1 ->
  check_lua_block o path file b = Err E_LUA_SCRIPT.
Proof. exact check_lua_script_fails. Qed.
Print Assumptions C18_fail_closed.

(* ... which fails the whole run, however many other blocks there are ... *)
Theorem C18_any_error_fails_run : forall o ctx vs v,
  In v vs -> vr_errs (run_validator o ctx v) <> [] ->
  exit_code (run_validators o ctx vs) = 1 /\ vr_errs (run_validators o ctx vs) <> [].
Proof. exact any_error_fails_run. Qed.
Print Assumptions C18_any_error_fails_run.

(* ... and in whatever order results arrive. *)
Theorem C18_any_completion_order : forall o ctx vs vs', Permutation vs vs' ->
  Permutation (vr_diags (run_validators o ctx vs)) (vr_diags (run_validators o ctx vs')) /\
  Permutation (vr_errs (run_validators o ctx vs)) (vr_errs (run_validators o ctx vs')) /\
  exit_code (run_validators o ctx vs) = exit_code (run_validators o ctx vs').
Proof. exact run_validators_perm. Qed.
Print Assumptions C18_any_completion_order.

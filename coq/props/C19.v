(* C19 - check-ai: request is faithful, reply decides, endpoint faults fail closed. The endpoint is an oracle o_ai keyed by (condition, content argument); HTTP, async-openai and JSON escaping are runtime, exercised through the real binary against a local fake endpoint.
   Property theorems only; proofs are in coq/proofs. *)
From BW Require Import Merge.
From BWP Require Import TextFacts Keys_proofs Run_proofs Script_proofs.
From Coq Require Import Permutation.

(* For a block with check-ai one request carries the condition and the selected content, and the outcome alone decides. *)
Theorem C19_call o file b cond content0 content :
  get_attr (T "check-ai") (b_attrs b) = Some cond ->
  content_of file b = Ok content0 ->
  extract_content o (T "check-ai-pattern") E_AI_PATTERN b content0 = Ok content ->
  check_ai_block o file b =
    match o_ai o cond content with
    | None => Err E_ORACLE_MISS
    | Some (cls, msg) =>
      if cls =? 0 then
        if ai_reply_ok msg then Ok []
        else (let? sev := sev_of (b_attrs b) in Ok [tag_diag b V_AI sev [trim cond; msg]])
      else Err E_AI_API
    end.
Proof. exact (ai_call o file b cond content0 content). Qed.
Print Assumptions C19_call.

Theorem C19_content_trimmed o pat_attr e b content :
  get_attr pat_attr (b_attrs b) = None -> extract_content o pat_attr e b content = Ok (trim content).
Proof. exact (extract_no_pattern o pat_attr e b content). Qed.
Print Assumptions C19_content_trimmed.

Theorem C19_content_value_group o pat_attr e b content pat ms me vs ve k :
  get_attr pat_attr (b_attrs b) = Some pat -> o_rx_ok o pat = Some true ->
  o_rx o pat content = Some (Some (ms, me, Some (vs, ve))) -> bslice content vs ve = Some k ->
  extract_content o pat_attr e b content = Ok k.
Proof. exact (extract_value_group o pat_attr e b content pat ms me vs ve k). Qed.
Print Assumptions C19_content_value_group.

Theorem C19_content_whole_match o pat_attr e b content pat ms me k :
  get_attr pat_attr (b_attrs b) = Some pat -> o_rx_ok o pat = Some true ->
  o_rx o pat content = Some (Some (ms, me, None)) -> bslice content ms me = Some k ->
  extract_content o pat_attr e b content = Ok k.
Proof. exact (extract_whole_match o pat_attr e b content pat ms me k). Qed.
Print Assumptions C19_content_whole_match.

(* A reply passes iff it is OK or OK. in any ASCII letter case. *)
Theorem C19_reply_ok_iff r :
  ai_reply_ok r = true <-> str_ascii_lower r = T "ok" \/ str_ascii_lower r = T "ok.".
Proof. exact (ai_reply_ok_iff r). Qed.
Print Assumptions C19_reply_ok_iff.

Theorem C19_ok_passes o file b cond content0 content msg :
  get_attr (T "check-ai") (b_attrs b) = Some cond -> content_of file b = Ok content0 ->
  extract_content o (T "check-ai-pattern") E_AI_PATTERN b content0 = Ok content ->
  o_ai o cond content = Some (0, msg) -> ai_reply_ok msg = true ->
  check_ai_block o file b = Ok [].
Proof. exact (ai_ok_passes o file b cond content0 content msg). Qed.
Print Assumptions C19_ok_passes.

(* Any other reply becomes exactly one check-ai diagnostic quoting it. *)
Theorem C19_other_reply_reports_once o file b cond content0 content msg sev :
  get_attr (T "check-ai") (b_attrs b) = Some cond -> content_of file b = Ok content0 ->
  extract_content o (T "check-ai-pattern") E_AI_PATTERN b content0 = Ok content ->
  o_ai o cond content = Some (0, msg) -> ai_reply_ok msg = false -> sev_of (b_attrs b) = Ok sev ->
  check_ai_block o file b = Ok [tag_diag b V_AI sev [trim cond; msg]].
Proof. exact (ai_other_reply_reports_once o file b cond content0 content msg sev). Qed.
Print Assumptions C19_other_reply_reports_once.

Theorem C19_unruled_silent o file b :
  get_attr (T "check-ai") (b_attrs b) = None -> check_ai_block o file b = Ok [].
Proof. exact (ai_unruled_silent o file b). Qed.
Print Assumptions C19_unruled_silent.

(* Any endpoint fault (missing key, refused connection, client-error status, malformed / empty / content-less body) is an error ... *)
Theorem C19_fault_fails : forall o file b cond content0 content cls msg,
  get_attr (T "check-ai") (b_attrs b) = Some cond ->
  content_of file b = Ok content0 ->
  extract_content o (T "check-ai-pattern") E_AI_PATTERN b content0 = Ok content ->
  o_ai o cond content = Some (cls, msg) ->
  cls <> 0 ->
  check_ai_block o file b = Err E_AI_API.
Proof. exact check_ai_api_fails. Qed.
Print Assumptions C19_fault_fails.

Theorem C19_empty_condition : forall o ctx f bc p,
  In f ctx -> In bc (fc_blocks f) ->
  get_attr (T "check-ai") (b_attrs (bc_block bc)) = Some p -> trim p = [] ->
  vr_errs (run_validator o ctx V_AI) <> [] /\ In E_AI_EMPTY (vr_errs (run_validator o ctx V_AI)) /\
  vr_diags (run_validator o ctx V_AI) = [].
Proof. exact run_ai_empty. Qed.
Print Assumptions C19_empty_condition.

(* ... which fails the run whatever the other requests return. *)
Theorem C19_any_error_fails_run : forall o ctx vs v,
  In v vs -> vr_errs (run_validator o ctx v) <> [] ->
  exit_code (run_validators o ctx vs) = 1 /\ vr_errs (run_validators o ctx vs) <> [].
Proof. exact any_error_fails_run. Qed.
Print Assumptions C19_any_error_fails_run.

(* C14 - --enable/--disable select validators without side effects.
   Property theorems only; proofs are in coq/proofs. *)
From BW Require Import Merge.
From BWP Require Import TextFacts Keys_proofs C01_proofs Run_proofs Merge_proofs.
From Coq Require Import Permutation.
From BW Require Import Main.
From BWGen Require Import ExtTable.
From BWP Require Import Main_proofs MainCompose_proofs.

(* The active validators: the enabled ones if any are given, otherwise all but the disabled ones. *)
Theorem C14_active : forall en dis v,
  In v (active_validators en dis) <->
  In v all_validators /\ (match en with [] => ~ In v dis | _ => In v en end).
Proof. exact active_validators_spec. Qed.
Print Assumptions C14_active.

(* Repeating a flag composes as set union. *)
Theorem C14_enable_union : forall a b v, a <> [] -> b <> [] ->
  (In v (active_validators (a ++ b) []) <->
   In v (active_validators a []) \/ In v (active_validators b [])).
Proof. exact active_enable_union. Qed.
Print Assumptions C14_enable_union.

Theorem C14_disable_union : forall a b v,
  In v (active_validators [] (a ++ b)) <->
  In v (active_validators [] a) /\ In v (active_validators [] b).
Proof. exact active_disable_union. Qed.
Print Assumptions C14_disable_union.

(* The lazy detection loop instantiates exactly the active validators that fire on some block, each once, for every iteration order of files and blocks. *)
Theorem C14_detected_exact : forall en dis ctx,
  Permutation (detected_validators en dis ctx)
              (filter (fun v => existsb (detects v) (all_blocks ctx)) (active_validators en dis)).
Proof. exact detected_validators_exact. Qed.
Print Assumptions C14_detected_exact.

(* A validator that fires on no block would have reported nothing. *)
Theorem C14_undetected_silent : forall o ctx v,
  In v all_validators -> existsb (detects v) (all_blocks ctx) = false ->
  vr_diags (run_validator o ctx v) = [] /\ vr_errs (run_validator o ctx v) = [] /\
  vr_panic (run_validator o ctx v) = false.
Proof. exact undetected_silent. Qed.
Print Assumptions C14_undetected_silent.

(* --disable V removes exactly V's diagnostics; every other diagnostic is identical. *)
Theorem C14_disable_removes_exactly : forall o ctx dis V, In V all_validators ->
  Permutation
    (vr_diags (run_validators o ctx (detected_validators [] (V :: dis) ctx)))
    (filter (fun pd => negb (d_code (snd pd) =? V))
            (vr_diags (run_validators o ctx (detected_validators [] dis ctx)))).
Proof. exact disable_removes_exactly. Qed.
Print Assumptions C14_disable_removes_exactly.

(* --enable keeps exactly the named validators' diagnostics. *)
Theorem C14_enable_keeps_exactly : forall o ctx en, en <> [] ->
  (forall v, In v en -> In v all_validators) ->
  Permutation
    (vr_diags (run_validators o ctx (detected_validators en [] ctx)))
    (filter (fun pd => existsb (N.eqb (d_code (snd pd))) en)
            (vr_diags (run_validators o ctx (detected_validators [] [] ctx)))).
Proof. exact enable_keeps_exactly. Qed.
Print Assumptions C14_enable_keeps_exactly.

(* On the model of main.rs / flags.rs (theories/Main.v): a validator name that is not registered exactly as typed is a usage error (exit status 2) whatever else is on the command line. *)
Theorem C14_unknown_validator_rejected : forall a s,
  In s (ca_dis_raw a ++ ca_en_raw a) -> ~ In s validator_names -> plan_of a = Err E_USAGE.
Proof. exact unknown_validator_is_usage_error. Qed.
Print Assumptions C14_unknown_validator_rejected.

(* --enable and --disable together are rejected. *)
Theorem C14_enable_and_disable_rejected : forall a,
  effective (ca_dis_pre a) (ca_dis_post a) <> [] -> effective (ca_en_pre a) (ca_en_post a) <> [] ->
  exists e, plan_of a = Err e.
Proof. exact enable_and_disable_rejected. Qed.
Print Assumptions C14_enable_and_disable_rejected.

(* A rejected command line ends the run with that error whatever the files, tables and diff are: nothing is validated. *)
Theorem C14_rejected_before_any_file : forall a e fs fs' tb tb' cd cd', plan_of a = Err e ->
  main_model a fs tb cd = MFail e /\ main_model a fs' tb' cd' = MFail e.
Proof. exact flag_errors_touch_no_file. Qed.
Print Assumptions C14_rejected_before_any_file.

(* An accepted command line runs exactly the modelled validation (detection restricted by the flag sets, C14_enable_exact / C14_disable_exact above) on the case main assembles. *)
Theorem C14_accepted_run_is_the_modelled_run : forall a p fs tb cd, plan_of a = Ok p -> ca_list a = false ->
  main_model a fs tb cd = MRun (model_run (rcase_of p (map (effective_file a) fs) tb cd)).
Proof. exact main_run_is_model_run. Qed.
Print Assumptions C14_accepted_run_is_the_modelled_run.

(* Through main: the run with -d values (typed before any subcommand) reports exactly the unrestricted run's diagnostics whose validator is not disabled. *)
Theorem C14_process_disable_exact : forall a a0 p p0 ms tb cd,
  plan_of a = Ok p -> plan_of a0 = Ok p0 -> same_but_validator_flags a a0 ->
  ca_list a = false -> ca_list a0 = false ->
  ca_dis_pre a0 = [] -> ca_dis_post a0 = [] -> ca_dis_post a = [] ->
  ca_en_pre a = [] -> ca_en_post a = [] -> ca_en_pre a0 = [] -> ca_en_post a0 = [] ->
  exists dis v v0,
    map_opt parse_validator (ca_dis_pre a) = Some dis /\
    main_model a ms tb cd = MRun v /\ main_model a0 ms tb cd = MRun v0 /\
    Permutation (vr_diags v)
      (filter (fun pd => negb (existsb (N.eqb (d_code (snd pd))) dis)) (vr_diags v0)).
Proof. exact main_disable_removes_exactly. Qed.
Print Assumptions C14_process_disable_exact.

(* Through main: the run with -e values reports exactly the unrestricted run's diagnostics of the enabled validators. *)
Theorem C14_process_enable_exact : forall a a0 p p0 ms tb cd,
  plan_of a = Ok p -> plan_of a0 = Ok p0 -> same_but_validator_flags a a0 ->
  ca_list a = false -> ca_list a0 = false ->
  ca_en_pre a <> [] -> ca_en_post a = [] -> ca_dis_pre a = [] -> ca_dis_post a = [] ->
  ca_en_pre a0 = [] -> ca_en_post a0 = [] -> ca_dis_pre a0 = [] -> ca_dis_post a0 = [] ->
  exists en v v0,
    map_opt parse_validator (ca_en_pre a) = Some en /\
    main_model a ms tb cd = MRun v /\ main_model a0 ms tb cd = MRun v0 /\
    Permutation (vr_diags v)
      (filter (fun pd => existsb (N.eqb (d_code (snd pd))) en) (vr_diags v0)).
Proof. exact main_enable_keeps_exactly. Qed.
Print Assumptions C14_process_enable_exact.

(* The list subcommand does not depend on --enable/--disable: two accepted command lines that differ only there list the same files. *)
Theorem C14_list_ignores_validator_flags : forall a a' p p' fs tb cd,
  plan_of a = Ok p -> plan_of a' = Ok p' ->
  pl_scan p = pl_scan p' -> pl_star p = pl_star p' -> pl_diff p = pl_diff p' -> pl_ext p = pl_ext p' ->
  ca_ign_post a = ca_ign_post a' ->
  ca_list a = true -> ca_list a' = true ->
  main_model a fs tb cd = main_model a' fs tb cd.
Proof. exact list_ignores_validator_flags. Qed.
Print Assumptions C14_list_ignores_validator_flags.

(* C15 - Only files in scope are examined: globs, --ignore and diff paths. Glob matching (globset) is an oracle: rf_allow / rf_ignore.
   Property theorems only; proofs are in coq/proofs. *)
From BW Require Import Context.
From BWGen Require Import ExtTable.
From BWP Require Import TextFacts Suffix_proofs Context_proofs Diff_proofs.
From BW Require Import Main.
From BWP Require Import Main_proofs MainCompose_proofs Scope_proofs.
From BWGen Require Import ExtTable.

(* Every file that contributes blocks is in scope: scanned (exists, matches a positional glob, not ignored) or named in the diff and not ignored. *)
Theorem C15_context_files_in_scope : forall ext_map fs scan changes fc,
  In fc (cr_ctx (build_context ext_map fs scan changes)) ->
  exists f, In f fs /\ fc_path fc = rf_path f /\ in_scope scan changes f = true.
Proof. exact context_files_in_scope. Qed.
Print Assumptions C15_context_files_in_scope.

(* Files outside that set never contribute blocks, diagnostics or errors: changing their content (or their comments) changes nothing. *)
Theorem C15_out_of_scope_irrelevant : forall ext_map fs fs' scan changes,
  Forall2 (fun f f' => rf_path f = rf_path f' /\ rf_exists f = rf_exists f' /\
                       rf_allow f = rf_allow f' /\ rf_ignore f = rf_ignore f' /\
                       (in_scope scan changes f = true -> f = f')) fs fs' ->
  build_context ext_map fs scan changes = build_context ext_map fs' scan changes.
Proof. exact out_of_scope_irrelevant. Qed.
Print Assumptions C15_out_of_scope_irrelevant.

(* --ignore wins over both. *)
Theorem C15_ignore_wins : forall ext_map fs scan changes fc f,
  In fc (cr_ctx (build_context ext_map fs scan changes)) ->
  In f fs -> fc_path fc = rf_path f ->
  (forall g, In g fs -> rf_path g = rf_path f -> g = f) ->
  rf_ignore f = false.
Proof. exact ignored_never_examined. Qed.
Print Assumptions C15_ignore_wins.

(* An error in a file in scope is reported (scan loop) ... *)
Theorem C15_scanned_error_reported : forall ext_map fs changes f e,
  In f fs -> scanned f = true ->
  parse_one ext_map f true
    (match changes_for (rf_path f) changes with Some l => l | None => [] end) = Some (Err e) ->
  In e (cr_errs (build_context ext_map fs true changes)).
Proof. exact scanned_error_reported. Qed.
Print Assumptions C15_scanned_error_reported.

(* ... and in the diff loop (every diff path has a file entry in the case). *)
Theorem C15_diff_error_reported : forall ext_map fs scan changes p lcs f e,
  (forall q l, In (q, l) changes -> find_file q fs <> None) ->
  In (p, lcs) changes -> find_file p fs = Some f -> rf_ignore f = false ->
  (scan && scanned f) = false ->
  parse_one ext_map f false lcs = Some (Err e) ->
  In e (cr_errs (build_context ext_map fs scan changes)).
Proof. exact diff_error_reported_total_oracle. Qed.
Print Assumptions C15_diff_error_reported.

(* Diff paths: exactly one leading b/ is removed, whatever the directory names. *)
Theorem C15_strip_once : forall s h p,
  target_path {| pf_source := s; pf_target := T "b/" ++ p; pf_hunks := h |} = p.
Proof. exact target_path_strips_once. Qed.
Print Assumptions C15_strip_once.

(* main.rs: files are scanned iff a positional glob is given or the run is interactive; the glob set is replaced by ** iff interactive without globs; the diff is read iff not interactive; a run only starts inside a repository and with well-formed globs. *)
Theorem C15_mode_matrix : forall a p, plan_of a = Ok p ->
  pl_scan p = (negb (ca_nglobs a =? 0) || ca_terminal a) /\
  pl_star p = ((ca_nglobs a =? 0) && ca_terminal a) /\
  pl_diff p = (if ca_terminal a then None else Some (ca_stdin a)) /\
  ca_root a = true /\ ca_globs_ok a = true.
Proof. exact plan_modes. Qed.
Print Assumptions C15_mode_matrix.

(* With a diff on stdin and no glob nothing is scanned. *)
Theorem C15_diff_only : forall a p, plan_of a = Ok p -> ca_terminal a = false -> ca_nglobs a = 0 ->
  pl_scan p = false /\ pl_diff p = Some (ca_stdin a).
Proof. exact diff_only_mode. Qed.
Print Assumptions C15_diff_only.

(* Interactive without globs: every walked, non-ignored file is scanned. *)
Theorem C15_interactive_scans_everything : forall p fs tb cd f, pl_star p = true -> In f fs ->
  rf_exists f = true -> rf_ignore f = false ->
  exists f', In f' (rc_files (rcase_of p fs tb cd)) /\ rf_path f' = rf_path f /\ rf_text f' = rf_text f /\ scanned f' = true.
Proof. exact star_scans_every_file. Qed.
Print Assumptions C15_interactive_scans_everything.

(* Through main: a listed file matches none of the --ignore globs main gets to see. *)
Theorem C15_listed_not_ignored : forall a ms tb cd cr fc,
  main_model a ms tb cd = MList cr -> In fc (cr_ctx cr) ->
  exists m, In m ms /\ fc_path fc = rf_path (mf_file m) /\
            (if ca_ign_post a =? 0 then mf_ign_pre m else mf_ign_post m) = false.
Proof. exact listed_file_not_effectively_ignored. Qed.
Print Assumptions C15_listed_not_ignored.

(* --ignore wins over globs and diff paths - provided the --ignore flags are not typed on both sides of the list subcommand. *)
Theorem C15_ignore_wins_unless_split : forall a ms tb cd cr fc,
  main_model a ms tb cd = MList cr -> In fc (cr_ctx cr) ->
  (ca_ign_post a = 0 -> forall m, In m ms -> mf_ign_post m = false) ->
  (ca_ign_post a <> 0 -> forall m, In m ms -> mf_ign_pre m = true -> mf_ign_post m = true) ->
  exists m, In m ms /\ fc_path fc = rf_path (mf_file m) /\ mf_ign_pre m || mf_ign_post m = false.
Proof. exact ignore_wins_unless_split. Qed.
Print Assumptions C15_ignore_wins_unless_split.

(* Known finding F12: typed on both sides, the earlier globs are dropped and a file matching one of them is listed (witness replayed on the real binary by the check). *)
Theorem C15_ignore_wins_refuted :
  exists cr fc, main_model f12_args [f12_file] (mktables [] [] [] [] []) [] = MList cr /\
                In fc (cr_ctx cr) /\ fc_path fc = T "a.py" /\ mf_ign_pre f12_file = true.
Proof. exact ignore_wins_refuted. Qed.
Print Assumptions C15_ignore_wins_refuted.

(* Through main, list: every listed file is walked, allowed (or no glob was typed interactively) and not ignored, or is named by the diff and not ignored. *)
Theorem C15_listed_file_in_scope : forall a p ms tb cd cr fc,
  plan_of a = Ok p -> main_model a ms tb cd = MList cr -> In fc (cr_ctx cr) ->
  exists ch, model_changes (main_case a p ms tb cd) = Ok ch /\
  exists m, In m ms /\ fc_path fc = rf_path (mf_file m) /\
    ((pl_scan p = true /\ rf_exists (mf_file m) = true /\
      (rf_allow (mf_file m) = true \/ pl_star p = true) /\
      (if ca_ign_post a =? 0 then mf_ign_pre m else mf_ign_post m) = false)
     \/
     (In (rf_path (mf_file m)) (map fst ch) /\
      (if ca_ign_post a =? 0 then mf_ign_pre m else mf_ign_post m) = false)).
Proof. exact main_listed_file_in_scope. Qed.
Print Assumptions C15_listed_file_in_scope.

(* The same for every file a diagnostic names. *)
Theorem C15_diagnosed_file_in_scope : forall a p ms tb cd v path d,
  plan_of a = Ok p -> main_model a ms tb cd = MRun v -> In (path, d) (vr_diags v) ->
  exists ch, model_changes (main_case a p ms tb cd) = Ok ch /\
  exists m, In m ms /\ path = rf_path (mf_file m) /\
    ((pl_scan p = true /\ rf_exists (mf_file m) = true /\
      (rf_allow (mf_file m) = true \/ pl_star p = true) /\
      (if ca_ign_post a =? 0 then mf_ign_pre m else mf_ign_post m) = false)
     \/
     (In (rf_path (mf_file m)) (map fst ch) /\
      (if ca_ign_post a =? 0 then mf_ign_pre m else mf_ign_post m) = false)).
Proof. exact main_diag_file_in_scope. Qed.
Print Assumptions C15_diagnosed_file_in_scope.

(* Conversely a scanned file with a grammar that reads and parses to at least one block is in the context with all its blocks. *)
Theorem C15_scanned_file_contributes : forall a p ms tb cd m ch bs,
  In m ms -> model_changes (main_case a p ms tb cd) = Ok ch ->
  pl_scan p = true -> scanned (seen_file a p m) = true ->
  grammar_of ext_table (pl_ext p) (rf_path (mf_file m)) <> None ->
  rf_readable (mf_file m) = true ->
  parse_file (rf_text (mf_file m)) (rf_spans (mf_file m)) = Ok bs -> bs <> [] ->
  In {| fc_path := rf_path (mf_file m); fc_text := rf_text (mf_file m);
        fc_blocks := map (mk_bctx (match changes_for (rf_path (mf_file m)) ch with Some l => l | None => [] end)) bs |}
     (cr_ctx (model_context (main_case a p ms tb cd))).
Proof. exact main_scanned_file_in_context. Qed.
Print Assumptions C15_scanned_file_contributes.

(* C15 - Only files in scope are examined: globs, --ignore and diff paths. Glob matching (globset) is an oracle: rf_allow / rf_ignore.
   Property theorems only; proofs are in coq/proofs. *)
From BW Require Import Context.
From BWGen Require Import ExtTable.
From BWP Require Import TextFacts Suffix_proofs Context_proofs Diff_proofs.

(* Every file that contributes blocks is in scope: scanned (exists, matches a positional glob, not ignored) or named in the diff and not ignored. *)
Theorem C15_context_files_in_scope : forall ext_map fs scan changes fc,
  In fc (cr_ctx (build_context ext_map fs scan changes)) ->
  exists f, In f fs /\ fc_path fc = rf_path f /\ in_scope scan changes f = true.
Proof. exact context_files_in_scope. Qed.
Print Assumptions C15_context_files_in_scope.

(* Files outside that set never contribute blocks, diagnostics or errors: changing their content (or their comments) changes nothing. *)
Theorem C15_out_of_scope_irrelevant : forall ext_map fs fs' scan changes,
  Forall2 (fun f f' => rf_path f = rf_path f' /\ rf_exists f = rf_exists f' /\
                       rf_allow f = rf_allow f' /\ rf_ignore f = rf_ignore f' /\
                       (in_scope scan changes f = true -> f = f')) fs fs' ->
  build_context ext_map fs scan changes = build_context ext_map fs' scan changes.
Proof. exact out_of_scope_irrelevant. Qed.
Print Assumptions C15_out_of_scope_irrelevant.

(* --ignore wins over both. *)
Theorem C15_ignore_wins : forall ext_map fs scan changes fc f,
  In fc (cr_ctx (build_context ext_map fs scan changes)) ->
  In f fs -> fc_path fc = rf_path f ->
  (forall g, In g fs -> rf_path g = rf_path f -> g = f) ->
  rf_ignore f = false.
Proof. exact ignored_never_examined. Qed.
Print Assumptions C15_ignore_wins.

(* An error in a file in scope is reported (scan loop) ... *)
Theorem C15_scanned_error_reported : forall ext_map fs changes f e,
  In f fs -> scanned f = true ->
  parse_one ext_map f true
    (match changes_for (rf_path f) changes with Some l => l | None => [] end) = Some (Err e) ->
  In e (cr_errs (build_context ext_map fs true changes)).
Proof. exact scanned_error_reported. Qed.
Print Assumptions C15_scanned_error_reported.

(* ... and in the diff loop (every diff path has a file entry in the case). *)
Theorem C15_diff_error_reported : forall ext_map fs scan changes p lcs f e,
  (forall q l, In (q, l) changes -> find_file q fs <> None) ->
  In (p, lcs) changes -> find_file p fs = Some f -> rf_ignore f = false ->
  (scan && scanned f) = false ->
  parse_one ext_map f false lcs = Some (Err e) ->
  In e (cr_errs (build_context ext_map fs scan changes)).
Proof. exact diff_error_reported_total_oracle. Qed.
Print Assumptions C15_diff_error_reported.

(* Diff paths: exactly one leading b/ is removed, whatever the directory names. *)
Theorem C15_strip_once : forall s h p,
  target_path {| pf_source := s; pf_target := T "b/" ++ p; pf_hunks := h |} = p.
Proof. exact target_path_strips_once. Qed.
Print Assumptions C15_strip_once.

(* C06 - keep-sorted reports a block iff its keys are out of order.
   Property theorems only; proofs are in proofs/Keys_proofs.v. *)
From BW Require Import SpecKeys.
From BWP Require Import TextFacts Keys_proofs F64_proofs.
From Coq Require Import ZArith.
From BW Require Import Validators.
From BWP Require Import Keys2_proofs.

(* No violation iff every adjacent pair of keys is in order (any number of keys;
   `viol a b` = "b is strictly out of order after a" in the chosen direction/format). *)
Theorem C06_no_violation_iff : forall viol, (forall a b, exists r, viol a b = Ok r) -> forall ks,
  ks_check viol ks = Ok None <->
  forall i a b, pair_at ks i a b -> viol (k_val a) (k_val b) = Ok false.
Proof. exact ks_check_none. Qed.
Print Assumptions C06_no_violation_iff.

(* A violation designates exactly the first key that is strictly out of order
   relative to its predecessor. *)
Theorem C06_violation_is_first : forall viol, (forall a b, exists r, viol a b = Ok r) -> forall ks k,
  ks_check viol ks = Ok (Some k) <->
  exists i a, pair_at ks i a k /\ viol (k_val a) (k_val k) = Ok true /\
              forall j x y, (j < i)%nat -> pair_at ks j x y -> viol (k_val x) (k_val y) = Ok false.
Proof. exact ks_check_some. Qed.
Print Assumptions C06_violation_is_first.

(* Equal neighbours are in order, whatever the direction and format. *)
Theorem C06_equal_in_order : forall o fmt (asc : bool) a r,
  sort_cmp o fmt a a = Ok r -> cmp_eqb r (if asc then Gt else Lt) = false.
Proof. exact equal_keys_in_order. Qed.
Print Assumptions C06_equal_in_order.

(* Numeric zeros of either sign are equal. *)
Theorem C06_zeros_equal : f64_cmp 0 two63 = Eq /\ f64_cmp two63 0 = Eq.
Proof. exact f64_zeros_equal. Qed.
Print Assumptions C06_zeros_equal.

(* Lexicographic comparison is by code point: Lt iff proper prefix or smaller
   first differing code point. *)
Theorem C06_lexicographic_order : forall a b,
  str_cmp a b = Lt <->
  exists p x y a' b', (a = p /\ b = p ++ y :: b') \/ (a = p ++ x :: a' /\ b = p ++ y :: b' /\ x < y).
Proof. exact str_cmp_lt. Qed.
Print Assumptions C06_lexicographic_order.

Theorem C06_lexicographic_antisym : forall a b, str_cmp b a = CompOpp (str_cmp a b).
Proof. exact str_cmp_antisym. Qed.
Print Assumptions C06_lexicographic_antisym.

(* Direction: empty / whitespace-only and `asc` in any letter case are ascending,
   `desc` in any letter case is descending. *)
Theorem C06_direction_blank : forall v, all_ws v -> parse_direction v = Ok true.
Proof. exact parse_direction_blank. Qed.
Print Assumptions C06_direction_blank.
Theorem C06_direction_asc : forall v, eq_ignore_ascii_case v (T "asc") = true -> parse_direction v = Ok true.
Proof. exact parse_direction_asc. Qed.
Print Assumptions C06_direction_asc.
Theorem C06_direction_desc : forall v, eq_ignore_ascii_case v (T "desc") = true -> parse_direction v = Ok false.
Proof. exact parse_direction_desc. Qed.
Print Assumptions C06_direction_desc.

(* Keys without a pattern are exactly the trimmed non-blank lines, in order. *)
Theorem C06_keys_trimmed : forall idx ls,
  map k_val (keys_trim idx ls) = filter (fun t => match t with [] => false | _ => true end) (map trim ls).
Proof. exact keys_trim_vals. Qed.
Print Assumptions C06_keys_trimmed.

(* At most one violation per block. *)
Theorem C06_at_most_one : forall o file b ds, keep_sorted o file b = Ok ds -> (length ds <= 1)%nat.
Proof. exact keep_sorted_at_most_one. Qed.
Print Assumptions C06_at_most_one.

(* Under keep-sorted-format=numeric, keys compare as numbers: for all non-NaN bit patterns the comparison is the comparison of the exact (scaled) values; both zeros are equal. *)
Theorem C06_numeric_order : forall a b, a < 2^64 -> b < 2^64 ->
  f64_is_nan a = false -> f64_is_nan b = false ->
  f64_cmp a b = Z.compare (sval a) (sval b).
Proof. exact f64_cmp_is_numeric. Qed.
Print Assumptions C06_numeric_order.

Theorem C06_numeric_zeros : f64_cmp 0 two63 = Eq /\ sval 0 = 0%Z /\ sval two63 = 0%Z.
Proof. exact f64_cmp_zeros. Qed.
Print Assumptions C06_numeric_zeros.

Theorem C06_total_order_injective : forall a b, a < 2^64 -> b < 2^64 ->
  f64_total_key a = f64_total_key b -> a = b.
Proof. exact f64_total_key_injective. Qed.
Print Assumptions C06_total_order_injective.

(* With keep-sorted-pattern the keys are exactly, in order, one per matching line: the value group's text when the group took part in the match, else the whole match; non-matching lines contribute nothing (KeysRx in proofs/Keys2_proofs.v). *)
Theorem C06_keys_with_pattern o pat idx ls ks :
  keys_rx o pat idx ls = Ok ks <-> KeysRx o pat idx ls ks.
Proof. exact (keys_rx_spec o pat idx ls ks). Qed.
Print Assumptions C06_keys_with_pattern.

(* At validator level (attribute parsing, content slice, key extraction included): no diagnostic iff every key is in order with its predecessor. *)
Theorem C06_validator_ok_iff_sorted o file b v asc content ks :
  get_attr (T "keep-sorted") (b_attrs b) = Some v ->
  parse_direction v = Ok asc ->
  parse_format (b_attrs b) = Ok Lexicographic ->
  content_of file b = Ok content ->
  keys_of o (sort_pat b) E_SORT_PATTERN content = Ok ks ->
  (keep_sorted o file b = Ok [] <-> lex_sorted asc ks).
Proof. exact (keep_sorted_lex_ok_iff o file b v asc content ks). Qed.
Print Assumptions C06_validator_ok_iff_sorted.

(* Otherwise the one diagnostic is the first key strictly out of order, at its own byte range, with the direction as data. *)
Theorem C06_validator_reports_first_bad o file b v asc content ks k :
  get_attr (T "keep-sorted") (b_attrs b) = Some v ->
  parse_direction v = Ok asc ->
  parse_format (b_attrs b) = Ok Lexicographic ->
  content_of file b = Ok content ->
  keys_of o (sort_pat b) E_SORT_PATTERN content = Ok ks ->
  lex_first_bad asc ks k ->
  keep_sorted o file b =
  (let? sev := sev_of (b_attrs b) in Ok [key_diag b k V_SORTED sev [dir_word asc]]).
Proof. exact (keep_sorted_lex_first_bad o file b v asc content ks k). Qed.
Print Assumptions C06_validator_reports_first_bad.

(* Zero or one key: nothing is compared (in particular nothing is parsed as a number). *)
Theorem C06_single_key_never_compared o file b v asc fmt content ks :
  get_attr (T "keep-sorted") (b_attrs b) = Some v ->
  parse_direction v = Ok asc ->
  parse_format (b_attrs b) = Ok fmt ->
  content_of file b = Ok content ->
  keys_of o (sort_pat b) E_SORT_PATTERN content = Ok ks ->
  (length ks <= 1)%nat ->
  keep_sorted o file b = Ok [].
Proof. exact (keep_sorted_lazy o file b v asc fmt content ks). Qed.
Print Assumptions C06_single_key_never_compared.

(* The 'if' direction at validator level (lexicographic): keys out of order and a well-formed severity give exactly one diagnostic, at the first key that breaks the order. *)
Theorem C06_unsorted_is_reported o file b v asc content ks sev :
  get_attr (T "keep-sorted") (b_attrs b) = Some v ->
  parse_direction v = Ok asc ->
  parse_format (b_attrs b) = Ok Lexicographic ->
  content_of file b = Ok content ->
  keys_of o (sort_pat b) E_SORT_PATTERN content = Ok ks ->
  ~ lex_sorted asc ks ->
  sev_of (b_attrs b) = Ok sev ->
  exists k, lex_first_bad asc ks k /\
            keep_sorted o file b = Ok [key_diag b k V_SORTED sev [dir_word asc]].
Proof. exact (keep_sorted_lex_unsorted o file b v asc content ks sev). Qed.
Print Assumptions C06_unsorted_is_reported.

(* A broken severity attribute cannot hide an unsorted block: the run stops with the severity error. *)
Theorem C06_bad_severity_fails_closed o file b v asc content ks e :
  get_attr (T "keep-sorted") (b_attrs b) = Some v ->
  parse_direction v = Ok asc ->
  parse_format (b_attrs b) = Ok Lexicographic ->
  content_of file b = Ok content ->
  keys_of o (sort_pat b) E_SORT_PATTERN content = Ok ks ->
  ~ lex_sorted asc ks ->
  sev_of (b_attrs b) = Err e ->
  keep_sorted o file b = Err e.
Proof. exact (keep_sorted_lex_unsorted_bad_severity o file b v asc content ks e). Qed.
Print Assumptions C06_bad_severity_fails_closed.

(* Complete outcome table (lexicographic) once the keys are known: silent when sorted, else one diagnostic at the first bad key or the severity error - nothing else. *)
Theorem C06_outcome_table o file b v asc content ks :
  get_attr (T "keep-sorted") (b_attrs b) = Some v ->
  parse_direction v = Ok asc ->
  parse_format (b_attrs b) = Ok Lexicographic ->
  content_of file b = Ok content ->
  keys_of o (sort_pat b) E_SORT_PATTERN content = Ok ks ->
  (lex_sorted asc ks /\ keep_sorted o file b = Ok []) \/
  (exists k, lex_first_bad asc ks k /\
     ((exists sev, sev_of (b_attrs b) = Ok sev /\
                   keep_sorted o file b = Ok [key_diag b k V_SORTED sev [dir_word asc]]) \/
      (sev_of (b_attrs b) = Err E_SEVERITY /\ keep_sorted o file b = Err E_SEVERITY))).
Proof. exact (keep_sorted_lex_outcomes o file b v asc content ks). Qed.
Print Assumptions C06_outcome_table.

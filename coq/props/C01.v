From BW Require Import SpecDrift.

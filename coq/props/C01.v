(* C01 - Drift detection: a changed block forces its linked blocks to change.
   Property theorems only; proofs are in coq/proofs.
   The diff parser of the `unidiff` crate and blockwatch's hunk walk are modelled
   in theories/Unidiff.v and theories/LineChanges.v; `cdiff` is the char-level
   diff oracle (the `similar` crate). *)
From BW Require Import Select Run.
From BWP Require Import TextFacts Select_proofs Diff_proofs C01_proofs.
From BWP Require Import Patch_proofs.
From BW Require Import Main.
From BWGen Require Import ExtTable.
From BWP Require Import Main_proofs MainCompose_proofs Scope_proofs.
From BWP Require Import Order_proofs Context_proofs Run_proofs DriftE2E_proofs.

(* Every added (or edited = paired) line of any hunk yields a change at its
   new-file line number. *)
Theorem C01_added_line_yields_change : forall cdiff hs h l lcs,
  hunks_changes cdiff hs [] false [] = Some lcs -> In h hs -> In l (h_lines h) -> dl_kind l = KAdd ->
  exists lc, In lc lcs /\ lc_line lc = dl_tgt l.
Proof. exact added_line_yields_change. Qed.
Print Assumptions C01_added_line_yields_change.

(* Every recorded change stems from an added line (at its new-file number) or
   from a removed line (whole-line change at the removed line's OLD-file number). *)
Theorem C01_changes_sound : forall cdiff hs lcs lc,
  hunks_changes cdiff hs [] false [] = Some lcs -> In lc lcs ->
  exists h l, In h hs /\ In l (h_lines h) /\
    ((dl_kind l = KAdd /\ lc_line lc = dl_tgt l) \/
     (dl_kind l = KDel /\ lc_line lc = dl_src l /\ lc_ranges lc = None)).
Proof. exact changes_sound. Qed.
Print Assumptions C01_changes_sound.

(* Completeness: an added/edited line strictly between the tag comments marks
   the block modified (a paired line must differ visibly from its old text). *)
Theorem C01_complete_added : forall cdiff hs h l lcs b,
  hunks_changes cdiff hs [] false [] = Some lcs ->
  In h hs -> In l (h_lines h) -> dl_kind l = KAdd ->
  fst (b_cs b) < dl_tgt l -> dl_tgt l < fst (b_ce b) ->
  (forall lc rs, In lc lcs -> lc_line lc = dl_tgt l -> lc_ranges lc = Some rs ->
                 existsb (fun r => 0 <? snd r) rs = true) ->
  content_modified b lcs = true.
Proof. exact complete_added. Qed.
Print Assumptions C01_complete_added.

(* A run of removed lines followed by a context line contributes exactly one
   change, at the old-file number of its first line ... *)
Theorem C01_pure_deletion_folded : forall cdiff dels ctx rest prev acc d,
  dl_kind ctx = KCtx -> dels <> [] -> (forall x, In x dels -> dl_kind x = KDel) -> hd_error dels = Some d ->
  hunk_lines cdiff (dels ++ ctx :: rest) [] prev acc =
  hunk_lines cdiff rest [] false ({| lc_line := dl_src d; lc_ranges := None |} :: acc).
Proof. exact fold_pure_deletion. Qed.
Print Assumptions C01_pure_deletion_folded.

(* ... which marks the block whose content lines hold that number. *)
Theorem C01_deletion_marks : forall (d : dline) b lcs,
  In {| lc_line := dl_src d; lc_ranges := None |} lcs ->
  fst (b_cs b) <= dl_src d -> dl_src d <= fst (b_ce b) -> content_modified b lcs = true.
Proof. exact deletion_marks. Qed.
Print Assumptions C01_deletion_marks.

(* Known finding F2: the old-file number is not the new-file position. In the
   witness the removed line sits between new-file lines 13 and 14 and is
   recorded at line 11. *)
Theorem C01_deletion_position_refuted :
  exists f h1 c d e,
    parse_patch f2_diff = Ok [f] /\
    pf_hunks f = [h1; {| h_ss := 10; h_sl := 3; h_ts := 13; h_tl := 2; h_lines := [c; d; e] |}] /\
    dl_kind c = KCtx /\ dl_kind d = KDel /\ dl_kind e = KCtx /\
    dl_tgt c = 13 /\ dl_src d = 11 /\ dl_tgt e = 14 /\
    line_changes_from_diff (fun _ _ => Some []) f2_diff =
      Ok [(T "f", [ {| lc_line := 1; lc_ranges := None |};
                    {| lc_line := 2; lc_ranges := None |};
                    {| lc_line := 3; lc_ranges := None |};
                    {| lc_line := dl_src d; lc_ranges := None |} ])] /\
    dl_src d <> dl_tgt e.
Proof. exact f2_deletion_at_old_line_number. Qed.
Print Assumptions C01_deletion_position_refuted.

(* Soundness: if every added line's new number and every removed line's
   recorded number is far from the block (before its start tag and content, or
   after its tag and content), the block is neither selected nor marked,
   whatever else the diff contains. *)
Theorem C01_sound_far : forall cdiff hs lcs b,
  hunks_changes cdiff hs [] false [] = Some lcs ->
  (forall h l, In h hs -> In l (h_lines h) ->
     (dl_kind l = KAdd -> far_line b (dl_tgt l)) /\ (dl_kind l = KDel -> far_line b (dl_src l))) ->
  tag_modified b lcs = false /\ content_modified b lcs = false.
Proof. exact sound_far. Qed.
Print Assumptions C01_sound_far.

(* Hunk bodies are numbered as git numbers them: the i-th body line gets
   source = start + (#removed/context before it), target = start + (#added/context before it). *)
Theorem C01_hunk_numbering : forall ls src tgt se te i d,
  nth_error (parse_hunk_lines ls src tgt se te) i = Some d ->
  exists l, nth_error ls i = Some l /\
    d = {| dl_kind := fst (classify l); dl_val := snd (classify l);
           dl_src := src + count_src (firstn i ls); dl_tgt := tgt + count_tgt (firstn i ls) |}.
Proof. exact parse_hunk_lines_nth. Qed.
Print Assumptions C01_hunk_numbering.

(* A printed hunk body parses back to itself (up to the early exit at the header's counts). *)
Theorem C01_hunk_roundtrip : forall ds src tgt se te,
  well_numbered ds src tgt ->
  exists n, (n <= length ds)%nat /\ parse_hunk_lines (map print_dline ds) src tgt se te = firstn n ds.
Proof. exact parse_print_hunk_prefix. Qed.
Print Assumptions C01_hunk_roundtrip.

(* Known finding F3: a hunk-body line that looks like a file header closes the
   file; any later hunk of that file is then rejected ... *)
Theorem C01_header_lookalike_refuted : forall l n mid hh hdr rest files f src,
  source_header l = Some n -> Forall plain_line mid -> hunk_header hh = Some hdr ->
  parse_lines (l :: mid ++ hh :: rest) files (Some f) src = Err E_DIFF.
Proof. exact later_hunk_after_lookalike_rejected. Qed.
Print Assumptions C01_header_lookalike_refuted.
(* ... and an added line starting with "++ " is rejected at once. *)
Theorem C01_target_lookalike_refuted : forall l n ls files f src,
  source_header l = None -> target_header l = Some n ->
  parse_lines (l :: ls) files (Some f) src = Err E_DIFF.
Proof. exact lookalike_target_rejected. Qed.
Print Assumptions C01_target_lookalike_refuted.

(* Diff target paths: exactly one leading "b/" is removed (repair F5). *)
Theorem C01_target_path_strips_once : forall s h p,
  target_path {| pf_source := s; pf_target := T "b/" ++ p; pf_hunks := h |} = p.
Proof. exact target_path_strips_once. Qed.
Print Assumptions C01_target_path_strips_once.

(* affects: one violation per referenced (file, name) with no modified block of
   that name, none otherwise; unmodified blocks report nothing; only the SET of
   modified named blocks matters. *)
Theorem C01_affects_exact : forall nm path bc v refs sev,
  bc_contmod bc = true ->
  get_attr (T "affects") (b_attrs (bc_block bc)) = Some v ->
  parse_affects_attribute v = Ok refs ->
  sev_of (b_attrs (bc_block bc)) = Ok sev ->
  affects_block nm path bc =
    Ok (map (fun r => tag_diag (bc_block bc) V_AFFECTS sev [fst r; snd r])
            (filter (fun r => negb (mem_pair r nm)) (map (resolve_ref path) refs))).
Proof. exact affects_block_exact. Qed.
Print Assumptions C01_affects_exact.

Theorem C01_affects_unmodified : forall nm path bc,
  bc_contmod bc = false -> affects_block nm path bc = Ok [].
Proof. exact affects_block_unmodified. Qed.
Print Assumptions C01_affects_unmodified.

Theorem C01_affects_modified_set : forall ctx f n,
  In (f, n) (named_modified ctx) <->
  exists fc bc, In fc ctx /\ In bc (fc_blocks fc) /\ bc_contmod bc = true /\ fc_path fc = f /\
                get_attr (T "name") (b_attrs (bc_block bc)) = Some n.
Proof. exact named_modified_spec. Qed.
Print Assumptions C01_affects_modified_set.

Theorem C01_affects_set_only : forall nm1 nm2 path bc,
  (forall x, In x nm1 <-> In x nm2) -> affects_block nm1 path bc = affects_block nm2 path bc.
Proof. exact affects_block_set_ext. Qed.
Print Assumptions C01_affects_set_only.

(* A printed hunk header is read back exactly, whatever section heading follows the closing @@. *)
Theorem C01_hunk_header_roundtrip : forall ss sl ts tl rest,
  hunk_header (print_hunk_header ss sl ts tl ++ rest) = Some (ss, sl, ts, tl).
Proof. exact hunk_header_print_any. Qed.
Print Assumptions C01_hunk_header_roundtrip.

(* A whole printed patch - any number of file sections and hunks whose counts match their headers and whose body lines do not look like headers - parses back to exactly the same sections, hunks and numbered lines: the accepted-diff half of C01 for every well-formed diff. *)
Theorem C01_patch_roundtrip : forall fs,
  Forall good_file fs -> Forall clean_file fs -> parse_patch (print_patch fs) = Ok fs.
Proof. exact parse_patch_print_patch. Qed.
Print Assumptions C01_patch_roundtrip.

(* Body lines are never mistaken for headers by the outer loop. *)
Theorem C01_body_lines_skipped : forall ds rest files cur src,
  Forall no_lookalike ds ->
  parse_lines (map print_dline ds ++ rest) files cur src = parse_lines rest files cur src.
Proof. exact parse_lines_skip_body. Qed.
Print Assumptions C01_body_lines_skipped.

(* From the diff text: the line changes of a printed well-formed patch are those of its sections and hunks (C01_patch_roundtrip composed with the hunk walk). *)
Theorem C01_printed_patch_changes : forall cdiff fs,
  Forall good_file fs -> Forall clean_file fs ->
  line_changes_from_diff cdiff (print_patch fs) = changes_of_files cdiff fs [].
Proof. exact line_changes_of_printed_patch. Qed.
Print Assumptions C01_printed_patch_changes.

(* A change on a line strictly inside a block's content selects the block and marks its content modified. *)
Theorem C01_interior_change_marks_block : forall all lcs bs b lc,
  In b bs -> In lc lcs ->
  fst (b_cs b) < lc_line lc -> lc_line lc < fst (b_ce b) -> visible_change lc ->
  In (mk_bctx lcs b) (select_blocks all lcs bs) /\
  bc_contmod (mk_bctx lcs b) = true /\ bc_block (mk_bctx lcs b) = b.
Proof. exact interior_change_marks_block. Qed.
Print Assumptions C01_interior_change_marks_block.

(* A content-modified block with a link whose target is not modified: the affects diagnostic at its start tag is in the run's report whenever the affects validator is switched on - whatever the other validators do. *)
Theorem C01_drift_in_report : forall o en dis (ctx : context) fc bc v refs r sev path' n,
  In V_AFFECTS (active_validators en dis) ->
  In fc ctx -> In bc (fc_blocks fc) ->
  bc_contmod bc = true ->
  get_attr (T "affects") (b_attrs (bc_block bc)) = Some v ->
  parse_affects_attribute v = Ok refs ->
  In r refs -> resolve_ref (fc_path fc) r = (path', n) ->
  ~ In (path', n) (named_modified ctx) ->
  sev_of (b_attrs (bc_block bc)) = Ok sev ->
  In (fc_path fc, drift_diag (bc_block bc) sev path' n)
     (vr_diags (run_validators o ctx (detected_validators en dis ctx))).
Proof. exact drift_in_run_diags. Qed.
Print Assumptions C01_drift_in_report.

(* END TO END, from the diff text on stdin to the process exit status: an accepted command line in diff mode, a printed well-formed patch one of whose hunks adds (or visibly changes) a line inside the content of a block that declares affects = path:n, and no section of the patch targeting that path - then the process exits non-zero when the block has severity error, and when nothing else fails the report holds the affects diagnostic at the block's start tag. *)
Theorem C01_drift_detected_end_to_end :
  forall a p ms tb cd fs f h l m bs b v refs r sev path' n,
  (* command line accepted (plan p), a validation run (not `list`), stdin not a terminal *)
  plan_of a = Ok p -> ca_list a = false -> ca_terminal a = false ->
  (* stdin holds the printed, well-formed patch fs *)
  ca_stdin a = print_patch fs -> Forall good_file fs -> Forall clean_file fs ->
  (* one section per target path (whole-file removals aside); distinct file paths *)
  NoDup (map target_path (live fs)) ->
  NoDup (map (fun m => rf_path (mf_file m)) ms) ->
  (* section f is about file m *)
  In f fs -> In m ms -> target_path f = rf_path (mf_file m) ->
  (* m is not ignored, has a grammar, is readable, parses to bs, b among them *)
  eff_ignored a m = false ->
  grammar_of ext_table (pl_ext p) (rf_path (mf_file m)) <> None ->
  rf_readable (mf_file m) = true ->
  parse_file (rf_text (mf_file m)) (rf_spans (mf_file m)) = Ok bs -> In b bs ->
  (* the added line l of hunk h lies strictly inside b's content lines *)
  In h (pf_hunks f) -> In l (h_lines h) -> dl_kind l = KAdd ->
  fst (b_cs b) < dl_tgt l -> dl_tgt l < fst (b_ce b) ->
  (* a replaced line differs visibly from the line it replaces (vacuous for pure additions) *)
  visibly_differs (fun x y => assoc2 x y cd) (h_lines h) l ->
  (* b's affects list is well-formed and its entry r resolves to block n of file path' *)
  get_attr (T "affects") (b_attrs b) = Some v -> parse_affects_attribute v = Ok refs ->
  In r refs -> resolve_ref (rf_path (mf_file m)) r = (path', n) ->
  (* b's severity (1 = error, the default); the affects validator is switched on *)
  sev_of (b_attrs b) = Ok sev ->
  In V_AFFECTS (active_validators (pl_enabled p) (pl_disabled p)) ->
  (* nothing under path' is changed: no section that keeps its file targets it *)
  (forall g, In g fs -> is_removed_file g = false -> target_path g <> path') ->
  let cr := model_context (main_case a p ms tb cd) in
  (sev = 1 -> main_exit (main_model a ms tb cd) <> 0) /\
  (cr_panic cr = false -> cr_errs cr = [] ->
   exists res, main_model a ms tb cd = MRun res /\
               In (rf_path (mf_file m), drift_diag b sev path' n) (vr_diags res)).
Proof. exact drift_detected_end_to_end. Qed.
Print Assumptions C01_drift_detected_end_to_end.

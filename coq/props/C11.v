(* C11 - Exit status and report follow the diagnostics and their severity.
   Property theorems only; proofs are in coq/proofs. *)
From BW Require Import Merge.
From BWP Require Import TextFacts Keys_proofs C01_proofs Run_proofs Merge_proofs.
From Coq Require Import Permutation.

(* A run exits 1 exactly when it stops with an error or some diagnostic has severity error. *)
Theorem C11_exit_iff_error : forall r,
  exit_code r = 1 <->
  (vr_errs r <> [] \/ exists pd, In pd (vr_diags r) /\ d_sev (snd pd) = 1).
Proof. exact exit_iff_error. Qed.
Print Assumptions C11_exit_iff_error.

Theorem C11_exit_zero_or_one : forall r, exit_code r = 0 \/ exit_code r = 1.
Proof. exact exit_zero_or_one. Qed.
Print Assumptions C11_exit_zero_or_one.

(* Severity: default error; error|warning|info|hint in any letter case; anything else is an error. *)
Theorem C11_severity_default : forall a, get_attr (T "severity") a = None -> sev_of a = Ok 1.
Proof. exact sev_default. Qed.
Print Assumptions C11_severity_default.

Theorem C11_severity_warning : forall a s, get_attr (T "severity") a = Some s ->
  eq_ignore_ascii_case s (T "warning") = true -> sev_of a = Ok 2.
Proof. exact sev_warning. Qed.
Print Assumptions C11_severity_warning.

Theorem C11_severity_info : forall a s, get_attr (T "severity") a = Some s ->
  eq_ignore_ascii_case s (T "info") = true -> sev_of a = Ok 3.
Proof. exact sev_info. Qed.
Print Assumptions C11_severity_info.

Theorem C11_severity_hint : forall a s, get_attr (T "severity") a = Some s ->
  eq_ignore_ascii_case s (T "hint") = true -> sev_of a = Ok 4.
Proof. exact sev_hint. Qed.
Print Assumptions C11_severity_hint.

Theorem C11_severity_error : forall a s, get_attr (T "severity") a = Some s ->
  eq_ignore_ascii_case s (T "error") = true -> sev_of a = Ok 1.
Proof. exact sev_error. Qed.
Print Assumptions C11_severity_error.

(* The report is the concatenation of every validator's diagnostics: every violation of every rule of every block appears exactly once ... *)
Theorem C11_report_is_union : forall o ctx vs,
  vr_diags (run_validators o ctx vs) = flat_map (fun v => vr_diags (run_validator o ctx v)) vs.
Proof. exact run_validators_diags. Qed.
Print Assumptions C11_report_is_union.

(* ... whatever the order in which validator results arrive (thread join / task completion order). *)
Theorem C11_arrival_order : forall o ctx vs vs', Permutation vs vs' ->
  Permutation (vr_diags (run_validators o ctx vs)) (vr_diags (run_validators o ctx vs')) /\
  Permutation (vr_errs (run_validators o ctx vs)) (vr_errs (run_validators o ctx vs')) /\
  exit_code (run_validators o ctx vs) = exit_code (run_validators o ctx vs').
Proof. exact run_validators_perm. Qed.
Print Assumptions C11_arrival_order.

(* Per-file merging (entry().or_insert().extend()) loses nothing, duplicates nothing, keeps one entry per file ... *)
Theorem C11_merge_union : forall arrivals,
  Permutation (flatten (merge_all arrivals)) (flat_map flatten arrivals) /\
  NoDup (map fst (merge_all arrivals)).
Proof. exact merge_all_union. Qed.
Print Assumptions C11_merge_union.

(* ... for every arrival order, with the same error-severity verdict. *)
Theorem C11_merge_order : forall a a', Permutation a a' ->
  Permutation (flatten (merge_all a)) (flatten (merge_all a')) /\
  has_error_severity (merge_all a) = has_error_severity (merge_all a').
Proof. exact merge_all_perm. Qed.
Print Assumptions C11_merge_order.

(* Files with no violation do not appear in the report. *)
Theorem C11_files_without_violations_absent : forall ds f,
  In f (map fst (group_by_file ds)) <-> exists d, In (f, d) ds.
Proof. exact group_by_file_keys. Qed.
Print Assumptions C11_files_without_violations_absent.

(* Every diagnostic carries the code of the validator that produced it. *)
Theorem C11_codes : forall o ctx v pd,
  In v all_validators -> In pd (vr_diags (run_validator o ctx v)) -> d_code (snd pd) = v.
Proof. exact run_validator_code. Qed.
Print Assumptions C11_codes.

(* --- compositions --- *)
From BW Require Import SpecTag SpecBlocks Merge Context.
From BWP Require Import Run_proofs Merge_proofs Compose_proofs.
From Coq Require Import Permutation.
From BW Require Import Main.
From BWP Require Import Main_proofs MainCompose_proofs.
From BWP Require Import Keys2_proofs.
(* The printed per-file report is a permutation of all validators' diagnostics with one entry per file ... *)
Theorem C11_report_is_union_of_validators : forall o ctx vs,
  let arrivals := map (fun v => group_by_file (vr_diags (run_validator o ctx v))) vs in
  Permutation (flatten (merge_all arrivals)) (vr_diags (run_validators o ctx vs)) /\
  NoDup (map fst (merge_all arrivals)).
Proof. exact report_is_union. Qed.
Print Assumptions C11_report_is_union_of_validators.

(* ... for every order in which validator results arrive, with the same exit verdict. *)
Theorem C11_report_any_arrival_order : forall o ctx vs arrivals',
  Permutation (map (fun v => group_by_file (vr_diags (run_validator o ctx v))) vs) arrivals' ->
  Permutation (flatten (merge_all arrivals')) (vr_diags (run_validators o ctx vs)) /\
  has_error_severity (merge_all arrivals') = has_error (run_validators o ctx vs).
Proof. exact report_any_order. Qed.
Print Assumptions C11_report_any_arrival_order.

(* Through the model of main.rs: the process ends with status 0, 1, 2 (usage error) or 101 (panic), nothing else. *)
Theorem C11_process_exit_range : forall a ms tb cd,
  In (main_exit (main_model a ms tb cd)) [0; 1; 2; 101].
Proof. exact main_exit_range. Qed.
Print Assumptions C11_process_exit_range.

(* Status 0 exactly when the command line is accepted, nothing panicked, no file or rule failed and no diagnostic has severity error. *)
Theorem C11_process_exit_zero_iff : forall a ms tb cd,
  main_exit (main_model a ms tb cd) = 0 <->
  exists p, plan_of a = Ok p /\
    let c := main_case a p ms tb cd in
    if ca_list a then cr_panic (model_context c) = false /\ cr_errs (model_context c) = []
    else vr_panic (model_run c) = false /\ vr_errs (model_run c) = [] /\
         (forall pd, In pd (vr_diags (model_run c)) -> d_sev (snd pd) <> 1).
Proof. exact main_exit_zero_iff. Qed.
Print Assumptions C11_process_exit_zero_iff.

(* Status 101 exactly when the context assembly or a validator panics. *)
Theorem C11_process_exit_101_iff_panic : forall a ms tb cd,
  main_exit (main_model a ms tb cd) = 101 <->
  exists p, plan_of a = Ok p /\
    if ca_list a then cr_panic (model_context (main_case a p ms tb cd)) = true
    else vr_panic (model_run (main_case a p ms tb cd)) = true.
Proof. exact main_exit_101_iff_panic. Qed.
Print Assumptions C11_process_exit_101_iff_panic.

(* Status 2 comes only from a rejected command line (the run itself ends 0 or 1 by C11_exit_zero_or_one). *)
Theorem C11_exit_2_only_usage : forall a fs tb cd,
  main_exit (main_model a fs tb cd) = 2 ->
  plan_of a = Err E_USAGE \/ (exists v, main_model a fs tb cd = MRun v /\ exit_code v = 2).
Proof. exact exit_2_iff_usage. Qed.
Print Assumptions C11_exit_2_only_usage.

(* Through main: when every file parsed, the report is exactly what the selected validators return on the collected context. *)
Theorem C11_process_report_is_validator_union : forall a p ms tb cd,
  plan_of a = Ok p -> ca_list a = false ->
  let cr := model_context (main_case a p ms tb cd) in
  cr_panic cr = false -> cr_errs cr = [] ->
  main_model a ms tb cd =
  MRun (run_validators (oracles_of tb) (cr_ctx cr)
          (detected_validators (pl_enabled p) (pl_disabled p) (cr_ctx cr))).
Proof. exact main_run_diags. Qed.
Print Assumptions C11_process_report_is_validator_union.

(* Through main: when some file failed (error or panic) no diagnostics are reported at all - never a partial report that looks clean. *)
Theorem C11_process_no_partial_report : forall a p ms tb cd,
  plan_of a = Ok p -> ca_list a = false ->
  let cr := model_context (main_case a p ms tb cd) in
  cr_panic cr = true \/ cr_errs cr <> [] ->
  exists v, main_model a ms tb cd = MRun v /\ vr_diags v = [].
Proof. exact main_run_no_diags_on_failure. Qed.
Print Assumptions C11_process_no_partial_report.

(* Any other severity text (no letter-case variant of the four words) is an error, never a default. *)
Theorem C11_severity_unknown_rejected : forall a s, get_attr (T "severity") a = Some s ->
  eq_ignore_ascii_case s (T "error") = false ->
  eq_ignore_ascii_case s (T "warning") = false ->
  eq_ignore_ascii_case s (T "info") = false ->
  eq_ignore_ascii_case s (T "hint") = false ->
  sev_of a = Err E_SEVERITY.
Proof. exact sev_unknown. Qed.
Print Assumptions C11_severity_unknown_rejected.

(* Severity resolution has no other outcome: a level in 1..4 or the severity error. *)
Theorem C11_severity_total a : (exists s, sev_of a = Ok s /\ 1 <= s <= 4) \/ sev_of a = Err E_SEVERITY.
Proof. exact (sev_of_outcomes a). Qed.
Print Assumptions C11_severity_total.

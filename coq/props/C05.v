(* C05 - tag syntax: attributes round-trip, look-alikes are ignored.
   Property theorems only; proofs are in coq/proofs. *)
From BW Require Import SpecTag.
From BWP Require Import TextFacts Tag_proofs.

(* Every start tag written as <block + whitespace-separated attributes (bare names, bare / single- / double-quoted values, any ASCII whitespace around = and before >, values containing > < = and the other quote, any alphanumeric incl. Unicode in names) parses to exactly those names and values, in order (duplicates: the map keeps the last), whatever text follows. *)
Theorem C05_start_roundtrip : forall ps wend rest,
  Forall wf_pattr ps -> mspace_str wend ->
  parse_start_tag (print_start ps wend ++ rest) = Some (map attr_of ps, rest).
Proof. exact start_roundtrip. Qed.
Print Assumptions C05_start_roundtrip.

(* End tags tolerate inner whitespace. *)
Theorem C05_end_roundtrip : forall w1 w2 w3 rest,
  mspace_str w1 -> mspace_str w2 -> mspace_str w3 ->
  parse_end_tag (print_end w1 w2 w3 ++ rest) = Some rest.
Proof. exact end_roundtrip. Qed.
Print Assumptions C05_end_roundtrip.

(* ...and nothing else is an end tag. *)
Theorem C05_end_sound : forall s rest,
  parse_end_tag s = Some rest ->
  exists w1 w2 w3, mspace_str w1 /\ mspace_str w2 /\ mspace_str w3 /\
                   s = print_end w1 w2 w3 ++ rest.
Proof. exact end_sound. Qed.
Print Assumptions C05_end_sound.

(* Everything accepted as a start tag is of the printed form: look-alikes are never taken for block tags. *)
Theorem C05_start_sound : forall s a rest,
  parse_start_tag s = Some (a, rest) ->
  exists ps wend, Forall wf_pattr ps /\ mspace_str wend /\
                  s = print_start ps wend ++ rest /\ a = map attr_of ps.
Proof. exact start_sound. Qed.
Print Assumptions C05_start_sound.

(* <Block, < block, <BLOCK ... are not start tags. *)
Theorem C05_needs_prefix : forall s,
  strip_prefix (T "<block") s = None -> parse_start_tag s = None.
Proof. exact start_needs_prefix. Qed.
Print Assumptions C05_needs_prefix.

(* <blockquote>, <block/>, <blocks>, <block-x> are not start tags. *)
Theorem C05_needs_boundary : forall c rest,
  is_mspace c = false -> c <> C_GT -> parse_start_tag (T "<block" ++ c :: rest) = None.
Proof. exact start_needs_boundary. Qed.
Print Assumptions C05_needs_boundary.

(* A start tag whose quote is never closed in the comment is rejected, whatever precedes it. *)
Theorem C05_unclosed_quote : forall ps ws n w1 w2 q s,
  Forall wf_pattr ps -> ws <> [] -> mspace_str ws -> name_str n ->
  mspace_str w1 -> mspace_str w2 -> (q = C_DQ \/ q = C_SQ) -> ~ In q s ->
  parse_start_tag (T "<block" ++ print_attrs ps ++ ws ++ n ++ w1 ++ [C_EQ] ++ w2 ++ [q] ++ s) = None.
Proof. exact unclosed_quote_rejected. Qed.
Print Assumptions C05_unclosed_quote.

(* A tag is found wherever it sits: after any text in which no < begins a block tag, at its byte offset, with the cursor just after it. *)
Theorem C05_scan_finds_start : forall noise ps wend post off,
  foreign noise -> Forall wf_pattr ps -> mspace_str wend ->
  scan_tag (noise ++ print_start ps wend ++ post) off =
    Some (TStart (off + blen noise) (off + blen noise + blen (print_start ps wend)) (map attr_of ps),
          post, off + blen noise + blen (print_start ps wend)).
Proof. exact scan_finds_start. Qed.
Print Assumptions C05_scan_finds_start.

Theorem C05_scan_finds_end : forall noise w1 w2 w3 post off,
  foreign noise -> mspace_str w1 -> mspace_str w2 -> mspace_str w3 ->
  scan_tag (noise ++ print_end w1 w2 w3 ++ post) off =
    Some (TEnd (off + blen noise), post, off + blen noise + blen (print_end w1 w2 w3)).
Proof. exact scan_finds_end. Qed.
Print Assumptions C05_scan_finds_end.

(* Text without block tags yields no tag. *)
Theorem C05_scan_none : forall noise off, foreign noise -> scan_tag noise off = None.
Proof. exact scan_none. Qed.
Print Assumptions C05_scan_none.

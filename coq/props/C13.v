(* C13 - Malformed rules fail closed.
   Property theorems only; proofs are in coq/proofs. *)
From BW Require Import Merge.
From BWP Require Import TextFacts Keys_proofs C01_proofs Run_proofs Merge_proofs.
From Coq Require Import Permutation.

(* If any validator stops with an error the run exits 1, whatever other validators report and in whatever order. *)
Theorem C13_any_error_fails_run : forall o ctx vs v,
  In v vs -> vr_errs (run_validator o ctx v) <> [] ->
  exit_code (run_validators o ctx vs) = 1 /\ vr_errs (run_validators o ctx vs) <> [].
Proof. exact any_error_fails_run. Qed.
Print Assumptions C13_any_error_fails_run.

Theorem C13_bad_direction : forall o file b v,
  get_attr (T "keep-sorted") (b_attrs b) = Some v ->
  parse_direction v = Err E_SORT_DIR ->
  keep_sorted o file b = Err E_SORT_DIR.
Proof. exact keep_sorted_bad_direction. Qed.
Print Assumptions C13_bad_direction.

Theorem C13_bad_format : forall o file b v,
  get_attr (T "keep-sorted") (b_attrs b) = Some v ->
  (exists asc, parse_direction v = Ok asc) ->
  parse_format (b_attrs b) = Err E_SORT_FMT ->
  keep_sorted o file b = Err E_SORT_FMT.
Proof. exact keep_sorted_bad_format. Qed.
Print Assumptions C13_bad_format.

Theorem C13_bad_sort_regex : forall o file b v asc fmt pat content,
  get_attr (T "keep-sorted") (b_attrs b) = Some v ->
  parse_direction v = Ok asc ->
  parse_format (b_attrs b) = Ok fmt ->
  get_attr (T "keep-sorted-pattern") (b_attrs b) = Some pat ->
  pat <> [] ->
  o_rx_ok o pat = Some false ->
  content_of file b = Ok content ->
  lines content <> [] ->
  keep_sorted o file b = Err E_SORT_PATTERN.
Proof. exact keep_sorted_bad_regex. Qed.
Print Assumptions C13_bad_sort_regex.

Theorem C13_bad_unique_regex : forall o file b pat content,
  get_attr (T "keep-unique") (b_attrs b) = Some pat ->
  pat <> [] ->
  o_rx_ok o pat = Some false ->
  content_of file b = Ok content ->
  lines content <> [] ->
  keep_unique o file b = Err E_UNIQUE_PATTERN.
Proof. exact keep_unique_bad_regex. Qed.
Print Assumptions C13_bad_unique_regex.

Theorem C13_bad_line_pattern : forall o file b pat (content : str),
  get_attr (T "line-pattern") (b_attrs b) = Some pat ->
  o_rx_ok o pat = Some false ->
  line_pattern o file b = Err E_LINE_PATTERN.
Proof. exact line_pattern_bad_regex. Qed.
Print Assumptions C13_bad_line_pattern.

Theorem C13_bad_line_count : forall file b expr,
  get_attr (T "line-count") (b_attrs b) = Some expr ->
  parse_constraint expr = None ->
  line_count file b = Err E_LINE_COUNT.
Proof. exact line_count_bad_expr. Qed.
Print Assumptions C13_bad_line_count.

(* An unknown severity on a block that has a violation is an error. *)
Theorem C13_bad_severity : forall file b expr op n content,
  get_attr (T "line-count") (b_attrs b) = Some expr ->
  parse_constraint expr = Some (op, n) ->
  content_of file b = Ok content ->
  cop_holds op (count_nonblank content) n = false ->
  sev_of (b_attrs b) = Err E_SEVERITY ->
  line_count file b = Err E_SEVERITY.
Proof. exact line_count_bad_severity. Qed.
Print Assumptions C13_bad_severity.

(* An affects reference without a colon on a modified block is an error. *)
Theorem C13_bad_affects nm path bc v :
  bc_contmod bc = true ->
  get_attr (T "affects") (b_attrs (bc_block bc)) = Some v ->
  (exists r, In r (split_on 44 v) /\ split_once 58 (trim r) = None) ->
  affects_block nm path bc = Err E_AFFECTS.
Proof. exact (affects_bad_reference nm path bc v). Qed.
Print Assumptions C13_bad_affects.

Theorem C13_empty_lua_path : forall o ctx f bc p,
  In f ctx -> In bc (fc_blocks f) ->
  get_attr (T "check-lua") (b_attrs (bc_block bc)) = Some p -> trim p = [] ->
  vr_errs (run_validator o ctx V_LUA) <> [] /\ In E_LUA_EMPTY (vr_errs (run_validator o ctx V_LUA)) /\
  vr_diags (run_validator o ctx V_LUA) = [].
Proof. exact run_lua_empty. Qed.
Print Assumptions C13_empty_lua_path.

Theorem C13_empty_ai_condition : forall o ctx f bc p,
  In f ctx -> In bc (fc_blocks f) ->
  get_attr (T "check-ai") (b_attrs (bc_block bc)) = Some p -> trim p = [] ->
  vr_errs (run_validator o ctx V_AI) <> [] /\ In E_AI_EMPTY (vr_errs (run_validator o ctx V_AI)) /\
  vr_diags (run_validator o ctx V_AI) = [].
Proof. exact run_ai_empty. Qed.
Print Assumptions C13_empty_ai_condition.

(* A missing / unreadable / failing script (any oracle class other than nil or string) is an error. *)
Theorem C13_lua_script_fails : forall o path file b script content0 content cls msg,
  get_attr (T "check-lua") (b_attrs b) = Some script ->
  content_of file b = Ok content0 ->
  extract_content o (T "check-lua-pattern") E_LUA_PATTERN b content0 = Ok content ->
  o_lua o script (path ++ 58 :: dec (fst (b_ts b))) content = Some (cls, msg) ->
  cls <> 0 -> cls <> 1 ->
  check_lua_block o path file b = Err E_LUA_SCRIPT.
Proof. exact check_lua_script_fails. Qed.
Print Assumptions C13_lua_script_fails.

(* Any endpoint fault (incl. a missing key) is an error. *)
Theorem C13_ai_api_fails : forall o file b cond content0 content cls msg,
  get_attr (T "check-ai") (b_attrs b) = Some cond ->
  content_of file b = Ok content0 ->
  extract_content o (T "check-ai-pattern") E_AI_PATTERN b content0 = Ok content ->
  o_ai o cond content = Some (cls, msg) ->
  cls <> 0 ->
  check_ai_block o file b = Err E_AI_API.
Proof. exact check_ai_api_fails. Qed.
Print Assumptions C13_ai_api_fails.

Theorem C13_order_independent : forall o ctx vs vs', Permutation vs vs' ->
  Permutation (vr_diags (run_validators o ctx vs)) (vr_diags (run_validators o ctx vs')) /\
  Permutation (vr_errs (run_validators o ctx vs)) (vr_errs (run_validators o ctx vs')) /\
  exit_code (run_validators o ctx vs) = exit_code (run_validators o ctx vs').
Proof. exact run_validators_perm. Qed.
Print Assumptions C13_order_independent.

(* C13 - Malformed rules fail closed.
   Property theorems only; proofs are in coq/proofs. *)
From BW Require Import Merge.
From BWP Require Import TextFacts Keys_proofs C01_proofs Run_proofs Merge_proofs.
From Coq Require Import Permutation.
From BW Require Import Validators.
From BWP Require Import Keys2_proofs.
From BW Require Import Main.
From BWGen Require Import ExtTable.
From BWP Require Import Main_proofs MainCompose_proofs Scope_proofs.

(* If any validator stops with an error the run exits 1, whatever other validators report and in whatever order. *)
Theorem C13_any_error_fails_run : forall o ctx vs v,
  In v vs -> vr_errs (run_validator o ctx v) <> [] ->
  exit_code (run_validators o ctx vs) = 1 /\ vr_errs (run_validators o ctx vs) <> [].
Proof. exact any_error_fails_run. Qed.
Print Assumptions C13_any_error_fails_run.

Theorem C13_bad_direction : forall o file b v,
  get_attr (T "keep-sorted") (b_attrs b) = Some v ->
  parse_direction v = Err E_SORT_DIR ->
  keep_sorted o file b = Err E_SORT_DIR.
Proof. exact keep_sorted_bad_direction. Qed.
Print Assumptions C13_bad_direction.

Theorem C13_bad_format : forall o file b v,
  get_attr (T "keep-sorted") (b_attrs b) = Some v ->
  (exists asc, parse_direction v = Ok asc) ->
  parse_format (b_attrs b) = Err E_SORT_FMT ->
  keep_sorted o file b = Err E_SORT_FMT.
Proof. exact keep_sorted_bad_format. Qed.
Print Assumptions C13_bad_format.

Theorem C13_bad_sort_regex : forall o file b v asc fmt pat content,
  get_attr (T "keep-sorted") (b_attrs b) = Some v ->
  parse_direction v = Ok asc ->
  parse_format (b_attrs b) = Ok fmt ->
  get_attr (T "keep-sorted-pattern") (b_attrs b) = Some pat ->
  pat <> [] ->
  o_rx_ok o pat = Some false ->
  content_of file b = Ok content ->
  lines content <> [] ->
  keep_sorted o file b = Err E_SORT_PATTERN.
Proof. exact keep_sorted_bad_regex. Qed.
Print Assumptions C13_bad_sort_regex.

Theorem C13_bad_unique_regex : forall o file b pat content,
  get_attr (T "keep-unique") (b_attrs b) = Some pat ->
  pat <> [] ->
  o_rx_ok o pat = Some false ->
  content_of file b = Ok content ->
  lines content <> [] ->
  keep_unique o file b = Err E_UNIQUE_PATTERN.
Proof. exact keep_unique_bad_regex. Qed.
Print Assumptions C13_bad_unique_regex.

Theorem C13_bad_line_pattern : forall o file b pat (content : str),
  get_attr (T "line-pattern") (b_attrs b) = Some pat ->
  o_rx_ok o pat = Some false ->
  line_pattern o file b = Err E_LINE_PATTERN.
Proof. exact line_pattern_bad_regex. Qed.
Print Assumptions C13_bad_line_pattern.

Theorem C13_bad_line_count : forall file b expr,
  get_attr (T "line-count") (b_attrs b) = Some expr ->
  parse_constraint expr = None ->
  line_count file b = Err E_LINE_COUNT.
Proof. exact line_count_bad_expr. Qed.
Print Assumptions C13_bad_line_count.

(* An unknown severity on a block that has a violation is an error. *)
Theorem C13_bad_severity : forall file b expr op n content,
  get_attr (T "line-count") (b_attrs b) = Some expr ->
  parse_constraint expr = Some (op, n) ->
  content_of file b = Ok content ->
  cop_holds op (count_nonblank content) n = false ->
  sev_of (b_attrs b) = Err E_SEVERITY ->
  line_count file b = Err E_SEVERITY.
Proof. exact line_count_bad_severity. Qed.
Print Assumptions C13_bad_severity.

(* An affects reference without a colon on a modified block is an error. *)
Theorem C13_bad_affects nm path bc v :
  bc_contmod bc = true ->
  get_attr (T "affects") (b_attrs (bc_block bc)) = Some v ->
  (exists r, In r (split_on 44 v) /\ split_once 58 (trim r) = None) ->
  affects_block nm path bc = Err E_AFFECTS.
Proof. exact (affects_bad_reference nm path bc v). Qed.
Print Assumptions C13_bad_affects.

Theorem C13_empty_lua_path : forall o ctx f bc p,
  In f ctx -> In bc (fc_blocks f) ->
  get_attr (T "check-lua") (b_attrs (bc_block bc)) = Some p -> trim p = [] ->
  vr_errs (run_validator o ctx V_LUA) <> [] /\ In E_LUA_EMPTY (vr_errs (run_validator o ctx V_LUA)) /\
  vr_diags (run_validator o ctx V_LUA) = [].
Proof. exact run_lua_empty. Qed.
Print Assumptions C13_empty_lua_path.

Theorem C13_empty_ai_condition : forall o ctx f bc p,
  In f ctx -> In bc (fc_blocks f) ->
  get_attr (T "check-ai") (b_attrs (bc_block bc)) = Some p -> trim p = [] ->
  vr_errs (run_validator o ctx V_AI) <> [] /\ In E_AI_EMPTY (vr_errs (run_validator o ctx V_AI)) /\
  vr_diags (run_validator o ctx V_AI) = [].
Proof. exact run_ai_empty. Qed.
Print Assumptions C13_empty_ai_condition.

(* A missing / unreadable / failing script (any oracle class other than nil or string) is an error. *)
Theorem C13_lua_script_fails : forall o path file b script content0 content cls msg,
  get_attr (T "check-lua") (b_attrs b) = Some script ->
  content_of file b = Ok content0 ->
  extract_content o (T "check-lua-pattern") E_LUA_PATTERN b content0 = Ok content ->
  o_lua o script (path ++ 58 :: dec (fst (b_ts b))) content = Some (cls, msg) ->
  cls <> 0 -> cls <> 1 ->
  check_lua_block o path file b = Err E_LUA_SCRIPT.
Proof. exact check_lua_script_fails. Qed.
Print Assumptions C13_lua_script_fails.

(* Any endpoint fault (incl. a missing key) is an error. *)
Theorem C13_ai_api_fails : forall o file b cond content0 content cls msg,
  get_attr (T "check-ai") (b_attrs b) = Some cond ->
  content_of file b = Ok content0 ->
  extract_content o (T "check-ai-pattern") E_AI_PATTERN b content0 = Ok content ->
  o_ai o cond content = Some (cls, msg) ->
  cls <> 0 ->
  check_ai_block o file b = Err E_AI_API.
Proof. exact check_ai_api_fails. Qed.
Print Assumptions C13_ai_api_fails.

Theorem C13_order_independent : forall o ctx vs vs', Permutation vs vs' ->
  Permutation (vr_diags (run_validators o ctx vs)) (vr_diags (run_validators o ctx vs')) /\
  Permutation (vr_errs (run_validators o ctx vs)) (vr_errs (run_validators o ctx vs')) /\
  exit_code (run_validators o ctx vs) = exit_code (run_validators o ctx vs').
Proof. exact run_validators_perm. Qed.
Print Assumptions C13_order_independent.

(* Numeric sort: if one of the first two keys is not a number the validator fails with the not-a-number error (keep_sorted_not_number_after_clean_prefix in proofs/Keys2_proofs.v covers any position after an ordered numeric prefix). *)
Theorem C13_non_numeric_key_fails o file b v asc content k1 k2 rest :
  get_attr (T "keep-sorted") (b_attrs b) = Some v ->
  parse_direction v = Ok asc ->
  parse_format (b_attrs b) = Ok Numeric ->
  content_of file b = Ok content ->
  keys_of o (sort_pat b) E_SORT_PATTERN content = Ok (k1 :: k2 :: rest) ->
  not_number_pair o (k_val k1) (k_val k2) ->
  keep_sorted o file b = Err E_NOT_NUMBER.
Proof. exact (keep_sorted_not_number o file b v asc content k1 k2 rest). Qed.
Print Assumptions C13_non_numeric_key_fails.

(* Even when the two keys are the same text. *)
Theorem C13_equal_non_numeric_keys_fail o file b v asc content k1 k2 rest :
  get_attr (T "keep-sorted") (b_attrs b) = Some v ->
  parse_direction v = Ok asc ->
  parse_format (b_attrs b) = Ok Numeric ->
  content_of file b = Ok content ->
  keys_of o (sort_pat b) E_SORT_PATTERN content = Ok (k1 :: k2 :: rest) ->
  k_val k1 = k_val k2 -> o_f64 o (k_val k1) = Some None ->
  keep_sorted o file b = Err E_NOT_NUMBER.
Proof. exact (keep_sorted_not_number_equal o file b v asc content k1 k2 rest). Qed.
Print Assumptions C13_equal_non_numeric_keys_fail.

(* Through main: a block on which a detected validator fails makes the process end with a non-zero status. *)
Theorem C13_malformed_rule_fails_process : forall a p ms tb cd v f bc e,
  plan_of a = Ok p -> ca_list a = false ->
  let cr := model_context (main_case a p ms tb cd) in
  cr_panic cr = false -> cr_errs cr = [] ->
  In f (cr_ctx cr) -> In bc (fc_blocks f) ->
  validate_block (oracles_of tb) (named_modified (cr_ctx cr)) v f bc = Err e ->
  In v (detected_validators (pl_enabled p) (pl_disabled p) (cr_ctx cr)) ->
  (main_exit (main_model a ms tb cd) = 1 \/ main_exit (main_model a ms tb cd) = 101) /\
  main_exit (main_model a ms tb cd) <> 0.
Proof. exact malformed_rule_fails_main. Qed.
Print Assumptions C13_malformed_rule_fails_process.

(* The validator only has to be switched on: a failing rule is always detected. *)
Theorem C13_malformed_rule_of_active_validator_fails_process : forall a p ms tb cd v f bc e,
  plan_of a = Ok p -> ca_list a = false ->
  let cr := model_context (main_case a p ms tb cd) in
  cr_panic cr = false -> cr_errs cr = [] ->
  In f (cr_ctx cr) -> In bc (fc_blocks f) ->
  validate_block (oracles_of tb) (named_modified (cr_ctx cr)) v f bc = Err e ->
  In v (active_validators (pl_enabled p) (pl_disabled p)) ->
  (main_exit (main_model a ms tb cd) = 1 \/ main_exit (main_model a ms tb cd) = 101) /\
  main_exit (main_model a ms tb cd) <> 0.
Proof. exact malformed_rule_active_fails_main. Qed.
Print Assumptions C13_malformed_rule_of_active_validator_fails_process.

(* Through main: the malformed rule of a detected validator leaves a non-empty error list, and (when the validator's pre-pass is clean) that very error is in it - the failure is reported, not only signalled by the status. *)
Theorem C13_malformed_rule_error_is_in_the_report : forall a p ms tb cd v f bc e,
  plan_of a = Ok p -> ca_list a = false ->
  let cr := model_context (main_case a p ms tb cd) in
  cr_panic cr = false -> cr_errs cr = [] ->
  In f (cr_ctx cr) -> In bc (fc_blocks f) ->
  validate_block (oracles_of tb) (named_modified (cr_ctx cr)) v f bc = Err e ->
  In v (detected_validators (pl_enabled p) (pl_disabled p) (cr_ctx cr)) ->
  exists r, main_model a ms tb cd = MRun r /\ vr_errs r <> [] /\
            (prepass_errs v (cr_ctx cr) = [] -> In e (vr_errs r)).
Proof. exact malformed_rule_error_reported. Qed.
Print Assumptions C13_malformed_rule_error_is_in_the_report.

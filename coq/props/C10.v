(* C10 - Every diagnostic points at the text it is about.
   Property theorems only; proofs are in coq/proofs. *)
From BW Require Import SpecKeys SpecBlocks.
From BWP Require Import TextFacts Pos_proofs Comment_proofs Keys_proofs Range_proofs.
From BW Require Import Lang SpecBlocks.
From BWP Require Import Scope_proofs.

(* Tag ranges: the position computed for the tag's '<' (and, at offset hi-1, its
   '>') is the position reached by walking that many bytes of the comment from
   the comment's start - on any line of a multi-line comment ... *)
Theorem C10_tag_position_exact : forall c p pre ch post,
  c_text c = pre ++ ch :: post -> blen pre = p -> u8len ch = 1 -> ch <> 10 ->
  source_position_at c p = Ok (advance (c_text c) p (c_ps c)).
Proof. exact source_position_at_exact. Qed.
Print Assumptions C10_tag_position_exact.

(* ... and walking the normalised text equals walking the raw source text. *)
Theorem C10_normalised_positions : forall k s t n p0,
  normalise k s = Ok (Some t) ->
  (exists pre post, s = pre ++ post /\ blen pre = n) ->
  (exists pre post, t = pre ++ post /\ blen pre = n) ->
  advance t n p0 = advance s n p0.
Proof. exact normalised_positions. Qed.
Print Assumptions C10_normalised_positions.

(* Tag-range rules report exactly (b_ts, b_te). *)
Theorem C10_tag_diag_range : forall b code sev data,
  let d := tag_diag b code sev data in
  (d_sl d, d_sc d) = b_ts b /\ (d_el d, d_ec d) = b_te b.
Proof. intros b code sev data. unfold tag_diag. cbn [d_sl d_sc d_el d_ec]. destruct (b_ts b), (b_te b). cbn [fst snd]. split; reflexivity. Qed.
Print Assumptions C10_tag_diag_range.

(* Key ranges: for a block whose content is the slice [|pre|, |pre|+|content|) of
   the file and starts at the file position of that offset, the range reported
   for any trimmed-line key delimits exactly the key text in the file ... *)
Theorem C10_key_range_exact : forall pre content post k b code sev data,
  let file := pre ++ content ++ post in
  b_clo b = blen pre -> b_chi b = blen pre + blen content ->
  b_cs b = pos_of_offset file (blen pre) ->
  In k (keys_trim 0 (lines content)) ->
  let d := key_diag b k code sev data in
  text_at file (d_sl d) (d_sc d) (d_ec d) = Some (k_val k).
Proof. exact key_range_exact. Qed.
Print Assumptions C10_key_range_exact.

(* ... and so does the range of any key given by a byte slice of its content
   line (regex keys in the middle of a line, after multi-byte text). *)
Theorem C10_key_range_exact_gen : forall pre content post k b code sev data l,
  let file := pre ++ content ++ post in
  b_clo b = blen pre -> b_chi b = blen pre + blen content ->
  b_cs b = pos_of_offset file (blen pre) ->
  nth_error (lines content) (N.to_nat (k_idx k)) = Some l ->
  1 <= k_a k -> bslice l (k_a k - 1) (k_b k) = Some (k_val k) ->
  let d := key_diag b k code sev data in
  text_at file (d_sl d) (d_sc d) (d_ec d) = Some (k_val k).
Proof. exact key_range_exact_gen. Qed.
Print Assumptions C10_key_range_exact_gen.

(* For every registered language: walking the normalised comment text gives the same positions as walking the raw text. *)
Theorem C10_every_language_keeps_positions : forall fam raw g t n p0,
  normalise (kind_of fam raw g) raw = Ok (Some t) ->
  (exists pre post, raw = pre ++ post /\ blen pre = n) ->
  (exists pre post, t = pre ++ post /\ blen pre = n) ->
  advance t n p0 = advance raw n p0.
Proof. exact registered_normalisers_keep_positions. Qed.
Print Assumptions C10_every_language_keeps_positions.

(* The normaliser a language applies preserves the byte shape (lengths and line breaks) of the comment. *)
Theorem C10_every_language_keeps_shape : forall fam raw g t,
  normalise (kind_of fam raw g) raw = Ok (Some t) ->
  byte_shape t = byte_shape raw /\ blen t = blen raw.
Proof. exact registered_normalisers_keep_shape. Qed.
Print Assumptions C10_every_language_keeps_shape.

(* Whatever the key pattern (none, whole match, value group): for every key the extractor returns, the diagnostic's line and byte columns select exactly that key's text in the file. *)
Theorem C10_any_key_of_any_pattern_points_at_itself : forall (pre content post : str) o pat e ks k b code sev data,
  let file := pre ++ content ++ post in
  b_clo b = blen pre -> b_chi b = blen pre + blen content ->
  b_cs b = pos_of_offset file (blen pre) ->
  keys_of o pat e content = Ok ks -> In k ks ->
  let d := key_diag b k code sev data in
  text_at file (d_sl d) (d_sc d) (d_ec d) = Some (k_val k).
Proof. exact key_range_exact_keys_of. Qed.
Print Assumptions C10_any_key_of_any_pattern_points_at_itself.

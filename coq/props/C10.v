From BW Require Import SpecKeys.

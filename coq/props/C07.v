(* C07 - keep-unique reports a block iff two keys coincide. *)
From BW Require Import SpecKeys.
From BWP Require Import TextFacts Keys_proofs.
From BW Require Import Validators.
From BWP Require Import Keys2_proofs.

(* No violation iff the keys are pairwise distinct. *)
Theorem C07_no_violation_iff : forall ks, ku_scan [] ks = None <-> NoDup (map k_val ks).
Proof.
  intros ks. rewrite ku_scan_none. split; [intros [H _]; exact H|intros H; split; [exact H|intros k _ []]].
Qed.
Print Assumptions C07_no_violation_iff.

(* The reported key is the first one whose value occurred before it: everything
   before it is duplicate-free. *)
Theorem C07_violation_is_first : forall ks k,
  ku_scan [] ks = Some k <->
  exists pre post, ks = pre ++ k :: post /\ In (k_val k) (map k_val pre) /\ NoDup (map k_val pre).
Proof.
  intros ks k. rewrite ku_scan_some. split.
  - intros (pre & post & E & [[]|Hin] & Hd & _). exists pre, post. auto.
  - intros (pre & post & E & Hin & Hd). exists pre, post. split; [exact E|]. split; [right; exact Hin|].
    split; [exact Hd|intros x _ []].
Qed.
Print Assumptions C07_violation_is_first.

Theorem C07_keys_trimmed : forall idx ls,
  map k_val (keys_trim idx ls) = filter (fun t => match t with [] => false | _ => true end) (map trim ls).
Proof. exact keys_trim_vals. Qed.
Print Assumptions C07_keys_trimmed.

Theorem C07_at_most_one : forall o file b ds, keep_unique o file b = Ok ds -> (length ds <= 1)%nat.
Proof. exact keep_unique_at_most_one. Qed.
Print Assumptions C07_at_most_one.

(* With a regex the keys are exactly, in order, one per matching line: the value group when it took part in the match, else the whole match. *)
Theorem C07_keys_with_pattern o pat idx ls ks :
  keys_rx o pat idx ls = Ok ks <-> KeysRx o pat idx ls ks.
Proof. exact (keys_rx_spec o pat idx ls ks). Qed.
Print Assumptions C07_keys_with_pattern.

(* At validator level: no diagnostic iff the keys are pairwise distinct. *)
Theorem C07_validator_ok_iff_distinct o file b pat content ks :
  get_attr (T "keep-unique") (b_attrs b) = Some pat ->
  content_of file b = Ok content ->
  keys_of o pat E_UNIQUE_PATTERN content = Ok ks ->
  (keep_unique o file b = Ok [] <-> NoDup (map k_val ks)).
Proof. exact (keep_unique_ok_iff o file b pat content ks). Qed.
Print Assumptions C07_validator_ok_iff_distinct.

(* Otherwise the one diagnostic designates the first key whose value occurred before. *)
Theorem C07_validator_reports_first_repeat o file b pat content ks k :
  get_attr (T "keep-unique") (b_attrs b) = Some pat ->
  content_of file b = Ok content ->
  keys_of o pat E_UNIQUE_PATTERN content = Ok ks ->
  first_dup ks k ->
  keep_unique o file b = (let? sev := sev_of (b_attrs b) in Ok [key_diag b k V_UNIQUE sev []]).
Proof. exact (keep_unique_first_dup o file b pat content ks k). Qed.
Print Assumptions C07_validator_reports_first_repeat.

(* Whenever two keys coincide and the severity is well-formed, exactly one diagnostic is produced, at the first repeated key (the 'if' direction at validator level). *)
Theorem C07_repeat_is_reported o file b pat content ks sev :
  get_attr (T "keep-unique") (b_attrs b) = Some pat ->
  content_of file b = Ok content ->
  keys_of o pat E_UNIQUE_PATTERN content = Ok ks ->
  ~ NoDup (map k_val ks) ->
  sev_of (b_attrs b) = Ok sev ->
  exists k, first_dup ks k /\ keep_unique o file b = Ok [key_diag b k V_UNIQUE sev []].
Proof. exact (keep_unique_dup o file b pat content ks sev). Qed.
Print Assumptions C07_repeat_is_reported.

(* A broken severity attribute cannot hide a repeated key: the run stops with the severity error. *)
Theorem C07_bad_severity_fails_closed o file b pat content ks e :
  get_attr (T "keep-unique") (b_attrs b) = Some pat ->
  content_of file b = Ok content ->
  keys_of o pat E_UNIQUE_PATTERN content = Ok ks ->
  ~ NoDup (map k_val ks) ->
  sev_of (b_attrs b) = Err e ->
  keep_unique o file b = Err e.
Proof. exact (keep_unique_dup_bad_severity o file b pat content ks e). Qed.
Print Assumptions C07_bad_severity_fails_closed.

(* Complete outcome table once the keys are known: silent with distinct keys, else one diagnostic at the first repeat or the severity error - nothing else. *)
Theorem C07_outcome_table o file b pat content ks :
  get_attr (T "keep-unique") (b_attrs b) = Some pat ->
  content_of file b = Ok content ->
  keys_of o pat E_UNIQUE_PATTERN content = Ok ks ->
  (NoDup (map k_val ks) /\ keep_unique o file b = Ok []) \/
  (exists k, first_dup ks k /\
     ((exists sev, sev_of (b_attrs b) = Ok sev /\ keep_unique o file b = Ok [key_diag b k V_UNIQUE sev []]) \/
      (sev_of (b_attrs b) = Err E_SEVERITY /\ keep_unique o file b = Err E_SEVERITY))).
Proof. exact (keep_unique_outcomes o file b pat content ks). Qed.
Print Assumptions C07_outcome_table.

(* C07 - keep-unique reports a block iff two keys coincide. *)
From BW Require Import SpecKeys.
From BWP Require Import TextFacts Keys_proofs.

(* No violation iff the keys are pairwise distinct. *)
Theorem C07_no_violation_iff : forall ks, ku_scan [] ks = None <-> NoDup (map k_val ks).
Proof.
  intros ks. rewrite ku_scan_none. split; [intros [H _]; exact H|intros H; split; [exact H|intros k _ []]].
Qed.
Print Assumptions C07_no_violation_iff.

(* The reported key is the first one whose value occurred before it: everything
   before it is duplicate-free. *)
Theorem C07_violation_is_first : forall ks k,
  ku_scan [] ks = Some k <->
  exists pre post, ks = pre ++ k :: post /\ In (k_val k) (map k_val pre) /\ NoDup (map k_val pre).
Proof.
  intros ks k. rewrite ku_scan_some. split.
  - intros (pre & post & E & [[]|Hin] & Hd & _). exists pre, post. auto.
  - intros (pre & post & E & Hin & Hd). exists pre, post. split; [exact E|]. split; [right; exact Hin|].
    split; [exact Hd|intros x _ []].
Qed.
Print Assumptions C07_violation_is_first.

Theorem C07_keys_trimmed : forall idx ls,
  map k_val (keys_trim idx ls) = filter (fun t => match t with [] => false | _ => true end) (map trim ls).
Proof. exact keys_trim_vals. Qed.
Print Assumptions C07_keys_trimmed.

Theorem C07_at_most_one : forall o file b ds, keep_unique o file b = Ok ds -> (length ds <= 1)%nat.
Proof. exact keep_unique_at_most_one. Qed.
Print Assumptions C07_at_most_one.

(* C03 - Blocks are exactly the tag pairs written in comments (the blockwatch-owned part: from the comment list to blocks, for ANY comment list a grammar could hand over).
   Property theorems only; proofs are in coq/proofs. *)
From BW Require Import SpecBlocks.
From BWP Require Import TextFacts Blocks_proofs Comment_proofs Pos_proofs.
From Coq Require Import Permutation.

(* The start-tag stack succeeds exactly on balanced tag sequences and then returns their Dyck matching: tags pair innermost-first, nested and sibling blocks each get their own pair (any length, any depth). *)
Theorem C03_blocks_are_matching : forall ts bs, pair_tags ts [] [] = Ok bs <-> Dyck ts bs.
Proof. exact pair_tags_iff. Qed.
Print Assumptions C03_blocks_are_matching.

(* The matching is unique. *)
Theorem C03_matching_unique : forall ts b1 b2, Dyck ts b1 -> Dyck ts b2 -> b1 = b2.
Proof. exact dyck_deterministic. Qed.
Print Assumptions C03_matching_unique.

(* Blocks are reported in source order: the final sort is a permutation ... *)
Theorem C03_sorted_perm : forall l, Permutation (sort_blocks l) l.
Proof. exact sort_blocks_perm. Qed.
Print Assumptions C03_sorted_perm.

(* ... ordered by the position of the start tag. *)
Theorem C03_sorted : forall l, sorted_by_start (sort_blocks l).
Proof. exact sort_blocks_sorted. Qed.
Print Assumptions C03_sorted.

(* The line and column computed for a tag at byte offset p of a comment are those reached by walking p bytes of the comment text from the comment's own start position (tags on any line of a multi-line comment). *)
Theorem C03_position_exact : forall c p pre ch post,
  c_text c = pre ++ ch :: post -> blen pre = p -> u8len ch = 1 -> ch <> 10 ->
  source_position_at c p = Ok (advance (c_text c) p (c_ps c)).
Proof. exact source_position_at_exact. Qed.
Print Assumptions C03_position_exact.

(* Every normaliser returns a text with the same byte length and the same line breaks at the same byte offsets as the raw comment ... *)
Theorem C03_normalise_preserves : forall k s t,
  normalise k s = Ok (Some t) -> byte_shape t = byte_shape s.
Proof. exact normalise_shape. Qed.
Print Assumptions C03_normalise_preserves.

(* ... so positions computed in the normalised text are positions in the source. *)
Theorem C03_normalised_positions : forall k s t n p0,
  normalise k s = Ok (Some t) ->
  (exists pre post, s = pre ++ post /\ blen pre = n) ->
  (exists pre post, t = pre ++ post /\ blen pre = n) ->
  advance t n p0 = advance s n p0.
Proof. exact normalised_positions. Qed.
Print Assumptions C03_normalised_positions.

(* Walking is compositional: the position of offset |a|+n in a++b is the position of n in b started from the end of a (comment offset to file position). *)
Theorem C03_advance_compose : forall a b n p0,
  advance (a ++ b) (blen a + n) p0 = advance b n (advance a (blen a) p0).
Proof. exact advance_compose. Qed.
Print Assumptions C03_advance_compose.

(* A block's content is the source text between the end of the comment holding
   its start tag and the start of the comment holding its end tag; empty when
   both tags share one comment. *)
Theorem C03_content_exact : forall ci c a ts te cj e,
  let b := mk_block ci c a ts te cj e in
  (ci <> cj -> b_clo b = c_hi c /\ b_chi b = c_lo e) /\
  (ci = cj -> b_clo b = 0 /\ b_chi b = 0) /\
  b_cs b = c_pe c /\ b_ce b = c_ps e /\ b_attrs b = a /\ b_ts b = ts /\ b_te b = te.
Proof.
  intros ci c a ts te cj e b. unfold b, mk_block; cbn.
  split; [intros H; apply PeanoNat.Nat.eqb_neq in H; rewrite H; auto|].
  split; [intros H; apply PeanoNat.Nat.eqb_eq in H; rewrite H; auto|]. repeat split.
Qed.
Print Assumptions C03_content_exact.

(* --- compositions --- *)
From BW Require Import SpecTag SpecBlocks Merge Context.
From BWP Require Import Compose_proofs.
From Coq Require Import Permutation.
(* End to end for a comment list - the parse succeeds iff the tags of all comments, in order, have a Dyck matching, and then the blocks are that matching sorted by start position. *)
Theorem C03_end_to_end : forall cs bs,
  parse_blocks_from_comments cs = Ok bs <->
  exists ts bs0, ptags_from 0 cs = Ok ts /\ Dyck ts bs0 /\ bs = sort_blocks bs0.
Proof. exact blocks_of_comments_iff. Qed.
Print Assumptions C03_end_to_end.

Theorem C03_end_to_end_err : forall cs,
  parse_blocks_from_comments cs = Err E_PARSE <->
  exists ts, ptags_from 0 cs = Ok ts /\ ~ exists bs0, Dyck ts bs0.
Proof. exact blocks_of_comments_err_iff. Qed.
Print Assumptions C03_end_to_end_err.

Theorem C03_end_to_end_sorted : forall cs bs,
  parse_blocks_from_comments cs = Ok bs ->
  sorted_by_start bs /\
  exists ts bs0, ptags_from 0 cs = Ok ts /\ Dyck ts bs0 /\ Permutation bs bs0.
Proof. exact blocks_of_comments_sorted. Qed.
Print Assumptions C03_end_to_end_sorted.

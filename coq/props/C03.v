From BW Require Import SpecList.

(* C04 - No crash or hang on any input (the blockwatch-owned part: every modelled function is a total Coq function, so termination holds by construction; these theorems show that the model never produces Panic, i.e. the Rust never reaches a slice/unwrap/underflow panic, for ANY comment list a grammar could hand over). The grammars themselves, Lua scripts that loop and regex/HTTP time-outs are runtime behaviour exercised by fuzzing only.
   Property theorems only; proofs are in coq/proofs. *)
From BW Require Import SpecTag SpecBlocks Run Unidiff.
From BWP Require Import TextFacts Tag_proofs Pos_proofs Comment_proofs NoPanic_proofs.
From BW Require Import Lang.
From BWP Require Import Lang_proofs.

(* From comments to blocks: tag scan, position arithmetic (line counting, rfind of newline, +1/-1), pairing - never a panic, for any comments. *)
Theorem C04_blocks_no_panic : forall cs s,
  parse_blocks_from_comments cs <> Panic s.
Proof. exact parse_blocks_from_comments_no_panic. Qed.
Print Assumptions C04_blocks_no_panic.

(* The tag scanner's offsets are offsets of the tag's own 1-byte '<' and '>' characters: the cursor always sits on a character boundary. *)
Theorem C04_tag_offsets : forall s off t rest off',
  scan_tag s off = Some (t, rest, off') ->
  exists skipped tagtext,
    s = skipped ++ tagtext ++ rest /\
    off' = off + blen skipped + blen tagtext /\
    match t with
    | TStart lo hi _ => lo = off + blen skipped /\ hi = off' /\
                        (exists mid, tagtext = C_LT :: mid ++ [C_GT])
    | TEnd lo => lo = off + blen skipped /\ (exists mid, tagtext = C_LT :: mid ++ [C_GT])
    end.
Proof. exact scan_tag_offsets. Qed.
Print Assumptions C04_tag_offsets.

(* Comment normalisers are total (after repair F7) for every kind but the XML style ... *)
Theorem C04_normalisers_no_panic : forall k s site, k <> K_XML -> normalise k s <> Panic site.
Proof. exact normalise_no_panic. Qed.
Print Assumptions C04_normalisers_no_panic.

(* ... whose three remaining expect/slice sites are reached exactly when the node lacks its delimiters ... *)
Theorem C04_xml_panics_iff : forall s,
  (exists site, xml_comment s = Panic site) <->
  (find_sub (T "<!--") s = None \/ rfind_sub (T "-->") s = None \/
   exists pre rest upto close,
     find_sub (T "<!--") s = Some (pre, rest) /\
     rfind_sub (T "-->") s = Some (upto, close) /\
     blen upto < blen pre + 4).
Proof. exact xml_comment_panics_iff. Qed.
Print Assumptions C04_xml_panics_iff.

(* ... never for a node of the form <!-- ... -->. *)
Theorem C04_xml_delimited : forall m,
  xml_comment (T "<!--" ++ m ++ T "-->") = Ok (T "    " ++ m ++ T "   ").
Proof. exact xml_comment_delimited. Qed.
Print Assumptions C04_xml_delimited.

(* A whole file: no panic when every comment span is a valid slice of the file. *)
Theorem C04_parse_file_no_panic : forall file sps,
  (forall sp, In sp sps -> cs_kind sp <> K_XML /\
                           exists raw, bslice file (cs_lo sp) (cs_hi sp) = Some raw) ->
  forall site, parse_file file sps <> Panic site.
Proof. exact parse_file_no_panic. Qed.
Print Assumptions C04_parse_file_no_panic.

(* Validators never panic on a block whose content range is a valid slice. *)
Theorem C04_validators_no_panic : forall o nm v f bc site,
  (exists c, content_of (fc_text f) (bc_block bc) = Ok c) ->
  validate_block o nm v f bc <> Panic site.
Proof. exact validators_no_panic. Qed.
Print Assumptions C04_validators_no_panic.

(* The diff parser can only panic on a +++ header that no --- header precedes (git always emits --- first) ... *)
Theorem C04_diff_panics_only_without_source : forall diff site,
  parse_patch diff = Panic site -> site = 50.
Proof. exact parse_patch_panics_only_without_source. Qed.
Print Assumptions C04_diff_panics_only_without_source.

(* ... never once a --- header has been seen. *)
Theorem C04_diff_no_panic_after_source : forall ls files cur s site,
  parse_lines ls files cur (Some s) <> Panic site.
Proof. exact parse_lines_no_panic_after_source. Qed.
Print Assumptions C04_diff_no_panic_after_source.

(* For every registered language other than html / xml the normaliser its visitor applies never panics, whatever text the comment node holds. *)
Theorem C04_registered_normalisers_total : forall fam raw g site,
  fam <> F_XML -> normalise (kind_of fam raw g) raw <> Panic site.
Proof. exact registered_normalisers_total. Qed.
Print Assumptions C04_registered_normalisers_total.

(* Scanning one comment for tags always returns a list (no error, no panic), whatever bytes the comment holds. *)
Theorem C04_tag_scan_of_a_comment_total : forall ci c, exists r, ptags_of_comment ci c = Ok r.
Proof. exact ptags_of_comment_no_panic. Qed.
Print Assumptions C04_tag_scan_of_a_comment_total.

(* Building a comment from any in-bounds span of a non-XML language never panics. *)
Theorem C04_comment_build_no_panic : forall file sp,
  cs_kind sp <> K_XML ->
  (exists raw, bslice file (cs_lo sp) (cs_hi sp) = Some raw) ->
  forall site, mk_comment file sp <> Panic site.
Proof. exact mk_comment_no_panic. Qed.
Print Assumptions C04_comment_build_no_panic.

(* Nor for an XML-family comment span that has the delimiters the grammar guarantees. *)
Theorem C04_comment_build_no_panic_xml : forall file sp m,
  cs_kind sp = K_XML ->
  bslice file (cs_lo sp) (cs_hi sp) = Some (T "<!--" ++ m ++ T "-->") ->
  forall site, mk_comment file sp <> Panic site.
Proof. exact mk_comment_no_panic_xml. Qed.
Print Assumptions C04_comment_build_no_panic_xml.

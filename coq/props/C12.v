(* C12 - Unbalanced block tags are a hard error, never a silent skip.
   Property theorems only; proofs are in coq/proofs. *)
From BW Require Import SpecBlocks.
From BWP Require Import TextFacts Blocks_proofs.

(* A tag sequence with no well-nested matching (an end tag with no open block, a start tag never closed, at any depth) makes the parse fail; no pairing is guessed. *)
Theorem C12_unbalanced_is_error : forall ts,
  (~ exists bs, Dyck ts bs) -> pair_tags ts [] [] = Err E_PARSE.
Proof. exact unbalanced_is_error. Qed.
Print Assumptions C12_unbalanced_is_error.

(* The parse either returns blocks or fails with the parse error; there is no third outcome. *)
Theorem C12_outcomes : forall ts,
  (exists bs, pair_tags ts [] [] = Ok bs) \/ pair_tags ts [] [] = Err E_PARSE.
Proof. exact pair_tags_outcomes. Qed.
Print Assumptions C12_outcomes.

(* Success implies the tags were balanced and the blocks are their matching. *)
Theorem C12_ok_only_if_balanced : forall ts bs, pair_tags ts [] [] = Ok bs -> Dyck ts bs.
Proof. exact pair_tags_sound. Qed.
Print Assumptions C12_ok_only_if_balanced.

(* The error of one file aborts the whole run, wherever the file sits among healthy ones. *)
From BW Require Import Context.
From BWGen Require Import ExtTable.
From BWP Require Import Context_proofs.
From BW Require Import Main.
From BWP Require Import Main_proofs MainCompose_proofs.
From BWGen Require Import ExtTable.
Theorem C12_error_aborts_scan : forall ext_map fs changes f e,
  In f fs -> scanned f = true ->
  parse_one ext_map f true (match changes_for (rf_path f) changes with Some l => l | None => [] end) = Some (Err e) ->
  In e (cr_errs (build_context ext_map fs true changes)).
Proof. exact scanned_error_reported. Qed.
Print Assumptions C12_error_aborts_scan.

(* Through main, scan and list mode: an accepted command line with a scanned file whose tags do not balance ends with a non-zero status (1, or 101 if something panics first), whatever else is in the run and whatever the diff on stdin is. *)
Theorem C12_unbalanced_scanned_file_fails_process : forall a p ms tb cd m,
  plan_of a = Ok p -> In m ms ->
  pl_scan p = true -> scanned (seen_file a p m) = true ->
  grammar_of ext_table (pl_ext p) (rf_path (mf_file m)) <> None ->
  rf_readable (mf_file m) = true ->
  parse_file (rf_text (mf_file m)) (rf_spans (mf_file m)) = Err E_PARSE ->
  main_exit (main_model a ms tb cd) <> 0 /\
  (main_exit (main_model a ms tb cd) = 1 \/ main_exit (main_model a ms tb cd) = 101).
Proof. exact unbalanced_scanned_file_fails_main. Qed.
Print Assumptions C12_unbalanced_scanned_file_fails_process.

(* The same for a file named in the diff. *)
Theorem C12_unbalanced_diff_file_fails_process : forall a p ms tb cd ch m lcs,
  plan_of a = Ok p -> NoDup (map (fun m => rf_path (mf_file m)) ms) -> In m ms ->
  model_changes (main_case a p ms tb cd) = Ok ch -> In (rf_path (mf_file m), lcs) ch ->
  (if ca_ign_post a =? 0 then mf_ign_pre m else mf_ign_post m) = false ->
  (pl_scan p && scanned (seen_file a p m)) = false ->
  grammar_of ext_table (pl_ext p) (rf_path (mf_file m)) <> None ->
  rf_readable (mf_file m) = true ->
  parse_file (rf_text (mf_file m)) (rf_spans (mf_file m)) = Err E_PARSE ->
  main_exit (main_model a ms tb cd) <> 0 /\
  (main_exit (main_model a ms tb cd) = 1 \/ main_exit (main_model a ms tb cd) = 101).
Proof. exact unbalanced_diff_mfile_fails_main. Qed.
Print Assumptions C12_unbalanced_diff_file_fails_process.

(* Every mode at once: a file in scope with unbalanced tags. *)
Theorem C12_unbalanced_in_scope_fails_process : forall a p ms tb cd m,
  plan_of a = Ok p -> NoDup (map (fun m => rf_path (mf_file m)) ms) -> In m ms ->
  (forall ch, model_changes (main_case a p ms tb cd) = Ok ch ->
              in_scope (pl_scan p) ch (seen_file a p m) = true) ->
  grammar_of ext_table (pl_ext p) (rf_path (mf_file m)) <> None ->
  rf_readable (mf_file m) = true ->
  parse_file (rf_text (mf_file m)) (rf_spans (mf_file m)) = Err E_PARSE ->
  main_exit (main_model a ms tb cd) <> 0.
Proof. exact unbalanced_in_scope_file_fails_main. Qed.
Print Assumptions C12_unbalanced_in_scope_fails_process.

(* C12 - Unbalanced block tags are a hard error, never a silent skip.
   Property theorems only; proofs are in coq/proofs. *)
From BW Require Import SpecBlocks.
From BWP Require Import TextFacts Blocks_proofs.

(* A tag sequence with no well-nested matching (an end tag with no open block, a start tag never closed, at any depth) makes the parse fail; no pairing is guessed. *)
Theorem C12_unbalanced_is_error : forall ts,
  (~ exists bs, Dyck ts bs) -> pair_tags ts [] [] = Err E_PARSE.
Proof. exact unbalanced_is_error. Qed.
Print Assumptions C12_unbalanced_is_error.

(* The parse either returns blocks or fails with the parse error; there is no third outcome. *)
Theorem C12_outcomes : forall ts,
  (exists bs, pair_tags ts [] [] = Ok bs) \/ pair_tags ts [] [] = Err E_PARSE.
Proof. exact pair_tags_outcomes. Qed.
Print Assumptions C12_outcomes.

(* Success implies the tags were balanced and the blocks are their matching. *)
Theorem C12_ok_only_if_balanced : forall ts bs, pair_tags ts [] [] = Ok bs -> Dyck ts bs.
Proof. exact pair_tags_sound. Qed.
Print Assumptions C12_ok_only_if_balanced.

(* The error of one file aborts the whole run, wherever the file sits among healthy ones. *)
From BW Require Import Context.
From BWGen Require Import ExtTable.
From BWP Require Import Context_proofs.
Theorem C12_error_aborts_scan : forall ext_map fs changes f e,
  In f fs -> scanned f = true ->
  parse_one ext_map f true (match changes_for (rf_path f) changes with Some l => l | None => [] end) = Some (Err e) ->
  In e (cr_errs (build_context ext_map fs true changes)).
Proof. exact scanned_error_reported. Qed.
Print Assumptions C12_error_aborts_scan.

(* C08 - line-pattern reports a block iff some line fails the regex.
   The regex engine is an oracle (o_rx); a line passes when it is blank after
   trimming or the oracle finds a match in the trimmed text. *)
From BW Require Import SpecKeys.
From BWP Require Import TextFacts Keys_proofs.

Theorem C08_no_violation_iff : forall o pat idx ls,
  lp_scan o pat idx ls = Ok None <-> Forall (lp_passes o pat) ls.
Proof. exact lp_scan_none. Qed.
Print Assumptions C08_no_violation_iff.

(* The reported key is the trimmed text of the first failing line, with its
   index and byte columns. *)
Theorem C08_violation_is_first : forall o pat idx ls k,
  lp_scan o pat idx ls = Ok (Some k) ->
  exists pre l post, ls = pre ++ l :: post /\ Forall (lp_passes o pat) pre /\ lp_fails o pat l /\
    k_idx k = idx + N.of_nat (length pre) /\ k_val k = trim l /\ k_a k = trim_off l + 1 /\
    k_b k = k_a k + blen (trim l) - 1.
Proof. exact lp_scan_some. Qed.
Print Assumptions C08_violation_is_first.

Theorem C08_at_most_one : forall o file b ds, line_pattern o file b = Ok ds -> (length ds <= 1)%nat.
Proof. exact line_pattern_at_most_one. Qed.
Print Assumptions C08_at_most_one.

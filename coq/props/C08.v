(* C08 - line-pattern reports a block iff some line fails the regex.
   The regex engine is an oracle (o_rx); a line passes when it is blank after
   trimming or the oracle finds a match in the trimmed text. *)
From BW Require Import SpecKeys.
From BWP Require Import TextFacts Keys_proofs.
From BW Require Import Validators.
From BWP Require Import Keys2_proofs.

Theorem C08_no_violation_iff : forall o pat idx ls,
  lp_scan o pat idx ls = Ok None <-> Forall (lp_passes o pat) ls.
Proof. exact lp_scan_none. Qed.
Print Assumptions C08_no_violation_iff.

(* The reported key is the trimmed text of the first failing line, with its
   index and byte columns. *)
Theorem C08_violation_is_first : forall o pat idx ls k,
  lp_scan o pat idx ls = Ok (Some k) ->
  exists pre l post, ls = pre ++ l :: post /\ Forall (lp_passes o pat) pre /\ lp_fails o pat l /\
    k_idx k = idx + N.of_nat (length pre) /\ k_val k = trim l /\ k_a k = trim_off l + 1 /\
    k_b k = k_a k + blen (trim l) - 1.
Proof. exact lp_scan_some. Qed.
Print Assumptions C08_violation_is_first.

Theorem C08_at_most_one : forall o file b ds, line_pattern o file b = Ok ds -> (length ds <= 1)%nat.
Proof. exact line_pattern_at_most_one. Qed.
Print Assumptions C08_at_most_one.

(* At validator level: no diagnostic iff every non-blank trimmed line has a match. *)
Theorem C08_validator_ok_iff_all_match o file b pat content :
  get_attr (T "line-pattern") (b_attrs b) = Some pat ->
  o_rx_ok o pat = Some true ->
  content_of file b = Ok content ->
  (line_pattern o file b = Ok [] <-> Forall (lp_passes o pat) (lines content)).
Proof. exact (line_pattern_ok_iff o file b pat content). Qed.
Print Assumptions C08_validator_ok_iff_all_match.

(* Otherwise the one diagnostic designates the first failing line, trimmed, at its own byte range. *)
Theorem C08_validator_reports_first_failing o file b pat content pre l post :
  get_attr (T "line-pattern") (b_attrs b) = Some pat ->
  o_rx_ok o pat = Some true ->
  content_of file b = Ok content ->
  lines content = pre ++ l :: post ->
  Forall (lp_passes o pat) pre -> lp_fails o pat l ->
  line_pattern o file b =
  (let? sev := sev_of (b_attrs b) in
   Ok [key_diag b (trim_key (N.of_nat (length pre)) l) V_PATTERN sev [pat]]).
Proof. exact (line_pattern_first_fail o file b pat content pre l post). Qed.
Print Assumptions C08_validator_reports_first_failing.

(* Conversely every diagnostic of this rule designates a line that fails the regex, preceded only by passing lines (no false report). *)
Theorem C08_diagnostic_only_from_failing_line o file b pat content d :
  get_attr (T "line-pattern") (b_attrs b) = Some pat ->
  o_rx_ok o pat = Some true ->
  content_of file b = Ok content ->
  line_pattern o file b = Ok [d] ->
  exists pre l post sev, lines content = pre ++ l :: post /\ Forall (lp_passes o pat) pre /\
    lp_fails o pat l /\ sev_of (b_attrs b) = Ok sev /\
    d = key_diag b (trim_key (N.of_nat (length pre)) l) V_PATTERN sev [pat].
Proof. exact (line_pattern_diag_inv o file b pat content d). Qed.
Print Assumptions C08_diagnostic_only_from_failing_line.

(* Complete outcome table: silent when every line passes, else the first failing line is reported (or its severity error), else a regex-oracle table miss; nothing else. *)
Theorem C08_outcome_table o file b pat content :
  get_attr (T "line-pattern") (b_attrs b) = Some pat ->
  o_rx_ok o pat = Some true ->
  content_of file b = Ok content ->
  (Forall (lp_passes o pat) (lines content) /\ line_pattern o file b = Ok []) \/
  (exists pre l post, lines content = pre ++ l :: post /\ Forall (lp_passes o pat) pre /\
     lp_fails o pat l /\
     line_pattern o file b =
     (let? sev := sev_of (b_attrs b) in
      Ok [key_diag b (trim_key (N.of_nat (length pre)) l) V_PATTERN sev [pat]])) \/
  line_pattern o file b = Err E_ORACLE_MISS.
Proof. exact (line_pattern_outcomes o file b pat content). Qed.
Print Assumptions C08_outcome_table.

(* Blank lines never count - a line of whitespace only (any Unicode whitespace) passes every pattern. *)
Theorem C08_blank_lines_never_count o pat l : all_ws l -> lp_passes o pat l.
Proof. exact (blank_line_passes o pat l). Qed.
Print Assumptions C08_blank_lines_never_count.

(* The line a diagnostic designates is never blank. *)
Theorem C08_failing_line_not_blank o pat l : lp_fails o pat l -> ~ all_ws l.
Proof. exact (failing_line_not_blank o pat l). Qed.
Print Assumptions C08_failing_line_not_blank.

(* No line both passes and fails - the two outcomes of C08_outcome_table exclude each other. *)
Theorem C08_pass_fail_exclusive o pat l : lp_passes o pat l -> lp_fails o pat l -> False.
Proof. exact (lp_passes_fails_exclusive o pat l). Qed.
Print Assumptions C08_pass_fail_exclusive.

(* Inserting a blank line anywhere changes nothing about whether every line passes, hence (C08_validator_ok_iff_all_match) about whether the block is silent. *)
Theorem C08_blank_insertion_irrelevant o pat pre w post :
  all_ws w ->
  (Forall (lp_passes o pat) (pre ++ w :: post) <-> Forall (lp_passes o pat) (pre ++ post)).
Proof. exact (all_pass_blank_insert o pat pre w post). Qed.
Print Assumptions C08_blank_insertion_irrelevant.

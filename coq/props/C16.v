(* C16 - Grammar is chosen by file name; unknown names are skipped. ext_table is reflected from the running implementation on every run.
   Property theorems only; proofs are in coq/proofs. *)
From BW Require Import Context.
From BWGen Require Import ExtTable.
From BWP Require Import TextFacts Suffix_proofs Context_proofs.
From BW Require Import Main.
From BWP Require Import Main_proofs.
From BW Require Import Lang.
From BWP Require Import Lang_proofs.

(* Every registered suffix (incl. d.ts, go.mod, go.sum, go.work) selects its own grammar, whatever the stem (dots included) and directories. *)
Theorem C16_registered_suffix : forall e g dir s,
  In (e, g) ext_table ->
  existsb (N.eqb C_SLASH) s = false ->
  (dir = [] \/ exists d, dir = d ++ [C_SLASH]) ->
  grammar_of ext_table [] (dir ++ s ++ C_DOT :: e) = Some g.
Proof. exact registered_suffix_resolves. Qed.
Print Assumptions C16_registered_suffix.

(* Extension-less names (Makefile, makefile, go.mod ...) select their grammar as whole file names. *)
Theorem C16_registered_whole_name : forall e g dir,
  In (e, g) ext_table ->
  (dir = [] \/ exists d, dir = d ++ [C_SLASH]) ->
  grammar_of ext_table [] (dir ++ e) = Some g.
Proof. exact registered_whole_name_resolves. Qed.
Print Assumptions C16_registered_whole_name.

(* The choice depends only on the suffix once it resolves. *)
Theorem C16_suffix_only : forall table ext_map dir s e g,
  existsb (N.eqb C_SLASH) (s ++ C_DOT :: e) = false ->
  (dir = [] \/ exists d, dir = d ++ [C_SLASH]) ->
  first_some table ext_map (rev (dot_suffixes e) ++ [e]) = Some g ->
  grammar_of table ext_map (dir ++ s ++ C_DOT :: e) = Some g.
Proof. exact grammar_of_suffix. Qed.
Print Assumptions C16_suffix_only.

(* A name none of whose dot-suffixes (nor the whole name) is registered has no grammar ... *)
Theorem C16_unknown_skipped : forall table ext_map path,
  (forall c, In c (rev (dot_suffixes (file_name path)) ++ [file_name path]) ->
             lookup_ext table ext_map c = None) ->
  grammar_of table ext_map path = None.
Proof. exact unknown_name_skipped. Qed.
Print Assumptions C16_unknown_skipped.

(* ... and such a file is skipped without being read. *)
Theorem C16_never_read : forall ext_map f all lcs,
  grammar_of ext_table ext_map (rf_path f) = None -> parse_one ext_map f all lcs = None.
Proof. exact no_grammar_never_read. Qed.
Print Assumptions C16_never_read.

(* -E ext=known makes files with that extension use the known grammar. *)
Theorem C16_remap : forall table ext_map dir s k v g,
  existsb (N.eqb C_SLASH) (s ++ C_DOT :: k) = false ->
  (dir = [] \/ exists d, dir = d ++ [C_SLASH]) ->
  dot_suffixes k = [] ->
  assoc_last k ext_map = Some v -> assoc v table = Some g ->
  grammar_of table ext_map (dir ++ s ++ C_DOT :: k) = Some g.
Proof. exact remapped_suffix_resolves. Qed.
Print Assumptions C16_remap.

(* Through main: a run only starts when every -E value main sees maps onto a registered suffix. *)
Theorem C16_mappings_checked : forall a p k v,
  plan_of a = Ok p -> In (k, v) (pl_ext p) -> supported v = true.
Proof. exact plan_ext_supported. Qed.
Print Assumptions C16_mappings_checked.

(* An -E mapping onto an unregistered suffix is rejected before any file is looked at. *)
Theorem C16_unsupported_mapping_rejected : forall a s k v,
  In s (effective (ca_ext_pre a) (ca_ext_post a)) -> parse_extension s = Some (k, v) -> supported v = false ->
  exists e, plan_of a = Err e.
Proof. exact unsupported_ext_rejected. Qed.
Print Assumptions C16_unsupported_mapping_rejected.

(* An -E value without = is a usage error. *)
Theorem C16_mapping_needs_equals : forall a s,
  In s (ca_ext_raw a) -> ~ In 61 s -> plan_of a = Err E_USAGE.
Proof. exact ext_without_equals_is_usage_error. Qed.
Print Assumptions C16_mapping_needs_equals.

(* KEY=VALUE is split at the first = and both sides are trimmed. *)
Theorem C16_mapping_trimmed : forall k v, ~ In 61 k ->
  parse_extension (k ++ 61 :: v) = Some (trim k, trim v).
Proof. exact parse_extension_trims. Qed.
Print Assumptions C16_mapping_trimmed.

(* The model's table of comment conventions (which normaliser each language's visitor applies, theories/Lang.v) has exactly the registered suffixes, as reflected from language_parsers() on every run. *)
Theorem C16_family_table_covers_registered_suffixes : map fst family_table = map fst ext_table.
Proof. exact family_table_keys. Qed.
Print Assumptions C16_family_table_covers_registered_suffixes.

(* Suffixes that share one parser object share one comment convention. *)
Theorem C16_family_respects_grammar : same_class_same_family = true.
Proof. exact family_respects_grammar. Qed.
Print Assumptions C16_family_respects_grammar.

(* A file name selects a comment convention exactly when it selects a grammar, under any -E map. *)
Theorem C16_family_iff_grammar : forall m p,
  family_of m p = None <-> grammar_of ext_table m p = None.
Proof. exact family_iff_grammar. Qed.
Print Assumptions C16_family_iff_grammar.

(* Every registered suffix shares its parser object with a suffix whose comment convention the model lists (a new alias of a known language is covered; an unknown language is not, and this theorem then fails). *)
Theorem C16_every_parser_object_known : forallb (fun kv => match class_family (snd kv) with Some _ => true | None => false end) ext_table = true.
Proof. exact every_class_known. Qed.
Print Assumptions C16_every_parser_object_known.

(* The conventions listed by hand agree with the ones derived per parser object. *)
Theorem C16_hand_table_consistent :
  forallb (fun sf => match assoc (fst sf) ext_table with
                     | None => true
                     | Some _ => match assoc (fst sf) family_table with Some f => f =? snd sf | None => false end
                     end) family_hand = true.
Proof. exact family_hand_consistent. Qed.
Print Assumptions C16_hand_table_consistent.

(* C09 - line-count reports a block iff its size breaks the bound.
   Property theorems only; proofs are in proofs/C09_proofs.v. *)
From BW Require Import SpecC09.
From BWP Require Import TextFacts C09_proofs.

(* The count the rule uses is the number of content lines holding a
   non-whitespace character (0 for empty content). *)
Theorem C09_count : forall content, count_nonblank content = spec_count content.
Proof. exact count_nonblank_spec. Qed.
Print Assumptions C09_count.

(* Every "OP N" expression, any bound below 2^64, any whitespace around and
   between, parses to exactly (OP, N). *)
Theorem C09_parse_print : forall w1 w2 w3 op n,
  all_ws w1 -> all_ws w2 -> all_ws w3 -> n < 18446744073709551616 ->
  parse_constraint (print_constraint w1 w2 w3 op n) = Some (op, n).
Proof. exact parse_constraint_print. Qed.
Print Assumptions C09_parse_print.

(* A block with a well-formed constraint gets exactly one diagnostic carrying
   (actual, op, bound) at its start tag when the comparison fails, none otherwise. *)
Theorem C09_violation_iff : forall file b expr op n content sev,
  get_attr (T "line-count") (b_attrs b) = Some expr ->
  parse_constraint expr = Some (op, n) ->
  content_of file b = Ok content ->
  sev_of (b_attrs b) = Ok sev ->
  line_count file b =
    Ok (if cop_holds op (spec_count content) n then []
        else [tag_diag b V_COUNT sev [dec (spec_count content); cop_str op; dec n]]).
Proof. exact line_count_correct. Qed.
Print Assumptions C09_violation_iff.

(* The model's answer always passes the executable specification that is
   evaluated on the implementation's output in the correspondence run. *)
Theorem C09_model_meets_spec : forall file b expr op n content sev ds,
  get_attr (T "line-count") (b_attrs b) = Some expr ->
  parse_constraint expr = Some (op, n) ->
  content_of file b = Ok content ->
  sev_of (b_attrs b) = Ok sev ->
  line_count file b = Ok ds ->
  spec_c09 (mkintent09 (b_ts b) (b_te b) content op n sev) ds = true.
Proof. exact line_count_meets_spec. Qed.
Print Assumptions C09_model_meets_spec.

(* An expression that does not parse stops the run with an error (fails closed). *)
Theorem C09_bad_expr : forall file b expr,
  get_attr (T "line-count") (b_attrs b) = Some expr ->
  parse_constraint expr = None ->
  line_count file b = Err E_LINE_COUNT.
Proof. exact line_count_bad_expr. Qed.
Print Assumptions C09_bad_expr.

(* A block without a line-count attribute is never reported by this rule. *)
Theorem C09_absent file b :
  get_attr (T "line-count") (b_attrs b) = None -> line_count file b = Ok [].
Proof. exact (line_count_absent file b). Qed.
Print Assumptions C09_absent.

(* The five operators are exactly the mathematical comparisons on natural numbers. *)
Theorem C09_comparison op a n :
  cop_holds op a n = true <->
  match op with OLt => a < n | OLe => a <= n | OEq => a = n | OGe => n <= a | OGt => n < a end.
Proof. exact (cop_holds_iff op a n). Qed.
Print Assumptions C09_comparison.

(* A bound of 2^64 or more is rejected as malformed, never wrapped around. *)
Theorem C09_bound_fits_u64 expr op n :
  parse_constraint expr = Some (op, n) -> n < 18446744073709551616.
Proof. exact (parse_constraint_bound expr op n). Qed.
Print Assumptions C09_bound_fits_u64.

(* With a well-formed rule the block is silent exactly when the comparison holds for the number of non-blank content lines (both directions). *)
Theorem C09_silent_iff file b expr op n content sev :
  get_attr (T "line-count") (b_attrs b) = Some expr ->
  parse_constraint expr = Some (op, n) ->
  content_of file b = Ok content ->
  sev_of (b_attrs b) = Ok sev ->
  (line_count file b = Ok [] <->
   match op with
   | OLt => spec_count content < n | OLe => spec_count content <= n
   | OEq => spec_count content = n
   | OGe => n <= spec_count content | OGt => n < spec_count content end).
Proof. exact (line_count_silent_iff file b expr op n content sev). Qed.
Print Assumptions C09_silent_iff.

(* A broken severity attribute cannot hide a size violation: the run stops with the severity error. *)
Theorem C09_bad_severity_fails_closed file b expr op n content e :
  get_attr (T "line-count") (b_attrs b) = Some expr ->
  parse_constraint expr = Some (op, n) ->
  content_of file b = Ok content ->
  sev_of (b_attrs b) = Err e ->
  cop_holds op (spec_count content) n = false ->
  line_count file b = Err e.
Proof. exact (line_count_bad_severity file b expr op n content e). Qed.
Print Assumptions C09_bad_severity_fails_closed.

(* Converse of the round trip - everything the parser accepts has the shape  ws OP ws NUMERAL ws  (OP one of the five operators) with a numeral that reads as the bound; any other text is malformed (and then C09_bad_expr applies). *)
Theorem C09_accepted_language expr op n :
  parse_constraint expr = Some (op, n) ->
  exists w1 w2 w3 num, all_ws w1 /\ all_ws w2 /\ all_ws w3 /\ num <> [] /\
    expr = w1 ++ cop_str op ++ w2 ++ num ++ w3 /\ parse_usize num = Some n.
Proof. exact (parse_constraint_shape expr op n). Qed.
Print Assumptions C09_accepted_language.

(* The numeral is an optional '+' followed by one or more ASCII digits whose value is below 2^64 - no sign '-', no blanks inside, no other digits. *)
Theorem C09_numeral_shape num n :
  parse_usize num = Some n ->
  exists ds, (num = ds \/ num = 43 :: ds) /\ ds <> [] /\
    Forall (fun c => is_ascii_digit c = true) ds /\ digits_val 0 ds = Some n /\ n < 18446744073709551616.
Proof. exact (parse_usize_shape num n). Qed.
Print Assumptions C09_numeral_shape.

(* The count is additive over newline-terminated pieces of the content - no line is counted twice or lost at a piece boundary (CR LF included). *)
Theorem C09_count_additive a b : spec_count (a ++ 10 :: b) = spec_count (a ++ [10]) + spec_count b.
Proof. exact (spec_count_app_nl a b). Qed.
Print Assumptions C09_count_additive.

(* Content made of whitespace only (any number of blank lines, any Unicode whitespace) counts zero. *)
Theorem C09_whitespace_only_counts_zero w : all_ws w -> spec_count w = 0.
Proof. exact (spec_count_all_ws w). Qed.
Print Assumptions C09_whitespace_only_counts_zero.

(* Inserting blank lines between two lines never changes the count, hence never the verdict. *)
Theorem C09_blank_lines_ignored a w b :
  all_ws w -> spec_count (a ++ 10 :: w ++ 10 :: b) = spec_count (a ++ 10 :: b).
Proof. exact (spec_count_blank_lines_ignored a w b). Qed.
Print Assumptions C09_blank_lines_ignored.

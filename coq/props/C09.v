From BW Require Import SpecC09.

(* C17 - Default Lua mode is a sandbox: no file, OS or module access. The graphs graph_<mode> are enumerated from inside the real interpreter in each BLOCKWATCH_LUA_MODE on every run (gen/LuaGraph.v); the per-graph claims are decided by the kernel (vm_compute) on those finite graphs. Trusted: that real Lua without the debug library refines the navigation machine (values are only obtained by indexing, metatables and calls), and the authority table of the Lua 5.4 standard library in theories/LuaCap.v.
   Property theorems only; proofs are in coq/proofs. *)
From BW Require Import SpecLua.
From BWGen Require Import LuaGraph.
From BWP Require Import LuaCap_proofs.

(* Whatever a script does by following table entries and metatables from its global environment, it only ever holds dumped values. *)
Theorem C17_confinement (g : lgraph) :
  closed g = true -> forall n, reach g n -> In n (node_ids g).
Proof. exact (confinement g). Qed.
Print Assumptions C17_confinement.

(* In a graph that passes the sandbox check every reachable builtin is a known standard function with no authority (no file, OS, loading or host-inspection effect). *)
Theorem C17_sandboxed_no_authority (g : lgraph) :
  sandboxed g = true ->
  forall n, reach g n -> n <> 0 ->
  exists nd, In nd (lg_nodes g) /\ ln_id nd = n /\
             (ln_kind nd = LK_CFUNC -> library_authority (ln_path nd) = Some []).
Proof. exact (sandboxed_no_authority g). Qed.
Print Assumptions C17_sandboxed_no_authority.

(* The default mode passes the sandbox check: closed dump, every reachable builtin known and authority-free, none of io os package debug require dofile loadfile among the globals. *)
Theorem C17_unset_is_sandboxed : sandboxed graph_unset = true.
Proof. exact unset_sandboxed. Qed.
Print Assumptions C17_unset_is_sandboxed.

Theorem C17_sandboxed_is_sandboxed : sandboxed graph_sandboxed = true.
Proof. exact sandboxed_sandboxed. Qed.
Print Assumptions C17_sandboxed_is_sandboxed.

(* Any other value behaves like the default. *)
Theorem C17_garbage_is_sandboxed : sandboxed graph_garbage = true.
Proof. exact garbage_sandboxed. Qed.
Print Assumptions C17_garbage_is_sandboxed.

Theorem C17_garbage_like_default :
  map ln_path (lg_nodes graph_garbage) = map ln_path (lg_nodes graph_unset) /\
  map ln_path (lg_nodes graph_sandboxed) = map ln_path (lg_nodes graph_unset).
Proof. exact garbage_like_default. Qed.
Print Assumptions C17_garbage_like_default.

(* safe adds io, os and package ... *)
Theorem C17_safe_mode : safe_mode_ok graph_safe = true.
Proof. exact safe_ok. Qed.
Print Assumptions C17_safe_mode.

(* ... exactly those (with the base library's require, dofile, loadfile) ... *)
Theorem C17_safe_adds : forall n, In n (added_globals graph_safe graph_unset) <->
  In n (map (fun b => T b) ["dofile"; "io"; "loadfile"; "os"; "package"; "require"]%bs).
Proof. exact safe_adds. Qed.
Print Assumptions C17_safe_adds.

(* ... and no debug library. *)
Theorem C17_safe_no_debug : has_path graph_safe (T "debug") = false /\ has_global graph_safe (T "debug") = false.
Proof. exact safe_no_debug. Qed.
Print Assumptions C17_safe_no_debug.

(* Only unsafe adds debug and native-module loading. *)
Theorem C17_unsafe_mode : unsafe_mode_ok graph_unsafe = true.
Proof. exact unsafe_ok. Qed.
Print Assumptions C17_unsafe_mode.

Theorem C17_unsafe_adds : forall n, In n (added_globals graph_unsafe graph_safe) <-> In n [T "debug"].
Proof. exact unsafe_adds. Qed.
Print Assumptions C17_unsafe_adds.

(* The same at load time - what the script's top-level chunk sees before validate is fetched (a capability captured there stays usable): default mode. *)
Theorem C17_unset_load_time : sandboxed graph_unset_top = true.
Proof. exact unset_top_sandboxed. Qed.
Print Assumptions C17_unset_load_time.

(* Load time, explicit sandboxed mode. *)
Theorem C17_sandboxed_load_time : sandboxed graph_sandboxed_top = true.
Proof. exact sandboxed_top_sandboxed. Qed.
Print Assumptions C17_sandboxed_load_time.

(* Load time, unrecognised mode value. *)
Theorem C17_garbage_load_time : sandboxed graph_garbage_top = true.
Proof. exact garbage_top_sandboxed. Qed.
Print Assumptions C17_garbage_load_time.

(* Load time, safe mode: io, os, package, no debug. *)
Theorem C17_safe_load_time : safe_mode_ok graph_safe_top = true /\ has_global graph_safe_top (T "debug") = false.
Proof. exact safe_top_ok. Qed.
Print Assumptions C17_safe_load_time.

(* Load time, unsafe mode. *)
Theorem C17_unsafe_load_time : unsafe_mode_ok graph_unsafe_top = true.
Proof. exact unsafe_top_ok. Qed.
Print Assumptions C17_unsafe_load_time.

(* Nothing is reachable at load time that is not reachable at call time. *)
Theorem C17_load_time_within_call_time :
  paths_within graph_unset_top graph_unset = true /\ paths_within graph_sandboxed_top graph_sandboxed = true /\
  paths_within graph_garbage_top graph_garbage = true /\ paths_within graph_safe_top graph_safe = true /\
  paths_within graph_unsafe_top graph_unsafe = true.
Proof. exact top_within_call. Qed.
Print Assumptions C17_load_time_within_call_time.

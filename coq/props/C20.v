(* C20 - Same input, same verdict: runs are deterministic and location-independent (the bookkeeping under every order the model can express; the OS scheduler and hash seeds are exercised, not modelled).
   Property theorems only; proofs are in coq/proofs. *)
From BW Require Import Merge.
From BWP Require Import TextFacts Keys_proofs C01_proofs Run_proofs Merge_proofs.
From Coq Require Import Permutation.
From BW Require Import RunCase.
From BWP Require Import Context_proofs Order_proofs Main_proofs MainCompose_proofs.
From BW Require Import Main.

(* Permuting the files of the context and the blocks inside each file (walk order, hash-map iteration order) yields the same exit status and the same diagnostics and errors up to permutation. *)
Theorem C20_files_and_blocks_any_order : forall o en dis ctx ctx', ctx_reorder ctx ctx' ->
  let r := run_validators o ctx (detected_validators en dis ctx) in
  let r' := run_validators o ctx' (detected_validators en dis ctx') in
  Permutation (vr_diags r) (vr_diags r') /\ Permutation (vr_errs r) (vr_errs r') /\
  exit_code r = exit_code r'.
Proof. exact whole_run_reorder. Qed.
Print Assumptions C20_files_and_blocks_any_order.

(* Permuting the order in which validators run / complete does the same. *)
Theorem C20_validators_any_order : forall o ctx vs vs', Permutation vs vs' ->
  Permutation (vr_diags (run_validators o ctx vs)) (vr_diags (run_validators o ctx vs')) /\
  Permutation (vr_errs (run_validators o ctx vs)) (vr_errs (run_validators o ctx vs')) /\
  exit_code (run_validators o ctx vs) = exit_code (run_validators o ctx vs').
Proof. exact run_validators_perm. Qed.
Print Assumptions C20_validators_any_order.

(* The set of detected validators does not depend on the order either. *)
Theorem C20_detection_any_order : forall en dis ctx ctx', ctx_reorder ctx ctx' ->
  Permutation (detected_validators en dis ctx) (detected_validators en dis ctx').
Proof. exact detected_reorder. Qed.
Print Assumptions C20_detection_any_order.

Theorem C20_merge_any_order : forall a a', Permutation a a' ->
  Permutation (flatten (merge_all a)) (flatten (merge_all a')) /\
  has_error_severity (merge_all a) = has_error_severity (merge_all a').
Proof. exact merge_all_perm. Qed.
Print Assumptions C20_merge_any_order.

(* The one cross-block rule depends only on the set of modified named blocks. *)
Theorem C20_affects_set_only nm1 nm2 path bc :
  (forall x, In x nm1 <-> In x nm2) -> affects_block nm1 path bc = affects_block nm2 path bc.
Proof. exact (affects_block_set_ext nm1 nm2 path bc). Qed.
Print Assumptions C20_affects_set_only.

(* The order in which the directory walk (or a parallel pool) hands files to the scanner does not matter: the contexts and errors contributed are the same up to permutation and a panic is reached in one order iff in the other. *)
Theorem C20_walk_order : forall ext_map fs fs' changes acc, Permutation fs fs' ->
  let r := scan_files ext_map fs changes acc in
  let r' := scan_files ext_map fs' changes acc in
  exists c c', cr_ctx r = cr_ctx acc ++ c /\ cr_ctx r' = cr_ctx acc ++ c' /\ Permutation c c' /\
    (exists e e', cr_errs r = cr_errs acc ++ e /\ cr_errs r' = cr_errs acc ++ e' /\ Permutation e e') /\
    cr_panic r = cr_panic r'.
Proof. exact scan_files_perm. Qed.
Print Assumptions C20_walk_order.

(* Nor does the order in which the diff lists its file sections (hash-map iteration order of the parsed diff). *)
Theorem C20_diff_section_order : forall ext_map fs scan changes changes' acc,
  Permutation changes changes' -> NoDup (map fst changes) ->
  (forall p l, In (p, l) changes -> find_file p fs <> None) ->
  let r := diff_files ext_map fs scan changes acc in
  let r' := diff_files ext_map fs scan changes' acc in
  exists c c', cr_ctx r = cr_ctx acc ++ c /\ cr_ctx r' = cr_ctx acc ++ c' /\ Permutation c c' /\
    (exists e e', cr_errs r = cr_errs acc ++ e /\ cr_errs r' = cr_errs acc ++ e' /\ Permutation e e') /\
    cr_panic r = cr_panic r'.
Proof. exact diff_files_perm. Qed.
Print Assumptions C20_diff_section_order.

(* Both together: the assembled context is the same multiset of per-file contexts and errors. *)
Theorem C20_context_any_order : forall ext_map fs fs' scan changes changes',
  Permutation fs fs' -> Permutation changes changes' ->
  NoDup (map fst changes) -> NoDup (map rf_path fs) ->
  (forall p l, In (p, l) changes -> find_file p fs <> None) ->
  let r := build_context ext_map fs scan changes in
  let r' := build_context ext_map fs' scan changes' in
  Permutation (cr_ctx r) (cr_ctx r') /\ Permutation (cr_errs r) (cr_errs r') /\ cr_panic r = cr_panic r'.
Proof. exact build_context_perm. Qed.
Print Assumptions C20_context_any_order.

(* End to end on the model of one whole run (diff parsing, context assembly, detection, validation, exit status): permuting the files leaves diagnostics, errors and exit status unchanged. *)
Theorem C20_run_walk_order : forall c c' ch,
  rc_diff c = rc_diff c' -> rc_scan c = rc_scan c' -> rc_ext c = rc_ext c' ->
  rc_enabled c = rc_enabled c' -> rc_disabled c = rc_disabled c' ->
  rc_tables c = rc_tables c' -> rc_cdiff c = rc_cdiff c' ->
  Permutation (rc_files c) (rc_files c') -> NoDup (map rf_path (rc_files c)) ->
  model_changes c = Ok ch -> NoDup (map fst ch) ->
  (forall p l, In (p, l) ch -> find_file p (rc_files c) <> None) ->
  Permutation (vr_diags (model_run c)) (vr_diags (model_run c')) /\
  Permutation (vr_errs (model_run c)) (vr_errs (model_run c')) /\
  exit_code (model_run c) = exit_code (model_run c').
Proof. exact model_run_file_order. Qed.
Print Assumptions C20_run_walk_order.

(* End to end with the diff's file sections permuted as well. *)
Theorem C20_run_walk_and_section_order : forall c c' d d' pfs pfs',
  rc_scan c = rc_scan c' -> rc_ext c = rc_ext c' ->
  rc_enabled c = rc_enabled c' -> rc_disabled c = rc_disabled c' ->
  rc_tables c = rc_tables c' -> rc_cdiff c = rc_cdiff c' ->
  Permutation (rc_files c) (rc_files c') -> NoDup (map rf_path (rc_files c)) ->
  rc_diff c = Some d -> rc_diff c' = Some d' ->
  parse_patch d = Ok pfs -> parse_patch d' = Ok pfs' -> Permutation pfs pfs' ->
  NoDup (map target_path (live pfs)) ->
  (forall f, In f (live pfs) -> find_file (target_path f) (rc_files c) <> None) ->
  Permutation (vr_diags (model_run c)) (vr_diags (model_run c')) /\
  Permutation (vr_errs (model_run c)) (vr_errs (model_run c')) /\
  exit_code (model_run c) = exit_code (model_run c').
Proof. exact model_run_walk_and_section_order. Qed.
Print Assumptions C20_run_walk_and_section_order.

(* Through main: permuting the files leaves diagnostics and errors (as multisets), the panic flag and the process exit status unchanged. *)
Theorem C20_process_walk_order : forall a p ms ms' tb cd,
  plan_of a = Ok p -> ca_list a = false ->
  Permutation ms ms' -> NoDup (map (fun m => rf_path (mf_file m)) ms) ->
  (forall ch, model_changes (main_case a p ms tb cd) = Ok ch ->
     NoDup (map fst ch) /\
     (forall q l, In (q, l) ch -> exists m, In m ms /\ rf_path (mf_file m) = q)) ->
  exists v v', main_model a ms tb cd = MRun v /\ main_model a ms' tb cd = MRun v' /\
    Permutation (vr_diags v) (vr_diags v') /\ Permutation (vr_errs v) (vr_errs v') /\
    vr_panic v = vr_panic v' /\
    main_exit (main_model a ms tb cd) = main_exit (main_model a ms' tb cd).
Proof. exact main_run_file_order. Qed.
Print Assumptions C20_process_walk_order.

(* The same for the list subcommand. *)
Theorem C20_process_list_walk_order : forall a p ms ms' tb cd,
  plan_of a = Ok p -> ca_list a = true ->
  Permutation ms ms' -> NoDup (map (fun m => rf_path (mf_file m)) ms) ->
  (forall ch, model_changes (main_case a p ms tb cd) = Ok ch ->
     NoDup (map fst ch) /\
     (forall q l, In (q, l) ch -> exists m, In m ms /\ rf_path (mf_file m) = q)) ->
  exists cr cr', main_model a ms tb cd = MList cr /\ main_model a ms' tb cd = MList cr' /\
    Permutation (cr_ctx cr) (cr_ctx cr') /\ Permutation (cr_errs cr) (cr_errs cr') /\
    cr_panic cr = cr_panic cr' /\
    main_exit (main_model a ms tb cd) = main_exit (main_model a ms' tb cd).
Proof. exact main_list_file_order. Qed.
Print Assumptions C20_process_list_walk_order.

(* C20 - Same input, same verdict: runs are deterministic and location-independent (the bookkeeping under every order the model can express; the OS scheduler and hash seeds are exercised, not modelled).
   Property theorems only; proofs are in coq/proofs. *)
From BW Require Import Merge.
From BWP Require Import TextFacts Keys_proofs C01_proofs Run_proofs Merge_proofs.
From Coq Require Import Permutation.

(* Permuting the files of the context and the blocks inside each file (walk order, hash-map iteration order) yields the same exit status and the same diagnostics and errors up to permutation. *)
Theorem C20_files_and_blocks_any_order : forall o en dis ctx ctx', ctx_reorder ctx ctx' ->
  let r := run_validators o ctx (detected_validators en dis ctx) in
  let r' := run_validators o ctx' (detected_validators en dis ctx') in
  Permutation (vr_diags r) (vr_diags r') /\ Permutation (vr_errs r) (vr_errs r') /\
  exit_code r = exit_code r'.
Proof. exact whole_run_reorder. Qed.
Print Assumptions C20_files_and_blocks_any_order.

(* Permuting the order in which validators run / complete does the same. *)
Theorem C20_validators_any_order : forall o ctx vs vs', Permutation vs vs' ->
  Permutation (vr_diags (run_validators o ctx vs)) (vr_diags (run_validators o ctx vs')) /\
  Permutation (vr_errs (run_validators o ctx vs)) (vr_errs (run_validators o ctx vs')) /\
  exit_code (run_validators o ctx vs) = exit_code (run_validators o ctx vs').
Proof. exact run_validators_perm. Qed.
Print Assumptions C20_validators_any_order.

(* The set of detected validators does not depend on the order either. *)
Theorem C20_detection_any_order : forall en dis ctx ctx', ctx_reorder ctx ctx' ->
  Permutation (detected_validators en dis ctx) (detected_validators en dis ctx').
Proof. exact detected_reorder. Qed.
Print Assumptions C20_detection_any_order.

Theorem C20_merge_any_order : forall a a', Permutation a a' ->
  Permutation (flatten (merge_all a)) (flatten (merge_all a')) /\
  has_error_severity (merge_all a) = has_error_severity (merge_all a').
Proof. exact merge_all_perm. Qed.
Print Assumptions C20_merge_any_order.

(* The one cross-block rule depends only on the set of modified named blocks. *)
Theorem C20_affects_set_only nm1 nm2 path bc :
  (forall x, In x nm1 <-> In x nm2) -> affects_block nm1 path bc = affects_block nm2 path bc.
Proof. exact (affects_block_set_ext nm1 nm2 path bc). Qed.
Print Assumptions C20_affects_set_only.

(* C01_proofs.v - drift detection: composition of the line-change lemmas with
   the selection arithmetic, and the affects rule. *)
From BW Require Import Select Run.
From BWP Require Import TextFacts Select_proofs Diff_proofs Keys_proofs.
From Coq Require Import ZifyBool ZifyN ZifyNat.

Arguments N.add : simpl never.
Arguments N.sub : simpl never.
Arguments N.eqb : simpl never.
Arguments N.ltb : simpl never.
Arguments N.leb : simpl never.

(* a line number is far from a block when it lies before both its start tag and
   its content, or after both *)
Definition far_line (b : block) (x : N) : Prop :=
  (x < fst (b_ts b) /\ x < fst (b_cs b)) \/ (fst (b_te b) < x /\ fst (b_ce b) < x).

(* completeness: an added / edited line strictly between the tag comments marks the block *)
Theorem complete_added cdiff hs h l lcs b :
  hunks_changes cdiff hs [] false [] = Some lcs ->
  In h hs -> In l (h_lines h) -> dl_kind l = KAdd ->
  fst (b_cs b) < dl_tgt l -> dl_tgt l < fst (b_ce b) ->
  (forall lc rs, In lc lcs -> lc_line lc = dl_tgt l -> lc_ranges lc = Some rs ->
                 existsb (fun r => 0 <? snd r) rs = true) ->
  content_modified b lcs = true.
Proof.
  intros H Hh Hl Hk Hlo Hhi Hvis.
  destruct (added_line_yields_change cdiff hs h l lcs H Hh Hl Hk) as (lc & Hin & Hline).
  unfold content_modified. apply existsb_exists. exists lc. split; [exact Hin|].
  destruct (lc_ranges lc) as [rs|] eqn:R.
  - rewrite (content_hit_interior b lc rs R) by lia. apply (Hvis lc rs Hin Hline R).
  - rewrite (content_hit_whole_line b lc R). lia.
Qed.

(* soundness: if every added line's new number and every removed line's
   recorded (old-file) number is far from the block, the block is neither
   selected nor marked - whatever else the diff contains *)
Theorem sound_far cdiff hs lcs b :
  hunks_changes cdiff hs [] false [] = Some lcs ->
  (forall h l, In h hs -> In l (h_lines h) ->
     (dl_kind l = KAdd -> far_line b (dl_tgt l)) /\ (dl_kind l = KDel -> far_line b (dl_src l))) ->
  tag_modified b lcs = false /\ content_modified b lcs = false.
Proof.
  intros H Hfar. apply far_not_selected. intros lc Hin.
  destruct (changes_sound cdiff hs lcs lc H Hin) as (h & l & Hh & Hl & [[Hk Hline]|[Hk [Hline _]]]).
  - destruct (Hfar h l Hh Hl) as [Ha _]. specialize (Ha Hk). unfold far_line in Ha. rewrite Hline. exact Ha.
  - destruct (Hfar h l Hh Hl) as [_ Hd]. specialize (Hd Hk). unfold far_line in Hd. rewrite Hline. exact Hd.
Qed.

(* a pure deletion followed by a context line is recorded at the OLD-file line
   number of its first removed line; when that number lies in the block's
   content lines the block is marked *)
Theorem deletion_marks (d : dline) b lcs :
  In {| lc_line := dl_src d; lc_ranges := None |} lcs ->
  fst (b_cs b) <= dl_src d -> dl_src d <= fst (b_ce b) ->
  content_modified b lcs = true.
Proof.
  intros Hin Hlo Hhi. unfold content_modified. apply existsb_exists.
  exists {| lc_line := dl_src d; lc_ranges := None |}. split; [exact Hin|].
  rewrite content_hit_whole_line by reflexivity. cbn [lc_line]. lia.
Qed.

(* ---------- affects ---------- *)
Lemma named_modified_spec ctx f n :
  In (f, n) (named_modified ctx) <->
  exists fc bc, In fc ctx /\ In bc (fc_blocks fc) /\ bc_contmod bc = true /\ fc_path fc = f /\
                get_attr (T "name") (b_attrs (bc_block bc)) = Some n.
Proof.
  unfold named_modified. rewrite in_flat_map. split.
  - intros (fc & Hfc & Hin). apply in_flat_map in Hin. destruct Hin as (bc & Hbc & Hin).
    destruct (bc_contmod bc) eqn:Hm; [|destruct Hin].
    destruct (get_attr (T "name") (b_attrs (bc_block bc))) as [n'|] eqn:Hn; [|destruct Hin].
    destruct Hin as [Hin|[]]. inversion Hin; subst. exists fc, bc. auto.
  - intros (fc & bc & Hfc & Hbc & Hm & Hp & Hn). exists fc. split; [exact Hfc|].
    apply in_flat_map. exists bc. split; [exact Hbc|]. rewrite Hm, Hn, Hp. left; reflexivity.
Qed.

Lemma mem_pair_In p l : mem_pair p l = true <-> In p l.
Proof.
  unfold mem_pair. rewrite existsb_exists. split.
  - intros (q & Hq & He). apply andb_true_iff in He. destruct He as [H1 H2].
    apply str_eqb_eq in H1. apply str_eqb_eq in H2. destruct p, q; cbn in *; subst; exact Hq.
  - intros H. exists p. split; [exact H|]. rewrite !str_eqb_refl. reflexivity.
Qed.

(* the rule only looks at the SET of modified named blocks *)
Lemma mem_pair_set_ext p l1 l2 : (forall x, In x l1 <-> In x l2) -> mem_pair p l1 = mem_pair p l2.
Proof.
  intros H. destruct (mem_pair p l1) eqn:E1, (mem_pair p l2) eqn:E2; try reflexivity.
  - apply mem_pair_In, H, mem_pair_In in E1. congruence.
  - apply mem_pair_In, H, mem_pair_In in E2. congruence.
Qed.

Definition resolve_ref (path : str) (r : option str * str) : str * str :=
  (match fst r with Some f => f | None => path end, snd r).

(* exactly one violation per referenced (file, name) that has no modified block
   of that name, in reference order; none for an unmodified block *)
Theorem affects_block_exact nm path bc v refs sev :
  bc_contmod bc = true ->
  get_attr (T "affects") (b_attrs (bc_block bc)) = Some v ->
  parse_affects_attribute v = Ok refs ->
  sev_of (b_attrs (bc_block bc)) = Ok sev ->
  affects_block nm path bc =
    Ok (map (fun r => tag_diag (bc_block bc) V_AFFECTS sev [fst r; snd r])
            (filter (fun r => negb (mem_pair r nm)) (map (resolve_ref path) refs))).
Proof.
  intros Hm Ha Hp Hs. unfold affects_block. rewrite Hm, Ha, Hp. cbn [bind].
  fold (resolve_ref path).
  change (map (fun r : option str * str => (match fst r with Some f => f | None => path end, snd r)) refs)
    with (map (resolve_ref path) refs).
  destruct (filter (fun r => negb (mem_pair r nm)) (map (resolve_ref path) refs)) eqn:E; [reflexivity|].
  rewrite Hs. reflexivity.
Qed.

Theorem affects_block_unmodified nm path bc :
  bc_contmod bc = false -> affects_block nm path bc = Ok [].
Proof. intros H. unfold affects_block. rewrite H. reflexivity. Qed.

Theorem affects_block_set_ext nm1 nm2 path bc :
  (forall x, In x nm1 <-> In x nm2) -> affects_block nm1 path bc = affects_block nm2 path bc.
Proof.
  intros H. unfold affects_block. destruct (bc_contmod bc); [|reflexivity].
  destruct (get_attr _ _); [|reflexivity]. destruct (parse_affects_attribute s); try reflexivity.
  cbn [bind].
  rewrite (filter_ext (fun r => negb (mem_pair r nm1)) (fun r => negb (mem_pair r nm2))); [reflexivity|].
  intros r. rewrite (mem_pair_set_ext r nm1 nm2 H). reflexivity.
Qed.

(* a reference without a colon on a modified block stops the run *)
Theorem affects_bad_reference nm path bc v :
  bc_contmod bc = true ->
  get_attr (T "affects") (b_attrs (bc_block bc)) = Some v ->
  (exists r, In r (split_on 44 v) /\ split_once 58 (trim r) = None) ->
  affects_block nm path bc = Err E_AFFECTS.
Proof.
  intros Hm Ha (r & Hin & Hr). unfold affects_block. rewrite Hm, Ha.
  unfold parse_affects_attribute.
  assert (Hp : parse_affects (split_on 44 v) = Err E_AFFECTS).
  { induction (split_on 44 v) as [|x xs IH]; [destruct Hin|]. cbn [parse_affects].
    destruct Hin as [->|Hin].
    - unfold parse_affects_ref. rewrite Hr. reflexivity.
    - unfold parse_affects_ref at 1. destruct (split_once 58 (trim x)) as [[f n]|]; [|reflexivity].
      cbn [bind]. rewrite (IH Hin). reflexivity. }
  rewrite Hp. reflexivity.
Qed.

(* Comment_proofs.v - Part D: the comment normalisers preserve the byte shape of
   the text (number of bytes, and which bytes are newlines), so byte offsets in
   the normalised text designate the same source positions as in the raw text. *)
From BW Require Import SpecBlocks.
From BWP Require Import TextFacts.
From Coq Require Import ZifyBool ZifyN ZifyNat Permutation Sorted.
Arguments N.add : simpl never. Arguments N.sub : simpl never. Arguments N.mul : simpl never.
Arguments N.eqb : simpl never. Arguments N.ltb : simpl never. Arguments N.leb : simpl never.

Lemma inj_res {A} (a b : A) : Ok a = Ok b -> a = b.
Proof. congruence. Qed.
Lemma inj_opt {A} (a b : A) : Some a = Some b -> a = b.
Proof. congruence. Qed.

(* ---------- byte_shape ---------- *)
Lemma byte_shape_nil : byte_shape [] = [].
Proof. reflexivity. Qed.

Lemma byte_shape_cons c s :
  byte_shape (c :: s) = repeat (c =? 10) (N.to_nat (u8len c)) ++ byte_shape s.
Proof. reflexivity. Qed.

Lemma byte_shape_app a b : byte_shape (a ++ b) = byte_shape a ++ byte_shape b.
Proof. unfold byte_shape. rewrite map_app, concat_app. reflexivity. Qed.

Lemma byte_shape_concat ls : byte_shape (concat ls) = concat (map byte_shape ls).
Proof.
  induction ls as [|l ls IH]; cbn [concat map]; [reflexivity|].
  rewrite byte_shape_app, IH. reflexivity.
Qed.

Lemma u8len_pos c : 1 <= u8len c.
Proof. unfold u8len. repeat destruct (_ <? _); lia. Qed.

Lemma u8len_ascii c : c < 128 -> u8len c = 1.
Proof. intros H. unfold u8len. destruct (c <? 128) eqn:E; [reflexivity|lia]. Qed.

(* a one-byte character that is not a newline *)
Definition plain1 (c : char) : Prop := u8len c = 1 /\ c <> 10.

Lemma byte_shape_plain1 c s : plain1 c -> byte_shape (c :: s) = false :: byte_shape s.
Proof.
  intros [H1 H2]. rewrite byte_shape_cons, H1.
  replace (c =? 10) with false by lia. reflexivity.
Qed.

Lemma byte_shape_length s : length (byte_shape s) = N.to_nat (blen s).
Proof.
  induction s as [|c s IH]; [reflexivity|].
  rewrite byte_shape_cons, app_length, repeat_length, IH. cbn [blen]. lia.
Qed.

(* ---------- search functions split their argument ---------- *)
Lemma starts_with_split p : forall s, starts_with p s = true -> s = p ++ skipn (length p) s.
Proof.
  induction p as [|x p IH]; intros s H; [reflexivity|].
  destruct s as [|y s]; cbn [starts_with] in H; [discriminate|].
  apply andb_true_iff in H. destruct H as [Hxy H]. apply N.eqb_eq in Hxy. subst y.
  cbn [length skipn app]. f_equal. apply IH. exact H.
Qed.

Lemma starts_with_shape p s :
  starts_with p s = true -> byte_shape s = byte_shape p ++ byte_shape (skipn (length p) s).
Proof.
  intros H. rewrite (starts_with_split p s H) at 1. apply byte_shape_app.
Qed.

Lemma find_sub_split p : forall s pre rest,
  find_sub p s = Some (pre, rest) -> s = pre ++ rest /\ starts_with p rest = true.
Proof.
  induction s as [|c s IH]; intros pre rest H.
  - cbn [find_sub] in H. destruct (starts_with p []) eqn:E; [|discriminate].
    inversion H; subst. split; [reflexivity|exact E].
  - cbn [find_sub] in H. destruct (starts_with p (c :: s)) eqn:E.
    + inversion H; subst. split; [reflexivity|exact E].
    + destruct (find_sub p s) as [[pre' rest']|] eqn:F; [|discriminate].
      inversion H; subst. destruct (IH _ _ eq_refl) as [-> Hs].
      split; [reflexivity|exact Hs].
Qed.

Lemma rfind_sub_split p : forall s pre rest,
  rfind_sub p s = Some (pre, rest) -> s = pre ++ rest /\ starts_with p rest = true.
Proof.
  induction s as [|c s IH]; intros pre rest H.
  - cbn [rfind_sub] in H. destruct (starts_with p []) eqn:E; [|discriminate].
    inversion H; subst. split; [reflexivity|exact E].
  - cbn [rfind_sub] in H. destruct (rfind_sub p s) as [[pre' rest']|] eqn:F.
    + inversion H; subst. destruct (IH _ _ eq_refl) as [-> Hs].
      split; [reflexivity|exact Hs].
    + destruct (starts_with p (c :: s)) eqn:E; [|discriminate].
      inversion H; subst. split; [reflexivity|exact E].
Qed.

Lemma find_char_split p : forall s pre rest,
  find_char p s = Some (pre, rest) ->
  s = pre ++ rest /\ Forall (fun c => p c = false) pre /\
  exists o r, rest = o :: r /\ p o = true.
Proof.
  induction s as [|c s IH]; intros pre rest H; cbn [find_char] in H; [discriminate|].
  destruct (p c) eqn:E.
  - inversion H; subst. split; [reflexivity|]. split; [constructor|eauto].
  - destruct (find_char p s) as [[pre' rest']|] eqn:F; [|discriminate].
    inversion H; subst. destruct (IH _ _ eq_refl) as (-> & Hpre & Hs).
    split; [reflexivity|]. split; [constructor; assumption|exact Hs].
Qed.

(* ---------- D1: replace1 ---------- *)
Lemma replace1_shape : forall p r s,
  byte_shape p = byte_shape r -> byte_shape (replace1 p r s) = byte_shape s.
Proof.
  intros p r s Hpr. unfold replace1.
  destruct (find_sub p s) as [[pre rest]|] eqn:F; [|reflexivity].
  apply find_sub_split in F. destruct F as [-> Hs].
  rewrite !byte_shape_app, <- Hpr, <- starts_with_shape by exact Hs. reflexivity.
Qed.

Lemma hash_shape s : byte_shape (replace1 (T "#") (T " ") s) = byte_shape s.
Proof. apply replace1_shape. reflexivity. Qed.

Lemma line2_shape s : byte_shape (line2 s) = byte_shape s.
Proof. apply replace1_shape. reflexivity. Qed.

Lemma slash3_shape s : byte_shape (replace1 (T "///") (T "   ") s) = byte_shape s.
Proof. apply replace1_shape. reflexivity. Qed.

Lemma slash2bang_shape s : byte_shape (replace1 (T "//!") (T "   ") s) = byte_shape s.
Proof. apply replace1_shape. reflexivity. Qed.

Lemma dash2_shape s : byte_shape (replace1 (T "--") (T "  ") s) = byte_shape s.
Proof. apply replace1_shape. reflexivity. Qed.

(* ---------- D2: deco, c_multiline ---------- *)
Lemma take_drop_while p (l : str) : take_while p l ++ drop_while p l = l.
Proof.
  induction l as [|c l IH]; cbn [take_while drop_while]; [reflexivity|].
  destruct (p c); cbn [app]; [rewrite IH|]; reflexivity.
Qed.

Lemma deco_line_shape l : byte_shape (deco_line l) = byte_shape l.
Proof.
  unfold deco_line. destruct (drop_while is_ws l) as [|c r] eqn:E; [reflexivity|].
  destruct (c =? 42) eqn:Ec.
  - apply N.eqb_eq in Ec. subst c.
    rewrite <- (take_drop_while is_ws l) at 2. rewrite E, !byte_shape_app. reflexivity.
  - (* the match on the literal 42 falls through *)
    destruct c as [|q]; [reflexivity|].
    repeat (try reflexivity; destruct q as [q|q|]; try reflexivity); exfalso; lia.
Qed.

Lemma split_incl_nl_concat s : concat (split_incl_nl s) = s.
Proof.
  induction s as [|c s IH]; cbn [split_incl_nl]; [reflexivity|].
  destruct (c =? 10) eqn:E.
  - apply N.eqb_eq in E. subst c. cbn [concat app]. rewrite IH. reflexivity.
  - destruct (split_incl_nl s) as [|l ls] eqn:F.
    + cbn [concat] in IH. subst s. reflexivity.
    + cbn [concat app] in *. rewrite IH. reflexivity.
Qed.

Lemma deco_shape : forall s, byte_shape (deco s) = byte_shape s.
Proof.
  intros s. unfold deco. rewrite byte_shape_concat, map_map.
  rewrite (map_ext _ byte_shape) by (intros; apply deco_line_shape).
  rewrite <- byte_shape_concat, split_incl_nl_concat. reflexivity.
Qed.

Lemma c_multiline_shape : forall s, byte_shape (c_multiline s) = byte_shape s.
Proof.
  intros s. unfold c_multiline.
  destruct (find_sub (T "/*") s) as [[pre rest]|] eqn:F; [|reflexivity].
  apply find_sub_split in F. destruct F as [-> Hs].
  rewrite (byte_shape_app pre rest), (starts_with_shape _ _ Hs).
  change (length (T "/*")) with 2%nat.
  destruct (rfind_sub (T "*/") (skipn 2 rest)) as [[content close]|] eqn:R.
  - apply rfind_sub_split in R. destruct R as [Eb Hc].
    rewrite Eb, !byte_shape_app, deco_shape, (starts_with_shape _ _ Hc). reflexivity.
  - rewrite !byte_shape_app, deco_shape. reflexivity.
Qed.

(* ---------- D3: xml_comment, md_ref_comment ---------- *)
Lemma xml_comment_shape : forall s t, xml_comment s = Ok t -> byte_shape t = byte_shape s.
Proof.
  intros s t H. unfold xml_comment in H.
  destruct (find_sub (T "<!--") s) as [[pre rest]|] eqn:F; [|discriminate].
  destruct (rfind_sub (T "-->") s) as [[upto close]|] eqn:R; [|discriminate].
  destruct (blen upto <? blen pre + 4); [discriminate|].
  destruct (rfind_sub (T "-->") (skipn 4 rest)) as [[mid close']|] eqn:R'; [|discriminate].
  apply inj_res in H; subst t.
  apply find_sub_split in F. destruct F as [-> Hs].
  apply rfind_sub_split in R'. destruct R' as [Eb Hc].
  rewrite (byte_shape_app pre rest), (starts_with_shape _ _ Hs).
  change (length (T "<!--")) with 4%nat.
  rewrite Eb, !byte_shape_app, (starts_with_shape _ _ Hc). reflexivity.
Qed.

Lemma spaces_shape n : byte_shape (spaces n) = repeat false (N.to_nat n).
Proof.
  unfold spaces. generalize (N.to_nat n) as k.
  induction k as [|k IH]; [reflexivity|]. cbn [repeat]. rewrite byte_shape_cons, IH. reflexivity.
Qed.

(* blanking keeps line breaks, hence the whole byte shape *)
Lemma blank_all_shape s : byte_shape (blank_all s) = byte_shape s.
Proof.
  induction s as [|c s IH]; [reflexivity|].
  unfold blank_all in *. cbn [map concat]. rewrite byte_shape_app, IH, (byte_shape_cons c s).
  f_equal. destruct (c =? 10) eqn:E.
  - apply N.eqb_eq in E. subst c. reflexivity.
  - apply spaces_shape.
Qed.

Lemma blank_all_blen s : blen (blank_all s) = blen s.
Proof.
  pose proof (f_equal (@length bool) (blank_all_shape s)) as H.
  rewrite !byte_shape_length in H. lia.
Qed.

(* Before repair F11 the gap between "[//]:" and the title delimiter was blanked
   including its line breaks, and this lemma was false (witness: "[//]: #\n(x)").
   With line breaks kept it holds for every reference comment. *)
Lemma md_ref_comment_shape : forall s t,
  md_ref_comment s = Some t -> byte_shape t = byte_shape s.
Proof.
  intros s t H. unfold md_ref_comment in H.
  destruct (find_sub (T "[//]:") s) as [[pre rest]|] eqn:F; [|discriminate].
  destruct (find_char is_md_open (skipn 5 rest)) as [[skipped ob]|] eqn:C; [|discriminate].
  destruct ob as [|o body]; [discriminate|].
  remember (if o =? 40 then 41 else o) as cl eqn:Ecl in *.
  destruct (rfind_sub [cl] body) as [[content tail]|] eqn:R; [|discriminate].
  apply inj_opt in H; subst t.
  apply find_sub_split in F. destruct F as [-> Hs].
  apply find_char_split in C. destruct C as (Ea & _ & o' & r' & Eo & Ho). inversion Eo; subst o' r'.
  apply rfind_sub_split in R. destruct R as [Eb Hc].
  assert (Po : plain1 o).
  { unfold is_md_open in Ho. split; [apply u8len_ascii|]; lia. }
  assert (Pc : plain1 cl).
  { subst cl. destruct (o =? 40); [split; [reflexivity|lia]|exact Po]. }
  rewrite (byte_shape_app pre rest), (starts_with_shape _ _ Hs).
  change (length (T "[//]:")) with 5%nat.
  rewrite Ea, !byte_shape_app, blank_all_shape.
  rewrite (byte_shape_plain1 o body Po), Eb, byte_shape_app.
  rewrite (starts_with_shape _ _ Hc). cbn [length].
  pose proof (byte_shape_plain1 cl [] Pc) as Hcl. unfold char in Hcl.
  rewrite Hcl. reflexivity.
Qed.

(* ---------- D4: normalise ---------- *)
Theorem normalise_shape : forall k s t,
  normalise k s = Ok (Some t) -> byte_shape t = byte_shape s.
Proof.
  intros k s t H. unfold normalise in H.
  repeat match type of H with
  | (if ?k =? ?K then _ else _) = _ => destruct (k =? K) eqn:?
  | (if starts_with ?p ?s then _ else _) = _ => destruct (starts_with p s)
  | Ok (Some (if starts_with ?p ?s then _ else _)) = _ => destruct (starts_with p s)
  end;
  try (inversion H; subst t; clear H;
       first [ apply hash_shape | apply line2_shape | apply slash3_shape
             | apply slash2bang_shape | apply dash2_shape | apply c_multiline_shape
             | reflexivity ]).
  - destruct (xml_comment s) as [t'| |] eqn:X; inversion H; subst t'.
    apply xml_comment_shape. exact X.
  - inversion H as [H']. apply md_ref_comment_shape. exact H'.
Qed.

(* byte length is preserved by every normaliser *)
Lemma shape_blen a b : byte_shape a = byte_shape b -> blen a = blen b.
Proof.
  intros H. apply (f_equal (@length bool)) in H. rewrite !byte_shape_length in H. lia.
Qed.

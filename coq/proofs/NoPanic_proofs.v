(* NoPanic_proofs.v - the model never produces `Panic` (the Rust never panics)
   outside the explicitly characterised sites:
     - XML-style comment normaliser on a node text that is not "<!-- ... -->"
       (sites 20, 21, 22), characterised exactly in [xml_comment_panics_iff];
     - slicing with a range that is not a valid slice of the file
       (site 40 in mk_comment, site 1 in content_of), kept as hypotheses;
     - a "+++ " header before any "--- " header in a diff (site 50). *)
From BW Require Import SpecTag SpecBlocks Run Unidiff.
From BWP Require Import TextFacts Tag_proofs Pos_proofs Comment_proofs.
From Coq Require Import ZifyBool ZifyN ZifyNat.
Arguments N.add : simpl never. Arguments N.sub : simpl never. Arguments N.mul : simpl never.
Arguments N.eqb : simpl never. Arguments N.ltb : simpl never. Arguments N.leb : simpl never.

(* ====================================================================== *)
(* A1. offsets produced by the scanner                                    *)
(* ====================================================================== *)

Lemma print_start_shape ps wend : exists mid, print_start ps wend = C_LT :: mid ++ [C_GT].
Proof.
  unfold print_start.
  change (T "<block") with (C_LT :: T "block"). cbn [app].
  exists (T "block" ++ print_attrs ps ++ wend).
  rewrite <- !app_assoc. reflexivity.
Qed.

Lemma print_end_shape w1 w2 w3 : exists mid, print_end w1 w2 w3 = C_LT :: mid ++ [C_GT].
Proof.
  unfold print_end. cbn [app].
  exists (w1 ++ [C_SL] ++ w2 ++ T "block" ++ w3).
  rewrite <- !app_assoc. reflexivity.
Qed.

Lemma scan_tag_offsets : forall s off t rest off',
  scan_tag s off = Some (t, rest, off') ->
  exists skipped tagtext,
    s = skipped ++ tagtext ++ rest /\
    off' = off + blen skipped + blen tagtext /\
    match t with
    | TStart lo hi _ => lo = off + blen skipped /\ hi = off' /\
                        (exists mid, tagtext = C_LT :: mid ++ [C_GT])
    | TEnd lo => lo = off + blen skipped /\ (exists mid, tagtext = C_LT :: mid ++ [C_GT])
    end.
Proof.
  induction s as [|c s IH]; intros off t rest off' H; [discriminate|].
  cbn [scan_tag] in H.
  destruct (c =? C_LT) eqn:Ec.
  - destruct (parse_start_tag (c :: s)) as [[a rest0]|] eqn:Es.
    + inversion H; subst t rest0 off'. clear H.
      destruct (start_sound _ _ _ Es) as (ps & wend & _ & _ & E & _).
      exists [], (print_start ps wend).
      split; [exact E|].
      change (u8len c + blen s) with (blen (c :: s)).
      rewrite E, Tag_proofs.blen_app. cbn [blen].
      split; [lia|]. split; [lia|]. split; [lia|]. apply print_start_shape.
    + destruct (parse_end_tag (c :: s)) as [rest0|] eqn:Ee.
      * inversion H; subst t rest0 off'. clear H.
        destruct (end_sound _ _ Ee) as (w1 & w2 & w3 & _ & _ & _ & E).
        exists [], (print_end w1 w2 w3).
        split; [exact E|].
        change (u8len c + blen s) with (blen (c :: s)).
      rewrite E, Tag_proofs.blen_app. cbn [blen].
        split; [lia|]. split; [lia|]. apply print_end_shape.
      * destruct (IH _ _ _ _ H) as (sk & tt & E & Eo & Ht).
        apply N.eqb_eq in Ec. subst c.
        exists (C_LT :: sk), tt. cbn [app blen]. change (u8len C_LT) with 1.
        split; [rewrite E; reflexivity|].
        split; [lia|].
        destruct t as [lo hi a|lo].
        -- destruct Ht as (Hlo & Hhi & Hm). split; [lia|]. split; [exact Hhi|exact Hm].
        -- destruct Ht as (Hlo & Hm). split; [lia|exact Hm].
  - destruct (IH _ _ _ _ H) as (sk & tt & E & Eo & Ht).
    exists (c :: sk), tt. cbn [app blen].
    split; [rewrite E; reflexivity|].
    split; [lia|].
    destruct t as [lo hi a|lo].
    + destruct Ht as (Hlo & Hhi & Hm). split; [lia|]. split; [exact Hhi|exact Hm].
    + destruct Ht as (Hlo & Hm). split; [lia|exact Hm].
Qed.

(* [lo, hi) is the byte range of a piece "<" mid ">" of the text *)
Definition tag_at (text : str) (lo hi : N) : Prop :=
  exists pre mid post,
    text = pre ++ C_LT :: mid ++ [C_GT] ++ post /\
    blen pre = lo /\ blen pre + 1 + blen mid + 1 = hi.

Lemma blen_lt_mid_gt mid : blen (C_LT :: mid ++ [C_GT]) = 1 + blen mid + 1.
Proof.
  cbn [blen]. rewrite Tag_proofs.blen_app. cbn [blen].
  change (u8len C_LT) with 1. change (u8len C_GT) with 1. lia.
Qed.

Lemma tags_from_offsets : forall fuel s off done lo hi a,
  blen done = off ->
  In (TStart lo hi a) (tags_from fuel s off) ->
  tag_at (done ++ s) lo hi.
Proof.
  induction fuel as [|f IH]; intros s off done lo hi a Hd Hin; cbn [tags_from] in Hin.
  - destruct Hin.
  - destruct (scan_tag s off) as [[[t rest] off']|] eqn:Es; [|destruct Hin].
    destruct (scan_tag_offsets _ _ _ _ _ Es) as (sk & tt & E & Eo & Ht).
    destruct Hin as [Hin|Hin].
    + subst t. destruct Ht as (Hlo & Hhi & (mid & Hm)).
      exists (done ++ sk), mid, rest.
      split; [|split].
      * rewrite E, Hm, <- !app_assoc. cbn [app]. rewrite <- !app_assoc. reflexivity.
      * rewrite Tag_proofs.blen_app. lia.
      * rewrite Tag_proofs.blen_app. rewrite Hm, blen_lt_mid_gt in Eo. lia.
    + specialize (IH rest off' (done ++ sk ++ tt) lo hi a).
      rewrite E. replace (done ++ sk ++ tt ++ rest) with ((done ++ sk ++ tt) ++ rest)
        by (rewrite <- !app_assoc; reflexivity).
      apply IH; [|exact Hin].
      rewrite !Tag_proofs.blen_app. lia.
Qed.

Theorem tags_of_offsets : forall text lo hi a,
  In (TStart lo hi a) (tags_of text) ->
  exists pre mid post,
    text = pre ++ C_LT :: mid ++ [C_GT] ++ post /\
    blen pre = lo /\ blen pre + 1 + blen mid + 1 = hi.
Proof.
  intros text lo hi a Hin. unfold tags_of in Hin.
  apply (tags_from_offsets _ _ _ [] lo hi a eq_refl Hin).
Qed.

(* ====================================================================== *)
(* A2. positions of tags never panic                                      *)
(* ====================================================================== *)

Lemma C_LT_plain : u8len C_LT = 1 /\ C_LT <> 10.
Proof. split; [reflexivity|discriminate]. Qed.
Lemma C_GT_plain : u8len C_GT = 1 /\ C_GT <> 10.
Proof. split; [reflexivity|discriminate]. Qed.

Lemma source_position_at_tag_lo c lo hi :
  tag_at (c_text c) lo hi -> exists p, source_position_at c lo = Ok p.
Proof.
  intros (pre & mid & post & Ht & Hlo & Hhi).
  eexists. eapply (source_position_at_exact c lo pre C_LT (mid ++ [C_GT] ++ post));
    [exact Ht|exact Hlo|apply C_LT_plain|apply C_LT_plain].
Qed.

Lemma source_position_at_tag_hi c lo hi :
  tag_at (c_text c) lo hi -> exists p, source_position_at c (hi - 1) = Ok p.
Proof.
  intros (pre & mid & post & Ht & Hlo & Hhi).
  eexists. eapply (source_position_at_exact c (hi - 1) (pre ++ C_LT :: mid) C_GT post);
    [|  |apply C_GT_plain|apply C_GT_plain].
  - rewrite Ht, <- app_assoc. reflexivity.
  - rewrite Tag_proofs.blen_app. cbn [blen]. change (u8len C_LT) with 1. lia.
Qed.

(* the local loop of ptags_of_comment over any tag list whose start tags are
   pieces "<" .. ">" of the comment text *)
Lemma ptags_go_ok ci c : forall ts,
  (forall lo hi a, In (TStart lo hi a) ts -> tag_at (c_text c) lo hi) ->
  exists r,
    (fix go (ts : list tag) : res (list ptag) :=
       match ts with
       | [] => Ok []
       | TStart lo hi a :: ts' =>
         let? ps := source_position_at c lo in
         let? pe := source_position_at c (hi - 1) in
         let? r := go ts' in
         Ok (PStart ci c a ps pe :: r)
       | TEnd lo :: ts' =>
         let? r := go ts' in
         Ok (PEnd ci c lo :: r)
       end) ts = Ok r.
Proof.
  induction ts as [|t ts IH]; intros H.
  - eexists; reflexivity.
  - destruct IH as [r Hr]; [intros lo hi a Hin; apply (H lo hi a); right; exact Hin|].
    destruct t as [lo hi a|lo].
    + assert (Ht : tag_at (c_text c) lo hi) by (apply (H lo hi a); left; reflexivity).
      destruct (source_position_at_tag_lo c lo hi Ht) as [p1 E1].
      destruct (source_position_at_tag_hi c lo hi Ht) as [p2 E2].
      rewrite E1, E2. cbn [bind]. rewrite Hr. cbn [bind]. eexists; reflexivity.
    + rewrite Hr. cbn [bind]. eexists; reflexivity.
Qed.

Theorem ptags_of_comment_no_panic : forall ci c, exists r, ptags_of_comment ci c = Ok r.
Proof.
  intros ci c. unfold ptags_of_comment. apply ptags_go_ok.
  intros lo hi a Hin. exact (tags_of_offsets _ _ _ _ Hin).
Qed.

Lemma ptags_from_no_panic : forall cs ci, exists r, ptags_from ci cs = Ok r.
Proof.
  induction cs as [|c cs IH]; intros ci; cbn [ptags_from].
  - eexists; reflexivity.
  - destruct (ptags_of_comment_no_panic ci c) as [a Ea].
    destruct (IH (S ci)) as [b Eb].
    rewrite Ea, Eb. cbn [bind]. eexists; reflexivity.
Qed.

Lemma pair_tags_no_panic : forall ts stack acc s, pair_tags ts stack acc <> Panic s.
Proof.
  induction ts as [|t ts IH]; intros stack acc s; cbn [pair_tags].
  - destruct stack; discriminate.
  - destruct t as [ci c a p1 p2|cj e lo].
    + apply IH.
    + destruct stack as [|[ci c a p1 p2|? ? ?] stack']; try discriminate. apply IH.
Qed.

Theorem parse_blocks_from_comments_no_panic : forall cs s,
  parse_blocks_from_comments cs <> Panic s.
Proof.
  intros cs s. unfold parse_blocks_from_comments.
  destruct (ptags_from_no_panic cs 0%nat) as [ts E]. rewrite E. cbn [bind].
  pose proof (pair_tags_no_panic ts [] []) as Hp.
  destruct (pair_tags ts [] []) as [bs|e|p]; cbn [bind]; try discriminate.
  exfalso. apply (Hp p). reflexivity.
Qed.

(* ====================================================================== *)
(* A3. normalisers                                                        *)
(* ====================================================================== *)

Theorem normalise_no_panic : forall k s site, k <> K_XML -> normalise k s <> Panic site.
Proof.
  intros k s site Hk. unfold normalise.
  repeat match goal with
  | |- (if ?k =? ?K then _ else _) <> _ => destruct (k =? K) eqn:?
  | |- (if starts_with ?p ?s then _ else _) <> _ => destruct (starts_with p s)
  end; try discriminate.
  exfalso. apply Hk. apply N.eqb_eq. assumption.
Qed.

(* --- search facts --- *)
Lemma starts_with_app p : forall x, starts_with p (p ++ x) = true.
Proof.
  induction p as [|c p IH]; intros x; cbn [starts_with app]; [reflexivity|].
  rewrite N.eqb_refl. apply IH.
Qed.

Lemma starts_with_length p : forall s, starts_with p s = true -> (length p <= length s)%nat.
Proof.
  induction p as [|x p IH]; intros s H; cbn [length]; [lia|].
  destruct s as [|y s]; cbn [starts_with] in H; [discriminate|].
  apply andb_true_iff in H. destruct H as [_ H]. apply IH in H. cbn [length]. lia.
Qed.

Lemma rfind_sub_short p : forall s, (length s < length p)%nat -> rfind_sub p s = None.
Proof.
  induction s as [|c s IH]; intros H; cbn [rfind_sub].
  - destruct (starts_with p []) eqn:E; [|reflexivity].
    apply starts_with_length in E. cbn [length] in *. lia.
  - rewrite IH by (cbn [length] in H; lia).
    destruct (starts_with p (c :: s)) eqn:E; [|reflexivity].
    apply starts_with_length in E. lia.
Qed.

(* a text that contains the pattern has a last occurrence *)
Lemma rfind_sub_some p : forall a b, starts_with p b = true ->
  exists pre rest, rfind_sub p (a ++ b) = Some (pre, rest).
Proof.
  intros a b Hb. induction a as [|c a IH]; cbn [app].
  - destruct b as [|c b]; cbn [rfind_sub].
    + rewrite Hb. eauto.
    + destruct (rfind_sub p b) as [[pre rest]|]; [eauto|]. rewrite Hb. eauto.
  - cbn [rfind_sub]. destruct IH as (pre & rest & ->). eauto.
Qed.

(* the last occurrence of a non-empty pattern in a text that ends with it *)
Lemma rfind_sub_suffix p : p <> [] -> forall a, rfind_sub p (a ++ p) = Some (a, p).
Proof.
  intros Hp. induction a as [|c a IH]; cbn [app].
  - destruct p as [|x p']; [congruence|]. cbn [rfind_sub].
    rewrite rfind_sub_short by (cbn [length]; lia).
    rewrite <- (app_nil_r (x :: p')) at 2. rewrite starts_with_app. reflexivity.
  - cbn [rfind_sub]. rewrite IH. reflexivity.
Qed.

(* two prefixes of one text: the one with fewer bytes is a prefix of the other *)
Lemma prefix_of_blen_le : forall p1 r1 p2 r2,
  p1 ++ r1 = p2 ++ r2 -> blen p1 <= blen p2 -> exists u, p2 = p1 ++ u.
Proof.
  induction p1 as [|c p1 IH]; intros r1 p2 r2 E Hl.
  - exists p2. reflexivity.
  - destruct p2 as [|c2 p2].
    + cbn [blen] in Hl. pose proof (u8len_pos c). lia.
    + cbn [app] in E. inversion E; subst c2.
      cbn [blen] in Hl.
      destruct (IH r1 p2 r2 H1 ltac:(lia)) as [u ->]. exists u. reflexivity.
Qed.

Lemma blen_T_xml_open : blen (T "<!--") = 4.
Proof. reflexivity. Qed.

(* the closing search in the interior cannot fail once the outer one succeeded
   at or after the end of the opener *)
Lemma xml_inner_rfind pre rest upto close :
  starts_with (T "<!--") rest = true -> starts_with (T "-->") close = true ->
  pre ++ rest = upto ++ close -> blen pre + 4 <= blen upto ->
  exists mid close', rfind_sub (T "-->") (skipn 4 rest) = Some (mid, close').
Proof.
  intros Hs Hc E Hl.
  pose proof (starts_with_split _ _ Hs) as Er. change (length (T "<!--")) with 4%nat in Er.
  assert (E' : (pre ++ T "<!--") ++ skipn 4 rest = upto ++ close).
  { rewrite <- app_assoc, <- Er. exact E. }
  destruct (prefix_of_blen_le _ _ _ _ E') as [u Hu].
  { rewrite Tag_proofs.blen_app, blen_T_xml_open. exact Hl. }
  rewrite Hu, <- !app_assoc in E'.
  apply app_inv_head in E'. apply app_inv_head in E'.
  rewrite E'. apply rfind_sub_some. exact Hc.
Qed.

Theorem xml_comment_panics_iff : forall s,
  (exists site, xml_comment s = Panic site) <->
  (find_sub (T "<!--") s = None \/ rfind_sub (T "-->") s = None \/
   exists pre rest upto close,
     find_sub (T "<!--") s = Some (pre, rest) /\
     rfind_sub (T "-->") s = Some (upto, close) /\
     blen upto < blen pre + 4).
Proof.
  intros s. unfold xml_comment. split.
  - intros [site H].
    destruct (find_sub (T "<!--") s) as [[pre rest]|] eqn:F; [|left; reflexivity].
    destruct (rfind_sub (T "-->") s) as [[upto close]|] eqn:R; [|right; left; reflexivity].
    right; right.
    destruct (blen upto <? blen pre + 4) eqn:L.
    + exists pre, rest, upto, close. repeat split. lia.
    + exfalso.
      apply find_sub_split in F. destruct F as [Es Hs].
      apply rfind_sub_split in R. destruct R as [Es' Hc].
      destruct (xml_inner_rfind pre rest upto close Hs Hc) as (mid & close' & R');
        [congruence|lia|].
      rewrite R' in H. discriminate.
  - intros [F|[R|(pre & rest & upto & close & F & R & L)]].
    + rewrite F. eexists; reflexivity.
    + rewrite R. destruct (find_sub (T "<!--") s) as [[pre rest]|]; eexists; reflexivity.
    + rewrite F, R. replace (blen upto <? blen pre + 4) with true by lia.
      eexists; reflexivity.
Qed.

(* the panic sites are unreachable on a text of the form "<!--" m "-->" *)
Theorem xml_comment_delimited : forall m,
  xml_comment (T "<!--" ++ m ++ T "-->") = Ok (T "    " ++ m ++ T "   ").
Proof.
  intros m. unfold xml_comment.
  assert (F : find_sub (T "<!--") (T "<!--" ++ m ++ T "-->") = Some ([], T "<!--" ++ m ++ T "-->")).
  { assert (Hs : starts_with (T "<!--") (T "<!--" ++ m ++ T "-->") = true) by apply starts_with_app.
    destruct (T "<!--" ++ m ++ T "-->"); cbn [find_sub]; rewrite Hs; reflexivity. }
  rewrite F.
  rewrite (app_assoc (T "<!--") m (T "-->")).
  rewrite rfind_sub_suffix by discriminate.
  rewrite Tag_proofs.blen_app, blen_T_xml_open. cbn [blen].
  replace (4 + blen m <? 0 + 4) with false by lia.
  rewrite <- app_assoc.
  change (skipn 4 (T "<!--" ++ m ++ T "-->")) with (m ++ T "-->").
  rewrite rfind_sub_suffix by discriminate.
  reflexivity.
Qed.

Corollary normalise_xml_delimited_no_panic : forall m site,
  normalise K_XML (T "<!--" ++ m ++ T "-->") <> Panic site.
Proof.
  intros m site. unfold normalise. change (K_XML =? K_HASH) with false.
  change (K_XML =? K_BASH) with false. change (K_XML =? K_C) with false.
  change (K_XML =? K_CLINE) with false. change (K_XML =? K_CBLOCK) with false.
  change (K_XML =? K_RUST_LINE) with false. change (K_XML =? K_PHP) with false.
  change (K_XML =? K_SQL_LINE) with false. change (K_XML =? K_CS) with false.
  change (K_XML =? K_XML) with true. cbv iota.
  rewrite xml_comment_delimited. discriminate.
Qed.

(* ====================================================================== *)
(* A5. validators                                                         *)
(* ====================================================================== *)

(* "never panics" *)
Definition np {A} (r : res A) : Prop := forall site, r <> Panic site.

Lemma np_ok {A} (a : A) : np (Ok a).
Proof. intros site; discriminate. Qed.
Lemma np_err {A} e : np (@Err A e).
Proof. intros site; discriminate. Qed.
Lemma np_bind {A B} (r : res A) (f : A -> res B) :
  np r -> (forall a, r = Ok a -> np (f a)) -> np (bind r f).
Proof.
  intros Hr Hf. destruct r as [a|e|p]; cbn [bind].
  - apply Hf. reflexivity.
  - apply np_err.
  - exfalso. apply (Hr p). reflexivity.
Qed.

Lemma sev_of_np a : np (sev_of a).
Proof.
  unfold sev_of. destruct (get_attr _ a); [|apply np_ok].
  repeat match goal with |- np (if ?b then _ else _) => destruct b end;
    first [apply np_ok|apply np_err].
Qed.

Lemma parse_affects_ref_np r : np (parse_affects_ref r).
Proof. unfold parse_affects_ref. destruct (split_once _ _) as [[f n]|]; [apply np_ok|apply np_err]. Qed.

Lemma parse_affects_np refs : np (parse_affects refs).
Proof.
  induction refs as [|r rs IH]; cbn [parse_affects]; [apply np_ok|].
  apply np_bind; [apply parse_affects_ref_np|]. intros x _.
  apply np_bind; [exact IH|]. intros xs _. apply np_ok.
Qed.

Lemma affects_block_np nm path bc : np (affects_block nm path bc).
Proof.
  unfold affects_block. destruct (bc_contmod bc); [|apply np_ok].
  destruct (get_attr _ _) as [v|]; [|apply np_ok].
  apply np_bind; [apply parse_affects_np|]. intros refs _.
  destruct (filter _ _); [apply np_ok|].
  apply np_bind; [apply sev_of_np|]. intros sev _. apply np_ok.
Qed.

Lemma regex_key_np o pat idx line : np (regex_key o pat idx line).
Proof.
  unfold regex_key. destruct (o_rx o pat line) as [[[[ms me] g]|]|];
    [|apply np_ok|apply np_err].
  destruct g as [[vs ve]|]; destruct (bslice _ _ _); first [apply np_ok|apply np_err].
Qed.

Lemma keys_rx_np o pat : forall ls idx, np (keys_rx o pat idx ls).
Proof.
  induction ls as [|l ls IH]; intros idx; cbn [keys_rx]; [apply np_ok|].
  apply np_bind; [apply regex_key_np|]. intros k _.
  apply np_bind; [apply IH|]. intros ks _. apply np_ok.
Qed.

Lemma keys_of_np o pat e content : np (keys_of o pat e content).
Proof.
  unfold keys_of. destruct pat as [|c pat]; [apply np_ok|].
  destruct (o_rx_ok o _) as [[|]|]; [apply keys_rx_np| |apply np_err].
  destruct (lines content); [apply np_ok|apply np_err].
Qed.

Lemma sort_cmp_np o f a b : np (sort_cmp o f a b).
Proof.
  unfold sort_cmp. destruct f; [apply np_ok|].
  destruct (o_f64 o a) as [[xa|]|]; [|apply np_err|apply np_err].
  destruct (o_f64 o b) as [[xb|]|]; [apply np_ok|apply np_err|apply np_err].
Qed.

Lemma ks_scan_np viol : (forall p c, np (viol p c)) -> forall ks prev, np (ks_scan viol prev ks).
Proof.
  intros Hv. induction ks as [|k ks IH]; intros prev; cbn [ks_scan]; [apply np_ok|].
  apply np_bind; [apply Hv|]. intros v _. destruct v; [apply np_ok|apply IH].
Qed.

Lemma ks_check_np viol ks : (forall p c, np (viol p c)) -> np (ks_check viol ks).
Proof. intros Hv. unfold ks_check. destruct ks; [apply np_ok|apply ks_scan_np; exact Hv]. Qed.

Lemma parse_direction_np v : np (parse_direction v).
Proof.
  unfold parse_direction.
  repeat match goal with |- np (if ?b then _ else _) => destruct b end;
    first [apply np_ok|apply np_err].
Qed.

Lemma parse_format_np a : np (parse_format a).
Proof.
  unfold parse_format. destruct (get_attr _ a) as [v|]; [|apply np_ok].
  destruct (trim v); [apply np_ok|].
  repeat match goal with |- np (if ?b then _ else _) => destruct b end;
    first [apply np_ok|apply np_err].
Qed.

Lemma content_np file b (Hcontent : exists c, content_of file b = Ok c) : np (content_of file b).
Proof. destruct Hcontent as [c ->]. apply np_ok. Qed.

Lemma keep_sorted_np o file b (Hcontent : exists c, content_of file b = Ok c) : np (keep_sorted o file b).
Proof.
  unfold keep_sorted. destruct (get_attr _ _) as [v|]; [|apply np_ok].
  apply np_bind; [apply parse_direction_np|]. intros asc _.
  apply np_bind; [apply parse_format_np|]. intros fmt _.
  apply np_bind; [apply content_np; exact Hcontent|]. intros content _.
  apply np_bind; [apply keys_of_np|]. intros ks _.
  apply np_bind.
  - apply ks_check_np. intros p c.
    apply np_bind; [apply sort_cmp_np|]. intros r _. apply np_ok.
  - intros [k|] _; [|apply np_ok].
    apply np_bind; [apply sev_of_np|]. intros sev _. apply np_ok.
Qed.

Lemma keep_unique_np o file b (Hcontent : exists c, content_of file b = Ok c) : np (keep_unique o file b).
Proof.
  unfold keep_unique. destruct (get_attr _ _) as [pat|]; [|apply np_ok].
  apply np_bind; [apply content_np; exact Hcontent|]. intros content _.
  apply np_bind; [apply keys_of_np|]. intros ks _.
  destruct (ku_scan [] ks); [|apply np_ok].
  apply np_bind; [apply sev_of_np|]. intros sev _. apply np_ok.
Qed.

Lemma lp_scan_np o pat : forall ls idx, np (lp_scan o pat idx ls).
Proof.
  induction ls as [|l ls IH]; intros idx; cbn [lp_scan]; [apply np_ok|].
  destruct (trimmed_key idx l) as [k|]; [|apply IH].
  destruct (o_rx o pat (k_val k)) as [[m|]|]; [apply IH|apply np_ok|apply np_err].
Qed.

Lemma line_pattern_np o file b (Hcontent : exists c, content_of file b = Ok c) : np (line_pattern o file b).
Proof.
  unfold line_pattern. destruct (get_attr _ _) as [pat|]; [|apply np_ok].
  destruct (o_rx_ok o pat) as [[|]|]; [|apply np_err|apply np_err].
  apply np_bind; [apply content_np; exact Hcontent|]. intros content _.
  apply np_bind; [apply lp_scan_np|]. intros [k|] _; [|apply np_ok].
  apply np_bind; [apply sev_of_np|]. intros sev _. apply np_ok.
Qed.

Lemma line_count_np file b (Hcontent : exists c, content_of file b = Ok c) : np (line_count file b).
Proof.
  unfold line_count. destruct (get_attr _ _) as [expr|]; [|apply np_ok].
  destruct (parse_constraint expr) as [[op expected]|]; [|apply np_err].
  apply np_bind; [apply content_np; exact Hcontent|]. intros content _. cbv zeta.
  destruct (cop_holds _ _ _); [apply np_ok|].
  apply np_bind; [apply sev_of_np|]. intros sev _. apply np_ok.
Qed.

Lemma extract_content_np o b pat_attr e content : np (extract_content o pat_attr e b content).
Proof.
  unfold extract_content. destruct (get_attr _ _) as [pat|]; [|apply np_ok].
  destruct (o_rx_ok o pat) as [[|]|]; [|apply np_err|apply np_err].
  destruct (o_rx o pat content) as [[[[ms me] g]|]|]; [|apply np_ok|apply np_err].
  destruct g as [[vs ve]|]; destruct (bslice _ _ _); first [apply np_ok|apply np_err].
Qed.

Lemma check_lua_block_np o file b path (Hcontent : exists c, content_of file b = Ok c) : np (check_lua_block o path file b).
Proof.
  unfold check_lua_block. destruct (get_attr _ _) as [script|]; [|apply np_ok].
  apply np_bind; [apply content_np; exact Hcontent|]. intros content0 _.
  apply np_bind; [apply extract_content_np|]. intros content _.
  destruct (o_lua o script _ content) as [[cls msg]|]; [|apply np_err].
  destruct (cls =? 0); [apply np_ok|].
  destruct (cls =? 1); [|apply np_err].
  apply np_bind; [apply sev_of_np|]. intros sev _. apply np_ok.
Qed.

Lemma check_ai_block_np o file b (Hcontent : exists c, content_of file b = Ok c) : np (check_ai_block o file b).
Proof.
  unfold check_ai_block. destruct (get_attr _ _) as [cond|]; [|apply np_ok].
  apply np_bind; [apply content_np; exact Hcontent|]. intros content0 _.
  apply np_bind; [apply extract_content_np|]. intros content _.
  destruct (o_ai o cond content) as [[cls msg]|]; [|apply np_err].
  destruct (cls =? 0); [|apply np_err].
  destruct (ai_reply_ok msg); [apply np_ok|].
  apply np_bind; [apply sev_of_np|]. intros sev _. apply np_ok.
Qed.


Theorem validators_no_panic : forall o nm v f bc site,
  (exists c, content_of (fc_text f) (bc_block bc) = Ok c) ->
  validate_block o nm v f bc <> Panic site.
Proof.
  intros o nm v f bc site Hc. revert site. change (np (validate_block o nm v f bc)).
  unfold validate_block. cbv zeta.
  repeat match goal with |- np (if ?b then _ else _) => destruct b end.
  - apply affects_block_np.
  - apply keep_sorted_np; exact Hc.
  - apply keep_unique_np; exact Hc.
  - apply line_pattern_np; exact Hc.
  - apply line_count_np; exact Hc.
  - apply check_ai_block_np; exact Hc.
  - apply check_lua_block_np; exact Hc.
Qed.

(* the only Panic source of the validators, reduced to slice validity of the
   block's content range; that mk_block produces valid ranges (comment ranges
   that are valid slices of the file, in order) is an assumption on the input
   (tree-sitter node ranges) and is not proved here *)
Lemma content_of_ok : forall file b,
  (exists c, bslice file (b_clo b) (b_chi b) = Some c) -> exists c, content_of file b = Ok c.
Proof. intros file b [c H]. exists c. unfold content_of. rewrite H. reflexivity. Qed.

Corollary validators_no_panic_of_slice : forall o nm v f bc site,
  (exists c, bslice (fc_text f) (b_clo (bc_block bc)) (b_chi (bc_block bc)) = Some c) ->
  validate_block o nm v f bc <> Panic site.
Proof. intros. apply validators_no_panic. apply content_of_ok. assumption. Qed.

(* the converse: a validator that needs the content does panic on a bad range,
   e.g. line-count with a well-formed constraint *)
Lemma content_of_panics : forall file b,
  bslice file (b_clo b) (b_chi b) = None -> content_of file b = Panic 1.
Proof. intros file b H. unfold content_of. rewrite H. reflexivity. Qed.

(* ====================================================================== *)
(* A6. diff side                                                          *)
(* ====================================================================== *)
(* hunks_changes, content_hit, tag_hit (LineChanges.v, Context.v) return plain
   lists / booleans, not `res`: they contain no Panic at all, nothing to prove. *)

Lemma parse_lines_panic_site : forall ls files cur src site,
  parse_lines ls files cur src = Panic site -> site = 50.
Proof.
  induction ls as [|l ls IH]; intros files cur src site H; cbn [parse_lines] in H.
  - discriminate.
  - destruct (source_header l) as [name|]; [eapply IH; exact H|].
    destruct (target_header l) as [name|].
    + destruct cur as [f|]; [discriminate|].
      destruct src as [s|]; [eapply IH; exact H|]. inversion H; reflexivity.
    + destruct (hunk_header l) as [hdr|]; [|eapply IH; exact H].
      destruct cur as [f|]; [eapply IH; exact H|discriminate].
Qed.

Theorem parse_patch_panics_only_without_source : forall diff site,
  parse_patch diff = Panic site -> site = 50.
Proof. intros diff site H. unfold parse_patch in H. eapply parse_lines_panic_site; exact H. Qed.

Theorem parse_lines_no_panic_after_source : forall ls files cur s site,
  parse_lines ls files cur (Some s) <> Panic site.
Proof.
  induction ls as [|l ls IH]; intros files cur s site; cbn [parse_lines].
  - discriminate.
  - destruct (source_header l) as [name|]; [apply IH|].
    destruct (target_header l) as [name|].
    + destruct cur as [f|]; [discriminate|apply IH].
    + destruct (hunk_header l) as [hdr|]; [|apply IH].
      destruct cur as [f|]; [apply IH|discriminate].
Qed.

(* consequently: a diff whose first header line is a "--- " line never panics *)
Corollary parse_patch_no_panic_source_first : forall pre l rest name site,
  Forall (fun x => source_header x = None /\ target_header x = None) pre ->
  source_header l = Some name ->
  parse_lines (pre ++ l :: rest) [] None None <> Panic site.
Proof.
  intros pre l rest name site Hpre Hl.
  assert (G : forall files,
    parse_lines (pre ++ l :: rest) files None None <> Panic site).
  { induction Hpre as [|x pre [Hs Ht] Hpre IH]; intros files; cbn [app parse_lines].
    - rewrite Hl. apply parse_lines_no_panic_after_source.
    - rewrite Hs, Ht. destruct (hunk_header x); [discriminate|apply IH]. }
  apply G.
Qed.

(* ====================================================================== *)
(* A4. from comment spans to blocks                                       *)
(* ====================================================================== *)

Theorem mk_comment_no_panic : forall file sp,
  cs_kind sp <> K_XML ->
  (exists raw, bslice file (cs_lo sp) (cs_hi sp) = Some raw) ->
  forall site, mk_comment file sp <> Panic site.
Proof.
  intros file sp Hk [raw Hraw]. change (np (mk_comment file sp)).
  unfold mk_comment. rewrite Hraw.
  apply np_bind; [intros site; apply normalise_no_panic; exact Hk|].
  intros [text|] _; apply np_ok.
Qed.

Lemma mk_comments_np file : forall sps,
  (forall sp, In sp sps -> cs_kind sp <> K_XML /\
                           exists raw, bslice file (cs_lo sp) (cs_hi sp) = Some raw) ->
  np (mk_comments file sps).
Proof.
  induction sps as [|sp sps IH]; intros H; cbn [mk_comments]; [apply np_ok|].
  apply np_bind.
  - intros site. destruct (H sp (or_introl eq_refl)) as [Hk Hr].
    apply mk_comment_no_panic; assumption.
  - intros c _. apply np_bind; [apply IH; intros sp' Hin; apply H; right; exact Hin|].
    intros cs _. apply np_ok.
Qed.

Theorem parse_file_no_panic : forall file sps,
  (forall sp, In sp sps -> cs_kind sp <> K_XML /\
                           exists raw, bslice file (cs_lo sp) (cs_hi sp) = Some raw) ->
  forall site, parse_file file sps <> Panic site.
Proof.
  intros file sps H. change (np (parse_file file sps)). unfold parse_file.
  apply np_bind.
  { apply mk_comments_np. intros sp Hin. apply filter_In in Hin. apply H, Hin. }
  intros main _. apply np_bind.
  { apply mk_comments_np. intros sp Hin. apply filter_In in Hin. apply H, Hin. }
  intros html _. apply np_bind.
  { intros site. apply parse_blocks_from_comments_no_panic. }
  intros a _. apply np_bind.
  { intros site. apply parse_blocks_from_comments_no_panic. }
  intros b _. apply np_ok.
Qed.

(* XML-kind spans: the same holds when every XML comment node text has the
   form "<!--" m "-->" (what the tree-sitter HTML/XML grammars deliver) *)
Theorem mk_comment_no_panic_xml : forall file sp m,
  cs_kind sp = K_XML ->
  bslice file (cs_lo sp) (cs_hi sp) = Some (T "<!--" ++ m ++ T "-->") ->
  forall site, mk_comment file sp <> Panic site.
Proof.
  intros file sp m Hk Hraw. change (np (mk_comment file sp)).
  unfold mk_comment. rewrite Hraw, Hk.
  apply np_bind; [intros site; apply normalise_xml_delimited_no_panic|].
  intros [text|] _; apply np_ok.
Qed.

(* Order_proofs.v - property C20: neither the order in which the walk
   discovers the files nor the order in which the diff lists its file sections
   matters (theories/Context.v, theories/LineChanges.v, theories/RunCase.v). *)
From BW Require Import RunCase.
From BWGen Require Import ExtTable.
From BWP Require Import TextFacts Keys_proofs Run_proofs Context_proofs Diff_proofs.
From Coq Require Import ZifyBool ZifyN ZifyNat Permutation.
Arguments N.add : simpl never. Arguments N.sub : simpl never. Arguments N.mul : simpl never.
Arguments N.eqb : simpl never. Arguments N.ltb : simpl never. Arguments N.leb : simpl never.

(* ================================================================== *)
(* what one file contributes to the accumulator                        *)
(* ================================================================== *)

Definition contrib_ctx (f : rfile) (r : option (res (list bctx))) : context :=
  match r with
  | Some (Ok (b :: bs)) => [{| fc_path := rf_path f; fc_text := rf_text f; fc_blocks := b :: bs |}]
  | _ => []
  end.
Definition contrib_errs (r : option (res (list bctx))) : list N :=
  match r with Some (Err e) => [e] | _ => [] end.
Definition contrib_panic (r : option (res (list bctx))) : bool :=
  match r with Some (Panic _) => true | _ => false end.

Lemma add_result_contrib f r acc :
  add_result f r acc =
  {| cr_ctx := cr_ctx acc ++ contrib_ctx f r; cr_errs := cr_errs acc ++ contrib_errs r;
     cr_panic := cr_panic acc || contrib_panic r |}.
Proof.
  destruct acc as [c e p].
  destruct r as [[[|b bs]|e'|s]|];
    cbn [add_result contrib_ctx contrib_errs contrib_panic cr_ctx cr_errs cr_panic];
    rewrite ?app_nil_r, ?orb_false_r, ?orb_true_r; reflexivity.
Qed.

(* ================================================================== *)
(* 1a. the walk order                                                  *)
(* ================================================================== *)

(* the result of examining f in the scan loop (None: not examined) *)
Definition scan_step (ext_map : list (str * str)) (changes : list (str * list lchange)) (f : rfile)
  : option (res (list bctx)) :=
  if scanned f then
    parse_one ext_map f true (match changes_for (rf_path f) changes with Some l => l | None => [] end)
  else None.

Lemma scan_files_closed ext_map changes : forall fs acc,
  scan_files ext_map fs changes acc =
  {| cr_ctx := cr_ctx acc ++ flat_map (fun f => contrib_ctx f (scan_step ext_map changes f)) fs;
     cr_errs := cr_errs acc ++ flat_map (fun f => contrib_errs (scan_step ext_map changes f)) fs;
     cr_panic := cr_panic acc || existsb (fun f => contrib_panic (scan_step ext_map changes f)) fs |}.
Proof.
  induction fs as [|f fs IH]; intros acc; cbn [scan_files flat_map existsb].
  - destruct acc as [c e p]; cbn [cr_ctx cr_errs cr_panic]. rewrite !app_nil_r, orb_false_r. reflexivity.
  - remember (scan_step ext_map changes f) as s eqn:Es. unfold scan_step, scanned in Es.
    destruct (rf_exists f && rf_allow f && negb (rf_ignore f)).
    + rewrite <- Es, IH, add_result_contrib. cbn [cr_ctx cr_errs cr_panic].
      rewrite <- !app_assoc, <- orb_assoc. reflexivity.
    + rewrite IH, Es. cbn [contrib_ctx contrib_errs contrib_panic app orb]. reflexivity.
Qed.

Theorem scan_files_perm : forall ext_map fs fs' changes acc, Permutation fs fs' ->
  let r := scan_files ext_map fs changes acc in
  let r' := scan_files ext_map fs' changes acc in
  exists c c', cr_ctx r = cr_ctx acc ++ c /\ cr_ctx r' = cr_ctx acc ++ c' /\ Permutation c c' /\
    (exists e e', cr_errs r = cr_errs acc ++ e /\ cr_errs r' = cr_errs acc ++ e' /\ Permutation e e') /\
    cr_panic r = cr_panic r'.
Proof.
  intros ext_map fs fs' changes acc H r r'. unfold r, r'. rewrite !scan_files_closed.
  cbn [cr_ctx cr_errs cr_panic].
  eexists. eexists. split; [reflexivity|]. split; [reflexivity|].
  split; [apply perm_flat_map; exact H|].
  split.
  - eexists. eexists. split; [reflexivity|]. split; [reflexivity|]. apply perm_flat_map; exact H.
  - f_equal. apply perm_existsb. exact H.
Qed.

(* ================================================================== *)
(* 1b. the order of the diff's file sections                           *)
(* ================================================================== *)

(* the file examined for one diff section and the result (None: skipped) *)
Definition diff_step (ext_map : list (str * str)) (all : list rfile) (scan : bool)
                     (e : str * list lchange) : option (rfile * option (res (list bctx))) :=
  match find_file (fst e) all with
  | None => None
  | Some f => if (scan && scanned f) || rf_ignore f then None
              else Some (f, parse_one ext_map f false (snd e))
  end.

Definition dstep_ctx (s : option (rfile * option (res (list bctx)))) : context :=
  match s with Some (f, r) => contrib_ctx f r | None => [] end.
Definition dstep_errs (s : option (rfile * option (res (list bctx)))) : list N :=
  match s with Some (_, r) => contrib_errs r | None => [] end.
Definition dstep_panic (s : option (rfile * option (res (list bctx)))) : bool :=
  match s with Some (_, r) => contrib_panic r | None => false end.

Lemma diff_files_closed ext_map all scan : forall changes acc,
  (forall p l, In (p, l) changes -> find_file p all <> None) ->
  diff_files ext_map all scan changes acc =
  {| cr_ctx := cr_ctx acc ++ flat_map (fun e => dstep_ctx (diff_step ext_map all scan e)) changes;
     cr_errs := cr_errs acc ++ flat_map (fun e => dstep_errs (diff_step ext_map all scan e)) changes;
     cr_panic := cr_panic acc || existsb (fun e => dstep_panic (diff_step ext_map all scan e)) changes |}.
Proof.
  induction changes as [|[p lcs] rest IH]; intros acc Hall; cbn [diff_files flat_map existsb].
  - destruct acc as [c e q]; cbn [cr_ctx cr_errs cr_panic]. rewrite !app_nil_r, orb_false_r. reflexivity.
  - assert (Hall' : forall q l, In (q, l) rest -> find_file q all <> None).
    { intros q l H. apply (Hall q l). right. exact H. }
    remember (diff_step ext_map all scan (p, lcs)) as s eqn:Es. unfold diff_step in Es. cbn [fst snd] in Es.
    destruct (find_file p all) as [f|] eqn:Ef.
    + destruct ((scan && scanned f) || rf_ignore f).
      * rewrite (IH _ Hall'), Es. cbn [dstep_ctx dstep_errs dstep_panic app orb]. reflexivity.
      * rewrite (IH _ Hall'), add_result_contrib, Es.
        cbn [cr_ctx cr_errs cr_panic dstep_ctx dstep_errs dstep_panic].
        rewrite <- !app_assoc, <- orb_assoc. reflexivity.
    + exfalso. apply (Hall p lcs (or_introl eq_refl)). exact Ef.
Qed.

Lemma all_found_perm (all : list rfile) (changes changes' : list (str * list lchange)) :
  Permutation changes changes' ->
  (forall p l, In (p, l) changes -> find_file p all <> None) ->
  (forall p l, In (p, l) changes' -> find_file p all <> None).
Proof.
  intros H Hall p l Hin. apply (Hall p l).
  eapply Permutation_in; [apply Permutation_sym; exact H|exact Hin].
Qed.

(* (the NoDup hypothesis is not needed for this half: diff_files looks at each
   section's own line changes, not at the map) *)
Theorem diff_files_perm_gen : forall ext_map fs scan changes changes' acc,
  Permutation changes changes' ->
  (forall p l, In (p, l) changes -> find_file p fs <> None) ->
  let r := diff_files ext_map fs scan changes acc in
  let r' := diff_files ext_map fs scan changes' acc in
  exists c c', cr_ctx r = cr_ctx acc ++ c /\ cr_ctx r' = cr_ctx acc ++ c' /\ Permutation c c' /\
    (exists e e', cr_errs r = cr_errs acc ++ e /\ cr_errs r' = cr_errs acc ++ e' /\ Permutation e e') /\
    cr_panic r = cr_panic r'.
Proof.
  intros ext_map fs scan changes changes' acc H Hall r r'. unfold r, r'.
  rewrite (diff_files_closed ext_map fs scan changes acc Hall).
  rewrite (diff_files_closed ext_map fs scan changes' acc (all_found_perm fs _ _ H Hall)).
  cbn [cr_ctx cr_errs cr_panic].
  eexists. eexists. split; [reflexivity|]. split; [reflexivity|].
  split; [apply perm_flat_map; exact H|].
  split.
  - eexists. eexists. split; [reflexivity|]. split; [reflexivity|]. apply perm_flat_map; exact H.
  - f_equal. apply perm_existsb. exact H.
Qed.

Theorem diff_files_perm : forall ext_map fs scan changes changes' acc,
  Permutation changes changes' -> NoDup (map fst changes) ->
  (forall p l, In (p, l) changes -> find_file p fs <> None) ->
  let r := diff_files ext_map fs scan changes acc in
  let r' := diff_files ext_map fs scan changes' acc in
  exists c c', cr_ctx r = cr_ctx acc ++ c /\ cr_ctx r' = cr_ctx acc ++ c' /\ Permutation c c' /\
    (exists e e', cr_errs r = cr_errs acc ++ e /\ cr_errs r' = cr_errs acc ++ e' /\ Permutation e e') /\
    cr_panic r = cr_panic r'.
Proof.
  intros ext_map fs scan changes changes' acc H _ Hall.
  exact (diff_files_perm_gen ext_map fs scan changes changes' acc H Hall).
Qed.

(* ================================================================== *)
(* 1c. both together                                                   *)
(* ================================================================== *)

(* lookups in lists with distinct keys do not depend on the order *)
Lemma assoc_in_nodup {A} (k : str) (v : A) l :
  NoDup (map fst l) -> (assoc k l = Some v <-> In (k, v) l).
Proof.
  induction l as [|[k' v'] l IH]; intros Hnd; cbn [assoc map fst In].
  - split; [discriminate|tauto].
  - inversion Hnd as [|x xs Hnotin Hnd']; subst x xs. cbn [fst] in Hnotin.
    destruct (str_eqb k k') eqn:E.
    + apply str_eqb_eq in E. subst k'. split.
      * intros H. inversion H; subst v'. left. reflexivity.
      * intros [H|H]; [inversion H; reflexivity|].
        exfalso. apply Hnotin. apply in_map_iff. exists (k, v). split; [reflexivity|exact H].
    + rewrite (IH Hnd'). split; [tauto|].
      intros [H|H]; [|exact H]. inversion H; subst k' v'. rewrite str_eqb_refl in E. discriminate E.
Qed.

Lemma assoc_perm {A} (k : str) (l l' : list (str * A)) :
  NoDup (map fst l) -> Permutation l l' -> assoc k l = assoc k l'.
Proof.
  intros Hnd H.
  assert (Hnd' : NoDup (map fst l')).
  { eapply Permutation_NoDup; [apply Permutation_map; exact H|exact Hnd]. }
  destruct (assoc k l) as [v|] eqn:E1.
  - apply (assoc_in_nodup k v l Hnd) in E1. symmetry. apply (assoc_in_nodup k v l' Hnd').
    eapply Permutation_in; eassumption.
  - destruct (assoc k l') as [v|] eqn:E2; [|reflexivity].
    apply (assoc_in_nodup k v l' Hnd') in E2.
    assert (E : assoc k l = Some v).
    { apply (assoc_in_nodup k v l Hnd). eapply Permutation_in; [apply Permutation_sym; exact H|exact E2]. }
    congruence.
Qed.

Lemma find_file_in_nodup p f fs :
  NoDup (map rf_path fs) -> (find_file p fs = Some f <-> In f fs /\ rf_path f = p).
Proof.
  unfold find_file. induction fs as [|g fs IH]; intros Hnd; cbn [find map In].
  - split; [discriminate|tauto].
  - inversion Hnd as [|x xs Hnotin Hnd']; subst x xs.
    destruct (str_eqb (rf_path g) p) eqn:E.
    + apply str_eqb_eq in E. split.
      * intros H. inversion H; subst g. split; [left; reflexivity|exact E].
      * intros [[H|H] Hp]; [subst g; reflexivity|].
        exfalso. apply Hnotin. apply in_map_iff. exists f. split; [congruence|exact H].
    + rewrite (IH Hnd'). split; [tauto|].
      intros [[H|H] Hp]; [|split; assumption]. subst g. rewrite Hp, str_eqb_refl in E. discriminate E.
Qed.

(* with distinct paths, the file found for a path does not depend on the walk order *)
Lemma find_file_perm p fs fs' :
  NoDup (map rf_path fs) -> Permutation fs fs' -> find_file p fs = find_file p fs'.
Proof.
  intros Hnd H.
  assert (Hnd' : NoDup (map rf_path fs')).
  { eapply Permutation_NoDup; [apply Permutation_map; exact H|exact Hnd]. }
  destruct (find_file p fs) as [f|] eqn:E1.
  - apply (find_file_in_nodup p f fs Hnd) in E1. symmetry. apply (find_file_in_nodup p f fs' Hnd').
    destruct E1 as [Hin Hp]. split; [|exact Hp]. eapply Permutation_in; eassumption.
  - destruct (find_file p fs') as [f|] eqn:E2; [|reflexivity].
    apply (find_file_in_nodup p f fs' Hnd') in E2. destruct E2 as [Hin Hp].
    assert (E : find_file p fs = Some f).
    { apply (find_file_in_nodup p f fs Hnd). split; [|exact Hp].
      eapply Permutation_in; [apply Permutation_sym; exact H|exact Hin]. }
    congruence.
Qed.

Lemma scan_step_changes_ext ext_map changes changes' f :
  (forall p, changes_for p changes = changes_for p changes') ->
  scan_step ext_map changes f = scan_step ext_map changes' f.
Proof. intros H. unfold scan_step. rewrite H. reflexivity. Qed.

Lemma diff_step_files_ext ext_map fs fs' scan e :
  (forall p, find_file p fs = find_file p fs') ->
  diff_step ext_map fs scan e = diff_step ext_map fs' scan e.
Proof. intros H. unfold diff_step. rewrite H. reflexivity. Qed.

Lemma existsb_ext_ {A} (p q : A -> bool) l : (forall x, p x = q x) -> existsb p l = existsb q l.
Proof.
  intros H. induction l as [|x l IH]; cbn [existsb]; [reflexivity|]. rewrite H, IH. reflexivity.
Qed.

Theorem build_context_perm : forall ext_map fs fs' scan changes changes',
  Permutation fs fs' -> Permutation changes changes' ->
  NoDup (map fst changes) -> NoDup (map rf_path fs) ->
  (forall p l, In (p, l) changes -> find_file p fs <> None) ->
  let r := build_context ext_map fs scan changes in
  let r' := build_context ext_map fs' scan changes' in
  Permutation (cr_ctx r) (cr_ctx r') /\ Permutation (cr_errs r) (cr_errs r') /\ cr_panic r = cr_panic r'.
Proof.
  intros ext_map fs fs' scan changes changes' Hfs Hch Hndc Hndf Hall r r'.
  assert (Hff : forall p, find_file p fs = find_file p fs').
  { intros p. apply find_file_perm; assumption. }
  assert (Hcf : forall p, changes_for p changes = changes_for p changes').
  { intros p. unfold changes_for. apply assoc_perm; assumption. }
  assert (Hall' : forall p l, In (p, l) changes' -> find_file p fs' <> None).
  { intros p l Hin. rewrite <- Hff. exact (all_found_perm fs _ _ Hch Hall p l Hin). }
  unfold r, r', build_context.
  rewrite (diff_files_closed ext_map fs scan changes _ Hall).
  rewrite (diff_files_closed ext_map fs' scan changes' _ Hall').
  cbn [cr_ctx cr_errs cr_panic].
  (* the diff parts *)
  assert (Hdc : Permutation (flat_map (fun e => dstep_ctx (diff_step ext_map fs scan e)) changes)
                            (flat_map (fun e => dstep_ctx (diff_step ext_map fs' scan e)) changes')).
  { eapply perm_trans; [apply perm_flat_map; exact Hch|].
    rewrite (flat_map_ext_in (fun e => dstep_ctx (diff_step ext_map fs scan e))
                             (fun e => dstep_ctx (diff_step ext_map fs' scan e))); [apply Permutation_refl|].
    intros e _. rewrite (diff_step_files_ext ext_map fs fs' scan e Hff). reflexivity. }
  assert (Hde : Permutation (flat_map (fun e => dstep_errs (diff_step ext_map fs scan e)) changes)
                            (flat_map (fun e => dstep_errs (diff_step ext_map fs' scan e)) changes')).
  { eapply perm_trans; [apply perm_flat_map; exact Hch|].
    rewrite (flat_map_ext_in (fun e => dstep_errs (diff_step ext_map fs scan e))
                             (fun e => dstep_errs (diff_step ext_map fs' scan e))); [apply Permutation_refl|].
    intros e _. rewrite (diff_step_files_ext ext_map fs fs' scan e Hff). reflexivity. }
  assert (Hdp : existsb (fun e => dstep_panic (diff_step ext_map fs scan e)) changes =
                existsb (fun e => dstep_panic (diff_step ext_map fs' scan e)) changes').
  { rewrite (perm_existsb _ _ _ Hch). apply existsb_ext_.
    intros e. rewrite (diff_step_files_ext ext_map fs fs' scan e Hff). reflexivity. }
  destruct scan.
  - rewrite !scan_files_closed. cbn [cr_ctx cr_errs cr_panic app orb].
    assert (Hsc : Permutation (flat_map (fun f => contrib_ctx f (scan_step ext_map changes f)) fs)
                              (flat_map (fun f => contrib_ctx f (scan_step ext_map changes' f)) fs')).
    { eapply perm_trans; [apply perm_flat_map; exact Hfs|].
      rewrite (flat_map_ext_in (fun f => contrib_ctx f (scan_step ext_map changes f))
                               (fun f => contrib_ctx f (scan_step ext_map changes' f))); [apply Permutation_refl|].
      intros f _. rewrite (scan_step_changes_ext ext_map changes changes' f Hcf). reflexivity. }
    assert (Hse : Permutation (flat_map (fun f => contrib_errs (scan_step ext_map changes f)) fs)
                              (flat_map (fun f => contrib_errs (scan_step ext_map changes' f)) fs')).
    { eapply perm_trans; [apply perm_flat_map; exact Hfs|].
      rewrite (flat_map_ext_in (fun f => contrib_errs (scan_step ext_map changes f))
                               (fun f => contrib_errs (scan_step ext_map changes' f))); [apply Permutation_refl|].
      intros f _. rewrite (scan_step_changes_ext ext_map changes changes' f Hcf). reflexivity. }
    assert (Hsp : existsb (fun f => contrib_panic (scan_step ext_map changes f)) fs =
                  existsb (fun f => contrib_panic (scan_step ext_map changes' f)) fs').
    { rewrite (perm_existsb _ _ _ Hfs). apply existsb_ext_.
      intros f. rewrite (scan_step_changes_ext ext_map changes changes' f Hcf). reflexivity. }
    split; [apply Permutation_app; assumption|].
    split; [apply Permutation_app; assumption|].
    rewrite Hsp, Hdp. reflexivity.
  - cbn [cr_ctx cr_errs cr_panic app orb].
    split; [exact Hdc|]. split; [exact Hde|exact Hdp].
Qed.

(* ================================================================== *)
(* 1d. the parsed diff: the order of the file sections                 *)
(* ================================================================== *)

Lemma perm_forallb {A} (p : A -> bool) l l' : Permutation l l' -> forallb p l = forallb p l'.
Proof.
  induction 1 as [|x l l' Hp IH|x y l|l l' l'' H1 IH1 H2 IH2]; cbn [forallb].
  - reflexivity.
  - rewrite IH. reflexivity.
  - destruct (p x), (p y); reflexivity.
  - congruence.
Qed.

Section ChangesOrder.
Context (cdiff : str -> str -> option (list diffop)).

(* the sections that are not whole-file removals *)
Definition live (fs : list pfile) : list pfile := filter (fun f => negb (is_removed_file f)) fs.
Definition has_changes (f : pfile) : bool :=
  match line_changes cdiff f with Some _ => true | None => false end.
Definition entry_of (f : pfile) : str * list lchange :=
  (target_path f, match line_changes cdiff f with Some l => l | None => [] end).
(* accumulator entries that survive: those whose key is no section's path *)
Definition keeps (paths : list str) (e : str * list lchange) : bool :=
  negb (existsb (str_eqb (fst e)) paths).

(* with distinct target paths no section replaces another one, and the result
   has a closed form (for ANY accumulator: its entries with a colliding key are
   dropped whatever the order, so no side condition on acc is needed) *)
Lemma changes_of_files_closed : forall fs acc,
  NoDup (map target_path (live fs)) ->
  changes_of_files cdiff fs acc =
  if forallb has_changes (live fs)
  then Ok (filter (keeps (map target_path (live fs))) acc ++ map entry_of (live fs))
  else Err E_ORACLE_MISS.
Proof.
  induction fs as [|f fs IH]; intros acc Hnd; cbn [changes_of_files].
  - cbn [live filter forallb map]. unfold keeps. cbn [existsb negb].
    rewrite filter_all_true by reflexivity. rewrite app_nil_r. reflexivity.
  - unfold live in *. cbn [filter] in *. destruct (is_removed_file f); cbn [negb] in *.
    + apply IH. exact Hnd.
    + cbn [map forallb] in *. inversion Hnd as [|x xs Hnotin Hnd']; subst x xs.
      unfold has_changes at 1. unfold entry_of at 1.
      destruct (line_changes cdiff f) as [lcs|]; [|reflexivity].
      rewrite (IH _ Hnd'). cbn [andb].
      destruct (forallb has_changes (filter (fun f0 => negb (is_removed_file f0)) fs)); [|reflexivity].
      f_equal. rewrite filter_app_, filter_filter. cbn [filter].
      assert (Hk : keeps (map target_path (filter (fun f0 => negb (is_removed_file f0)) fs))
                         (target_path f, lcs) = true).
      { unfold keeps. cbn [fst]. apply negb_true_iff.
        destruct (existsb _ _) eqn:E; [|reflexivity]. exfalso. apply Hnotin.
        apply existsb_exists in E. destruct E as (q & Hq & He). apply str_eqb_eq in He. subst q. exact Hq. }
      rewrite Hk. rewrite <- app_assoc. cbn [app]. f_equal.
      apply filter_ext_in_. intros e _. unfold keeps. cbn [existsb]. rewrite negb_orb. reflexivity.
Qed.

(* both runs succeed with permuted results, or both fail with the same error *)
Theorem changes_of_files_perm_strong : forall fs fs' acc, Permutation fs fs' ->
  NoDup (map target_path (filter (fun f => negb (is_removed_file f)) fs)) ->
  match changes_of_files cdiff fs acc, changes_of_files cdiff fs' acc with
  | Ok c, Ok c' => Permutation c c'
  | Err e, Err e' => e = e'
  | _, _ => False
  end.
Proof.
  intros fs fs' acc H Hnd. fold (live fs) in Hnd.
  assert (Hl : Permutation (live fs) (live fs')) by (apply perm_filter; exact H).
  assert (Hp : Permutation (map target_path (live fs)) (map target_path (live fs')))
    by (apply Permutation_map; exact Hl).
  assert (Hnd' : NoDup (map target_path (live fs'))) by (eapply Permutation_NoDup; eassumption).
  rewrite (changes_of_files_closed fs acc Hnd), (changes_of_files_closed fs' acc Hnd').
  rewrite <- (perm_forallb has_changes _ _ Hl).
  destruct (forallb has_changes (live fs)); [|reflexivity].
  apply Permutation_app.
  - rewrite (filter_ext_in_ (keeps (map target_path (live fs))) (keeps (map target_path (live fs')))).
    + apply Permutation_refl.
    + intros e _. unfold keeps. f_equal. apply perm_existsb. exact Hp.
  - apply Permutation_map. exact Hl.
Qed.

Theorem changes_of_files_perm : forall fs fs' acc, Permutation fs fs' ->
  NoDup (map target_path (filter (fun f => negb (is_removed_file f)) fs)) ->
  match changes_of_files cdiff fs acc, changes_of_files cdiff fs' acc with
  | Ok c, Ok c' => Permutation c c'
  | Err _, Err _ => True
  | _, _ => False
  end.
Proof.
  intros fs fs' acc H Hnd. pose proof (changes_of_files_perm_strong fs fs' acc H Hnd) as Hs.
  destruct (changes_of_files cdiff fs acc), (changes_of_files cdiff fs' acc); try exact Hs; exact I.
Qed.

(* every key of the result (from the empty accumulator) is a live section's path *)
Lemma changes_of_files_keys_live : forall fs c p l,
  NoDup (map target_path (live fs)) ->
  changes_of_files cdiff fs [] = Ok c -> In (p, l) c ->
  exists f, In f (live fs) /\ p = target_path f.
Proof.
  intros fs c p l Hnd H Hin. rewrite (changes_of_files_closed fs [] Hnd) in H.
  destruct (forallb has_changes (live fs)); [|discriminate]. inversion H; subst c. clear H.
  cbn [filter app] in Hin. apply in_map_iff in Hin. destruct Hin as (f & Hf & Hfin).
  exists f. split; [exact Hfin|]. unfold entry_of in Hf. inversion Hf. reflexivity.
Qed.

(* the result has distinct keys when the accumulator has *)
Lemma changes_of_files_keys : forall fs acc c,
  NoDup (map target_path (live fs)) -> NoDup (map fst acc) ->
  changes_of_files cdiff fs acc = Ok c -> NoDup (map fst c).
Proof.
  intros fs acc c Hnd Hacc H. rewrite (changes_of_files_closed fs acc Hnd) in H.
  destruct (forallb has_changes (live fs)); [|discriminate]. inversion H; subst c. clear H.
  rewrite map_app, map_map. cbn [entry_of fst].
  change (map (fun x => target_path x) (live fs)) with (map target_path (live fs)).
  assert (Hsub : forall k, In k (map fst (filter (keeps (map target_path (live fs))) acc)) ->
                           ~ In k (map target_path (live fs))).
  { intros k Hk Hin. apply in_map_iff in Hk. destruct Hk as (e & <- & He).
    apply filter_In in He. destruct He as [_ He]. unfold keeps in He. apply negb_true_iff in He.
    assert (E : existsb (str_eqb (fst e)) (map target_path (live fs)) = true).
    { apply existsb_exists. exists (fst e). split; [exact Hin|apply str_eqb_refl]. }
    congruence. }
  assert (Hf : NoDup (map fst (filter (keeps (map target_path (live fs))) acc))).
  { clear Hsub. induction acc as [|e acc IHa]; cbn [filter map]; [constructor|].
    inversion Hacc as [|x xs Hn Hacc']; subst x xs.
    destruct (keeps _ e); [|apply IHa; exact Hacc'].
    cbn [map]. constructor; [|apply IHa; exact Hacc'].
    intros Hin. apply Hn. apply in_map_iff in Hin. destruct Hin as (e' & Hfe & He').
    apply filter_In in He'. apply in_map_iff. exists e'. split; [exact Hfe|apply He']. }
  clear Hacc. revert Hf Hsub. generalize (map fst (filter (keeps (map target_path (live fs))) acc)).
  intros l Hl Hsub. induction l as [|k l IHl]; cbn [app]; [exact Hnd|].
  inversion Hl as [|x xs Hn Hl']; subst x xs. constructor.
  - intros Hin. apply in_app_or in Hin. destruct Hin as [Hin|Hin]; [exact (Hn Hin)|].
    exact (Hsub k (or_introl eq_refl) Hin).
  - apply IHl; [exact Hl'|]. intros k' Hk'. apply Hsub. right. exact Hk'.
Qed.

End ChangesOrder.

(* ================================================================== *)
(* 1e. end to end: the model's run does not depend on the walk order   *)
(* ================================================================== *)

(* general form: the walk order AND the order of the (already translated)
   diff sections *)
Theorem model_run_order : forall c c' ch ch',
  rc_scan c = rc_scan c' -> rc_ext c = rc_ext c' ->
  rc_enabled c = rc_enabled c' -> rc_disabled c = rc_disabled c' ->
  rc_tables c = rc_tables c' ->
  Permutation (rc_files c) (rc_files c') -> NoDup (map rf_path (rc_files c)) ->
  model_changes c = Ok ch -> model_changes c' = Ok ch' -> Permutation ch ch' ->
  NoDup (map fst ch) ->
  (forall p l, In (p, l) ch -> find_file p (rc_files c) <> None) ->
  Permutation (vr_diags (model_run c)) (vr_diags (model_run c')) /\
  Permutation (vr_errs (model_run c)) (vr_errs (model_run c')) /\
  exit_code (model_run c) = exit_code (model_run c').
Proof.
  intros c c' ch ch' Hscan Hext Hen Hdis Htab Hfs Hndf Hch Hch' Hperm Hndc Hall.
  pose proof (build_context_perm (rc_ext c) (rc_files c) (rc_files c') (rc_scan c) ch ch'
                Hfs Hperm Hndc Hndf Hall) as Hbc.
  cbv zeta in Hbc. destruct Hbc as (Hctx & Herrs & Hpanic).
  unfold model_run, model_context. rewrite Hch, Hch'.
  rewrite <- Hext, <- Hscan, <- Hen, <- Hdis, <- Htab.
  set (r := build_context (rc_ext c) (rc_files c) (rc_scan c) ch) in *.
  set (r' := build_context (rc_ext c) (rc_files c') (rc_scan c) ch') in *.
  rewrite <- Hpanic. destruct (cr_panic r).
  - cbn [vr_diags vr_errs]. split; [constructor|]. split; [constructor|reflexivity].
  - destruct (cr_errs r) as [|e es] eqn:E1, (cr_errs r') as [|e' es'] eqn:E2.
    + apply whole_run_perm. exact Hctx.
    + apply Permutation_nil in Herrs. discriminate Herrs.
    + apply Permutation_sym, Permutation_nil in Herrs. discriminate Herrs.
    + cbn [vr_diags vr_errs]. split; [constructor|]. split; [exact Herrs|].
      apply exit_code_perm; cbn [vr_diags vr_errs]; [constructor|exact Herrs].
Qed.

(* 1e as stated: the two cases differ only in the order of rc_files *)
Theorem model_run_file_order : forall c c' ch,
  rc_diff c = rc_diff c' -> rc_scan c = rc_scan c' -> rc_ext c = rc_ext c' ->
  rc_enabled c = rc_enabled c' -> rc_disabled c = rc_disabled c' ->
  rc_tables c = rc_tables c' -> rc_cdiff c = rc_cdiff c' ->
  Permutation (rc_files c) (rc_files c') -> NoDup (map rf_path (rc_files c)) ->
  model_changes c = Ok ch -> NoDup (map fst ch) ->
  (forall p l, In (p, l) ch -> find_file p (rc_files c) <> None) ->
  Permutation (vr_diags (model_run c)) (vr_diags (model_run c')) /\
  Permutation (vr_errs (model_run c)) (vr_errs (model_run c')) /\
  exit_code (model_run c) = exit_code (model_run c').
Proof.
  intros c c' ch Hdiff Hscan Hext Hen Hdis Htab Hcd Hfs Hndf Hch Hndc Hall.
  assert (Hch' : model_changes c' = Ok ch).
  { rewrite <- Hch. unfold model_changes, cdiff_of. rewrite Hdiff, Hcd. reflexivity. }
  exact (model_run_order c c' ch ch Hscan Hext Hen Hdis Htab Hfs Hndf Hch Hch' (Permutation_refl ch) Hndc Hall).
Qed.

(* C20 end to end: the walk order and the order of the diff's file sections.
   The two diffs parse to permuted section lists with distinct target paths
   (whole-file removals aside), every live section names a known file. *)
Theorem model_run_walk_and_section_order : forall c c' d d' pfs pfs',
  rc_scan c = rc_scan c' -> rc_ext c = rc_ext c' ->
  rc_enabled c = rc_enabled c' -> rc_disabled c = rc_disabled c' ->
  rc_tables c = rc_tables c' -> rc_cdiff c = rc_cdiff c' ->
  Permutation (rc_files c) (rc_files c') -> NoDup (map rf_path (rc_files c)) ->
  rc_diff c = Some d -> rc_diff c' = Some d' ->
  parse_patch d = Ok pfs -> parse_patch d' = Ok pfs' -> Permutation pfs pfs' ->
  NoDup (map target_path (live pfs)) ->
  (forall f, In f (live pfs) -> find_file (target_path f) (rc_files c) <> None) ->
  Permutation (vr_diags (model_run c)) (vr_diags (model_run c')) /\
  Permutation (vr_errs (model_run c)) (vr_errs (model_run c')) /\
  exit_code (model_run c) = exit_code (model_run c').
Proof.
  intros c c' d d' pfs pfs' Hscan Hext Hen Hdis Htab Hcd Hfs Hndf Hd Hd' Hp Hp' Hperm Hndp Hfound.
  assert (Hm : model_changes c = changes_of_files (cdiff_of c) pfs []).
  { unfold model_changes, line_changes_from_diff. rewrite Hd, Hp. reflexivity. }
  assert (Hm' : model_changes c' = changes_of_files (cdiff_of c) pfs' []).
  { unfold model_changes, line_changes_from_diff, cdiff_of. rewrite Hd', Hp', Hcd. reflexivity. }
  pose proof (changes_of_files_perm_strong (cdiff_of c) pfs pfs' [] Hperm Hndp) as Hs.
  destruct (changes_of_files (cdiff_of c) pfs []) as [ch|e|s] eqn:E1,
           (changes_of_files (cdiff_of c) pfs' []) as [ch'|e'|s'] eqn:E2; try contradiction.
  - apply (model_run_order c c' ch ch'); try assumption.
    + apply (changes_of_files_keys (cdiff_of c) pfs [] ch Hndp); [constructor|exact E1].
    + intros p l Hin.
      destruct (changes_of_files_keys_live (cdiff_of c) pfs ch p l Hndp E1 Hin) as (f & Hf & ->).
      apply Hfound. exact Hf.
  - subst e'. unfold model_run, model_context. rewrite Hm, Hm'. cbn [cr_panic cr_errs vr_diags vr_errs].
    split; [constructor|]. split; [apply Permutation_refl|reflexivity].
Qed.

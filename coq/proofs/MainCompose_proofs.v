(* MainCompose_proofs.v - the properties of the run, stated through main_model
   (theories/Main.v): exit status, hard errors, order independence, and the
   validator flags. *)
From BW Require Import Main.
From BWGen Require Import ExtTable.
From BWP Require Import TextFacts Keys_proofs Context_proofs Run_proofs Order_proofs Main_proofs.
From Coq Require Import ZifyBool ZifyN ZifyNat Permutation.
Arguments N.add : simpl never. Arguments N.sub : simpl never. Arguments N.mul : simpl never.
Arguments N.eqb : simpl never. Arguments N.ltb : simpl never. Arguments N.leb : simpl never.

(* the case main assembles *)
Definition main_case (a : cliargs) (p : plan) (ms : list mfile) (tb : tables)
                     (cd : list (str * str * list diffop)) : rcase :=
  rcase_of p (map (effective_file a) ms) tb cd.

Lemma main_model_ok a p ms tb cd : plan_of a = Ok p ->
  main_model a ms tb cd =
  if ca_list a then MList (model_context (main_case a p ms tb cd))
  else MRun (model_run (main_case a p ms tb cd)).
Proof. intros H. unfold main_model, main_case. rewrite H. reflexivity. Qed.

(* ================================================================== *)
(* P1 - the exit status                                                *)
(* ================================================================== *)

Theorem main_exit_range : forall a ms tb cd,
  In (main_exit (main_model a ms tb cd)) [0; 1; 2; 101].
Proof.
  intros a ms tb cd. unfold main_model.
  destruct (plan_of a) as [p|e|n].
  - destruct (ca_list a); cbn [main_exit].
    + destruct (cr_panic _); [cbn [In]; tauto|]. destruct (cr_errs _); cbn [In]; tauto.
    + destruct (vr_panic _); [cbn [In]; tauto|].
      destruct (vr_errs _) eqn:E; [|cbn [In]; tauto].
      destruct (exit_zero_or_one (model_run (rcase_of p (map (effective_file a) ms) tb cd))) as [H|H];
        rewrite H; cbn [In]; tauto.
  - cbn [main_exit]. destruct (e =? E_USAGE); cbn [In]; tauto.
  - cbn [main_exit]. destruct (E_USAGE =? E_USAGE); cbn [In]; tauto.
Qed.

Lemma exit_code_zero_iff r :
  exit_code r = 0 <-> vr_errs r = [] /\ forall pd, In pd (vr_diags r) -> d_sev (snd pd) <> 1.
Proof.
  split.
  - intros H. split.
    + destruct (vr_errs r) eqn:E; [reflexivity|]. exfalso.
      assert (H1 : exit_code r = 1). { apply exit_iff_error. left. rewrite E. discriminate. }
      rewrite H in H1. discriminate H1.
    + intros pd Hin Hs.
      assert (H1 : exit_code r = 1). { apply exit_iff_error. right. exists pd. split; assumption. }
      rewrite H in H1. discriminate H1.
  - intros [He Hd]. destruct (exit_zero_or_one r) as [H|H]; [exact H|]. exfalso.
    apply exit_iff_error in H. destruct H as [H|(pd & Hin & Hs)]; [exact (H He)|exact (Hd pd Hin Hs)].
Qed.

(* exit status 0: the command line is accepted and nothing went wrong *)
Theorem main_exit_zero_iff : forall a ms tb cd,
  main_exit (main_model a ms tb cd) = 0 <->
  exists p, plan_of a = Ok p /\
    let c := main_case a p ms tb cd in
    if ca_list a then cr_panic (model_context c) = false /\ cr_errs (model_context c) = []
    else vr_panic (model_run c) = false /\ vr_errs (model_run c) = [] /\
         (forall pd, In pd (vr_diags (model_run c)) -> d_sev (snd pd) <> 1).
Proof.
  intros a ms tb cd. split.
  - intros H. destruct (plan_of a) as [p|e|n] eqn:E.
    + exists p. split; [reflexivity|]. cbv zeta. rewrite (main_model_ok a p ms tb cd E) in H.
      destruct (ca_list a); cbn [main_exit] in H.
      * destruct (cr_panic _); [discriminate H|]. split; [reflexivity|].
        destruct (cr_errs _); [reflexivity|discriminate H].
      * destruct (vr_panic _); [discriminate H|]. split; [reflexivity|].
        destruct (vr_errs _) eqn:Ev; [|discriminate H].
        apply exit_code_zero_iff in H. destruct H as [_ H]. split; [reflexivity|exact H].
    + exfalso. unfold main_model in H. rewrite E in H. cbn [main_exit] in H.
      destruct (e =? E_USAGE); discriminate H.
    + exfalso. exact (plan_never_panics a n E).
  - intros (p & E & H). cbv zeta in H. rewrite (main_model_ok a p ms tb cd E).
    destruct (ca_list a); cbn [main_exit].
    + destruct H as [Hp He]. rewrite Hp, He. reflexivity.
    + destruct H as (Hp & He & Hd). rewrite Hp, He. apply exit_code_zero_iff. split; assumption.
Qed.

(* exit status 101: exactly the panics *)
Theorem main_exit_101_iff_panic : forall a ms tb cd,
  main_exit (main_model a ms tb cd) = 101 <->
  exists p, plan_of a = Ok p /\
    if ca_list a then cr_panic (model_context (main_case a p ms tb cd)) = true
    else vr_panic (model_run (main_case a p ms tb cd)) = true.
Proof.
  intros a ms tb cd. split.
  - intros H. destruct (plan_of a) as [p|e|n] eqn:E.
    + exists p. split; [reflexivity|]. rewrite (main_model_ok a p ms tb cd E) in H.
      destruct (ca_list a); cbn [main_exit] in H.
      * destruct (cr_panic _); [reflexivity|]. destruct (cr_errs _); discriminate H.
      * destruct (vr_panic _); [reflexivity|]. destruct (vr_errs _); [|discriminate H].
        destruct (exit_zero_or_one (model_run (main_case a p ms tb cd))) as [H1|H1];
          rewrite H1 in H; discriminate H.
    + exfalso. unfold main_model in H. rewrite E in H. cbn [main_exit] in H.
      destruct (e =? E_USAGE); discriminate H.
    + exfalso. exact (plan_never_panics a n E).
  - intros (p & E & H). rewrite (main_model_ok a p ms tb cd E).
    destruct (ca_list a); cbn [main_exit]; rewrite H; reflexivity.
Qed.

(* where a panic of the run comes from: the context, or a validator *)
Lemma model_run_panic_iff c :
  vr_panic (model_run c) = true <->
  cr_panic (model_context c) = true \/
  (cr_panic (model_context c) = false /\ cr_errs (model_context c) = [] /\
   vr_panic (run_validators (oracles_of (rc_tables c)) (cr_ctx (model_context c))
               (detected_validators (rc_enabled c) (rc_disabled c) (cr_ctx (model_context c)))) = true).
Proof.
  unfold model_run. destruct (cr_panic (model_context c)).
  - cbn [vr_panic]. split; [left; reflexivity|reflexivity].
  - destruct (cr_errs (model_context c)) as [|e es].
    + split; [intros H; right; repeat split; exact H|].
      intros [H|(_ & _ & H)]; [discriminate H|exact H].
    + cbn [vr_panic]. split; [discriminate|].
      intros [H|(_ & H & _)]; discriminate H.
Qed.

(* ================================================================== *)
(* P2 - unbalanced tags are a hard error in every mode, through main   *)
(* ================================================================== *)

(* any error of the context, or a panic, makes main fail - `list` or not *)
Lemma context_failure_fails_main : forall a p ms tb cd,
  plan_of a = Ok p ->
  cr_errs (model_context (main_case a p ms tb cd)) <> [] \/
  cr_panic (model_context (main_case a p ms tb cd)) = true ->
  main_exit (main_model a ms tb cd) = 1 \/ main_exit (main_model a ms tb cd) = 101.
Proof.
  intros a p ms tb cd E H. rewrite (main_model_ok a p ms tb cd E).
  destruct (ca_list a); cbn [main_exit].
  - destruct (cr_panic _); [right; reflexivity|].
    destruct (cr_errs _); [|left; reflexivity].
    destruct H as [H|H]; [exfalso; apply H; reflexivity|discriminate H].
  - unfold model_run. destruct (cr_panic _); [right; reflexivity|].
    destruct (cr_errs _) as [|e es]; [destruct H as [H|H]; [exfalso; apply H; reflexivity|discriminate H]|].
    cbn [vr_panic vr_errs]. left. reflexivity.
Qed.

(* the diff itself cannot be translated: main fails *)
Lemma bad_diff_fails_main : forall a p ms tb cd,
  plan_of a = Ok p ->
  (forall ch, model_changes (main_case a p ms tb cd) <> Ok ch) ->
  main_exit (main_model a ms tb cd) = 1 \/ main_exit (main_model a ms tb cd) = 101.
Proof.
  intros a p ms tb cd E H. apply (context_failure_fails_main a p ms tb cd E).
  unfold model_context. destruct (model_changes _) as [ch|e|n].
  - exfalso. exact (H ch eq_refl).
  - left. cbn [cr_errs]. discriminate.
  - right. reflexivity.
Qed.

(* the file as the scan loop sees it *)
Definition seen_file (a : cliargs) (p : plan) (m : mfile) : rfile :=
  if pl_star p then allow_all (effective_file a m) else effective_file a m.

Lemma seen_file_in a p ms tb cd m : In m ms -> In (seen_file a p m) (rc_files (main_case a p ms tb cd)).
Proof.
  intros H. unfold main_case, rcase_of, seen_file. cbn [rc_files]. destruct (pl_star p).
  - apply in_map, in_map. exact H.
  - apply in_map. exact H.
Qed.

Lemma seen_file_path a p m : rf_path (seen_file a p m) = rf_path (mf_file m).
Proof. unfold seen_file. destruct (pl_star p); reflexivity. Qed.
Lemma seen_file_text a p m : rf_text (seen_file a p m) = rf_text (mf_file m).
Proof. unfold seen_file. destruct (pl_star p); reflexivity. Qed.
Lemma seen_file_spans a p m : rf_spans (seen_file a p m) = rf_spans (mf_file m).
Proof. unfold seen_file. destruct (pl_star p); reflexivity. Qed.
Lemma seen_file_readable a p m : rf_readable (seen_file a p m) = rf_readable (mf_file m).
Proof. unfold seen_file. destruct (pl_star p); reflexivity. Qed.
Lemma seen_file_exists a p m : rf_exists (seen_file a p m) = rf_exists (mf_file m).
Proof. unfold seen_file. destruct (pl_star p); reflexivity. Qed.
Lemma seen_file_ignore a p m :
  rf_ignore (seen_file a p m) = if ca_ign_post a =? 0 then mf_ign_pre m else mf_ign_post m.
Proof. unfold seen_file. destruct (pl_star p); reflexivity. Qed.
Lemma seen_file_allow a p m :
  rf_allow (seen_file a p m) = pl_star p || rf_allow (mf_file m).
Proof. unfold seen_file. destruct (pl_star p); reflexivity. Qed.

(* scan mode: the parse error of a scanned file is among the errors of the context
   (when the diff, if any, could be translated) *)
Lemma unbalanced_scanned_file_in_errs : forall a p ms tb cd m ch e,
  In m ms -> pl_scan p = true -> scanned (seen_file a p m) = true ->
  grammar_of ext_table (pl_ext p) (rf_path (mf_file m)) <> None ->
  rf_readable (mf_file m) = true ->
  parse_file (rf_text (mf_file m)) (rf_spans (mf_file m)) = Err e ->
  model_changes (main_case a p ms tb cd) = Ok ch ->
  In e (cr_errs (model_context (main_case a p ms tb cd))).
Proof.
  intros a p ms tb cd m ch e Hin Hscan Hsc Hg Hr Hp Hch.
  unfold model_context. rewrite Hch.
  replace (rc_scan (main_case a p ms tb cd)) with true by (symmetry; exact Hscan).
  replace (rc_ext (main_case a p ms tb cd)) with (pl_ext p) by reflexivity.
  apply (scanned_error_reported (pl_ext p) _ ch (seen_file a p m) e (seen_file_in a p ms tb cd m Hin) Hsc).
  destruct (grammar_of ext_table (pl_ext p) (rf_path (mf_file m))) as [g|] eqn:Eg; [|exfalso; apply Hg; reflexivity].
  apply (parse_one_parse_error (pl_ext p) (seen_file a p m) true _ g e).
  - rewrite seen_file_path. exact Eg.
  - rewrite seen_file_readable. exact Hr.
  - rewrite seen_file_text, seen_file_spans. exact Hp.
Qed.

(* the exit status: never 0, `list` or not, whatever the diff on stdin is *)
Theorem unbalanced_scanned_file_fails_main : forall a p ms tb cd m,
  plan_of a = Ok p -> In m ms ->
  pl_scan p = true -> scanned (seen_file a p m) = true ->
  grammar_of ext_table (pl_ext p) (rf_path (mf_file m)) <> None ->
  rf_readable (mf_file m) = true ->
  parse_file (rf_text (mf_file m)) (rf_spans (mf_file m)) = Err E_PARSE ->
  main_exit (main_model a ms tb cd) <> 0 /\
  (main_exit (main_model a ms tb cd) = 1 \/ main_exit (main_model a ms tb cd) = 101).
Proof.
  intros a p ms tb cd m E Hin Hscan Hsc Hg Hr Hp.
  assert (H : main_exit (main_model a ms tb cd) = 1 \/ main_exit (main_model a ms tb cd) = 101).
  { destruct (model_changes (main_case a p ms tb cd)) as [ch|e|n] eqn:Ech.
    - apply (context_failure_fails_main a p ms tb cd E). left.
      pose proof (unbalanced_scanned_file_in_errs a p ms tb cd m ch E_PARSE Hin Hscan Hsc Hg Hr Hp Ech) as Hin'.
      intros Hnil. rewrite Hnil in Hin'. destruct Hin'.
    - apply (bad_diff_fails_main a p ms tb cd E). intros ch. rewrite Ech. discriminate.
    - apply (bad_diff_fails_main a p ms tb cd E). intros ch. rewrite Ech. discriminate. }
  split; [|exact H]. destruct H as [H|H]; rewrite H; discriminate.
Qed.

(* the same, spelled out for the two shapes of the command line *)
Corollary unbalanced_scanned_file_fails_list : forall a p ms tb cd m,
  plan_of a = Ok p -> ca_list a = true -> In m ms ->
  pl_scan p = true -> scanned (seen_file a p m) = true ->
  grammar_of ext_table (pl_ext p) (rf_path (mf_file m)) <> None ->
  rf_readable (mf_file m) = true ->
  parse_file (rf_text (mf_file m)) (rf_spans (mf_file m)) = Err E_PARSE ->
  exists cr, main_model a ms tb cd = MList cr /\ (cr_panic cr = true \/ cr_errs cr <> []).
Proof.
  intros a p ms tb cd m E Hl Hin Hscan Hsc Hg Hr Hp.
  destruct (unbalanced_scanned_file_fails_main a p ms tb cd m E Hin Hscan Hsc Hg Hr Hp) as [H _].
  rewrite (main_model_ok a p ms tb cd E), Hl in *. eexists. split; [reflexivity|].
  cbn [main_exit] in H. destruct (cr_panic _); [left; reflexivity|]. right.
  destruct (cr_errs _); [exfalso; apply H; reflexivity|discriminate].
Qed.

Corollary unbalanced_scanned_file_fails_run : forall a p ms tb cd m,
  plan_of a = Ok p -> ca_list a = false -> In m ms ->
  pl_scan p = true -> scanned (seen_file a p m) = true ->
  grammar_of ext_table (pl_ext p) (rf_path (mf_file m)) <> None ->
  rf_readable (mf_file m) = true ->
  parse_file (rf_text (mf_file m)) (rf_spans (mf_file m)) = Err E_PARSE ->
  exists v, main_model a ms tb cd = MRun v /\ vr_diags v = [] /\ (vr_panic v = true \/ vr_errs v <> []).
Proof.
  intros a p ms tb cd m E Hl Hin Hscan Hsc Hg Hr Hp.
  rewrite (main_model_ok a p ms tb cd E), Hl. eexists. split; [reflexivity|].
  assert (Hc : cr_panic (model_context (main_case a p ms tb cd)) = true \/
               cr_errs (model_context (main_case a p ms tb cd)) <> []).
  { destruct (model_changes (main_case a p ms tb cd)) as [ch|e|n] eqn:Ech.
    - right. pose proof (unbalanced_scanned_file_in_errs a p ms tb cd m ch E_PARSE Hin Hscan Hsc Hg Hr Hp Ech) as Hin'.
      intros Hnil. rewrite Hnil in Hin'. destruct Hin'.
    - right. unfold model_context. rewrite Ech. cbn [cr_errs]. discriminate.
    - left. unfold model_context. rewrite Ech. reflexivity. }
  unfold model_run. destruct (cr_panic _); [cbn [vr_diags vr_panic]; split; [reflexivity|left; reflexivity]|].
  destruct (cr_errs _) as [|e es]; [destruct Hc as [Hc|Hc]; [discriminate Hc|exfalso; apply Hc; reflexivity]|].
  cbn [vr_diags vr_errs]. split; [reflexivity|]. right. discriminate.
Qed.

(* ---------- diff mode ---------- *)

Lemma main_case_paths a p ms tb cd :
  map rf_path (rc_files (main_case a p ms tb cd)) = map (fun m => rf_path (mf_file m)) ms.
Proof.
  unfold main_case, rcase_of. cbn [rc_files]. destruct (pl_star p); rewrite ?map_map; reflexivity.
Qed.

Lemma main_case_files a p ms tb cd :
  rc_files (main_case a p ms tb cd) = map (seen_file a p) ms.
Proof.
  unfold main_case, rcase_of, seen_file. cbn [rc_files]. destruct (pl_star p); rewrite ?map_map; reflexivity.
Qed.

(* with distinct paths, the file the diff loop finds for the path of m is m as main sees it *)
Lemma find_seen_file a p ms tb cd m :
  NoDup (map (fun m => rf_path (mf_file m)) ms) -> In m ms ->
  find_file (rf_path (mf_file m)) (rc_files (main_case a p ms tb cd)) = Some (seen_file a p m).
Proof.
  intros Hnd Hin. apply find_file_in_nodup.
  - rewrite main_case_paths. exact Hnd.
  - split; [apply seen_file_in; exact Hin|apply seen_file_path].
Qed.

(* a file named in the diff, not ignored, not already scanned: its parse error, or the
   harness's oracle-miss marker, is among the errors of the context *)
Lemma unbalanced_diff_file_in_errs : forall a p ms tb cd ch q lcs f e,
  model_changes (main_case a p ms tb cd) = Ok ch -> In (q, lcs) ch ->
  find_file q (rc_files (main_case a p ms tb cd)) = Some f ->
  rf_ignore f = false -> (pl_scan p && scanned f) = false ->
  grammar_of ext_table (pl_ext p) (rf_path f) <> None ->
  rf_readable f = true ->
  parse_file (rf_text f) (rf_spans f) = Err e ->
  In e (cr_errs (model_context (main_case a p ms tb cd))) \/
  In E_ORACLE_MISS (cr_errs (model_context (main_case a p ms tb cd))).
Proof.
  intros a p ms tb cd ch q lcs f e Hch Hin Hf Hi Hs Hg Hr Hp.
  unfold model_context. rewrite Hch.
  apply (diff_error_reported_partial _ _ _ ch q lcs f e Hin Hf Hi Hs).
  destruct (grammar_of ext_table (pl_ext p) (rf_path f)) as [g|] eqn:Eg; [|exfalso; apply Hg; reflexivity].
  exact (parse_one_parse_error _ f false lcs g e Eg Hr Hp).
Qed.

(* ... and it is the parse error itself when every diff path has an oracle entry *)
Lemma unbalanced_diff_file_in_errs_total : forall a p ms tb cd ch q lcs f e,
  model_changes (main_case a p ms tb cd) = Ok ch -> In (q, lcs) ch ->
  (forall q' l, In (q', l) ch -> find_file q' (rc_files (main_case a p ms tb cd)) <> None) ->
  find_file q (rc_files (main_case a p ms tb cd)) = Some f ->
  rf_ignore f = false -> (pl_scan p && scanned f) = false ->
  grammar_of ext_table (pl_ext p) (rf_path f) <> None ->
  rf_readable f = true ->
  parse_file (rf_text f) (rf_spans f) = Err e ->
  In e (cr_errs (model_context (main_case a p ms tb cd))).
Proof.
  intros a p ms tb cd ch q lcs f e Hch Hin Hall Hf Hi Hs Hg Hr Hp.
  unfold model_context. rewrite Hch.
  apply (diff_error_reported_total_oracle _ _ _ ch q lcs f e Hall Hin Hf Hi Hs).
  destruct (grammar_of ext_table (pl_ext p) (rf_path f)) as [g|] eqn:Eg; [|exfalso; apply Hg; reflexivity].
  exact (parse_one_parse_error _ f false lcs g e Eg Hr Hp).
Qed.

(* ... or when the diff paths before it do *)
Lemma unbalanced_diff_file_in_errs_prefix : forall a p ms tb cd pre post q lcs f e,
  model_changes (main_case a p ms tb cd) = Ok (pre ++ (q, lcs) :: post) ->
  (forall q' l, In (q', l) pre -> find_file q' (rc_files (main_case a p ms tb cd)) <> None) ->
  find_file q (rc_files (main_case a p ms tb cd)) = Some f ->
  rf_ignore f = false -> (pl_scan p && scanned f) = false ->
  grammar_of ext_table (pl_ext p) (rf_path f) <> None ->
  rf_readable f = true ->
  parse_file (rf_text f) (rf_spans f) = Err e ->
  In e (cr_errs (model_context (main_case a p ms tb cd))).
Proof.
  intros a p ms tb cd pre post q lcs f e Hch Hall Hf Hi Hs Hg Hr Hp.
  unfold model_context. rewrite Hch.
  apply (diff_error_reported_prefix _ _ _ pre post q lcs f e Hall Hf Hi Hs).
  destruct (grammar_of ext_table (pl_ext p) (rf_path f)) as [g|] eqn:Eg; [|exfalso; apply Hg; reflexivity].
  exact (parse_one_parse_error _ f false lcs g e Eg Hr Hp).
Qed.

(* the exit status needs no assumption on the oracle entries: either way the context has an error *)
Theorem unbalanced_diff_file_fails_main : forall a p ms tb cd ch q lcs f,
  plan_of a = Ok p ->
  model_changes (main_case a p ms tb cd) = Ok ch -> In (q, lcs) ch ->
  find_file q (rc_files (main_case a p ms tb cd)) = Some f ->
  rf_ignore f = false -> (pl_scan p && scanned f) = false ->
  grammar_of ext_table (pl_ext p) (rf_path f) <> None ->
  rf_readable f = true ->
  parse_file (rf_text f) (rf_spans f) = Err E_PARSE ->
  main_exit (main_model a ms tb cd) <> 0 /\
  (main_exit (main_model a ms tb cd) = 1 \/ main_exit (main_model a ms tb cd) = 101).
Proof.
  intros a p ms tb cd ch q lcs f E Hch Hin Hf Hi Hs Hg Hr Hp.
  assert (H : main_exit (main_model a ms tb cd) = 1 \/ main_exit (main_model a ms tb cd) = 101).
  { apply (context_failure_fails_main a p ms tb cd E). left.
    destruct (unbalanced_diff_file_in_errs a p ms tb cd ch q lcs f E_PARSE Hch Hin Hf Hi Hs Hg Hr Hp) as [H|H];
      intros Hnil; rewrite Hnil in H; destruct H. }
  split; [|exact H]. destruct H as [H|H]; rewrite H; discriminate.
Qed.

(* the same in terms of the file list main was given (distinct paths) *)
Corollary unbalanced_diff_mfile_fails_main : forall a p ms tb cd ch m lcs,
  plan_of a = Ok p -> NoDup (map (fun m => rf_path (mf_file m)) ms) -> In m ms ->
  model_changes (main_case a p ms tb cd) = Ok ch -> In (rf_path (mf_file m), lcs) ch ->
  (if ca_ign_post a =? 0 then mf_ign_pre m else mf_ign_post m) = false ->
  (pl_scan p && scanned (seen_file a p m)) = false ->
  grammar_of ext_table (pl_ext p) (rf_path (mf_file m)) <> None ->
  rf_readable (mf_file m) = true ->
  parse_file (rf_text (mf_file m)) (rf_spans (mf_file m)) = Err E_PARSE ->
  main_exit (main_model a ms tb cd) <> 0 /\
  (main_exit (main_model a ms tb cd) = 1 \/ main_exit (main_model a ms tb cd) = 101).
Proof.
  intros a p ms tb cd ch m lcs E Hnd Hin Hch Hinc Hi Hs Hg Hr Hp.
  apply (unbalanced_diff_file_fails_main a p ms tb cd ch (rf_path (mf_file m)) lcs (seen_file a p m) E Hch Hinc).
  - apply find_seen_file; assumption.
  - rewrite seen_file_ignore. exact Hi.
  - exact Hs.
  - rewrite seen_file_path. exact Hg.
  - rewrite seen_file_readable. exact Hr.
  - rewrite seen_file_text, seen_file_spans. exact Hp.
Qed.

(* every mode at once: a file in scope (Context_proofs.in_scope) with unbalanced tags *)
Theorem unbalanced_in_scope_file_fails_main : forall a p ms tb cd m,
  plan_of a = Ok p -> NoDup (map (fun m => rf_path (mf_file m)) ms) -> In m ms ->
  (forall ch, model_changes (main_case a p ms tb cd) = Ok ch ->
              in_scope (pl_scan p) ch (seen_file a p m) = true) ->
  grammar_of ext_table (pl_ext p) (rf_path (mf_file m)) <> None ->
  rf_readable (mf_file m) = true ->
  parse_file (rf_text (mf_file m)) (rf_spans (mf_file m)) = Err E_PARSE ->
  main_exit (main_model a ms tb cd) <> 0.
Proof.
  intros a p ms tb cd m E Hnd Hin Hscope Hg Hr Hp.
  destruct (model_changes (main_case a p ms tb cd)) as [ch|e|n] eqn:Ech.
  - specialize (Hscope ch eq_refl). unfold in_scope in Hscope.
    destruct (pl_scan p && scanned (seen_file a p m)) eqn:Es.
    + apply andb_true_iff in Es. destruct Es as [Es1 Es2].
      apply (unbalanced_scanned_file_fails_main a p ms tb cd m E Hin Es1 Es2 Hg Hr Hp).
    + cbn [orb] in Hscope. apply andb_true_iff in Hscope. destruct Hscope as [Hi Hex].
      apply negb_true_iff in Hi. apply existsb_exists in Hex. destruct Hex as ([q lcs] & Hinc & Hq).
      cbn [fst] in Hq. apply str_eqb_eq in Hq. subst q. rewrite seen_file_path in Hinc.
      rewrite seen_file_ignore in Hi.
      apply (unbalanced_diff_mfile_fails_main a p ms tb cd ch m lcs E Hnd Hin Ech Hinc Hi Es Hg Hr Hp).
  - assert (H : main_exit (main_model a ms tb cd) = 1 \/ main_exit (main_model a ms tb cd) = 101).
    { apply (bad_diff_fails_main a p ms tb cd E). intros ch. rewrite Ech. discriminate. }
    destruct H as [H|H]; rewrite H; discriminate.
  - assert (H : main_exit (main_model a ms tb cd) = 1 \/ main_exit (main_model a ms tb cd) = 101).
    { apply (bad_diff_fails_main a p ms tb cd E). intros ch. rewrite Ech. discriminate. }
    destruct H as [H|H]; rewrite H; discriminate.
Qed.

(* ================================================================== *)
(* P3 - same input, same verdict: the order of the file list           *)
(* ================================================================== *)

Lemma main_case_files_perm a p ms ms' tb cd : Permutation ms ms' ->
  Permutation (rc_files (main_case a p ms tb cd)) (rc_files (main_case a p ms' tb cd)).
Proof. intros H. rewrite !main_case_files. apply Permutation_map. exact H. Qed.

(* the translation of the diff does not look at the files *)
Lemma main_case_changes_files a p ms ms' tb cd :
  model_changes (main_case a p ms tb cd) = model_changes (main_case a p ms' tb cd).
Proof. reflexivity. Qed.

Lemma find_file_of_mfile a p ms tb cd q :
  (exists m, In m ms /\ rf_path (mf_file m) = q) ->
  find_file q (rc_files (main_case a p ms tb cd)) <> None.
Proof.
  intros (m & Hin & Hq) Hnone. unfold find_file in Hnone.
  pose proof (find_none _ _ Hnone (seen_file a p m) (seen_file_in a p ms tb cd m Hin)) as H.
  cbn beta in H. rewrite seen_file_path, Hq, str_eqb_refl in H. discriminate H.
Qed.

(* the panic flag of the whole run does not depend on the order of the context either *)
Lemma whole_run_panic_perm o en dis ctx ctx' : Permutation ctx ctx' ->
  vr_panic (run_validators o ctx (detected_validators en dis ctx)) =
  vr_panic (run_validators o ctx' (detected_validators en dis ctx')).
Proof.
  intros H. rewrite !run_validators_panic.
  rewrite (perm_existsb _ _ _ (detected_ctx_perm en dis ctx ctx' H)).
  apply existsb_ext_. intros v. apply (run_validator_ctx_perm o ctx ctx' v H).
Qed.

(* the context main builds: contexts and errors are permuted, same panic flag *)
Lemma main_context_file_order : forall a p ms ms' tb cd,
  Permutation ms ms' -> NoDup (map (fun m => rf_path (mf_file m)) ms) ->
  (forall ch, model_changes (main_case a p ms tb cd) = Ok ch ->
     NoDup (map fst ch) /\
     (forall q l, In (q, l) ch -> exists m, In m ms /\ rf_path (mf_file m) = q)) ->
  let cr := model_context (main_case a p ms tb cd) in
  let cr' := model_context (main_case a p ms' tb cd) in
  Permutation (cr_ctx cr) (cr_ctx cr') /\ Permutation (cr_errs cr) (cr_errs cr') /\
  cr_panic cr = cr_panic cr'.
Proof.
  intros a p ms ms' tb cd Hperm Hnd Hch cr cr'. unfold cr, cr', model_context.
  rewrite <- (main_case_changes_files a p ms ms' tb cd).
  destruct (model_changes (main_case a p ms tb cd)) as [ch|e|n] eqn:Ech.
  - destruct (Hch ch eq_refl) as [Hndc Hall].
    apply (build_context_perm (pl_ext p) (rc_files (main_case a p ms tb cd))
             (rc_files (main_case a p ms' tb cd)) (pl_scan p) ch ch).
    + apply main_case_files_perm. exact Hperm.
    + apply Permutation_refl.
    + exact Hndc.
    + rewrite main_case_paths. exact Hnd.
    + intros q l Hin. apply find_file_of_mfile. exact (Hall q l Hin).
  - cbn [cr_ctx cr_errs cr_panic]. repeat split; apply Permutation_refl.
  - cbn [cr_ctx cr_errs cr_panic]. repeat split; apply Permutation_refl.
Qed.

Theorem main_list_file_order : forall a p ms ms' tb cd,
  plan_of a = Ok p -> ca_list a = true ->
  Permutation ms ms' -> NoDup (map (fun m => rf_path (mf_file m)) ms) ->
  (forall ch, model_changes (main_case a p ms tb cd) = Ok ch ->
     NoDup (map fst ch) /\
     (forall q l, In (q, l) ch -> exists m, In m ms /\ rf_path (mf_file m) = q)) ->
  exists cr cr', main_model a ms tb cd = MList cr /\ main_model a ms' tb cd = MList cr' /\
    Permutation (cr_ctx cr) (cr_ctx cr') /\ Permutation (cr_errs cr) (cr_errs cr') /\
    cr_panic cr = cr_panic cr' /\
    main_exit (main_model a ms tb cd) = main_exit (main_model a ms' tb cd).
Proof.
  intros a p ms ms' tb cd E Hl Hperm Hnd Hch.
  pose proof (main_context_file_order a p ms ms' tb cd Hperm Hnd Hch) as H. cbv zeta in H.
  destruct H as (Hc & He & Hp).
  rewrite !(main_model_ok a p _ tb cd E), Hl.
  eexists. eexists. split; [reflexivity|]. split; [reflexivity|].
  split; [exact Hc|]. split; [exact He|]. split; [exact Hp|].
  cbn [main_exit]. rewrite <- Hp. destruct (cr_panic _); [reflexivity|].
  destruct (cr_errs (model_context (main_case a p ms tb cd))) as [|e es] eqn:E1,
           (cr_errs (model_context (main_case a p ms' tb cd))) as [|e' es'] eqn:E2; try reflexivity.
  - apply Permutation_nil in He. discriminate He.
  - apply Permutation_sym, Permutation_nil in He. discriminate He.
Qed.

(* the list of blocks `list` prints is permuted as well *)
Corollary main_list_file_order_blocks : forall a p ms ms' tb cd,
  plan_of a = Ok p -> ca_list a = true ->
  Permutation ms ms' -> NoDup (map (fun m => rf_path (mf_file m)) ms) ->
  (forall ch, model_changes (main_case a p ms tb cd) = Ok ch ->
     NoDup (map fst ch) /\
     (forall q l, In (q, l) ch -> exists m, In m ms /\ rf_path (mf_file m) = q)) ->
  exists cr cr', main_model a ms tb cd = MList cr /\ main_model a ms' tb cd = MList cr' /\
    Permutation (list_of_context (cr_ctx cr)) (list_of_context (cr_ctx cr')).
Proof.
  intros a p ms ms' tb cd E Hl Hperm Hnd Hch.
  destruct (main_list_file_order a p ms ms' tb cd E Hl Hperm Hnd Hch) as (cr & cr' & H1 & H2 & Hc & _).
  exists cr, cr'. split; [exact H1|]. split; [exact H2|].
  unfold list_of_context. apply perm_flat_map. exact Hc.
Qed.

Theorem main_run_file_order : forall a p ms ms' tb cd,
  plan_of a = Ok p -> ca_list a = false ->
  Permutation ms ms' -> NoDup (map (fun m => rf_path (mf_file m)) ms) ->
  (forall ch, model_changes (main_case a p ms tb cd) = Ok ch ->
     NoDup (map fst ch) /\
     (forall q l, In (q, l) ch -> exists m, In m ms /\ rf_path (mf_file m) = q)) ->
  exists v v', main_model a ms tb cd = MRun v /\ main_model a ms' tb cd = MRun v' /\
    Permutation (vr_diags v) (vr_diags v') /\ Permutation (vr_errs v) (vr_errs v') /\
    vr_panic v = vr_panic v' /\
    main_exit (main_model a ms tb cd) = main_exit (main_model a ms' tb cd).
Proof.
  intros a p ms ms' tb cd E Hl Hperm Hnd Hch.
  rewrite !(main_model_ok a p _ tb cd E), Hl.
  eexists. eexists. split; [reflexivity|]. split; [reflexivity|].
  assert (H : Permutation (vr_diags (model_run (main_case a p ms tb cd)))
                          (vr_diags (model_run (main_case a p ms' tb cd))) /\
              Permutation (vr_errs (model_run (main_case a p ms tb cd)))
                          (vr_errs (model_run (main_case a p ms' tb cd))) /\
              exit_code (model_run (main_case a p ms tb cd)) =
              exit_code (model_run (main_case a p ms' tb cd))).
  { destruct (model_changes (main_case a p ms tb cd)) as [ch|e|n] eqn:Ech.
    - destruct (Hch ch eq_refl) as [Hndc Hall].
      apply (model_run_file_order (main_case a p ms tb cd) (main_case a p ms' tb cd) ch);
        try reflexivity.
      + apply main_case_files_perm. exact Hperm.
      + rewrite main_case_paths. exact Hnd.
      + exact Ech.
      + exact Hndc.
      + intros q l Hin. apply find_file_of_mfile. exact (Hall q l Hin).
    - unfold model_run, model_context. rewrite <- (main_case_changes_files a p ms ms' tb cd), Ech.
      cbn [cr_panic cr_errs]. repeat split; apply Permutation_refl.
    - unfold model_run, model_context. rewrite <- (main_case_changes_files a p ms ms' tb cd), Ech.
      cbn [cr_panic cr_errs]. repeat split; apply Permutation_refl. }
  assert (Hpan : vr_panic (model_run (main_case a p ms tb cd)) =
                 vr_panic (model_run (main_case a p ms' tb cd))).
  { pose proof (main_context_file_order a p ms ms' tb cd Hperm Hnd Hch) as Hc. cbv zeta in Hc.
    destruct Hc as (Hc & He & Hp). unfold model_run. rewrite <- Hp.
    destruct (cr_panic (model_context (main_case a p ms tb cd))); [reflexivity|].
    destruct (cr_errs (model_context (main_case a p ms tb cd))) as [|e es] eqn:E1,
             (cr_errs (model_context (main_case a p ms' tb cd))) as [|e' es'] eqn:E2.
    - apply whole_run_panic_perm. exact Hc.
    - apply Permutation_nil in He. discriminate He.
    - apply Permutation_sym, Permutation_nil in He. discriminate He.
    - reflexivity. }
  destruct H as (Hd & He & Hx).
  split; [exact Hd|]. split; [exact He|]. split; [exact Hpan|].
  cbn [main_exit]. rewrite <- Hpan, <- Hx.
  destruct (vr_panic _); [reflexivity|].
  destruct (vr_errs (model_run (main_case a p ms tb cd))) as [|e es] eqn:E1,
           (vr_errs (model_run (main_case a p ms' tb cd))) as [|e' es'] eqn:E2; try reflexivity.
  - apply Permutation_nil in He. discriminate He.
  - apply Permutation_sym, Permutation_nil in He. discriminate He.
Qed.

(* ================================================================== *)
(* P4 - --enable / --disable select validators without side effects    *)
(* ================================================================== *)

(* what an accepted command line hands on: the parsed effective values *)
Lemma plan_fields : forall a p, plan_of a = Ok p ->
  map_opt parse_extension (effective (ca_ext_pre a) (ca_ext_post a)) = Some (pl_ext p) /\
  map_opt parse_validator (effective (ca_dis_pre a) (ca_dis_post a)) = Some (pl_disabled p) /\
  map_opt parse_validator (effective (ca_en_pre a) (ca_en_post a)) = Some (pl_enabled p).
Proof.
  intros a p H. plan_cases H.
  destruct (map_opt parse_extension (effective _ _)); [|discriminate].
  destruct (map_opt parse_validator (effective (ca_dis_pre a) _)); [|discriminate].
  destruct (map_opt parse_validator (effective (ca_en_pre a) _)); [|discriminate].
  destruct (negb (forallb _ _)); [discriminate|]. destruct (_ && _); [discriminate|].
  destruct (negb (ca_globs_ok a)); [discriminate|].
  destruct (negb (if ca_ign_post a =? 0 then _ else _)); [discriminate|].
  destruct (negb (ca_root a)); [discriminate|].
  injection H as <-. cbn [pl_ext pl_disabled pl_enabled]. repeat split; reflexivity.
Qed.

(* two command lines that differ at most in -d / -e (and in what only decides acceptance) *)
Definition same_but_validator_flags (a a' : cliargs) : Prop :=
  ca_ext_pre a = ca_ext_pre a' /\ ca_ext_post a = ca_ext_post a' /\
  ca_ign_post a = ca_ign_post a' /\ ca_nglobs a = ca_nglobs a' /\
  ca_terminal a = ca_terminal a' /\ ca_stdin a = ca_stdin a'.

Lemma same_plan_but_validators : forall a a' p p',
  plan_of a = Ok p -> plan_of a' = Ok p' -> same_but_validator_flags a a' ->
  pl_scan p = pl_scan p' /\ pl_star p = pl_star p' /\ pl_diff p = pl_diff p' /\ pl_ext p = pl_ext p'.
Proof.
  intros a a' p p' H H' (He1 & He2 & Hi & Hg & Ht & Hs).
  destruct (plan_modes a p H) as (Hsc & Hst & Hd & _).
  destruct (plan_modes a' p' H') as (Hsc' & Hst' & Hd' & _).
  destruct (plan_fields a p H) as (Hx & _). destruct (plan_fields a' p' H') as (Hx' & _).
  rewrite Hsc, Hsc', Hst, Hst', Hd, Hd', Hg, Ht, Hs. repeat split; try reflexivity.
  rewrite He1, He2, Hx' in Hx. injection Hx as Hx. symmetry. exact Hx.
Qed.

(* the context does not depend on the validator flags *)
Lemma context_independent_of_validator_flags : forall a a' p p' ms tb cd,
  plan_of a = Ok p -> plan_of a' = Ok p' -> same_but_validator_flags a a' ->
  model_context (main_case a p ms tb cd) = model_context (main_case a' p' ms tb cd).
Proof.
  intros a a' p p' ms tb cd H H' Hsame.
  destruct (same_plan_but_validators a a' p p' H H' Hsame) as (Hsc & Hst & Hd & Hx).
  destruct Hsame as (_ & _ & Hi & _).
  unfold model_context, model_changes, main_case, rcase_of, cdiff_of.
  cbn [rc_files rc_diff rc_scan rc_ext rc_cdiff].
  assert (Hm : map (effective_file a) ms = map (effective_file a') ms).
  { apply map_ext. intros m. unfold effective_file. rewrite Hi. reflexivity. }
  rewrite Hsc, Hst, Hd, Hx, Hm. reflexivity.
Qed.

(* `list` prints the same whatever -d / -e say (cf. list_ignores_validator_flags) *)
Corollary main_list_independent_of_validator_flags : forall a a' p p' ms tb cd,
  plan_of a = Ok p -> plan_of a' = Ok p' -> same_but_validator_flags a a' ->
  ca_list a = true -> ca_list a' = true ->
  main_model a ms tb cd = main_model a' ms tb cd.
Proof.
  intros a a' p p' ms tb cd H H' Hsame Hl Hl'.
  rewrite (main_model_ok a p ms tb cd H), (main_model_ok a' p' ms tb cd H'), Hl, Hl'.
  rewrite (context_independent_of_validator_flags a a' p p' ms tb cd H H' Hsame). reflexivity.
Qed.

(* the run: with a clean context, exactly the detected validators among the active ones *)
Theorem main_run_diags : forall a p ms tb cd,
  plan_of a = Ok p -> ca_list a = false ->
  let cr := model_context (main_case a p ms tb cd) in
  cr_panic cr = false -> cr_errs cr = [] ->
  main_model a ms tb cd =
  MRun (run_validators (oracles_of tb) (cr_ctx cr)
          (detected_validators (pl_enabled p) (pl_disabled p) (cr_ctx cr))).
Proof.
  intros a p ms tb cd H Hl cr Hp He.
  rewrite (main_model_ok a p ms tb cd H), Hl. unfold model_run. fold cr. rewrite Hp, He. reflexivity.
Qed.

(* ... and no diagnostics at all otherwise *)
Theorem main_run_no_diags_on_failure : forall a p ms tb cd,
  plan_of a = Ok p -> ca_list a = false ->
  let cr := model_context (main_case a p ms tb cd) in
  cr_panic cr = true \/ cr_errs cr <> [] ->
  exists v, main_model a ms tb cd = MRun v /\ vr_diags v = [].
Proof.
  intros a p ms tb cd H Hl cr Hf.
  rewrite (main_model_ok a p ms tb cd H), Hl. eexists. split; [reflexivity|].
  unfold model_run. fold cr. destruct (cr_panic cr); [reflexivity|].
  destruct (cr_errs cr); [|reflexivity].
  destruct Hf as [Hf|Hf]; [discriminate Hf|exfalso; apply Hf; reflexivity].
Qed.

(* disable_removes_exactly for a whole set of validators at once *)
Lemma disable_set_removes_exactly : forall o ctx dis,
  Permutation
    (vr_diags (run_validators o ctx (detected_validators [] dis ctx)))
    (filter (fun pd => negb (existsb (N.eqb (d_code (snd pd))) dis))
            (vr_diags (run_validators o ctx (detected_validators [] [] ctx)))).
Proof.
  intros o ctx dis. induction dis as [|V dis IH].
  - cbn [existsb negb]. rewrite filter_all_true; [apply Permutation_refl|reflexivity].
  - assert (HV : Permutation
        (vr_diags (run_validators o ctx (detected_validators [] (V :: dis) ctx)))
        (filter (fun pd => negb (d_code (snd pd) =? V))
                (vr_diags (run_validators o ctx (detected_validators [] dis ctx))))).
    { eapply perm_trans; [apply run_detected_diags|].
      apply Permutation_sym.
      eapply perm_trans; [apply perm_filter, run_detected_diags|].
      rewrite (filter_code_flat_map o ctx (fun c => negb (c =? V))) by apply fired_active_subset.
      unfold active_validators. rewrite !filter_filter.
      erewrite filter_ext_in_; [apply Permutation_refl|].
      intros x _. cbn [existsb].
      destruct (x =? V), (existsb (N.eqb x) dis), (fires ctx x); reflexivity. }
    eapply perm_trans; [exact HV|].
    eapply perm_trans; [apply perm_filter; exact IH|].
    rewrite filter_filter. erewrite filter_ext_in_; [apply Permutation_refl|].
    intros pd _. cbn [existsb]. destruct (d_code (snd pd) =? V), (existsb _ dis); reflexivity.
Qed.

(* enable_keeps_exactly without its (unused) side condition *)
Lemma enable_set_keeps_exactly : forall o ctx en, en <> [] ->
  Permutation
    (vr_diags (run_validators o ctx (detected_validators en [] ctx)))
    (filter (fun pd => existsb (N.eqb (d_code (snd pd))) en)
            (vr_diags (run_validators o ctx (detected_validators [] [] ctx)))).
Proof.
  intros o ctx en Hne.
  eapply perm_trans; [apply run_detected_diags|].
  apply Permutation_sym.
  eapply perm_trans; [apply perm_filter, run_detected_diags|].
  rewrite (filter_code_flat_map o ctx (fun c => existsb (N.eqb c) en)) by apply fired_active_subset.
  unfold active_validators. rewrite !filter_filter.
  destruct en as [|e en']; [congruence|].
  erewrite filter_ext_in_; [apply Permutation_refl|].
  intros x _. cbn [existsb negb andb].
  destruct (x =? e), (existsb (N.eqb x) en'), (fires ctx x); reflexivity.
Qed.

(* the two runs of main side by side: same context, validator lists of the two plans *)
Lemma main_runs_same_context : forall a a0 p p0 ms tb cd,
  plan_of a = Ok p -> plan_of a0 = Ok p0 -> same_but_validator_flags a a0 ->
  ca_list a = false -> ca_list a0 = false ->
  let cr := model_context (main_case a0 p0 ms tb cd) in
  (cr_panic cr = false /\ cr_errs cr = [] /\
   main_model a ms tb cd =
     MRun (run_validators (oracles_of tb) (cr_ctx cr)
             (detected_validators (pl_enabled p) (pl_disabled p) (cr_ctx cr))) /\
   main_model a0 ms tb cd =
     MRun (run_validators (oracles_of tb) (cr_ctx cr)
             (detected_validators (pl_enabled p0) (pl_disabled p0) (cr_ctx cr)))) \/
  ((cr_panic cr = true \/ cr_errs cr <> []) /\
   main_model a ms tb cd = main_model a0 ms tb cd /\
   exists v, main_model a0 ms tb cd = MRun v /\ vr_diags v = []).
Proof.
  intros a a0 p p0 ms tb cd H H0 Hsame Hl Hl0 cr.
  pose proof (context_independent_of_validator_flags a a0 p p0 ms tb cd H H0 Hsame) as Hc.
  destruct (cr_panic cr) eqn:Ep; [|destruct (cr_errs cr) as [|e es] eqn:Ee].
  - right. split; [left; reflexivity|].
    rewrite (main_model_ok a p ms tb cd H), (main_model_ok a0 p0 ms tb cd H0), Hl, Hl0.
    unfold model_run. rewrite Hc. fold cr. rewrite Ep. split; [reflexivity|].
    eexists. split; reflexivity.
  - left. split; [reflexivity|]. split; [reflexivity|]. split.
    + rewrite (main_run_diags a p ms tb cd H Hl); rewrite Hc; fold cr; [reflexivity|exact Ep|exact Ee].
    + rewrite (main_run_diags a0 p0 ms tb cd H0 Hl0); fold cr; [reflexivity|exact Ep|exact Ee].
  - right. split; [right; discriminate|].
    rewrite (main_model_ok a p ms tb cd H), (main_model_ok a0 p0 ms tb cd H0), Hl, Hl0.
    unfold model_run. rewrite Hc. fold cr. rewrite Ep, Ee. split; [reflexivity|].
    eexists. split; reflexivity.
Qed.

(* --disable, in terms of the plans: nothing enabled, the reference run disables nothing *)
Theorem main_disable_removes_exactly_plan : forall a a0 p p0 ms tb cd,
  plan_of a = Ok p -> plan_of a0 = Ok p0 -> same_but_validator_flags a a0 ->
  ca_list a = false -> ca_list a0 = false ->
  pl_enabled p = [] -> pl_enabled p0 = [] -> pl_disabled p0 = [] ->
  exists v v0, main_model a ms tb cd = MRun v /\ main_model a0 ms tb cd = MRun v0 /\
    Permutation (vr_diags v)
      (filter (fun pd => negb (existsb (N.eqb (d_code (snd pd))) (pl_disabled p))) (vr_diags v0)).
Proof.
  intros a a0 p p0 ms tb cd H H0 Hsame Hl Hl0 Hen Hen0 Hdis0.
  destruct (main_runs_same_context a a0 p p0 ms tb cd H H0 Hsame Hl Hl0)
    as [(_ & _ & Hv & Hv0)|(_ & Heq & v & Hv & Hd)].
  - rewrite Hv, Hv0, Hen, Hen0, Hdis0. eexists. eexists. split; [reflexivity|]. split; [reflexivity|].
    apply disable_set_removes_exactly.
  - rewrite Heq, Hv. exists v, v. split; [reflexivity|]. split; [reflexivity|].
    rewrite Hd. apply Permutation_refl.
Qed.

(* --disable, in terms of the command lines: a0 has no -d / -e at all, a has the -d values
   `names` (before the subcommand; none after it: see F12) which parse to the set dis *)
Theorem main_disable_removes_exactly : forall a a0 p p0 ms tb cd,
  plan_of a = Ok p -> plan_of a0 = Ok p0 -> same_but_validator_flags a a0 ->
  ca_list a = false -> ca_list a0 = false ->
  ca_dis_pre a0 = [] -> ca_dis_post a0 = [] -> ca_dis_post a = [] ->
  ca_en_pre a = [] -> ca_en_post a = [] -> ca_en_pre a0 = [] -> ca_en_post a0 = [] ->
  exists dis v v0,
    map_opt parse_validator (ca_dis_pre a) = Some dis /\
    main_model a ms tb cd = MRun v /\ main_model a0 ms tb cd = MRun v0 /\
    Permutation (vr_diags v)
      (filter (fun pd => negb (existsb (N.eqb (d_code (snd pd))) dis)) (vr_diags v0)).
Proof.
  intros a a0 p p0 ms tb cd H H0 Hsame Hl Hl0 Hd0 Hd0' Hd' He He' He0 He0'.
  destruct (plan_fields a p H) as (_ & Hdis & Hen).
  destruct (plan_fields a0 p0 H0) as (_ & Hdis0 & Hen0).
  rewrite Hd' in Hdis. rewrite He, He' in Hen. rewrite Hd0, Hd0' in Hdis0. rewrite He0, He0' in Hen0.
  cbn [effective map_opt] in Hdis, Hen, Hdis0, Hen0.
  injection Hen as Hen. injection Hen0 as Hen0. injection Hdis0 as Hdis0.
  destruct (main_disable_removes_exactly_plan a a0 p p0 ms tb cd H H0 Hsame Hl Hl0
              (eq_sym Hen) (eq_sym Hen0) (eq_sym Hdis0)) as (v & v0 & Hv & Hv0 & Hperm).
  exists (pl_disabled p), v, v0. split; [exact Hdis|]. split; [exact Hv|]. split; [exact Hv0|exact Hperm].
Qed.

(* --enable *)
Theorem main_enable_keeps_exactly_plan : forall a a0 p p0 ms tb cd,
  plan_of a = Ok p -> plan_of a0 = Ok p0 -> same_but_validator_flags a a0 ->
  ca_list a = false -> ca_list a0 = false ->
  pl_enabled p <> [] -> pl_disabled p = [] -> pl_enabled p0 = [] -> pl_disabled p0 = [] ->
  exists v v0, main_model a ms tb cd = MRun v /\ main_model a0 ms tb cd = MRun v0 /\
    Permutation (vr_diags v)
      (filter (fun pd => existsb (N.eqb (d_code (snd pd))) (pl_enabled p)) (vr_diags v0)).
Proof.
  intros a a0 p p0 ms tb cd H H0 Hsame Hl Hl0 Hen Hdis Hen0 Hdis0.
  destruct (main_runs_same_context a a0 p p0 ms tb cd H H0 Hsame Hl Hl0)
    as [(_ & _ & Hv & Hv0)|(_ & Heq & v & Hv & Hd)].
  - rewrite Hv, Hv0, Hdis, Hen0, Hdis0. eexists. eexists. split; [reflexivity|]. split; [reflexivity|].
    apply enable_set_keeps_exactly. exact Hen.
  - rewrite Heq, Hv. exists v, v. split; [reflexivity|]. split; [reflexivity|].
    rewrite Hd. apply Permutation_refl.
Qed.

Theorem main_enable_keeps_exactly : forall a a0 p p0 ms tb cd,
  plan_of a = Ok p -> plan_of a0 = Ok p0 -> same_but_validator_flags a a0 ->
  ca_list a = false -> ca_list a0 = false ->
  ca_en_pre a <> [] -> ca_en_post a = [] -> ca_dis_pre a = [] -> ca_dis_post a = [] ->
  ca_en_pre a0 = [] -> ca_en_post a0 = [] -> ca_dis_pre a0 = [] -> ca_dis_post a0 = [] ->
  exists en v v0,
    map_opt parse_validator (ca_en_pre a) = Some en /\
    main_model a ms tb cd = MRun v /\ main_model a0 ms tb cd = MRun v0 /\
    Permutation (vr_diags v)
      (filter (fun pd => existsb (N.eqb (d_code (snd pd))) en) (vr_diags v0)).
Proof.
  intros a a0 p p0 ms tb cd H H0 Hsame Hl Hl0 Hne He' Hd Hd' He0 He0' Hd0 Hd0'.
  destruct (plan_fields a p H) as (_ & Hdis & Hen).
  destruct (plan_fields a0 p0 H0) as (_ & Hdis0 & Hen0).
  rewrite He' in Hen. rewrite Hd, Hd' in Hdis. rewrite Hd0, Hd0' in Hdis0. rewrite He0, He0' in Hen0.
  cbn [effective map_opt] in Hdis, Hen, Hdis0, Hen0.
  injection Hdis as Hdis. injection Hen0 as Hen0. injection Hdis0 as Hdis0.
  assert (Hne' : pl_enabled p <> []).
  { intros Hnil. rewrite Hnil in Hen. apply map_opt_length in Hen.
    destruct (ca_en_pre a); [apply Hne; reflexivity|discriminate Hen]. }
  destruct (main_enable_keeps_exactly_plan a a0 p p0 ms tb cd H H0 Hsame Hl Hl0
              Hne' (eq_sym Hdis) (eq_sym Hen0) (eq_sym Hdis0)) as (v & v0 & Hv & Hv0 & Hperm).
  exists (pl_enabled p), v, v0. split; [exact Hen|]. split; [exact Hv|]. split; [exact Hv0|exact Hperm].
Qed.

(* the values -d / -e parse to are registered validators, so the sets `dis` / `en` above are
   sets of validator codes in the sense of Run_proofs (disable_removes_exactly, enable_keeps_exactly) *)
Lemma index_of_bound s : forall l i n, index_of s l i = Some n -> i <= n /\ n < i + N.of_nat (length l).
Proof.
  induction l as [|x l IH]; intros i n H; cbn [index_of] in H; [discriminate H|].
  destruct (str_eqb s x).
  - injection H as <-. cbn [length]. lia.
  - apply IH in H. cbn [length]. lia.
Qed.

Theorem parse_validator_registered : forall s v, parse_validator s = Some v ->
  In s validator_names /\ In v all_validators.
Proof.
  intros s v H. split; [exact (index_of_some s _ _ _ H)|].
  apply index_of_bound in H. unfold validator_names in H. cbn [length] in H.
  unfold all_validators. cbn [In].
  assert (Hc : v = 0 \/ v = 1 \/ v = 2 \/ v = 3 \/ v = 4 \/ v = 5 \/ v = 6) by lia.
  destruct Hc as [-> | [-> | [-> | [-> | [-> | [-> | ->]]]]]]; tauto.
Qed.

Corollary plan_validators_registered : forall a p v, plan_of a = Ok p ->
  In v (pl_disabled p) \/ In v (pl_enabled p) -> In v all_validators.
Proof.
  intros a p v H Hin. destruct (plan_fields a p H) as (_ & Hdis & Hen).
  assert (Hgen : forall l ys, map_opt parse_validator l = Some ys -> In v ys -> In v all_validators).
  { induction l as [|x l IH]; intros ys Hm Hv; cbn [map_opt] in Hm.
    - injection Hm as <-. destruct Hv.
    - destruct (parse_validator x) as [y|] eqn:Ey; [|discriminate Hm].
      destruct (map_opt parse_validator l) as [ys'|]; [|discriminate Hm].
      injection Hm as <-. destruct Hv as [<-|Hv]; [exact (proj2 (parse_validator_registered x y Ey))|].
      exact (IH ys' eq_refl Hv). }
  destruct Hin as [Hin|Hin]; [exact (Hgen _ _ Hdis Hin)|exact (Hgen _ _ Hen Hin)].
Qed.

(* ================================================================== *)
Print Assumptions main_exit_range.
Print Assumptions main_exit_zero_iff.
Print Assumptions main_exit_101_iff_panic.
Print Assumptions unbalanced_scanned_file_fails_main.
Print Assumptions unbalanced_scanned_file_fails_list.
Print Assumptions unbalanced_scanned_file_fails_run.
Print Assumptions unbalanced_diff_file_fails_main.
Print Assumptions unbalanced_diff_mfile_fails_main.
Print Assumptions unbalanced_in_scope_file_fails_main.
Print Assumptions main_list_file_order.
Print Assumptions main_list_file_order_blocks.
Print Assumptions main_run_file_order.
Print Assumptions context_independent_of_validator_flags.
Print Assumptions main_run_diags.
Print Assumptions main_disable_removes_exactly.
Print Assumptions main_enable_keeps_exactly.
Print Assumptions plan_validators_registered.

(* Keys_proofs.v - keep-sorted, keep-unique, line-pattern: the scans report
   exactly the first offending key, for key sequences of any length. *)
From BW Require Import SpecKeys.
From BWP Require Import TextFacts.
From Coq Require Import ZifyBool ZifyN ZifyNat.

Arguments N.add : simpl never.
Arguments N.sub : simpl never.
Arguments N.eqb : simpl never.
Arguments N.ltb : simpl never.
Arguments N.leb : simpl never.

(* ================= keep-sorted ================= *)
Section Sorted.
Context (viol : str -> str -> res bool).
Hypothesis viol_total : forall a b, exists r, viol a b = Ok r.

(* every adjacent pair, starting from `prev`, is in order *)
Fixpoint InOrder (prev : str) (ks : list key) : Prop :=
  match ks with
  | [] => True
  | k :: ks' => viol prev (k_val k) = Ok false /\ InOrder (k_val k) ks'
  end.

(* k is the first key strictly out of order w.r.t. its predecessor *)
Fixpoint FirstBad (prev : str) (ks : list key) (k : key) : Prop :=
  match ks with
  | [] => False
  | x :: ks' =>
    (viol prev (k_val x) = Ok true /\ x = k) \/
    (viol prev (k_val x) = Ok false /\ FirstBad (k_val x) ks' k)
  end.

Lemma ks_scan_none prev ks : ks_scan viol prev ks = Ok None <-> InOrder prev ks.
Proof.
  revert prev; induction ks as [|x ks IH]; intros prev; cbn [ks_scan InOrder].
  - tauto.
  - destruct (viol_total prev (k_val x)) as [r Hr]. rewrite Hr. cbn [bind].
    destruct r.
    + split; [discriminate|]. intros [H _]; congruence.
    + rewrite IH. split; [intros H; split; [reflexivity|exact H]|intros [_ H]; exact H].
Qed.

Lemma ks_scan_some prev ks k : ks_scan viol prev ks = Ok (Some k) <-> FirstBad prev ks k.
Proof.
  revert prev; induction ks as [|x ks IH]; intros prev; cbn [ks_scan FirstBad].
  - split; [discriminate|tauto].
  - destruct (viol_total prev (k_val x)) as [r Hr]. rewrite Hr. cbn [bind].
    destruct r.
    + split.
      * intros H; inversion H; subst. left; auto.
      * intros [[_ ->]|[H _]]; [reflexivity|congruence].
    + rewrite IH. split.
      * intros H; right; auto.
      * intros [[H _]|[_ H]]; [congruence|exact H].
Qed.

Lemma ks_scan_total prev ks : exists r, ks_scan viol prev ks = Ok r.
Proof.
  revert prev; induction ks as [|x ks IH]; intros prev; cbn [ks_scan]; [eauto|].
  destruct (viol_total prev (k_val x)) as [r Hr]. rewrite Hr. cbn [bind].
  destruct r; eauto.
Qed.

(* index formulations *)
Definition pair_at (ks : list key) (i : nat) (a b : key) : Prop :=
  nth_error ks i = Some a /\ nth_error ks (S i) = Some b.

Lemma InOrder_index k0 ks :
  InOrder (k_val k0) ks <->
  forall i a b, pair_at (k0 :: ks) i a b -> viol (k_val a) (k_val b) = Ok false.
Proof.
  revert k0; induction ks as [|x ks IH]; intros k0; cbn [InOrder].
  - split; [|tauto]. intros _ i a b [Ha Hb]. destruct i as [|[|i]]; cbn in Hb; discriminate.
  - rewrite IH. split.
    + intros [H0 H] i a b [Ha Hb]. destruct i as [|i].
      * cbn in Ha, Hb. inversion Ha; inversion Hb; subst. exact H0.
      * apply (H i a b). split; assumption.
    + intros H. split.
      * apply (H 0%nat k0 x). split; reflexivity.
      * intros i a b [Ha Hb]. apply (H (S i) a b). split; assumption.
Qed.

Lemma FirstBad_index k0 ks k :
  FirstBad (k_val k0) ks k <->
  exists i a, pair_at (k0 :: ks) i a k /\ viol (k_val a) (k_val k) = Ok true /\
              forall j x y, (j < i)%nat -> pair_at (k0 :: ks) j x y -> viol (k_val x) (k_val y) = Ok false.
Proof.
  revert k0; induction ks as [|x ks IH]; intros k0; cbn [FirstBad].
  - split; [tauto|]. intros (i & a & [Ha Hb] & _). destruct i as [|[|i]]; cbn in Hb; discriminate.
  - rewrite IH. split.
    + intros [[Hv ->]|[Hv (i & a & [Ha Hb] & Hbad & Hmin)]].
      * exists 0%nat, k0. split; [split; reflexivity|]. split; [exact Hv|]. intros j ? ? Hj; lia.
      * exists (S i), a. split; [split; assumption|]. split; [exact Hbad|].
        intros j u v Hj [Hu Hv']. destruct j as [|j].
        -- cbn in Hu, Hv'. inversion Hu; inversion Hv'; subst. exact Hv.
        -- apply (Hmin j u v); [lia|split; assumption].
    + intros (i & a & [Ha Hb] & Hbad & Hmin). destruct i as [|i].
      * cbn in Ha, Hb. inversion Ha; inversion Hb; subst. left; auto.
      * right. split.
        -- apply (Hmin 0%nat k0 x); [lia|split; reflexivity].
        -- exists i, a. split; [split; assumption|]. split; [exact Hbad|].
           intros j u v Hj [Hu Hv]. apply (Hmin (S j) u v); [lia|split; assumption].
Qed.

Theorem ks_check_none ks :
  ks_check viol ks = Ok None <->
  forall i a b, pair_at ks i a b -> viol (k_val a) (k_val b) = Ok false.
Proof.
  destruct ks as [|k0 ks]; cbn [ks_check].
  - split; [|reflexivity]. intros _ i a b [Ha _]. destruct i; discriminate.
  - rewrite ks_scan_none. apply InOrder_index.
Qed.

Theorem ks_check_some ks k :
  ks_check viol ks = Ok (Some k) <->
  exists i a, pair_at ks i a k /\ viol (k_val a) (k_val k) = Ok true /\
              forall j x y, (j < i)%nat -> pair_at ks j x y -> viol (k_val x) (k_val y) = Ok false.
Proof.
  destruct ks as [|k0 ks]; cbn [ks_check].
  - split; [discriminate|]. intros (i & a & [Ha _] & _). destruct i; discriminate.
  - rewrite ks_scan_some. apply FirstBad_index.
Qed.

Theorem ks_check_total ks : exists r, ks_check viol ks = Ok r.
Proof. destruct ks as [|k0 ks]; cbn [ks_check]; [eauto|apply ks_scan_total]. Qed.
End Sorted.

(* ---------- the order itself ---------- *)
Lemma str_cmp_refl s : str_cmp s s = Eq.
Proof. induction s as [|c s IH]; cbn [str_cmp]; [reflexivity|]. rewrite N.compare_refl. exact IH. Qed.

Lemma str_cmp_antisym a b : str_cmp b a = CompOpp (str_cmp a b).
Proof.
  revert b; induction a as [|x a IH]; intros [|y b]; cbn [str_cmp CompOpp]; try reflexivity.
  rewrite (N.compare_antisym x y). destruct (x ?= y); cbn [CompOpp]; auto.
Qed.

Lemma str_cmp_eq a b : str_cmp a b = Eq <-> a = b.
Proof.
  revert b; induction a as [|x a IH]; intros [|y b]; cbn [str_cmp]; try (split; [discriminate|discriminate]); [tauto|].
  destruct (x ?= y) eqn:E.
  - apply N.compare_eq in E. subst. rewrite IH. split; [intros ->; reflexivity|intros H; inversion H; reflexivity].
  - split; [discriminate|]. intros H; inversion H; subst. rewrite N.compare_refl in E. discriminate.
  - split; [discriminate|]. intros H; inversion H; subst. rewrite N.compare_refl in E. discriminate.
Qed.

(* Lt is the strict code-point lexicographic order: a proper prefix, or the
   first differing code point is smaller *)
Lemma str_cmp_lt a b :
  str_cmp a b = Lt <->
  exists p x y a' b', (a = p /\ b = p ++ y :: b') \/ (a = p ++ x :: a' /\ b = p ++ y :: b' /\ x < y).
Proof.
  revert b; induction a as [|x a IH]; intros [|y b]; cbn [str_cmp].
  - split; [discriminate|]. intros (p & u & v & a' & b' & [[_ H]|[H _]]); destruct p; discriminate.
  - split; [|reflexivity]. intros _. exists [], 0, y, [], b. left; auto.
  - split; [discriminate|]. intros (p & u & v & a' & b' & [[_ H]|[_ [H _]]]); destruct p; discriminate.
  - destruct (x ?= y) eqn:E.
    + apply N.compare_eq in E. subst y. rewrite IH. split.
      * intros (p & u & v & a' & b' & [[-> ->]|[-> [-> H]]]).
        -- exists (x :: p), u, v, a', b'. left; auto.
        -- exists (x :: p), u, v, a', b'. right; auto.
      * intros (p & u & v & a' & b' & [[H1 H2]|[H1 [H2 H3]]]).
        -- destruct p as [|c p]; [discriminate|]. cbn in H1, H2. inversion H1; inversion H2; subst.
           exists p, u, v, a', b'. left; auto.
        -- destruct p as [|c p].
           ++ cbn in H1, H2. inversion H1; inversion H2; subst. lia.
           ++ cbn in H1, H2. inversion H1; inversion H2; subst.
              exists p, u, v, a', b'. right; auto.
    + split; [intros _|reflexivity]. apply N.compare_lt_iff in E.
      exists [], x, y, a, b. right; auto.
    + split; [discriminate|]. apply N.compare_gt_iff in E.
      intros (p & u & v & a' & b' & [[H1 H2]|[H1 [H2 H3]]]).
      * destruct p; [discriminate|]. cbn in H1, H2. inversion H1; inversion H2; subst. lia.
      * destruct p; cbn in H1, H2; inversion H1; inversion H2; subst; lia.
Qed.

Lemma f64_cmp_refl a : f64_cmp a a = Eq.
Proof. unfold f64_cmp. destruct (f64_is_nan a || f64_is_nan a); apply N.compare_refl. Qed.

(* the two zeros compare equal *)
Lemma f64_zeros_equal : f64_cmp 0 two63 = Eq /\ f64_cmp two63 0 = Eq.
Proof. split; vm_compute; reflexivity. Qed.

(* equal neighbours are never out of order, in either direction and format *)
Lemma equal_keys_in_order o fmt (asc : bool) a r :
  sort_cmp o fmt a a = Ok r -> cmp_eqb r (if asc then Gt else Lt) = false.
Proof.
  destruct fmt; cbn [sort_cmp].
  - intros H; inversion H; subst. rewrite str_cmp_refl. destruct asc; reflexivity.
  - destruct (o_f64 o a) as [[x|]|]; try discriminate.
    intros H; inversion H; subst. rewrite f64_cmp_refl. destruct asc; reflexivity.
Qed.

(* ---------- direction and format parsing ---------- *)
Lemma str_eqb_refl s : str_eqb s s = true.
Proof. induction s as [|c s IH]; cbn; [reflexivity|rewrite N.eqb_refl; exact IH]. Qed.

Lemma str_eqb_eq a b : str_eqb a b = true <-> a = b.
Proof.
  revert b; induction a as [|x a IH]; intros [|y b]; cbn [str_eqb]; try (split; discriminate); [tauto|].
  rewrite andb_true_iff, N.eqb_eq, IH. split; [intros [-> ->]; reflexivity|intros H; inversion H; auto].
Qed.

Lemma parse_direction_blank v : all_ws v -> parse_direction v = Ok true.
Proof. intros H. unfold parse_direction. rewrite trim_nil_of_all_ws by exact H. reflexivity. Qed.

Lemma parse_direction_asc v :
  eq_ignore_ascii_case v (T "asc") = true -> parse_direction v = Ok true.
Proof.
  unfold eq_ignore_ascii_case, parse_direction. intros H.
  change (str_ascii_lower (T "asc")) with (T "asc") in H.
  destruct (trim v); [reflexivity|]. rewrite H. reflexivity.
Qed.

Lemma parse_direction_desc v :
  eq_ignore_ascii_case v (T "desc") = true -> parse_direction v = Ok false.
Proof.
  unfold eq_ignore_ascii_case, parse_direction. intros H.
  change (str_ascii_lower (T "desc")) with (T "desc") in H.
  apply str_eqb_eq in H.
  destruct (trim v) eqn:E.
  - apply trim_nil_iff in E. exfalso.
    change (T "desc") with [100; 101; 115; 99] in H.
    destruct v as [|c v]; [discriminate|]. inversion E as [|? ? Hc _]; subst.
    unfold str_ascii_lower in H. cbn [map] in H. injection H as Hc' _.
    unfold ascii_lower in Hc'. unfold is_ws in Hc.
    destruct ((65 <=? c) && (c <=? 90)) eqn:Hr; lia.
  - rewrite H. reflexivity.
Qed.

(* ---------- keys ---------- *)
Lemma keys_trim_vals idx ls :
  map k_val (keys_trim idx ls) = filter (fun t => match t with [] => false | _ => true end) (map trim ls).
Proof.
  revert idx; induction ls as [|l ls IH]; intros idx; cbn [keys_trim map filter]; [reflexivity|].
  unfold trimmed_key. destruct (trim l) eqn:E; [apply IH|].
  cbn [map k_val]. rewrite IH. reflexivity.
Qed.

Lemma keys_trim_idx idx ls k :
  In k (keys_trim idx ls) ->
  exists i l, nth_error ls i = Some l /\ k_idx k = idx + N.of_nat i /\ k_val k = trim l /\
              k_a k = trim_off l + 1 /\ k_b k = k_a k + blen (trim l) - 1.
Proof.
  revert idx; induction ls as [|l ls IH]; intros idx; cbn [keys_trim]; [intros []|].
  unfold trimmed_key. destruct (trim l) eqn:E.
  - intros H. destruct (IH _ H) as (i & l' & Hn & Hi & Hr). exists (S i), l'. split; [exact Hn|]. split; [lia|exact Hr].
  - intros [<-|H].
    + exists 0%nat, l. cbn [nth_error k_idx k_val k_a k_b]. rewrite E. repeat split; lia.
    + destruct (IH _ H) as (i & l' & Hn & Hi & Hr). exists (S i), l'. split; [exact Hn|]. split; [lia|exact Hr].
Qed.

(* ================= keep-unique ================= *)
Lemma mem_str_In s l : mem_str s l = true <-> In s l.
Proof.
  induction l as [|x l IH]; cbn [mem_str In]; [split; [discriminate|tauto]|].
  rewrite orb_true_iff, IH, str_eqb_eq. split; intros [H|H]; auto.
Qed.

Lemma ku_scan_none seen ks :
  ku_scan seen ks = None <-> NoDup (map k_val ks) /\ forall k, In k ks -> ~ In (k_val k) seen.
Proof.
  revert seen; induction ks as [|x ks IH]; intros seen; cbn [ku_scan map].
  - split; [intros _; split; [constructor|intros k []]|reflexivity].
  - destruct (mem_str (k_val x) seen) eqn:E.
    + apply mem_str_In in E. split; [discriminate|]. intros [_ H]. exfalso. apply (H x); [left; reflexivity|exact E].
    + assert (Hn : ~ In (k_val x) seen) by (rewrite <- mem_str_In; congruence).
      rewrite IH. split.
      * intros [Hd Hs]. split.
        -- constructor; [|exact Hd]. intros Hin. apply in_map_iff in Hin. destruct Hin as (k & Hk & Hin).
           apply (Hs k Hin). left. symmetry. exact Hk.
        -- intros k [<-|Hin]; [exact Hn|]. intros Hk. apply (Hs k Hin). right. exact Hk.
      * intros [Hd Hs]. inversion Hd as [|? ? Hx Hd']; subst. split; [exact Hd'|].
        intros k Hin [Hk|Hk].
        -- apply Hx. rewrite Hk. apply in_map. exact Hin.
        -- apply (Hs k); [right; exact Hin|exact Hk].
Qed.

(* the reported key is the first one whose value already occurred *)
Lemma ku_scan_some seen ks k :
  ku_scan seen ks = Some k <->
  exists pre post, ks = pre ++ k :: post /\
    (In (k_val k) seen \/ In (k_val k) (map k_val pre)) /\
    NoDup (map k_val pre) /\ (forall x, In x pre -> ~ In (k_val x) seen).
Proof.
  revert seen; induction ks as [|x ks IH]; intros seen; cbn [ku_scan].
  - split; [discriminate|]. intros (pre & post & H & _). destruct pre; discriminate.
  - destruct (mem_str (k_val x) seen) eqn:E.
    + apply mem_str_In in E. split.
      * intros H; inversion H; subst. exists [], ks. split; [reflexivity|]. split; [left; exact E|].
        split; [constructor|intros ? []].
      * intros (pre & post & H & Hin & Hd & Hs). destruct pre as [|y pre].
        -- cbn in H. inversion H; reflexivity.
        -- cbn in H. inversion H; subst. exfalso. apply (Hs y); [left; reflexivity|exact E].
    + assert (Hn : ~ In (k_val x) seen) by (rewrite <- mem_str_In; congruence).
      rewrite IH. split.
      * intros (pre & post & -> & Hin & Hd & Hs). exists (x :: pre), post. split; [reflexivity|].
        split.
        -- destruct Hin as [[Hin|Hin]|Hin].
           ++ right. left. exact Hin.
           ++ left. exact Hin.
           ++ right. right. exact Hin.
        -- split.
           ++ cbn [map]. constructor; [|exact Hd]. intros Hin'. apply in_map_iff in Hin'.
              destruct Hin' as (y & Hy & Hin'). apply (Hs y Hin'). left. symmetry; exact Hy.
           ++ intros y [<-|Hy]; [exact Hn|]. intros Hk. apply (Hs y Hy). right; exact Hk.
      * intros (pre & post & H & Hin & Hd & Hs). destruct pre as [|y pre].
        -- cbn in H. inversion H; subst. destruct Hin as [Hin|[]]. contradiction.
        -- cbn in H. inversion H; subst. cbn [map] in Hd. inversion Hd as [|? ? Hy Hd']; subst.
           exists pre, post. split; [reflexivity|]. split.
           ++ destruct Hin as [Hin|[Hin|Hin]].
              ** left. right. exact Hin.
              ** left. left. exact Hin.
              ** right. exact Hin.
           ++ split; [exact Hd'|]. intros z Hz [Hk|Hk].
              ** apply Hy. rewrite Hk. apply in_map. exact Hz.
              ** apply (Hs z); [right; exact Hz|exact Hk].
Qed.

(* ================= line-pattern ================= *)
(* a line fails when its trimmed text is non-empty and the regex has no match in it *)
Definition lp_fails (o : oracles) (pat : str) (l : str) : Prop :=
  trim l <> [] /\ o_rx o pat (trim l) = Some None.
Definition lp_passes (o : oracles) (pat : str) (l : str) : Prop :=
  trim l = [] \/ exists m, o_rx o pat (trim l) = Some (Some m).

Lemma lp_scan_none o pat idx ls :
  lp_scan o pat idx ls = Ok None <-> Forall (lp_passes o pat) ls.
Proof.
  revert idx; induction ls as [|l ls IH]; intros idx; cbn [lp_scan].
  - split; [constructor|reflexivity].
  - unfold trimmed_key. destruct (trim l) as [|c t] eqn:E.
    + rewrite IH. split; [intros H; constructor; [left; exact E|exact H]|intros H; inversion H; assumption].
    + cbn [k_val]. destruct (o_rx o pat (c :: t)) as [[m|]|] eqn:R.
      * rewrite IH. split.
        -- intros H; constructor; [right; rewrite E; eauto|exact H].
        -- intros H; inversion H; assumption.
      * split; [discriminate|]. intros H; inversion H as [|? ? [Hp|[m Hp]] _]; subst; rewrite E in Hp; congruence.
      * split; [discriminate|]. intros H; inversion H as [|? ? [Hp|[m Hp]] _]; subst; rewrite E in Hp; congruence.
Qed.

Lemma lp_scan_some o pat idx ls k :
  lp_scan o pat idx ls = Ok (Some k) ->
  exists pre l post, ls = pre ++ l :: post /\ Forall (lp_passes o pat) pre /\ lp_fails o pat l /\
    k_idx k = idx + N.of_nat (length pre) /\ k_val k = trim l /\ k_a k = trim_off l + 1 /\
    k_b k = k_a k + blen (trim l) - 1.
Proof.
  revert idx; induction ls as [|l ls IH]; intros idx; cbn [lp_scan]; [discriminate|].
  unfold trimmed_key. destruct (trim l) as [|c t] eqn:E.
  - intros H. destruct (IH _ H) as (pre & l' & post & -> & Hp & Hf & Hi & Hr).
    exists (l :: pre), l', post. split; [reflexivity|]. split; [constructor; [left; exact E|exact Hp]|].
    split; [exact Hf|]. split; [cbn [length]; lia|exact Hr].
  - cbn [k_val]. destruct (o_rx o pat (c :: t)) as [[m|]|] eqn:R; [|intros H|discriminate].
    + intros H. destruct (IH _ H) as (pre & l' & post & -> & Hp & Hf & Hi & Hr).
      exists (l :: pre), l', post. split; [reflexivity|].
      split; [constructor; [right; rewrite E; eauto|exact Hp]|].
      split; [exact Hf|]. split; [cbn [length]; lia|exact Hr].
    + inversion H; subst. exists [], l, ls. split; [reflexivity|]. split; [constructor|].
      split; [split; [rewrite E; discriminate|rewrite E; exact R]|].
      cbn [k_idx k_val k_a k_b length]. rewrite E. repeat split; lia.
Qed.

(* ================= validators: at most one diagnostic per block ================= *)
Lemma keep_sorted_at_most_one o file b ds : keep_sorted o file b = Ok ds -> (length ds <= 1)%nat.
Proof.
  unfold keep_sorted. destruct (get_attr _ _); [|intros H; inversion H; cbn; lia].
  destruct (parse_direction s) as [asc| |]; cbn [bind]; try discriminate.
  destruct (parse_format _) as [fmt| |]; cbn [bind]; try discriminate.
  destruct (content_of file b) as [c| |]; cbn [bind]; try discriminate.
  destruct (keys_of _ _ _ _) as [ks| |]; cbn [bind]; try discriminate.
  destruct (ks_check _ ks) as [[k|]| |]; cbn [bind]; try discriminate.
  - destruct (sev_of _); cbn [bind]; try discriminate. intros H; inversion H; cbn; lia.
  - intros H; inversion H; cbn; lia.
Qed.

Lemma keep_unique_at_most_one o file b ds : keep_unique o file b = Ok ds -> (length ds <= 1)%nat.
Proof.
  unfold keep_unique. destruct (get_attr _ _); [|intros H; inversion H; cbn; lia].
  destruct (content_of file b) as [c| |]; cbn [bind]; try discriminate.
  destruct (keys_of _ _ _ _) as [ks| |]; cbn [bind]; try discriminate.
  destruct (ku_scan [] ks).
  - destruct (sev_of _); cbn [bind]; try discriminate. intros H; inversion H; cbn; lia.
  - intros H; inversion H; cbn; lia.
Qed.

Lemma line_pattern_at_most_one o file b ds : line_pattern o file b = Ok ds -> (length ds <= 1)%nat.
Proof.
  unfold line_pattern. destruct (get_attr _ _); [|intros H; inversion H; cbn; lia].
  destruct (o_rx_ok o s) as [[|]|]; try discriminate.
  destruct (content_of file b) as [c| |]; cbn [bind]; try discriminate.
  destruct (lp_scan _ _ _ _) as [[k|]| |]; cbn [bind]; try discriminate.
  - destruct (sev_of _); cbn [bind]; try discriminate. intros H; inversion H; cbn; lia.
  - intros H; inversion H; cbn; lia.
Qed.

(* the comparison used by keep-sorted is total whenever every key it is asked
   about is in the f64 oracle's domain (always, for the lexicographic format) *)
Lemma lex_viol_total o (asc : bool) a b :
  exists r, (let? r := sort_cmp o Lexicographic a b in Ok (cmp_eqb r (if asc then Gt else Lt))) = Ok r.
Proof. cbn [sort_cmp bind]. eauto. Qed.

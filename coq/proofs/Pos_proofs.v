(* Pos_proofs.v - Part C: BlockStart::source_position_at computes the position
   reached by walking the comment text byte by byte from the comment's start
   position; that walk depends only on the byte shape of the text.
   Requires proofs/Comment_proofs.v (byte_shape lemmas, Part D). *)
From BW Require Import SpecBlocks.
From BWP Require Import TextFacts Comment_proofs.
From Coq Require Import ZifyBool ZifyN ZifyNat Permutation Sorted.
Arguments N.add : simpl never. Arguments N.sub : simpl never. Arguments N.mul : simpl never.
Arguments N.eqb : simpl never. Arguments N.ltb : simpl never. Arguments N.leb : simpl never.

(* ---------- byte lengths and slices ---------- *)
Lemma blen_app a b : blen (a ++ b) = blen a + blen b.
Proof. induction a as [|x a IH]; cbn [app blen]; [lia|rewrite IH; lia]. Qed.

Lemma bskip_0 s : bskip s 0 = Some s.
Proof. destruct s; reflexivity. Qed.

Lemma btake_app pre : forall rest, btake (pre ++ rest) (blen pre) = Some pre.
Proof.
  induction pre as [|c pre IH]; intros rest.
  - cbn [app blen]. destruct rest; reflexivity.
  - cbn [app blen btake]. pose proof (u8len_pos c) as Hc.
    destruct (u8len c + blen pre =? 0) eqn:E0; [lia|].
    destruct (u8len c <=? u8len c + blen pre) eqn:E1; [|lia].
    replace (u8len c + blen pre - u8len c) with (blen pre) by lia.
    rewrite IH. reflexivity.
Qed.

Lemma bslice_prefix pre rest : bslice (pre ++ rest) 0 (blen pre) = Some pre.
Proof.
  unfold bslice. destruct (blen pre <? 0) eqn:E; [lia|].
  rewrite bskip_0. replace (blen pre - 0) with (blen pre) by lia. apply btake_app.
Qed.

(* ---------- lines().count() ---------- *)
Lemma count_nl_cons c s : count_nl (c :: s) = (if c =? 10 then 1 else 0) + count_nl s.
Proof.
  unfold count_nl, nlen. cbn [filter].
  destruct (c =? 10) eqn:E.
  - replace (10 =? c) with true by lia. cbn [length]. lia.
  - replace (10 =? c) with false by lia. lia.
Qed.

Lemma count_nl_nil : count_nl [] = 0.
Proof. reflexivity. Qed.

(* the number of `lines` of a text whose last character is not a newline: one
   more than its number of newlines ('\r' stripping does not change the count) *)
Lemma lines_count (pre : str) (ch : char) : ch <> 10 -> nlen (lines (pre ++ [ch])) = count_nl pre + 1.
Proof.
  intros Hch. induction pre as [|c pre IH].
  - cbn [app lines starts_nl]. replace (ch =? 10) with false by lia.
    rewrite andb_false_r. reflexivity.
  - cbn [app lines]. rewrite count_nl_cons. destruct (c =? 10) eqn:E.
    + unfold nlen in *. cbn [length]. lia.
    + destruct ((c =? 13) && starts_nl (pre ++ [ch])); [lia|].
      destruct (lines (pre ++ [ch])) as [|l ls] eqn:EL.
      * unfold nlen in IH. cbn [length] in IH. lia.
      * unfold nlen in *. cbn [length] in *. lia.
Qed.

(* ---------- rfind('\n') ---------- *)
Lemma rfind_nl_cons c s :
  rfind_idx [10] (c :: s) =
  match rfind_idx [10] s with
  | Some i => Some (u8len c + i)
  | None => if c =? 10 then Some 0 else None
  end.
Proof.
  unfold rfind_idx. cbn [rfind_sub starts_with].
  destruct (rfind_sub [10] s) as [[pre rest]|]; [reflexivity|].
  rewrite andb_true_r. replace (10 =? c) with (c =? 10) by lia.
  destruct (c =? 10); reflexivity.
Qed.

Lemma rfind_nl_none s : rfind_idx [10] s = None <-> count_nl s = 0.
Proof.
  induction s as [|c s IH].
  - split; reflexivity.
  - rewrite rfind_nl_cons, count_nl_cons.
    destruct (rfind_idx [10] s) as [i|].
    + split; [discriminate|]. intros H.
      assert (H0 : count_nl s = 0) by lia. apply IH in H0. discriminate.
    + assert (H0 : count_nl s = 0) by (apply IH; reflexivity).
      destruct (c =? 10); split; try discriminate; try reflexivity; lia.
Qed.

Lemma rfind_nl_le s i : rfind_idx [10] s = Some i -> i + 1 <= blen s.
Proof.
  revert i. induction s as [|c s IH]; intros i H.
  - discriminate.
  - rewrite rfind_nl_cons in H. cbn [blen]. destruct (rfind_idx [10] s) as [j|].
    + inversion H; subst. specialize (IH j eq_refl). lia.
    + destruct (c =? 10) eqn:E; [|discriminate]. inversion H; subst.
      pose proof (u8len_pos c). lia.
Qed.

(* ---------- C2: the walk composes ---------- *)
Lemma pos_aux_0 s l c : pos_of_offset_aux s 0 l c = (l, c).
Proof. destruct s; reflexivity. Qed.

Lemma pos_aux_cons x s n l c :
  pos_of_offset_aux (x :: s) (u8len x + n) l c =
  if x =? 10 then pos_of_offset_aux s n (l + 1) 1
  else pos_of_offset_aux s n l (c + u8len x).
Proof.
  cbn [pos_of_offset_aux]. pose proof (u8len_pos x) as Hx.
  destruct (u8len x + n =? 0) eqn:E0; [lia|].
  destruct (x =? 10) eqn:E.
  - apply N.eqb_eq in E. subst x. change (u8len 10) with 1.
    replace (1 + n - 1) with n by lia. reflexivity.
  - replace (u8len x + n - u8len x) with n by lia. reflexivity.
Qed.

Lemma pos_aux_app a : forall b n l c,
  pos_of_offset_aux (a ++ b) (blen a + n) l c =
  pos_of_offset_aux b n (fst (pos_of_offset_aux a (blen a) l c))
                        (snd (pos_of_offset_aux a (blen a) l c)).
Proof.
  induction a as [|x a IH]; intros b n l c.
  - cbn [app blen]. replace (0 + n) with n by lia. rewrite pos_aux_0. reflexivity.
  - cbn [app blen]. replace (u8len x + blen a + n) with (u8len x + (blen a + n)) by lia.
    rewrite !pos_aux_cons. destruct (x =? 10); apply IH.
Qed.

Theorem advance_compose : forall a b n p0,
  advance (a ++ b) (blen a + n) p0 = advance b n (advance a (blen a) p0).
Proof. intros a b n p0. unfold advance. apply pos_aux_app. Qed.

Theorem advance_app : forall a b p0, advance (a ++ b) (blen a) p0 = advance a (blen a) p0.
Proof.
  intros a b p0. replace (blen a) with (blen a + 0) at 1 by lia.
  rewrite advance_compose. unfold advance at 1. rewrite pos_aux_0.
  destruct (advance a (blen a) p0); reflexivity.
Qed.

Lemma advance_0 s p0 : advance s 0 p0 = p0.
Proof. unfold advance. rewrite pos_aux_0. destruct p0; reflexivity. Qed.

(* ---------- the walk over a whole text, in closed form ---------- *)
Lemma advance_full a : forall l c,
  advance a (blen a) (l, c) =
  (l + count_nl a,
   match rfind_idx [10] a with Some i => blen a - i | None => c + blen a end).
Proof.
  unfold advance. cbn [fst snd].
  induction a as [|x a IH]; intros l c.
  - rewrite pos_aux_0. cbn [blen]. rewrite count_nl_nil.
    cbn [rfind_idx rfind_sub starts_with]. f_equal; lia.
  - cbn [blen]. rewrite pos_aux_cons, rfind_nl_cons, count_nl_cons.
    destruct (x =? 10) eqn:E.
    + rewrite IH. apply N.eqb_eq in E. subst x. change (u8len 10) with 1.
      destruct (rfind_idx [10] a) as [i|] eqn:R; cbv beta iota; f_equal; lia.
    + rewrite IH. destruct (rfind_idx [10] a) as [i|] eqn:R; cbv beta iota; f_equal; lia.
Qed.

(* ---------- C1 ---------- *)
(* No side condition on the comment's start position is needed. *)
Theorem source_position_at_exact : forall c p pre ch post,
  c_text c = pre ++ ch :: post -> blen pre = p -> u8len ch = 1 -> ch <> 10 ->
  source_position_at c p = Ok (advance (c_text c) p (c_ps c)).
Proof.
  intros c p pre ch post Ht Hp Hu Hch.
  destruct c as [lo hi [l0 c0] pe text]. cbn [c_text c_ps] in *. subst text p.
  unfold source_position_at. cbn [c_text c_ps fst snd].
  assert (E1 : bslice (pre ++ ch :: post) 0 (blen pre + 1) = Some (pre ++ [ch])).
  { replace (blen pre + 1) with (blen (pre ++ [ch])) by (rewrite blen_app; cbn [blen]; lia).
    change (pre ++ ch :: post) with (pre ++ [ch] ++ post). rewrite app_assoc.
    apply bslice_prefix. }
  rewrite E1, bslice_prefix. cbv beta iota zeta. rewrite (lines_count pre ch Hch).
  destruct (count_nl pre + 1 =? 0) eqn:E0; [lia|].
  rewrite advance_app, advance_full.
  destruct (l0 + (count_nl pre + 1) - 1 =? l0) eqn:EL.
  - assert (Hn : count_nl pre = 0) by lia.
    apply rfind_nl_none in Hn. rewrite Hn. do 2 f_equal. lia.
  - destruct (rfind_idx [10] pre) as [i|] eqn:R.
    + do 2 f_equal. lia.
    + apply rfind_nl_none in R. lia.
Qed.

(* ---------- C3: the walk only depends on the byte shape ---------- *)
Fixpoint walk_shape (sh : list bool) (l c : N) : N * N :=
  match sh with
  | [] => (l, c)
  | true :: sh' => walk_shape sh' (l + 1) 1
  | false :: sh' => walk_shape sh' l (c + 1)
  end.

Lemma walk_repeat_false k : forall sh l c,
  walk_shape (repeat false k ++ sh) l c = walk_shape sh l (c + N.of_nat k).
Proof.
  induction k as [|k IH]; intros sh l c; cbn [repeat app walk_shape].
  - f_equal. lia.
  - rewrite IH. f_equal. lia.
Qed.

Lemma advance_walk a : forall l c,
  pos_of_offset_aux a (blen a) l c = walk_shape (byte_shape a) l c.
Proof.
  induction a as [|x a IH]; intros l c.
  - rewrite pos_aux_0. reflexivity.
  - cbn [blen]. rewrite pos_aux_cons, byte_shape_cons. destruct (x =? 10) eqn:E.
    + apply N.eqb_eq in E. subst x. change (N.to_nat (u8len 10)) with 1%nat.
      cbn [repeat app walk_shape]. apply IH.
    + rewrite walk_repeat_false, IH. f_equal. lia.
Qed.

Lemma app_eq_len {A} (a c : list A) : forall b d,
  length a = length c -> a ++ b = c ++ d -> a = c.
Proof.
  revert c. induction a as [|x a IH]; intros [|y c] b d Hl H; cbn [length] in Hl; try lia.
  - reflexivity.
  - cbn [app] in H. inversion H; subst. f_equal. apply (IH c b d); [lia|assumption].
Qed.

(* n must be a character boundary of both texts: inside a multi-byte character
   pos_of_offset_aux overshoots to the end of that character (off - u8len c is
   truncated), which differs between texts of equal shape. *)
Example advance_shape_needs_boundary :
  byte_shape [233] = byte_shape [97; 98] /\ advance [233] 1 (1, 1) <> advance [97; 98] 1 (1, 1).
Proof. split; [reflexivity|vm_compute; discriminate]. Qed.

Theorem advance_shape : forall a b n p0,
  byte_shape a = byte_shape b ->
  (exists pre post, a = pre ++ post /\ blen pre = n) ->
  (exists pre post, b = pre ++ post /\ blen pre = n) ->
  advance a n p0 = advance b n p0.
Proof.
  intros a b n p0 Hs (pa & qa & -> & Ha) (pb & qb & -> & Hb).
  rewrite <- Ha at 1. rewrite <- Hb. rewrite !advance_app.
  unfold advance. rewrite !advance_walk. f_equal.
  rewrite !byte_shape_app in Hs.
  apply (app_eq_len _ _ _ _) in Hs; [exact Hs|].
  rewrite !byte_shape_length. lia.
Qed.

(* at the end of any prefix the position is a function of the prefix's shape *)
Corollary advance_prefix_shape : forall pre post p0,
  advance (pre ++ post) (blen pre) p0 = walk_shape (byte_shape pre) (fst p0) (snd p0).
Proof. intros. rewrite advance_app. unfold advance. apply advance_walk. Qed.

(* C + D together: positions computed in a normalised comment text are the
   positions in the raw source text. *)
Theorem normalised_positions : forall k s t n p0,
  normalise k s = Ok (Some t) ->
  (exists pre post, s = pre ++ post /\ blen pre = n) ->
  (exists pre post, t = pre ++ post /\ blen pre = n) ->
  advance t n p0 = advance s n p0.
Proof.
  intros k s t n p0 H Hs Ht. apply advance_shape; [|exact Ht|exact Hs].
  eapply normalise_shape; eassumption.
Qed.

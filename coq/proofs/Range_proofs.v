(* Range_proofs.v - the range reported for a keep-sorted / keep-unique /
   line-pattern violation delimits exactly the offending key in the FILE:
   `text_at file (d_sl d) (d_sc d) (d_ec d) = Some (k_val k)` for the
   diagnostic `d = key_diag b k ...` of a block whose content is the slice
   `[blen pre, blen pre + blen content)` of `file = pre ++ content ++ post`. *)
From BW Require Import SpecKeys SpecBlocks.
From BWP Require Import TextFacts Pos_proofs Keys_proofs.
From Coq Require Import ZifyBool ZifyN ZifyNat.
Arguments N.add : simpl never. Arguments N.sub : simpl never. Arguments N.mul : simpl never.
Arguments N.eqb : simpl never. Arguments N.ltb : simpl never. Arguments N.leb : simpl never.
From BWP Require Import Comment_proofs.   (* u8len_pos, take_drop_while *)

(* ================= 1. the two line splitters ================= *)
Lemma split_on_nonnil (d : char) (s : str) : split_on d s <> [].
Proof.
  destruct s as [|c s]; cbn [split_on]; [discriminate|].
  destruct (c =? d); [discriminate|]. destruct (split_on d s); discriminate.
Qed.

Lemma split_on_cons_nl (s : str) : split_on 10 (10 :: s) = [] :: split_on 10 s.
Proof. reflexivity. Qed.

(* a character that is not the delimiter is glued to the first piece *)
Lemma split_on_cons_other (c : char) (s : str) :
  c <> 10 -> exists p ps, split_on 10 s = p :: ps /\ split_on 10 (c :: s) = (c :: p) :: ps.
Proof.
  intros Hc. cbn [split_on]. replace (c =? 10) with false by lia.
  destruct (split_on 10 s) as [|p ps] eqn:E; [exfalso; exact (split_on_nonnil _ _ E)|].
  exists p, ps. split; reflexivity.
Qed.

Lemma lines_nil (s : str) : lines s = [] -> s = [].
Proof.
  destruct s as [|c s]; [reflexivity|]. cbn [lines].
  destruct (c =? 10); [discriminate|].
  destruct ((c =? 13) && starts_nl s) eqn:E.
  - apply andb_true_iff in E. destruct E as [_ E].
    destruct s as [|x s]; [discriminate|]. cbn [starts_nl] in E.
    destruct (N.eq_dec x 10) as [->|Hx].
    + cbn [lines]. change (10 =? 10) with true. cbv iota. discriminate.
    + exfalso. destruct x as [|p]; [discriminate|].
      repeat (destruct p as [p|p|]; try discriminate); congruence.
  - destruct (lines s); discriminate.
Qed.

Lemma starts_nl_true (s : str) : starts_nl s = true -> exists s', s = 10 :: s'.
Proof.
  destruct s as [|x s]; [discriminate|]. intros E.
  destruct (N.eq_dec x 10) as [->|Hx]; [eauto|].
  exfalso. cbn [starts_nl] in E. destruct x as [|p]; [discriminate|].
  repeat (destruct p as [p|p|]; try discriminate); congruence.
Qed.

(* the i-th piece of `split_on 10` is the i-th line, possibly followed by the
   '\r' that `lines` dropped *)
Lemma lines_split_on : forall (s : str) i l,
  nth_error (lines s) i = Some l ->
  exists l', nth_error (split_on 10 s) i = Some l' /\ (l' = l \/ l' = l ++ [13]).
Proof.
  induction s as [|c s IH]; intros i l H.
  - cbn [lines] in H. destruct i; discriminate.
  - destruct (c =? 10) eqn:Ec.
    + apply N.eqb_eq in Ec. subst c. rewrite split_on_cons_nl.
      cbn [lines] in H. change (10 =? 10) with true in H. cbv iota in H.
      destruct i as [|j]; cbn [nth_error] in *.
      * inversion H; subst. exists []. split; [reflexivity|left; reflexivity].
      * apply IH. exact H.
    + destruct (split_on_cons_other c s ltac:(lia)) as (p & ps & Es & Ecs).
      rewrite Ecs. cbn [lines] in H. rewrite Ec in H.
      destruct ((c =? 13) && starts_nl s) eqn:Ecr.
      * apply andb_true_iff in Ecr. destruct Ecr as [E13 Enl].
        apply N.eqb_eq in E13. subst c.
        destruct (starts_nl_true _ Enl) as (s' & ->).
        rewrite split_on_cons_nl in Es. inversion Es; subst p ps.
        destruct i as [|j].
        -- cbn [lines] in H. change (10 =? 10) with true in H. cbv iota in H.
           cbn [nth_error] in *. inversion H; subst l.
           exists [13]. split; [reflexivity|right; reflexivity].
        -- destruct (IH (S j) l H) as (l' & Hn & Hl).
           rewrite split_on_cons_nl in Hn. cbn [nth_error] in *.
           exists l'. split; assumption.
      * destruct (lines s) as [|l0 ls] eqn:EL.
        -- apply lines_nil in EL. subst s. cbn [split_on] in Es. inversion Es; subst p ps.
           destruct i as [|j]; cbn [nth_error] in *.
           ++ inversion H; subst l. exists [c]. split; [reflexivity|left; reflexivity].
           ++ destruct j; discriminate.
        -- destruct i as [|j]; cbn [nth_error] in *.
           ++ inversion H; subst l.
              destruct (IH 0%nat l0 eq_refl) as (l' & Hn & Hl).
              rewrite Es in Hn. cbn [nth_error] in Hn. inversion Hn; subst l'.
              exists (c :: p). split; [reflexivity|].
              destruct Hl as [->| ->]; [left|right]; reflexivity.
           ++ destruct (IH (S j) l H) as (l' & Hn & Hl).
              rewrite Es in Hn. cbn [nth_error] in Hn.
              exists l'. split; assumption.
Qed.

(* number of pieces = number of newlines + 1 *)
Lemma split_on_length (s : str) : length (split_on 10 s) = S (N.to_nat (count_nl s)).
Proof.
  induction s as [|c s IH]; [reflexivity|].
  rewrite count_nl_cons. destruct (c =? 10) eqn:Ec.
  - apply N.eqb_eq in Ec. subst c. rewrite split_on_cons_nl. cbn [length]. rewrite IH. lia.
  - destruct (split_on_cons_other c s ltac:(lia)) as (p & ps & Es & Ecs).
    rewrite Ecs. rewrite Es in IH. cbn [length] in *. lia.
Qed.

(* the text after the last newline of s (all of s if there is none) *)
Fixpoint lastp (s : str) : str :=
  match s with
  | [] => []
  | c :: s' =>
    if c =? 10 then lastp s'
    else if count_nl s' =? 0 then c :: lastp s' else lastp s'
  end.

Lemma lastp_is_last (s : str) : lastp s = last (split_on 10 s) [].
Proof.
  induction s as [|c s IH]; [reflexivity|].
  cbn [lastp]. destruct (c =? 10) eqn:Ec.
  - apply N.eqb_eq in Ec. subst c. rewrite split_on_cons_nl, IH.
    destruct (split_on 10 s) eqn:E; [exfalso; exact (split_on_nonnil _ _ E)|reflexivity].
  - destruct (split_on_cons_other c s ltac:(lia)) as (p & ps & Es & Ecs).
    rewrite Ecs. pose proof (split_on_length s) as HL. rewrite Es in HL, IH. cbn [length] in HL.
    destruct (count_nl s =? 0) eqn:E0.
    + destruct ps; [|cbn [length] in HL; lia]. cbn [last] in *. rewrite IH. reflexivity.
    + destruct ps as [|q qs]; [cbn [length] in HL; lia|]. rewrite IH. reflexivity.
Qed.

Lemma count_nl_app (a b : str) : count_nl (a ++ b) = count_nl a + count_nl b.
Proof.
  induction a as [|c a IH]; cbn [app]; [rewrite count_nl_nil; lia|].
  rewrite !count_nl_cons, IH. lia.
Qed.

(* s = (everything up to and including the last newline) ++ lastp s *)
Lemma lastp_suffix (s : str) :
  count_nl (lastp s) = 0 /\
  ((count_nl s = 0 /\ lastp s = s) \/ (exists u, s = u ++ 10 :: lastp s)).
Proof.
  induction s as [|c s (IH0 & IH)]; [split; [reflexivity|left; split; reflexivity]|].
  cbn [lastp]. rewrite count_nl_cons. destruct (c =? 10) eqn:Ec.
  - apply N.eqb_eq in Ec. subst c. split; [exact IH0|]. right.
    destruct IH as [[_ E]|(u & E)].
    + exists []. rewrite E. reflexivity.
    + exists (10 :: u). cbn [app]. rewrite <- E. reflexivity.
  - destruct (count_nl s =? 0) eqn:E0.
    + split; [rewrite count_nl_cons, Ec; lia|].
      destruct IH as [[_ E]|(u & E)].
      * left. split; [lia|]. rewrite E. reflexivity.
      * exfalso. rewrite E, count_nl_app, count_nl_cons in E0. change (10 =? 10) with true in E0. cbv iota in E0. lia.
    + split; [exact IH0|]. right. destruct IH as [[E _]|(u & E)]; [lia|].
      exists (c :: u). cbn [app]. rewrite <- E. reflexivity.
Qed.

(* ---------- split_on of a concatenation ---------- *)
Lemma split_on_app_nl : forall (a b : str),
  split_on 10 (a ++ 10 :: b) = split_on 10 a ++ split_on 10 b.
Proof.
  induction a as [|c a IH]; intros b; [reflexivity|].
  cbn [app]. destruct (c =? 10) eqn:Ec.
  - apply N.eqb_eq in Ec. subst c. rewrite !split_on_cons_nl, IH. reflexivity.
  - destruct (split_on_cons_other c a ltac:(lia)) as (p & ps & Es & Ecs).
    destruct (split_on_cons_other c (a ++ 10 :: b) ltac:(lia)) as (p2 & ps2 & Es2 & Ecs2).
    rewrite Ecs, Ecs2. rewrite IH, Es in Es2. cbn [app] in Es2. inversion Es2; subst. reflexivity.
Qed.

(* no newline in a: the first piece of b is glued to a *)
Lemma split_on_app_nonl : forall (a b : str),
  count_nl a = 0 ->
  split_on 10 (a ++ b) = (a ++ hd [] (split_on 10 b)) :: tl (split_on 10 b).
Proof.
  induction a as [|c a IH]; intros b H0.
  - cbn [app]. destruct (split_on 10 b) eqn:E; [exfalso; exact (split_on_nonnil _ _ E)|reflexivity].
  - rewrite count_nl_cons in H0. destruct (c =? 10) eqn:Ec; [lia|].
    cbn [app]. destruct (split_on_cons_other c (a ++ b) ltac:(lia)) as (p & ps & Es & Ecs).
    rewrite Ecs. rewrite IH in Es by lia. inversion Es; subst. reflexivity.
Qed.

(* the general decomposition: the last piece of a and the first piece of b are glued *)
Lemma split_on_app : forall (a b : str),
  split_on 10 (a ++ b) =
  removelast (split_on 10 a) ++ (lastp a ++ hd [] (split_on 10 b)) :: tl (split_on 10 b).
Proof.
  induction a as [|c a IH]; intros b.
  - cbn [app split_on removelast lastp].
    destruct (split_on 10 b) eqn:E; [exfalso; exact (split_on_nonnil _ _ E)|reflexivity].
  - cbn [app lastp]. destruct (c =? 10) eqn:Ec.
    + apply N.eqb_eq in Ec. subst c. rewrite !split_on_cons_nl, IH.
      destruct (split_on 10 a) eqn:E; [exfalso; exact (split_on_nonnil _ _ E)|]. reflexivity.
    + destruct (split_on_cons_other c a ltac:(lia)) as (p & ps & Es & Ecs).
      destruct (split_on_cons_other c (a ++ b) ltac:(lia)) as (p2 & ps2 & Es2 & Ecs2).
      rewrite Ecs, Ecs2. rewrite IH, Es in Es2.
      pose proof (split_on_length a) as HL. rewrite Es in HL. cbn [length] in HL.
      pose proof (lastp_is_last a) as HP. rewrite Es in HP.
      destruct (count_nl a =? 0) eqn:E0.
      * destruct ps; [|cbn [length] in HL; lia]. cbn [last] in HP. subst p.
        cbn [removelast app] in *. inversion Es2; subst. reflexivity.
      * destruct ps as [|q qs]; [cbn [length] in HL; lia|].
        cbn [removelast app] in *. inversion Es2; subst. reflexivity.
Qed.

(* ================= 2. pieces of the file vs pieces of the content ================= *)
Definition nls (s : str) : nat := N.to_nat (count_nl s).

(* right context: a piece of `a` is a prefix of the same-numbered piece of `a ++ b` *)
Lemma split_on_nth_app_r : forall (a b : str) i c,
  nth_error (split_on 10 a) i = Some c ->
  exists x, nth_error (split_on 10 (a ++ b)) i = Some (c ++ x) /\
            (i <> nls a -> x = []) /\ (i = nls a -> x = hd [] (split_on 10 b)).
Proof.
  unfold nls. induction a as [|c0 a IH]; intros b i c H.
  - cbn [split_on] in H. destruct i as [|j]; [|destruct j; discriminate].
    cbn [nth_error] in H. inversion H; subst c. cbn [app].
    destruct (split_on 10 b) as [|p ps] eqn:E; [exfalso; exact (split_on_nonnil _ _ E)|].
    exists p. cbn [nth_error hd]. rewrite count_nl_nil.
    split; [reflexivity|]. split; intros; [lia|reflexivity].
  - cbn [app]. rewrite count_nl_cons. destruct (c0 =? 10) eqn:Ec.
    + apply N.eqb_eq in Ec. subst c0. rewrite split_on_cons_nl in *.
      destruct i as [|j]; cbn [nth_error] in *.
      * inversion H; subst c. exists [].
        split; [reflexivity|]. split; intros; [reflexivity|lia].
      * destruct (IH b j c H) as (x & Hn & Hx1 & Hx2). exists x.
        split; [exact Hn|]. split; intros; [apply Hx1|apply Hx2]; lia.
    + destruct (split_on_cons_other c0 a ltac:(lia)) as (p & ps & Es & Ecs).
      destruct (split_on_cons_other c0 (a ++ b) ltac:(lia)) as (p2 & ps2 & Es2 & Ecs2).
      rewrite Ecs in H. rewrite Ecs2.
      destruct i as [|j]; cbn [nth_error] in *.
      * inversion H; subst c.
        destruct (IH b 0%nat p) as (x & Hn & Hx1 & Hx2); [rewrite Es; reflexivity|].
        rewrite Es2 in Hn. cbn [nth_error] in Hn. inversion Hn; subst p2.
        exists x. split; [reflexivity|]. split; intros; [apply Hx1|apply Hx2]; lia.
      * destruct (IH b (S j) c) as (x & Hn & Hx1 & Hx2); [rewrite Es; exact H|].
        rewrite Es2 in Hn. cbn [nth_error] in Hn.
        exists x. split; [exact Hn|]. split; intros; [apply Hx1|apply Hx2]; lia.
Qed.

(* left context: piece `nls a` of `a ++ b` is the last piece of `a` glued to the
   first piece of `b`; the later pieces are those of `b` *)
Lemma split_on_nth_app_l0 : forall (a b : str),
  nth_error (split_on 10 (a ++ b)) (nls a) = Some (lastp a ++ hd [] (split_on 10 b)).
Proof.
  intros a b. rewrite split_on_app.
  assert (HL : length (removelast (split_on 10 a)) = nls a).
  { pose proof (split_on_length a) as HL. unfold nls.
    destruct (split_on 10 a) as [|p ps] eqn:E; [discriminate|].
    assert (E' : p :: ps = removelast (p :: ps) ++ [last (p :: ps) []])
      by (apply app_removelast_last; discriminate).
    rewrite E' in HL at 1. rewrite app_length in HL. cbn [length] in HL. lia. }
  rewrite nth_error_app2 by lia. rewrite HL, PeanoNat.Nat.sub_diag. reflexivity.
Qed.

Lemma split_on_nth_app_lS : forall (a b : str) j,
  nth_error (split_on 10 (a ++ b)) (nls a + S j) = nth_error (split_on 10 b) (S j).
Proof.
  intros a b j. rewrite split_on_app.
  assert (HL : length (removelast (split_on 10 a)) = nls a).
  { pose proof (split_on_length a) as HL. unfold nls.
    destruct (split_on 10 a) as [|p ps] eqn:E; [discriminate|].
    assert (E' : p :: ps = removelast (p :: ps) ++ [last (p :: ps) []])
      by (apply app_removelast_last; discriminate).
    rewrite E' in HL at 1. rewrite app_length in HL. cbn [length] in HL. lia. }
  rewrite nth_error_app2 by lia. rewrite HL.
  replace (nls a + S j - nls a)%nat with (S j) by lia. cbn [nth_error].
  destruct (split_on 10 b) eqn:E; [exfalso; exact (split_on_nonnil _ _ E)|reflexivity].
Qed.

(* the pieces of file = pre ++ content ++ post that meet the content *)
Lemma file_piece_first : forall (pre content post : str) c,
  nth_error (split_on 10 content) 0 = Some c ->
  exists x, nth_error (split_on 10 (pre ++ content ++ post)) (nls pre) = Some (lastp pre ++ c ++ x) /\
            (nls content <> 0%nat -> x = []) /\
            (nls content = 0%nat -> x = hd [] (split_on 10 post)).
Proof.
  intros pre content post c H.
  destruct (split_on_nth_app_r content post 0%nat c H) as (x & Hn & Hx1 & Hx2).
  exists x. rewrite split_on_nth_app_l0.
  destruct (split_on 10 (content ++ post)) as [|q qs]; [discriminate|].
  cbn [nth_error hd] in *. inversion Hn; subst q.
  split; [reflexivity|]. split; intros; [apply Hx1|apply Hx2]; lia.
Qed.

Lemma file_piece_later : forall (pre content post : str) j c,
  nth_error (split_on 10 content) (S j) = Some c ->
  exists x, nth_error (split_on 10 (pre ++ content ++ post)) (nls pre + S j) = Some (c ++ x) /\
            (S j <> nls content -> x = []) /\
            (S j = nls content -> x = hd [] (split_on 10 post)).
Proof.
  intros pre content post j c H.
  rewrite split_on_nth_app_lS. apply split_on_nth_app_r. exact H.
Qed.

(* both cases at once *)
Lemma file_piece : forall (pre content post : str) i c,
  nth_error (split_on 10 content) i = Some c ->
  exists x, nth_error (split_on 10 (pre ++ content ++ post)) (nls pre + i) =
            Some ((if Nat.eqb i 0 then lastp pre else []) ++ c ++ x).
Proof.
  intros pre content post i c H. destruct i as [|j].
  - destruct (file_piece_first pre content post c H) as (x & Hn & _).
    exists x. rewrite PeanoNat.Nat.add_0_r. exact Hn.
  - destruct (file_piece_later pre content post j c H) as (x & Hn & _).
    exists x. exact Hn.
Qed.

(* ================= 3. slicing ================= *)
Lemma bskip_app (u : str) : forall r, bskip (u ++ r) (blen u) = Some r.
Proof.
  induction u as [|c u IH]; intros r.
  - cbn [app blen]. apply bskip_0.
  - cbn [app blen bskip]. pose proof (u8len_pos c) as Hc.
    destruct (u8len c + blen u =? 0) eqn:E0; [lia|].
    destruct (u8len c <=? u8len c + blen u) eqn:E1; [|lia].
    replace (u8len c + blen u - u8len c) with (blen u) by lia. apply IH.
Qed.

Lemma bskip_spec : forall (l : str) n r, bskip l n = Some r -> exists u, l = u ++ r /\ blen u = n.
Proof.
  induction l as [|c l IH]; intros n r H.
  - cbn [bskip] in H. destruct (n =? 0) eqn:E0; [|discriminate].
    inversion H; subst r. exists []. split; [reflexivity|cbn [blen]; lia].
  - cbn [bskip] in H. destruct (n =? 0) eqn:E0.
    + inversion H; subst r. exists []. split; [reflexivity|cbn [blen]; lia].
    + destruct (u8len c <=? n) eqn:E1; [|discriminate].
      destruct (IH _ _ H) as (u & -> & Hu). exists (c :: u).
      split; [reflexivity|cbn [blen]; lia].
Qed.

Lemma btake_spec : forall (r : str) n k, btake r n = Some k -> exists v, r = k ++ v /\ blen k = n.
Proof.
  induction r as [|c r IH]; intros n k H.
  - cbn [btake] in H. destruct (n =? 0) eqn:E0; [|discriminate].
    inversion H; subst k. exists []. split; [reflexivity|cbn [blen]; lia].
  - cbn [btake] in H. destruct (n =? 0) eqn:E0.
    + inversion H; subst k. exists (c :: r). split; [reflexivity|cbn [blen]; lia].
    + destruct (u8len c <=? n) eqn:E1; [|discriminate].
      destruct (btake r (n - u8len c)) as [t|] eqn:Et; [|discriminate].
      inversion H; subst k. destruct (IH _ _ Et) as (v & -> & Hv).
      exists v. split; [reflexivity|cbn [blen]; lia].
Qed.

Lemma bslice_in_context : forall (a m b : str),
  bslice (a ++ m ++ b) (blen a) (blen a + blen m) = Some m.
Proof.
  intros a m b. unfold bslice.
  destruct (blen a + blen m <? blen a) eqn:E; [lia|].
  rewrite bskip_app. replace (blen a + blen m - blen a) with (blen m) by lia.
  apply btake_app.
Qed.

(* a successful slice cuts its argument in three *)
Lemma bslice_spec : forall (l : str) s e k,
  bslice l s e = Some k -> exists u v, l = u ++ k ++ v /\ blen u = s /\ s + blen k = e.
Proof.
  intros l s e k H. unfold bslice in H.
  destruct (e <? s) eqn:E; [discriminate|].
  destruct (bskip l s) as [r|] eqn:Er; [|discriminate].
  destruct (bskip_spec _ _ _ Er) as (u & -> & Hu).
  destruct (btake_spec _ _ _ H) as (v & -> & Hk).
  exists u, v. split; [reflexivity|]. split; [exact Hu|lia].
Qed.

Lemma bslice_shift : forall (l p x : str) s e k,
  bslice l s e = Some k -> bslice (p ++ l ++ x) (blen p + s) (blen p + e) = Some k.
Proof.
  intros l p x s e k H.
  destruct (bslice_spec _ _ _ _ H) as (u & v & -> & Hu & Hk).
  replace (p ++ (u ++ k ++ v) ++ x) with ((p ++ u) ++ k ++ (v ++ x))
    by (rewrite <- !app_assoc; reflexivity).
  replace (blen p + s) with (blen (p ++ u)) by (rewrite blen_app; lia).
  replace (blen p + e) with (blen (p ++ u) + blen k) by (rewrite blen_app; lia).
  apply bslice_in_context.
Qed.

(* ================= 6. content_of ================= *)
Lemma content_of_in_context : forall (pre content post : str) b,
  b_clo b = blen pre -> b_chi b = blen pre + blen content ->
  content_of (pre ++ content ++ post) b = Ok content.
Proof.
  intros pre content post b Hlo Hhi. unfold content_of.
  rewrite Hlo, Hhi, bslice_in_context. reflexivity.
Qed.

(* ================= position of the content start ================= *)
Lemma pos_aux_full (a : str) : forall l c,
  pos_of_offset_aux a (blen a) l c =
  (l + count_nl a, (if count_nl a =? 0 then c else 1) + blen (lastp a)).
Proof.
  induction a as [|x a IH]; intros l c.
  - rewrite pos_aux_0. cbn [blen lastp]. rewrite count_nl_nil.
    change (0 =? 0) with true. cbv iota. f_equal; lia.
  - cbn [blen lastp]. rewrite pos_aux_cons, count_nl_cons. destruct (x =? 10) eqn:E.
    + rewrite IH. destruct (count_nl a =? 0) eqn:E0;
        destruct (1 + count_nl a =? 0) eqn:E1; try lia; f_equal; lia.
    + rewrite IH. destruct (count_nl a =? 0) eqn:E0;
        destruct (0 + count_nl a =? 0) eqn:E1; try lia; cbn [blen]; f_equal; lia.
Qed.

Lemma pos_of_offset_pre : forall (pre rest : str),
  pos_of_offset (pre ++ rest) (blen pre) = (1 + count_nl pre, 1 + blen (lastp pre)).
Proof.
  intros pre rest. unfold pos_of_offset.
  pose proof (advance_app pre rest (1, 1)) as H. unfold advance in H. cbn [fst snd] in H.
  rewrite H, pos_aux_full. destruct (count_nl pre =? 0); reflexivity.
Qed.

(* the same, read off advance_full: the column is the distance to the last newline *)
Lemma lastp_rfind (a : str) :
  match rfind_idx [10] a with
  | Some i => blen a - i = 1 + blen (lastp a)
  | None => blen (lastp a) = blen a
  end.
Proof.
  pose proof (advance_full a 1 1) as H. unfold advance in H. cbn [fst snd] in H.
  rewrite pos_aux_full in H. injection H as Hc.
  destruct (rfind_idx [10] a) as [i|] eqn:R.
  - destruct (count_nl a =? 0) eqn:E0; [|lia].
    assert (Hn : rfind_idx [10] a = None) by (apply rfind_nl_none; lia). congruence.
  - apply rfind_nl_none in R. destruct (count_nl a =? 0) eqn:E0; lia.
Qed.

(* ================= trim: the key text is a slice of its line ================= *)
Lemma trim_end_split (d : str) : exists w, d = trim_end d ++ w.
Proof.
  unfold trim_end. exists (rev (take_while is_ws (rev d))).
  rewrite <- rev_app_distr, take_drop_while, rev_involutive. reflexivity.
Qed.

Lemma trim_slice (l : str) :
  bslice l (trim_off l) (trim_off l + blen (trim l)) = Some (trim l).
Proof.
  unfold trim_off, trim, trim_start.
  destruct (trim_end_split (drop_while is_ws l)) as (w & Hw).
  rewrite <- (take_drop_while is_ws l) at 1. rewrite Hw at 1.
  apply bslice_in_context.
Qed.

(* ================= 5. the general theorem ================= *)
Theorem key_range_exact_gen : forall (pre content post : str) k b code sev data l,
  let file := pre ++ content ++ post in
  b_clo b = blen pre -> b_chi b = blen pre + blen content ->
  b_cs b = pos_of_offset file (blen pre) ->
  nth_error (lines content) (N.to_nat (k_idx k)) = Some l ->
  1 <= k_a k ->
  bslice l (k_a k - 1) (k_b k) = Some (k_val k) ->
  let d := key_diag b k code sev data in
  text_at file (d_sl d) (d_sc d) (d_ec d) = Some (k_val k).
Proof.
  intros pre content post k b code sev data l file _ _ Hcs Hl Ha Hs d.
  unfold file in Hcs. rewrite pos_of_offset_pre in Hcs.
  destruct (lines_split_on _ _ _ Hl) as (l' & Hl' & Hll).
  destruct (file_piece pre content post _ _ Hl') as (x & Hx).
  (* the slice survives the '\r' that `lines` dropped *)
  assert (Hs' : bslice l' (k_a k - 1) (k_b k) = Some (k_val k)).
  { destruct Hll as [->| ->]; [exact Hs|].
    pose proof (bslice_shift l [] [13] _ _ _ Hs) as H. cbn [app blen] in H.
    replace (0 + (k_a k - 1)) with (k_a k - 1) in H by lia.
    replace (0 + k_b k) with (k_b k) in H by lia. exact H. }
  unfold d, key_diag, text_at. cbn [d_sl d_sc d_ec]. rewrite Hcs. cbn [fst snd].
  destruct ((1 + count_nl pre + k_idx k =? 0) ||
            (k_a k + (if k_idx k =? 0 then 1 + blen (lastp pre) - 1 else 0) =? 0)) eqn:E0.
  { apply orb_true_iff in E0. destruct E0 as [E0|E0]; lia. }
  replace (N.to_nat (1 + count_nl pre + k_idx k - 1)) with (nls pre + N.to_nat (k_idx k))%nat
    by (unfold nls; lia).
  unfold file. rewrite Hx.
  destruct (k_idx k =? 0) eqn:Ei.
  - replace (Nat.eqb (N.to_nat (k_idx k)) 0) with true by (symmetry; apply PeanoNat.Nat.eqb_eq; lia).
    replace (k_a k + (1 + blen (lastp pre) - 1) - 1) with (blen (lastp pre) + (k_a k - 1)) by lia.
    replace (k_b k + (1 + blen (lastp pre) - 1)) with (blen (lastp pre) + k_b k) by lia.
    apply bslice_shift. exact Hs'.
  - replace (Nat.eqb (N.to_nat (k_idx k)) 0) with false by (symmetry; apply PeanoNat.Nat.eqb_neq; lia).
    pose proof (bslice_shift l' [] x _ _ _ Hs') as H. cbn [app blen] in H.
    replace (0 + (k_a k - 1)) with (k_a k - 1) in H by lia.
    replace (0 + k_b k) with (k_b k) in H by lia.
    replace (k_a k + 0 - 1) with (k_a k - 1) by lia.
    replace (k_b k + 0) with (k_b k) by lia. exact H.
Qed.

(* ================= 4. trimmed-line keys ================= *)
Theorem key_range_exact : forall (pre content post : str) k b code sev data,
  let file := pre ++ content ++ post in
  b_clo b = blen pre -> b_chi b = blen pre + blen content ->
  b_cs b = pos_of_offset file (blen pre) ->
  In k (keys_trim 0 (lines content)) ->
  let d := key_diag b k code sev data in
  text_at file (d_sl d) (d_sc d) (d_ec d) = Some (k_val k).
Proof.
  intros pre content post k b code sev data file Hlo Hhi Hcs Hin d.
  destruct (keys_trim_idx _ _ _ Hin) as (i & l & Hn & Hi & Hv & Hka & Hkb).
  apply (key_range_exact_gen pre content post k b code sev data l Hlo Hhi Hcs).
  - replace (N.to_nat (k_idx k)) with i by lia. exact Hn.
  - lia.
  - rewrite Hkb, Hka, Hv.
    replace (trim_off l + 1 - 1) with (trim_off l) by lia.
    replace (trim_off l + 1 + blen (trim l) - 1) with (trim_off l + blen (trim l)) by lia.
    apply trim_slice.
Qed.

(* ================= regex keys and the validators ================= *)
(* every key the model extracts, trimmed or regex, is a slice of its line *)
Definition key_on_lines (ls : list str) (idx : N) (k : key) : Prop :=
  exists i l, nth_error ls i = Some l /\ k_idx k = idx + N.of_nat i /\ 1 <= k_a k /\
              bslice l (k_a k - 1) (k_b k) = Some (k_val k).

Lemma keys_trim_on_lines idx ls k : In k (keys_trim idx ls) -> key_on_lines ls idx k.
Proof.
  intros Hin. destruct (keys_trim_idx _ _ _ Hin) as (i & l & Hn & Hi & Hv & Hka & Hkb).
  exists i, l. split; [exact Hn|]. split; [exact Hi|]. split; [lia|].
  rewrite Hkb, Hka, Hv.
  replace (trim_off l + 1 - 1) with (trim_off l) by lia.
  replace (trim_off l + 1 + blen (trim l) - 1) with (trim_off l + blen (trim l)) by lia.
  apply trim_slice.
Qed.

Lemma keys_rx_on_lines o pat : forall ls idx ks k,
  keys_rx o pat idx ls = Ok ks -> In k ks -> key_on_lines ls idx k.
Proof.
  induction ls as [|l ls IH]; intros idx ks k H Hin.
  - cbn [keys_rx] in H. inversion H; subst ks. destruct Hin.
  - cbn [keys_rx] in H.
    destruct (regex_key o pat idx l) as [ok| |] eqn:Er; cbn [bind] in H; try discriminate.
    destruct (keys_rx o pat (idx + 1) ls) as [ks'| |] eqn:Ek; cbn [bind] in H; try discriminate.
    inversion H; subst ks. clear H.
    assert (Htl : In k ks' -> key_on_lines (l :: ls) idx k).
    { intros Hk. destruct (IH _ _ _ Ek Hk) as (i & l' & Hn & Hi & Hr).
      exists (S i), l'. split; [exact Hn|]. split; [lia|exact Hr]. }
    destruct ok as [k0|]; [|exact (Htl Hin)].
    destruct Hin as [<-|Hin]; [|exact (Htl Hin)].
    unfold regex_key in Er.
    destruct (o_rx o pat l) as [[[[ms me] g]|]|]; try discriminate.
    destruct (match g with Some (vs, ve) => (vs, ve) | None => (ms, me) end) as [a z].
    destruct (bslice l a z) as [kv|] eqn:Es; [|discriminate].
    inversion Er; subst k0. exists 0%nat, l. cbn [nth_error k_idx k_a k_b k_val].
    split; [reflexivity|]. split; [lia|]. split; [lia|].
    replace (a + 1 - 1) with a by lia. exact Es.
Qed.

Lemma keys_of_on_lines o pat e content ks k :
  keys_of o pat e content = Ok ks -> In k ks -> key_on_lines (lines content) 0 k.
Proof.
  unfold keys_of. destruct pat as [|c pat].
  - intros H Hin. inversion H; subst ks. apply keys_trim_on_lines. exact Hin.
  - destruct (o_rx_ok o (c :: pat)) as [[|]|]; try discriminate.
    + intros H Hin. eapply keys_rx_on_lines; eassumption.
    + destruct (lines content); [|discriminate]. intros H Hin. inversion H; subst ks. destruct Hin.
Qed.

Lemma key_range_on_lines : forall (pre content post : str) k b code sev data,
  let file := pre ++ content ++ post in
  b_clo b = blen pre -> b_chi b = blen pre + blen content ->
  b_cs b = pos_of_offset file (blen pre) ->
  key_on_lines (lines content) 0 k ->
  let d := key_diag b k code sev data in
  text_at file (d_sl d) (d_sc d) (d_ec d) = Some (k_val k).
Proof.
  intros pre content post k b code sev data file Hlo Hhi Hcs (i & l & Hn & Hi & Ha & Hs) d.
  apply (key_range_exact_gen pre content post k b code sev data l Hlo Hhi Hcs); [|exact Ha|exact Hs].
  replace (N.to_nat (k_idx k)) with i by lia. exact Hn.
Qed.

(* any key of the block, whatever the pattern *)
Theorem key_range_exact_keys_of : forall (pre content post : str) o pat e ks k b code sev data,
  let file := pre ++ content ++ post in
  b_clo b = blen pre -> b_chi b = blen pre + blen content ->
  b_cs b = pos_of_offset file (blen pre) ->
  keys_of o pat e content = Ok ks -> In k ks ->
  let d := key_diag b k code sev data in
  text_at file (d_sl d) (d_sc d) (d_ec d) = Some (k_val k).
Proof.
  intros pre content post o pat e ks k b code sev data file Hlo Hhi Hcs Hks Hin d.
  apply key_range_on_lines; try assumption. eapply keys_of_on_lines; eassumption.
Qed.

(* the scans report one of the keys they were given *)
Lemma ks_scan_In viol : forall ks prev k, ks_scan viol prev ks = Ok (Some k) -> In k ks.
Proof.
  induction ks as [|x ks IH]; intros prev k H; cbn [ks_scan] in H; [discriminate|].
  destruct (viol prev (k_val x)) as [[|]| |]; cbn [bind] in H; try discriminate.
  - inversion H; subst. left; reflexivity.
  - right. eapply IH; eassumption.
Qed.

Lemma ks_check_In viol ks k : ks_check viol ks = Ok (Some k) -> In k ks.
Proof.
  destruct ks as [|x ks]; cbn [ks_check]; [discriminate|].
  intros H. right. eapply ks_scan_In; eassumption.
Qed.

Lemma ku_scan_In : forall ks seen k, ku_scan seen ks = Some k -> In k ks.
Proof.
  induction ks as [|x ks IH]; intros seen k H; cbn [ku_scan] in H; [discriminate|].
  destruct (mem_str (k_val x) seen).
  - inversion H; subst. left; reflexivity.
  - right. eapply IH; eassumption.
Qed.

Lemma lp_scan_on_lines o pat ls k :
  lp_scan o pat 0 ls = Ok (Some k) -> key_on_lines ls 0 k.
Proof.
  intros H. destruct (lp_scan_some _ _ _ _ _ H) as (p & l & q & -> & _ & _ & Hi & Hv & Hka & Hkb).
  exists (length p), l. split; [rewrite nth_error_app2, PeanoNat.Nat.sub_diag by lia; reflexivity|].
  split; [exact Hi|]. split; [lia|].
  rewrite Hkb, Hka, Hv.
  replace (trim_off l + 1 - 1) with (trim_off l) by lia.
  replace (trim_off l + 1 + blen (trim l) - 1) with (trim_off l + blen (trim l)) by lia.
  apply trim_slice.
Qed.

(* the three validators: whatever they report delimits a key of the block, on
   the key's own line *)
Definition delimits_key (file : str) (b : block) (d : diag) : Prop :=
  exists k, d_sl d = fst (b_cs b) + k_idx k /\ d_el d = d_sl d /\
            text_at file (d_sl d) (d_sc d) (d_ec d) = Some (k_val k).

Section Validators.
  Variables (pre content post : str) (b : block) (o : oracles).
  Let file := pre ++ content ++ post.
  Hypothesis Hlo : b_clo b = blen pre.
  Hypothesis Hhi : b_chi b = blen pre + blen content.
  Hypothesis Hcs : b_cs b = pos_of_offset file (blen pre).

  Lemma key_diag_delimits k code sev data :
    key_on_lines (lines content) 0 k -> delimits_key file b (key_diag b k code sev data).
  Proof.
    intros Hk. exists k. split; [reflexivity|]. split; [reflexivity|].
    exact (key_range_on_lines pre content post k b code sev data Hlo Hhi Hcs Hk).
  Qed.

  Theorem keep_sorted_range_exact ds :
    keep_sorted o file b = Ok ds -> Forall (delimits_key file b) ds.
  Proof.
    unfold keep_sorted. destruct (get_attr _ _) as [v|]; [|intros H; inversion H; constructor].
    destruct (parse_direction v) as [asc| |]; cbn [bind]; try discriminate.
    destruct (parse_format _) as [fmt| |]; cbn [bind]; try discriminate.
    unfold file at 1. rewrite (content_of_in_context pre content post b Hlo Hhi). cbn [bind].
    destruct (keys_of _ _ _ _) as [ks| |] eqn:Ek; cbn [bind]; try discriminate.
    destruct (ks_check _ ks) as [[k|]| |] eqn:Ec; cbn [bind]; try discriminate.
    - destruct (sev_of _) as [sev| |]; cbn [bind]; try discriminate.
      intros H; inversion H; subst ds. constructor; [|constructor].
      apply key_diag_delimits. eapply keys_of_on_lines; [exact Ek|].
      eapply ks_check_In; exact Ec.
    - intros H; inversion H; constructor.
  Qed.

  Theorem keep_unique_range_exact ds :
    keep_unique o file b = Ok ds -> Forall (delimits_key file b) ds.
  Proof.
    unfold keep_unique. destruct (get_attr _ _) as [pat|]; [|intros H; inversion H; constructor].
    unfold file at 1. rewrite (content_of_in_context pre content post b Hlo Hhi). cbn [bind].
    destruct (keys_of _ _ _ _) as [ks| |] eqn:Ek; cbn [bind]; try discriminate.
    destruct (ku_scan [] ks) as [k|] eqn:Ec.
    - destruct (sev_of _) as [sev| |]; cbn [bind]; try discriminate.
      intros H; inversion H; subst ds. constructor; [|constructor].
      apply key_diag_delimits. eapply keys_of_on_lines; [exact Ek|].
      eapply ku_scan_In; exact Ec.
    - intros H; inversion H; constructor.
  Qed.

  Theorem line_pattern_range_exact ds :
    line_pattern o file b = Ok ds -> Forall (delimits_key file b) ds.
  Proof.
    unfold line_pattern. destruct (get_attr _ _) as [pat|]; [|intros H; inversion H; constructor].
    destruct (o_rx_ok o pat) as [[|]|]; try discriminate.
    unfold file at 1. rewrite (content_of_in_context pre content post b Hlo Hhi). cbn [bind].
    destruct (lp_scan _ _ _ _) as [[k|]| |] eqn:Ec; cbn [bind]; try discriminate.
    - destruct (sev_of _) as [sev| |]; cbn [bind]; try discriminate.
      intros H; inversion H; subst ds. constructor; [|constructor].
      apply key_diag_delimits. apply (lp_scan_on_lines _ _ _ _ Ec).
    - intros H; inversion H; constructor.
  Qed.
End Validators.

(* ================= 7. non-vacuity ================= *)
Module RangeExample.
  (* a block whose content starts on the start tag's line (column 26) *)
  Definition ex_pre : str := T "/* <block keep-sorted> */".
  Definition ex_content : str := T " b
a
".
  Definition ex_post : str := T "/* </block> */
".
  Definition ex_file : str := ex_pre ++ ex_content ++ ex_post.

  (* the two comments as tree-sitter reports them *)
  Definition ex_spans : list cspan :=
    [ {| cs_lo := 0; cs_hi := 25; cs_kind := K_CBLOCK; cs_group := 0 |};
      {| cs_lo := 30; cs_hi := 44; cs_kind := K_CBLOCK; cs_group := 0 |} ].

  Definition ex_block : block :=
    {| b_attrs := [(T "keep-sorted", [])]; b_ts := (1, 4); b_te := (1, 22);
       b_clo := 25; b_chi := 30; b_cs := (1, 26); b_ce := (3, 1) |}.

  Definition ex_key_b : key := {| k_idx := 0; k_val := T "b"; k_a := 2; k_b := 2 |}.
  Definition ex_key_a : key := {| k_idx := 1; k_val := T "a"; k_a := 1; k_b := 1 |}.

  Definition no_oracles : oracles :=
    {| o_rx_ok := fun _ => None; o_rx := fun _ _ => None; o_f64 := fun _ => None;
       o_lua := fun _ _ _ => None; o_ai := fun _ _ => None |}.

  (* the block record is the one the model's parser produces for this file *)
  Example ex_parse : parse_file ex_file ex_spans = Ok [ex_block].
  Proof. vm_compute. reflexivity. Qed.

  (* the hypotheses of key_range_exact hold for it *)
  Example ex_hyps :
    b_clo ex_block = blen ex_pre /\ b_chi ex_block = blen ex_pre + blen ex_content /\
    b_cs ex_block = pos_of_offset ex_file (blen ex_pre) /\
    content_of ex_file ex_block = Ok ex_content /\
    keys_trim 0 (lines ex_content) = [ex_key_b; ex_key_a].
  Proof. vm_compute. repeat split; reflexivity. Qed.

  (* the ranges of both keys delimit the key texts in the file: `b` sits on the
     tag's line (columns shifted by 25), `a` on the next line (no shift) *)
  Example ex_ranges :
    let db := key_diag ex_block ex_key_b V_UNIQUE 1 [] in
    let da := key_diag ex_block ex_key_a V_SORTED 1 [T "asc"] in
    (d_sl db, d_sc db, d_ec db) = (1, 27, 27) /\
    (d_sl da, d_sc da, d_ec da) = (2, 1, 1) /\
    text_at ex_file (d_sl db) (d_sc db) (d_ec db) = Some (T "b") /\
    text_at ex_file (d_sl da) (d_sc da) (d_ec da) = Some (T "a").
  Proof. vm_compute. repeat split; reflexivity. Qed.

  (* keep-sorted reports exactly the diagnostic for `a` *)
  Example ex_keep_sorted :
    keep_sorted no_oracles ex_file ex_block = Ok [key_diag ex_block ex_key_a V_SORTED 1 [T "asc"]].
  Proof. vm_compute. reflexivity. Qed.

  (* and the theorem applies to it (same conclusion, by proof rather than computation) *)
  Example ex_by_theorem :
    let d := key_diag ex_block ex_key_a V_SORTED 1 [T "asc"] in
    text_at ex_file (d_sl d) (d_sc d) (d_ec d) = Some (T "a").
  Proof.
    apply (key_range_exact ex_pre ex_content ex_post ex_key_a ex_block V_SORTED 1 [T "asc"]).
    - vm_compute. reflexivity.
    - vm_compute. reflexivity.
    - vm_compute. reflexivity.
    - vm_compute. right. left. reflexivity.
  Qed.

  (* a '\r\n' content: the piece of the file keeps the '\r', the key does not *)
  Example ex_crlf :
    let pre := T "# <block keep-unique>" ++ [13; 10] in
    let content := T "  x" ++ [13; 10] ++ T "  x" ++ [13; 10] in
    let post := T "# </block>" in
    let b := {| b_attrs := []; b_ts := (1, 3); b_te := (1, 21);
                b_clo := blen pre; b_chi := blen pre + blen content;
                b_cs := pos_of_offset (pre ++ content ++ post) (blen pre); b_ce := (4, 1) |} in
    let k := {| k_idx := 1; k_val := T "x"; k_a := 3; k_b := 3 |} in
    let d := key_diag b k V_UNIQUE 1 [] in
    In k (keys_trim 0 (lines content)) /\
    nth_error (split_on 10 (pre ++ content ++ post)) 2 = Some (T "  x" ++ [13]) /\
    text_at (pre ++ content ++ post) (d_sl d) (d_sc d) (d_ec d) = Some (T "x").
  Proof. vm_compute. split; [right; left; reflexivity|split; reflexivity]. Qed.
End RangeExample.

(* Merge_proofs.v - per-file merging of validator results (theories/Merge.v):
   nothing lost, nothing duplicated, one entry per file, arrival order
   irrelevant. *)
From BW Require Import Merge.
From BWP Require Import TextFacts Keys_proofs C01_proofs.
From Coq Require Import ZifyBool ZifyN ZifyNat Permutation.
Arguments N.add : simpl never. Arguments N.sub : simpl never. Arguments N.mul : simpl never.
Arguments N.eqb : simpl never. Arguments N.ltb : simpl never. Arguments N.leb : simpl never.

Lemma str_eqb_neq a b : str_eqb a b = false <-> a <> b.
Proof.
  split.
  - intros H E. apply str_eqb_eq in E. congruence.
  - intros H. destruct (str_eqb a b) eqn:E; [|reflexivity]. apply str_eqb_eq in E. contradiction.
Qed.

Lemma flatten_cons g es m : flatten ((g, es) :: m) = map (fun d => (g, d)) es ++ flatten m.
Proof. reflexivity. Qed.

Lemma flatten_app m1 m2 : flatten (m1 ++ m2) = flatten m1 ++ flatten m2.
Proof. unfold flatten. apply flat_map_app. Qed.

(* ---------- 4a ---------- *)
Theorem merge_entry_flatten : forall acc f ds,
  Permutation (flatten (merge_entry acc f ds)) (flatten acc ++ map (fun d => (f, d)) ds).
Proof.
  induction acc as [|[g es] acc IH]; intros f ds; cbn [merge_entry].
  - rewrite flatten_cons. cbn [flatten flat_map app]. rewrite app_nil_r. apply Permutation_refl.
  - destruct (str_eqb f g) eqn:E.
    + apply str_eqb_eq in E. subst g. rewrite !flatten_cons, map_app, <- !app_assoc.
      apply Permutation_app_head. apply Permutation_app_comm.
    + rewrite !flatten_cons, <- app_assoc. apply Permutation_app_head. apply IH.
Qed.

(* the keys after merging one entry *)
Lemma merge_entry_keys_in acc f ds g :
  In g (map fst (merge_entry acc f ds)) <-> g = f \/ In g (map fst acc).
Proof.
  induction acc as [|[h es] acc IH]; cbn [merge_entry].
  - cbn [map fst In]. intuition.
  - destruct (str_eqb f h) eqn:E.
    + apply str_eqb_eq in E. subst h. cbn [map fst In]. intuition.
    + cbn [map fst In]. rewrite IH. intuition.
Qed.

Theorem merge_entry_keys : forall acc f ds,
  NoDup (map fst acc) -> NoDup (map fst (merge_entry acc f ds)).
Proof.
  induction acc as [|[g es] acc IH]; intros f ds H; cbn [merge_entry].
  - cbn [map fst]. constructor; [intros []|constructor].
  - cbn [map fst] in H. inversion H as [|x l Hnot Hnd]; subst.
    destruct (str_eqb f g) eqn:E.
    + cbn [map fst]. constructor; assumption.
    + cbn [map fst]. constructor; [|apply IH; exact Hnd].
      intros Hin. apply merge_entry_keys_in in Hin. destruct Hin as [->|Hin]; [|contradiction].
      apply str_eqb_neq in E. congruence.
Qed.

(* ---------- 4b ---------- *)
Lemma merge_map_flatten : forall m acc,
  Permutation (flatten (merge_map acc m)) (flatten acc ++ flatten m).
Proof.
  unfold merge_map.
  induction m as [|[f ds] m IH]; intros acc; cbn [fold_left].
  - cbn [flatten flat_map]. rewrite app_nil_r. apply Permutation_refl.
  - eapply perm_trans; [apply IH|]. cbn [fst snd]. rewrite flatten_cons, app_assoc.
    apply Permutation_app_tail. apply merge_entry_flatten.
Qed.

Lemma merge_map_keys : forall m acc, NoDup (map fst acc) -> NoDup (map fst (merge_map acc m)).
Proof.
  unfold merge_map.
  induction m as [|[f ds] m IH]; intros acc H; cbn [fold_left]; [exact H|].
  apply IH. apply merge_entry_keys. exact H.
Qed.

Lemma merge_fold_flatten : forall arrivals acc,
  Permutation (flatten (fold_left merge_map arrivals acc)) (flatten acc ++ flat_map flatten arrivals).
Proof.
  induction arrivals as [|m ms IH]; intros acc; cbn [fold_left flat_map].
  - rewrite app_nil_r. apply Permutation_refl.
  - eapply perm_trans; [apply IH|]. rewrite app_assoc. apply Permutation_app_tail.
    apply merge_map_flatten.
Qed.

Lemma merge_fold_keys : forall arrivals acc,
  NoDup (map fst acc) -> NoDup (map fst (fold_left merge_map arrivals acc)).
Proof.
  induction arrivals as [|m ms IH]; intros acc H; cbn [fold_left]; [exact H|].
  apply IH. apply merge_map_keys. exact H.
Qed.

(* nothing lost, nothing duplicated, one entry per file *)
Theorem merge_all_union : forall arrivals,
  Permutation (flatten (merge_all arrivals)) (flat_map flatten arrivals) /\
  NoDup (map fst (merge_all arrivals)).
Proof.
  intros arrivals. unfold merge_all. split.
  - exact (merge_fold_flatten arrivals []).
  - apply merge_fold_keys. constructor.
Qed.

(* ---------- 4c ---------- *)
Lemma existsb_app_ {A} (p : A -> bool) l1 l2 : existsb p (l1 ++ l2) = existsb p l1 || existsb p l2.
Proof. apply existsb_app. Qed.

Lemma has_error_severity_flatten m :
  has_error_severity m = existsb (fun pd => d_sev (snd pd) =? 1) (flatten m).
Proof.
  unfold has_error_severity.
  induction m as [|[g es] m IH]; [reflexivity|].
  rewrite flatten_cons, existsb_app_. cbn [existsb snd]. rewrite IH. f_equal.
  induction es as [|d es IHes]; [reflexivity|]. cbn [map existsb snd]. rewrite IHes. reflexivity.
Qed.

Lemma perm_existsb_ {A} (p : A -> bool) l l' : Permutation l l' -> existsb p l = existsb p l'.
Proof.
  induction 1 as [|x l l' Hp IH|x y l|l l' l'' H1 IH1 H2 IH2]; cbn [existsb].
  - reflexivity.
  - rewrite IH. reflexivity.
  - destruct (p x), (p y); reflexivity.
  - congruence.
Qed.

Lemma perm_flat_map_ {A B} (f : A -> list B) l l' :
  Permutation l l' -> Permutation (flat_map f l) (flat_map f l').
Proof.
  induction 1 as [|x l l' Hp IH|x y l|l l' l'' H1 IH1 H2 IH2]; cbn [flat_map].
  - constructor.
  - apply Permutation_app_head. exact IH.
  - rewrite !app_assoc. apply Permutation_app_tail. apply Permutation_app_comm.
  - eapply perm_trans; eassumption.
Qed.

(* arrival order does not matter *)
Theorem merge_all_perm : forall a a', Permutation a a' ->
  Permutation (flatten (merge_all a)) (flatten (merge_all a')) /\
  has_error_severity (merge_all a) = has_error_severity (merge_all a').
Proof.
  intros a a' H.
  assert (Hp : Permutation (flatten (merge_all a)) (flatten (merge_all a'))).
  { eapply perm_trans; [apply merge_all_union|].
    eapply perm_trans; [apply perm_flat_map_; exact H|].
    apply Permutation_sym. apply merge_all_union. }
  split; [exact Hp|].
  rewrite !has_error_severity_flatten. apply perm_existsb_. exact Hp.
Qed.

(* ---------- 4d ---------- *)
Theorem group_by_file_flatten : forall ds, Permutation (flatten (group_by_file ds)) ds.
Proof.
  induction ds as [|[f d] ds IH]; cbn [group_by_file]; [constructor|].
  eapply perm_trans; [apply merge_entry_flatten|]. cbn [map].
  eapply perm_trans; [apply Permutation_app_comm|]. cbn [app]. constructor. exact IH.
Qed.

(* a file has an entry iff it has a violation *)
Theorem group_by_file_keys : forall ds f,
  In f (map fst (group_by_file ds)) <-> exists d, In (f, d) ds.
Proof.
  induction ds as [|[g d] ds IH]; intros f; cbn [group_by_file].
  - cbn [map In]. split; [intros []|intros (d & [])].
  - rewrite merge_entry_keys_in, IH. cbn [In]. split.
    + intros [->|(d' & Hd')]; [exists d; left; reflexivity|exists d'; right; exact Hd'].
    + intros (d' & [E|Hd']); [left; congruence|right; exists d'; exact Hd'].
Qed.

Theorem group_by_file_nodup : forall ds, NoDup (map fst (group_by_file ds)).
Proof.
  induction ds as [|[g d] ds IH]; cbn [group_by_file]; [constructor|].
  apply merge_entry_keys. exact IH.
Qed.

(* every entry of a grouped map is non-empty *)
Lemma merge_entry_nonempty acc f d :
  (forall e, In e acc -> snd e <> []) -> forall e, In e (merge_entry acc f [d]) -> snd e <> [].
Proof.
  induction acc as [|[g es] acc IH]; intros H e He; cbn [merge_entry] in He.
  - destruct He as [<-|[]]. discriminate.
  - destruct (str_eqb f g).
    + destruct He as [<-|He]; [cbn [snd]; destruct es; discriminate|].
      apply H. right; exact He.
    + destruct He as [<-|He]; [apply H; left; reflexivity|].
      apply IH; [|exact He]. intros e' He'. apply H. right; exact He'.
Qed.

Theorem group_by_file_nonempty : forall ds e, In e (group_by_file ds) -> snd e <> [].
Proof.
  induction ds as [|[g d] ds IH]; intros e He; cbn [group_by_file] in He; [destruct He|].
  exact (merge_entry_nonempty _ _ _ IH e He).
Qed.

(* TextFacts.v - lemmas about the string functions of BW.Text *)
From BW Require Import Text.
From Coq Require Import ZifyBool ZifyN ZifyNat.

Arguments N.add : simpl never.
Arguments N.sub : simpl never.
Arguments N.mul : simpl never.
Arguments N.eqb : simpl never.
Arguments N.ltb : simpl never.
Arguments N.leb : simpl never.

Definition all_ws (s : str) : Prop := Forall (fun c => is_ws c = true) s.

Lemma drop_while_app_all p (a b : str) :
  Forall (fun c => p c = true) a -> drop_while p (a ++ b) = drop_while p b.
Proof.
  induction 1 as [|x a Hx Ha IH]; cbn [drop_while app]; [reflexivity|].
  rewrite Hx. exact IH.
Qed.

Lemma take_while_app_all p (a b : str) :
  Forall (fun c => p c = true) a -> take_while p (a ++ b) = a ++ take_while p b.
Proof.
  induction 1 as [|x a Hx Ha IH]; cbn [take_while app]; [reflexivity|].
  rewrite Hx, IH. reflexivity.
Qed.

Lemma drop_while_head_false p c (s : str) : p c = false -> drop_while p (c :: s) = c :: s.
Proof. intros H; cbn [drop_while]; rewrite H; reflexivity. Qed.

Lemma take_while_head_false p c (s : str) : p c = false -> take_while p (c :: s) = [].
Proof. intros H; cbn [take_while]; rewrite H; reflexivity. Qed.

Lemma Forall_rev_iff {A} (P : A -> Prop) l : Forall P l -> Forall P (rev l).
Proof. intros H; apply Forall_forall; intros x Hx; apply in_rev in Hx; revert x Hx; apply Forall_forall; exact H. Qed.

(* a string that begins and ends with non-whitespace *)
Definition solid (s : str) : Prop :=
  exists a m z, (s = [a] \/ s = a :: m ++ [z]) /\ is_ws a = false /\ is_ws z = false
                /\ (s = [a] -> z = a).

Lemma solid_head s : solid s -> exists a r, s = a :: r /\ is_ws a = false.
Proof. intros (a & m & z & [H|H] & Ha & _); subst; eauto. Qed.

Lemma solid_last s : solid s -> exists r z, s = r ++ [z] /\ is_ws z = false.
Proof.
  intros (a & m & z & [H|H] & Ha & Hz & Hs); subst.
  - exists [], a; split; [reflexivity|exact Ha].
  - exists (a :: m), z; split; [reflexivity|exact Hz].
Qed.

Lemma trim_app_ws w1 x w3 : all_ws w1 -> all_ws w3 -> solid x -> trim (w1 ++ x ++ w3) = x.
Proof.
  intros H1 H3 Hx. unfold trim, trim_start, trim_end.
  rewrite drop_while_app_all by exact H1.
  destruct (solid_head _ Hx) as (a & r & -> & Ha).
  cbn [app]. rewrite drop_while_head_false by exact Ha.
  destruct (solid_last _ Hx) as (r' & z & Hr & Hz).
  change (a :: r ++ w3) with ((a :: r) ++ w3). rewrite Hr.
  rewrite rev_app_distr, drop_while_app_all by (apply Forall_rev_iff; exact H3).
  rewrite rev_app_distr. cbn [rev app]. rewrite drop_while_head_false by exact Hz.
  change (z :: rev r') with ([z] ++ rev r'). rewrite rev_app_distr, rev_involutive. reflexivity.
Qed.

Lemma trim_nil_of_all_ws w : all_ws w -> trim w = [].
Proof.
  intros H. unfold trim, trim_start, trim_end.
  rewrite <- (app_nil_r w) at 1. rewrite drop_while_app_all by exact H. reflexivity.
Qed.

(* trim is empty iff every character is whitespace *)
Lemma drop_while_nil_iff p (s : str) : drop_while p s = [] <-> Forall (fun c => p c = true) s.
Proof.
  induction s as [|c s IH]; cbn [drop_while].
  - split; auto.
  - destruct (p c) eqn:Hc.
    + rewrite IH. split; intros H; [constructor; assumption|inversion H; assumption].
    + split; [discriminate|]. intros H; inversion H; congruence.
Qed.

Lemma trim_nil_iff s : trim s = [] <-> all_ws s.
Proof.
  split; [|apply trim_nil_of_all_ws].
  unfold trim, trim_end, trim_start. intros H.
  assert (Hr : drop_while is_ws (rev (drop_while is_ws s)) = []).
  { apply (f_equal (@rev char)) in H. rewrite rev_involutive in H. exact H. }
  apply drop_while_nil_iff in Hr.
  (* every char of drop_while is_ws s is whitespace, hence it is empty *)
  assert (Hd : drop_while is_ws s = []).
  { destruct (drop_while is_ws s) as [|c r] eqn:E; [reflexivity|].
    exfalso.
    assert (Hc : is_ws c = true).
    { apply Forall_rev_iff in Hr. rewrite rev_involutive in Hr. inversion Hr; assumption. }
    clear - E Hc. induction s as [|x s IH]; cbn [drop_while] in E; [discriminate|].
    destruct (is_ws x) eqn:Hx; [auto|]. inversion E; subst; congruence. }
  apply drop_while_nil_iff. exact Hd.
Qed.

(* ---------- strip_prefix ---------- *)
Lemma strip_prefix_app p s : strip_prefix p (p ++ s) = Some s.
Proof. induction p as [|x p IH]; cbn [strip_prefix app]; [reflexivity|]. rewrite N.eqb_refl. exact IH. Qed.

(* ---------- decimal ---------- *)
Definition is_digit_list (s : str) : Prop := Forall (fun c => is_ascii_digit c = true) s.

Lemma digits_val_app a d r :
  is_ascii_digit d = true -> digits_val a (d :: r) = digits_val (a * 10 + (d - 48)) r.
Proof. intros H; cbn [digits_val]; rewrite H; reflexivity. Qed.

Lemma dec_fuel_spec : forall f n acc, (0 < f)%nat -> n < 10 ^ N.of_nat f ->
  exists ds, dec_fuel f n acc = ds ++ acc /\ ds <> [] /\ is_digit_list ds /\
             forall a, digits_val a (ds ++ acc) = digits_val (a * 10 ^ nlen ds + n) acc.
Proof.
  induction f as [|f IH]; intros n acc Hf Hn; [lia|].
  cbn [dec_fuel].
  assert (Hd : is_ascii_digit (48 + n mod 10) = true).
  { unfold is_ascii_digit. assert (n mod 10 < 10) by (apply N.mod_lt; lia). lia. }
  destruct (n <? 10) eqn:Hlt.
  - exists [48 + n mod 10]. split; [reflexivity|]. split; [discriminate|].
    split; [constructor; [exact Hd|constructor]|].
    intros a. cbn [app]. rewrite digits_val_app by exact Hd.
    f_equal. unfold nlen; cbn [length]. rewrite N.mod_small by lia. cbn. lia.
  - assert (Hf' : (0 < f)%nat).
    { destruct f; [|lia]. cbn in Hn. lia. }
    assert (Hn' : n / 10 < 10 ^ N.of_nat f).
    { apply N.div_lt_upper_bound; [lia|].
      replace (N.of_nat (S f)) with (N.succ (N.of_nat f)) in Hn by lia.
      rewrite N.pow_succ_r' in Hn. exact Hn. }
    destruct (IH (n / 10) ((48 + n mod 10) :: acc) Hf' Hn') as (ds & E & Hne & Hds & Hv).
    exists (ds ++ [48 + n mod 10]). rewrite E, <- app_assoc. split; [reflexivity|].
    split; [destruct ds; discriminate|].
    split; [apply Forall_app; split; [exact Hds|constructor; [exact Hd|constructor]]|].
    intros a. cbn [app]. rewrite Hv, digits_val_app by exact Hd.
    f_equal. unfold nlen. rewrite app_length. cbn [length].
    replace (N.of_nat (length ds + 1)) with (N.succ (N.of_nat (length ds))) by lia.
    rewrite N.pow_succ_r'.
    pose proof (N.div_mod n 10 ltac:(lia)) as Hdm.
    assert (n mod 10 < 10) by (apply N.mod_lt; lia).
    replace (48 + n mod 10 - 48) with (n mod 10) by lia.
    nia.
Qed.

Lemma dec_spec n : exists ds, dec n = ds /\ ds <> [] /\ is_digit_list ds /\ digits_val 0 ds = Some n.
Proof.
  unfold dec.
  assert (Hn : n < 10 ^ N.of_nat (S (N.to_nat (N.log2 n)))).
  { destruct (N.eq_dec n 0) as [->|Hz]; [cbn; lia|].
    assert (n < 2 ^ N.succ (N.log2 n)) by (apply N.log2_spec; lia).
    replace (N.of_nat (S (N.to_nat (N.log2 n)))) with (N.succ (N.log2 n)) by lia.
    eapply N.lt_le_trans; [eassumption|].
    apply N.pow_le_mono_l. lia. }
  destruct (dec_fuel_spec _ n [] (PeanoNat.Nat.lt_0_succ _) Hn) as (ds & E & Hne & Hds & Hv).
  exists (ds ++ []). split; [exact E|]. rewrite app_nil_r.
  split; [exact Hne|]. split; [exact Hds|].
  specialize (Hv 0). rewrite app_nil_r in Hv. rewrite Hv. cbn [digits_val]. f_equal.
Qed.

Lemma digit_not_ws c : is_ascii_digit c = true -> is_ws c = false.
Proof. unfold is_ascii_digit, is_ws. lia. Qed.

Lemma dec_solid n : solid (dec n).
Proof.
  destruct (dec_spec n) as (ds & -> & Hne & Hds & _).
  destruct ds as [|a r]; [congruence|].
  destruct (@exists_last _ (a :: r) ltac:(discriminate)) as (r' & z & E).
  assert (Hz : is_ascii_digit z = true).
  { rewrite E in Hds. apply Forall_app in Hds. destruct Hds as [_ Hz]. inversion Hz; assumption. }
  assert (Ha : is_ascii_digit a = true) by (inversion Hds; assumption).
  destruct r' as [|b m].
  - cbn in E. inversion E; subst. exists z, [], z. repeat split; auto using digit_not_ws.
  - cbn [app] in E. inversion E; subst. exists b, m, z.
    split; [right; reflexivity|]. split; [apply digit_not_ws; exact Ha|].
    split; [apply digit_not_ws; exact Hz|]. intros Hx. destruct m; discriminate.
Qed.

Lemma parse_usize_dec n : n < 18446744073709551616 -> parse_usize (dec n) = Some n.
Proof.
  intros Hn. destruct (dec_spec n) as (ds & -> & Hne & Hds & Hv).
  unfold parse_usize. destruct ds as [|d r]; [congruence|].
  assert (Hd : is_ascii_digit d = true) by (inversion Hds; assumption).
  assert (Hd43 : (d =? 43) = false) by (unfold is_ascii_digit in Hd; lia).
  rewrite Hd43.
  rewrite Hv. apply N.ltb_lt in Hn. rewrite Hn. reflexivity.
Qed.

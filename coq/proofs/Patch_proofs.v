(* Patch_proofs.v - a printed patch parses back: the accepted-diff half of
   property C01 (theories/Unidiff.v). *)
From BW Require Import RunCase.
From BWGen Require Import ExtTable.
From BWP Require Import TextFacts Keys_proofs Run_proofs Context_proofs Diff_proofs.
From Coq Require Import ZifyBool ZifyN ZifyNat Permutation.
Arguments N.add : simpl never. Arguments N.sub : simpl never. Arguments N.mul : simpl never.
Arguments N.eqb : simpl never. Arguments N.ltb : simpl never. Arguments N.leb : simpl never.

(* ================================================================== *)
(* small facts                                                         *)
(* ================================================================== *)

Lemma strip_prefix_head_ne x p c (s : str) : x <> c -> strip_prefix (x :: p) (c :: s) = None.
Proof. intros H. cbn [strip_prefix]. destruct (x =? c) eqn:E; [lia|reflexivity]. Qed.

Lemma strip_prefix_head_eq x p (s : str) : strip_prefix (x :: p) (x :: s) = strip_prefix p s.
Proof. cbn [strip_prefix]. rewrite N.eqb_refl. reflexivity. Qed.

Lemma take_while_all p (s : str) : Forall (fun c => p c = true) s -> take_while p s = s.
Proof.
  induction 1 as [|x s Hx Hs IH]; cbn [take_while]; [reflexivity|]. rewrite Hx, IH. reflexivity.
Qed.

Lemma T_sp_plus : T " +" = [32; 43]. Proof. reflexivity. Qed.
Lemma T_sp_atat : T " @@" = [32; 64; 64]. Proof. reflexivity. Qed.
Lemma T_plusplus_sp : T "++ " = [43; 43; 32]. Proof. reflexivity. Qed.
Lemma T_dashdash_sp : T "-- " = [45; 45; 32]. Proof. reflexivity. Qed.

(* ================================================================== *)
(* 2a. the hunk header                                                 *)
(* ================================================================== *)

Definition print_hunk_header (ss sl ts tl : N) : str :=
  T "@@ -" ++ dec ss ++ [44] ++ dec sl ++ T " +" ++ dec ts ++ [44] ++ dec tl ++ T " @@".

Definition no_digit_head (r : str) : Prop :=
  match r with [] => True | c :: _ => is_ascii_digit c = false end.

Lemma take_digits_dec n r : no_digit_head r -> take_digits (dec n ++ r) = Some (n, r).
Proof.
  intros Hr. destruct (dec_spec n) as (ds & E & Hne & Hds & Hv). rewrite E. unfold take_digits.
  rewrite (take_while_app_all is_ascii_digit ds r Hds), (drop_while_app_all is_ascii_digit ds r Hds).
  assert (Ht : take_while is_ascii_digit r = []).
  { destruct r as [|c r]; [reflexivity|]. cbn [no_digit_head] in Hr. cbn [take_while]. rewrite Hr. reflexivity. }
  assert (Hd : drop_while is_ascii_digit r = r).
  { destruct r as [|c r]; [reflexivity|]. cbn [no_digit_head] in Hr. cbn [drop_while]. rewrite Hr. reflexivity. }
  rewrite Ht, Hd, app_nil_r. destruct ds as [|c ds]; [congruence|].
  cbv beta iota zeta. rewrite Hv. reflexivity.
Qed.

Lemma opt_len_print n r : no_digit_head r -> opt_len ([44] ++ dec n ++ r) = (n, r).
Proof.
  intros Hr. cbn [app]. unfold opt_len. rewrite (take_digits_dec n r Hr). reflexivity.
Qed.

(* whatever follows the closing "@@" (git appends " <section heading>") *)
Theorem hunk_header_print_any : forall ss sl ts tl rest,
  hunk_header (print_hunk_header ss sl ts tl ++ rest) = Some (ss, sl, ts, tl).
Proof.
  intros ss sl ts tl rest. unfold print_hunk_header, hunk_header.
  rewrite <- !app_assoc. rewrite strip_prefix_app.
  rewrite take_digits_dec by (cbn [app no_digit_head]; reflexivity).
  rewrite opt_len_print by (rewrite T_sp_plus; cbn [app no_digit_head]; reflexivity).
  rewrite strip_prefix_app.
  rewrite take_digits_dec by (cbn [app no_digit_head]; reflexivity).
  rewrite opt_len_print by (rewrite T_sp_atat; cbn [app no_digit_head]; reflexivity).
  rewrite strip_prefix_app. reflexivity.
Qed.

Theorem hunk_header_print : forall ss sl ts tl,
  hunk_header (print_hunk_header ss sl ts tl) = Some (ss, sl, ts, tl).
Proof.
  intros ss sl ts tl. rewrite <- (app_nil_r (print_hunk_header ss sl ts tl)). apply hunk_header_print_any.
Qed.

Theorem hunk_header_print_heading : forall ss sl ts tl rest,
  rest = [] \/ (exists r, rest = 32 :: r) ->
  hunk_header (print_hunk_header ss sl ts tl ++ rest) = Some (ss, sl, ts, tl).
Proof. intros ss sl ts tl rest _. apply hunk_header_print_any. Qed.

(* ================================================================== *)
(* 2b. the file headers                                                *)
(* ================================================================== *)

Definition good_name (name : str) : Prop := name <> [] /\ ~ In 9 name.

Lemma take_while_not_tab name : ~ In 9 name -> take_while (fun c => negb (c =? 9)) name = name.
Proof.
  intros H. apply take_while_all. apply Forall_forall. intros c Hc.
  destruct (c =? 9) eqn:E; [|reflexivity]. exfalso. apply H. apply N.eqb_eq in E. subst c. exact Hc.
Qed.

Lemma header_name_print prefix name : good_name name -> header_name prefix (prefix ++ name) = Some name.
Proof.
  intros [Hne Htab]. unfold header_name. rewrite strip_prefix_app, (take_while_not_tab name Htab).
  destruct name; [congruence|reflexivity].
Qed.

Theorem source_header_print : forall name, good_name name -> source_header (T "--- " ++ name) = Some name.
Proof. intros name H. apply header_name_print. exact H. Qed.

Theorem target_header_print : forall name, good_name name -> target_header (T "+++ " ++ name) = Some name.
Proof. intros name H. apply header_name_print. exact H. Qed.

Theorem target_header_on_source_line : forall name, target_header (T "--- " ++ name) = None.
Proof.
  intros name. unfold target_header, header_name. rewrite T_src_prefix, T_tgt_prefix. cbn [app].
  rewrite strip_prefix_head_ne by lia. reflexivity.
Qed.

Theorem hunk_header_on_source_line : forall name, hunk_header (T "--- " ++ name) = None.
Proof.
  intros name. unfold hunk_header. rewrite T_src_prefix, T_hunk_prefix. cbn [app].
  rewrite strip_prefix_head_ne by lia. reflexivity.
Qed.

Theorem source_header_on_target_line : forall name, source_header (T "+++ " ++ name) = None.
Proof.
  intros name. unfold source_header, header_name. rewrite T_src_prefix, T_tgt_prefix. cbn [app].
  rewrite strip_prefix_head_ne by lia. reflexivity.
Qed.

Theorem hunk_header_on_target_line : forall name, hunk_header (T "+++ " ++ name) = None.
Proof.
  intros name. unfold hunk_header. rewrite T_tgt_prefix, T_hunk_prefix. cbn [app].
  rewrite strip_prefix_head_ne by lia. reflexivity.
Qed.

(* ================================================================== *)
(* 2c. body lines that are no header look-alikes are skipped           *)
(* ================================================================== *)

(* the simple condition: an added line does not start with "++ ", a removed
   line does not start with "-- " *)
Definition no_lookalike (l : dline) : Prop :=
  match dl_kind l with
  | KAdd => strip_prefix (T "++ ") (dl_val l) = None
  | KDel => strip_prefix (T "-- ") (dl_val l) = None
  | _ => True
  end.

Lemma plain_line_print_dline l : no_lookalike l -> plain_line (print_dline l).
Proof.
  unfold no_lookalike, plain_line, print_dline, source_header, target_header, hunk_header, header_name.
  rewrite T_src_prefix, T_tgt_prefix, T_hunk_prefix, T_plusplus_sp, T_dashdash_sp.
  destruct (dl_kind l); intros H; cbn [app].
  - rewrite strip_prefix_head_eq, H, !strip_prefix_head_ne by lia. repeat split.
  - rewrite strip_prefix_head_eq, H, !strip_prefix_head_ne by lia. repeat split.
  - rewrite !strip_prefix_head_ne by lia. repeat split.
  - rewrite !strip_prefix_head_ne by lia. repeat split.
Qed.

Lemma parse_lines_skip_plain l rest files cur src :
  plain_line l -> parse_lines (l :: rest) files cur src = parse_lines rest files cur src.
Proof. intros (H1 & H2 & H3). cbn [parse_lines]. rewrite H1, H2, H3. reflexivity. Qed.

Theorem parse_lines_skip_body_line : forall l rest files cur src,
  source_header (print_dline l) = None -> target_header (print_dline l) = None ->
  hunk_header (print_dline l) = None ->
  parse_lines (print_dline l :: rest) files cur src = parse_lines rest files cur src.
Proof. intros l rest files cur src H1 H2 H3. apply parse_lines_skip_plain. repeat split; assumption. Qed.

Lemma parse_lines_skip_plain_list ls : forall rest files cur src,
  Forall plain_line ls -> parse_lines (ls ++ rest) files cur src = parse_lines rest files cur src.
Proof.
  induction ls as [|l ls IH]; intros rest files cur src H; cbn [app]; [reflexivity|].
  inversion H as [|? ? Hl Hls]; subst. rewrite (parse_lines_skip_plain _ _ _ _ _ Hl). apply IH. exact Hls.
Qed.

Theorem parse_lines_skip_body : forall ds rest files cur src,
  Forall no_lookalike ds ->
  parse_lines (map print_dline ds ++ rest) files cur src = parse_lines rest files cur src.
Proof.
  intros ds rest files cur src H. apply parse_lines_skip_plain_list.
  apply Forall_forall. intros l Hl. apply in_map_iff in Hl. destruct Hl as (d & <- & Hd).
  apply plain_line_print_dline. rewrite Forall_forall in H. apply H. exact Hd.
Qed.

(* ================================================================== *)
(* 2d. one hunk body is read back exactly                              *)
(* ================================================================== *)

Fixpoint dcount_src (ds : list dline) : N :=
  match ds with [] => 0 | d :: ds' => adv_src (dl_kind d) + dcount_src ds' end.
Fixpoint dcount_tgt (ds : list dline) : N :=
  match ds with [] => 0 | d :: ds' => adv_tgt (dl_kind d) + dcount_tgt ds' end.

(* parse_print_hunk_prefix strengthened: when the header's counts match, the
   early exit fires exactly at the last line, whatever follows *)
Lemma parse_print_hunk_exact_gen : forall ds src tgt se te more,
  ds <> [] -> well_numbered ds src tgt -> Forall (fun d => dl_kind d <> KOther) ds ->
  se = src + dcount_src ds -> te = tgt + dcount_tgt ds ->
  parse_hunk_lines (map print_dline ds ++ more) src tgt se te = ds.
Proof.
  induction ds as [|d ds IH]; intros src tgt se te more Hne Hwn Hko Hse Hte; [congruence|].
  cbn [map app parse_hunk_lines]. rewrite classify_print_dline. cbv beta iota zeta.
  cbn [well_numbered] in Hwn. destruct Hwn as (Hs & Ht & Hwn).
  inversion Hko as [|? ? Hkd Hko']; subst x l.
  cbn [dcount_src dcount_tgt] in Hse, Hte.
  assert (Hd : {| dl_kind := dl_kind d; dl_val := dl_val d; dl_src := src; dl_tgt := tgt |} = d).
  { destruct d as [k0 v0 s0 t0]; cbn [dl_kind dl_val dl_src dl_tgt] in *. subst. reflexivity. }
  rewrite Hd.
  destruct ds as [|d2 ds].
  - cbn [dcount_src dcount_tgt] in Hse, Hte.
    match goal with |- context [if ?c then _ else _] => replace c with true end; [reflexivity|].
    destruct (dl_kind d); cbn [adv_src adv_tgt] in Hse, Hte; lia.
  - assert (Hk2 : dl_kind d2 <> KOther) by (inversion Hko'; assumption).
    assert (Hpos : 1 <= adv_src (dl_kind d2) + adv_tgt (dl_kind d2)).
    { destruct (dl_kind d2); cbn [adv_src adv_tgt]; try lia. congruence. }
    match goal with |- context [if ?c then _ else _] => replace c with false end.
    + f_equal. apply IH; [discriminate| |exact Hko'| |].
      * destruct (dl_kind d); cbn [adv_src adv_tgt] in Hwn; rewrite ?N.add_0_r in Hwn; exact Hwn.
      * destruct (dl_kind d); cbn [adv_src adv_tgt] in Hse; lia.
      * destruct (dl_kind d); cbn [adv_src adv_tgt] in Hte; lia.
    + cbn [dcount_src dcount_tgt] in Hse, Hte.
      destruct (dl_kind d); cbn [adv_src adv_tgt] in Hse, Hte; lia.
Qed.

Theorem parse_print_hunk_exact : forall ds src tgt,
  ds <> [] -> well_numbered ds src tgt -> Forall (fun d => dl_kind d <> KOther) ds ->
  parse_hunk_lines (map print_dline ds) src tgt (src + dcount_src ds) (tgt + dcount_tgt ds) = ds.
Proof.
  intros ds src tgt Hne Hwn Hko. rewrite <- (app_nil_r (map print_dline ds)).
  apply parse_print_hunk_exact_gen; auto.
Qed.

(* ---------- a well-formed hunk ---------- *)
Definition good_hunk (h : hunk) : Prop :=
  h_lines h <> [] /\
  well_numbered (h_lines h) (h_ss h) (h_ts h) /\
  h_sl h = dcount_src (h_lines h) /\ h_tl h = dcount_tgt (h_lines h) /\
  Forall (fun d => dl_kind d <> KOther) (h_lines h) /\
  Forall no_lookalike (h_lines h).

Definition print_hunk (h : hunk) : list str :=
  print_hunk_header (h_ss h) (h_sl h) (h_ts h) (h_tl h) :: map print_dline (h_lines h).

Lemma parse_hunk_print h more : good_hunk h ->
  parse_hunk (h_ss h, h_sl h, h_ts h, h_tl h) (map print_dline (h_lines h) ++ more) = h.
Proof.
  intros (Hne & Hwn & Hsl & Htl & Hko & _). unfold parse_hunk.
  rewrite (parse_print_hunk_exact_gen (h_lines h) (h_ss h) (h_ts h) _ _ more Hne Hwn Hko);
    [destruct h; reflexivity|rewrite Hsl; reflexivity|rewrite Htl; reflexivity].
Qed.

(* one printed hunk, met while a file is open, is appended to that file *)
Lemma parse_lines_hunk h rest files f src : good_hunk h ->
  parse_lines (print_hunk h ++ rest) files (Some f) src =
  parse_lines rest files
    (Some {| pf_source := pf_source f; pf_target := pf_target f; pf_hunks := pf_hunks f ++ [h] |}) src.
Proof.
  intros Hg. unfold print_hunk. cbn [app parse_lines].
  pose proof (hunk_header_print (h_ss h) (h_sl h) (h_ts h) (h_tl h)) as Hh.
  destruct (hunk_header_not_file_header _ _ Hh) as [Hs Ht]. rewrite Hs, Ht, Hh.
  rewrite (parse_hunk_print h rest Hg).
  apply parse_lines_skip_body. destruct Hg as (_ & _ & _ & _ & _ & Hl). exact Hl.
Qed.

(* several hunks of one file *)
Lemma parse_lines_hunks : forall hs rest files f src, Forall good_hunk hs ->
  parse_lines (flat_map print_hunk hs ++ rest) files (Some f) src =
  parse_lines rest files
    (Some {| pf_source := pf_source f; pf_target := pf_target f; pf_hunks := pf_hunks f ++ hs |}) src.
Proof.
  induction hs as [|h hs IH]; intros rest files f src H; cbn [flat_map app].
  - rewrite app_nil_r. destruct f; reflexivity.
  - inversion H as [|? ? Hh Hhs]; subst. rewrite <- app_assoc.
    rewrite (parse_lines_hunk h _ files f src Hh). rewrite (IH _ _ _ _ Hhs).
    cbn [pf_source pf_target pf_hunks]. rewrite <- app_assoc. reflexivity.
Qed.

(* ---------- a whole file section ---------- *)
Definition print_file (f : pfile) : list str :=
  (T "--- " ++ pf_source f) :: (T "+++ " ++ pf_target f) :: flat_map print_hunk (pf_hunks f).

Definition good_file (f : pfile) : Prop :=
  good_name (pf_source f) /\ good_name (pf_target f) /\ Forall good_hunk (pf_hunks f).

Definition push_cur (cur : option pfile) (files : list pfile) : list pfile :=
  match cur with Some f => f :: files | None => files end.

Lemma parse_lines_file f rest files cur src : good_file f ->
  parse_lines (print_file f ++ rest) files cur src =
  parse_lines rest (push_cur cur files) (Some f) (Some (pf_source f)).
Proof.
  intros (Ha & Hb & Hhs). unfold print_file. cbn [app].
  cbn [parse_lines]. rewrite (source_header_print _ Ha).
  fold (push_cur cur files).
  cbn [parse_lines]. rewrite source_header_on_target_line, (target_header_print _ Hb).
  rewrite (parse_lines_hunks (pf_hunks f) rest _ _ _ Hhs).
  cbn [pf_source pf_target pf_hunks app]. destruct f; reflexivity.
Qed.

(* the whole patch: every file section, in order *)
Lemma parse_lines_files : forall fs files cur src, Forall good_file fs ->
  parse_lines (flat_map print_file fs) files cur src = Ok (rev (push_cur cur files) ++ fs).
Proof.
  induction fs as [|f fs IH]; intros files cur src H; cbn [flat_map].
  - cbn [parse_lines]. fold (push_cur cur files). rewrite app_nil_r. reflexivity.
  - inversion H as [|? ? Hf Hfs]; subst.
    rewrite (parse_lines_file f _ files cur src Hf). rewrite (IH _ _ _ Hfs).
    cbn [push_cur rev]. rewrite <- app_assoc. reflexivity.
Qed.

Theorem parse_print_patch : forall fs, Forall good_file fs ->
  parse_lines (flat_map print_file fs) [] None None = Ok fs.
Proof. intros fs H. rewrite (parse_lines_files fs [] None None H). reflexivity. Qed.

(* ---------- 2d as stated: one file, one hunk ---------- *)
Theorem parse_print_one_hunk : forall a b ss sl ts tl ds,
  good_name a -> good_name b ->
  ds <> [] -> well_numbered ds ss ts ->
  sl = dcount_src ds -> tl = dcount_tgt ds ->
  Forall (fun d => dl_kind d <> KOther) ds -> Forall no_lookalike ds ->
  parse_lines ((T "--- " ++ a) :: (T "+++ " ++ b) :: print_hunk_header ss sl ts tl :: map print_dline ds)
              [] None None =
  Ok [{| pf_source := a; pf_target := b;
         pf_hunks := [{| h_ss := ss; h_sl := sl; h_ts := ts; h_tl := tl; h_lines := ds |}] |}].
Proof.
  intros a b ss sl ts tl ds Ha Hb Hne Hwn Hsl Htl Hko Hla.
  set (h := {| h_ss := ss; h_sl := sl; h_ts := ts; h_tl := tl; h_lines := ds |}).
  set (f := {| pf_source := a; pf_target := b; pf_hunks := [h] |}).
  assert (Hf : good_file f).
  { split; [exact Ha|]. split; [exact Hb|]. cbn [pf_hunks f]. constructor; [|constructor].
    unfold good_hunk, h; cbn [h_lines h_ss h_sl h_ts h_tl]. repeat split; assumption. }
  pose proof (parse_print_patch [f] (Forall_cons f Hf (Forall_nil _))) as H.
  cbn [flat_map print_file print_hunk f h pf_source pf_target pf_hunks h_ss h_sl h_ts h_tl h_lines app] in H.
  rewrite !app_nil_r in H. exact H.
Qed.

(* several hunks of one file *)
Theorem parse_print_one_file : forall a b hs,
  good_name a -> good_name b -> Forall good_hunk hs ->
  parse_lines ((T "--- " ++ a) :: (T "+++ " ++ b) :: flat_map print_hunk hs) [] None None =
  Ok [{| pf_source := a; pf_target := b; pf_hunks := hs |}].
Proof.
  intros a b hs Ha Hb Hhs.
  set (f := {| pf_source := a; pf_target := b; pf_hunks := hs |}).
  assert (Hf : good_file f) by (split; [exact Ha|split; [exact Hb|exact Hhs]]).
  pose proof (parse_print_patch [f] (Forall_cons f Hf (Forall_nil _))) as H.
  cbn [flat_map print_file f pf_source pf_target pf_hunks app] in H.
  rewrite !app_nil_r in H. exact H.
Qed.

(* the hypothesis "no KOther line" cannot be dropped: a trailing
   "\ No newline at end of file" marker advances neither counter, so the early
   exit of parse_hunk_lines fires on the line before it and the marker is lost *)
Example trailing_other_line_dropped :
  let ds := [ {| dl_kind := KAdd; dl_val := T "x"; dl_src := 1; dl_tgt := 1 |};
              {| dl_kind := KOther; dl_val := T " No newline at end of file"; dl_src := 1; dl_tgt := 2 |} ] in
  well_numbered ds 1 1 /\
  parse_hunk_lines (map print_dline ds) 1 1 (1 + dcount_src ds) (1 + dcount_tgt ds) = firstn 1 ds.
Proof. vm_compute. repeat split. Qed.

(* ================================================================== *)
(* the same through parse_patch: the printed text, split by str::lines *)
(* ================================================================== *)

(* a line's text: no '\n' inside, no '\r' at the end (str::lines strips it) *)
Definition clean (s : str) : Prop := ~ In 10 s /\ last s 0 <> 13.

Definition unlines (ls : list str) : str := flat_map (fun l => l ++ [10]) ls.

Lemma lines_line_app : forall l rest, clean l -> lines (l ++ 10 :: rest) = l :: lines rest.
Proof.
  induction l as [|c l IH]; intros rest [Hnl Hcr]; cbn [app lines].
  - rewrite N.eqb_refl. reflexivity.
  - assert (Hc : c <> 10) by (intros ->; apply Hnl; left; reflexivity).
    assert (Hnl' : ~ In 10 l) by (intros H; apply Hnl; right; exact H).
    destruct (c =? 10) eqn:E10; [lia|].
    destruct l as [|c2 l].
    + cbn [last] in Hcr. cbn [app starts_nl].
      destruct (c =? 13) eqn:E13; [lia|]. cbn [andb lines]. rewrite N.eqb_refl. reflexivity.
    + assert (Hs : starts_nl ((c2 :: l) ++ 10 :: rest) = false).
      { cbn [app starts_nl]. assert (c2 <> 10) by (intros ->; apply Hnl'; left; reflexivity).
        destruct c2 as [|p]; [reflexivity|]. do 4 (destruct p as [p|p|]; try reflexivity). congruence. }
      rewrite Hs, andb_false_r. rewrite IH; [reflexivity|]. split; [exact Hnl'|exact Hcr].
Qed.

Lemma lines_unlines : forall ls, Forall clean ls -> lines (unlines ls) = ls.
Proof.
  induction 1 as [|l ls Hl Hls IH]; cbn [unlines flat_map]; [reflexivity|].
  rewrite <- app_assoc. cbn [app]. rewrite (lines_line_app l _ Hl). fold (unlines ls). rewrite IH. reflexivity.
Qed.

Lemma last_app_ne (a b : str) (d : char) : b <> [] -> last (a ++ b) d = last b d.
Proof.
  intros Hb. induction a as [|x a IH]; cbn [app]; [reflexivity|].
  cbn [last]. destruct (a ++ b) eqn:E; [|exact IH].
  apply app_eq_nil in E. destruct E as [_ E]. congruence.
Qed.

Lemma clean_prefix_name (p name : str) : ~ In 10 p -> name <> [] -> clean name -> clean (p ++ name).
Proof.
  intros Hp Hne [Hnl Hcr]. split.
  - intros H. apply in_app_or in H. tauto.
  - rewrite (last_app_ne p name 0 Hne). exact Hcr.
Qed.

Lemma clean_print_dline d : clean (dl_val d) -> clean (print_dline d).
Proof.
  intros [Hnl Hcr]. unfold print_dline. destruct (dl_val d) as [|c v] eqn:Ev.
  - rewrite app_nil_r. destruct (dl_kind d); (split; [intros [H|[]]; discriminate H|cbn [last]; discriminate]).
  - split.
    + intros H. apply in_app_or in H. destruct H as [H|H]; [|exact (Hnl H)].
      destruct (dl_kind d); destruct H as [H|[]]; discriminate H.
    + rewrite last_app_ne by discriminate. exact Hcr.
Qed.

Lemma dec_no_nl n : ~ In 10 (dec n).
Proof.
  destruct (dec_spec n) as (ds & -> & _ & Hds & _). intros H.
  unfold is_digit_list in Hds. rewrite Forall_forall in Hds. specialize (Hds 10 H). discriminate Hds.
Qed.

Lemma clean_print_hunk_header ss sl ts tl : clean (print_hunk_header ss sl ts tl).
Proof.
  unfold print_hunk_header. rewrite T_hunk_prefix, T_sp_plus, T_sp_atat. split.
  - intros H.
    repeat (apply in_app_or in H; destruct H as [H|H];
            [first [exact (dec_no_nl _ H)|cbn [In] in H; intuition discriminate]|]).
    cbn [In] in H. intuition discriminate.
  - rewrite !app_assoc. rewrite last_app_ne by discriminate. cbn [last]. discriminate.
Qed.

Definition clean_file (f : pfile) : Prop :=
  clean (pf_source f) /\ clean (pf_target f) /\
  Forall (fun h => Forall (fun d => clean (dl_val d)) (h_lines h)) (pf_hunks f).

Lemma clean_print_file f : good_file f -> clean_file f -> Forall clean (print_file f).
Proof.
  intros (Ha & Hb & _) (Hca & Hcb & Hh). unfold print_file.
  constructor; [|constructor].
  - rewrite T_src_prefix. apply clean_prefix_name; [cbn [In]; intuition discriminate|apply Ha|exact Hca].
  - rewrite T_tgt_prefix. apply clean_prefix_name; [cbn [In]; intuition discriminate|apply Hb|exact Hcb].
  - apply Forall_forall. intros l Hl. apply in_flat_map in Hl. destruct Hl as (h & Hhin & Hl).
    rewrite Forall_forall in Hh. specialize (Hh h Hhin). unfold print_hunk in Hl.
    destruct Hl as [<-|Hl]; [apply clean_print_hunk_header|].
    apply in_map_iff in Hl. destruct Hl as (d & <- & Hd).
    apply clean_print_dline. rewrite Forall_forall in Hh. apply Hh. exact Hd.
Qed.

(* the printed patch as one text *)
Definition print_patch (fs : list pfile) : str := unlines (flat_map print_file fs).

Theorem parse_patch_print_patch : forall fs,
  Forall good_file fs -> Forall clean_file fs -> parse_patch (print_patch fs) = Ok fs.
Proof.
  intros fs Hg Hc. unfold parse_patch, print_patch. rewrite lines_unlines.
  - apply parse_print_patch. exact Hg.
  - apply Forall_forall. intros l Hl. apply in_flat_map in Hl. destruct Hl as (f & Hf & Hl).
    rewrite Forall_forall in Hg, Hc.
    pose proof (clean_print_file f (Hg f Hf) (Hc f Hf)) as H. rewrite Forall_forall in H. apply H. exact Hl.
Qed.

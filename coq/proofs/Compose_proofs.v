(* Compose_proofs.v - composition theorems: already-proved lemmas glued into
   end-to-end statements (C03 blocks of a comment list, C02 diff mode versus
   full scan, C11 the printed report). *)
From BW Require Import SpecTag SpecBlocks Merge Context.
From BWP Require Import TextFacts Keys_proofs Blocks_proofs NoPanic_proofs Run_proofs Merge_proofs Select_proofs.
From Coq Require Import ZifyBool ZifyN ZifyNat Permutation.
Arguments N.add : simpl never. Arguments N.sub : simpl never. Arguments N.mul : simpl never.
Arguments N.eqb : simpl never. Arguments N.ltb : simpl never. Arguments N.leb : simpl never.

(* ================================================================== *)
(* PART 1 - blocks of a comment list (C03 end to end)                  *)
(* ================================================================== *)

(* the pipeline with the (total) tag extraction made explicit *)
Lemma parse_blocks_unfold cs ts :
  ptags_from 0 cs = Ok ts ->
  parse_blocks_from_comments cs = (let? bs := pair_tags ts [] [] in Ok (sort_blocks bs)).
Proof. intros E. unfold parse_blocks_from_comments. rewrite E. reflexivity. Qed.

(* ---------- 1a ---------- *)
Theorem blocks_of_comments_iff : forall cs bs,
  parse_blocks_from_comments cs = Ok bs <->
  exists ts bs0, ptags_from 0 cs = Ok ts /\ Dyck ts bs0 /\ bs = sort_blocks bs0.
Proof.
  intros cs bs. destruct (ptags_from_no_panic cs 0%nat) as [ts E].
  rewrite (parse_blocks_unfold cs ts E). split.
  - intros H. destruct (pair_tags ts [] []) as [bs0|e|p] eqn:Ep; cbn [bind] in H; try discriminate.
    inversion H; subst bs; clear H.
    exists ts, bs0. split; [exact E|]. split; [|reflexivity].
    apply pair_tags_iff. exact Ep.
  - intros (ts' & bs0 & E' & Hd & ->).
    rewrite E in E'. inversion E'; subst ts'; clear E'.
    apply pair_tags_iff in Hd. rewrite Hd. reflexivity.
Qed.

(* ---------- 1b ---------- *)
Theorem blocks_of_comments_err_iff : forall cs,
  parse_blocks_from_comments cs = Err E_PARSE <->
  exists ts, ptags_from 0 cs = Ok ts /\ ~ exists bs0, Dyck ts bs0.
Proof.
  intros cs. destruct (ptags_from_no_panic cs 0%nat) as [ts E].
  rewrite (parse_blocks_unfold cs ts E). split.
  - intros H. exists ts. split; [exact E|]. intros (bs0 & Hd).
    apply pair_tags_iff in Hd. rewrite Hd in H. cbn [bind] in H. discriminate.
  - intros (ts' & E' & Hn).
    rewrite E in E'. inversion E'; subst ts'; clear E'.
    rewrite (unbalanced_is_error ts Hn). reflexivity.
Qed.

Theorem blocks_of_comments_outcomes : forall cs,
  (exists bs, parse_blocks_from_comments cs = Ok bs) \/ parse_blocks_from_comments cs = Err E_PARSE.
Proof.
  intros cs. destruct (ptags_from_no_panic cs 0%nat) as [ts E].
  rewrite (parse_blocks_unfold cs ts E).
  destruct (pair_tags_outcomes ts) as [[bs0 H]|H]; rewrite H; cbn [bind].
  - left. eexists; reflexivity.
  - right. reflexivity.
Qed.

(* ---------- 1c ---------- *)
Theorem blocks_of_comments_sorted : forall cs bs,
  parse_blocks_from_comments cs = Ok bs ->
  sorted_by_start bs /\
  exists ts bs0, ptags_from 0 cs = Ok ts /\ Dyck ts bs0 /\ Permutation bs bs0.
Proof.
  intros cs bs H. apply blocks_of_comments_iff in H.
  destruct H as (ts & bs0 & E & Hd & ->). split.
  - apply sort_blocks_sorted.
  - exists ts, bs0. split; [exact E|]. split; [exact Hd|]. apply sort_blocks_perm.
Qed.

(* the Dyck matching is unique, so the result of the pipeline is determined by
   the tag sequence alone *)
Corollary blocks_of_comments_unique : forall cs bs ts bs0,
  parse_blocks_from_comments cs = Ok bs -> ptags_from 0 cs = Ok ts -> Dyck ts bs0 ->
  bs = sort_blocks bs0.
Proof.
  intros cs bs ts bs0 H E Hd. apply blocks_of_comments_iff in H.
  destruct H as (ts' & bs0' & E' & Hd' & ->).
  rewrite E in E'. inversion E'; subst ts'; clear E'.
  rewrite (dyck_deterministic ts bs0 bs0' Hd Hd'). reflexivity.
Qed.

(* ================================================================== *)
(* PART 3 - the printed report is the union of all validators' diags   *)
(* ================================================================== *)

Lemma flat_map_map_ {A B C} (g : A -> B) (h : B -> list C) l :
  flat_map h (map g l) = flat_map (fun x => h (g x)) l.
Proof. induction l as [|x l IH]; cbn [map flat_map]; [reflexivity|]. rewrite IH. reflexivity. Qed.

(* what all validators hand over, flattened, is the run's diagnostics *)
Lemma arrivals_flatten o ctx vs :
  Permutation
    (flat_map flatten (map (fun v => group_by_file (vr_diags (run_validator o ctx v))) vs))
    (vr_diags (run_validators o ctx vs)).
Proof.
  rewrite run_validators_diags, flat_map_map_.
  apply perm_flat_map_pointwise. intros v _. apply group_by_file_flatten.
Qed.

(* ---------- 3a ---------- *)
Theorem report_is_union : forall o ctx vs,
  let arrivals := map (fun v => group_by_file (vr_diags (run_validator o ctx v))) vs in
  Permutation (flatten (merge_all arrivals)) (vr_diags (run_validators o ctx vs)) /\
  NoDup (map fst (merge_all arrivals)).
Proof.
  intros o ctx vs arrivals.
  destruct (merge_all_union arrivals) as [Hp Hn]. split; [|exact Hn].
  eapply perm_trans; [exact Hp|]. apply arrivals_flatten.
Qed.

(* ---------- 3b ---------- *)
Theorem report_any_order : forall o ctx vs arrivals',
  Permutation (map (fun v => group_by_file (vr_diags (run_validator o ctx v))) vs) arrivals' ->
  Permutation (flatten (merge_all arrivals')) (vr_diags (run_validators o ctx vs)) /\
  has_error_severity (merge_all arrivals') = has_error (run_validators o ctx vs).
Proof.
  intros o ctx vs arrivals' H.
  assert (Hp : Permutation (flatten (merge_all arrivals')) (vr_diags (run_validators o ctx vs))).
  { destruct (merge_all_perm _ _ H) as [Hm _].
    eapply perm_trans; [apply Permutation_sym; exact Hm|].
    apply (report_is_union o ctx vs). }
  split; [exact Hp|].
  rewrite has_error_severity_flatten. unfold has_error.
  apply perm_existsb. exact Hp.
Qed.

(* ================================================================== *)
(* PART 2 - diff mode gives full-scan verdicts for selected blocks     *)
(* ================================================================== *)

(* ---------- 2a ---------- *)
(* the content rules see the block, the file's path and text - nothing else:
   not the diff flags of the block, not the other blocks (nm), not the other
   fields of the file record *)
Lemma validate_block_local_gen : forall o nm nm' v f f' bc bc',
  In v [V_SORTED; V_UNIQUE; V_PATTERN; V_COUNT; V_AI; V_LUA] ->
  fc_path f = fc_path f' -> fc_text f = fc_text f' ->
  bc_block bc = bc_block bc' ->
  validate_block o nm v f bc = validate_block o nm' v f' bc'.
Proof.
  intros o nm nm' v f f' bc bc' Hv Hp Ht Hb. cbn [In] in Hv.
  destruct Hv as [<-|[<-|[<-|[<-|[<-|[<-|[]]]]]]].
  - change V_SORTED with 1. rewrite !validate_block_1, Ht, Hb. reflexivity.
  - change V_UNIQUE with 2. rewrite !validate_block_2, Ht, Hb. reflexivity.
  - change V_PATTERN with 3. rewrite !validate_block_3, Ht, Hb. reflexivity.
  - change V_COUNT with 4. rewrite !validate_block_4, Ht, Hb. reflexivity.
  - change V_AI with 5. rewrite !validate_block_5, Ht, Hb. reflexivity.
  - change V_LUA with 6. rewrite !validate_block_6, Hp, Ht, Hb. reflexivity.
Qed.

Lemma validate_block_local : forall o nm nm' v f bc bc',
  In v [V_SORTED; V_UNIQUE; V_PATTERN; V_COUNT; V_AI; V_LUA] ->
  bc_block bc = bc_block bc' ->
  validate_block o nm v f bc = validate_block o nm' v f bc'.
Proof.
  intros o nm nm' v f bc bc' Hv Hb.
  apply validate_block_local_gen; [exact Hv|reflexivity|reflexivity|exact Hb].
Qed.

Lemma prepass_block_local : forall v bc bc',
  bc_block bc = bc_block bc' -> prepass_block v bc = prepass_block v bc'.
Proof. intros v bc bc' Hb. unfold prepass_block. rewrite Hb. reflexivity. Qed.

(* ---------- 2b ---------- *)
(* `block_results o nm v ctx` is Run_proofs.block_results:
     flat_map (fun f => map (fun bc => vres_of (fc_path f) (validate_block o nm v f bc))
                            (fc_blocks f)) ctx *)
Lemma block_results_eq o nm v ctx :
  block_results o nm v ctx =
  flat_map (fun f => map (fun bc => vres_of (fc_path f) (validate_block o nm v f bc)) (fc_blocks f)) ctx.
Proof. reflexivity. Qed.

Lemma prepass_errs_nil v ctx :
  (forall f bc, In f ctx -> In bc (fc_blocks f) -> prepass_block v bc = Ok tt) ->
  prepass_errs v ctx = [].
Proof.
  intros Hpre. unfold prepass_errs.
  induction ctx as [|f ctx IH]; cbn [flat_map]; [reflexivity|].
  rewrite IH by (intros f' bc Hf' Hbc; apply (Hpre f' bc); [right; exact Hf'|exact Hbc]).
  rewrite app_nil_r.
  assert (Hf : forall bc, In bc (fc_blocks f) -> prepass_block v bc = Ok tt)
    by (intros bc Hbc; apply (Hpre f bc); [left; reflexivity|exact Hbc]).
  induction (fc_blocks f) as [|bc bs IHb]; cbn [flat_map]; [reflexivity|].
  rewrite (Hf bc (or_introl eq_refl)). cbn [app].
  apply IHb. intros bc' Hbc'. apply Hf. right; exact Hbc'.
Qed.

Lemma run_validator_blocks : forall o ctx v,
  (forall f bc, In f ctx -> In bc (fc_blocks f) -> prepass_block v bc = Ok tt) ->
  run_validator o ctx v =
  fold_right vres_app vres_empty (block_results o (named_modified ctx) v ctx).
Proof.
  intros o ctx v Hpre. rewrite run_validator_unfold, (prepass_errs_nil v ctx Hpre). reflexivity.
Qed.

(* ---------- 2c ---------- *)
Definition restrict (sel : bctx -> bool) (ctx : context) : context :=
  map (fun f => {| fc_path := fc_path f; fc_text := fc_text f;
                   fc_blocks := filter sel (fc_blocks f) |}) ctx.

Lemma in_restrict sel ctx f' bc :
  In f' (restrict sel ctx) -> In bc (fc_blocks f') ->
  exists f, In f ctx /\ In bc (fc_blocks f) /\ sel bc = true /\
            fc_path f' = fc_path f /\ fc_text f' = fc_text f.
Proof.
  intros Hf' Hbc. unfold restrict in Hf'. apply in_map_iff in Hf'.
  destruct Hf' as (f & <- & Hf). cbn [fc_blocks fc_path fc_text] in *.
  apply filter_In in Hbc. destruct Hbc as [Hbc Hs].
  exists f. repeat split; assumption.
Qed.

(* one file: the selected blocks' results *)
Lemma restrict_file_proj {X} (pr : vresult -> list X) o nm nm' v f f' sel :
  In v [V_SORTED; V_UNIQUE; V_PATTERN; V_COUNT; V_AI; V_LUA] ->
  fc_path f' = fc_path f -> fc_text f' = fc_text f ->
  forall bs,
  flat_map pr
    (map (fun bc => vres_of (fc_path f') (validate_block o nm' v f' bc)) (filter sel bs)) =
  flat_map (fun bc => if sel bc then pr (vres_of (fc_path f) (validate_block o nm v f bc)) else []) bs.
Proof.
  intros Hv Hp Ht. induction bs as [|bc bs IH]; cbn [filter map flat_map]; [reflexivity|].
  destruct (sel bc); cbn [map flat_map app]; [|exact IH].
  rewrite IH, Hp.
  rewrite (validate_block_local_gen o nm' nm v f' f bc bc Hv Hp Ht eq_refl). reflexivity.
Qed.

Theorem diff_mode_verdicts_agree : forall o ctx sel v,
  In v [V_SORTED; V_UNIQUE; V_PATTERN; V_COUNT; V_AI; V_LUA] ->
  (forall f bc, In f ctx -> In bc (fc_blocks f) -> prepass_block v bc = Ok tt) ->
  vr_diags (run_validator o (restrict sel ctx) v) =
  flat_map (fun f => flat_map (fun bc =>
      if sel bc then vr_diags (vres_of (fc_path f) (validate_block o (named_modified ctx) v f bc))
      else []) (fc_blocks f)) ctx.
Proof.
  intros o ctx sel v Hv Hpre.
  rewrite run_validator_blocks.
  2:{ intros f' bc Hf' Hbc. destruct (in_restrict sel ctx f' bc Hf' Hbc) as (f & Hf & Hb & _).
      exact (Hpre f bc Hf Hb). }
  rewrite fold_vres_diags, block_results_eq.
  generalize (named_modified (restrict sel ctx)) as nm'.
  generalize (named_modified ctx) as nm. intros nm nm'. clear Hpre.
  induction ctx as [|f ctx IH]; cbn [restrict map flat_map]; [reflexivity|].
  rewrite flat_map_app. fold (restrict sel ctx). rewrite IH. f_equal.
  exact (restrict_file_proj vr_diags o nm nm' v f
           {| fc_path := fc_path f; fc_text := fc_text f; fc_blocks := filter sel (fc_blocks f) |}
           sel Hv eq_refl eq_refl (fc_blocks f)).
Qed.

(* the same for the errors a validator may stop with: a selected block fails in
   diff mode exactly as it fails in the full scan *)
Theorem diff_mode_errs_agree : forall o ctx sel v,
  In v [V_SORTED; V_UNIQUE; V_PATTERN; V_COUNT; V_AI; V_LUA] ->
  (forall f bc, In f ctx -> In bc (fc_blocks f) -> prepass_block v bc = Ok tt) ->
  vr_errs (run_validator o (restrict sel ctx) v) =
  flat_map (fun f => flat_map (fun bc =>
      if sel bc then vr_errs (vres_of (fc_path f) (validate_block o (named_modified ctx) v f bc))
      else []) (fc_blocks f)) ctx.
Proof.
  intros o ctx sel v Hv Hpre.
  rewrite run_validator_blocks.
  2:{ intros f' bc Hf' Hbc. destruct (in_restrict sel ctx f' bc Hf' Hbc) as (f & Hf & Hb & _).
      exact (Hpre f bc Hf Hb). }
  rewrite fold_vres_errs, block_results_eq.
  generalize (named_modified (restrict sel ctx)) as nm'.
  generalize (named_modified ctx) as nm. intros nm nm'. clear Hpre.
  induction ctx as [|f ctx IH]; cbn [restrict map flat_map]; [reflexivity|].
  rewrite flat_map_app. fold (restrict sel ctx). rewrite IH. f_equal.
  exact (restrict_file_proj vr_errs o nm nm' v f
           {| fc_path := fc_path f; fc_text := fc_text f; fc_blocks := filter sel (fc_blocks f) |}
           sel Hv eq_refl eq_refl (fc_blocks f)).
Qed.

(* consequences, in words: no diagnostic of an unselected block is reported ... *)
Corollary diff_mode_nothing_extra : forall o ctx sel v pd,
  In v [V_SORTED; V_UNIQUE; V_PATTERN; V_COUNT; V_AI; V_LUA] ->
  (forall f bc, In f ctx -> In bc (fc_blocks f) -> prepass_block v bc = Ok tt) ->
  In pd (vr_diags (run_validator o (restrict sel ctx) v)) ->
  exists f bc, In f ctx /\ In bc (fc_blocks f) /\ sel bc = true /\
    In pd (vr_diags (vres_of (fc_path f) (validate_block o (named_modified ctx) v f bc))).
Proof.
  intros o ctx sel v pd Hv Hpre Hin.
  rewrite (diff_mode_verdicts_agree o ctx sel v Hv Hpre) in Hin.
  apply in_flat_map in Hin. destruct Hin as (f & Hf & Hin).
  apply in_flat_map in Hin. destruct Hin as (bc & Hbc & Hin).
  destruct (sel bc) eqn:Hs; [|destruct Hin].
  exists f, bc. repeat split; assumption.
Qed.

(* ... and none of a selected block is dropped *)
Corollary diff_mode_nothing_lost : forall o ctx sel v f bc pd,
  In v [V_SORTED; V_UNIQUE; V_PATTERN; V_COUNT; V_AI; V_LUA] ->
  (forall f bc, In f ctx -> In bc (fc_blocks f) -> prepass_block v bc = Ok tt) ->
  In f ctx -> In bc (fc_blocks f) -> sel bc = true ->
  In pd (vr_diags (vres_of (fc_path f) (validate_block o (named_modified ctx) v f bc))) ->
  In pd (vr_diags (run_validator o (restrict sel ctx) v)).
Proof.
  intros o ctx sel v f bc pd Hv Hpre Hf Hbc Hs Hin.
  rewrite (diff_mode_verdicts_agree o ctx sel v Hv Hpre).
  apply in_flat_map. exists f. split; [exact Hf|].
  apply in_flat_map. exists bc. split; [exact Hbc|]. rewrite Hs. exact Hin.
Qed.

(* ... and for panics *)
Theorem diff_mode_panic_agree : forall o ctx sel v,
  In v [V_SORTED; V_UNIQUE; V_PATTERN; V_COUNT; V_AI; V_LUA] ->
  (forall f bc, In f ctx -> In bc (fc_blocks f) -> prepass_block v bc = Ok tt) ->
  vr_panic (run_validator o (restrict sel ctx) v) =
  existsb (fun f => existsb (fun bc =>
      sel bc && vr_panic (vres_of (fc_path f) (validate_block o (named_modified ctx) v f bc)))
    (fc_blocks f)) ctx.
Proof.
  intros o ctx sel v Hv Hpre.
  rewrite run_validator_blocks.
  2:{ intros f' bc Hf' Hbc. destruct (in_restrict sel ctx f' bc Hf' Hbc) as (f & Hf & Hb & _).
      exact (Hpre f bc Hf Hb). }
  rewrite fold_vres_panic, block_results_eq.
  generalize (named_modified (restrict sel ctx)) as nm'.
  generalize (named_modified ctx) as nm. intros nm nm'. clear Hpre.
  induction ctx as [|f ctx IH]; cbn [restrict map flat_map existsb]; [reflexivity|].
  rewrite existsb_app. fold (restrict sel ctx). rewrite IH. f_equal.
  cbn [fc_blocks fc_path].
  set (f' := {| fc_path := fc_path f; fc_text := fc_text f; fc_blocks := filter sel (fc_blocks f) |}).
  assert (G : forall bs,
    existsb vr_panic (map (fun bc => vres_of (fc_path f) (validate_block o nm' v f' bc)) (filter sel bs)) =
    existsb (fun bc => sel bc && vr_panic (vres_of (fc_path f) (validate_block o nm v f bc))) bs).
  { induction bs as [|bc bs IHb]; cbn [filter map existsb]; [reflexivity|].
    destruct (sel bc); cbn [map existsb andb orb]; [|exact IHb].
    rewrite IHb.
    rewrite (validate_block_local_gen o nm' nm v f' f bc bc Hv eq_refl eq_refl eq_refl). reflexivity. }
  apply G.
Qed.

(* ---------- 2d: the selection of Select.v is such a restriction ---------- *)
(* ModifiedOnly keeps, of the blocks BlocksFilter::All keeps, those a diff touches *)
Definition touched (bc : bctx) : bool := bc_contmod bc || bc_tagmod bc.

Lemma select_diff_is_restricted_scan : forall lcs bs,
  select_blocks false lcs bs = filter touched (select_blocks true lcs bs).
Proof.
  intros lcs bs. unfold select_blocks. cbn [orb].
  induction (map (mk_bctx lcs) bs) as [|bc l IH]; cbn [filter]; [reflexivity|].
  fold (touched bc). destruct (touched bc); rewrite IH; reflexivity.
Qed.

(* a full-scan file and the same file in diff mode *)
Corollary diff_file_is_restricted_scan_file : forall path text lcs bs,
  restrict touched [{| fc_path := path; fc_text := text; fc_blocks := select_blocks true lcs bs |}] =
  [{| fc_path := path; fc_text := text; fc_blocks := select_blocks false lcs bs |}].
Proof.
  intros path text lcs bs. cbn [restrict map fc_path fc_text fc_blocks].
  rewrite select_diff_is_restricted_scan. reflexivity.
Qed.

(* which blocks these are (Select_proofs.selected_iff_touched), and that the
   scan loses none (Select_proofs.scan_selects_all) *)
Corollary restricted_scan_blocks : forall lcs bs bc,
  In bc (filter touched (select_blocks true lcs bs)) <->
  exists b, In b bs /\ bc = mk_bctx lcs b /\
            (content_modified b lcs = true \/ tag_modified b lcs = true).
Proof.
  intros lcs bs bc. rewrite <- select_diff_is_restricted_scan. apply selected_iff_touched.
Qed.

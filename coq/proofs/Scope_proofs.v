(* Scope_proofs.v - end-to-end statements through main_model (theories/Main.v):
   S1 only files in scope are examined (and, conversely, in-scope files are);
   S2 malformed rules fail closed;
   S3 accepted diffs, from the text of the patch to the line changes;
   S4 every registered language: positions survive normalisation. *)
From BW Require Import Main SpecBlocks.
From BWGen Require Import ExtTable.
From BWP Require Import TextFacts Keys_proofs Context_proofs Run_proofs Order_proofs Patch_proofs Main_proofs MainCompose_proofs Lang_proofs.
From BWP Require Import Comment_proofs Pos_proofs.
From Coq Require Import ZifyBool ZifyN ZifyNat Permutation.
Arguments N.add : simpl never. Arguments N.sub : simpl never. Arguments N.mul : simpl never.
Arguments N.eqb : simpl never. Arguments N.ltb : simpl never. Arguments N.leb : simpl never.

(* ================================================================== *)
(* S1 - only files in scope are examined, through main                 *)
(* ================================================================== *)

(* the verdict of the --ignore globs main gets to see (the deepest level, F12) *)
Definition eff_ignored (a : cliargs) (m : mfile) : bool :=
  if ca_ign_post a =? 0 then mf_ign_pre m else mf_ign_post m.

(* a file is in scope as main sees it: not effectively ignored, and either walked and
   allowed in a scanning run, or named by the diff *)
Definition main_in_scope (a : cliargs) (p : plan) (ch : list (str * list lchange)) (m : mfile) : Prop :=
  (pl_scan p = true /\ rf_exists (mf_file m) = true /\
   (rf_allow (mf_file m) = true \/ pl_star p = true) /\ eff_ignored a m = false)
  \/
  (In (rf_path (mf_file m)) (map fst ch) /\ eff_ignored a m = false).

Lemma existsb_key_in (q : str) (ch : list (str * list lchange)) :
  existsb (fun e => str_eqb (fst e) q) ch = true <-> In q (map fst ch).
Proof.
  rewrite existsb_exists, in_map_iff. split.
  - intros (e & He & Hq). apply str_eqb_eq in Hq. exists e. split; assumption.
  - intros (e & Hq & He). exists e. split; [exact He|]. apply str_eqb_eq. exact Hq.
Qed.

(* Context_proofs.in_scope on the file the loops see = main_in_scope on the file main was given *)
Lemma in_scope_seen_file a p ch m :
  in_scope (pl_scan p) ch (seen_file a p m) = true <-> main_in_scope a p ch m.
Proof.
  unfold in_scope, scanned, main_in_scope, eff_ignored.
  rewrite seen_file_exists, seen_file_allow, seen_file_ignore, seen_file_path.
  rewrite orb_true_iff, !andb_true_iff, orb_true_iff, !negb_true_iff, existsb_key_in.
  tauto.
Qed.

Lemma in_main_case_files a p ms tb cd f :
  In f (rc_files (main_case a p ms tb cd)) -> exists m, In m ms /\ f = seen_file a p m.
Proof.
  rewrite main_case_files. intros H. apply in_map_iff in H. destruct H as (m & <- & Hm).
  exists m. split; [exact Hm|reflexivity].
Qed.

(* the statement on the context main assembles, whatever the mode *)
Theorem main_context_file_in_scope : forall a p ms tb cd fc,
  In fc (cr_ctx (model_context (main_case a p ms tb cd))) ->
  exists ch, model_changes (main_case a p ms tb cd) = Ok ch /\
  exists m, In m ms /\ fc_path fc = rf_path (mf_file m) /\ main_in_scope a p ch m.
Proof.
  intros a p ms tb cd fc Hin. unfold model_context in Hin.
  destruct (model_changes (main_case a p ms tb cd)) as [ch|e|n]; [|destruct Hin|destruct Hin].
  exists ch. split; [reflexivity|].
  apply context_files_in_scope in Hin. destruct Hin as (f & Hf & Hp & Hs).
  apply in_main_case_files in Hf. destruct Hf as (m & Hm & ->).
  exists m. split; [exact Hm|]. split; [rewrite Hp; apply seen_file_path|].
  apply in_scope_seen_file. exact Hs.
Qed.

(* `list`: every listed file is in scope *)
Theorem main_listed_file_in_scope : forall a p ms tb cd cr fc,
  plan_of a = Ok p -> main_model a ms tb cd = MList cr -> In fc (cr_ctx cr) ->
  exists ch, model_changes (main_case a p ms tb cd) = Ok ch /\
  exists m, In m ms /\ fc_path fc = rf_path (mf_file m) /\
    ((pl_scan p = true /\ rf_exists (mf_file m) = true /\
      (rf_allow (mf_file m) = true \/ pl_star p = true) /\
      (if ca_ign_post a =? 0 then mf_ign_pre m else mf_ign_post m) = false)
     \/
     (In (rf_path (mf_file m)) (map fst ch) /\
      (if ca_ign_post a =? 0 then mf_ign_pre m else mf_ign_post m) = false)).
Proof.
  intros a p ms tb cd cr fc E H Hin. rewrite (main_model_ok a p ms tb cd E) in H.
  destruct (ca_list a); [|discriminate H]. injection H as <-.
  exact (main_context_file_in_scope a p ms tb cd fc Hin).
Qed.

(* ---------- diagnostics only carry paths of files of the context ---------- *)

Lemma vres_of_diag_path path r pd : In pd (vr_diags (vres_of path r)) -> fst pd = path.
Proof.
  destruct r as [ds|e|s]; cbn [vres_of vr_diags]; [|intros []|intros []].
  intros H. apply in_map_iff in H. destruct H as (d & <- & _). reflexivity.
Qed.

Theorem run_validator_diag_path : forall o ctx v pd,
  In pd (vr_diags (run_validator o ctx v)) -> exists f, In f ctx /\ fst pd = fc_path f.
Proof.
  intros o ctx v pd Hin. rewrite run_validator_unfold in Hin.
  destruct (prepass_errs v ctx) as [|e es]; [|destruct Hin].
  rewrite fold_vres_diags in Hin. apply in_flat_map in Hin. destruct Hin as (r & Hr & Hin).
  apply in_block_results in Hr. destruct Hr as (f & bc & Hf & Hbc & ->).
  exists f. split; [exact Hf|]. exact (vres_of_diag_path _ _ _ Hin).
Qed.

Theorem run_validators_diag_path : forall o ctx vs pd,
  In pd (vr_diags (run_validators o ctx vs)) -> exists f, In f ctx /\ fst pd = fc_path f.
Proof.
  intros o ctx vs pd Hin. rewrite run_validators_diags in Hin.
  apply in_flat_map in Hin. destruct Hin as (v & _ & Hin).
  exact (run_validator_diag_path o ctx v pd Hin).
Qed.

Corollary run_validators_diag_paths : forall o ctx vs pd,
  In pd (vr_diags (run_validators o ctx vs)) -> In (fst pd) (map fc_path ctx).
Proof.
  intros o ctx vs pd Hin. destruct (run_validators_diag_path o ctx vs pd Hin) as (f & Hf & ->).
  apply in_map. exact Hf.
Qed.

(* a diagnostic of the run belongs to a file of the context *)
Lemma model_run_diag_file c pd :
  In pd (vr_diags (model_run c)) -> exists fc, In fc (cr_ctx (model_context c)) /\ fst pd = fc_path fc.
Proof.
  unfold model_run. destruct (cr_panic (model_context c)); [intros []|].
  destruct (cr_errs (model_context c)); [|intros []].
  apply run_validators_diag_path.
Qed.

(* the validation run: every diagnostic is about a file in scope *)
Theorem main_diag_file_in_scope : forall a p ms tb cd v path d,
  plan_of a = Ok p -> main_model a ms tb cd = MRun v -> In (path, d) (vr_diags v) ->
  exists ch, model_changes (main_case a p ms tb cd) = Ok ch /\
  exists m, In m ms /\ path = rf_path (mf_file m) /\
    ((pl_scan p = true /\ rf_exists (mf_file m) = true /\
      (rf_allow (mf_file m) = true \/ pl_star p = true) /\
      (if ca_ign_post a =? 0 then mf_ign_pre m else mf_ign_post m) = false)
     \/
     (In (rf_path (mf_file m)) (map fst ch) /\
      (if ca_ign_post a =? 0 then mf_ign_pre m else mf_ign_post m) = false)).
Proof.
  intros a p ms tb cd v path d E H Hin. rewrite (main_model_ok a p ms tb cd E) in H.
  destruct (ca_list a); [discriminate H|]. injection H as <-.
  apply model_run_diag_file in Hin. destruct Hin as (fc & Hfc & Hp). cbn [fst] in Hp.
  destruct (main_context_file_in_scope a p ms tb cd fc Hfc) as (ch & Hch & m & Hm & Hpath & Hs).
  exists ch. split; [exact Hch|]. exists m. split; [exact Hm|]. split; [congruence|exact Hs].
Qed.

(* ---------- converse: a file in scope is examined ---------- *)

Lemma select_blocks_all lcs bs : select_blocks true lcs bs = map (mk_bctx lcs) bs.
Proof. unfold select_blocks. apply filter_all_true. intros x _. reflexivity. Qed.

Lemma add_result_ok_in f b bs acc :
  In {| fc_path := rf_path f; fc_text := rf_text f; fc_blocks := b :: bs |}
     (cr_ctx (add_result f (Some (Ok (b :: bs))) acc)).
Proof. cbn [add_result cr_ctx]. apply in_or_app. right. left. reflexivity. Qed.

Lemma scan_files_complete ext_map changes f b bs : forall fs acc,
  In f fs -> scanned f = true ->
  parse_one ext_map f true
    (match changes_for (rf_path f) changes with Some l => l | None => [] end) = Some (Ok (b :: bs)) ->
  In {| fc_path := rf_path f; fc_text := rf_text f; fc_blocks := b :: bs |}
     (cr_ctx (scan_files ext_map fs changes acc)).
Proof.
  intros fs acc Hin Hs Hp. revert acc. induction fs as [|x fs IH]; intros acc; [destruct Hin|].
  cbn [scan_files]. destruct Hin as [->|Hin].
  - unfold scanned in Hs. rewrite Hs, Hp.
    eapply extends_ctx; [apply scan_files_extends|apply add_result_ok_in].
  - destruct (rf_exists x && rf_allow x && negb (rf_ignore x)); apply (IH Hin).
Qed.

Lemma diff_files_complete ext_map all scan p lcs f b bs : forall changes acc,
  In (p, lcs) changes -> find_file p all = Some f -> rf_ignore f = false ->
  (scan && scanned f) = false ->
  parse_one ext_map f false lcs = Some (Ok (b :: bs)) ->
  ~ In E_ORACLE_MISS (cr_errs (diff_files ext_map all scan changes acc)) ->
  In {| fc_path := rf_path f; fc_text := rf_text f; fc_blocks := b :: bs |}
     (cr_ctx (diff_files ext_map all scan changes acc)).
Proof.
  intros changes acc Hin Hf Hi Hs Hp. revert acc.
  induction changes as [|[q l] rest IH]; intros acc Hmiss; [destruct Hin|].
  cbn [diff_files] in Hmiss |- *. destruct Hin as [Heq|Hin].
  - inversion Heq; subst q l. rewrite Hf, Hs, Hi, Hp. cbn [orb].
    eapply extends_ctx; [apply diff_files_extends|apply add_result_ok_in].
  - destruct (find_file q all) as [g|].
    + destruct ((scan && scanned g) || rf_ignore g); apply (IH Hin); exact Hmiss.
    + exfalso. apply Hmiss. cbn [cr_errs]. apply in_or_app. right. left. reflexivity.
Qed.

(* the two loops, on build_context *)
Theorem scanned_file_in_context : forall ext_map fs changes f b bs,
  In f fs -> scanned f = true ->
  parse_one ext_map f true
    (match changes_for (rf_path f) changes with Some l => l | None => [] end) = Some (Ok (b :: bs)) ->
  In {| fc_path := rf_path f; fc_text := rf_text f; fc_blocks := b :: bs |}
     (cr_ctx (build_context ext_map fs true changes)).
Proof.
  intros ext_map fs changes f b bs Hin Hs Hp. unfold build_context.
  eapply extends_ctx; [apply diff_files_extends|].
  apply (scan_files_complete ext_map changes f b bs fs _ Hin Hs Hp).
Qed.

Theorem diff_file_in_context : forall ext_map fs scan changes p lcs f b bs,
  In (p, lcs) changes -> find_file p fs = Some f -> rf_ignore f = false ->
  (scan && scanned f) = false ->
  parse_one ext_map f false lcs = Some (Ok (b :: bs)) ->
  ~ In E_ORACLE_MISS (cr_errs (build_context ext_map fs scan changes)) ->
  In {| fc_path := rf_path f; fc_text := rf_text f; fc_blocks := b :: bs |}
     (cr_ctx (build_context ext_map fs scan changes)).
Proof.
  intros ext_map fs scan changes p lcs f b bs Hin Hf Hi Hs Hp Hmiss. unfold build_context in *.
  apply (diff_files_complete ext_map fs scan p lcs f b bs changes _ Hin Hf Hi Hs Hp Hmiss).
Qed.

Lemma parse_one_ok ext_map f all lcs g bs :
  grammar_of ext_table ext_map (rf_path f) = Some g -> rf_readable f = true ->
  parse_file (rf_text f) (rf_spans f) = Ok bs ->
  parse_one ext_map f all lcs = Some (Ok (select_blocks all lcs bs)).
Proof. intros Hg He Hp. unfold parse_one. rewrite Hg, He, Hp. reflexivity. Qed.

(* through main, scan mode: a walked, allowed, not ignored file with a grammar that parses to
   at least one block is in the context - with all of its blocks (no assumption on errors
   elsewhere: the context keeps growing, Context_proofs.extends) *)
Theorem main_scanned_file_in_context : forall a p ms tb cd m ch bs,
  In m ms -> model_changes (main_case a p ms tb cd) = Ok ch ->
  pl_scan p = true -> scanned (seen_file a p m) = true ->
  grammar_of ext_table (pl_ext p) (rf_path (mf_file m)) <> None ->
  rf_readable (mf_file m) = true ->
  parse_file (rf_text (mf_file m)) (rf_spans (mf_file m)) = Ok bs -> bs <> [] ->
  In {| fc_path := rf_path (mf_file m); fc_text := rf_text (mf_file m);
        fc_blocks := map (mk_bctx (match changes_for (rf_path (mf_file m)) ch with Some l => l | None => [] end)) bs |}
     (cr_ctx (model_context (main_case a p ms tb cd))).
Proof.
  intros a p ms tb cd m ch bs Hin Hch Hscan Hsc Hg Hr Hp Hne.
  unfold model_context. rewrite Hch.
  replace (rc_scan (main_case a p ms tb cd)) with true by (symmetry; exact Hscan).
  replace (rc_ext (main_case a p ms tb cd)) with (pl_ext p) by reflexivity.
  destruct (grammar_of ext_table (pl_ext p) (rf_path (mf_file m))) as [g|] eqn:Eg; [|exfalso; apply Hg; reflexivity].
  set (lcs := match changes_for (rf_path (mf_file m)) ch with Some l => l | None => [] end).
  destruct (map (mk_bctx lcs) bs) as [|b bs'] eqn:Em.
  { destruct bs; [exfalso; apply Hne; reflexivity|discriminate Em]. }
  pose proof (scanned_file_in_context (pl_ext p) (rc_files (main_case a p ms tb cd)) ch
                (seen_file a p m) b bs' (seen_file_in a p ms tb cd m Hin) Hsc) as H.
  rewrite seen_file_path, seen_file_text in H. apply H. fold lcs.
  rewrite <- Em, <- select_blocks_all.
  apply (parse_one_ok (pl_ext p) (seen_file a p m) true lcs g bs).
  - rewrite seen_file_path. exact Eg.
  - rewrite seen_file_readable. exact Hr.
  - rewrite seen_file_text, seen_file_spans. exact Hp.
Qed.

(* through main, diff mode: a file named by the diff, not ignored, not already scanned, with a
   grammar, readable, some block of which is touched, is in the context with its touched blocks -
   provided the harness had an oracle entry for every diff path (no E_ORACLE_MISS) *)
Theorem main_diff_file_in_context : forall a p ms tb cd m ch lcs bs,
  NoDup (map (fun m => rf_path (mf_file m)) ms) -> In m ms ->
  model_changes (main_case a p ms tb cd) = Ok ch -> In (rf_path (mf_file m), lcs) ch ->
  eff_ignored a m = false ->
  (pl_scan p && scanned (seen_file a p m)) = false ->
  grammar_of ext_table (pl_ext p) (rf_path (mf_file m)) <> None ->
  rf_readable (mf_file m) = true ->
  parse_file (rf_text (mf_file m)) (rf_spans (mf_file m)) = Ok bs ->
  select_blocks false lcs bs <> [] ->
  ~ In E_ORACLE_MISS (cr_errs (model_context (main_case a p ms tb cd))) ->
  In {| fc_path := rf_path (mf_file m); fc_text := rf_text (mf_file m);
        fc_blocks := select_blocks false lcs bs |}
     (cr_ctx (model_context (main_case a p ms tb cd))).
Proof.
  intros a p ms tb cd m ch lcs bs Hnd Hin Hch Hinc Hi Hs Hg Hr Hp Hne Hmiss.
  unfold model_context in *. rewrite Hch in *.
  replace (rc_scan (main_case a p ms tb cd)) with (pl_scan p) in * by reflexivity.
  replace (rc_ext (main_case a p ms tb cd)) with (pl_ext p) in * by reflexivity.
  destruct (grammar_of ext_table (pl_ext p) (rf_path (mf_file m))) as [g|] eqn:Eg; [|exfalso; apply Hg; reflexivity].
  destruct (select_blocks false lcs bs) as [|b bs'] eqn:Em; [exfalso; apply Hne; reflexivity|].
  pose proof (diff_file_in_context (pl_ext p) (rc_files (main_case a p ms tb cd)) (pl_scan p) ch
                (rf_path (mf_file m)) lcs (seen_file a p m) b bs' Hinc
                (find_seen_file a p ms tb cd m Hnd Hin)) as H.
  rewrite seen_file_path, seen_file_text in H. apply H.
  - rewrite seen_file_ignore. exact Hi.
  - exact Hs.
  - rewrite <- Em. apply (parse_one_ok (pl_ext p) (seen_file a p m) false lcs g bs).
    + rewrite seen_file_path. exact Eg.
    + rewrite seen_file_readable. exact Hr.
    + rewrite seen_file_text, seen_file_spans. exact Hp.
  - exact Hmiss.
Qed.

(* both at once, on what `list` prints.
   main_in_scope_file_listed as asked for ("an in-scope file with a grammar, readable, that
   parses to a non-empty block list appears in cr_ctx when no error or panic occurred") is FALSE
   for the files only the diff loop picks up, for two reasons:
   (1) the diff loop keeps the TOUCHED blocks only (BlocksFilter::ModifiedOnly): a file named by
       the diff none of whose blocks is touched contributes nothing
       (in_scope_untouched_file_not_listed below);
   (2) the diff loop looks a path up in the file list and takes the first entry: with two entries
       of the same path, the first ignored, the second is in scope yet never examined
       (in_scope_duplicate_path_not_listed below).
   For scanned files the statement holds as asked, without even the no-error hypothesis:
   main_scanned_file_in_context above.  The _partial variant adds what is missing: distinct
   paths, and, for a file that only the diff loop picks up, that its sections in the diff
   touch some block. *)
Definition cx_far_diff : str := T "--- a/a.py
+++ b/a.py
@@ -9,0 +10,1 @@
+y
".
Definition cx_near_diff : str := T "--- a/a.py
+++ b/a.py
@@ -1,0 +2,1 @@
+y
".
(* blockwatch list < diff *)
Definition cx_args (d : str) : cliargs := mkcli [] [] [] [] [] [] 0 0 true true true true false d true.
Definition cx_mfile (ig : bool) : mfile :=
  mkmfile (T "a.py") (T "# <block name=""a"">
x
# </block>
") [mkspan 0 18 K_HASH 0; mkspan 21 31 K_HASH 0] true true false ig false.
Definition cx_tables := mktables [] [] [] [] [].

Example in_scope_untouched_file_not_listed :
  let a := cx_args cx_far_diff in let m := cx_mfile false in let ms := [m] in
  exists p ch bs,
    plan_of a = Ok p /\ model_changes (main_case a p ms cx_tables []) = Ok ch /\
    NoDup (map (fun m => rf_path (mf_file m)) ms) /\ In m ms /\ main_in_scope a p ch m /\
    grammar_of ext_table (pl_ext p) (rf_path (mf_file m)) <> None /\
    rf_readable (mf_file m) = true /\
    parse_file (rf_text (mf_file m)) (rf_spans (mf_file m)) = Ok bs /\ bs <> [] /\
    main_model a ms cx_tables [] = MList {| cr_ctx := []; cr_errs := []; cr_panic := false |}.
Proof.
  cbv zeta. eexists. eexists. eexists.
  split; [vm_compute; reflexivity|]. split; [vm_compute; reflexivity|].
  split; [repeat constructor; intros []|]. split; [left; reflexivity|].
  split; [right; split; [left; reflexivity|reflexivity]|].
  split; [vm_compute; discriminate|]. split; [reflexivity|].
  split; [vm_compute; reflexivity|]. split; [discriminate|]. vm_compute. reflexivity.
Qed.

Example in_scope_duplicate_path_not_listed :
  let a := cx_args cx_near_diff in let m := cx_mfile false in let ms := [cx_mfile true; m] in
  exists p ch bs,
    plan_of a = Ok p /\ model_changes (main_case a p ms cx_tables []) = Ok ch /\
    In m ms /\ main_in_scope a p ch m /\
    grammar_of ext_table (pl_ext p) (rf_path (mf_file m)) <> None /\
    rf_readable (mf_file m) = true /\
    parse_file (rf_text (mf_file m)) (rf_spans (mf_file m)) = Ok bs /\
    (forall lcs, In (rf_path (mf_file m), lcs) ch -> select_blocks false lcs bs <> []) /\
    main_model a ms cx_tables [] = MList {| cr_ctx := []; cr_errs := []; cr_panic := false |} /\
    (* whereas alone it is listed *)
    (exists fc, main_model a [m] cx_tables [] = MList {| cr_ctx := [fc]; cr_errs := []; cr_panic := false |}).
Proof.
  cbv zeta. eexists. eexists. eexists.
  split; [vm_compute; reflexivity|]. split; [vm_compute; reflexivity|].
  split; [right; left; reflexivity|].
  split; [right; split; [left; reflexivity|reflexivity]|].
  split; [vm_compute; discriminate|]. split; [reflexivity|].
  split; [vm_compute; reflexivity|].
  split; [intros lcs [H|[]]; inversion H; subst lcs; vm_compute; discriminate|].
  split; [vm_compute; reflexivity|]. eexists. vm_compute. reflexivity.
Qed.

Theorem main_in_scope_file_listed_partial : forall a p ms tb cd cr m ch bs,
  plan_of a = Ok p -> main_model a ms tb cd = MList cr ->
  NoDup (map (fun m => rf_path (mf_file m)) ms) -> In m ms ->
  model_changes (main_case a p ms tb cd) = Ok ch ->
  main_in_scope a p ch m ->
  grammar_of ext_table (pl_ext p) (rf_path (mf_file m)) <> None ->
  rf_readable (mf_file m) = true ->
  parse_file (rf_text (mf_file m)) (rf_spans (mf_file m)) = Ok bs -> bs <> [] ->
  (* a file that only the diff loop picks up: some block is touched *)
  ((pl_scan p && scanned (seen_file a p m)) = false ->
   forall lcs, In (rf_path (mf_file m), lcs) ch -> select_blocks false lcs bs <> []) ->
  cr_errs cr = [] ->
  exists fc, In fc (cr_ctx cr) /\ fc_path fc = rf_path (mf_file m) /\ fc_text fc = rf_text (mf_file m) /\
             fc_blocks fc <> [] /\ exists all lcs, fc_blocks fc = select_blocks all lcs bs.
Proof.
  intros a p ms tb cd cr m ch bs E H Hnd Hin Hch Hscope Hg Hr Hp Hne Htouched Herrs.
  rewrite (main_model_ok a p ms tb cd E) in H.
  destruct (ca_list a); [|discriminate H]. injection H as <-.
  destruct (pl_scan p && scanned (seen_file a p m)) eqn:Es.
  - apply andb_true_iff in Es. destruct Es as [Es1 Es2].
    eexists. split; [exact (main_scanned_file_in_context a p ms tb cd m ch bs Hin Hch Es1 Es2 Hg Hr Hp Hne)|].
    cbn [fc_path fc_text fc_blocks]. split; [reflexivity|]. split; [reflexivity|]. split.
    + destruct bs; [exfalso; apply Hne; reflexivity|discriminate].
    + eexists true, _. symmetry. apply select_blocks_all.
  - apply in_scope_seen_file in Hscope. unfold in_scope in Hscope. rewrite Es in Hscope.
    cbn [orb] in Hscope. apply andb_true_iff in Hscope. destruct Hscope as [Hi Hex].
    apply negb_true_iff in Hi. rewrite seen_file_ignore in Hi.
    apply existsb_exists in Hex. destruct Hex as ([q lcs] & Hinc & Hq).
    cbn [fst] in Hq. apply str_eqb_eq in Hq. subst q. rewrite seen_file_path in Hinc.
    eexists. split.
    + apply (main_diff_file_in_context a p ms tb cd m ch lcs bs Hnd Hin Hch Hinc Hi Es Hg Hr Hp
               (Htouched eq_refl lcs Hinc)).
      rewrite Herrs. intros [].
    + cbn [fc_path fc_text fc_blocks]. split; [reflexivity|]. split; [reflexivity|].
      split; [exact (Htouched eq_refl lcs Hinc)|]. exists false, lcs. reflexivity.
Qed.

(* ================================================================== *)
(* S2 - malformed rules fail closed, through main                      *)
(* ================================================================== *)

(* a block on which a detected validator stops with an error: the process fails *)
Theorem malformed_rule_fails_main : forall a p ms tb cd v f bc e,
  plan_of a = Ok p -> ca_list a = false ->
  let cr := model_context (main_case a p ms tb cd) in
  cr_panic cr = false -> cr_errs cr = [] ->
  In f (cr_ctx cr) -> In bc (fc_blocks f) ->
  validate_block (oracles_of tb) (named_modified (cr_ctx cr)) v f bc = Err e ->
  In v (detected_validators (pl_enabled p) (pl_disabled p) (cr_ctx cr)) ->
  (main_exit (main_model a ms tb cd) = 1 \/ main_exit (main_model a ms tb cd) = 101) /\
  main_exit (main_model a ms tb cd) <> 0.
Proof.
  intros a p ms tb cd v f bc e E Hl cr Hp He Hf Hbc Hv Hdet.
  assert (H : main_exit (main_model a ms tb cd) = 1 \/ main_exit (main_model a ms tb cd) = 101).
  { rewrite (main_run_diags a p ms tb cd E Hl Hp He). fold cr.
    pose proof (block_err_fails (oracles_of tb) (cr_ctx cr) v f bc e Hf Hbc Hv) as Herr.
    destruct (any_error_fails_run (oracles_of tb) (cr_ctx cr)
                (detected_validators (pl_enabled p) (pl_disabled p) (cr_ctx cr)) v Hdet Herr) as [_ Hne].
    clear Herr.
    set (r := run_validators (oracles_of tb) (cr_ctx cr)
                (detected_validators (pl_enabled p) (pl_disabled p) (cr_ctx cr))) in *.
    cbn [main_exit]. destruct (vr_panic r); [right; reflexivity|]. left.
    destruct (vr_errs r); [exfalso; apply Hne; reflexivity|reflexivity]. }
  split; [exact H|]. destruct H as [H|H]; rewrite H; discriminate.
Qed.

(* ... and more precisely: exit status 1 with the error reported, unless some validator panics *)
Theorem malformed_rule_error_reported : forall a p ms tb cd v f bc e,
  plan_of a = Ok p -> ca_list a = false ->
  let cr := model_context (main_case a p ms tb cd) in
  cr_panic cr = false -> cr_errs cr = [] ->
  In f (cr_ctx cr) -> In bc (fc_blocks f) ->
  validate_block (oracles_of tb) (named_modified (cr_ctx cr)) v f bc = Err e ->
  In v (detected_validators (pl_enabled p) (pl_disabled p) (cr_ctx cr)) ->
  exists r, main_model a ms tb cd = MRun r /\ vr_errs r <> [] /\
            (prepass_errs v (cr_ctx cr) = [] -> In e (vr_errs r)).
Proof.
  intros a p ms tb cd v f bc e E Hl cr Hp He Hf Hbc Hv Hdet.
  rewrite (main_run_diags a p ms tb cd E Hl Hp He). fold cr. eexists. split; [reflexivity|]. split.
  - pose proof (block_err_fails (oracles_of tb) (cr_ctx cr) v f bc e Hf Hbc Hv) as Herr.
    exact (proj2 (any_error_fails_run _ _ _ v Hdet Herr)).
  - intros Hpre. rewrite run_validators_errs. apply in_flat_map. exists v. split; [exact Hdet|].
    exact (block_err_run (oracles_of tb) (cr_ctx cr) v f bc e Hf Hbc Hpre Hv).
Qed.

(* detection, from Run_proofs.detected_validators_exact: an active validator whose detector
   fires on some block of the context is detected *)
Lemma active_detecting_is_detected : forall en dis ctx v f bc,
  In v (active_validators en dis) -> In f ctx -> In bc (fc_blocks f) -> detects v bc = true ->
  In v (detected_validators en dis ctx).
Proof.
  intros en dis ctx v f bc Hact Hf Hbc Hd.
  eapply Permutation_in; [apply Permutation_sym, detected_validators_exact|].
  apply filter_In. split; [exact Hact|].
  apply existsb_exists. exists bc. split; [|exact Hd]. apply in_all_blocks. exists f. split; assumption.
Qed.

Corollary malformed_rule_detected_fails_main : forall a p ms tb cd v f bc e,
  plan_of a = Ok p -> ca_list a = false ->
  let cr := model_context (main_case a p ms tb cd) in
  cr_panic cr = false -> cr_errs cr = [] ->
  In f (cr_ctx cr) -> In bc (fc_blocks f) ->
  validate_block (oracles_of tb) (named_modified (cr_ctx cr)) v f bc = Err e ->
  In v (active_validators (pl_enabled p) (pl_disabled p)) -> detects v bc = true ->
  (main_exit (main_model a ms tb cd) = 1 \/ main_exit (main_model a ms tb cd) = 101) /\
  main_exit (main_model a ms tb cd) <> 0.
Proof.
  intros a p ms tb cd v f bc e E Hl cr Hp He Hf Hbc Hv Hact Hd.
  apply (malformed_rule_fails_main a p ms tb cd v f bc e E Hl Hp He Hf Hbc Hv).
  exact (active_detecting_is_detected _ _ _ v f bc Hact Hf Hbc Hd).
Qed.

(* the detector hypothesis is redundant: a validator can only stop with an error on a block
   its detector fires on (Run_proofs.detects_false_validate) *)
Lemma err_block_detects : forall o nm v f bc e,
  In v all_validators -> validate_block o nm v f bc = Err e -> detects v bc = true.
Proof.
  intros o nm v f bc e Hv He. destruct (detects v bc) eqn:Ed; [reflexivity|].
  rewrite (detects_false_validate o nm v f bc Hv Ed) in He. discriminate He.
Qed.

Corollary malformed_rule_active_fails_main : forall a p ms tb cd v f bc e,
  plan_of a = Ok p -> ca_list a = false ->
  let cr := model_context (main_case a p ms tb cd) in
  cr_panic cr = false -> cr_errs cr = [] ->
  In f (cr_ctx cr) -> In bc (fc_blocks f) ->
  validate_block (oracles_of tb) (named_modified (cr_ctx cr)) v f bc = Err e ->
  In v (active_validators (pl_enabled p) (pl_disabled p)) ->
  (main_exit (main_model a ms tb cd) = 1 \/ main_exit (main_model a ms tb cd) = 101) /\
  main_exit (main_model a ms tb cd) <> 0.
Proof.
  intros a p ms tb cd v f bc e E Hl cr Hp He Hf Hbc Hv Hact.
  apply (malformed_rule_detected_fails_main a p ms tb cd v f bc e E Hl Hp He Hf Hbc Hv Hact).
  exact (err_block_detects _ _ v f bc e (active_subset _ _ v Hact) Hv).
Qed.

(* the same in terms of what was typed: a registered validator that -d does not switch off
   (no -e given), or that -e switches on *)
Corollary malformed_rule_flags_fails_main : forall a p ms tb cd v f bc e,
  plan_of a = Ok p -> ca_list a = false ->
  let cr := model_context (main_case a p ms tb cd) in
  cr_panic cr = false -> cr_errs cr = [] ->
  In f (cr_ctx cr) -> In bc (fc_blocks f) ->
  validate_block (oracles_of tb) (named_modified (cr_ctx cr)) v f bc = Err e ->
  In v all_validators ->
  (match pl_enabled p with [] => ~ In v (pl_disabled p) | _ => In v (pl_enabled p) end) ->
  main_exit (main_model a ms tb cd) <> 0.
Proof.
  intros a p ms tb cd v f bc e E Hl cr Hp He Hf Hbc Hv Hall Hflags.
  apply (malformed_rule_active_fails_main a p ms tb cd v f bc e E Hl Hp He Hf Hbc Hv).
  apply active_validators_spec. split; assumption.
Qed.

(* and when the context itself did not assemble, main fails anyway
   (MainCompose_proofs.context_failure_fails_main): failing closed needs no side condition
   on the context *)
Theorem malformed_rule_or_context_fails_main : forall a p ms tb cd,
  plan_of a = Ok p -> ca_list a = false ->
  let cr := model_context (main_case a p ms tb cd) in
  (cr_panic cr = true \/ cr_errs cr <> [] \/
   exists v f bc e, In f (cr_ctx cr) /\ In bc (fc_blocks f) /\
     validate_block (oracles_of tb) (named_modified (cr_ctx cr)) v f bc = Err e /\
     In v (active_validators (pl_enabled p) (pl_disabled p))) ->
  main_exit (main_model a ms tb cd) <> 0.
Proof.
  intros a p ms tb cd E Hl cr H.
  assert (Hctx : cr_errs cr <> [] \/ cr_panic cr = true ->
                 main_exit (main_model a ms tb cd) <> 0).
  { intros Hc. destruct (context_failure_fails_main a p ms tb cd E Hc) as [H1|H1]; rewrite H1; discriminate. }
  destruct (cr_panic cr) eqn:Hp; [apply Hctx; right; reflexivity|].
  destruct (cr_errs cr) as [|x xs] eqn:He; [|apply Hctx; left; discriminate].
  destruct H as [H|[H|(v & f & bc & e & Hf & Hbc & Hv & Hact)]]; [discriminate H|exfalso; apply H; reflexivity|].
  exact (proj2 (malformed_rule_active_fails_main a p ms tb cd v f bc e E Hl Hp He Hf Hbc Hv Hact)).
Qed.

(* ================================================================== *)
(* S3 - accepted diffs, end to end from the text                       *)
(* ================================================================== *)

(* the text of a printed patch goes through parse_patch unharmed (Patch_proofs), so the line
   changes of the text are those of the files *)
Corollary line_changes_of_printed_patch : forall cdiff fs,
  Forall good_file fs -> Forall clean_file fs ->
  line_changes_from_diff cdiff (print_patch fs) = changes_of_files cdiff fs [].
Proof.
  intros cdiff fs Hg Hc. unfold line_changes_from_diff.
  rewrite (parse_patch_print_patch fs Hg Hc). reflexivity.
Qed.

(* a generated case whose diff is a printed patch *)
Corollary model_changes_of_printed_patch : forall c fs,
  rc_diff c = Some (print_patch fs) -> Forall good_file fs -> Forall clean_file fs ->
  model_changes c = changes_of_files (cdiff_of c) fs [].
Proof.
  intros c fs Hd Hg Hc. unfold model_changes. rewrite Hd.
  apply line_changes_of_printed_patch; assumption.
Qed.

(* through main: a printed patch on stdin (not a terminal) *)
Corollary main_changes_of_printed_patch : forall a p ms tb cd fs,
  plan_of a = Ok p -> ca_terminal a = false -> ca_stdin a = print_patch fs ->
  Forall good_file fs -> Forall clean_file fs ->
  model_changes (main_case a p ms tb cd) = changes_of_files (fun x y => assoc2 x y cd) fs [].
Proof.
  intros a p ms tb cd fs E Ht Hs Hg Hc.
  destruct (plan_modes a p E) as (_ & _ & Hd & _). rewrite Ht, Hs in Hd.
  apply (model_changes_of_printed_patch (main_case a p ms tb cd) fs); [exact Hd|exact Hg|exact Hc].
Qed.

(* in terminal mode stdin is not read at all *)
Corollary main_changes_terminal : forall a p ms tb cd,
  plan_of a = Ok p -> ca_terminal a = true -> model_changes (main_case a p ms tb cd) = Ok [].
Proof.
  intros a p ms tb cd E Ht. destruct (plan_modes a p E) as (_ & _ & Hd & _). rewrite Ht in Hd.
  unfold model_changes. replace (rc_diff (main_case a p ms tb cd)) with (pl_diff p) by reflexivity.
  rewrite Hd. reflexivity.
Qed.

(* which paths the changes are keyed by: the target paths of the sections that do not remove
   their file (this is the "named by the diff" half of main_in_scope) *)
Lemma in_keys_snoc (q p : str) (lcs : list lchange) (acc : list (str * list lchange)) :
  In q (map fst (filter (fun e => negb (str_eqb (fst e) p)) acc ++ [(p, lcs)])) <->
  (In q (map fst acc) /\ q <> p) \/ q = p.
Proof.
  rewrite map_app, in_app_iff. cbn [map fst In]. rewrite in_map_iff. split.
  - intros [(e & He & Hin)|[H|[]]]; [|right; symmetry; exact H].
    apply filter_In in Hin. destruct Hin as [Hin Hne]. left. split.
    + apply in_map_iff. exists e. split; assumption.
    + intros ->. rewrite He, str_eqb_refl in Hne. discriminate Hne.
  - intros [[Hin Hne]|H]; [|right; left; symmetry; exact H].
    apply in_map_iff in Hin. destruct Hin as (e & He & Hin). left. exists e. split; [exact He|].
    apply filter_In. split; [exact Hin|]. destruct (str_eqb (fst e) p) eqn:Ee; [|reflexivity].
    apply str_eqb_eq in Ee. exfalso. apply Hne. congruence.
Qed.

Theorem changes_of_files_keys : forall cdiff fs acc ch q,
  changes_of_files cdiff fs acc = Ok ch ->
  (In q (map fst ch) <->
   (In q (map fst acc) \/ exists f, In f fs /\ is_removed_file f = false /\ target_path f = q)).
Proof.
  intros cdiff fs. induction fs as [|f fs IH]; intros acc ch q H; cbn [changes_of_files] in H.
  - injection H as <-. split; [left; assumption|]. intros [H|(f & [] & _)]. exact H.
  - destruct (is_removed_file f) eqn:Er.
    + rewrite (IH acc ch q H). split.
      * intros [H1|(g & Hg & Hr & Hp)]; [left; exact H1|]. right. exists g. split; [right; exact Hg|]. split; assumption.
      * intros [H1|(g & [<-|Hg] & Hr & Hp)]; [left; exact H1|congruence|]. right. exists g. split; [exact Hg|]. split; assumption.
    + destruct (line_changes cdiff f) as [lcs|]; [|discriminate H].
      rewrite (IH _ ch q H), in_keys_snoc. split.
      * intros [[[H1 _]|H1]|(g & Hg & Hr & Hp)].
        -- left. exact H1.
        -- right. exists f. split; [left; reflexivity|]. split; [exact Er|symmetry; exact H1].
        -- right. exists g. split; [right; exact Hg|]. split; assumption.
      * intros [H1|(g & [<-|Hg] & Hr & Hp)].
        -- destruct (str_eqb q (target_path f)) eqn:Eq.
           ++ apply str_eqb_eq in Eq. left. right. exact Eq.
           ++ left. left. split; [exact H1|]. intros ->. rewrite str_eqb_refl in Eq. discriminate Eq.
        -- left. right. symmetry. exact Hp.
        -- right. exists g. split; [exact Hg|]. split; assumption.
Qed.

Corollary printed_patch_keys : forall cdiff fs ch q,
  Forall good_file fs -> Forall clean_file fs ->
  line_changes_from_diff cdiff (print_patch fs) = Ok ch ->
  (In q (map fst ch) <-> exists f, In f fs /\ is_removed_file f = false /\ target_path f = q).
Proof.
  intros cdiff fs ch q Hg Hc H. rewrite (line_changes_of_printed_patch cdiff fs Hg Hc) in H.
  rewrite (changes_of_files_keys cdiff fs [] ch q H). cbn [map In]. tauto.
Qed.

(* ================================================================== *)
(* S4 - every registered language: positions survive normalisation     *)
(* ================================================================== *)

(* whatever family the file name selects and whatever node the grammar hands over, the
   normaliser the model picks (Lang.kind_of) keeps the byte shape - one entry per byte, true at
   the newlines - hence the byte length.  No side condition: Comment_proofs.normalise_shape
   holds for every kind. *)
Theorem registered_normalisers_keep_shape : forall fam raw g t,
  normalise (kind_of fam raw g) raw = Ok (Some t) ->
  byte_shape t = byte_shape raw /\ blen t = blen raw.
Proof.
  intros fam raw g t H. pose proof (normalise_shape _ _ _ H) as Hs.
  split; [exact Hs|exact (shape_blen _ _ Hs)].
Qed.

(* the line structure: the number of newlines is a function of the shape *)
Lemma filter_id_repeat_false k : filter (fun b : bool => b) (repeat false k) = [].
Proof. induction k as [|k IH]; cbn [repeat filter]; [reflexivity|exact IH]. Qed.

Lemma count_nl_shape s : nlen (filter (fun b : bool => b) (byte_shape s)) = count_nl s.
Proof.
  induction s as [|c s IH]; [reflexivity|].
  rewrite byte_shape_cons, filter_app_, count_nl_cons. unfold nlen in *.
  rewrite app_length, Nat2N.inj_add, IH. f_equal.
  destruct (c =? 10) eqn:E.
  - apply N.eqb_eq in E. subst c. reflexivity.
  - rewrite filter_id_repeat_false. reflexivity.
Qed.

Corollary shape_count_nl a b : byte_shape a = byte_shape b -> count_nl a = count_nl b.
Proof. intros H. rewrite <- !count_nl_shape, H. reflexivity. Qed.

Theorem registered_normalisers_keep_lines : forall fam raw g t,
  normalise (kind_of fam raw g) raw = Ok (Some t) -> count_nl t = count_nl raw.
Proof. intros fam raw g t H. apply shape_count_nl. eapply normalise_shape. exact H. Qed.

(* and the (line, column) of every character boundary (Pos_proofs.normalised_positions; the
   boundary condition is needed, Pos_proofs.advance_shape_needs_boundary) *)
Theorem registered_normalisers_keep_positions : forall fam raw g t n p0,
  normalise (kind_of fam raw g) raw = Ok (Some t) ->
  (exists pre post, raw = pre ++ post /\ blen pre = n) ->
  (exists pre post, t = pre ++ post /\ blen pre = n) ->
  advance t n p0 = advance raw n p0.
Proof. intros fam raw g t n p0 H. exact (normalised_positions _ raw t n p0 H). Qed.

(* the kind rekind writes into a span is the one these statements are about *)
Corollary rekind_span_normaliser_keeps_shape : forall fam text sp raw t,
  bslice text (cs_lo sp) (cs_hi sp) = Some raw ->
  normalise (cs_kind (rekind_span (Some fam) text sp)) raw = Ok (Some t) ->
  byte_shape t = byte_shape raw /\ blen t = blen raw /\ count_nl t = count_nl raw.
Proof.
  intros fam text sp raw t Hs H. unfold rekind_span in H. cbn [cs_kind] in H. rewrite Hs in H.
  destruct (registered_normalisers_keep_shape fam raw (cs_group sp) t H) as [H1 H2].
  split; [exact H1|]. split; [exact H2|exact (shape_count_nl _ _ H1)].
Qed.

(* ================================================================== *)
(* axiom audit                                                         *)
(* ================================================================== *)
Print Assumptions main_context_file_in_scope.
Print Assumptions main_listed_file_in_scope.
Print Assumptions run_validators_diag_paths.
Print Assumptions main_diag_file_in_scope.
Print Assumptions main_scanned_file_in_context.
Print Assumptions main_diff_file_in_context.
Print Assumptions in_scope_untouched_file_not_listed.
Print Assumptions in_scope_duplicate_path_not_listed.
Print Assumptions main_in_scope_file_listed_partial.
Print Assumptions malformed_rule_fails_main.
Print Assumptions malformed_rule_error_reported.
Print Assumptions malformed_rule_detected_fails_main.
Print Assumptions malformed_rule_active_fails_main.
Print Assumptions malformed_rule_flags_fails_main.
Print Assumptions malformed_rule_or_context_fails_main.
Print Assumptions line_changes_of_printed_patch.
Print Assumptions model_changes_of_printed_patch.
Print Assumptions main_changes_of_printed_patch.
Print Assumptions main_changes_terminal.
Print Assumptions changes_of_files_keys.
Print Assumptions printed_patch_keys.
Print Assumptions registered_normalisers_keep_shape.
Print Assumptions registered_normalisers_keep_lines.
Print Assumptions registered_normalisers_keep_positions.
Print Assumptions rekind_span_normaliser_keeps_shape.

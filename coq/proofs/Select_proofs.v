(* Select_proofs.v - selection arithmetic of BW.Select: which line changes
   hit a block's start tag / content, and which blocks get selected. *)
From BW Require Import Select.
From BWP Require Import TextFacts.
From Coq Require Import ZifyBool ZifyN ZifyNat.
Arguments N.add : simpl never. Arguments N.sub : simpl never. Arguments N.mul : simpl never.
Arguments N.eqb : simpl never. Arguments N.ltb : simpl never. Arguments N.leb : simpl never.

(* ---------- helpers ---------- *)
Lemma existsb_false_forall {A} (f : A -> bool) l :
  (forall x, In x l -> f x = false) -> existsb f l = false.
Proof.
  induction l as [|a l IH]; intros Hall; cbn [existsb]; [reflexivity|].
  rewrite (Hall a (or_introl eq_refl)). cbn [orb].
  apply IH. intros x Hx. apply Hall. right. exact Hx.
Qed.

Lemma existsb_ext_in {A} (f g : A -> bool) l :
  (forall x, In x l -> f x = g x) -> existsb f l = existsb g l.
Proof.
  induction l as [|a l IH]; intros Hall; cbn [existsb]; [reflexivity|].
  rewrite (Hall a (or_introl eq_refl)). f_equal.
  apply IH. intros x Hx. apply Hall. right. exact Hx.
Qed.

(* ---------- 1a: whole-line changes ---------- *)
Lemma content_hit_whole_line : forall b lc, lc_ranges lc = None ->
  content_hit b lc = (fst (b_cs b) <=? lc_line lc) && (lc_line lc <=? fst (b_ce b)).
Proof.
  intros b lc Hr. unfold content_hit. rewrite Hr.
  destruct (lc_line lc <? fst (b_cs b)) eqn:E1;
  destruct (fst (b_ce b) <? lc_line lc) eqn:E2; lia.
Qed.

Lemma tag_hit_whole_line : forall b lc, lc_ranges lc = None ->
  tag_hit b lc = (fst (b_ts b) <=? lc_line lc) && (lc_line lc <=? fst (b_te b)).
Proof.
  intros b lc Hr. unfold tag_hit. rewrite Hr.
  destruct (lc_line lc <? fst (b_ts b)) eqn:E1;
  destruct (fst (b_te b) <? lc_line lc) eqn:E2; lia.
Qed.

(* ---------- 1b: lines strictly inside the content ---------- *)
Lemma content_hit_interior : forall b lc rs, lc_ranges lc = Some rs ->
  fst (b_cs b) < lc_line lc -> lc_line lc < fst (b_ce b) ->
  content_hit b lc = existsb (fun r => 0 <? snd r) rs.
Proof.
  intros b lc rs Hr Hlo Hhi. unfold content_hit. rewrite Hr.
  destruct (lc_line lc <? fst (b_cs b)) eqn:E1; [lia|].
  destruct (fst (b_ce b) <? lc_line lc) eqn:E2; [lia|].
  destruct (lc_line lc =? fst (b_cs b)) eqn:E3; [lia|].
  destruct (lc_line lc <? fst (b_ce b)) eqn:E4; [|lia].
  apply existsb_ext_in. intros r _. unfold range_hits_excl.
  apply andb_true_r.
Qed.

(* ---------- 1c: far lines never hit ---------- *)
Lemma far_no_hit : forall b lc,
  (lc_line lc < fst (b_ts b) /\ lc_line lc < fst (b_cs b)) \/
  (fst (b_te b) < lc_line lc /\ fst (b_ce b) < lc_line lc) ->
  tag_hit b lc = false /\ content_hit b lc = false.
Proof.
  intros b lc Hfar. unfold tag_hit, content_hit.
  destruct (lc_line lc <? fst (b_ts b)) eqn:E1;
  destruct (fst (b_te b) <? lc_line lc) eqn:E2;
  destruct (lc_line lc <? fst (b_cs b)) eqn:E3;
  destruct (fst (b_ce b) <? lc_line lc) eqn:E4;
  try (split; reflexivity); exfalso; lia.
Qed.

Theorem far_not_selected : forall b lcs,
  (forall lc, In lc lcs ->
     (lc_line lc < fst (b_ts b) /\ lc_line lc < fst (b_cs b)) \/
     (fst (b_te b) < lc_line lc /\ fst (b_ce b) < lc_line lc)) ->
  tag_modified b lcs = false /\ content_modified b lcs = false.
Proof.
  intros b lcs Hall. unfold tag_modified, content_modified.
  split; apply existsb_false_forall; intros lc Hin;
    destruct (far_no_hit b lc (Hall lc Hin)) as [Ht Hc]; assumption.
Qed.

(* ---------- 1d: an edit confined to the start tag ---------- *)
(* The hypothesis [1 <= snd (b_ts b)] offered by the task is not needed:
   N subtraction truncates and the conclusion still holds for column 0. *)
Lemma tag_only_edit : forall b lc rs,
  fst (b_ts b) = fst (b_te b) ->
  fst (b_cs b) = fst (b_ts b) ->
  snd (b_te b) < snd (b_cs b) ->
  fst (b_ts b) < fst (b_ce b) ->
  lc_line lc = fst (b_ts b) ->
  lc_ranges lc = Some rs ->
  (forall r, In r rs -> snd (b_ts b) - 1 <= fst r /\ fst r < snd r /\ snd r <= snd (b_te b)) ->
  rs <> [] ->
  tag_hit b lc = true /\ content_hit b lc = false.
Proof.
  intros b lc rs Hline Hcs Hcol Hend Hlc Hr Hin Hne.
  unfold tag_hit, content_hit. rewrite Hr.
  destruct (lc_line lc <? fst (b_ts b)) eqn:E1; [lia|].
  destruct (fst (b_te b) <? lc_line lc) eqn:E2; [lia|].
  destruct (lc_line lc <? fst (b_cs b)) eqn:E3; [lia|].
  destruct (fst (b_ce b) <? lc_line lc) eqn:E4; [lia|].
  destruct (lc_line lc =? fst (b_ts b)) eqn:E5; [|lia].
  destruct (lc_line lc <? fst (b_te b)) eqn:E6; [lia|].
  destruct (lc_line lc =? fst (b_cs b)) eqn:E7; [|lia].
  destruct (lc_line lc <? fst (b_ce b)) eqn:E8; [|lia].
  split.
  - destruct rs as [|r rs']; [congruence|].
    cbn [existsb]. apply orb_true_iff. left.
    destruct (Hin r (or_introl eq_refl)) as (H1 & H2 & H3).
    unfold range_hits_incl. lia.
  - apply existsb_false_forall. intros r Hr'.
    destruct (Hin r Hr') as (H1 & H2 & H3).
    unfold range_hits_excl. lia.
Qed.

(* ---------- 1e: an edit confined to the end tag ---------- *)
Lemma end_tag_only_edit : forall b lc rs,
  lc_line lc = fst (b_ce b) ->
  fst (b_cs b) < fst (b_ce b) ->
  fst (b_te b) < fst (b_ce b) ->
  lc_ranges lc = Some rs ->
  (forall r, In r rs -> snd (b_ce b) - 1 <= fst r) ->
  tag_hit b lc = false /\ content_hit b lc = false.
Proof.
  intros b lc rs Hlc Hcs Hte Hr Hin.
  unfold tag_hit, content_hit. rewrite Hr.
  destruct (lc_line lc <? fst (b_ts b)) eqn:E1;
  (destruct (fst (b_te b) <? lc_line lc) eqn:E2; [|lia]);
  (destruct (lc_line lc <? fst (b_cs b)) eqn:E3; [lia|]);
  (destruct (fst (b_ce b) <? lc_line lc) eqn:E4; [lia|]);
  (destruct (lc_line lc =? fst (b_cs b)) eqn:E5; [lia|]);
  (destruct (lc_line lc <? fst (b_ce b)) eqn:E6; [lia|]);
  (split; [reflexivity|]);
  apply existsb_false_forall; intros r Hr';
  pose proof (Hin r Hr') as H1; unfold range_hits_excl; lia.
Qed.

(* ---------- 1f: an edit past the tag on the tag's line ---------- *)
(* [1 <= snd (b_cs b)] is likewise not needed. *)
Lemma content_on_tag_line_edit : forall b lc rs r,
  fst (b_ts b) = fst (b_te b) ->
  fst (b_cs b) = fst (b_ts b) ->
  snd (b_te b) < snd (b_cs b) ->
  fst (b_ts b) < fst (b_ce b) ->
  lc_line lc = fst (b_ts b) ->
  lc_ranges lc = Some rs ->
  In r rs -> snd (b_cs b) - 1 < snd r ->
  content_hit b lc = true.
Proof.
  intros b lc rs r Hline Hcs Hcol Hend Hlc Hr Hin Hreach.
  unfold content_hit. rewrite Hr.
  destruct (lc_line lc <? fst (b_cs b)) eqn:E3; [lia|].
  destruct (fst (b_ce b) <? lc_line lc) eqn:E4; [lia|].
  destruct (lc_line lc =? fst (b_cs b)) eqn:E7; [|lia].
  destruct (lc_line lc <? fst (b_ce b)) eqn:E8; [|lia].
  apply existsb_exists. exists r. split; [exact Hin|].
  unfold range_hits_excl. lia.
Qed.

(* ---------- 1g: selection ---------- *)
Theorem selected_iff_touched : forall lcs bs bc,
  In bc (select_blocks false lcs bs) <->
  exists b, In b bs /\ bc = mk_bctx lcs b /\
            (content_modified b lcs = true \/ tag_modified b lcs = true).
Proof.
  intros lcs bs bc. unfold select_blocks. rewrite filter_In, in_map_iff.
  cbn [orb]. split.
  - intros [(b & Hb & Hin) Hsel]. exists b. subst bc. cbn [mk_bctx bc_contmod bc_tagmod] in Hsel.
    split; [exact Hin|]. split; [reflexivity|]. apply orb_true_iff. exact Hsel.
  - intros (b & Hin & -> & Hsel). split; [exists b; split; [reflexivity|exact Hin]|].
    cbn [mk_bctx bc_contmod bc_tagmod]. apply orb_true_iff. exact Hsel.
Qed.

Theorem scan_selects_all : forall lcs bs, map bc_block (select_blocks true lcs bs) = bs.
Proof.
  intros lcs bs. unfold select_blocks. cbn [orb].
  induction bs as [|b bs IH]; cbn [map filter]; [reflexivity|].
  cbn [mk_bctx bc_block]. f_equal. exact IH.
Qed.

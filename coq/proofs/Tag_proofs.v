(* Tag_proofs.v - the tag grammar of theories/Tag.v against the printer of
   theories/SpecTag.v: round trips, soundness, look-alikes, scanning. *)
From BW Require Import SpecTag.
From BWP Require Import TextFacts.
From Coq Require Import ZifyBool ZifyN ZifyNat.
Arguments N.add : simpl never. Arguments N.sub : simpl never. Arguments N.mul : simpl never.
Arguments N.eqb : simpl never. Arguments N.ltb : simpl never. Arguments N.leb : simpl never.

(* ---------- generic facts about take_while / drop_while / strip_prefix ---------- *)
Lemma forallb_Forall (p : char -> bool) (s : str) :
  forallb p s = true <-> Forall (fun c => p c = true) s.
Proof.
  induction s as [|c s IH]; cbn [forallb].
  - split; auto.
  - rewrite andb_true_iff, IH. split.
    + intros [H1 H2]; constructor; assumption.
    + intros H; inversion H; auto.
Qed.

Lemma take_drop p (s : str) : take_while p s ++ drop_while p s = s.
Proof.
  induction s as [|c s IH]; cbn [take_while drop_while]; [reflexivity|].
  destruct (p c); cbn [app]; [rewrite IH|]; reflexivity.
Qed.

Lemma take_while_Forall p (s : str) : Forall (fun c => p c = true) (take_while p s).
Proof.
  induction s as [|c s IH]; cbn [take_while]; [constructor|].
  destruct (p c) eqn:E; constructor; assumption.
Qed.

Lemma drop_while_head p (s : str) c r : drop_while p s = c :: r -> p c = false.
Proof.
  induction s as [|x s IH]; cbn [drop_while]; [discriminate|].
  destruct (p x) eqn:E; [exact IH|]. intros H; inversion H; subst; exact E.
Qed.

(* the string is empty or begins with a character outside p *)
Definition headF (p : char -> bool) (b : str) : Prop :=
  match b with c :: _ => p c = false | [] => True end.

Lemma take_while_stop p (a b : str) :
  Forall (fun c => p c = true) a -> headF p b -> take_while p (a ++ b) = a.
Proof.
  intros Ha Hb. rewrite take_while_app_all by exact Ha.
  destruct b as [|c b]; cbn [take_while]; [apply app_nil_r|].
  cbn [headF] in Hb. rewrite Hb. apply app_nil_r.
Qed.

Lemma drop_while_stop p (a b : str) :
  Forall (fun c => p c = true) a -> headF p b -> drop_while p (a ++ b) = b.
Proof.
  intros Ha Hb. rewrite drop_while_app_all by exact Ha.
  destruct b as [|c b]; cbn [drop_while]; [reflexivity|].
  cbn [headF] in Hb. rewrite Hb. reflexivity.
Qed.

Lemma drop_while_headF p (s : str) : headF p (drop_while p s).
Proof.
  destruct (drop_while p s) as [|c r] eqn:E; cbn [headF]; [exact I|].
  eapply drop_while_head; exact E.
Qed.

Lemma strip_prefix_sound p : forall s r, strip_prefix p s = Some r -> s = p ++ r.
Proof.
  induction p as [|x p IH]; intros s r H; cbn [strip_prefix] in H.
  - inversion H; reflexivity.
  - destruct s as [|y s]; [discriminate|].
    destruct (x =? y) eqn:E; [|discriminate].
    apply N.eqb_eq in E. subst y. cbn [app]. f_equal. apply IH. exact H.
Qed.

Lemma nonempty_length (s : str) : s <> [] -> (1 <= length s)%nat.
Proof. destruct s; [congruence|]. cbn [length]. lia. Qed.

Lemma blen_app a b : blen (a ++ b) = blen a + blen b.
Proof. induction a as [|c a IH]; cbn [blen app]; [lia|]. rewrite IH. lia. Qed.

(* ---------- character facts ---------- *)
Lemma mspace_cases c : is_mspace c = true -> c = 32 \/ c = 9 \/ c = 13 \/ c = 10.
Proof. unfold is_mspace. lia. Qed.

Lemma mspace_not_name c : is_mspace c = true -> is_name_char c = false.
Proof.
  intros H. apply mspace_cases in H.
  destruct H as [->|[->|[->| ->]]]; vm_compute; reflexivity.
Qed.

Lemma name_not_mspace c : is_name_char c = true -> is_mspace c = false.
Proof.
  intros H. destruct (is_mspace c) eqn:E; [|reflexivity].
  apply mspace_not_name in E. congruence.
Qed.

Lemma name_not c : is_name_char c = true ->
  c <> C_DQ /\ c <> C_SQ /\ c <> C_EQ /\ c <> C_GT.
Proof. intros H. repeat split; intros ->; vm_compute in H; discriminate. Qed.

Lemma mspace_not c : is_mspace c = true ->
  c <> C_DQ /\ c <> C_SQ /\ c <> C_EQ /\ c <> C_GT /\ c <> C_SL /\ c <> C_LT /\ c <> 98.
Proof. unfold is_mspace, C_DQ, C_SQ, C_EQ, C_GT, C_SL, C_LT. lia. Qed.

Lemma gt_not_name : is_name_char C_GT = false. Proof. vm_compute; reflexivity. Qed.
Lemma eq_not_name : is_name_char C_EQ = false. Proof. vm_compute; reflexivity. Qed.
Lemma dq_not_name : is_name_char C_DQ = false. Proof. vm_compute; reflexivity. Qed.
Lemma sq_not_name : is_name_char C_SQ = false. Proof. vm_compute; reflexivity. Qed.
Lemma gt_not_mspace : is_mspace C_GT = false. Proof. reflexivity. Qed.
Lemma eq_not_mspace : is_mspace C_EQ = false. Proof. reflexivity. Qed.

Lemma mspace_Forall s : mspace_str s -> Forall (fun c => is_mspace c = true) s.
Proof. apply forallb_Forall. Qed.

Lemma name_Forall s : name_str s -> Forall (fun c => is_name_char c = true) s.
Proof. intros [_ H]. apply forallb_Forall. exact H. Qed.

Lemma name_head s : name_str s -> exists c r, s = c :: r /\ is_name_char c = true.
Proof.
  intros [Hne H]. destruct s as [|c r]; [congruence|].
  exists c, r. split; [reflexivity|].
  cbn [forallb] in H. apply andb_true_iff in H. apply H.
Qed.

(* a name, followed by anything, does not begin with whitespace *)
Lemma name_app_headF_mspace n t : name_str n -> headF is_mspace (n ++ t).
Proof.
  intros Hn. destruct (name_head _ Hn) as (c & r & -> & Hc).
  cbn [app headF]. apply name_not_mspace. exact Hc.
Qed.

(* ---------- 1. values ---------- *)
Lemma parse_value_quoted q s rest :
  q = C_DQ \/ q = C_SQ -> ~ In q s -> parse_value (q :: s ++ q :: rest) = Some (s, rest).
Proof.
  intros Hq Hs. unfold parse_value.
  assert (E : (q =? C_DQ) || (q =? C_SQ) = true) by (destruct Hq; subst; reflexivity).
  rewrite E.
  assert (Ha : Forall (fun c => not_char q c = true) s).
  { apply Forall_forall. intros c Hc. unfold not_char.
    destruct (c =? q) eqn:Ecq; [|reflexivity].
    apply N.eqb_eq in Ecq. subst. contradiction. }
  assert (Hb : headF (not_char q) (q :: rest)).
  { cbn [headF]. unfold not_char. rewrite N.eqb_refl. reflexivity. }
  rewrite drop_while_stop, take_while_stop by assumption. reflexivity.
Qed.

Lemma parse_value_bare s rest :
  name_str s -> headF is_name_char rest -> parse_value (s ++ rest) = Some (s, rest).
Proof.
  intros Hs Hr. destruct (name_head _ Hs) as (c & r & E & Hc).
  pose proof (name_Forall _ Hs) as Ha.
  subst s. cbn [app]. unfold parse_value.
  destruct (name_not _ Hc) as (H1 & H2 & _).
  apply N.eqb_neq in H1, H2. rewrite H1, H2. cbn [orb].
  change (c :: r ++ rest) with ((c :: r) ++ rest).
  rewrite take_while_stop, drop_while_stop by assumption. reflexivity.
Qed.

Lemma parse_value_print : forall v rest,
  (match v with
   | VNone => False
   | VBare s => name_str s /\ (match rest with c :: _ => is_name_char c = false | [] => True end)
   | VSq s => ~ In C_SQ s
   | VDq s => ~ In C_DQ s
   end) ->
  parse_value (print_val v ++ rest) =
    Some (match v with VNone => [] | VBare s | VSq s | VDq s => s end, rest).
Proof.
  intros [|s|s|s] rest H; cbn [print_val].
  - destruct H.
  - destruct H as [Hs Hr]. apply parse_value_bare; assumption.
  - rewrite <- !app_assoc. cbn [app]. apply parse_value_quoted; [right; reflexivity|exact H].
  - rewrite <- !app_assoc. cbn [app]. apply parse_value_quoted; [left; reflexivity|exact H].
Qed.

(* ---------- 2. one attribute ---------- *)
(* parse_attr on whitespace, a name, and a tail that does not continue the name *)
Lemma parse_attr_shape ws n tail :
  ws <> [] -> mspace_str ws -> name_str n -> headF is_name_char tail ->
  parse_attr (ws ++ n ++ tail) =
    match drop_while is_mspace tail with
    | e :: s4 =>
      if e =? C_EQ then
        match parse_value (drop_while is_mspace s4) with
        | Some (v, rest) => Some (n, v, rest)
        | None => Some (n, [], tail)
        end
      else Some (n, [], tail)
    | [] => Some (n, [], tail)
    end.
Proof.
  intros Hne Hws Hn Ht.
  pose proof (mspace_Forall _ Hws) as Fws.
  pose proof (name_Forall _ Hn) as Fn.
  pose proof (name_app_headF_mspace n tail Hn) as Hnt.
  destruct ws as [|w ws]; [congruence|].
  assert (Hw : is_mspace w = true) by (inversion Fws; assumption).
  unfold parse_attr. cbn [app]. rewrite Hw. cbv zeta.
  change (w :: ws ++ n ++ tail) with ((w :: ws) ++ n ++ tail).
  rewrite drop_while_stop by assumption.
  rewrite take_while_stop, drop_while_stop by assumption.
  destruct (name_head _ Hn) as (c & r & -> & _). reflexivity.
Qed.

(* Statement 2 as given is FALSE for p_val p = VNone: after the name the parser
   skips whitespace and, on '=', tries a value, so "a" followed by rest = " =x>"
   is read as a="x".  (rest = " =x>" satisfies the given side condition: it
   begins with whitespace.) *)
Example parse_attr_print_as_given_false :
  let p := {| p_ws := T " "; p_name := T "a"; p_w1 := []; p_w2 := []; p_val := VNone |} in
  let rest := T " =x>" in
  parse_attr (print_attr p ++ rest) = Some (T "a", T "x", T ">") /\
  (fst (attr_of p), snd (attr_of p), rest) = (T "a", [], T " =x>").
Proof. vm_compute. split; reflexivity. Qed.

(* The minimal strengthening: for a value-less attribute, IF the text after it is
   whitespace* '=' whitespace* t, then t must not parse as a value (this is exactly
   the condition under which opt(...) backtracks, so it is also necessary).
   [no_value_follows] is that condition; [no_eq_follows] below is the simpler
   sufficient one that holds in the intended uses. *)
Definition no_value_follows (rest : str) : Prop :=
  match drop_while is_mspace rest with
  | e :: s4 => e = C_EQ -> parse_value (drop_while is_mspace s4) = None
  | [] => True
  end.

Lemma parse_attr_print : forall p rest,
  wf_pattr p ->
  (match rest with
   | c :: _ => is_name_char c = false /\ (is_mspace c = true \/ c = C_GT)
   | [] => True
   end) ->
  (p_val p = VNone -> no_value_follows rest) ->      (* added, see above *)
  parse_attr (print_attr p ++ rest) = Some (fst (attr_of p), snd (attr_of p), rest).
Proof.
  intros [ws n w1 w2 v] rest (Hne & Hws & Hn & Hw1 & Hw2 & Hv) Hr Hnone.
  cbn [p_ws p_name p_w1 p_w2 p_val] in *.
  unfold print_attr, attr_of. cbn [p_ws p_name p_w1 p_w2 p_val fst snd].
  assert (Hr' : headF is_name_char rest).
  { destruct rest as [|c r]; cbn [headF]; [exact I|apply Hr]. }
  pose proof (mspace_Forall _ Hw1) as F1. pose proof (mspace_Forall _ Hw2) as F2.
  assert (Hval : forall pv, v <> VNone -> print_val v = pv ->
            parse_value (pv ++ rest) = Some (match v with VNone => [] | VBare s | VSq s | VDq s => s end, rest)
            /\ headF is_mspace (pv ++ rest)).
  { intros pv Hvn <-. split.
    - apply parse_value_print. destruct v; [congruence|split; assumption|assumption|assumption].
    - destruct v as [|s|s|s]; [congruence| | |]; cbn [print_val].
      + apply name_app_headF_mspace. exact Hv.
      + reflexivity.
      + reflexivity. }
  assert (Hgen : forall pv, v <> VNone -> print_val v = pv ->
            parse_attr (ws ++ n ++ w1 ++ [C_EQ] ++ w2 ++ pv ++ rest) =
            Some (n, match v with VNone => [] | VBare s | VSq s | VDq s => s end, rest)).
  { intros pv Hvn Epv. destruct (Hval pv Hvn Epv) as [Hpv Hh].
    rewrite parse_attr_shape; try assumption.
    - rewrite drop_while_stop by (try assumption; reflexivity).
      cbn [app]. rewrite N.eqb_refl.
      rewrite drop_while_stop by assumption.
      rewrite Hpv. reflexivity.
    - destruct w1 as [|c w1]; cbn [app headF].
      + exact eq_not_name.
      + apply mspace_not_name. inversion F1; assumption. }
  destruct v as [|s|s|s].
  - (* no value *)
    rewrite app_nil_r, <- app_assoc. rewrite parse_attr_shape by assumption.
    specialize (Hnone eq_refl). unfold no_value_follows in Hnone.
    destruct (drop_while is_mspace rest) as [|e s4]; [reflexivity|].
    destruct (e =? C_EQ) eqn:E; [|reflexivity].
    apply N.eqb_eq in E. rewrite (Hnone E). reflexivity.
  - rewrite <- !app_assoc. apply Hgen; [discriminate|reflexivity].
  - rewrite <- !app_assoc. apply Hgen; [discriminate|reflexivity].
  - rewrite <- !app_assoc. apply Hgen; [discriminate|reflexivity].
Qed.

(* ---------- 3. attribute lists and the start tag ---------- *)
(* what may follow a printed attribute inside a tag: whitespace or '>' first, and
   no '=' after the whitespace *)
Definition tail_ok (t : str) : Prop :=
  match t with c :: _ => is_mspace c = true \/ c = C_GT | [] => True end /\
  match drop_while is_mspace t with e :: _ => e <> C_EQ | [] => True end.

Lemma tail_ok_ws_name ws n t :
  ws <> [] -> mspace_str ws -> name_str n -> tail_ok (ws ++ n ++ t).
Proof.
  intros Hne Hws Hn. pose proof (mspace_Forall _ Hws) as Fws. split.
  - destruct ws as [|w ws]; [congruence|]. cbn [app]. left. inversion Fws; assumption.
  - rewrite drop_while_stop by (try assumption; apply name_app_headF_mspace; assumption).
    destruct (name_head _ Hn) as (c & r & -> & Hc). cbn [app].
    apply name_not in Hc. tauto.
Qed.

Lemma print_attr_split p t : exists t', print_attr p ++ t = p_ws p ++ p_name p ++ t'.
Proof. unfold print_attr. rewrite <- !app_assoc. eexists; reflexivity. Qed.

Lemma print_attrs_cons p ps : print_attrs (p :: ps) = print_attr p ++ print_attrs ps.
Proof. reflexivity. Qed.

Lemma tail_ok_attrs ps t : Forall wf_pattr ps -> tail_ok t -> tail_ok (print_attrs ps ++ t).
Proof.
  intros H Ht. destruct H as [|p ps Hp Hps]; [exact Ht|].
  rewrite print_attrs_cons, <- app_assoc.
  destruct (print_attr_split p (print_attrs ps ++ t)) as [t' ->].
  destruct Hp as (? & ? & ? & _). apply tail_ok_ws_name; assumption.
Qed.

Lemma tail_ok_rest t : tail_ok t ->
  (match t with
   | c :: _ => is_name_char c = false /\ (is_mspace c = true \/ c = C_GT)
   | [] => True
   end) /\ no_value_follows t.
Proof.
  intros [H1 H2]. split.
  - destruct t as [|c r]; [exact I|]. split; [|exact H1].
    destruct H1 as [H1| ->]; [apply mspace_not_name; exact H1|exact gt_not_name].
  - unfold no_value_follows. destruct (drop_while is_mspace t); [exact I|].
    intros E. contradiction.
Qed.

Lemma parse_attrs_print ps : forall fuel t,
  Forall wf_pattr ps -> tail_ok t -> (length ps <= fuel)%nat ->
  parse_attrs fuel (print_attrs ps ++ t) =
    (map attr_of ps ++ fst (parse_attrs (fuel - length ps) t),
     snd (parse_attrs (fuel - length ps) t)).
Proof.
  induction ps as [|p ps IH]; intros fuel t Hwf Ht Hf.
  - cbn [print_attrs map concat app length]. rewrite PeanoNat.Nat.sub_0_r.
    destruct (parse_attrs fuel t); reflexivity.
  - inversion Hwf as [|? ? Hp Hps]; subst. cbn [length] in Hf.
    destruct fuel as [|fuel]; [lia|].
    rewrite print_attrs_cons, <- app_assoc. cbn [parse_attrs].
    pose proof (tail_ok_attrs ps t Hps Ht) as Hok. apply tail_ok_rest in Hok.
    destruct Hok as [H1 H2].
    rewrite parse_attr_print by auto.
    rewrite IH by (auto; lia).
    cbn [length Nat.sub map app fst snd]. destruct (attr_of p); reflexivity.
Qed.

Lemma print_attr_length p : wf_pattr p -> (1 <= length (print_attr p))%nat.
Proof.
  intros (Hne & _). unfold print_attr. rewrite app_length.
  destruct (p_ws p); [congruence|]. cbn [length]. lia.
Qed.

Lemma print_attrs_length ps : Forall wf_pattr ps -> (length ps <= length (print_attrs ps))%nat.
Proof.
  induction 1 as [|p ps Hp Hps IH]; [cbn; lia|].
  rewrite print_attrs_cons, app_length. cbn [length].
  pose proof (print_attr_length p Hp). lia.
Qed.

(* no name after the whitespace: not an attribute *)
Lemma parse_attr_none s : headF is_name_char (drop_while is_mspace s) -> parse_attr s = None.
Proof.
  unfold parse_attr. destruct s as [|c r]; [reflexivity|].
  destruct (is_mspace c) eqn:E; [|reflexivity]. cbv zeta.
  destruct (drop_while is_mspace (c :: r)) as [|d r']; intros H; cbn [take_while]; [reflexivity|].
  cbn [headF] in H. rewrite H. reflexivity.
Qed.

(* the start-tag parser on "<block", printed attributes, and an acceptable tail *)
Lemma start_tag_via ps t k :
  Forall wf_pattr ps -> tail_ok t ->
  (length (print_attrs ps ++ t) - length ps = k)%nat ->
  parse_start_tag (T "<block" ++ print_attrs ps ++ t) =
    match drop_while is_mspace (snd (parse_attrs k t)) with
    | c :: rest => if c =? C_GT then Some (map attr_of ps ++ fst (parse_attrs k t), rest) else None
    | [] => None
    end.
Proof.
  intros Hps Ht Hk. pose proof (print_attrs_length ps Hps) as Hlen.
  unfold parse_start_tag. rewrite strip_prefix_app.
  rewrite parse_attrs_print by (try assumption; rewrite app_length; lia).
  rewrite Hk. reflexivity.
Qed.

Theorem start_roundtrip : forall ps wend rest,
  Forall wf_pattr ps -> mspace_str wend ->
  parse_start_tag (print_start ps wend ++ rest) = Some (map attr_of ps, rest).
Proof.
  intros ps wend rest Hps Hw. pose proof (mspace_Forall _ Hw) as Fw.
  unfold print_start. rewrite <- !app_assoc.
  pose (t := wend ++ [C_GT] ++ rest).
  change (parse_start_tag (T "<block" ++ print_attrs ps ++ t) = Some (map attr_of ps, rest)).
  assert (Hd : drop_while is_mspace t = C_GT :: rest).
  { unfold t. rewrite drop_while_stop by (assumption || reflexivity). reflexivity. }
  assert (Ht : tail_ok t).
  { split.
    - unfold t. destruct wend as [|w wend]; cbn [app]; [right; reflexivity|].
      left; inversion Fw; assumption.
    - rewrite Hd. discriminate. }
  pose proof (print_attrs_length ps Hps) as Hlen.
  assert (Hk : exists k, (length (print_attrs ps ++ t) - length ps = S k)%nat).
  { exists (length (print_attrs ps ++ t) - length ps - 1)%nat.
    unfold t. rewrite !app_length. cbn [length]. lia. }
  destruct Hk as [k Hk].
  rewrite (start_tag_via ps t (S k) Hps Ht Hk). cbn [parse_attrs].
  rewrite parse_attr_none by (rewrite Hd; exact gt_not_name).
  cbn [fst snd]. rewrite app_nil_r, Hd. reflexivity.
Qed.

(* ---------- 4./5. the end tag ---------- *)
Theorem end_roundtrip : forall w1 w2 w3 rest,
  mspace_str w1 -> mspace_str w2 -> mspace_str w3 ->
  parse_end_tag (print_end w1 w2 w3 ++ rest) = Some rest.
Proof.
  intros w1 w2 w3 rest H1 H2 H3.
  apply mspace_Forall in H1, H2, H3.
  unfold print_end, parse_end_tag. rewrite <- !app_assoc. cbn [app].
  rewrite N.eqb_refl.
  rewrite drop_while_stop by (assumption || reflexivity).
  rewrite N.eqb_refl.
  rewrite drop_while_stop by (assumption || reflexivity).
  rewrite strip_prefix_app.
  rewrite drop_while_stop by (assumption || reflexivity).
  rewrite N.eqb_refl. reflexivity.
Qed.

Theorem end_sound : forall s rest,
  parse_end_tag s = Some rest ->
  exists w1 w2 w3, mspace_str w1 /\ mspace_str w2 /\ mspace_str w3 /\
                   s = print_end w1 w2 w3 ++ rest.
Proof.
  intros s rest H. unfold parse_end_tag in H.
  destruct s as [|c s1]; [discriminate|].
  destruct (c =? C_LT) eqn:Ec; [|discriminate]. apply N.eqb_eq in Ec. subst c.
  destruct (drop_while is_mspace s1) as [|d s2] eqn:E1; [discriminate|].
  destruct (d =? C_SL) eqn:Ed; [|discriminate]. apply N.eqb_eq in Ed. subst d.
  destruct (strip_prefix (T "block") (drop_while is_mspace s2)) as [s3|] eqn:E2; [|discriminate].
  destruct (drop_while is_mspace s3) as [|e r] eqn:E3; [discriminate|].
  destruct (e =? C_GT) eqn:Ee; [|discriminate]. apply N.eqb_eq in Ee. subst e.
  inversion H; subst r. clear H.
  apply strip_prefix_sound in E2.
  exists (take_while is_mspace s1), (take_while is_mspace s2), (take_while is_mspace s3).
  repeat split; try (apply forallb_Forall; apply take_while_Forall).
  unfold print_end. rewrite <- !app_assoc. cbn [app]. f_equal.
  rewrite <- E3, take_drop, <- E2, take_drop.
  transitivity (take_while is_mspace s1 ++ drop_while is_mspace s1);
    [symmetry; apply take_drop|rewrite E1; reflexivity].
Qed.

(* ---------- 6. look-alikes ---------- *)
Theorem start_needs_prefix : forall s,
  strip_prefix (T "<block") s = None -> parse_start_tag s = None.
Proof. intros s H. unfold parse_start_tag. rewrite H. reflexivity. Qed.

Theorem start_needs_boundary : forall c rest,
  is_mspace c = false -> c <> C_GT -> parse_start_tag (T "<block" ++ c :: rest) = None.
Proof.
  intros c rest Hc Hgt. unfold parse_start_tag. rewrite strip_prefix_app.
  cbn [length parse_attrs].
  assert (E : parse_attr (c :: rest) = None) by (unfold parse_attr; rewrite Hc; reflexivity).
  rewrite E. rewrite drop_while_head_false by exact Hc.
  apply N.eqb_neq in Hgt. rewrite Hgt. reflexivity.
Qed.

Lemma parse_value_unclosed q s : q = C_DQ \/ q = C_SQ -> ~ In q s -> parse_value (q :: s) = None.
Proof.
  intros Hq Hs. unfold parse_value.
  assert (E : (q =? C_DQ) || (q =? C_SQ) = true) by (destruct Hq; subst; reflexivity).
  rewrite E.
  assert (Ha : drop_while (not_char q) s = []).
  { apply drop_while_nil_iff. apply Forall_forall. intros c Hc. unfold not_char.
    destruct (c =? q) eqn:Ecq; [|reflexivity].
    apply N.eqb_eq in Ecq. subst. contradiction. }
  rewrite Ha. reflexivity.
Qed.

Theorem unclosed_quote_rejected : forall ps ws n w1 w2 q s,
  Forall wf_pattr ps -> ws <> [] -> mspace_str ws -> name_str n ->
  mspace_str w1 -> mspace_str w2 -> (q = C_DQ \/ q = C_SQ) -> ~ In q s ->
  parse_start_tag (T "<block" ++ print_attrs ps ++ ws ++ n ++ w1 ++ [C_EQ] ++ w2 ++ [q] ++ s) = None.
Proof.
  intros ps ws n w1 w2 q s Hps Hne Hws Hn Hw1 Hw2 Hq Hs.
  pose proof (mspace_Forall _ Hw1) as F1. pose proof (mspace_Forall _ Hw2) as F2.
  pose (s2 := w1 ++ [C_EQ] ++ w2 ++ [q] ++ s).
  pose (t := ws ++ n ++ s2).
  change (parse_start_tag (T "<block" ++ print_attrs ps ++ t) = None).
  assert (Ht : tail_ok t) by (apply tail_ok_ws_name; assumption).
  assert (Hd2 : drop_while is_mspace s2 = C_EQ :: w2 ++ [q] ++ s).
  { unfold s2. rewrite drop_while_stop by (assumption || reflexivity). reflexivity. }
  assert (Hh2 : headF is_name_char s2).
  { unfold s2. destruct w1 as [|c w1]; cbn [app headF]; [exact eq_not_name|].
    apply mspace_not_name. inversion F1; assumption. }
  assert (Hqm : headF is_mspace ([q] ++ s)) by (destruct Hq; subst; reflexivity).
  assert (E1 : parse_attr t = Some (n, [], s2)).
  { unfold t. rewrite parse_attr_shape by assumption. rewrite Hd2, N.eqb_refl.
    rewrite drop_while_stop by assumption. cbn [app].
    rewrite parse_value_unclosed by assumption. reflexivity. }
  assert (E2 : parse_attr s2 = None).
  { apply parse_attr_none. rewrite Hd2. exact eq_not_name. }
  pose proof (print_attrs_length ps Hps) as Hlen.
  assert (Hk : exists k, (length (print_attrs ps ++ t) - length ps = S (S k))%nat).
  { exists (length (print_attrs ps ++ t) - length ps - 2)%nat.
    unfold t, s2. rewrite !app_length. cbn [length].
    pose proof (nonempty_length ws Hne). pose proof (nonempty_length n (proj1 Hn)). lia. }
  destruct Hk as [k Hk].
  rewrite (start_tag_via ps t (S (S k)) Hps Ht Hk).
  cbn [parse_attrs]. rewrite E1, E2. cbn [fst snd].
  rewrite Hd2. reflexivity.
Qed.

(* ---------- 7. soundness of the start tag ---------- *)
Definition aval_str (v : aval) : str :=
  match v with VNone => [] | VBare s | VSq s | VDq s => s end.

Lemma parse_value_sound s v rest : parse_value s = Some (v, rest) ->
  exists av, s = print_val av ++ rest /\ v = aval_str av /\ av <> VNone /\
    match av with
    | VNone => True
    | VBare s => name_str s
    | VSq s => ~ In C_SQ s
    | VDq s => ~ In C_DQ s
    end.
Proof.
  intros H. unfold parse_value in H. destruct s as [|c r]; [discriminate|].
  destruct ((c =? C_DQ) || (c =? C_SQ)) eqn:Eq.
  - pose proof (take_drop (not_char c) r) as D.
    pose proof (take_while_Forall (not_char c) r) as F.
    destruct (drop_while (not_char c) r) as [|d r'] eqn:Ed; [discriminate|].
    inversion H; subst v r'. clear H.
    assert (d = c).
    { apply drop_while_head in Ed. unfold not_char in Ed.
      destruct (d =? c) eqn:E; [apply N.eqb_eq; exact E|discriminate]. }
    subst d.
    assert (Hin : ~ In c (take_while (not_char c) r)).
    { intros Hin. rewrite Forall_forall in F. apply F in Hin.
      unfold not_char in Hin. rewrite N.eqb_refl in Hin. discriminate. }
    apply orb_true_iff in Eq. destruct Eq as [E|E]; apply N.eqb_eq in E; subst c.
    + exists (VDq (take_while (not_char C_DQ) r)). cbn [print_val aval_str].
      split; [|split; [reflexivity|split; [discriminate|exact Hin]]].
      rewrite <- !app_assoc. cbn [app]. f_equal. symmetry. exact D.
    + exists (VSq (take_while (not_char C_SQ) r)). cbn [print_val aval_str].
      split; [|split; [reflexivity|split; [discriminate|exact Hin]]].
      rewrite <- !app_assoc. cbn [app]. f_equal. symmetry. exact D.
  - pose proof (take_drop is_name_char (c :: r)) as D.
    pose proof (take_while_Forall is_name_char (c :: r)) as F.
    destruct (take_while is_name_char (c :: r)) as [|a l]; [discriminate|].
    inversion H; subst v rest. clear H.
    exists (VBare (a :: l)). cbn [print_val aval_str].
    split; [symmetry; exact D|]. split; [reflexivity|]. split; [discriminate|].
    split; [discriminate|apply forallb_Forall; exact F].
Qed.

Lemma parse_attr_sound s n v rest : parse_attr s = Some (n, v, rest) ->
  exists p, wf_pattr p /\ s = print_attr p ++ rest /\ attr_of p = (n, v).
Proof.
  intros H. unfold parse_attr in H.
  destruct s as [|c r]; [discriminate|].
  destruct (is_mspace c) eqn:Ec; [|discriminate]. cbv zeta in H.
  assert (Hws : take_while is_mspace (c :: r) <> [])
    by (cbn [take_while]; rewrite Ec; discriminate).
  revert H Hws. generalize (c :: r). clear c r Ec. intros s0 H Hws.
  pose proof (take_drop is_mspace s0) as D0.
  pose proof (take_while_Forall is_mspace s0) as Fws.
  set (ws := take_while is_mspace s0) in *.
  set (s1 := drop_while is_mspace s0) in *.
  clearbody ws s1.
  pose proof (take_drop is_name_char s1) as D1.
  pose proof (take_while_Forall is_name_char s1) as Fn.
  destruct (take_while is_name_char s1) as [|a l]; [discriminate|].
  set (s2 := drop_while is_name_char s1) in *. clearbody s2.
  subst s0 s1.
  assert (Hnone : exists p, wf_pattr p /\ ws ++ (a :: l) ++ s2 = print_attr p ++ s2
                            /\ attr_of p = (a :: l, [])).
  { exists {| p_ws := ws; p_name := a :: l; p_w1 := []; p_w2 := []; p_val := VNone |}.
    split; [|split].
    - unfold wf_pattr, name_str, mspace_str; cbn [p_ws p_name p_w1 p_w2 p_val].
      repeat split; try assumption; try discriminate; apply forallb_Forall; assumption.
    - unfold print_attr; cbn [p_ws p_name p_w1 p_w2 p_val].
      rewrite app_nil_r, <- app_assoc. reflexivity.
    - reflexivity. }
  pose proof (take_drop is_mspace s2) as D2.
  pose proof (take_while_Forall is_mspace s2) as F2.
  destruct (drop_while is_mspace s2) as [|e s4].
  { inversion H; subst. exact Hnone. }
  destruct (e =? C_EQ) eqn:Ee; [|inversion H; subst; exact Hnone].
  destruct (parse_value (drop_while is_mspace s4)) as [[v' rest']|] eqn:Ev;
    [|inversion H; subst; exact Hnone].
  inversion H; subst n v' rest'. clear H Hnone. apply N.eqb_eq in Ee. subst e.
  destruct (parse_value_sound _ _ _ Ev) as (av & Es4 & Ev' & Hav & Hwf).
  pose proof (take_drop is_mspace s4) as D4.
  pose proof (take_while_Forall is_mspace s4) as F4.
  rewrite Es4 in D4.
  exists {| p_ws := ws; p_name := a :: l; p_w1 := take_while is_mspace s2;
            p_w2 := take_while is_mspace s4; p_val := av |}.
  split; [|split].
  - unfold wf_pattr, name_str, mspace_str; cbn [p_ws p_name p_w1 p_w2 p_val].
    repeat split; try assumption; try discriminate; try (apply forallb_Forall; assumption).
  - unfold print_attr; cbn [p_ws p_name p_w1 p_w2 p_val].
    assert (E : s2 = take_while is_mspace s2 ++ [C_EQ] ++ take_while is_mspace s4 ++ print_val av ++ rest).
    { rewrite D4. symmetry. exact D2. }
    destruct av; [congruence| | |]; rewrite <- !app_assoc; do 2 f_equal; exact E.
  - unfold attr_of; cbn [p_name p_val]. rewrite Ev'. reflexivity.
Qed.

Lemma parse_attrs_sound : forall fuel s a r, parse_attrs fuel s = (a, r) ->
  exists ps, Forall wf_pattr ps /\ s = print_attrs ps ++ r /\ a = map attr_of ps.
Proof.
  induction fuel as [|f IH]; intros s a r H; cbn [parse_attrs] in H.
  - inversion H; subst. exists []. repeat split. constructor.
  - destruct (parse_attr s) as [[[n v] rest]|] eqn:E.
    + destruct (parse_attrs f rest) as [a' r'] eqn:E'. inversion H; subst a r'. clear H.
      destruct (parse_attr_sound _ _ _ _ E) as (p & Hp & Hs & Ha).
      destruct (IH _ _ _ E') as (ps & Hps & Hs' & Ha').
      exists (p :: ps). split; [constructor; assumption|]. split.
      * rewrite print_attrs_cons, <- app_assoc, <- Hs'. exact Hs.
      * cbn [map]. rewrite Ha, Ha'. reflexivity.
    + inversion H; subst. exists []. repeat split. constructor.
Qed.

Theorem start_sound : forall s a rest,
  parse_start_tag s = Some (a, rest) ->
  exists ps wend, Forall wf_pattr ps /\ mspace_str wend /\
                  s = print_start ps wend ++ rest /\ a = map attr_of ps.
Proof.
  intros s a rest H. unfold parse_start_tag in H.
  destruct (strip_prefix (T "<block") s) as [s1|] eqn:E1; [|discriminate].
  destruct (parse_attrs (length s1) s1) as [a' s2] eqn:E2.
  pose proof (take_drop is_mspace s2) as D2.
  destruct (drop_while is_mspace s2) as [|c r]; [discriminate|].
  destruct (c =? C_GT) eqn:Ec; [|discriminate].
  inversion H; subst a' r. clear H. apply N.eqb_eq in Ec. subst c.
  apply strip_prefix_sound in E1.
  destruct (parse_attrs_sound _ _ _ _ E2) as (ps & Hps & Hs1 & Ha).
  exists ps, (take_while is_mspace s2).
  split; [exact Hps|]. split; [apply forallb_Forall, take_while_Forall|]. split; [|exact Ha].
  unfold print_start. rewrite <- !app_assoc. rewrite E1, Hs1. do 2 f_equal.
  symmetry. exact D2.
Qed.

(* ---------- 8. scanning ---------- *)
Lemma foreign_tail c noise : foreign (c :: noise) -> foreign noise.
Proof.
  intros H pre suf follow E. apply (H (c :: pre) suf follow). rewrite E. reflexivity.
Qed.

Lemma foreign_head noise follow : foreign (C_LT :: noise) ->
  parse_start_tag (C_LT :: noise ++ follow) = None /\
  parse_end_tag (C_LT :: noise ++ follow) = None.
Proof. intros H. apply (H [] noise follow). reflexivity. Qed.

Lemma scan_tag_lt_skip s' off :
  parse_start_tag (C_LT :: s') = None -> parse_end_tag (C_LT :: s') = None ->
  scan_tag (C_LT :: s') off = scan_tag s' (off + 1).
Proof. intros H1 H2. cbn [scan_tag]. rewrite N.eqb_refl, H1, H2. reflexivity. Qed.

Lemma scan_tag_other_skip c s' off :
  (c =? C_LT) = false -> scan_tag (c :: s') off = scan_tag s' (off + u8len c).
Proof. intros H. cbn [scan_tag]. rewrite H. reflexivity. Qed.

Lemma scan_skips_foreign noise : forall t off,
  foreign noise -> scan_tag (noise ++ t) off = scan_tag t (off + blen noise).
Proof.
  induction noise as [|c noise IH]; intros t off Hf.
  - cbn [app blen]. f_equal. lia.
  - pose proof (foreign_tail _ _ Hf) as Hf'.
    destruct (c =? C_LT) eqn:Ec.
    + apply N.eqb_eq in Ec. subst c.
      destruct (foreign_head noise t Hf) as [E1 E2].
      etransitivity; [apply (scan_tag_lt_skip _ off E1 E2)|].
      rewrite IH by exact Hf'. f_equal. cbn [blen]. change (u8len C_LT) with 1. lia.
    + etransitivity; [apply (scan_tag_other_skip c (noise ++ t) off Ec)|].
      rewrite IH by exact Hf'. f_equal. cbn [blen]. lia.
Qed.

Lemma scan_tag_at_start s' a rest off :
  parse_start_tag (C_LT :: s') = Some (a, rest) ->
  scan_tag (C_LT :: s') off =
    Some (TStart off (off + (blen (C_LT :: s') - blen rest)) a, rest,
          off + (blen (C_LT :: s') - blen rest)).
Proof. intros H. cbn [scan_tag]. rewrite N.eqb_refl, H. reflexivity. Qed.

Lemma scan_tag_at_end s' rest off :
  parse_start_tag (C_LT :: s') = None -> parse_end_tag (C_LT :: s') = Some rest ->
  scan_tag (C_LT :: s') off =
    Some (TEnd off, rest, off + (blen (C_LT :: s') - blen rest)).
Proof. intros H1 H2. cbn [scan_tag]. rewrite N.eqb_refl, H1, H2. reflexivity. Qed.

Theorem scan_finds_start : forall noise ps wend post off,
  foreign noise -> Forall wf_pattr ps -> mspace_str wend ->
  scan_tag (noise ++ print_start ps wend ++ post) off =
    Some (TStart (off + blen noise) (off + blen noise + blen (print_start ps wend)) (map attr_of ps),
          post, off + blen noise + blen (print_start ps wend)).
Proof.
  intros noise ps wend post off Hf Hps Hw.
  rewrite scan_skips_foreign by exact Hf.
  pose proof (start_roundtrip ps wend post Hps Hw) as R.
  assert (Es : exists s', print_start ps wend ++ post = C_LT :: s') by (eexists; reflexivity).
  destruct Es as [s' Es]. rewrite Es in R.
  pose proof (blen_app (print_start ps wend) post) as Hb. rewrite Es in Hb.
  rewrite Es, (scan_tag_at_start _ _ _ _ R), Hb.
  replace (blen (print_start ps wend) + blen post - blen post)
    with (blen (print_start ps wend)) by lia.
  reflexivity.
Qed.

Lemma strip_block_second c r : c <> 98 -> strip_prefix (T "<block") (C_LT :: c :: r) = None.
Proof.
  intros H.
  change (strip_prefix (T "<block") (C_LT :: c :: r))
    with (if 98 =? c then strip_prefix [108;111;99;107] r else None).
  assert (E : (98 =? c) = false) by (apply N.eqb_neq; congruence).
  rewrite E. reflexivity.
Qed.

Lemma end_not_start w1 w2 w3 post :
  mspace_str w1 -> parse_start_tag (print_end w1 w2 w3 ++ post) = None.
Proof.
  intros H1. apply mspace_Forall in H1. apply start_needs_prefix.
  unfold print_end. rewrite <- !app_assoc. destruct w1 as [|c w1]; cbn [app].
  - apply strip_block_second. discriminate.
  - apply strip_block_second. inversion H1; subst. apply mspace_not. assumption.
Qed.

Theorem scan_finds_end : forall noise w1 w2 w3 post off,
  foreign noise -> mspace_str w1 -> mspace_str w2 -> mspace_str w3 ->
  scan_tag (noise ++ print_end w1 w2 w3 ++ post) off =
    Some (TEnd (off + blen noise), post, off + blen noise + blen (print_end w1 w2 w3)).
Proof.
  intros noise w1 w2 w3 post off Hf H1 H2 H3.
  rewrite scan_skips_foreign by exact Hf.
  pose proof (end_roundtrip w1 w2 w3 post H1 H2 H3) as R.
  pose proof (end_not_start w1 w2 w3 post H1) as NS.
  assert (Es : exists s', print_end w1 w2 w3 ++ post = C_LT :: s') by (eexists; reflexivity).
  destruct Es as [s' Es]. rewrite Es in R, NS.
  pose proof (blen_app (print_end w1 w2 w3) post) as Hb. rewrite Es in Hb.
  rewrite Es, (scan_tag_at_end _ _ _ NS R), Hb.
  replace (blen (print_end w1 w2 w3) + blen post - blen post)
    with (blen (print_end w1 w2 w3)) by lia.
  reflexivity.
Qed.

Theorem scan_none : forall noise off, foreign noise -> scan_tag noise off = None.
Proof.
  intros noise off Hf. rewrite <- (app_nil_r noise).
  rewrite scan_skips_foreign by exact Hf. reflexivity.
Qed.

(* the form in which statement 2 is used: what follows is whitespace/'>' and
   carries no '=' after its leading whitespace (the next printed attribute, or
   wend ++ ">") *)
Corollary parse_attr_print_tail_ok p rest :
  wf_pattr p -> tail_ok rest ->
  parse_attr (print_attr p ++ rest) = Some (fst (attr_of p), snd (attr_of p), rest).
Proof.
  intros Hp Ht. apply tail_ok_rest in Ht. destruct Ht as [H1 H2].
  apply parse_attr_print; auto.
Qed.

(* ---------- non-vacuity ---------- *)
Definition ex_ps : list pattr :=
  [ {| p_ws := T " "; p_name := T "keep-sorted"; p_w1 := []; p_w2 := T " ";
       p_val := VDq (T "a>b") |};
    {| p_ws := T "  "; p_name := T "n_1"; p_w1 := T " "; p_w2 := []; p_val := VBare (T "x-1") |} ].

Example ex_wf : Forall wf_pattr ex_ps /\ mspace_str (T " ").
Proof.
  split; [|reflexivity].
  repeat constructor; cbn [p_ws p_name p_w1 p_w2 p_val]; try discriminate;
    try (vm_compute; reflexivity).
  vm_compute. intros H. repeat (destruct H as [H|H]; [discriminate|]). exact H.
Qed.

Example ex_printed :
  print_start ex_ps (T " ") = T "<block keep-sorted= ""a>b""  n_1 =x-1 >".
Proof. vm_compute. reflexivity. Qed.

Example ex_roundtrip :
  parse_start_tag (print_start ex_ps (T " ") ++ T "tail") =
    Some ([(T "keep-sorted", T "a>b"); (T "n_1", T "x-1")], T "tail").
Proof. vm_compute. reflexivity. Qed.

(* the same fact as an instance of the theorem *)
Example ex_roundtrip_by_theorem :
  parse_start_tag (print_start ex_ps (T " ") ++ T "tail") = Some (map attr_of ex_ps, T "tail").
Proof. apply start_roundtrip; apply ex_wf. Qed.

Example ex_scan :
  scan_tag (T "x < y " ++ print_start ex_ps (T " ") ++ T "tail") 0 =
    Some (TStart 6 43 (map attr_of ex_ps), T "tail", 43).
Proof. vm_compute. reflexivity. Qed.

(* a look-alike and an unclosed quote, concretely *)
Example ex_lookalikes :
  parse_start_tag (T "<blockquote>") = None /\
  parse_start_tag (T "<block/>") = None /\
  parse_start_tag (T "<block a=""x>") = None /\
  parse_start_tag (T "<block a=""x>"">") = Some ([(T "a", T "x>")], []).
Proof. vm_compute. repeat split; reflexivity. Qed.

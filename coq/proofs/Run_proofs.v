(* Run_proofs.v - facts about the run model (theories/Run.v): exit status and
   severities (C11), the lazy detection loop and --enable/--disable (C14),
   fail-closed behaviour (C13), independence of the visiting order (C20). *)
From BW Require Import Merge.
From BWP Require Import TextFacts Keys_proofs C01_proofs.
From Coq Require Import ZifyBool ZifyN ZifyNat Permutation.
Arguments N.add : simpl never. Arguments N.sub : simpl never. Arguments N.mul : simpl never.
Arguments N.eqb : simpl never. Arguments N.ltb : simpl never. Arguments N.leb : simpl never.

(* ================================================================== *)
(* general list facts                                                  *)
(* ================================================================== *)

Lemma existsb_eqb_In (v : N) l : existsb (N.eqb v) l = true <-> In v l.
Proof.
  rewrite existsb_exists. split.
  - intros (x & Hx & He). apply N.eqb_eq in He. subst. exact Hx.
  - intros H. exists v. split; [exact H|apply N.eqb_refl].
Qed.

Lemma existsb_eqb_false (v : N) l : existsb (N.eqb v) l = false <-> ~ In v l.
Proof.
  rewrite <- existsb_eqb_In. destruct (existsb (N.eqb v) l); split; intros H; congruence.
Qed.

Lemma perm_filter {A} (p : A -> bool) l l' :
  Permutation l l' -> Permutation (filter p l) (filter p l').
Proof.
  induction 1 as [|x l l' Hp IH|x y l|l l' l'' H1 IH1 H2 IH2]; cbn [filter].
  - constructor.
  - destruct (p x); [constructor|]; exact IH.
  - destruct (p x), (p y); try apply Permutation_refl. apply perm_swap.
  - eapply perm_trans; eassumption.
Qed.

Lemma perm_existsb {A} (p : A -> bool) l l' :
  Permutation l l' -> existsb p l = existsb p l'.
Proof.
  intros H. destruct (existsb p l) eqn:E1, (existsb p l') eqn:E2; try reflexivity.
  - apply existsb_exists in E1. destruct E1 as (x & Hx & Hp).
    assert (E : existsb p l' = true).
    { apply existsb_exists. exists x. split; [eapply Permutation_in; eassumption|exact Hp]. }
    congruence.
  - apply existsb_exists in E2. destruct E2 as (x & Hx & Hp).
    assert (E : existsb p l = true).
    { apply existsb_exists. exists x. split; [|exact Hp].
      eapply Permutation_in; [apply Permutation_sym; eassumption|exact Hx]. }
    congruence.
Qed.

Lemma perm_flat_map {A B} (f : A -> list B) l l' :
  Permutation l l' -> Permutation (flat_map f l) (flat_map f l').
Proof.
  induction 1 as [|x l l' Hp IH|x y l|l l' l'' H1 IH1 H2 IH2]; cbn [flat_map].
  - constructor.
  - apply Permutation_app_head. exact IH.
  - rewrite !app_assoc. apply Permutation_app_tail. apply Permutation_app_comm.
  - eapply perm_trans; eassumption.
Qed.

Lemma perm_flat_map_pointwise {A B} (f g : A -> list B) l :
  (forall x, In x l -> Permutation (f x) (g x)) -> Permutation (flat_map f l) (flat_map g l).
Proof.
  induction l as [|x l IH]; intros H; cbn [flat_map]; [constructor|].
  apply Permutation_app.
  - apply H. left; reflexivity.
  - apply IH. intros y Hy. apply H. right; exact Hy.
Qed.

Lemma flat_map_ext_in {A B} (f g : A -> list B) l :
  (forall x, In x l -> f x = g x) -> flat_map f l = flat_map g l.
Proof.
  induction l as [|x l IH]; intros H; cbn [flat_map]; [reflexivity|].
  rewrite (H x (or_introl eq_refl)), IH; [reflexivity|].
  intros y Hy. apply H. right; exact Hy.
Qed.

Lemma filter_app_ {A} (p : A -> bool) l1 l2 : filter p (l1 ++ l2) = filter p l1 ++ filter p l2.
Proof.
  induction l1 as [|x l1 IH]; cbn [filter app]; [reflexivity|].
  destruct (p x); cbn [app]; rewrite IH; reflexivity.
Qed.

Lemma filter_filter {A} (p q : A -> bool) l :
  filter p (filter q l) = filter (fun x => q x && p x) l.
Proof.
  induction l as [|x l IH]; cbn [filter]; [reflexivity|].
  destruct (q x); cbn [filter andb]; [destruct (p x)|]; rewrite IH; reflexivity.
Qed.

Lemma filter_ext_in_ {A} (p q : A -> bool) l :
  (forall x, In x l -> p x = q x) -> filter p l = filter q l.
Proof.
  induction l as [|x l IH]; intros H; cbn [filter]; [reflexivity|].
  rewrite (H x (or_introl eq_refl)), IH; [reflexivity|].
  intros y Hy. apply H. right; exact Hy.
Qed.

Lemma filter_all_true {A} (p : A -> bool) l : (forall x, In x l -> p x = true) -> filter p l = l.
Proof.
  induction l as [|x l IH]; intros H; cbn [filter]; [reflexivity|].
  rewrite (H x (or_introl eq_refl)), IH; [reflexivity|].
  intros y Hy. apply H. right; exact Hy.
Qed.

Lemma filter_all_false {A} (p : A -> bool) l : (forall x, In x l -> p x = false) -> filter p l = [].
Proof.
  induction l as [|x l IH]; intros H; cbn [filter]; [reflexivity|].
  rewrite (H x (or_introl eq_refl)). apply IH.
  intros y Hy. apply H. right; exact Hy.
Qed.

Lemma filter_rev_perm {A} (p : A -> bool) l : Permutation (filter p (rev l)) (filter p l).
Proof. apply perm_filter. apply Permutation_sym, Permutation_rev. Qed.

(* filter distributes over flat_map *)
Lemma filter_flat_map {A B} (p : B -> bool) (f : A -> list B) l :
  filter p (flat_map f l) = flat_map (fun x => filter p (f x)) l.
Proof.
  induction l as [|x l IH]; cbn [flat_map]; [reflexivity|].
  rewrite filter_app_, IH. reflexivity.
Qed.

(* flat_map over a filtered list *)
Lemma flat_map_filter {A B} (q : A -> bool) (f : A -> list B) l :
  flat_map f (filter q l) = flat_map (fun x => if q x then f x else []) l.
Proof.
  induction l as [|x l IH]; cbn [flat_map filter]; [reflexivity|].
  destruct (q x); cbn [flat_map app]; rewrite IH; reflexivity.
Qed.

(* ================================================================== *)
(* PART 1 - exit status and severities (C11)                           *)
(* ================================================================== *)

(* ---------- 1a ---------- *)
Lemma has_error_iff r :
  has_error r = true <-> exists pd, In pd (vr_diags r) /\ d_sev (snd pd) = 1.
Proof.
  unfold has_error. rewrite existsb_exists.
  split; intros (pd & H1 & H2); exists pd; (split; [exact H1|]).
  - apply N.eqb_eq. exact H2.
  - apply N.eqb_eq. exact H2.
Qed.

Theorem exit_iff_error : forall r,
  exit_code r = 1 <->
  (vr_errs r <> [] \/ exists pd, In pd (vr_diags r) /\ d_sev (snd pd) = 1).
Proof.
  intros r. unfold exit_code. destruct (vr_errs r) as [|e es] eqn:E.
  - destruct (has_error r) eqn:H.
    + split; [|reflexivity]. intros _. right. apply has_error_iff. exact H.
    + split; [discriminate|]. intros [Hc|Hc]; [congruence|].
      apply has_error_iff in Hc. congruence.
  - split; [|reflexivity]. intros _. left. discriminate.
Qed.

Theorem exit_zero_or_one : forall r, exit_code r = 0 \/ exit_code r = 1.
Proof.
  intros r. unfold exit_code. destruct (vr_errs r); [|right; reflexivity].
  destruct (has_error r); [right|left]; reflexivity.
Qed.

(* ---------- 1b ---------- *)
Theorem sev_default : forall a, get_attr (T "severity") a = None -> sev_of a = Ok 1.
Proof. intros a H. unfold sev_of. rewrite H. reflexivity. Qed.

Theorem sev_error : forall a s, get_attr (T "severity") a = Some s ->
  eq_ignore_ascii_case s (T "error") = true -> sev_of a = Ok 1.
Proof.
  intros a s H He. unfold sev_of. rewrite H. unfold eq_ignore_ascii_case in He.
  change (str_ascii_lower (T "error")) with (T "error") in He.
  cbv zeta. rewrite He. reflexivity.
Qed.

Theorem sev_warning : forall a s, get_attr (T "severity") a = Some s ->
  eq_ignore_ascii_case s (T "warning") = true -> sev_of a = Ok 2.
Proof.
  intros a s H He. unfold sev_of. rewrite H. unfold eq_ignore_ascii_case in He.
  change (str_ascii_lower (T "warning")) with (T "warning") in He.
  cbv zeta. apply str_eqb_eq in He. rewrite He. vm_compute. reflexivity.
Qed.

Theorem sev_info : forall a s, get_attr (T "severity") a = Some s ->
  eq_ignore_ascii_case s (T "info") = true -> sev_of a = Ok 3.
Proof.
  intros a s H He. unfold sev_of. rewrite H. unfold eq_ignore_ascii_case in He.
  change (str_ascii_lower (T "info")) with (T "info") in He.
  cbv zeta. apply str_eqb_eq in He. rewrite He. vm_compute. reflexivity.
Qed.

Theorem sev_hint : forall a s, get_attr (T "severity") a = Some s ->
  eq_ignore_ascii_case s (T "hint") = true -> sev_of a = Ok 4.
Proof.
  intros a s H He. unfold sev_of. rewrite H. unfold eq_ignore_ascii_case in He.
  change (str_ascii_lower (T "hint")) with (T "hint") in He.
  cbv zeta. apply str_eqb_eq in He. rewrite He. vm_compute. reflexivity.
Qed.

Theorem sev_unknown : forall a s, get_attr (T "severity") a = Some s ->
  eq_ignore_ascii_case s (T "error") = false ->
  eq_ignore_ascii_case s (T "warning") = false ->
  eq_ignore_ascii_case s (T "info") = false ->
  eq_ignore_ascii_case s (T "hint") = false ->
  sev_of a = Err E_SEVERITY.
Proof.
  intros a s H He Hw Hi Hh. unfold sev_of. rewrite H. unfold eq_ignore_ascii_case in *.
  change (str_ascii_lower (T "error")) with (T "error") in He.
  change (str_ascii_lower (T "warning")) with (T "warning") in Hw.
  change (str_ascii_lower (T "info")) with (T "info") in Hi.
  change (str_ascii_lower (T "hint")) with (T "hint") in Hh.
  cbv zeta. rewrite He, Hw, Hi, Hh. reflexivity.
Qed.

(* the severity, when there is one, is one of 1..4 *)
Lemma sev_of_range a s : sev_of a = Ok s -> s = 1 \/ s = 2 \/ s = 3 \/ s = 4.
Proof.
  unfold sev_of. destruct (get_attr _ a) as [v|]; cbv zeta.
  - destruct (str_eqb _ (T "error")); [intros H; inversion H; auto|].
    destruct (str_eqb _ (T "warning")); [intros H; inversion H; auto|].
    destruct (str_eqb _ (T "info")); [intros H; inversion H; auto|].
    destruct (str_eqb _ (T "hint")); [intros H; inversion H; auto 6|discriminate].
  - intros H; inversion H; auto.
Qed.

(* ---------- 1c ---------- *)
(* peel one layer of a computation in the res monad that is known to be Ok *)
Ltac res_step H :=
  cbv zeta in H;
  match type of H with
  | bind ?r _ = Ok _ =>
      let E := fresh "E" in
      destruct r eqn:E; cbn [bind] in H; [|discriminate H|discriminate H]
  | match ?x with _ => _ end = Ok _ =>
      let E := fresh "E" in destruct x eqn:E; try discriminate H
  end.

Ltac res_done H Hd :=
  match type of H with
  | Ok [] = Ok _ => injection H as <-; destruct Hd
  | Ok [_] = Ok _ => injection H as <-; destruct Hd as [<-|[]]; reflexivity
  end.

Lemma keep_sorted_code o file b ds d :
  keep_sorted o file b = Ok ds -> In d ds -> d_code d = V_SORTED.
Proof.
  intros H Hd. unfold keep_sorted in H. repeat res_step H; res_done H Hd.
Qed.

Lemma keep_unique_code o file b ds d :
  keep_unique o file b = Ok ds -> In d ds -> d_code d = V_UNIQUE.
Proof.
  intros H Hd. unfold keep_unique in H. repeat res_step H; res_done H Hd.
Qed.

Lemma line_pattern_code o file b ds d :
  line_pattern o file b = Ok ds -> In d ds -> d_code d = V_PATTERN.
Proof.
  intros H Hd. unfold line_pattern in H. repeat res_step H; res_done H Hd.
Qed.

Lemma line_count_code file b ds d :
  line_count file b = Ok ds -> In d ds -> d_code d = V_COUNT.
Proof.
  intros H Hd. unfold line_count in H. repeat res_step H; res_done H Hd.
Qed.

Lemma check_ai_code o file b ds d :
  check_ai_block o file b = Ok ds -> In d ds -> d_code d = V_AI.
Proof.
  intros H Hd. unfold check_ai_block in H. repeat res_step H; res_done H Hd.
Qed.

Lemma check_lua_code o path file b ds d :
  check_lua_block o path file b = Ok ds -> In d ds -> d_code d = V_LUA.
Proof.
  intros H Hd. unfold check_lua_block in H. repeat res_step H; res_done H Hd.
Qed.

Lemma affects_code nm path bc ds d :
  affects_block nm path bc = Ok ds -> In d ds -> d_code d = V_AFFECTS.
Proof.
  intros H Hd. unfold affects_block in H.
  destruct (bc_contmod bc); [|injection H as <-; destruct Hd].
  destruct (get_attr _ _) as [v|]; [|injection H as <-; destruct Hd].
  destruct (parse_affects_attribute v) as [refs| |]; cbn [bind] in H; try discriminate H.
  cbv zeta in H.
  destruct (filter _ _) as [|m ms]; [injection H as <-; destruct Hd|].
  destruct (sev_of _) as [sev| |]; cbn [bind] in H; try discriminate H.
  injection H as <-. destruct Hd as [<-|Hd]; [reflexivity|].
  apply in_map_iff in Hd. destruct Hd as (r & <- & _). reflexivity.
Qed.

(* validate_block dispatches on the code *)
Lemma validate_block_0 o nm f bc : validate_block o nm 0 f bc = affects_block nm (fc_path f) bc.
Proof. reflexivity. Qed.
Lemma validate_block_1 o nm f bc : validate_block o nm 1 f bc = keep_sorted o (fc_text f) (bc_block bc).
Proof. reflexivity. Qed.
Lemma validate_block_2 o nm f bc : validate_block o nm 2 f bc = keep_unique o (fc_text f) (bc_block bc).
Proof. reflexivity. Qed.
Lemma validate_block_3 o nm f bc : validate_block o nm 3 f bc = line_pattern o (fc_text f) (bc_block bc).
Proof. reflexivity. Qed.
Lemma validate_block_4 o nm f bc : validate_block o nm 4 f bc = line_count (fc_text f) (bc_block bc).
Proof. reflexivity. Qed.
Lemma validate_block_5 o nm f bc : validate_block o nm 5 f bc = check_ai_block o (fc_text f) (bc_block bc).
Proof. reflexivity. Qed.
Lemma validate_block_6 o nm f bc :
  validate_block o nm 6 f bc = check_lua_block o (fc_path f) (fc_text f) (bc_block bc).
Proof. reflexivity. Qed.

Lemma all_validators_cases v :
  In v all_validators -> v = 0 \/ v = 1 \/ v = 2 \/ v = 3 \/ v = 4 \/ v = 5 \/ v = 6.
Proof.
  unfold all_validators. cbn [In]. intros H.
  repeat (destruct H as [H|H]; [subst; auto 10|]). destruct H.
Qed.

Theorem validate_block_code : forall o nm v f bc ds d,
  In v all_validators -> validate_block o nm v f bc = Ok ds -> In d ds -> d_code d = v.
Proof.
  intros o nm v f bc ds d Hv H Hd.
  apply all_validators_cases in Hv.
  destruct Hv as [->|[->|[->|[->|[->|[->| ->]]]]]].
  - rewrite validate_block_0 in H. exact (affects_code _ _ _ _ _ H Hd).
  - rewrite validate_block_1 in H. exact (keep_sorted_code _ _ _ _ _ H Hd).
  - rewrite validate_block_2 in H. exact (keep_unique_code _ _ _ _ _ H Hd).
  - rewrite validate_block_3 in H. exact (line_pattern_code _ _ _ _ _ H Hd).
  - rewrite validate_block_4 in H. exact (line_count_code _ _ _ _ H Hd).
  - rewrite validate_block_5 in H. exact (check_ai_code _ _ _ _ _ H Hd).
  - rewrite validate_block_6 in H. exact (check_lua_code _ _ _ _ _ _ H Hd).
Qed.

(* what a fold of vres_app collects *)
Lemma fold_vres_diags l :
  vr_diags (fold_right vres_app vres_empty l) = flat_map vr_diags l.
Proof.
  induction l as [|r l IH]; cbn [fold_right flat_map]; [reflexivity|].
  cbn [vres_app vr_diags]. rewrite IH. reflexivity.
Qed.
Lemma fold_vres_errs l :
  vr_errs (fold_right vres_app vres_empty l) = flat_map vr_errs l.
Proof.
  induction l as [|r l IH]; cbn [fold_right flat_map]; [reflexivity|].
  cbn [vres_app vr_errs]. rewrite IH. reflexivity.
Qed.
Lemma fold_vres_panic l :
  vr_panic (fold_right vres_app vres_empty l) = existsb vr_panic l.
Proof.
  induction l as [|r l IH]; cbn [fold_right existsb]; [reflexivity|].
  cbn [vres_app vr_panic]. rewrite IH. reflexivity.
Qed.

(* the pre-pass errors and the per-block results of one validator *)
Definition prepass_errs (v : N) (ctx : context) : list N :=
  flat_map (fun f => flat_map (fun bc =>
    match prepass_block v bc with Err e => [e] | _ => [] end) (fc_blocks f)) ctx.
Definition block_results (o : oracles) (nm : list (str * str)) (v : N) (ctx : context) : list vresult :=
  flat_map (fun f => map (fun bc => vres_of (fc_path f) (validate_block o nm v f bc))
                         (fc_blocks f)) ctx.

Lemma run_validator_unfold o ctx v :
  run_validator o ctx v =
  match prepass_errs v ctx with
  | _ :: _ => {| vr_diags := []; vr_errs := prepass_errs v ctx; vr_panic := false |}
  | [] => fold_right vres_app vres_empty (block_results o (named_modified ctx) v ctx)
  end.
Proof. reflexivity. Qed.

Lemma in_block_results o nm v ctx r :
  In r (block_results o nm v ctx) <->
  exists f bc, In f ctx /\ In bc (fc_blocks f) /\ r = vres_of (fc_path f) (validate_block o nm v f bc).
Proof.
  unfold block_results. rewrite in_flat_map. split.
  - intros (f & Hf & Hr). apply in_map_iff in Hr. destruct Hr as (bc & <- & Hbc). eauto.
  - intros (f & bc & Hf & Hbc & ->). exists f. split; [exact Hf|].
    apply in_map_iff. eauto.
Qed.

Theorem run_validator_code : forall o ctx v pd,
  In v all_validators -> In pd (vr_diags (run_validator o ctx v)) -> d_code (snd pd) = v.
Proof.
  intros o ctx v pd Hv Hin. rewrite run_validator_unfold in Hin.
  destruct (prepass_errs v ctx) as [|e es]; [|destruct Hin].
  rewrite fold_vres_diags in Hin. apply in_flat_map in Hin. destruct Hin as (r & Hr & Hin).
  apply in_block_results in Hr. destruct Hr as (f & bc & Hf & Hbc & ->).
  destruct (validate_block o (named_modified ctx) v f bc) as [ds| |] eqn:E;
    cbn [vres_of vr_diags] in Hin; try destruct Hin.
  apply in_map_iff in Hin. destruct Hin as (d & <- & Hd). cbn [snd].
  exact (validate_block_code _ _ _ _ _ _ _ Hv E Hd).
Qed.

(* ---------- 1d ---------- *)
Theorem run_validators_diags : forall o ctx vs,
  vr_diags (run_validators o ctx vs) = flat_map (fun v => vr_diags (run_validator o ctx v)) vs.
Proof.
  intros o ctx vs. unfold run_validators. rewrite fold_vres_diags.
  induction vs as [|v vs IH]; cbn [map flat_map]; [reflexivity|]. rewrite IH. reflexivity.
Qed.

Theorem run_validators_errs : forall o ctx vs,
  vr_errs (run_validators o ctx vs) = flat_map (fun v => vr_errs (run_validator o ctx v)) vs.
Proof.
  intros o ctx vs. unfold run_validators. rewrite fold_vres_errs.
  induction vs as [|v vs IH]; cbn [map flat_map]; [reflexivity|]. rewrite IH. reflexivity.
Qed.

Theorem run_validators_panic : forall o ctx vs,
  vr_panic (run_validators o ctx vs) = existsb (fun v => vr_panic (run_validator o ctx v)) vs.
Proof.
  intros o ctx vs. unfold run_validators. rewrite fold_vres_panic.
  induction vs as [|v vs IH]; cbn [map existsb]; [reflexivity|]. rewrite IH. reflexivity.
Qed.

(* the exit status only depends on the multisets of diagnostics and errors *)
Lemma exit_code_perm r r' :
  Permutation (vr_diags r) (vr_diags r') -> Permutation (vr_errs r) (vr_errs r') ->
  exit_code r = exit_code r'.
Proof.
  intros Hd He. unfold exit_code, has_error.
  rewrite (perm_existsb _ _ _ Hd).
  destruct (vr_errs r) as [|e es] eqn:E1, (vr_errs r') as [|e' es'] eqn:E2; try reflexivity.
  - apply Permutation_nil in He. discriminate He.
  - apply Permutation_sym, Permutation_nil in He. discriminate He.
Qed.

Theorem run_validators_perm : forall o ctx vs vs', Permutation vs vs' ->
  Permutation (vr_diags (run_validators o ctx vs)) (vr_diags (run_validators o ctx vs')) /\
  Permutation (vr_errs (run_validators o ctx vs)) (vr_errs (run_validators o ctx vs')) /\
  exit_code (run_validators o ctx vs) = exit_code (run_validators o ctx vs').
Proof.
  intros o ctx vs vs' H.
  assert (Hd : Permutation (vr_diags (run_validators o ctx vs)) (vr_diags (run_validators o ctx vs'))).
  { rewrite !run_validators_diags. apply perm_flat_map. exact H. }
  assert (He : Permutation (vr_errs (run_validators o ctx vs)) (vr_errs (run_validators o ctx vs'))).
  { rewrite !run_validators_errs. apply perm_flat_map. exact H. }
  split; [exact Hd|]. split; [exact He|]. apply exit_code_perm; assumption.
Qed.

(* ================================================================== *)
(* PART 2 - detection loop and --enable / --disable (C14)              *)
(* ================================================================== *)

(* ---------- 2a ---------- *)
Theorem active_validators_spec : forall en dis v,
  In v (active_validators en dis) <->
  In v all_validators /\ (match en with [] => ~ In v dis | _ => In v en end).
Proof.
  intros en dis v. unfold active_validators. rewrite filter_In.
  destruct en as [|e en'].
  - rewrite negb_true_iff, existsb_eqb_false. reflexivity.
  - rewrite existsb_eqb_In. reflexivity.
Qed.

Lemma all_validators_nodup : NoDup all_validators.
Proof.
  unfold all_validators.
  repeat (constructor;
          [cbn [In]; intros H; repeat (destruct H as [H|H]; [discriminate H|]); exact H|]).
  constructor.
Qed.

Theorem active_nodup : forall en dis, NoDup (active_validators en dis).
Proof. intros en dis. unfold active_validators. apply NoDup_filter. exact all_validators_nodup. Qed.

Lemma active_subset en dis v : In v (active_validators en dis) -> In v all_validators.
Proof. intros H. apply active_validators_spec in H. tauto. Qed.

(* repeated --enable flags accumulate as a set union *)
Theorem active_enable_union : forall a b v, a <> [] -> b <> [] ->
  (In v (active_validators (a ++ b) []) <->
   In v (active_validators a []) \/ In v (active_validators b [])).
Proof.
  intros a b v Ha Hb. rewrite !active_validators_spec.
  destruct a as [|x a]; [congruence|]. destruct b as [|y b]; [congruence|].
  pose proof (in_app_iff (x :: a) (y :: b) v) as Happ.
  cbn [app] in *. tauto.
Qed.

(* repeated --disable flags: a validator stays iff no flag removes it *)
Theorem active_disable_union : forall a b v,
  In v (active_validators [] (a ++ b)) <->
  In v (active_validators [] a) /\ In v (active_validators [] b).
Proof.
  intros a b v. rewrite !active_validators_spec, in_app_iff. tauto.
Qed.

(* ---------- 2b ---------- *)
Lemma try_detectors_spec bc : forall ds und det,
  try_detectors ds bc und det =
  (und ++ filter (fun d => negb (detects d bc)) ds, det ++ filter (fun d => detects d bc) ds).
Proof.
  induction ds as [|d ds IH]; intros und det; cbn [try_detectors filter].
  - rewrite !app_nil_r. reflexivity.
  - destruct (detects d bc); cbn [negb]; rewrite IH, <- app_assoc; reflexivity.
Qed.

Lemma filter_nil_forall {A} (p : A -> bool) l : filter p l = [] -> forall x, In x l -> p x = false.
Proof.
  intros H x Hx. destruct (p x) eqn:E; [|reflexivity].
  assert (Hin : In x (filter p l)) by (apply filter_In; auto). rewrite H in Hin. destruct Hin.
Qed.

Lemma filter_split_perm {A} (p q : A -> bool) l :
  Permutation (filter p l ++ filter q (filter (fun x => negb (p x)) l))
              (filter (fun x => p x || q x) l).
Proof.
  induction l as [|x l IH]; cbn [filter app]; [constructor|].
  destruct (p x); cbn [negb orb app].
  - constructor. exact IH.
  - cbn [filter]. destruct (q x).
    + apply Permutation_sym. eapply perm_trans; [|apply Permutation_middle].
      constructor. apply Permutation_sym. exact IH.
    + exact IH.
Qed.

(* invariant of the loop: what was detected so far, followed by those pending
   detectors that fire on one of the remaining blocks *)
Lemma detect_loop_gen : forall order pending detected,
  Permutation (detect_loop pending order detected)
              (detected ++ filter (fun v => existsb (detects v) order) pending).
Proof.
  induction order as [|bc order IH]; intros pending detected; cbn [detect_loop].
  - rewrite filter_all_false by reflexivity. rewrite app_nil_r. apply Permutation_refl.
  - rewrite try_detectors_spec. cbn [app].
    destruct (filter (fun d => negb (detects d bc)) (rev pending)) as [|u us] eqn:EU.
    + apply Permutation_app_head.
      pose proof (filter_nil_forall _ _ EU) as Hall.
      rewrite filter_all_true.
      2:{ intros x Hx. specialize (Hall x Hx). apply negb_false_iff in Hall. exact Hall. }
      rewrite filter_all_true.
      2:{ intros x Hx. cbn [existsb]. rewrite in_rev in Hx. specialize (Hall x Hx).
          apply negb_false_iff in Hall. rewrite Hall. reflexivity. }
      apply Permutation_sym, Permutation_rev.
    + eapply perm_trans; [apply IH|]. rewrite <- EU, <- app_assoc.
      apply Permutation_app_head.
      eapply perm_trans; [apply filter_split_perm|].
      cbn [existsb]. apply filter_rev_perm.
Qed.

(* the NoDup hypothesis is not needed; it is kept to match the intended statement *)
Theorem detect_loop_exact : forall pending order, NoDup pending ->
  Permutation (detect_loop pending order [])
              (filter (fun v => existsb (detects v) order) pending).
Proof. intros pending order _. exact (detect_loop_gen order pending []). Qed.

Corollary detected_validators_exact : forall en dis ctx,
  Permutation (detected_validators en dis ctx)
              (filter (fun v => existsb (detects v) (all_blocks ctx)) (active_validators en dis)).
Proof. intros en dis ctx. apply detect_loop_exact. apply active_nodup. Qed.

(* each detected validator appears once *)
Corollary detected_validators_nodup : forall en dis ctx, NoDup (detected_validators en dis ctx).
Proof.
  intros en dis ctx.
  eapply Permutation_NoDup; [apply Permutation_sym, detected_validators_exact|].
  apply NoDup_filter, active_nodup.
Qed.

(* ---------- 2c ---------- *)
Lemma has_attr_false k a : has_attr k a = false -> get_attr k a = None.
Proof. unfold has_attr. destruct (get_attr k a); [discriminate|reflexivity]. Qed.

Lemma detects_false_prepass v bc :
  In v all_validators -> detects v bc = false -> prepass_block v bc = Ok tt.
Proof.
  intros Hv H. apply all_validators_cases in Hv.
  destruct Hv as [->|[->|[->|[->|[->|[->| ->]]]]]]; try reflexivity.
  - change (has_attr (T "check-ai") (b_attrs (bc_block bc)) = false) in H.
    apply has_attr_false in H.
    change (prepass_block 5 bc) with
      (match get_attr (T "check-ai") (b_attrs (bc_block bc)) with
       | Some p => match trim p with [] => Err E_AI_EMPTY | _ => Ok tt end
       | None => Ok tt end).
    rewrite H. reflexivity.
  - change (has_attr (T "check-lua") (b_attrs (bc_block bc)) = false) in H.
    apply has_attr_false in H.
    change (prepass_block 6 bc) with
      (match get_attr (T "check-lua") (b_attrs (bc_block bc)) with
       | Some p => match trim p with [] => Err E_LUA_EMPTY | _ => Ok tt end
       | None => Ok tt end).
    rewrite H. reflexivity.
Qed.

Lemma detects_false_validate o nm v f bc :
  In v all_validators -> detects v bc = false -> validate_block o nm v f bc = Ok [].
Proof.
  intros Hv H. apply all_validators_cases in Hv.
  destruct Hv as [->|[->|[->|[->|[->|[->| ->]]]]]].
  - rewrite validate_block_0.
    change (bc_contmod bc && has_attr (T "affects") (b_attrs (bc_block bc)) = false) in H.
    unfold affects_block. destruct (bc_contmod bc); [|reflexivity].
    cbn [andb] in H. apply has_attr_false in H. rewrite H. reflexivity.
  - rewrite validate_block_1.
    change (has_attr (T "keep-sorted") (b_attrs (bc_block bc)) = false) in H.
    apply has_attr_false in H. unfold keep_sorted. rewrite H. reflexivity.
  - rewrite validate_block_2.
    change (has_attr (T "keep-unique") (b_attrs (bc_block bc)) = false) in H.
    apply has_attr_false in H. unfold keep_unique. rewrite H. reflexivity.
  - rewrite validate_block_3.
    change (has_attr (T "line-pattern") (b_attrs (bc_block bc)) = false) in H.
    apply has_attr_false in H. unfold line_pattern. rewrite H. reflexivity.
  - rewrite validate_block_4.
    change (has_attr (T "line-count") (b_attrs (bc_block bc)) = false) in H.
    apply has_attr_false in H. unfold line_count. rewrite H. reflexivity.
  - rewrite validate_block_5.
    change (has_attr (T "check-ai") (b_attrs (bc_block bc)) = false) in H.
    apply has_attr_false in H. unfold check_ai_block. rewrite H. reflexivity.
  - rewrite validate_block_6.
    change (has_attr (T "check-lua") (b_attrs (bc_block bc)) = false) in H.
    apply has_attr_false in H. unfold check_lua_block. rewrite H. reflexivity.
Qed.

Lemma existsb_false_forall {A} (p : A -> bool) l :
  existsb p l = false -> forall x, In x l -> p x = false.
Proof.
  intros H x Hx. destruct (p x) eqn:E; [|reflexivity].
  assert (Ht : existsb p l = true) by (apply existsb_exists; eauto). congruence.
Qed.

Lemma flat_map_nil {A B} (f : A -> list B) l : (forall x, In x l -> f x = []) -> flat_map f l = [].
Proof.
  induction l as [|x l IH]; intros H; cbn [flat_map]; [reflexivity|].
  rewrite (H x (or_introl eq_refl)), IH; [reflexivity|].
  intros y Hy. apply H. right; exact Hy.
Qed.

Lemma in_all_blocks ctx bc : In bc (all_blocks ctx) <-> exists f, In f ctx /\ In bc (fc_blocks f).
Proof. unfold all_blocks. apply in_flat_map. Qed.

Theorem undetected_silent : forall o ctx v,
  In v all_validators -> existsb (detects v) (all_blocks ctx) = false ->
  vr_diags (run_validator o ctx v) = [] /\ vr_errs (run_validator o ctx v) = [] /\
  vr_panic (run_validator o ctx v) = false.
Proof.
  intros o ctx v Hv Hnone.
  assert (Hall : forall f bc, In f ctx -> In bc (fc_blocks f) -> detects v bc = false).
  { intros f bc Hf Hbc. apply (existsb_false_forall _ _ Hnone). apply in_all_blocks. eauto. }
  rewrite run_validator_unfold.
  assert (Hpre : prepass_errs v ctx = []).
  { unfold prepass_errs. apply flat_map_nil. intros f Hf. apply flat_map_nil. intros bc Hbc.
    rewrite (detects_false_prepass v bc Hv (Hall f bc Hf Hbc)). reflexivity. }
  rewrite Hpre.
  assert (Hres : forall r, In r (block_results o (named_modified ctx) v ctx) ->
                 vr_diags r = [] /\ vr_errs r = [] /\ vr_panic r = false).
  { intros r Hr. apply in_block_results in Hr. destruct Hr as (f & bc & Hf & Hbc & ->).
    rewrite (detects_false_validate o _ v f bc Hv (Hall f bc Hf Hbc)).
    cbn [vres_of map vr_diags vr_errs vr_panic]. auto. }
  rewrite fold_vres_diags, fold_vres_errs, fold_vres_panic.
  split; [|split].
  - apply flat_map_nil. intros r Hr. apply (Hres r Hr).
  - apply flat_map_nil. intros r Hr. apply (Hres r Hr).
  - destruct (existsb vr_panic _) eqn:E; [|reflexivity].
    apply existsb_exists in E. destruct E as (r & Hr & Hp).
    destruct (Hres r Hr) as (_ & _ & Hf). congruence.
Qed.

(* ---------- 2d ---------- *)
(* filtering the concatenated reports by code keeps exactly the parts of the
   chosen validators *)
Lemma filter_code_flat_map o ctx (q : N -> bool) l :
  (forall v, In v l -> In v all_validators) ->
  filter (fun pd => q (d_code (snd pd))) (flat_map (fun v => vr_diags (run_validator o ctx v)) l) =
  flat_map (fun v => vr_diags (run_validator o ctx v)) (filter q l).
Proof.
  intros Hsub. rewrite filter_flat_map, flat_map_filter. apply flat_map_ext_in.
  intros v Hv. destruct (q v) eqn:E.
  - apply filter_all_true. intros pd Hpd.
    rewrite (run_validator_code o ctx v pd (Hsub v Hv) Hpd). exact E.
  - apply filter_all_false. intros pd Hpd.
    rewrite (run_validator_code o ctx v pd (Hsub v Hv) Hpd). exact E.
Qed.

Definition fires (ctx : context) (v : N) : bool := existsb (detects v) (all_blocks ctx).

Lemma run_detected_diags o ctx en dis :
  Permutation (vr_diags (run_validators o ctx (detected_validators en dis ctx)))
              (flat_map (fun v => vr_diags (run_validator o ctx v))
                        (filter (fires ctx) (active_validators en dis))).
Proof.
  rewrite run_validators_diags. apply perm_flat_map. apply detected_validators_exact.
Qed.

Lemma fired_active_subset ctx en dis v :
  In v (filter (fires ctx) (active_validators en dis)) -> In v all_validators.
Proof. intros H. apply filter_In in H. destruct H as [H _]. exact (active_subset _ _ _ H). Qed.

Theorem disable_removes_exactly : forall o ctx dis V, In V all_validators ->
  Permutation
    (vr_diags (run_validators o ctx (detected_validators [] (V :: dis) ctx)))
    (filter (fun pd => negb (d_code (snd pd) =? V))
            (vr_diags (run_validators o ctx (detected_validators [] dis ctx)))).
Proof.
  intros o ctx dis V _.
  eapply perm_trans; [apply run_detected_diags|].
  apply Permutation_sym.
  eapply perm_trans; [apply perm_filter, run_detected_diags|].
  rewrite (filter_code_flat_map o ctx (fun c => negb (c =? V))) by apply fired_active_subset.
  unfold active_validators. rewrite !filter_filter.
  erewrite filter_ext_in_; [apply Permutation_refl|].
  intros x _. cbn [existsb].
  destruct (x =? V), (existsb (N.eqb x) dis), (fires ctx x); reflexivity.
Qed.

Theorem enable_keeps_exactly : forall o ctx en, en <> [] ->
  (forall v, In v en -> In v all_validators) ->
  Permutation
    (vr_diags (run_validators o ctx (detected_validators en [] ctx)))
    (filter (fun pd => existsb (N.eqb (d_code (snd pd))) en)
            (vr_diags (run_validators o ctx (detected_validators [] [] ctx)))).
Proof.
  intros o ctx en Hne _.
  eapply perm_trans; [apply run_detected_diags|].
  apply Permutation_sym.
  eapply perm_trans; [apply perm_filter, run_detected_diags|].
  rewrite (filter_code_flat_map o ctx (fun c => existsb (N.eqb c) en)) by apply fired_active_subset.
  unfold active_validators. rewrite !filter_filter.
  destruct en as [|e en']; [congruence|].
  erewrite filter_ext_in_; [apply Permutation_refl|].
  intros x _. cbn [existsb negb andb].
  destruct (x =? e), (existsb (N.eqb x) en'), (fires ctx x); reflexivity.
Qed.

(* ================================================================== *)
(* PART 3 - fail closed (C13) and order independence (C20)             *)
(* ================================================================== *)

(* ---------- 3a ---------- *)
Lemma flat_map_nonempty {A B} (f : A -> list B) l x :
  In x l -> f x <> [] -> flat_map f l <> [].
Proof.
  intros Hx Hf E. destruct (f x) as [|y ys] eqn:Efx; [congruence|].
  assert (Hin : In y (flat_map f l)).
  { apply in_flat_map. exists x. split; [exact Hx|]. rewrite Efx. left; reflexivity. }
  rewrite E in Hin. destruct Hin.
Qed.

Theorem any_error_fails_run : forall o ctx vs v,
  In v vs -> vr_errs (run_validator o ctx v) <> [] ->
  exit_code (run_validators o ctx vs) = 1 /\ vr_errs (run_validators o ctx vs) <> [].
Proof.
  intros o ctx vs v Hv He.
  assert (Hne : vr_errs (run_validators o ctx vs) <> []).
  { rewrite run_validators_errs.
    exact (flat_map_nonempty (fun v => vr_errs (run_validator o ctx v)) vs v Hv He). }
  split; [|exact Hne]. apply exit_iff_error. left. exact Hne.
Qed.

(* ---------- 3b ---------- *)
Theorem keep_sorted_bad_direction : forall o file b v,
  get_attr (T "keep-sorted") (b_attrs b) = Some v ->
  parse_direction v = Err E_SORT_DIR ->
  keep_sorted o file b = Err E_SORT_DIR.
Proof. intros o file b v H Hd. unfold keep_sorted. rewrite H, Hd. reflexivity. Qed.

Theorem keep_sorted_bad_format : forall o file b v,
  get_attr (T "keep-sorted") (b_attrs b) = Some v ->
  (exists asc, parse_direction v = Ok asc) ->
  parse_format (b_attrs b) = Err E_SORT_FMT ->
  keep_sorted o file b = Err E_SORT_FMT.
Proof.
  intros o file b v H (asc & Hd) Hf. unfold keep_sorted. rewrite H, Hd. cbn [bind]. cbv zeta.
  rewrite Hf. reflexivity.
Qed.

(* `content` is not used: the pattern is compiled before the content is read *)
Theorem line_pattern_bad_regex : forall o file b pat (content : str),
  get_attr (T "line-pattern") (b_attrs b) = Some pat ->
  o_rx_ok o pat = Some false ->
  line_pattern o file b = Err E_LINE_PATTERN.
Proof. intros o file b pat _ H Hrx. unfold line_pattern. rewrite H, Hrx. reflexivity. Qed.

Theorem keep_unique_bad_regex : forall o file b pat content,
  get_attr (T "keep-unique") (b_attrs b) = Some pat ->
  pat <> [] ->
  o_rx_ok o pat = Some false ->
  content_of file b = Ok content ->
  lines content <> [] ->
  keep_unique o file b = Err E_UNIQUE_PATTERN.
Proof.
  intros o file b pat content H Hne Hrx Hc Hl. unfold keep_unique. rewrite H, Hc. cbn [bind].
  unfold keys_of. destruct pat as [|c pat]; [congruence|]. rewrite Hrx.
  destruct (lines content); [congruence|]. reflexivity.
Qed.

(* same for keep-sorted's own pattern *)
Theorem keep_sorted_bad_regex : forall o file b v asc fmt pat content,
  get_attr (T "keep-sorted") (b_attrs b) = Some v ->
  parse_direction v = Ok asc ->
  parse_format (b_attrs b) = Ok fmt ->
  get_attr (T "keep-sorted-pattern") (b_attrs b) = Some pat ->
  pat <> [] ->
  o_rx_ok o pat = Some false ->
  content_of file b = Ok content ->
  lines content <> [] ->
  keep_sorted o file b = Err E_SORT_PATTERN.
Proof.
  intros o file b v asc fmt pat content H Hd Hf Hp Hne Hrx Hc Hl.
  unfold keep_sorted. rewrite H, Hd. cbn [bind]. rewrite Hp. cbv zeta. rewrite Hf. cbn [bind].
  rewrite Hc. cbn [bind].
  unfold keys_of. destruct pat as [|c pat]; [congruence|]. rewrite Hrx.
  destruct (lines content); [congruence|]. reflexivity.
Qed.

Theorem line_count_bad_severity : forall file b expr op n content,
  get_attr (T "line-count") (b_attrs b) = Some expr ->
  parse_constraint expr = Some (op, n) ->
  content_of file b = Ok content ->
  cop_holds op (count_nonblank content) n = false ->
  sev_of (b_attrs b) = Err E_SEVERITY ->
  line_count file b = Err E_SEVERITY.
Proof.
  intros file b expr op n content H Hp Hc Hh Hs. unfold line_count.
  rewrite H, Hp, Hc. cbn [bind]. cbv zeta. rewrite Hh, Hs. reflexivity.
Qed.

Theorem line_count_bad_expr : forall file b expr,
  get_attr (T "line-count") (b_attrs b) = Some expr ->
  parse_constraint expr = None ->
  line_count file b = Err E_LINE_COUNT.
Proof. intros file b expr H Hp. unfold line_count. rewrite H, Hp. reflexivity. Qed.

(* the same for the other rules that report at most one key *)
Theorem keep_unique_bad_severity : forall o file b pat content ks k,
  get_attr (T "keep-unique") (b_attrs b) = Some pat ->
  content_of file b = Ok content ->
  keys_of o pat E_UNIQUE_PATTERN content = Ok ks ->
  ku_scan [] ks = Some k ->
  sev_of (b_attrs b) = Err E_SEVERITY ->
  keep_unique o file b = Err E_SEVERITY.
Proof.
  intros o file b pat content ks k H Hc Hk Hs Hsev. unfold keep_unique.
  rewrite H, Hc. cbn [bind]. rewrite Hk. cbn [bind]. rewrite Hs, Hsev. reflexivity.
Qed.

Theorem line_pattern_bad_severity : forall o file b pat content k,
  get_attr (T "line-pattern") (b_attrs b) = Some pat ->
  o_rx_ok o pat = Some true ->
  content_of file b = Ok content ->
  lp_scan o pat 0 (lines content) = Ok (Some k) ->
  sev_of (b_attrs b) = Err E_SEVERITY ->
  line_pattern o file b = Err E_SEVERITY.
Proof.
  intros o file b pat content k H Hrx Hc Hs Hsev. unfold line_pattern.
  rewrite H, Hrx, Hc. cbn [bind]. rewrite Hs. cbn [bind]. rewrite Hsev. reflexivity.
Qed.

(* empty script path / empty condition *)
Lemma prepass_block_6 bc :
  prepass_block 6 bc =
  match get_attr (T "check-lua") (b_attrs (bc_block bc)) with
  | Some p => match trim p with [] => Err E_LUA_EMPTY | _ => Ok tt end
  | None => Ok tt
  end.
Proof. reflexivity. Qed.
Lemma prepass_block_5 bc :
  prepass_block 5 bc =
  match get_attr (T "check-ai") (b_attrs (bc_block bc)) with
  | Some p => match trim p with [] => Err E_AI_EMPTY | _ => Ok tt end
  | None => Ok tt
  end.
Proof. reflexivity. Qed.

Theorem prepass_lua_empty : forall bc p,
  get_attr (T "check-lua") (b_attrs (bc_block bc)) = Some p -> trim p = [] ->
  prepass_block V_LUA bc = Err E_LUA_EMPTY.
Proof.
  intros bc p H Ht. change V_LUA with 6. rewrite prepass_block_6, H, Ht. reflexivity.
Qed.

Theorem prepass_ai_empty : forall bc p,
  get_attr (T "check-ai") (b_attrs (bc_block bc)) = Some p -> trim p = [] ->
  prepass_block V_AI bc = Err E_AI_EMPTY.
Proof.
  intros bc p H Ht. change V_AI with 5. rewrite prepass_block_5, H, Ht. reflexivity.
Qed.

(* a pre-pass failure on any block stops the validator: no diagnostics at all,
   and the error is among those it may report *)
Lemma prepass_err_run o ctx v f bc e :
  In f ctx -> In bc (fc_blocks f) -> prepass_block v bc = Err e ->
  In e (vr_errs (run_validator o ctx v)) /\ vr_diags (run_validator o ctx v) = [] /\
  vr_panic (run_validator o ctx v) = false.
Proof.
  intros Hf Hbc He.
  assert (Hin : In e (prepass_errs v ctx)).
  { unfold prepass_errs. apply in_flat_map. exists f. split; [exact Hf|].
    apply in_flat_map. exists bc. split; [exact Hbc|]. rewrite He. left; reflexivity. }
  rewrite run_validator_unfold. destruct (prepass_errs v ctx) as [|x xs]; [destruct Hin|].
  cbn [vr_errs vr_diags vr_panic]. auto.
Qed.

Theorem run_lua_empty : forall o ctx f bc p,
  In f ctx -> In bc (fc_blocks f) ->
  get_attr (T "check-lua") (b_attrs (bc_block bc)) = Some p -> trim p = [] ->
  vr_errs (run_validator o ctx V_LUA) <> [] /\ In E_LUA_EMPTY (vr_errs (run_validator o ctx V_LUA)) /\
  vr_diags (run_validator o ctx V_LUA) = [].
Proof.
  intros o ctx f bc p Hf Hbc H Ht.
  destruct (prepass_err_run o ctx V_LUA f bc E_LUA_EMPTY Hf Hbc (prepass_lua_empty bc p H Ht))
    as (Hin & Hd & _).
  split; [|split; assumption]. intros E. rewrite E in Hin. destruct Hin.
Qed.

Theorem run_ai_empty : forall o ctx f bc p,
  In f ctx -> In bc (fc_blocks f) ->
  get_attr (T "check-ai") (b_attrs (bc_block bc)) = Some p -> trim p = [] ->
  vr_errs (run_validator o ctx V_AI) <> [] /\ In E_AI_EMPTY (vr_errs (run_validator o ctx V_AI)) /\
  vr_diags (run_validator o ctx V_AI) = [].
Proof.
  intros o ctx f bc p Hf Hbc H Ht.
  destruct (prepass_err_run o ctx V_AI f bc E_AI_EMPTY Hf Hbc (prepass_ai_empty bc p H Ht))
    as (Hin & Hd & _).
  split; [|split; assumption]. intros E. rewrite E in Hin. destruct Hin.
Qed.

(* a failing script / endpoint *)
Theorem check_lua_script_fails : forall o path file b script content0 content cls msg,
  get_attr (T "check-lua") (b_attrs b) = Some script ->
  content_of file b = Ok content0 ->
  extract_content o (T "check-lua-pattern") E_LUA_PATTERN b content0 = Ok content ->
  o_lua o script (path ++ (58 : char) :: dec (fst (b_ts b))) content = Some (cls, msg) ->
  cls <> 0 -> cls <> 1 ->
  check_lua_block o path file b = Err E_LUA_SCRIPT.
Proof.
  intros o path file b script content0 content cls msg H Hc Hx Hl H0 H1.
  unfold check_lua_block. rewrite H, Hc. cbn [bind]. rewrite Hx. cbn [bind].
  match goal with |- context [o_lua o script ?p content] => change (o_lua o script p content) with (o_lua o script (path ++ (58 : char) :: dec (fst (b_ts b))) content) end.
  rewrite Hl.
  destruct (cls =? 0) eqn:E0; [lia|]. destruct (cls =? 1) eqn:E1; [lia|]. reflexivity.
Qed.

Theorem check_ai_api_fails : forall o file b cond content0 content cls msg,
  get_attr (T "check-ai") (b_attrs b) = Some cond ->
  content_of file b = Ok content0 ->
  extract_content o (T "check-ai-pattern") E_AI_PATTERN b content0 = Ok content ->
  o_ai o cond content = Some (cls, msg) ->
  cls <> 0 ->
  check_ai_block o file b = Err E_AI_API.
Proof.
  intros o file b cond content0 content cls msg H Hc Hx Hl H0.
  unfold check_ai_block. rewrite H, Hc. cbn [bind]. rewrite Hx. cbn [bind]. rewrite Hl.
  destruct (cls =? 0) eqn:E0; [lia|]. reflexivity.
Qed.

(* an uncompilable content pattern of the async validators *)
Theorem extract_content_bad_regex : forall o pat_attr e_bad b content pat,
  get_attr pat_attr (b_attrs b) = Some pat -> o_rx_ok o pat = Some false ->
  extract_content o pat_attr e_bad b content = Err e_bad.
Proof. intros o pa e b c pat H Hrx. unfold extract_content. rewrite H, Hrx. reflexivity. Qed.

(* an Err of a block surfaces in the validator's result (when the pre-pass is clean) *)
Theorem block_err_run : forall o ctx v f bc e,
  In f ctx -> In bc (fc_blocks f) -> prepass_errs v ctx = [] ->
  validate_block o (named_modified ctx) v f bc = Err e ->
  In e (vr_errs (run_validator o ctx v)).
Proof.
  intros o ctx v f bc e Hf Hbc Hpre He. rewrite run_validator_unfold, Hpre, fold_vres_errs.
  apply in_flat_map. exists (vres_of (fc_path f) (validate_block o (named_modified ctx) v f bc)).
  split; [apply in_block_results; eauto|]. rewrite He. left; reflexivity.
Qed.

(* whatever the pre-pass says, an Err of a block makes the validator fail *)
Theorem block_err_fails : forall o ctx v f bc e,
  In f ctx -> In bc (fc_blocks f) ->
  validate_block o (named_modified ctx) v f bc = Err e ->
  vr_errs (run_validator o ctx v) <> [].
Proof.
  intros o ctx v f bc e Hf Hbc He.
  destruct (prepass_errs v ctx) as [|x xs] eqn:Hpre.
  - pose proof (block_err_run o ctx v f bc e Hf Hbc Hpre He) as Hin.
    intros E. rewrite E in Hin. destruct Hin.
  - rewrite run_validator_unfold, Hpre. cbn [vr_errs]. discriminate.
Qed.

(* ---------- 3c ---------- *)
Lemma named_modified_perm ctx ctx' :
  Permutation ctx ctx' -> Permutation (named_modified ctx) (named_modified ctx').
Proof. intros H. unfold named_modified. apply perm_flat_map. exact H. Qed.

Lemma named_modified_perm_set ctx ctx' :
  Permutation ctx ctx' -> forall x, In x (named_modified ctx) <-> In x (named_modified ctx').
Proof.
  intros H x. pose proof (named_modified_perm ctx ctx' H) as Hp. split; intros Hin.
  - eapply Permutation_in; eassumption.
  - eapply Permutation_in; [apply Permutation_sym; eassumption|exact Hin].
Qed.

Lemma validate_block_nm_ext o nm1 nm2 v f bc :
  (forall x, In x nm1 <-> In x nm2) -> validate_block o nm1 v f bc = validate_block o nm2 v f bc.
Proof.
  intros H. unfold validate_block. destruct (v =? V_AFFECTS); [|reflexivity].
  apply affects_block_set_ext. exact H.
Qed.

Lemma block_results_nm_ext o nm1 nm2 v ctx :
  (forall x, In x nm1 <-> In x nm2) -> block_results o nm1 v ctx = block_results o nm2 v ctx.
Proof.
  intros H. unfold block_results. apply flat_map_ext_in. intros f _. apply map_ext.
  intros bc. rewrite (validate_block_nm_ext o nm1 nm2 v f bc H). reflexivity.
Qed.

Lemma all_blocks_perm ctx ctx' : Permutation ctx ctx' -> Permutation (all_blocks ctx) (all_blocks ctx').
Proof. intros H. unfold all_blocks. apply perm_flat_map. exact H. Qed.

Theorem run_validator_ctx_perm : forall o ctx ctx' v, Permutation ctx ctx' ->
  Permutation (vr_diags (run_validator o ctx v)) (vr_diags (run_validator o ctx' v)) /\
  Permutation (vr_errs (run_validator o ctx v)) (vr_errs (run_validator o ctx' v)) /\
  vr_panic (run_validator o ctx v) = vr_panic (run_validator o ctx' v).
Proof.
  intros o ctx ctx' v H.
  assert (Hpre : Permutation (prepass_errs v ctx) (prepass_errs v ctx')).
  { unfold prepass_errs. apply perm_flat_map. exact H. }
  assert (Hres : Permutation (block_results o (named_modified ctx) v ctx)
                             (block_results o (named_modified ctx') v ctx')).
  { rewrite (block_results_nm_ext o _ _ v ctx (named_modified_perm_set ctx ctx' H)).
    unfold block_results. apply perm_flat_map. exact H. }
  rewrite !run_validator_unfold.
  destruct (prepass_errs v ctx) as [|e es] eqn:E1, (prepass_errs v ctx') as [|e' es'] eqn:E2.
  - rewrite !fold_vres_diags, !fold_vres_errs, !fold_vres_panic.
    split; [apply perm_flat_map; exact Hres|].
    split; [apply perm_flat_map; exact Hres|]. apply perm_existsb. exact Hres.
  - apply Permutation_nil in Hpre. discriminate Hpre.
  - apply Permutation_sym, Permutation_nil in Hpre. discriminate Hpre.
  - cbn [vr_diags vr_errs vr_panic]. split; [constructor|]. split; [exact Hpre|reflexivity].
Qed.

Theorem detected_ctx_perm : forall en dis ctx ctx', Permutation ctx ctx' ->
  Permutation (detected_validators en dis ctx) (detected_validators en dis ctx').
Proof.
  intros en dis ctx ctx' H.
  eapply perm_trans; [apply detected_validators_exact|].
  eapply perm_trans; [|apply Permutation_sym, detected_validators_exact].
  rewrite (filter_ext_in_ (fun v => existsb (detects v) (all_blocks ctx))
                          (fun v => existsb (detects v) (all_blocks ctx'))).
  - apply Permutation_refl.
  - intros v _. apply perm_existsb. apply all_blocks_perm. exact H.
Qed.

Theorem whole_run_perm : forall o en dis ctx ctx', Permutation ctx ctx' ->
  let r := run_validators o ctx (detected_validators en dis ctx) in
  let r' := run_validators o ctx' (detected_validators en dis ctx') in
  Permutation (vr_diags r) (vr_diags r') /\ Permutation (vr_errs r) (vr_errs r') /\
  exit_code r = exit_code r'.
Proof.
  intros o en dis ctx ctx' H r r'.
  pose proof (detected_ctx_perm en dis ctx ctx' H) as Hdet.
  assert (Hd : Permutation (vr_diags r) (vr_diags r')).
  { unfold r, r'. rewrite !run_validators_diags.
    eapply perm_trans; [apply perm_flat_map; exact Hdet|].
    apply perm_flat_map_pointwise. intros v _. apply (run_validator_ctx_perm o ctx ctx' v H). }
  assert (He : Permutation (vr_errs r) (vr_errs r')).
  { unfold r, r'. rewrite !run_validators_errs.
    eapply perm_trans; [apply perm_flat_map; exact Hdet|].
    apply perm_flat_map_pointwise. intros v _. apply (run_validator_ctx_perm o ctx ctx' v H). }
  split; [exact Hd|]. split; [exact He|]. apply exit_code_perm; assumption.
Qed.

(* ---------- 3c, extension: the order of the blocks inside a file ---------- *)
(* same file (path, text), blocks visited in another order *)
Definition file_reorder (f f' : fctx) : Prop :=
  fc_path f = fc_path f' /\ fc_text f = fc_text f' /\ Permutation (fc_blocks f) (fc_blocks f').

(* files visited in another order, and inside each file the blocks as well *)
Definition ctx_reorder (ctx ctx' : context) : Prop :=
  exists mid, Permutation ctx mid /\ Forall2 file_reorder mid ctx'.

Lemma ctx_reorder_of_perm ctx ctx' : Permutation ctx ctx' -> ctx_reorder ctx ctx'.
Proof.
  intros H. exists ctx'. split; [exact H|].
  induction ctx' as [|f l IH] in |- *; constructor; [|exact IH].
  repeat split; apply Permutation_refl.
Qed.

Lemma perm_flat_map_Forall2 {A B} (R : A -> A -> Prop) (F G : A -> list B) l l' :
  Forall2 R l l' -> (forall x y, R x y -> Permutation (F x) (G y)) ->
  Permutation (flat_map F l) (flat_map G l').
Proof.
  intros H HR. induction H as [|x y l l' Hxy Hl IH]; cbn [flat_map]; [constructor|].
  apply Permutation_app; [apply HR; exact Hxy|exact IH].
Qed.

Lemma validate_block_file_ext o nm v f f' bc :
  fc_path f = fc_path f' -> fc_text f = fc_text f' ->
  validate_block o nm v f bc = validate_block o nm v f' bc.
Proof. intros Hp Ht. unfold validate_block. rewrite Hp, Ht. reflexivity. Qed.

Lemma named_modified_reorder ctx ctx' :
  Forall2 file_reorder ctx ctx' -> Permutation (named_modified ctx) (named_modified ctx').
Proof.
  intros H. unfold named_modified.
  apply (perm_flat_map_Forall2 file_reorder _ _ ctx ctx' H).
  intros f f' (Hp & _ & Hb). rewrite Hp. apply perm_flat_map. exact Hb.
Qed.

Lemma all_blocks_reorder ctx ctx' :
  Forall2 file_reorder ctx ctx' -> Permutation (all_blocks ctx) (all_blocks ctx').
Proof.
  intros H. unfold all_blocks.
  apply (perm_flat_map_Forall2 file_reorder _ _ ctx ctx' H).
  intros f f' (_ & _ & Hb). exact Hb.
Qed.

Lemma run_validator_blocks_perm o ctx ctx' v : Forall2 file_reorder ctx ctx' ->
  Permutation (vr_diags (run_validator o ctx v)) (vr_diags (run_validator o ctx' v)) /\
  Permutation (vr_errs (run_validator o ctx v)) (vr_errs (run_validator o ctx' v)) /\
  vr_panic (run_validator o ctx v) = vr_panic (run_validator o ctx' v).
Proof.
  intros H.
  assert (Hpre : Permutation (prepass_errs v ctx) (prepass_errs v ctx')).
  { unfold prepass_errs. apply (perm_flat_map_Forall2 file_reorder _ _ ctx ctx' H).
    intros f f' (_ & _ & Hb). apply perm_flat_map. exact Hb. }
  assert (Hnm : forall x, In x (named_modified ctx) <-> In x (named_modified ctx')).
  { intros x. pose proof (named_modified_reorder ctx ctx' H) as Hp. split; intros Hin.
    - eapply Permutation_in; eassumption.
    - eapply Permutation_in; [apply Permutation_sym; eassumption|exact Hin]. }
  assert (Hres : Permutation (block_results o (named_modified ctx) v ctx)
                             (block_results o (named_modified ctx') v ctx')).
  { rewrite (block_results_nm_ext o _ _ v ctx Hnm).
    unfold block_results. apply (perm_flat_map_Forall2 file_reorder _ _ ctx ctx' H).
    intros f f' (Hp & Ht & Hb). rewrite Hp.
    rewrite (map_ext _ (fun bc => vres_of (fc_path f') (validate_block o (named_modified ctx') v f' bc))).
    - apply Permutation_map. exact Hb.
    - intros bc. rewrite (validate_block_file_ext o _ v f f' bc Hp Ht). reflexivity. }
  rewrite !run_validator_unfold.
  destruct (prepass_errs v ctx) as [|e es] eqn:E1, (prepass_errs v ctx') as [|e' es'] eqn:E2.
  - rewrite !fold_vres_diags, !fold_vres_errs, !fold_vres_panic.
    split; [apply perm_flat_map; exact Hres|].
    split; [apply perm_flat_map; exact Hres|]. apply perm_existsb. exact Hres.
  - apply Permutation_nil in Hpre. discriminate Hpre.
  - apply Permutation_sym, Permutation_nil in Hpre. discriminate Hpre.
  - cbn [vr_diags vr_errs vr_panic]. split; [constructor|]. split; [exact Hpre|reflexivity].
Qed.

Theorem run_validator_reorder : forall o ctx ctx' v, ctx_reorder ctx ctx' ->
  Permutation (vr_diags (run_validator o ctx v)) (vr_diags (run_validator o ctx' v)) /\
  Permutation (vr_errs (run_validator o ctx v)) (vr_errs (run_validator o ctx' v)) /\
  vr_panic (run_validator o ctx v) = vr_panic (run_validator o ctx' v).
Proof.
  intros o ctx ctx' v (mid & H1 & H2).
  destruct (run_validator_ctx_perm o ctx mid v H1) as (A1 & B1 & C1).
  destruct (run_validator_blocks_perm o mid ctx' v H2) as (A2 & B2 & C2).
  split; [eapply perm_trans; eassumption|].
  split; [eapply perm_trans; eassumption|congruence].
Qed.

Theorem detected_reorder : forall en dis ctx ctx', ctx_reorder ctx ctx' ->
  Permutation (detected_validators en dis ctx) (detected_validators en dis ctx').
Proof.
  intros en dis ctx ctx' (mid & H1 & H2).
  eapply perm_trans; [apply detected_validators_exact|].
  eapply perm_trans; [|apply Permutation_sym, detected_validators_exact].
  rewrite (filter_ext_in_ (fun v => existsb (detects v) (all_blocks ctx))
                          (fun v => existsb (detects v) (all_blocks ctx'))).
  - apply Permutation_refl.
  - intros v _. apply perm_existsb.
    eapply perm_trans; [apply all_blocks_perm; exact H1|apply all_blocks_reorder; exact H2].
Qed.

(* C20 in full: neither the order of the files nor the order of the blocks
   inside a file changes the multiset of diagnostics, the multiset of errors or
   the exit status of a run *)
Theorem whole_run_reorder : forall o en dis ctx ctx', ctx_reorder ctx ctx' ->
  let r := run_validators o ctx (detected_validators en dis ctx) in
  let r' := run_validators o ctx' (detected_validators en dis ctx') in
  Permutation (vr_diags r) (vr_diags r') /\ Permutation (vr_errs r) (vr_errs r') /\
  exit_code r = exit_code r'.
Proof.
  intros o en dis ctx ctx' H r r'.
  pose proof (detected_reorder en dis ctx ctx' H) as Hdet.
  assert (Hd : Permutation (vr_diags r) (vr_diags r')).
  { unfold r, r'. rewrite !run_validators_diags.
    eapply perm_trans; [apply perm_flat_map; exact Hdet|].
    apply perm_flat_map_pointwise. intros v _. apply (run_validator_reorder o ctx ctx' v H). }
  assert (He : Permutation (vr_errs r) (vr_errs r')).
  { unfold r, r'. rewrite !run_validators_errs.
    eapply perm_trans; [apply perm_flat_map; exact Hdet|].
    apply perm_flat_map_pointwise. intros v _. apply (run_validator_reorder o ctx ctx' v H). }
  split; [exact Hd|]. split; [exact He|]. apply exit_code_perm; assumption.
Qed.

(* DriftE2E_proofs.v - "a changed block forces its linked blocks to change", end to end:
   from the text of a unified diff on stdin to the exit status of the process.

   L1  printed_added_line_in_changes   diff text          -> line change
   L2  interior_change_marks_block     line change        -> block selected, content-modified
   L3  unmet_link_reported             marked block, unmarked link -> affects diagnostic
   L4  drift_in_run_diags,
       drift_fails_process             diagnostic         -> run / main exit status
   L5  drift_detected_end_to_end       the composition, stated on main_model
       (drift_detected_end_to_end_gen: "the linked block is not changed" as the run sees it)

   Every layer is stated so that it can be used on its own.  L1 as first asked for ("the
   change covers the whole line or a byte range") needs an assumption on the char-level diff
   oracle for replaced lines (visibly_differs); printed_added_line_in_changes_partial is the
   oracle-free statement, paired_line_may_record_nothing / ex_unchanged_pair_no_drift the
   counterexamples.  The concrete case at the end shows the hypotheses of L5 satisfiable. *)
From BW Require Import Main SpecBlocks Select Run.
From BWGen Require Import ExtTable.
From BWP Require Import TextFacts Keys_proofs Context_proofs Run_proofs Order_proofs Patch_proofs
                        Main_proofs MainCompose_proofs Scope_proofs Select_proofs Diff_proofs C01_proofs.
From Coq Require Import ZifyBool ZifyN ZifyNat Permutation.
Arguments N.add : simpl never. Arguments N.sub : simpl never. Arguments N.mul : simpl never.
Arguments N.eqb : simpl never. Arguments N.ltb : simpl never. Arguments N.leb : simpl never.

(* ================================================================== *)
(* L1 - from the text of the diff to a line change                     *)
(* ================================================================== *)

(* What the hunk walk records for an added line l: a whole-line change (no removed line is
   pending: a pure addition), or the byte ranges the char-level diff oracle reports against the
   removed line d it is paired with (a replacement).  d is a removed line of the SAME hunk (the
   deque of pending removed lines is emptied at the end of every hunk). *)
Definition recorded_for (cdiff : str -> str -> option (list diffop)) (pending ds : list dline)
                        (l : dline) (lc : lchange) : Prop :=
  lc_ranges lc = None \/
  exists d ops, (In d pending \/ (In d ds /\ dl_kind d = KDel)) /\
                cdiff (dl_val d) (dl_val l) = Some ops /\
                lc_ranges lc = Some (line_diff_ops (dl_val l) ops false []).

Section Added.
Context (cdiff : str -> str -> option (list diffop)).

Lemma recorded_for_weaken pending pending' ds ds' l lc :
  (forall d, In d pending -> In d pending' \/ (In d ds' /\ dl_kind d = KDel)) ->
  (forall d, In d ds -> In d ds') ->
  recorded_for cdiff pending ds l lc -> recorded_for cdiff pending' ds' l lc.
Proof.
  intros Hp Hd [H|(d & ops & Hin & Hc & Hr)]; [left; exact H|].
  right. exists d, ops. split; [|split; assumption].
  destruct Hin as [Hin|[Hin Hk]]; [apply Hp; exact Hin|right; split; [apply Hd; exact Hin|exact Hk]].
Qed.

(* Diff_proofs.hunk_lines_mono with the shape of the recorded change *)
Lemma hunk_lines_added : forall ls deleted prev acc deleted' prev' acc',
  hunk_lines cdiff ls deleted prev acc = Some (deleted', prev', acc') ->
  (forall x, In x acc -> In x acc') /\
  (forall l, In l ls -> dl_kind l = KAdd ->
     exists lc, In lc acc' /\ lc_line lc = dl_tgt l /\ recorded_for cdiff deleted ls l lc).
Proof.
  induction ls as [|a ls IH]; intros deleted prev acc deleted' prev' acc' Hrun;
    cbn [hunk_lines] in Hrun.
  - inversion Hrun; subst. split; [auto|]. intros l [].
  - destruct (dl_kind a) eqn:Ka.
    + (* KAdd *)
      destruct deleted as [|d deleted0].
      * apply IH in Hrun. destruct Hrun as [Hm Ha]. split.
        -- intros x Hx. apply Hm. right. exact Hx.
        -- intros l [<-|Hl] Hk.
           ++ exists {| lc_line := dl_tgt a; lc_ranges := None |}.
              split; [apply Hm; left; reflexivity|]. split; [reflexivity|left; reflexivity].
           ++ destruct (Ha l Hl Hk) as (lc & Hin & Hline & Hrec). exists lc.
              split; [exact Hin|]. split; [exact Hline|].
              apply (recorded_for_weaken [] [] ls (a :: ls) l lc); [intros ? []|intros ? ?; right; assumption|exact Hrec].
      * destruct (cdiff (dl_val d) (dl_val a)) as [ops|] eqn:Ec; [|discriminate Hrun].
        apply IH in Hrun. destruct Hrun as [Hm Ha]. split.
        -- intros x Hx. apply Hm. right. exact Hx.
        -- intros l [<-|Hl] Hk.
           ++ eexists. split; [apply Hm; left; reflexivity|]. split; [reflexivity|].
              right. exists d, ops. split; [left; left; reflexivity|]. split; [exact Ec|reflexivity].
           ++ destruct (Ha l Hl Hk) as (lc & Hin & Hline & Hrec). exists lc.
              split; [exact Hin|]. split; [exact Hline|].
              apply (recorded_for_weaken deleted0 (d :: deleted0) ls (a :: ls) l lc);
                [intros ? ?; left; right; assumption|intros ? ?; right; assumption|exact Hrec].
    + (* KDel *)
      apply IH in Hrun. destruct Hrun as [Hm Ha]. split; [exact Hm|].
      intros l [<-|Hl] Hk; [congruence|].
      destruct (Ha l Hl Hk) as (lc & Hin & Hline & Hrec). exists lc.
      split; [exact Hin|]. split; [exact Hline|].
      apply (recorded_for_weaken (deleted ++ [a]) deleted ls (a :: ls) l lc);
        [|intros ? ?; right; assumption|exact Hrec].
      intros d Hd. apply in_app_or in Hd. destruct Hd as [Hd|[<-|[]]]; [left; exact Hd|].
      right. split; [left; reflexivity|exact Ka].
    + (* KCtx *)
      apply IH in Hrun. destruct Hrun as [Hm Ha]. split.
      * intros x Hx. apply Hm. apply clear_or_fold_incl. exact Hx.
      * intros l [<-|Hl] Hk; [congruence|].
        destruct (Ha l Hl Hk) as (lc & Hin & Hline & Hrec). exists lc.
        split; [exact Hin|]. split; [exact Hline|].
        apply (recorded_for_weaken [] deleted ls (a :: ls) l lc);
          [intros ? []|intros ? ?; right; assumption|exact Hrec].
    + (* KOther *)
      apply IH in Hrun. destruct Hrun as [Hm Ha]. split; [exact Hm|].
      intros l [<-|Hl] Hk; [congruence|].
      destruct (Ha l Hl Hk) as (lc & Hin & Hline & Hrec). exists lc.
      split; [exact Hin|]. split; [exact Hline|].
      apply (recorded_for_weaken deleted deleted ls (a :: ls) l lc);
        [intros ? ?; left; assumption|intros ? ?; right; assumption|exact Hrec].
Qed.

Lemma hunks_changes_added : forall hs deleted prev acc lcs,
  hunks_changes cdiff hs deleted prev acc = Some lcs ->
  (forall x, In x acc -> In x lcs) /\
  (forall h l, In h hs -> In l (h_lines h) -> dl_kind l = KAdd ->
     exists lc, In lc lcs /\ lc_line lc = dl_tgt l /\ recorded_for cdiff deleted (h_lines h) l lc).
Proof.
  induction hs as [|h hs IH]; intros deleted prev acc lcs Hrun; cbn [hunks_changes] in Hrun.
  - inversion Hrun; subst. split; [intros x Hx; apply in_rev in Hx; exact Hx|]. intros h l [].
  - destruct (hunk_lines cdiff (h_lines h) deleted prev acc) as [[[d' p'] a']|] eqn:Eh; [|discriminate Hrun].
    apply hunk_lines_added in Eh. destruct Eh as [Hm1 Ha1].
    apply IH in Hrun. destruct Hrun as [Hm2 Ha2]. split.
    + intros x Hx. apply Hm2, clear_or_fold_incl, Hm1, Hx.
    + intros h0 l [<-|Hh] Hl Hk.
      * destruct (Ha1 l Hl Hk) as (lc & Hin & Hline & Hrec). exists lc.
        split; [apply Hm2, clear_or_fold_incl, Hin|]. split; [exact Hline|exact Hrec].
      * destruct (Ha2 h0 l Hh Hl Hk) as (lc & Hin & Hline & Hrec). exists lc.
        split; [exact Hin|]. split; [exact Hline|].
        apply (recorded_for_weaken [] deleted (h_lines h0) (h_lines h0) l lc);
          [intros ? []|auto|exact Hrec].
Qed.

(* one file section: the change recorded for an added line *)
Theorem added_line_change_shape : forall f h l lcs,
  line_changes cdiff f = Some lcs ->
  In h (pf_hunks f) -> In l (h_lines h) -> dl_kind l = KAdd ->
  exists lc, In lc lcs /\ lc_line lc = dl_tgt l /\ recorded_for cdiff [] (h_lines h) l lc.
Proof.
  intros f h l lcs Hrun Hh Hl Hk. unfold line_changes in Hrun.
  apply hunks_changes_added in Hrun. destruct Hrun as [_ Ha]. exact (Ha h l Hh Hl Hk).
Qed.

(* a section with an added line in a well-formed hunk does not remove its file *)
Lemma added_line_not_removed f h l :
  good_file f -> In h (pf_hunks f) -> In l (h_lines h) -> dl_kind l = KAdd -> is_removed_file f = false.
Proof.
  intros (_ & _ & Hhs) Hh Hl Hk. unfold is_removed_file.
  destruct (pf_hunks f) as [|h0 [|h1 hs]] eqn:E; try reflexivity.
  destruct Hh as [<-|[]]. rewrite Forall_forall in Hhs. specialize (Hhs h0 (or_introl eq_refl)).
  destruct Hhs as (_ & _ & _ & Htl & _).
  assert (Hpos : 1 <= dcount_tgt (h_lines h0)).
  { clear Htl. induction (h_lines h0) as [|x xs IH]; [destruct Hl|]. cbn [dcount_tgt].
    destruct Hl as [<-|Hl]; [rewrite Hk; cbn [adv_tgt]; lia|specialize (IH Hl); lia]. }
  destruct (h_tl h0 =? 0) eqn:E0; [lia|]. apply andb_false_r.
Qed.

(* the whole list of sections: the entry of a section that does not remove its file *)
Lemma changes_of_files_entry : forall fs ch f,
  NoDup (map target_path (live fs)) ->
  changes_of_files cdiff fs [] = Ok ch ->
  In f fs -> is_removed_file f = false ->
  NoDup (map fst ch) /\
  exists lcs, line_changes cdiff f = Some lcs /\ In (target_path f, lcs) ch /\
              assoc (target_path f) ch = Some lcs.
Proof.
  intros fs ch f Hnd H Hf Hr.
  assert (Hk : NoDup (map fst ch)).
  { apply (Order_proofs.changes_of_files_keys cdiff fs [] ch Hnd); [constructor|exact H]. }
  split; [exact Hk|].
  rewrite (changes_of_files_closed cdiff fs [] Hnd) in H.
  destruct (forallb (has_changes cdiff) (live fs)) eqn:Eall; [|discriminate H].
  injection H as <-. cbn [filter app] in *.
  assert (Hlive : In f (live fs)).
  { unfold live. apply filter_In. split; [exact Hf|]. rewrite Hr. reflexivity. }
  rewrite forallb_forall in Eall. specialize (Eall f Hlive). unfold has_changes in Eall.
  destruct (line_changes cdiff f) as [lcs|] eqn:El; [|discriminate Eall].
  exists lcs. split; [reflexivity|].
  assert (Hin : In (target_path f, lcs) (map (entry_of cdiff) (live fs))).
  { apply in_map_iff. exists f. split; [|exact Hlive]. unfold entry_of. rewrite El. reflexivity. }
  split; [exact Hin|]. apply (assoc_in_nodup _ _ _ Hk). exact Hin.
Qed.

(* L1, without any assumption on the char-level diff oracle: the exact shape of the change.
   (The version "the change covers the whole line or a visible byte range" needs an assumption
   on the oracle for paired lines: see printed_added_line_in_changes and the counterexample
   paired_line_may_record_nothing below.) *)
Theorem printed_added_line_in_changes_partial : forall fs ch f h l,
  Forall good_file fs -> Forall clean_file fs ->
  NoDup (map target_path (live fs)) ->
  line_changes_from_diff cdiff (print_patch fs) = Ok ch ->
  In f fs -> In h (pf_hunks f) -> In l (h_lines h) -> dl_kind l = KAdd ->
  NoDup (map fst ch) /\
  exists lcs, In (target_path f, lcs) ch /\ assoc (target_path f) ch = Some lcs /\
  exists lc, In lc lcs /\ lc_line lc = dl_tgt l /\ recorded_for cdiff [] (h_lines h) l lc.
Proof.
  intros fs ch f h l Hg Hc Hnd Hch Hf Hh Hl Hk.
  rewrite (line_changes_of_printed_patch cdiff fs Hg Hc) in Hch.
  assert (Hgf : good_file f) by (rewrite Forall_forall in Hg; exact (Hg f Hf)).
  pose proof (added_line_not_removed f h l Hgf Hh Hl Hk) as Hr.
  destruct (changes_of_files_entry fs ch f Hnd Hch Hf Hr) as (Hkeys & lcs & Hlc & Hin & Has).
  split; [exact Hkeys|]. exists lcs. split; [exact Hin|]. split; [exact Has|].
  exact (added_line_change_shape f h l lcs Hlc Hh Hl Hk).
Qed.

(* a change that Select.content_hit sees on a line wholly inside a block's content: the whole
   line, or some byte range that does not end at column 0 (any non-empty range [s, e), s < e,
   is one) *)
Definition visible_change (lc : lchange) : Prop :=
  lc_ranges lc = None \/ exists rs r, lc_ranges lc = Some rs /\ In r rs /\ 0 < snd r.

(* the oracle reports a visible difference between the added line l and every removed line
   of the hunk it may be paired with *)
Definition visibly_differs (ds : list dline) (l : dline) : Prop :=
  forall d ops, In d ds -> dl_kind d = KDel -> cdiff (dl_val d) (dl_val l) = Some ops ->
                exists r, In r (line_diff_ops (dl_val l) ops false []) /\ 0 < snd r.

Lemma recorded_visible ds l lc :
  visibly_differs ds l -> recorded_for cdiff [] ds l lc -> visible_change lc.
Proof.
  intros Hv [H|(d & ops & [[]|[Hd Hk]] & Hc & Hr)]; [left; exact H|].
  destruct (Hv d ops Hd Hk Hc) as (r & Hin & Hpos). right. eexists. exists r. split; [exact Hr|]. split; assumption.
Qed.

(* L1 *)
Theorem printed_added_line_in_changes : forall fs ch f h l,
  Forall good_file fs -> Forall clean_file fs ->
  NoDup (map target_path (live fs)) ->
  line_changes_from_diff cdiff (print_patch fs) = Ok ch ->
  In f fs -> In h (pf_hunks f) -> In l (h_lines h) -> dl_kind l = KAdd ->
  visibly_differs (h_lines h) l ->
  exists lcs, In (target_path f, lcs) ch /\ assoc (target_path f) ch = Some lcs /\
  exists lc, In lc lcs /\ lc_line lc = dl_tgt l /\ visible_change lc.
Proof.
  intros fs ch f h l Hg Hc Hnd Hch Hf Hh Hl Hk Hv.
  destruct (printed_added_line_in_changes_partial fs ch f h l Hg Hc Hnd Hch Hf Hh Hl Hk)
    as (_ & lcs & Hin & Has & lc & Hlc & Hline & Hrec).
  exists lcs. split; [exact Hin|]. split; [exact Has|]. exists lc. split; [exact Hlc|]. split; [exact Hline|].
  exact (recorded_visible (h_lines h) l lc Hv Hrec).
Qed.

(* a hunk without removed lines: nothing to assume, the change is the whole line *)
Corollary printed_pure_addition_in_changes : forall fs ch f h l,
  Forall good_file fs -> Forall clean_file fs ->
  NoDup (map target_path (live fs)) ->
  line_changes_from_diff cdiff (print_patch fs) = Ok ch ->
  In f fs -> In h (pf_hunks f) -> In l (h_lines h) -> dl_kind l = KAdd ->
  (forall d, In d (h_lines h) -> dl_kind d <> KDel) ->
  exists lcs, In (target_path f, lcs) ch /\ assoc (target_path f) ch = Some lcs /\
  exists lc, In lc lcs /\ lc_line lc = dl_tgt l /\ lc_ranges lc = None.
Proof.
  intros fs ch f h l Hg Hc Hnd Hch Hf Hh Hl Hk Hnodel.
  destruct (printed_added_line_in_changes_partial fs ch f h l Hg Hc Hnd Hch Hf Hh Hl Hk)
    as (_ & lcs & Hin & Has & lc & Hlc & Hline & Hrec).
  exists lcs. split; [exact Hin|]. split; [exact Has|]. exists lc. split; [exact Hlc|]. split; [exact Hline|].
  destruct Hrec as [H|(d & ops & [[]|[Hd Hkd]] & _)]; [exact H|]. exfalso. exact (Hnodel d Hd Hkd).
Qed.

End Added.

(* the oracle assumption of L1 cannot be dropped: a removed line paired with an added line on
   which the char-level diff reports no difference (here "-x" / "+x", which git never prints
   but a hand-written patch may contain) records a change without any range - it is in the
   list, but no block sees it *)
Definition cx_same_file : pfile :=
  {| pf_source := T "a/a.py"; pf_target := T "b/a.py";
     pf_hunks := [ {| h_ss := 2; h_sl := 1; h_ts := 2; h_tl := 1;
                      h_lines := [ {| dl_kind := KDel; dl_val := T "x"; dl_src := 2; dl_tgt := 2 |};
                                   {| dl_kind := KAdd; dl_val := T "x"; dl_src := 3; dl_tgt := 2 |} ] |} ] |}.
Example paired_line_may_record_nothing :
  line_changes_from_diff (fun _ _ => Some [DEqual 0 0 1]) (print_patch [cx_same_file]) =
  Ok [(T "a.py", [ {| lc_line := 2; lc_ranges := Some [] |} ])].
Proof. vm_compute. reflexivity. Qed.

(* ================================================================== *)
(* L2 - from a line change to a selected, content-modified block       *)
(* ================================================================== *)

(* the line of the change lies strictly between the last line of the start-tag comment
   (fst (b_cs b)) and the first line of the end-tag comment (fst (b_ce b)) *)
Lemma interior_change_hits : forall b lc,
  fst (b_cs b) < lc_line lc -> lc_line lc < fst (b_ce b) -> visible_change lc ->
  content_hit b lc = true.
Proof.
  intros b lc Hlo Hhi [Hn|(rs & r & Hr & Hin & Hpos)].
  - rewrite (content_hit_whole_line b lc Hn). lia.
  - rewrite (content_hit_interior b lc rs Hr Hlo Hhi). apply existsb_exists. exists r.
    split; [exact Hin|lia].
Qed.

(* L2 *)
Theorem interior_change_marks_block : forall all lcs bs b lc,
  In b bs -> In lc lcs ->
  fst (b_cs b) < lc_line lc -> lc_line lc < fst (b_ce b) -> visible_change lc ->
  In (mk_bctx lcs b) (select_blocks all lcs bs) /\
  bc_contmod (mk_bctx lcs b) = true /\ bc_block (mk_bctx lcs b) = b.
Proof.
  intros all lcs bs b lc Hb Hlc Hlo Hhi Hv.
  assert (Hm : content_modified b lcs = true).
  { unfold content_modified. apply existsb_exists. exists lc. split; [exact Hlc|].
    exact (interior_change_hits b lc Hlo Hhi Hv). }
  split; [|split; [exact Hm|reflexivity]].
  unfold select_blocks. apply filter_In. split; [apply in_map; exact Hb|].
  cbn [mk_bctx bc_contmod bc_tagmod]. rewrite Hm. destruct all; reflexivity.
Qed.

(* the diff-only form asked for *)
Corollary interior_change_marks_block_diff : forall lcs bs b lc,
  In b bs -> In lc lcs ->
  fst (b_cs b) < lc_line lc -> lc_line lc < fst (b_ce b) ->
  (lc_ranges lc = None \/ exists rs r, lc_ranges lc = Some rs /\ In r rs /\ 0 < snd r) ->
  exists bc, In bc (select_blocks false lcs bs) /\ bc_block bc = b /\ bc_contmod bc = true.
Proof.
  intros lcs bs b lc Hb Hlc Hlo Hhi Hv. exists (mk_bctx lcs b).
  destruct (interior_change_marks_block false lcs bs b lc Hb Hlc Hlo Hhi Hv) as (H1 & H2 & H3).
  split; [exact H1|]. split; [exact H3|exact H2].
Qed.

(* ================================================================== *)
(* L3 - a marked block with an unmarked link: the affects diagnostic   *)
(* ================================================================== *)

(* the diagnostic: at the start tag of the block, code affects, data = the missing (file, name) *)
Definition drift_diag (b : block) (sev : N) (path' n : str) : diag :=
  tag_diag b V_AFFECTS sev [path'; n].

Lemma drift_diag_fields b sev path' n :
  (d_sl (drift_diag b sev path' n), d_sc (drift_diag b sev path' n)) = b_ts b /\
  (d_el (drift_diag b sev path' n), d_ec (drift_diag b sev path' n)) = b_te b /\
  d_code (drift_diag b sev path' n) = V_AFFECTS /\ d_sev (drift_diag b sev path' n) = sev /\
  d_data (drift_diag b sev path' n) = [path'; n].
Proof.
  unfold drift_diag, tag_diag. cbn [d_sl d_sc d_el d_ec d_code d_sev d_data].
  destruct (b_ts b), (b_te b). repeat split.
Qed.

(* L3: nm is the set of content-modified named blocks (named_modified ctx in a run); the
   reference r of the affects list resolves - against the block's own file when it names no
   file - to (path', n), and no content-modified block named n exists under path' *)
Theorem unmet_link_reported : forall nm path bc v refs r sev path' n,
  bc_contmod bc = true ->
  get_attr (T "affects") (b_attrs (bc_block bc)) = Some v ->
  parse_affects_attribute v = Ok refs ->
  In r refs -> resolve_ref path r = (path', n) ->
  ~ In (path', n) nm ->
  sev_of (b_attrs (bc_block bc)) = Ok sev ->
  exists ds, affects_block nm path bc = Ok ds /\ In (drift_diag (bc_block bc) sev path' n) ds.
Proof.
  intros nm path bc v refs r sev path' n Hm Ha Hp Hr Hres Hnot Hs.
  rewrite (affects_block_exact nm path bc v refs sev Hm Ha Hp Hs). eexists. split; [reflexivity|].
  apply in_map_iff. exists (path', n). split; [reflexivity|].
  apply filter_In. split.
  - apply in_map_iff. exists r. split; assumption.
  - apply negb_true_iff. destruct (mem_pair (path', n) nm) eqn:E; [|reflexivity].
    apply mem_pair_In in E. exfalso. exact (Hnot E).
Qed.

(* the same in a context: the positions of the diagnostic spelled out *)
Corollary unmet_link_reported_ctx : forall (ctx : context) fc bc v refs r sev path' n,
  In fc ctx -> In bc (fc_blocks fc) ->
  bc_contmod bc = true ->
  get_attr (T "affects") (b_attrs (bc_block bc)) = Some v ->
  parse_affects_attribute v = Ok refs ->
  In r refs -> resolve_ref (fc_path fc) r = (path', n) ->
  ~ In (path', n) (named_modified ctx) ->
  sev_of (b_attrs (bc_block bc)) = Ok sev ->
  exists ds d, affects_block (named_modified ctx) (fc_path fc) bc = Ok ds /\ In d ds /\
    (d_sl d, d_sc d) = b_ts (bc_block bc) /\ (d_el d, d_ec d) = b_te (bc_block bc) /\
    d_code d = V_AFFECTS /\ d_sev d = sev /\ d_data d = [path'; n].
Proof.
  intros ctx fc bc v refs r sev path' n _ _ Hm Ha Hp Hr Hres Hnot Hs.
  destruct (unmet_link_reported _ _ bc v refs r sev path' n Hm Ha Hp Hr Hres Hnot Hs) as (ds & Hds & Hin).
  exists ds, (drift_diag (bc_block bc) sev path' n). split; [exact Hds|]. split; [exact Hin|].
  apply drift_diag_fields.
Qed.

(* ================================================================== *)
(* L4 - through the run and through main                               *)
(* ================================================================== *)

Lemma prepass_affects_nil ctx : prepass_errs V_AFFECTS ctx = [].
Proof.
  unfold prepass_errs. induction ctx as [|f ctx IH]; cbn [flat_map]; [reflexivity|].
  rewrite IH, app_nil_r. induction (fc_blocks f) as [|bc bcs IHb]; cbn [flat_map]; [reflexivity|].
  rewrite IHb. reflexivity.
Qed.

(* what the affects validator reports on a block of the context is among its diagnostics,
   whatever the other blocks do *)
Lemma affects_diag_in_run_validator : forall o ctx fc bc ds d,
  In fc ctx -> In bc (fc_blocks fc) ->
  affects_block (named_modified ctx) (fc_path fc) bc = Ok ds -> In d ds ->
  In (fc_path fc, d) (vr_diags (run_validator o ctx V_AFFECTS)).
Proof.
  intros o ctx fc bc ds d Hfc Hbc Hds Hd. rewrite run_validator_unfold, prepass_affects_nil.
  rewrite fold_vres_diags. apply in_flat_map.
  exists (vres_of (fc_path fc) (validate_block o (named_modified ctx) V_AFFECTS fc bc)). split.
  - apply in_block_results. exists fc, bc. split; [exact Hfc|]. split; [exact Hbc|reflexivity].
  - change V_AFFECTS with 0. rewrite validate_block_0, Hds. cbn [vres_of vr_diags].
    apply in_map. exact Hd.
Qed.

(* the run level: with the affects validator switched on, the diagnostic of L3 is among the
   diagnostics of the run - unconditionally: run_validators collects the diagnostics of every
   detected validator, whether or not another block or validator stops with an error *)
Theorem drift_in_run_diags : forall o en dis (ctx : context) fc bc v refs r sev path' n,
  In V_AFFECTS (active_validators en dis) ->
  In fc ctx -> In bc (fc_blocks fc) ->
  bc_contmod bc = true ->
  get_attr (T "affects") (b_attrs (bc_block bc)) = Some v ->
  parse_affects_attribute v = Ok refs ->
  In r refs -> resolve_ref (fc_path fc) r = (path', n) ->
  ~ In (path', n) (named_modified ctx) ->
  sev_of (b_attrs (bc_block bc)) = Ok sev ->
  In (fc_path fc, drift_diag (bc_block bc) sev path' n)
     (vr_diags (run_validators o ctx (detected_validators en dis ctx))).
Proof.
  intros o en dis ctx fc bc v refs r sev path' n Hact Hfc Hbc Hm Ha Hp Hr Hres Hnot Hs.
  destruct (unmet_link_reported (named_modified ctx) (fc_path fc) bc v refs r sev path' n
              Hm Ha Hp Hr Hres Hnot Hs) as (ds & Hds & Hin).
  rewrite run_validators_diags. apply in_flat_map. exists V_AFFECTS. split.
  - apply (active_detecting_is_detected en dis ctx V_AFFECTS fc bc Hact Hfc Hbc).
    unfold detects. change (V_AFFECTS =? V_AFFECTS) with true. cbv iota.
    rewrite Hm. unfold has_attr. rewrite Ha. reflexivity.
  - exact (affects_diag_in_run_validator o ctx fc bc ds _ Hfc Hbc Hds Hin).
Qed.

(* hence a run with an error-severity drift diagnostic never has exit status 0 *)
Corollary drift_run_exit : forall o en dis (ctx : context) fc bc v refs r path' n,
  In V_AFFECTS (active_validators en dis) ->
  In fc ctx -> In bc (fc_blocks fc) ->
  bc_contmod bc = true ->
  get_attr (T "affects") (b_attrs (bc_block bc)) = Some v ->
  parse_affects_attribute v = Ok refs ->
  In r refs -> resolve_ref (fc_path fc) r = (path', n) ->
  ~ In (path', n) (named_modified ctx) ->
  sev_of (b_attrs (bc_block bc)) = Ok 1 ->
  exit_code (run_validators o ctx (detected_validators en dis ctx)) = 1.
Proof.
  intros o en dis ctx fc bc v refs r path' n Hact Hfc Hbc Hm Ha Hp Hr Hres Hnot Hs.
  apply exit_iff_error. right. eexists. split.
  - exact (drift_in_run_diags o en dis ctx fc bc v refs r 1 path' n Hact Hfc Hbc Hm Ha Hp Hr Hres Hnot Hs).
  - reflexivity.
Qed.

(* L4, through main.  cr is the context main assembles; sev is the block's severity.  With
   severity error (sev = 1, the default) the exit status is not 0 whatever else happens (if the
   context does not assemble, or a validator stops with an error or a panic, the process fails
   for that reason); when the context assembles, the run is the validation run over it and the
   diagnostic is among its diagnostics, with the block's severity (a warning / info / hint
   block is reported too, it just does not fail the process by itself) *)
Theorem drift_fails_process : forall a p ms tb cd fc bc v refs r sev path' n,
  plan_of a = Ok p -> ca_list a = false ->
  let cr := model_context (main_case a p ms tb cd) in
  In V_AFFECTS (active_validators (pl_enabled p) (pl_disabled p)) ->
  (cr_panic cr = false -> cr_errs cr = [] ->
     In fc (cr_ctx cr) /\ In bc (fc_blocks fc) /\ bc_contmod bc = true /\
     ~ In (path', n) (named_modified (cr_ctx cr))) ->
  get_attr (T "affects") (b_attrs (bc_block bc)) = Some v ->
  parse_affects_attribute v = Ok refs ->
  In r refs -> resolve_ref (fc_path fc) r = (path', n) ->
  sev_of (b_attrs (bc_block bc)) = Ok sev ->
  (sev = 1 -> main_exit (main_model a ms tb cd) <> 0) /\
  (cr_panic cr = false -> cr_errs cr = [] ->
   exists res, main_model a ms tb cd = MRun res /\
               In (fc_path fc, drift_diag (bc_block bc) sev path' n) (vr_diags res)).
Proof.
  intros a p ms tb cd fc bc v refs r sev path' n E Hl cr Hact Hctx Ha Hp Hr Hres Hs.
  assert (Hrun : cr_panic cr = false -> cr_errs cr = [] ->
                 exists res, main_model a ms tb cd = MRun res /\
                             In (fc_path fc, drift_diag (bc_block bc) sev path' n) (vr_diags res)).
  { intros Hpan Herr. destruct (Hctx Hpan Herr) as (Hfc & Hbc & Hm & Hnot).
    rewrite (main_run_diags a p ms tb cd E Hl Hpan Herr). fold cr. eexists. split; [reflexivity|].
    exact (drift_in_run_diags (oracles_of tb) (pl_enabled p) (pl_disabled p) (cr_ctx cr) fc bc v refs r sev path' n
             Hact Hfc Hbc Hm Ha Hp Hr Hres Hnot Hs). }
  split; [intros Hsev1|exact Hrun].
  destruct (cr_panic cr) eqn:Hpan.
  { destruct (context_failure_fails_main a p ms tb cd E (or_intror Hpan)) as [H|H]; rewrite H; discriminate. }
  destruct (cr_errs cr) as [|e es] eqn:Herr.
  2:{ assert (Hne : cr_errs (model_context (main_case a p ms tb cd)) <> []) by (fold cr; rewrite Herr; discriminate).
      destruct (context_failure_fails_main a p ms tb cd E (or_introl Hne)) as [H|H]; rewrite H; discriminate. }
  destruct (Hrun eq_refl eq_refl) as (res & Hres' & Hin). rewrite Hres'. cbn [main_exit].
  destruct (vr_panic res); [discriminate|]. destruct (vr_errs res) eqn:Ev; [|discriminate].
  assert (H1 : exit_code res = 1).
  { apply exit_iff_error. right. eexists. split; [exact Hin|exact Hsev1]. }
  rewrite H1. discriminate.
Qed.

(* ================================================================== *)
(* L5 - the composition, on main_model                                 *)
(* ================================================================== *)

(* ---------- where the blocks of the assembled context come from ---------- *)

Lemma assoc_not_key {A} (k : str) (l : list (str * A)) : ~ In k (map fst l) -> assoc k l = None.
Proof.
  induction l as [|[k' v] l IH]; intros H; cbn [assoc]; [reflexivity|].
  destruct (str_eqb k k') eqn:E.
  - apply str_eqb_eq in E. exfalso. apply H. left. cbn [fst]. symmetry. exact E.
  - apply IH. intros Hin. apply H. right. exact Hin.
Qed.

Lemma parse_one_blocks ext f all lcs bcs bc :
  parse_one ext f all lcs = Some (Ok bcs) -> In bc bcs -> exists b0, bc = mk_bctx lcs b0.
Proof.
  unfold parse_one. destruct (grammar_of ext_table ext (rf_path f)); [|discriminate].
  destruct (rf_readable f); [|discriminate].
  destruct (parse_file (rf_text f) (rf_spans f)) as [bs|e|s]; cbn [bind]; try discriminate.
  intros H. injection H as <-. intros Hin. unfold select_blocks in Hin.
  apply filter_In in Hin. destruct Hin as [Hin _]. apply in_map_iff in Hin.
  destruct Hin as (b0 & <- & _). exists b0. reflexivity.
Qed.

Lemma add_result_ctx_blocks f r acc fc :
  In fc (cr_ctx (add_result f r acc)) ->
  In fc (cr_ctx acc) \/ (fc_path fc = rf_path f /\ r = Some (Ok (fc_blocks fc))).
Proof.
  destruct r as [[[|b bs]|e|s]|]; cbn [add_result cr_ctx]; auto.
  intros H. apply in_app_or in H. destruct H as [H|[<-|[]]]; [left; exact H|right].
  cbn [fc_path fc_blocks]. split; reflexivity.
Qed.

Lemma scan_files_blocks ext changes fc : forall fs acc,
  In fc (cr_ctx (scan_files ext fs changes acc)) ->
  In fc (cr_ctx acc) \/
  exists f, In f fs /\ fc_path fc = rf_path f /\
    parse_one ext f true (match changes_for (rf_path f) changes with Some l => l | None => [] end)
      = Some (Ok (fc_blocks fc)).
Proof.
  induction fs as [|x fs IH]; intros acc H; cbn [scan_files] in H; [left; exact H|].
  destruct (rf_exists x && rf_allow x && negb (rf_ignore x)).
  - apply IH in H. destruct H as [H|(f & Hin & Hp & Hb)].
    + apply add_result_ctx_blocks in H. destruct H as [H|[Hp Hb]]; [left; exact H|].
      right. exists x. split; [left; reflexivity|]. split; assumption.
    + right. exists f. split; [right; exact Hin|]. split; assumption.
  - apply IH in H. destruct H as [H|(f & Hin & Hp & Hb)]; [left; exact H|].
    right. exists f. split; [right; exact Hin|]. split; assumption.
Qed.

Lemma diff_files_blocks ext all scan fc : forall changes acc,
  In fc (cr_ctx (diff_files ext all scan changes acc)) ->
  In fc (cr_ctx acc) \/
  exists f lcs, In (fc_path fc, lcs) changes /\ fc_path fc = rf_path f /\
    parse_one ext f false lcs = Some (Ok (fc_blocks fc)).
Proof.
  induction changes as [|[q lcs] rest IH]; intros acc H; cbn [diff_files] in H; [left; exact H|].
  destruct (find_file q all) as [g|] eqn:Ef; [|left; exact H].
  assert (Hrest : In fc (cr_ctx acc) \/
                  (exists f lcs0, In (fc_path fc, lcs0) rest /\ fc_path fc = rf_path f /\
                     parse_one ext f false lcs0 = Some (Ok (fc_blocks fc))) ->
                  In fc (cr_ctx acc) \/
                  exists f lcs0, In (fc_path fc, lcs0) ((q, lcs) :: rest) /\ fc_path fc = rf_path f /\
                     parse_one ext f false lcs0 = Some (Ok (fc_blocks fc))).
  { intros [H0|(f & lcs0 & Hin & Hp & Hb)]; [left; exact H0|].
    right. exists f, lcs0. split; [right; exact Hin|]. split; assumption. }
  destruct ((scan && scanned g) || rf_ignore g).
  - apply Hrest, IH, H.
  - apply IH in H. destruct H as [H|H]; [|apply Hrest; right; exact H].
    apply add_result_ctx_blocks in H. destruct H as [H|[Hp Hb]]; [left; exact H|].
    destruct (find_file_some q all g Ef) as [_ Hq].
    right. exists g, lcs. split; [left; rewrite Hp, Hq; reflexivity|]. split; assumption.
Qed.

(* every block of the assembled context is mk_bctx lcs b0 for the line changes lcs the diff
   holds for its file: the map entry (none: no change) in the scan loop, the section's own
   entry in the diff loop *)
Theorem context_blocks_origin : forall ext fs scan ch fc bc,
  In fc (cr_ctx (build_context ext fs scan ch)) -> In bc (fc_blocks fc) ->
  exists lcs b0, bc = mk_bctx lcs b0 /\
    (lcs = match changes_for (fc_path fc) ch with Some l => l | None => [] end \/
     In (fc_path fc, lcs) ch).
Proof.
  intros ext fs scan ch fc bc H Hbc. unfold build_context in H.
  apply diff_files_blocks in H. destruct H as [H|(f & lcs & Hin & Hp & Hb)].
  - destruct scan; [|destruct H]. apply scan_files_blocks in H.
    destruct H as [[]|(f & Hin & Hp & Hb)].
    destruct (parse_one_blocks _ _ _ _ _ bc Hb Hbc) as (b0 & ->).
    eexists. exists b0. split; [reflexivity|]. left. rewrite Hp. reflexivity.
  - destruct (parse_one_blocks _ _ _ _ _ bc Hb Hbc) as (b0 & ->).
    exists lcs, b0. split; [reflexivity|]. right. exact Hin.
Qed.

(* a file no section of the diff is keyed by has no content-modified block in the context *)
Theorem unkeyed_path_not_modified : forall ext fs scan ch path' n,
  ~ In path' (map fst ch) ->
  ~ In (path', n) (named_modified (cr_ctx (build_context ext fs scan ch))).
Proof.
  intros ext fs scan ch path' n Hkey Hin.
  apply named_modified_spec in Hin. destruct Hin as (fc & bc & Hfc & Hbc & Hm & Hp & _).
  destruct (context_blocks_origin ext fs scan ch fc bc Hfc Hbc) as (lcs & b0 & -> & [Hl|Hl]).
  - rewrite Hp in Hl. unfold changes_for in Hl. rewrite (assoc_not_key path' ch Hkey) in Hl.
    subst lcs. discriminate Hm.
  - apply Hkey. apply in_map_iff. exists (fc_path fc, lcs). split; [exact Hp|exact Hl].
Qed.

(* ---------- the changed file's block in the context main assembles ---------- *)

(* whichever loop picks the file up - the scan loop (path arguments that match it) or the diff
   loop - the block b arrives in the context as mk_bctx lcs b, lcs being the diff's entry for
   the file.  The diff loop needs the context to be free of the harness's oracle-miss marker. *)
Lemma changed_block_in_main_context : forall a p ms tb cd m ch lcs bs b,
  NoDup (map (fun m => rf_path (mf_file m)) ms) -> In m ms ->
  model_changes (main_case a p ms tb cd) = Ok ch ->
  In (rf_path (mf_file m), lcs) ch -> assoc (rf_path (mf_file m)) ch = Some lcs ->
  eff_ignored a m = false ->
  grammar_of ext_table (pl_ext p) (rf_path (mf_file m)) <> None ->
  rf_readable (mf_file m) = true ->
  parse_file (rf_text (mf_file m)) (rf_spans (mf_file m)) = Ok bs ->
  In b bs -> content_modified b lcs = true ->
  ~ In E_ORACLE_MISS (cr_errs (model_context (main_case a p ms tb cd))) ->
  exists fc, In fc (cr_ctx (model_context (main_case a p ms tb cd))) /\
             fc_path fc = rf_path (mf_file m) /\ In (mk_bctx lcs b) (fc_blocks fc).
Proof.
  intros a p ms tb cd m ch lcs bs b Hnd Hm Hch Hin Has Hi Hg Hr Hp Hb Hcm Hmiss.
  destruct (pl_scan p && scanned (seen_file a p m)) eqn:Es.
  - apply andb_true_iff in Es. destruct Es as [Es1 Es2].
    assert (Hne : bs <> []) by (intros ->; destruct Hb).
    pose proof (main_scanned_file_in_context a p ms tb cd m ch bs Hm Hch Es1 Es2 Hg Hr Hp Hne) as H.
    unfold changes_for in H. rewrite Has in H.
    eexists. split; [exact H|]. cbn [fc_path fc_blocks]. split; [reflexivity|]. apply in_map. exact Hb.
  - assert (Hsel : In (mk_bctx lcs b) (select_blocks false lcs bs)).
    { unfold select_blocks. apply filter_In. split; [apply in_map; exact Hb|].
      cbn [mk_bctx bc_contmod bc_tagmod orb]. rewrite Hcm. reflexivity. }
    assert (Hne : select_blocks false lcs bs <> []) by (intros E; rewrite E in Hsel; destruct Hsel).
    pose proof (main_diff_file_in_context a p ms tb cd m ch lcs bs Hnd Hm Hch Hin Hi Es Hg Hr Hp Hne Hmiss) as H.
    eexists. split; [exact H|]. cbn [fc_path fc_blocks]. split; [reflexivity|exact Hsel].
Qed.

(* ---------- L5 ---------- *)

(* General form: the linked block is "not changed" in the sense of the run itself - no
   content-modified block named n under path' in the context main assembles (Hunmod).
   drift_detected_end_to_end below replaces Hunmod by a condition on the patch alone. *)
Theorem drift_detected_end_to_end_gen :
  forall a p ms tb cd fs f h l m bs b v refs r sev path' n,
  (* the command line is accepted; p is what main makes of it *)
  plan_of a = Ok p ->
  (* a validation run, not `list` *)
  ca_list a = false ->
  (* stdin is not a terminal: the diff is read from it *)
  ca_terminal a = false ->
  (* stdin holds the printed patch fs: well-formed sections (counts match the headers, no
     "\ No newline" markers, no body line that looks like a file header), one text line each *)
  ca_stdin a = print_patch fs -> Forall good_file fs -> Forall clean_file fs ->
  (* at most one section per target path among those that do not remove their file *)
  NoDup (map target_path (live fs)) ->
  (* the files main is given have distinct paths *)
  NoDup (map (fun m => rf_path (mf_file m)) ms) ->
  (* section f of the patch is about file m *)
  In f fs -> In m ms -> target_path f = rf_path (mf_file m) ->
  (* m is not ignored (by the --ignore globs main gets to see, cf. finding F12), has a grammar
     under the -E map, can be read, and its comment spans parse to the blocks bs, b among them *)
  eff_ignored a m = false ->
  grammar_of ext_table (pl_ext p) (rf_path (mf_file m)) <> None ->
  rf_readable (mf_file m) = true ->
  parse_file (rf_text (mf_file m)) (rf_spans (mf_file m)) = Ok bs -> In b bs ->
  (* hunk h of f has the added line l, whose new-file line number lies strictly between the
     last line of b's start-tag comment and the first line of its end-tag comment *)
  In h (pf_hunks f) -> In l (h_lines h) -> dl_kind l = KAdd ->
  fst (b_cs b) < dl_tgt l -> dl_tgt l < fst (b_ce b) ->
  (* if l replaces a removed line of h, the char-level diff (the oracle table cd) reports a
     visible difference; vacuous when h removes nothing
     (cannot be dropped: paired_line_may_record_nothing) *)
  visibly_differs (fun x y => assoc2 x y cd) (h_lines h) l ->
  (* b carries affects = a well-formed reference list; its entry r resolves to block n of
     file path' (b's own file when r names none) *)
  get_attr (T "affects") (b_attrs b) = Some v -> parse_affects_attribute v = Ok refs ->
  In r refs -> resolve_ref (rf_path (mf_file m)) r = (path', n) ->
  (* b's severity attribute is absent or well-formed: sev = 1 for error (the default),
     2 warning, 3 info, 4 hint *)
  sev_of (b_attrs b) = Ok sev ->
  (* the affects validator is switched on (-d / -e) *)
  In V_AFFECTS (active_validators (pl_enabled p) (pl_disabled p)) ->
  (* Hunmod: the run sees no content-modified block n under path' *)
  ~ In (path', n) (named_modified (cr_ctx (model_context (main_case a p ms tb cd)))) ->
  let cr := model_context (main_case a p ms tb cd) in
  (* with severity error the process fails ... *)
  (sev = 1 -> main_exit (main_model a ms tb cd) <> 0) /\
  (* ... and when the context assembles (the diff is translated, every examined file is read
     and has balanced tags, the harness's tables are complete), the run reports the affects
     diagnostic at b's start tag, naming (path', n) - whatever the other validators do *)
  (cr_panic cr = false -> cr_errs cr = [] ->
   exists res, main_model a ms tb cd = MRun res /\
               In (rf_path (mf_file m), drift_diag b sev path' n) (vr_diags res)).
Proof.
  intros a p ms tb cd fs f h l m bs b v refs r sev path' n
         E Hlist Hterm Hstdin Hgood Hclean Hdist Hnd Hf Hm Hpath Hign Hgram Hread Hparse Hb
         Hh Hl Hk Hlo Hhi Hvis Haff Hrefs Hr Hres Hsev Hact Hunmod cr.
  destruct (model_changes (main_case a p ms tb cd)) as [ch|e|s] eqn:Hch.
  2:{ assert (Hne : cr_errs (model_context (main_case a p ms tb cd)) <> [])
        by (unfold model_context; rewrite Hch; discriminate).
      split.
      - intros _. destruct (context_failure_fails_main a p ms tb cd E (or_introl Hne)) as [H|H]; rewrite H; discriminate.
      - intros _ Herr. exfalso. exact (Hne Herr). }
  2:{ assert (Hpan : cr_panic (model_context (main_case a p ms tb cd)) = true)
        by (unfold model_context; rewrite Hch; reflexivity).
      split.
      - intros _. destruct (context_failure_fails_main a p ms tb cd E (or_intror Hpan)) as [H|H]; rewrite H; discriminate.
      - intros Hp' _. unfold cr in Hp'. rewrite Hpan in Hp'. discriminate Hp'. }
  (* L1: the diff's entry for the file holds a visible change on the added line's number *)
  pose proof Hch as Hch'.
  rewrite (main_changes_of_printed_patch a p ms tb cd fs E Hterm Hstdin Hgood Hclean) in Hch'.
  rewrite <- (line_changes_of_printed_patch (fun x y => assoc2 x y cd) fs Hgood Hclean) in Hch'.
  destruct (printed_added_line_in_changes (fun x y => assoc2 x y cd) fs ch f h l
              Hgood Hclean Hdist Hch' Hf Hh Hl Hk Hvis) as (lcs & Hin & Has & lc & Hlc & Hline & Hv).
  rewrite Hpath in Hin, Has. rewrite <- Hline in Hlo, Hhi.
  (* L2: b is content-modified under lcs *)
  destruct (interior_change_marks_block false lcs bs b lc Hb Hlc Hlo Hhi Hv) as (_ & Hcm & _).
  cbn [mk_bctx bc_contmod] in Hcm.
  (* L3 + L4 on the block as it arrives in the context *)
  set (bc := mk_bctx lcs b).
  assert (Hfc : cr_panic cr = false -> cr_errs cr = [] ->
                exists fc, In fc (cr_ctx cr) /\ fc_path fc = rf_path (mf_file m) /\ In bc (fc_blocks fc)).
  { intros _ Herr. apply (changed_block_in_main_context a p ms tb cd m ch lcs bs b); try assumption.
    fold cr. rewrite Herr. intros []. }
  destruct (cr_panic cr) eqn:Hpan.
  { split; [intros _|discriminate].
    destruct (context_failure_fails_main a p ms tb cd E (or_intror Hpan)) as [H|H]; rewrite H; discriminate. }
  destruct (cr_errs cr) as [|e es] eqn:Herr.
  2:{ split; [intros _|discriminate].
      assert (Hne : cr_errs (model_context (main_case a p ms tb cd)) <> []) by (fold cr; rewrite Herr; discriminate).
      destruct (context_failure_fails_main a p ms tb cd E (or_introl Hne)) as [H|H]; rewrite H; discriminate. }
  destruct (Hfc eq_refl eq_refl) as (fc & Hfcin & Hfcp & Hbcin).
  assert (Hres' : resolve_ref (fc_path fc) r = (path', n)) by (rewrite Hfcp; exact Hres).
  destruct (drift_fails_process a p ms tb cd fc bc v refs r sev path' n E Hlist Hact) as [Hexit Hdiag];
    try assumption.
  { intros _ _. fold cr. split; [exact Hfcin|]. split; [exact Hbcin|]. split; [exact Hcm|exact Hunmod]. }
  split; [exact Hexit|]. intros _ _. fold cr in Hdiag. rewrite Hpan, Herr in Hdiag.
  destruct (Hdiag eq_refl eq_refl) as (res & Hmr & Hd). exists res. split; [exact Hmr|].
  rewrite <- Hfcp. exact Hd.
Qed.

(* L5.  As above, with "the linked block is not changed" stated on the patch: no section of the
   patch (other than whole-file removals) targets path'.  Then path' is no key of the line
   changes, the file - if the run examines it at all - is examined with no change, and none
   of its blocks is content-modified (unkeyed_path_not_modified). *)
Theorem drift_detected_end_to_end :
  forall a p ms tb cd fs f h l m bs b v refs r sev path' n,
  (* command line accepted (plan p), a validation run (not `list`), stdin not a terminal *)
  plan_of a = Ok p -> ca_list a = false -> ca_terminal a = false ->
  (* stdin holds the printed, well-formed patch fs *)
  ca_stdin a = print_patch fs -> Forall good_file fs -> Forall clean_file fs ->
  (* one section per target path (whole-file removals aside); distinct file paths *)
  NoDup (map target_path (live fs)) ->
  NoDup (map (fun m => rf_path (mf_file m)) ms) ->
  (* section f is about file m *)
  In f fs -> In m ms -> target_path f = rf_path (mf_file m) ->
  (* m is not ignored, has a grammar, is readable, parses to bs, b among them *)
  eff_ignored a m = false ->
  grammar_of ext_table (pl_ext p) (rf_path (mf_file m)) <> None ->
  rf_readable (mf_file m) = true ->
  parse_file (rf_text (mf_file m)) (rf_spans (mf_file m)) = Ok bs -> In b bs ->
  (* the added line l of hunk h lies strictly inside b's content lines *)
  In h (pf_hunks f) -> In l (h_lines h) -> dl_kind l = KAdd ->
  fst (b_cs b) < dl_tgt l -> dl_tgt l < fst (b_ce b) ->
  (* a replaced line differs visibly from the line it replaces (vacuous for pure additions) *)
  visibly_differs (fun x y => assoc2 x y cd) (h_lines h) l ->
  (* b's affects list is well-formed and its entry r resolves to block n of file path' *)
  get_attr (T "affects") (b_attrs b) = Some v -> parse_affects_attribute v = Ok refs ->
  In r refs -> resolve_ref (rf_path (mf_file m)) r = (path', n) ->
  (* b's severity (1 = error, the default); the affects validator is switched on *)
  sev_of (b_attrs b) = Ok sev ->
  In V_AFFECTS (active_validators (pl_enabled p) (pl_disabled p)) ->
  (* nothing under path' is changed: no section that keeps its file targets it *)
  (forall g, In g fs -> is_removed_file g = false -> target_path g <> path') ->
  let cr := model_context (main_case a p ms tb cd) in
  (sev = 1 -> main_exit (main_model a ms tb cd) <> 0) /\
  (cr_panic cr = false -> cr_errs cr = [] ->
   exists res, main_model a ms tb cd = MRun res /\
               In (rf_path (mf_file m), drift_diag b sev path' n) (vr_diags res)).
Proof.
  intros a p ms tb cd fs f h l m bs b v refs r sev path' n
         E Hlist Hterm Hstdin Hgood Hclean Hdist Hnd Hf Hm Hpath Hign Hgram Hread Hparse Hb
         Hh Hl Hk Hlo Hhi Hvis Haff Hrefs Hr Hres Hsev Hact Huntouched.
  apply (drift_detected_end_to_end_gen a p ms tb cd fs f h l m bs b v refs r sev path' n); try assumption.
  unfold model_context.
  destruct (model_changes (main_case a p ms tb cd)) as [ch|e|s] eqn:Hch; [|intros []|intros []].
  apply unkeyed_path_not_modified.
  rewrite (main_changes_of_printed_patch a p ms tb cd fs E Hterm Hstdin Hgood Hclean) in Hch.
  rewrite (Scope_proofs.changes_of_files_keys _ fs [] ch path' Hch). cbn [map In].
  intros [[]|(g & Hg & Hrm & Hp)]. exact (Huntouched g Hg Hrm Hp).
Qed.

(* ================================================================== *)
(* the hypotheses of L5 are satisfiable: a concrete two-file case      *)
(* ================================================================== *)

(* a.py holds block s with affects="b.py:t"; the patch adds line 3 ("y") inside its content;
   b.py holds block t and is not touched.  blockwatch < patch *)
Definition ex_l : dline := {| dl_kind := KAdd; dl_val := T "y"; dl_src := 2; dl_tgt := 3 |}.
Definition ex_h : hunk := {| h_ss := 2; h_sl := 0; h_ts := 3; h_tl := 1; h_lines := [ex_l] |}.
Definition ex_f : pfile := {| pf_source := T "a/a.py"; pf_target := T "b/a.py"; pf_hunks := [ex_h] |}.
Definition ex_fs : list pfile := [ex_f].
Definition ex_a : cliargs :=
  mkcli [] [] [] [] [] [] 0 0 true true true false false (print_patch ex_fs) true.
Definition ex_m : mfile :=
  mkmfile (T "a.py") (T "# <block name=""s"" affects=""b.py:t"">
x
y
# </block>
") [mkspan 0 35 K_HASH 0; mkspan 40 50 K_HASH 0] true true false false false.
Definition ex_m2 : mfile :=
  mkmfile (T "b.py") (T "# <block name=""t"">
z
# </block>
") [mkspan 0 18 K_HASH 0; mkspan 21 31 K_HASH 0] true true false false false.
Definition ex_ms : list mfile := [ex_m; ex_m2].
Definition ex_tb : tables := mktables [] [] [] [] [].
Definition ex_p : plan :=
  {| pl_scan := false; pl_star := false; pl_diff := Some (print_patch ex_fs);
     pl_ext := []; pl_enabled := []; pl_disabled := [] |}.
Definition ex_b : block :=
  {| b_attrs := [(T "name", T "s"); (T "affects", T "b.py:t")];
     b_ts := (1, 3); b_te := (1, 35); b_clo := 35; b_chi := 40; b_cs := (1, 36); b_ce := (4, 1) |}.

(* the text on stdin *)
Example ex_patch_text : print_patch ex_fs = T "--- a/a.py
+++ b/a.py
@@ -2,0 +3,1 @@
+y
".
Proof. vm_compute. reflexivity. Qed.

(* computed: exit status 1, one diagnostic, at the start tag of s, naming (b.py, t) *)
Example ex_exit : main_exit (main_model ex_a ex_ms ex_tb []) = 1.
Proof. vm_compute. reflexivity. Qed.
Example ex_run :
  main_model ex_a ex_ms ex_tb [] =
  MRun {| vr_diags := [(T "a.py", drift_diag ex_b 1 (T "b.py") (T "t"))]; vr_errs := []; vr_panic := false |}.
Proof. vm_compute. reflexivity. Qed.

(* the same conclusion from drift_detected_end_to_end: every hypothesis holds on the case *)
Example ex_by_theorem :
  main_exit (main_model ex_a ex_ms ex_tb []) <> 0 /\
  exists res, main_model ex_a ex_ms ex_tb [] = MRun res /\
              In (T "a.py", drift_diag ex_b 1 (T "b.py") (T "t")) (vr_diags res).
Proof.
  assert (H := drift_detected_end_to_end ex_a ex_p ex_ms ex_tb [] ex_fs ex_f ex_h ex_l ex_m [ex_b] ex_b
                 (T "b.py:t") [(Some (T "b.py"), T "t")] (Some (T "b.py"), T "t") 1 (T "b.py") (T "t")).
  cbv zeta in H.
  destruct H as [H1 H2].
  - vm_compute. reflexivity.                        (* plan_of *)
  - reflexivity.                                    (* not list *)
  - reflexivity.                                    (* not a terminal *)
  - reflexivity.                                    (* stdin *)
  - constructor; [|constructor]. split; [|split].   (* good_file *)
    + split; [discriminate|vm_compute; intuition discriminate].
    + split; [discriminate|vm_compute; intuition discriminate].
    + constructor; [|constructor]. unfold good_hunk. cbn [ex_h h_lines h_ss h_sl h_ts h_tl].
      split; [discriminate|]. split; [vm_compute; auto|]. split; [reflexivity|]. split; [reflexivity|].
      split; (constructor; [|constructor]); [discriminate|vm_compute; reflexivity].
  - constructor; [|constructor]. split; [|split].   (* clean_file *)
    + vm_compute. split; [intuition discriminate|discriminate].
    + vm_compute. split; [intuition discriminate|discriminate].
    + constructor; [|constructor]. constructor; [|constructor].
      vm_compute. split; [intuition discriminate|discriminate].
  - vm_compute. constructor; [intros []|constructor].          (* one section per path *)
  - vm_compute. constructor; [intros [H|[]]; discriminate H|].  (* distinct file paths *)
    constructor; [intros []|constructor].
  - left. reflexivity.
  - left. reflexivity.
  - reflexivity.                                    (* the section is about a.py *)
  - reflexivity.                                    (* not ignored *)
  - vm_compute. discriminate.                       (* python grammar *)
  - reflexivity.                                    (* readable *)
  - vm_compute. reflexivity.                        (* parses to [ex_b] *)
  - left. reflexivity.
  - left. reflexivity.
  - left. reflexivity.
  - reflexivity.                                    (* an added line *)
  - vm_compute. reflexivity.                        (* 1 < 3 *)
  - vm_compute. reflexivity.                        (* 3 < 4 *)
  - intros d ops [<-|[]] Hk. discriminate Hk.        (* the hunk removes nothing *)
  - reflexivity.                                    (* affects attribute *)
  - vm_compute. reflexivity.                        (* well-formed reference list *)
  - left. reflexivity.
  - reflexivity.                                    (* resolves to (b.py, t) *)
  - reflexivity.                                    (* default severity *)
  - vm_compute. left. reflexivity.                  (* affects is switched on *)
  - intros g [<-|[]] _. vm_compute. discriminate.    (* no section targets b.py *)
  - split; [exact (H1 eq_refl)|]. apply H2; vm_compute; reflexivity.
Qed.

(* the scan-loop branch of the proof: the same patch with path arguments matching both files
   (blockwatch "**/*.py" < patch); b.py is then examined too, unchanged *)
Definition ex_a_scan : cliargs :=
  mkcli [] [] [] [] [] [] 0 1 true true true false false (print_patch ex_fs) true.
Definition ex_ms_scan : list mfile :=
  map (fun m => {| mf_file := allow_all (mf_file m); mf_ign_pre := false; mf_ign_post := false |}) ex_ms.
Example ex_scan_run :
  main_model ex_a_scan ex_ms_scan ex_tb [] =
  MRun {| vr_diags := [(T "a.py", drift_diag ex_b 1 (T "b.py") (T "t"))]; vr_errs := []; vr_panic := false |}.
Proof. vm_compute. reflexivity. Qed.

(* visibly_differs cannot be dropped from L5 either: the same files with the patch
   cx_same_file ("-x" / "+x" on line 2, inside the content of s) and a char-level diff that
   reports no difference - every other hypothesis of L5 holds (l = the added line, target line
   2, 1 < 2 < 4), yet no block is selected and the process exits with status 0 *)
Definition ex_a_same : cliargs :=
  mkcli [] [] [] [] [] [] 0 0 true true true false false (print_patch [cx_same_file]) true.
Example ex_unchanged_pair_no_drift :
  main_model ex_a_same ex_ms ex_tb [(T "x", T "x", [DEqual 0 0 1])] =
    MRun {| vr_diags := []; vr_errs := []; vr_panic := false |} /\
  main_exit (main_model ex_a_same ex_ms ex_tb [(T "x", T "x", [DEqual 0 0 1])]) = 0.
Proof. split; vm_compute; reflexivity. Qed.

(* ================================================================== *)
Print Assumptions printed_added_line_in_changes_partial.
Print Assumptions printed_added_line_in_changes.
Print Assumptions interior_change_marks_block.
Print Assumptions unmet_link_reported.
Print Assumptions drift_in_run_diags.
Print Assumptions drift_fails_process.
Print Assumptions drift_detected_end_to_end_gen.
Print Assumptions drift_detected_end_to_end.
Print Assumptions ex_by_theorem.

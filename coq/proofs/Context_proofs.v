(* Context_proofs.v - which files are examined and how the validation context
   is assembled (theories/Context.v). *)
From BW Require Import Context.
From BWGen Require Import ExtTable.
From BWP Require Import TextFacts Keys_proofs.
From Coq Require Import ZifyBool ZifyN ZifyNat Permutation.
Arguments N.add : simpl never. Arguments N.sub : simpl never. Arguments N.mul : simpl never.
Arguments N.eqb : simpl never. Arguments N.ltb : simpl never. Arguments N.leb : simpl never.

(* ---------- 1d (consequence). a name without grammar is never read ---------- *)

Theorem no_grammar_never_read : forall ext_map f all lcs,
  grammar_of ext_table ext_map (rf_path f) = None -> parse_one ext_map f all lcs = None.
Proof. intros ext_map f all lcs H. unfold parse_one. rewrite H. reflexivity. Qed.

(* and then it leaves the accumulator alone, whatever its text, spans, existence *)
Corollary no_grammar_no_effect : forall ext_map f all lcs acc,
  grammar_of ext_table ext_map (rf_path f) = None ->
  add_result f (parse_one ext_map f all lcs) acc = acc.
Proof.
  intros ext_map f all lcs acc H. rewrite (no_grammar_never_read ext_map f all lcs H). reflexivity.
Qed.

(* ---------- 2a. monotonicity ---------- *)

Definition extends (acc r : cresult) : Prop :=
  exists c e, cr_ctx r = cr_ctx acc ++ c /\ cr_errs r = cr_errs acc ++ e.

Lemma extends_refl acc : extends acc acc.
Proof. exists [], []. rewrite !app_nil_r. split; reflexivity. Qed.

Lemma extends_trans a b c : extends a b -> extends b c -> extends a c.
Proof.
  intros (c1 & e1 & Hc1 & He1) (c2 & e2 & Hc2 & He2).
  exists (c1 ++ c2), (e1 ++ e2). rewrite Hc2, He2, Hc1, He1, !app_assoc. split; reflexivity.
Qed.

Lemma add_result_extends f r acc : extends acc (add_result f r acc).
Proof.
  destruct r as [[bs|e|s]|]; cbn [add_result]; [|  | |apply extends_refl].
  - destruct bs as [|b bs]; [apply extends_refl|].
    exists [{| fc_path := rf_path f; fc_text := rf_text f; fc_blocks := b :: bs |}], [].
    cbn [cr_ctx cr_errs]. rewrite app_nil_r. split; reflexivity.
  - exists [], [e]. cbn [cr_ctx cr_errs]. rewrite app_nil_r. split; reflexivity.
  - exists [], []. cbn [cr_ctx cr_errs]. rewrite !app_nil_r. split; reflexivity.
Qed.

Theorem scan_files_extends : forall ext_map fs changes acc,
  exists c e, cr_ctx (scan_files ext_map fs changes acc) = cr_ctx acc ++ c /\
              cr_errs (scan_files ext_map fs changes acc) = cr_errs acc ++ e.
Proof.
  intros ext_map fs changes. change (forall acc, extends acc (scan_files ext_map fs changes acc)).
  induction fs as [|f fs IH]; intros acc; cbn [scan_files]; [apply extends_refl|].
  destruct (rf_exists f && rf_allow f && negb (rf_ignore f)); [|apply IH].
  eapply extends_trans; [apply add_result_extends|apply IH].
Qed.

Theorem diff_files_extends : forall ext_map all scan changes acc,
  exists c e, cr_ctx (diff_files ext_map all scan changes acc) = cr_ctx acc ++ c /\
              cr_errs (diff_files ext_map all scan changes acc) = cr_errs acc ++ e.
Proof.
  intros ext_map all scan changes.
  change (forall acc, extends acc (diff_files ext_map all scan changes acc)).
  induction changes as [|[p lcs] rest IH]; intros acc; cbn [diff_files]; [apply extends_refl|].
  destruct (find_file p all) as [f|].
  - destruct ((scan && scanned f) || rf_ignore f); [apply IH|].
    eapply extends_trans; [apply add_result_extends|apply IH].
  - exists [], [E_ORACLE_MISS]. cbn [cr_ctx cr_errs]. rewrite app_nil_r. split; reflexivity.
Qed.

Lemma extends_errs acc r e : extends acc r -> In e (cr_errs acc) -> In e (cr_errs r).
Proof. intros (c & es & _ & He) H. rewrite He. apply in_or_app. left. exact H. Qed.

Lemma extends_ctx acc r fc : extends acc r -> In fc (cr_ctx acc) -> In fc (cr_ctx r).
Proof. intros (c & es & Hc & _) H. rewrite Hc. apply in_or_app. left. exact H. Qed.

(* the panic flag is never cleared either *)
Lemma add_result_panic f r acc : cr_panic acc = true -> cr_panic (add_result f r acc) = true.
Proof.
  intros H. destruct r as [[[|b bs]|e|s]|]; cbn [add_result cr_panic]; auto.
Qed.

Lemma scan_files_panic ext_map fs changes : forall acc,
  cr_panic acc = true -> cr_panic (scan_files ext_map fs changes acc) = true.
Proof.
  induction fs as [|f fs IH]; intros acc H; cbn [scan_files]; [exact H|].
  destruct (rf_exists f && rf_allow f && negb (rf_ignore f)); [|apply IH; exact H].
  apply IH, add_result_panic, H.
Qed.

Lemma diff_files_panic ext_map all scan changes : forall acc,
  cr_panic acc = true -> cr_panic (diff_files ext_map all scan changes acc) = true.
Proof.
  induction changes as [|[p lcs] rest IH]; intros acc H; cbn [diff_files]; [exact H|].
  destruct (find_file p all) as [f|]; [|exact H].
  destruct ((scan && scanned f) || rf_ignore f); [apply IH; exact H|].
  apply IH, add_result_panic, H.
Qed.

(* ---------- 2b. errors abort (C12) ---------- *)

Lemma add_result_err f e acc : In e (cr_errs (add_result f (Some (Err e)) acc)).
Proof. cbn [add_result cr_errs]. apply in_or_app. right. left. reflexivity. Qed.

Lemma scan_files_error ext_map changes f e : forall fs acc,
  In f fs -> scanned f = true ->
  parse_one ext_map f true
    (match changes_for (rf_path f) changes with Some l => l | None => [] end) = Some (Err e) ->
  In e (cr_errs (scan_files ext_map fs changes acc)).
Proof.
  intros fs acc Hin Hs Hp. revert acc. induction fs as [|x fs IH]; intros acc; [destruct Hin|].
  cbn [scan_files]. destruct Hin as [->|Hin].
  - unfold scanned in Hs. rewrite Hs, Hp.
    eapply extends_errs; [apply scan_files_extends|apply add_result_err].
  - destruct (rf_exists x && rf_allow x && negb (rf_ignore x)); apply (IH Hin).
Qed.

Theorem scanned_error_reported : forall ext_map fs changes f e,
  In f fs -> scanned f = true ->
  parse_one ext_map f true
    (match changes_for (rf_path f) changes with Some l => l | None => [] end) = Some (Err e) ->
  In e (cr_errs (build_context ext_map fs true changes)).
Proof.
  intros ext_map fs changes f e Hin Hs Hp. unfold build_context.
  eapply extends_errs; [apply diff_files_extends|].
  apply (scan_files_error ext_map changes f e fs _ Hin Hs Hp).
Qed.

(* diff_error_reported is FALSE as stated: the model's diff loop stops at the
   first diff path that has no oracle entry (find_file = None gives
   E_ORACLE_MISS and drops the rest of `changes`), so an error of a later diff
   file is not reported.  Counterexample below: changes = [q; p], fs = [p's
   file, missing on disk], the run reports [E_ORACLE_MISS] only. *)
Definition cx_f : rfile :=
  {| rf_path := T "p.py"; rf_text := []; rf_spans := []; rf_exists := false; rf_readable := false;
     rf_allow := true; rf_ignore := false |}.

Example diff_error_reported_counterexample :
  let changes := [(T "q.py", []); (T "p.py", [])] in
  In (T "p.py", []) changes /\
  find_file (T "p.py") [cx_f] = Some cx_f /\
  rf_ignore cx_f = false /\
  (false && scanned cx_f) = false /\
  parse_one [] cx_f false [] = Some (Err E_READ) /\
  cr_errs (build_context [] [cx_f] false changes) = [E_ORACLE_MISS] /\
  ~ In E_READ (cr_errs (build_context [] [cx_f] false changes)).
Proof.
  vm_compute. repeat split; auto.
  intros [H|[]]. discriminate H.
Qed.

(* What does hold, (1): the error or the oracle miss is reported. *)
Lemma diff_files_error_or_miss ext_map all scan p lcs f e : forall changes acc,
  In (p, lcs) changes -> find_file p all = Some f -> rf_ignore f = false ->
  (scan && scanned f) = false ->
  parse_one ext_map f false lcs = Some (Err e) ->
  In e (cr_errs (diff_files ext_map all scan changes acc)) \/
  In E_ORACLE_MISS (cr_errs (diff_files ext_map all scan changes acc)).
Proof.
  intros changes acc Hin Hf Hi Hs Hp. revert acc.
  induction changes as [|[q l] rest IH]; intros acc; [destruct Hin|].
  cbn [diff_files]. destruct Hin as [Heq|Hin].
  - inversion Heq; subst q l. rewrite Hf, Hs, Hi, Hp. cbn [orb]. left.
    eapply extends_errs; [apply diff_files_extends|apply add_result_err].
  - destruct (find_file q all) as [g|].
    + destruct ((scan && scanned g) || rf_ignore g); apply (IH Hin).
    + right. cbn [cr_errs]. apply in_or_app. right. left. reflexivity.
Qed.

Theorem diff_error_reported_partial : forall ext_map fs scan changes p lcs f e,
  In (p, lcs) changes -> find_file p fs = Some f -> rf_ignore f = false ->
  (scan && scanned f) = false ->
  parse_one ext_map f false lcs = Some (Err e) ->
  In e (cr_errs (build_context ext_map fs scan changes)) \/
  In E_ORACLE_MISS (cr_errs (build_context ext_map fs scan changes)).
Proof.
  intros ext_map fs scan changes p lcs f e Hin Hf Hi Hs Hp. unfold build_context.
  apply (diff_files_error_or_miss ext_map fs scan p lcs f e changes _ Hin Hf Hi Hs Hp).
Qed.

(* (2): the statement as given, when every diff path has an oracle entry (which
   is what the harness guarantees: E_ORACLE_MISS is a harness bug, never a verdict). *)
Lemma diff_files_error ext_map all scan p lcs f e : forall changes acc,
  (forall q l, In (q, l) changes -> find_file q all <> None) ->
  In (p, lcs) changes -> find_file p all = Some f -> rf_ignore f = false ->
  (scan && scanned f) = false ->
  parse_one ext_map f false lcs = Some (Err e) ->
  In e (cr_errs (diff_files ext_map all scan changes acc)).
Proof.
  intros changes acc Hall Hin Hf Hi Hs Hp. revert acc.
  induction changes as [|[q l] rest IH]; intros acc; [destruct Hin|].
  cbn [diff_files]. destruct Hin as [Heq|Hin].
  - inversion Heq; subst q l. rewrite Hf, Hs, Hi, Hp. cbn [orb].
    eapply extends_errs; [apply diff_files_extends|apply add_result_err].
  - assert (Hall' : forall q l, In (q, l) rest -> find_file q all <> None).
    { intros q' l' H. apply (Hall q' l'). right. exact H. }
    destruct (find_file q all) as [g|] eqn:Eg.
    + destruct ((scan && scanned g) || rf_ignore g); apply (IH Hall' Hin).
    + exfalso. apply (Hall q l (or_introl eq_refl)). exact Eg.
Qed.

Theorem diff_error_reported_total_oracle : forall ext_map fs scan changes p lcs f e,
  (forall q l, In (q, l) changes -> find_file q fs <> None) ->
  In (p, lcs) changes -> find_file p fs = Some f -> rf_ignore f = false ->
  (scan && scanned f) = false ->
  parse_one ext_map f false lcs = Some (Err e) ->
  In e (cr_errs (build_context ext_map fs scan changes)).
Proof.
  intros ext_map fs scan changes p lcs f e Hall Hin Hf Hi Hs Hp. unfold build_context.
  apply (diff_files_error ext_map fs scan p lcs f e changes _ Hall Hin Hf Hi Hs Hp).
Qed.

(* (3): only the diff paths BEFORE (p, lcs) need an oracle entry. *)
Theorem diff_error_reported_prefix : forall ext_map fs scan pre post p lcs f e,
  (forall q l, In (q, l) pre -> find_file q fs <> None) ->
  find_file p fs = Some f -> rf_ignore f = false ->
  (scan && scanned f) = false ->
  parse_one ext_map f false lcs = Some (Err e) ->
  In e (cr_errs (build_context ext_map fs scan (pre ++ (p, lcs) :: post))).
Proof.
  intros ext_map fs scan pre post p lcs f e Hall Hf Hi Hs Hp. unfold build_context.
  generalize (if scan then scan_files ext_map fs (pre ++ (p, lcs) :: post)
                {| cr_ctx := []; cr_errs := []; cr_panic := false |}
              else {| cr_ctx := []; cr_errs := []; cr_panic := false |}).
  induction pre as [|[q l] pre IH]; intros acc; cbn [app diff_files].
  - rewrite Hf, Hs, Hi, Hp. cbn [orb].
    eapply extends_errs; [apply diff_files_extends|apply add_result_err].
  - assert (Hall' : forall q l, In (q, l) pre -> find_file q fs <> None).
    { intros q' l' H. apply (Hall q' l'). right. exact H. }
    destruct (find_file q fs) as [g|] eqn:Eg.
    + destruct ((scan && scanned g) || rf_ignore g); apply (IH Hall').
    + exfalso. apply (Hall q l (or_introl eq_refl)). exact Eg.
Qed.

(* what the two error classes of parse_one mean *)
Lemma parse_one_missing ext_map f all lcs g :
  grammar_of ext_table ext_map (rf_path f) = Some g -> rf_readable f = false ->
  parse_one ext_map f all lcs = Some (Err E_READ).
Proof. intros Hg He. unfold parse_one. rewrite Hg, He. reflexivity. Qed.

Lemma parse_one_parse_error ext_map f all lcs g e :
  grammar_of ext_table ext_map (rf_path f) = Some g -> rf_readable f = true ->
  parse_file (rf_text f) (rf_spans f) = Err e ->
  parse_one ext_map f all lcs = Some (Err e).
Proof. intros Hg He Hp. unfold parse_one. rewrite Hg, He, Hp. reflexivity. Qed.

(* ---------- 2c. only files in scope contribute (C15) ---------- *)

Definition in_scope (scan : bool) (changes : list (str * list lchange)) (f : rfile) : bool :=
  (scan && scanned f) ||
  (negb (rf_ignore f) && existsb (fun e => str_eqb (fst e) (rf_path f)) changes).

Lemma add_result_ctx f r acc fc :
  In fc (cr_ctx (add_result f r acc)) -> In fc (cr_ctx acc) \/ fc_path fc = rf_path f.
Proof.
  destruct r as [[[|b bs]|e|s]|]; cbn [add_result cr_ctx]; auto.
  intros H. apply in_app_or in H. destruct H as [H|[<-|[]]]; [left; exact H|right; reflexivity].
Qed.

Lemma find_file_some p fs f :
  find_file p fs = Some f -> In f fs /\ rf_path f = p.
Proof.
  unfold find_file. intros H. apply find_some in H. destruct H as [Hin He].
  apply str_eqb_eq in He. split; assumption.
Qed.

Lemma scan_files_ctx ext_map changes fc : forall fs acc,
  In fc (cr_ctx (scan_files ext_map fs changes acc)) ->
  In fc (cr_ctx acc) \/ exists f, In f fs /\ fc_path fc = rf_path f /\ scanned f = true.
Proof.
  induction fs as [|x fs IH]; intros acc H; cbn [scan_files] in H; [left; exact H|].
  destruct (rf_exists x && rf_allow x && negb (rf_ignore x)) eqn:Es.
  - apply IH in H. destruct H as [H|(f & Hin & Hp & Hs)].
    + apply add_result_ctx in H. destruct H as [H|H]; [left; exact H|].
      right. exists x. split; [left; reflexivity|]. split; [exact H|exact Es].
    + right. exists f. split; [right; exact Hin|]. split; assumption.
  - apply IH in H. destruct H as [H|(f & Hin & Hp & Hs)]; [left; exact H|].
    right. exists f. split; [right; exact Hin|]. split; assumption.
Qed.

Lemma diff_files_ctx ext_map all scan fc : forall changes acc,
  In fc (cr_ctx (diff_files ext_map all scan changes acc)) ->
  In fc (cr_ctx acc) \/
  exists f, In f all /\ fc_path fc = rf_path f /\ rf_ignore f = false /\
            (scan && scanned f) = false /\
            existsb (fun e => str_eqb (fst e) (rf_path f)) changes = true.
Proof.
  induction changes as [|[p lcs] rest IH]; intros acc H; cbn [diff_files] in H; [left; exact H|].
  destruct (find_file p all) as [g|] eqn:Eg; [|left; exact H].
  destruct (find_file_some _ _ _ Eg) as [Hgin Hgp].
  destruct ((scan && scanned g) || rf_ignore g) eqn:Ec.
  - apply IH in H. destruct H as [H|(f & Hin & Hp & Hi & Hs & He)]; [left; exact H|].
    right. exists f. repeat (split; [assumption|]).
    cbn [existsb]. rewrite He. apply orb_true_r.
  - apply orb_false_iff in Ec. destruct Ec as [Ec1 Ec2].
    apply IH in H. destruct H as [H|(f & Hin & Hp & Hi & Hs & He)].
    + apply add_result_ctx in H. destruct H as [H|H]; [left; exact H|].
      right. exists g. repeat (split; [assumption|]).
      cbn [existsb fst]. rewrite Hgp, str_eqb_refl. reflexivity.
    + right. exists f. repeat (split; [assumption|]).
      cbn [existsb]. rewrite He. apply orb_true_r.
Qed.

Theorem context_files_in_scope : forall ext_map fs scan changes fc,
  In fc (cr_ctx (build_context ext_map fs scan changes)) ->
  exists f, In f fs /\ fc_path fc = rf_path f /\ in_scope scan changes f = true.
Proof.
  intros ext_map fs scan changes fc H. unfold build_context in H.
  apply diff_files_ctx in H. destruct H as [H|(f & Hin & Hp & Hi & Hs & He)].
  - destruct scan; [|destruct H].
    apply scan_files_ctx in H. destruct H as [[]|(f & Hin & Hp & Hs)].
    exists f. split; [exact Hin|]. split; [exact Hp|].
    unfold in_scope. rewrite Hs. reflexivity.
  - exists f. split; [exact Hin|]. split; [exact Hp|].
    unfold in_scope. rewrite Hi, He. cbn [negb andb]. apply orb_true_r.
Qed.

(* ---------- 2e. --ignore wins over both ---------- *)

Lemma in_scope_not_ignored scan changes f : in_scope scan changes f = true -> rf_ignore f = false.
Proof.
  unfold in_scope, scanned. intros H. destruct (rf_ignore f); [|reflexivity].
  rewrite !andb_false_r in H. discriminate H.
Qed.

Theorem ignored_never_examined : forall ext_map fs scan changes fc f,
  In fc (cr_ctx (build_context ext_map fs scan changes)) ->
  In f fs -> fc_path fc = rf_path f ->
  (forall g, In g fs -> rf_path g = rf_path f -> g = f) ->
  rf_ignore f = false.
Proof.
  intros ext_map fs scan changes fc f H Hin Hp Huniq.
  apply context_files_in_scope in H. destruct H as (g & Hgin & Hgp & Hg).
  assert (g = f) by (apply Huniq; [exact Hgin|congruence]). subst g.
  exact (in_scope_not_ignored scan changes f Hg).
Qed.

(* without the distinct-paths assumption: some file of that path is not ignored *)
Theorem ignored_never_examined_any : forall ext_map fs scan changes fc,
  In fc (cr_ctx (build_context ext_map fs scan changes)) ->
  exists f, In f fs /\ fc_path fc = rf_path f /\ rf_ignore f = false.
Proof.
  intros ext_map fs scan changes fc H.
  apply context_files_in_scope in H. destruct H as (g & Hgin & Hgp & Hg).
  exists g. split; [exact Hgin|]. split; [exact Hgp|].
  exact (in_scope_not_ignored scan changes g Hg).
Qed.

(* ---------- 2d. the content of out-of-scope files is irrelevant ---------- *)

Definition same_outside (scan : bool) (changes : list (str * list lchange)) (f f' : rfile) : Prop :=
  rf_path f = rf_path f' /\ rf_exists f = rf_exists f' /\ rf_allow f = rf_allow f' /\
  rf_ignore f = rf_ignore f' /\ (in_scope scan changes f = true -> f = f').

Lemma same_outside_scanned scan changes f f' :
  same_outside scan changes f f' -> scanned f = scanned f'.
Proof. intros (_ & He & Ha & Hi & _). unfold scanned. rewrite He, Ha, Hi. reflexivity. Qed.

Lemma scan_files_same ext_map changes fs fs' :
  Forall2 (same_outside true changes) fs fs' ->
  forall acc, scan_files ext_map fs changes acc = scan_files ext_map fs' changes acc.
Proof.
  induction 1 as [|f f' fs fs' Hf Hfs IH]; intros acc; [reflexivity|].
  cbn [scan_files].
  pose proof (same_outside_scanned _ _ _ _ Hf) as Hsc. unfold scanned in Hsc. rewrite <- Hsc.
  destruct (rf_exists f && rf_allow f && negb (rf_ignore f)) eqn:Es; [|apply IH].
  destruct Hf as (_ & _ & _ & _ & Heq).
  assert (f = f') as <-.
  { apply Heq. unfold in_scope, scanned. rewrite Es. reflexivity. }
  apply IH.
Qed.

Lemma find_file_same scan changes p fs fs' :
  Forall2 (same_outside scan changes) fs fs' ->
  (find_file p fs = None /\ find_file p fs' = None) \/
  (exists f f', find_file p fs = Some f /\ find_file p fs' = Some f' /\
                same_outside scan changes f f').
Proof.
  unfold find_file. induction 1 as [|f f' fs fs' Hf Hfs IH]; [left; split; reflexivity|].
  cbn [find]. destruct Hf as (Hp & Hrest). rewrite <- Hp.
  destruct (str_eqb (rf_path f) p).
  - right. exists f, f'. split; [reflexivity|]. split; [reflexivity|]. split; assumption.
  - exact IH.
Qed.

Lemma diff_files_same ext_map scan changes fs fs' :
  Forall2 (same_outside scan changes) fs fs' ->
  forall ch acc, (forall x, In x ch -> In x changes) ->
  diff_files ext_map fs scan ch acc = diff_files ext_map fs' scan ch acc.
Proof.
  intros HF. induction ch as [|[p lcs] rest IH]; intros acc Hsub; [reflexivity|].
  cbn [diff_files].
  assert (Hsub' : forall x, In x rest -> In x changes) by (intros x Hx; apply Hsub; right; exact Hx).
  destruct (find_file_same scan changes p fs fs' HF) as [[-> ->]|(f & f' & Ef & Ef' & Hf)];
    [reflexivity|].
  rewrite Ef, Ef'.
  rewrite <- (same_outside_scanned _ _ _ _ Hf).
  destruct Hf as (_ & _ & _ & Hi & Heq). rewrite <- Hi.
  destruct ((scan && scanned f) || rf_ignore f) eqn:Ec; [apply IH; exact Hsub'|].
  assert (f = f') as <-.
  { apply Heq. apply orb_false_iff in Ec. destruct Ec as [_ Ec].
    unfold in_scope. rewrite Ec. cbn [negb andb].
    assert (He : existsb (fun e => str_eqb (fst e) (rf_path f)) changes = true).
    { apply existsb_exists. exists (p, lcs). split; [apply Hsub; left; reflexivity|].
      cbn [fst]. destruct (find_file_some _ _ _ Ef) as [_ ->]. apply str_eqb_refl. }
    rewrite He. apply orb_true_r. }
  apply IH. exact Hsub'.
Qed.

Theorem out_of_scope_irrelevant : forall ext_map fs fs' scan changes,
  Forall2 (fun f f' => rf_path f = rf_path f' /\ rf_exists f = rf_exists f' /\
                       rf_allow f = rf_allow f' /\ rf_ignore f = rf_ignore f' /\
                       (in_scope scan changes f = true -> f = f')) fs fs' ->
  build_context ext_map fs scan changes = build_context ext_map fs' scan changes.
Proof.
  intros ext_map fs fs' scan changes HF. unfold build_context.
  change (Forall2 (same_outside scan changes) fs fs') in HF.
  rewrite (diff_files_same ext_map scan changes fs fs' HF changes _ (fun x H => H)).
  destruct scan; [|reflexivity].
  rewrite (scan_files_same ext_map changes fs fs' HF). reflexivity.
Qed.

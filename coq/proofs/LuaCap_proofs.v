(* LuaCap_proofs.v - confinement (navigation from the global environment never
   leaves the dumped node set) and the per-mode claims, checked by the kernel
   on the graphs reflected from the real interpreter on every run. *)
From BW Require Import SpecLua.
From BWGen Require Import LuaGraph.

(* every value a script can obtain by following table entries and metatables
   from _G (node 1) and the per-type metatables (virtual node 0) is a dumped node *)
Theorem confinement (g : lgraph) :
  closed g = true -> forall n, reach g n -> In n (node_ids g).
Proof.
  intros Hc n Hr. unfold closed in Hc. apply andb_true_iff in Hc. destruct Hc as [Hroot Hedges].
  induction Hr as [| |e He Hfrom IH].
  - apply existsb_exists in Hroot. destruct Hroot as (x & Hx & Hxe). apply N.eqb_eq in Hxe. subst. exact Hx.
  - left; reflexivity.
  - rewrite forallb_forall in Hedges. specialize (Hedges e He).
    apply andb_true_iff in Hedges. destruct Hedges as [_ Hto].
    apply existsb_exists in Hto. destruct Hto as (x & Hx & Hxe). apply N.eqb_eq in Hxe. subst. exact Hx.
Qed.

(* hence every builtin function a script can ever get hold of by navigation is
   one of the dumped functions, whose authorities graph_authority sums up *)
Theorem reachable_function_is_dumped (g : lgraph) :
  closed g = true -> forall n, reach g n -> n <> 0 -> exists nd, In nd (lg_nodes g) /\ ln_id nd = n.
Proof.
  intros Hc n Hr Hn. destruct (confinement g Hc n Hr) as [H0|Hin]; [congruence|].
  apply in_map_iff in Hin. destruct Hin as (nd & Hid & Hnd). exists nd. auto.
Qed.

Lemma graph_authority_none_sound ns :
  graph_authority ns = Some [] ->
  forall nd, In nd ns -> ln_kind nd = LK_CFUNC -> library_authority (ln_path nd) = Some [].
Proof.
  induction ns as [|x xs IH]; intros H nd Hin Hk; [destruct Hin|].
  cbn [graph_authority] in H. destruct (graph_authority xs) as [rest|] eqn:E; [|discriminate].
  destruct (ln_kind x =? LK_CFUNC) eqn:Ek.
  - destruct (library_authority (ln_path x)) as [a|] eqn:Ea; [|discriminate].
    inversion H as [Happ]. apply app_eq_nil in Happ. destruct Happ as [-> ->].
    destruct Hin as [<-|Hin]; [exact Ea|]. apply IH; auto.
  - inversion H; subst rest. destruct Hin as [<-|Hin].
    + apply N.eqb_neq in Ek. contradiction.
    + apply IH; auto.
Qed.

(* in a sandboxed graph no reachable builtin has any authority *)
Theorem sandboxed_no_authority (g : lgraph) :
  sandboxed g = true ->
  forall n, reach g n -> n <> 0 ->
  exists nd, In nd (lg_nodes g) /\ ln_id nd = n /\
             (ln_kind nd = LK_CFUNC -> library_authority (ln_path nd) = Some []).
Proof.
  intros Hs n Hr Hn. unfold sandboxed in Hs.
  apply andb_true_iff in Hs. destruct Hs as [Hs _].
  apply andb_true_iff in Hs. destruct Hs as [Hs _].
  apply andb_true_iff in Hs. destruct Hs as [Hc H1].
  destruct (reachable_function_is_dumped g Hc n Hr Hn) as (nd & Hin & Hid).
  exists nd. split; [exact Hin|]. split; [exact Hid|]. intros Hk.
  destruct (graph_authority (lg_nodes g)) as [[|a l]|] eqn:E; try discriminate.
  eapply graph_authority_none_sound; eauto.
Qed.

(* ---------- the reflected graphs ---------- *)
Lemma unset_sandboxed : sandboxed graph_unset = true.
Proof. vm_compute. reflexivity. Qed.
Lemma sandboxed_sandboxed : sandboxed graph_sandboxed = true.
Proof. vm_compute. reflexivity. Qed.
Lemma garbage_sandboxed : sandboxed graph_garbage = true.
Proof. vm_compute. reflexivity. Qed.

(* any other value behaves like the default: same reachable paths *)
Lemma garbage_like_default :
  map ln_path (lg_nodes graph_garbage) = map ln_path (lg_nodes graph_unset) /\
  map ln_path (lg_nodes graph_sandboxed) = map ln_path (lg_nodes graph_unset).
Proof. split; vm_compute; reflexivity. Qed.

Lemma safe_ok : safe_mode_ok graph_safe = true.
Proof. vm_compute. reflexivity. Qed.
(* safe mode has no debug library (native-module loading is disabled by mlua
   through stubs under the same names: established behaviourally by the escape battery) *)
Lemma safe_no_debug : has_path graph_safe (T "debug") = false /\ has_global graph_safe (T "debug") = false.
Proof. split; vm_compute; reflexivity. Qed.
(* safe adds exactly io, os, package (and require, dofile, loadfile of the base library) to the globals *)
Definition added_globals (g base : lgraph) : list str :=
  filter (fun n => negb (has_global base n)) (global_names g).
Lemma safe_adds : forall n, In n (added_globals graph_safe graph_unset) <->
  In n (map (fun b => T b) ["dofile"; "io"; "loadfile"; "os"; "package"; "require"]%bs).
Proof.
  intros n.
  assert (E : added_globals graph_safe graph_unset = map (fun b => T b) ["dofile"; "io"; "loadfile"; "os"; "package"; "require"]%bs)
    by (vm_compute; reflexivity).
  rewrite E. tauto.
Qed.

Lemma unsafe_ok : unsafe_mode_ok graph_unsafe = true.
Proof. vm_compute. reflexivity. Qed.
Lemma unsafe_adds : forall n, In n (added_globals graph_unsafe graph_safe) <-> In n [T "debug"].
Proof.
  intros n.
  assert (E : added_globals graph_unsafe graph_safe = [T "debug"]) by (vm_compute; reflexivity).
  rewrite E. tauto.
Qed.

(* ---------- the same at load time ---------- *)
(* what the script's top-level chunk sees before blockwatch fetches `validate`:
   anything it captures there stays usable, so the claim must hold there too *)
Lemma unset_top_sandboxed : sandboxed graph_unset_top = true.
Proof. vm_compute. reflexivity. Qed.
Lemma sandboxed_top_sandboxed : sandboxed graph_sandboxed_top = true.
Proof. vm_compute. reflexivity. Qed.
Lemma garbage_top_sandboxed : sandboxed graph_garbage_top = true.
Proof. vm_compute. reflexivity. Qed.
Lemma safe_top_ok : safe_mode_ok graph_safe_top = true /\ has_global graph_safe_top (T "debug") = false.
Proof. split; vm_compute; reflexivity. Qed.
Lemma unsafe_top_ok : unsafe_mode_ok graph_unsafe_top = true.
Proof. vm_compute. reflexivity. Qed.
(* nothing is reachable at load time that is not reachable at call time *)
Definition paths_within (a b : lgraph) : bool := forallb (fun n => has_path b (ln_path n)) (lg_nodes a).
Lemma top_within_call :
  paths_within graph_unset_top graph_unset = true /\ paths_within graph_sandboxed_top graph_sandboxed = true /\
  paths_within graph_garbage_top graph_garbage = true /\ paths_within graph_safe_top graph_safe = true /\
  paths_within graph_unsafe_top graph_unsafe = true.
Proof. repeat split; vm_compute; reflexivity. Qed.


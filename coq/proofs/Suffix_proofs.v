(* Suffix_proofs.v - which grammar a file name selects (theories/Suffix.v) and
   the reflected suffix table (gen/ExtTable.v). *)
From BW Require Import Context.
From BWGen Require Import ExtTable.
From BWP Require Import TextFacts Keys_proofs.
From Coq Require Import ZifyBool ZifyN ZifyNat Permutation.
Arguments N.add : simpl never. Arguments N.sub : simpl never. Arguments N.mul : simpl never.
Arguments N.eqb : simpl never. Arguments N.ltb : simpl never. Arguments N.leb : simpl never.

Definition no_slash (s : str) : Prop := existsb (N.eqb C_SLASH) s = false.

(* ---------- 1a. structural lemmas ---------- *)

Lemma no_slash_cons c r : no_slash (c :: r) <-> (c =? C_SLASH) = false /\ no_slash r.
Proof.
  unfold no_slash. cbn [existsb]. rewrite orb_false_iff, (N.eqb_sym C_SLASH c). tauto.
Qed.

Lemma no_slash_app a b : no_slash (a ++ b) <-> no_slash a /\ no_slash b.
Proof. unfold no_slash. rewrite existsb_app, orb_false_iff. tauto. Qed.

Lemma file_name_no_slash name : existsb (N.eqb C_SLASH) name = false -> file_name name = name.
Proof.
  intros H. destruct name as [|c r]; [reflexivity|].
  apply no_slash_cons in H. destruct H as [Hc Hr].
  cbn [file_name]. unfold no_slash in Hr. rewrite Hr, Hc. reflexivity.
Qed.

Lemma file_name_dir dir name :
  existsb (N.eqb C_SLASH) name = false -> file_name (dir ++ [C_SLASH] ++ name) = name.
Proof.
  intros H. cbn [app]. induction dir as [|c dir IH].
  - cbn [app file_name]. rewrite H, N.eqb_refl. reflexivity.
  - cbn [app file_name].
    assert (Hs : existsb (N.eqb C_SLASH) (dir ++ C_SLASH :: name) = true).
    { rewrite existsb_app. cbn [existsb]. rewrite N.eqb_refl, orb_true_r. reflexivity. }
    rewrite Hs. exact IH.
Qed.

(* both shapes of directory prefix at once *)
Lemma file_name_prefixed dir name :
  existsb (N.eqb C_SLASH) name = false ->
  (dir = [] \/ exists d, dir = d ++ [C_SLASH]) ->
  file_name (dir ++ name) = name.
Proof.
  intros H [->|(d & ->)].
  - cbn [app]. apply file_name_no_slash. exact H.
  - rewrite <- app_assoc. apply file_name_dir. exact H.
Qed.

Lemma dot_suffixes_app : forall s e,
  dot_suffixes (s ++ C_DOT :: e) =
  map (fun x => x ++ C_DOT :: e) (dot_suffixes s) ++ e :: dot_suffixes e.
Proof.
  intros s e. induction s as [|c s IH].
  - cbn [app dot_suffixes map]. rewrite N.eqb_refl. reflexivity.
  - cbn [app dot_suffixes]. destruct (c =? C_DOT) eqn:E.
    + cbn [dot_suffixes map app]. rewrite IH. reflexivity.
    + exact IH.
Qed.

(* the candidate list of a dotted name: those of the last component first *)
Lemma candidates_app s e :
  rev (dot_suffixes (s ++ C_DOT :: e)) ++ [s ++ C_DOT :: e] =
  (rev (dot_suffixes e) ++ [e]) ++
  rev (map (fun x => x ++ C_DOT :: e) (dot_suffixes s)) ++ [s ++ C_DOT :: e].
Proof.
  rewrite dot_suffixes_app, rev_app_distr. cbn [rev]. rewrite <- !app_assoc. reflexivity.
Qed.

(* ---------- first_some ---------- *)

Lemma first_some_app table ext_map a b :
  first_some table ext_map (a ++ b) =
  match first_some table ext_map a with
  | Some g => Some g
  | None => first_some table ext_map b
  end.
Proof.
  induction a as [|x a IH]; cbn [app first_some]; [reflexivity|].
  destruct (lookup_ext table ext_map x); [reflexivity|exact IH].
Qed.

Lemma first_some_none table ext_map l :
  (forall c, In c l -> lookup_ext table ext_map c = None) -> first_some table ext_map l = None.
Proof.
  induction l as [|x l IH]; intros H; cbn [first_some]; [reflexivity|].
  rewrite (H x (or_introl eq_refl)). apply IH. intros c Hc. apply H. right. exact Hc.
Qed.

Lemma first_some_none_inv table ext_map l :
  first_some table ext_map l = None -> forall c, In c l -> lookup_ext table ext_map c = None.
Proof.
  induction l as [|x l IH]; intros H c Hc; [destruct Hc|].
  cbn [first_some] in H. destruct (lookup_ext table ext_map x) eqn:E; [discriminate|].
  destruct Hc as [<-|Hc]; [exact E|exact (IH H c Hc)].
Qed.

(* grammar_of on a non-empty slash-free name *)
Lemma grammar_of_name table ext_map dir name :
  existsb (N.eqb C_SLASH) name = false ->
  (dir = [] \/ exists d, dir = d ++ [C_SLASH]) ->
  name <> [] ->
  grammar_of table ext_map (dir ++ name) =
  first_some table ext_map (rev (dot_suffixes name) ++ [name]).
Proof.
  intros Hn Hd Hne. unfold grammar_of. rewrite (file_name_prefixed dir name Hn Hd).
  destruct name; [congruence|reflexivity].
Qed.

(* ---------- 1b. the result depends only on the last component once it resolves ---------- *)

Theorem grammar_of_suffix : forall table ext_map dir s e g,
  existsb (N.eqb C_SLASH) (s ++ C_DOT :: e) = false ->
  (dir = [] \/ exists d, dir = d ++ [C_SLASH]) ->
  first_some table ext_map (rev (dot_suffixes e) ++ [e]) = Some g ->
  grammar_of table ext_map (dir ++ s ++ C_DOT :: e) = Some g.
Proof.
  intros table ext_map dir s e g Hn Hd Hg.
  rewrite (grammar_of_name table ext_map dir (s ++ C_DOT :: e) Hn Hd)
    by (destruct s; discriminate).
  rewrite candidates_app, first_some_app, Hg. reflexivity.
Qed.

(* ---------- 1c. the reflected table ---------- *)

Definition table_check (eg : str * N) : bool :=
  match first_some ext_table [] (rev (dot_suffixes (fst eg)) ++ [fst eg]) with
  | Some g => g =? snd eg
  | None => false
  end
  && negb (existsb (N.eqb C_SLASH) (fst eg))
  && match fst eg with [] => false | _ :: _ => true end.

Lemma ext_table_checked : forallb table_check ext_table = true.
Proof. vm_compute. reflexivity. Qed.

Lemma ext_table_entry e g :
  In (e, g) ext_table ->
  first_some ext_table [] (rev (dot_suffixes e) ++ [e]) = Some g /\
  existsb (N.eqb C_SLASH) e = false /\ e <> [].
Proof.
  intros Hin. pose proof ext_table_checked as H.
  rewrite forallb_forall in H. specialize (H _ Hin). unfold table_check in H.
  cbn [fst snd] in H. apply andb_true_iff in H. destruct H as [H H3].
  apply andb_true_iff in H. destruct H as [H1 H2].
  split; [|split].
  - destruct (first_some ext_table [] (rev (dot_suffixes e) ++ [e])) as [g'|]; [|discriminate].
    apply N.eqb_eq in H1. congruence.
  - apply negb_true_iff in H2. exact H2.
  - destruct e; [discriminate|discriminate].
Qed.

Theorem registered_suffix_resolves : forall e g dir s,
  In (e, g) ext_table ->
  existsb (N.eqb C_SLASH) s = false ->
  (dir = [] \/ exists d, dir = d ++ [C_SLASH]) ->
  grammar_of ext_table [] (dir ++ s ++ C_DOT :: e) = Some g.
Proof.
  intros e g dir s Hin Hs Hd.
  destruct (ext_table_entry e g Hin) as (Hg & He & _).
  apply grammar_of_suffix; [|exact Hd|exact Hg].
  apply no_slash_app. split; [exact Hs|].
  apply no_slash_cons. split; [reflexivity|exact He].
Qed.

Theorem registered_whole_name_resolves : forall e g dir,
  In (e, g) ext_table ->
  (dir = [] \/ exists d, dir = d ++ [C_SLASH]) ->
  grammar_of ext_table [] (dir ++ e) = Some g.
Proof.
  intros e g dir Hin Hd.
  destruct (ext_table_entry e g Hin) as (Hg & He & Hne).
  rewrite (grammar_of_name ext_table [] dir e He Hd Hne). exact Hg.
Qed.

(* ---------- 1d. unknown names are skipped ---------- *)

Theorem unknown_name_skipped : forall table ext_map path,
  (forall c, In c (rev (dot_suffixes (file_name path)) ++ [file_name path]) ->
             lookup_ext table ext_map c = None) ->
  grammar_of table ext_map path = None.
Proof.
  intros table ext_map path H. unfold grammar_of.
  destruct (file_name path) as [|c r] eqn:E; [reflexivity|].
  apply first_some_none. exact H.
Qed.

(* the converse, for a non-empty file name *)
Theorem skipped_name_unknown : forall table ext_map path,
  grammar_of table ext_map path = None ->
  file_name path <> [] ->
  forall c, In c (rev (dot_suffixes (file_name path)) ++ [file_name path]) ->
            lookup_ext table ext_map c = None.
Proof.
  intros table ext_map path H Hne. unfold grammar_of in H.
  destruct (file_name path) as [|x r] eqn:E; [congruence|].
  apply first_some_none_inv. exact H.
Qed.

(* ---------- 1e. -E key=value ---------- *)

Theorem remap_applies : forall table ext_map k v g,
  assoc_last k ext_map = Some v -> assoc v table = Some g ->
  lookup_ext table ext_map k = Some g.
Proof.
  intros table ext_map k v g Hk Hv. unfold lookup_ext. rewrite Hk. exact Hv.
Qed.

Theorem no_remap_direct : forall table ext_map k,
  assoc_last k ext_map = None -> lookup_ext table ext_map k = assoc k table.
Proof. intros table ext_map k Hk. unfold lookup_ext. rewrite Hk. reflexivity. Qed.

(* a dot-free extension that resolves (possibly after remapping) decides the grammar *)
Corollary dotless_suffix_resolves : forall table ext_map dir s k g,
  existsb (N.eqb C_SLASH) (s ++ C_DOT :: k) = false ->
  (dir = [] \/ exists d, dir = d ++ [C_SLASH]) ->
  dot_suffixes k = [] ->
  lookup_ext table ext_map k = Some g ->
  grammar_of table ext_map (dir ++ s ++ C_DOT :: k) = Some g.
Proof.
  intros table ext_map dir s k g Hn Hd Hk Hg.
  apply grammar_of_suffix; [exact Hn|exact Hd|].
  rewrite Hk. cbn [rev app first_some]. rewrite Hg. reflexivity.
Qed.

Corollary remapped_suffix_resolves : forall table ext_map dir s k v g,
  existsb (N.eqb C_SLASH) (s ++ C_DOT :: k) = false ->
  (dir = [] \/ exists d, dir = d ++ [C_SLASH]) ->
  dot_suffixes k = [] ->
  assoc_last k ext_map = Some v -> assoc v table = Some g ->
  grammar_of table ext_map (dir ++ s ++ C_DOT :: k) = Some g.
Proof.
  intros table ext_map dir s k v g Hn Hd Hk Hm Hv.
  apply dotless_suffix_resolves; [exact Hn|exact Hd|exact Hk|].
  exact (remap_applies table ext_map k v g Hm Hv).
Qed.

(* dot_suffixes k = [] says exactly that k has no '.' *)
Lemma dot_suffixes_nil_iff k : dot_suffixes k = [] <-> existsb (N.eqb C_DOT) k = false.
Proof.
  induction k as [|c k IH]; cbn [dot_suffixes existsb]; [tauto|].
  rewrite (N.eqb_sym C_DOT c). destruct (c =? C_DOT); cbn [orb]; [split; discriminate|exact IH].
Qed.

(* ---------- 1f. examples: matching is case-sensitive, dots right to left ---------- *)

Example ex_upper_skipped : grammar_of ext_table [] (T "X.PY") = None.
Proof. vm_compute. reflexivity. Qed.

Example ex_lower_resolves : grammar_of ext_table [] (T "x.py") <> None.
Proof. vm_compute. discriminate. Qed.

Example ex_bak_skipped : grammar_of ext_table [] (T "x.py.bak") = None.
Proof. vm_compute. reflexivity. Qed.

Example ex_d_ts : grammar_of ext_table [] (T "x.d.ts") = assoc (T "ts") ext_table
                  /\ grammar_of ext_table [] (T "x.d.ts") <> None.
Proof. vm_compute. split; [reflexivity|discriminate]. Qed.

Example ex_go_mod : grammar_of ext_table [] (T "go.mod") = assoc (T "go") ext_table
                    /\ grammar_of ext_table [] (T "go.mod") <> None.
Proof. vm_compute. split; [reflexivity|discriminate]. Qed.

Example ex_go_sum : grammar_of ext_table [] (T "sub/go.sum") = assoc (T "go") ext_table
                    /\ grammar_of ext_table [] (T "sub/go.sum") <> None.
Proof. vm_compute. split; [reflexivity|discriminate]. Qed.

Example ex_Makefile : grammar_of ext_table [] (T "Makefile") = assoc (T "mk") ext_table
                      /\ grammar_of ext_table [] (T "Makefile") <> None.
Proof. vm_compute. split; [reflexivity|discriminate]. Qed.

Example ex_makefile_dotted_dir :
  grammar_of ext_table [] (T "a.b/makefile") = assoc (T "mk") ext_table
  /\ grammar_of ext_table [] (T "a.b/makefile") <> None.
Proof. vm_compute. split; [reflexivity|discriminate]. Qed.

Example ex_hidden_rs : grammar_of ext_table [] (T ".hidden.rs") = assoc (T "rs") ext_table
                       /\ grammar_of ext_table [] (T ".hidden.rs") <> None.
Proof. vm_compute. split; [reflexivity|discriminate]. Qed.

Example ex_tar_rs : grammar_of ext_table [] (T "x.tar.rs") = assoc (T "rs") ext_table
                    /\ grammar_of ext_table [] (T "x.tar.rs") <> None.
Proof. vm_compute. split; [reflexivity|discriminate]. Qed.

(* -E bak=py makes x.py.bak resolve to the grammar of py; -E PY=py does the same for X.PY *)
Example ex_remap_bak :
  grammar_of ext_table [(T "bak", T "py")] (T "x.py.bak") = assoc (T "py") ext_table.
Proof. vm_compute. reflexivity. Qed.

Example ex_remap_upper :
  grammar_of ext_table [(T "PY", T "py")] (T "X.PY") = assoc (T "py") ext_table.
Proof. vm_compute. reflexivity. Qed.

(* the last binding of a key wins *)
Example ex_remap_last_wins :
  grammar_of ext_table [(T "bak", T "py"); (T "bak", T "rs")] (T "x.bak") = assoc (T "rs") ext_table.
Proof. vm_compute. reflexivity. Qed.

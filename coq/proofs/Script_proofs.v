(* Script_proofs.v - check-lua (C18) and check-ai (C19): argument selection,
   result mapping, fail-closed. The script / the endpoint are oracles. *)
From BW Require Import Merge.
From BWP Require Import TextFacts Keys_proofs Run_proofs.
From Coq Require Import ZifyBool ZifyN ZifyNat.

Arguments N.eqb : simpl never.

(* ---------- the content handed to the script / the endpoint ---------- *)
Lemma extract_no_pattern o pat_attr e b content :
  get_attr pat_attr (b_attrs b) = None -> extract_content o pat_attr e b content = Ok (trim content).
Proof. intros H. unfold extract_content. rewrite H. reflexivity. Qed.

Lemma extract_value_group o pat_attr e b content pat ms me vs ve k :
  get_attr pat_attr (b_attrs b) = Some pat -> o_rx_ok o pat = Some true ->
  o_rx o pat content = Some (Some (ms, me, Some (vs, ve))) -> bslice content vs ve = Some k ->
  extract_content o pat_attr e b content = Ok k.
Proof. intros H Hok Hm Hs. unfold extract_content. rewrite H, Hok, Hm, Hs. reflexivity. Qed.

Lemma extract_whole_match o pat_attr e b content pat ms me k :
  get_attr pat_attr (b_attrs b) = Some pat -> o_rx_ok o pat = Some true ->
  o_rx o pat content = Some (Some (ms, me, None)) -> bslice content ms me = Some k ->
  extract_content o pat_attr e b content = Ok k.
Proof. intros H Hok Hm Hs. unfold extract_content. rewrite H, Hok, Hm, Hs. reflexivity. Qed.

Lemma extract_no_match o pat_attr e b content pat :
  get_attr pat_attr (b_attrs b) = Some pat -> o_rx_ok o pat = Some true ->
  o_rx o pat content = Some None -> extract_content o pat_attr e b content = Ok [].
Proof. intros H Hok Hm. unfold extract_content. rewrite H, Hok, Hm. reflexivity. Qed.

(* ---------- check-lua: result mapping ---------- *)
Definition lua_key (path : str) (b : block) : str := path ++ (58 : char) :: dec (fst (b_ts b)).

Lemma lua_call o path file b script content0 content :
  get_attr (T "check-lua") (b_attrs b) = Some script ->
  content_of file b = Ok content0 ->
  extract_content o (T "check-lua-pattern") E_LUA_PATTERN b content0 = Ok content ->
  check_lua_block o path file b =
    match o_lua o script (lua_key path b) content with
    | None => Err E_ORACLE_MISS
    | Some (cls, msg) =>
      if cls =? 0 then Ok []
      else if cls =? 1 then (let? sev := sev_of (b_attrs b) in Ok [tag_diag b V_LUA sev [script; msg]])
      else Err E_LUA_SCRIPT
    end.
Proof.
  intros H Hc Hx. unfold check_lua_block, lua_key. rewrite H, Hc. cbn [bind]. rewrite Hx. cbn [bind]. reflexivity.
Qed.

(* nil: no diagnostic *)
Theorem lua_nil_passes o path file b script content0 content msg :
  get_attr (T "check-lua") (b_attrs b) = Some script -> content_of file b = Ok content0 ->
  extract_content o (T "check-lua-pattern") E_LUA_PATTERN b content0 = Ok content ->
  o_lua o script (lua_key path b) content = Some (0, msg) ->
  check_lua_block o path file b = Ok [].
Proof. intros H Hc Hx Hl. rewrite (lua_call _ _ _ _ _ _ _ H Hc Hx), Hl. reflexivity. Qed.

(* a string: exactly one check-lua diagnostic carrying it, at the start tag *)
Theorem lua_string_reports_once o path file b script content0 content msg sev :
  get_attr (T "check-lua") (b_attrs b) = Some script -> content_of file b = Ok content0 ->
  extract_content o (T "check-lua-pattern") E_LUA_PATTERN b content0 = Ok content ->
  o_lua o script (lua_key path b) content = Some (1, msg) -> sev_of (b_attrs b) = Ok sev ->
  check_lua_block o path file b = Ok [tag_diag b V_LUA sev [script; msg]].
Proof. intros H Hc Hx Hl Hs. rewrite (lua_call _ _ _ _ _ _ _ H Hc Hx), Hl. cbn. rewrite Hs. reflexivity. Qed.

(* a block without check-lua is not handed to any script *)
Theorem lua_unscripted_silent o path file b :
  get_attr (T "check-lua") (b_attrs b) = None -> check_lua_block o path file b = Ok [].
Proof. intros H. unfold check_lua_block. rewrite H. reflexivity. Qed.

(* the validator is the per-block function applied once to every block *)
Theorem lua_validator_per_block o ctx :
  (forall f bc, In f ctx -> In bc (fc_blocks f) -> prepass_block V_LUA bc = Ok tt) ->
  run_validator o ctx V_LUA =
    fold_right vres_app vres_empty
      (flat_map (fun f => map (fun bc => vres_of (fc_path f) (check_lua_block o (fc_path f) (fc_text f) (bc_block bc)))
                              (fc_blocks f)) ctx).
Proof.
  intros Hpre. unfold run_validator.
  assert (E : flat_map (fun f => flat_map (fun bc => match prepass_block V_LUA bc with Err e => [e] | _ => [] end) (fc_blocks f)) ctx = []).
  { induction ctx as [|f ctx IH]; [reflexivity|]. cbn [flat_map]. rewrite IH by (intros; eapply Hpre; [right|]; eassumption).
    rewrite app_nil_r.
    assert (Hf : forall bc, In bc (fc_blocks f) -> prepass_block V_LUA bc = Ok tt) by (intros; eapply Hpre; [left; reflexivity|assumption]).
    induction (fc_blocks f) as [|bc bs IHb]; [reflexivity|]. cbn [flat_map].
    rewrite (Hf bc (or_introl eq_refl)). cbn [app]. apply IHb. intros; apply Hf; right; assumption. }
  rewrite E. reflexivity.
Qed.

(* ---------- check-ai ---------- *)
Theorem ai_reply_ok_iff r :
  ai_reply_ok r = true <-> str_ascii_lower r = T "ok" \/ str_ascii_lower r = T "ok.".
Proof.
  unfold ai_reply_ok, eq_ignore_ascii_case. rewrite orb_true_iff.
  change (str_ascii_lower (T "OK")) with (T "ok"). change (str_ascii_lower (T "OK.")) with (T "ok.").
  rewrite !str_eqb_eq. tauto.
Qed.

Lemma ai_call o file b cond content0 content :
  get_attr (T "check-ai") (b_attrs b) = Some cond ->
  content_of file b = Ok content0 ->
  extract_content o (T "check-ai-pattern") E_AI_PATTERN b content0 = Ok content ->
  check_ai_block o file b =
    match o_ai o cond content with
    | None => Err E_ORACLE_MISS
    | Some (cls, msg) =>
      if cls =? 0 then
        if ai_reply_ok msg then Ok []
        else (let? sev := sev_of (b_attrs b) in Ok [tag_diag b V_AI sev [trim cond; msg]])
      else Err E_AI_API
    end.
Proof.
  intros H Hc Hx. unfold check_ai_block. rewrite H, Hc. cbn [bind]. rewrite Hx. cbn [bind]. reflexivity.
Qed.

Theorem ai_ok_passes o file b cond content0 content msg :
  get_attr (T "check-ai") (b_attrs b) = Some cond -> content_of file b = Ok content0 ->
  extract_content o (T "check-ai-pattern") E_AI_PATTERN b content0 = Ok content ->
  o_ai o cond content = Some (0, msg) -> ai_reply_ok msg = true ->
  check_ai_block o file b = Ok [].
Proof. intros H Hc Hx Ho Hr. rewrite (ai_call _ _ _ _ _ _ H Hc Hx), Ho. cbn. rewrite Hr. reflexivity. Qed.

Theorem ai_other_reply_reports_once o file b cond content0 content msg sev :
  get_attr (T "check-ai") (b_attrs b) = Some cond -> content_of file b = Ok content0 ->
  extract_content o (T "check-ai-pattern") E_AI_PATTERN b content0 = Ok content ->
  o_ai o cond content = Some (0, msg) -> ai_reply_ok msg = false -> sev_of (b_attrs b) = Ok sev ->
  check_ai_block o file b = Ok [tag_diag b V_AI sev [trim cond; msg]].
Proof. intros H Hc Hx Ho Hr Hs. rewrite (ai_call _ _ _ _ _ _ H Hc Hx), Ho. cbn. rewrite Hr, Hs. reflexivity. Qed.

Theorem ai_unruled_silent o file b :
  get_attr (T "check-ai") (b_attrs b) = None -> check_ai_block o file b = Ok [].
Proof. intros H. unfold check_ai_block. rewrite H. reflexivity. Qed.

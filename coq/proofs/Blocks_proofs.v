(* Blocks_proofs.v - the start-tag stack computes the Dyck matching (Part A);
   the block sort is a sorting permutation (Part B). *)
From BW Require Import SpecBlocks.
From BWP Require Import TextFacts.
From Coq Require Import ZifyBool ZifyN ZifyNat Permutation Sorted.
Arguments N.add : simpl never. Arguments N.sub : simpl never. Arguments N.mul : simpl never.
Arguments N.eqb : simpl never. Arguments N.ltb : simpl never. Arguments N.leb : simpl never.

(* ================= Part A: pair_tags = Dyck matching ================= *)

(* A1, generalised: a Dyck segment is consumed leaving the stack untouched and
   pushing its blocks on the accumulator.  No condition on the stack is needed. *)
Lemma pair_tags_dyck_gen : forall ts bs, Dyck ts bs -> forall rest stack acc,
  pair_tags (ts ++ rest) stack acc = pair_tags rest stack (rev bs ++ acc).
Proof.
  induction 1 as [|a b ba bb Ha IHa Hb IHb|ci c at0 ts te inner bi cj e lo Hi IHi];
    intros rest stack acc.
  - reflexivity.
  - rewrite <- app_assoc, IHa, IHb, rev_app_distr, <- app_assoc. reflexivity.
  - cbn [app pair_tags]. rewrite <- app_assoc, IHi. cbn [app pair_tags].
    rewrite rev_app_distr. reflexivity.
Qed.

Theorem pair_tags_complete : forall ts bs, Dyck ts bs -> pair_tags ts [] [] = Ok bs.
Proof.
  intros ts bs H.
  pose proof (pair_tags_dyck_gen ts bs H [] [] []) as E.
  rewrite !app_nil_r in E. rewrite E. cbn [pair_tags]. rewrite rev_involutive. reflexivity.
Qed.

(* A3 *)
Lemma pair_tags_outcomes_gen : forall ts stack acc,
  (exists bs, pair_tags ts stack acc = Ok bs) \/ pair_tags ts stack acc = Err E_PARSE.
Proof.
  induction ts as [|t ts IH]; intros stack acc; cbn [pair_tags].
  - destruct stack; [left; eauto|right; reflexivity].
  - destruct t as [ci c a ts0 te0|cj e lo].
    + apply IH.
    + destruct stack as [|[ci c a ts0 te0|cj' e' lo'] stack'];
        [right; reflexivity|apply IH|right; reflexivity].
Qed.

Theorem pair_tags_outcomes : forall ts,
  (exists bs, pair_tags ts [] [] = Ok bs) \/ pair_tags ts [] [] = Err E_PARSE.
Proof. intros ts. apply pair_tags_outcomes_gen. Qed.

(* A2.  Frames pre stack acc: the consumed prefix `pre` decomposes as
     d_0 ++ [s_1] ++ d_1 ++ ... ++ [s_n] ++ d_n
   where stack = [s_n; ...; s_1], every d_i is Dyck with blocks b_i, and
   acc = rev b_n ++ ... ++ rev b_0. *)
Inductive Frames : list ptag -> list ptag -> list block -> Prop :=
| Frames_nil : forall d b, Dyck d b -> Frames d [] (rev b)
| Frames_cons : forall pre stack acc s d b,
    Frames pre stack acc -> Dyck d b ->
    Frames (pre ++ s :: d) (s :: stack) (rev b ++ acc).

Lemma Frames_extend pre stack acc d b :
  Frames pre stack acc -> Dyck d b -> Frames (pre ++ d) stack (rev b ++ acc).
Proof.
  intros HF Hd. destruct HF as [d0 b0 H0|pre stack acc s d0 b0 HF H0].
  - rewrite <- rev_app_distr. apply Frames_nil. apply Dyck_cat; assumption.
  - rewrite <- app_assoc. cbn [app]. rewrite app_assoc, <- rev_app_distr.
    apply Frames_cons; [exact HF|]. apply Dyck_cat; assumption.
Qed.

Lemma pair_tags_sound_gen : forall ts stack acc bs,
  pair_tags ts stack acc = Ok bs ->
  forall pre, Frames pre stack acc -> Dyck (pre ++ ts) bs.
Proof.
  induction ts as [|t ts IH]; intros stack acc bs Hp pre HF; cbn [pair_tags] in Hp.
  - destruct stack as [|s stack]; [|discriminate].
    inversion Hp; subst bs; clear Hp.
    inversion HF as [d b Hd E1 E2 E3|]; subst.
    rewrite app_nil_r, rev_involutive. exact Hd.
  - destruct t as [ci c a ts0 te0|cj e lo].
    + specialize (IH _ _ _ Hp (pre ++ [PStart ci c a ts0 te0])).
      rewrite <- app_assoc in IH. cbn [app] in IH. apply IH.
      change acc with (rev [] ++ acc). apply Frames_cons; [exact HF|apply Dyck_nil].
    + destruct stack as [|[ci c a ts0 te0|cj' e' lo'] stack']; try discriminate.
      inversion HF as [|pre0 stack0 acc0 s d b HF0 Hd E1 E2 E3]; subst.
      pose proof (Dyck_wrap ci c a ts0 te0 d b cj e lo Hd) as Hw.
      pose proof (Frames_extend _ _ _ _ _ HF0 Hw) as HF1.
      rewrite rev_app_distr in HF1. cbn [rev app] in HF1.
      specialize (IH _ _ _ Hp _ HF1).
      rewrite <- !app_assoc in IH. cbn [app] in IH. rewrite <- !app_assoc in IH.
      rewrite <- app_assoc. cbn [app]. exact IH.
Qed.

Theorem pair_tags_sound : forall ts bs, pair_tags ts [] [] = Ok bs -> Dyck ts bs.
Proof.
  intros ts bs H.
  apply (pair_tags_sound_gen ts [] [] bs H []).
  change (@nil block) with (rev (@nil block)). apply Frames_nil, Dyck_nil.
Qed.

Theorem unbalanced_is_error : forall ts,
  (~ exists bs, Dyck ts bs) -> pair_tags ts [] [] = Err E_PARSE.
Proof.
  intros ts Hn. destruct (pair_tags_outcomes ts) as [[bs H]|H]; [|exact H].
  exfalso. apply Hn. exists bs. apply pair_tags_sound. exact H.
Qed.

(* A4 *)
Theorem dyck_deterministic : forall ts b1 b2, Dyck ts b1 -> Dyck ts b2 -> b1 = b2.
Proof.
  intros ts b1 b2 H1 H2.
  apply pair_tags_complete in H1. apply pair_tags_complete in H2.
  rewrite H1 in H2. inversion H2. reflexivity.
Qed.

(* the matching exists iff the stack accepts: a decision procedure for Dyck *)
Corollary pair_tags_iff : forall ts bs, pair_tags ts [] [] = Ok bs <-> Dyck ts bs.
Proof. intros; split; [apply pair_tags_sound|apply pair_tags_complete]. Qed.

(* ================= Part B: sort_blocks ================= *)

Lemma insert_block_perm b l : Permutation (insert_block b l) (b :: l).
Proof.
  induction l as [|x l IH]; cbn [insert_block]; [reflexivity|].
  destruct (pos_ltb (b_ts x) (b_ts b)); [|reflexivity].
  rewrite IH. apply perm_swap.
Qed.

Theorem sort_blocks_perm : forall l, Permutation (sort_blocks l) l.
Proof.
  induction l as [|b l IH]; cbn [sort_blocks fold_right]; [reflexivity|].
  rewrite insert_block_perm. apply perm_skip. exact IH.
Qed.

(* pos_ltb is a strict total order *)
Lemma pos_ltb_irrefl a : pos_ltb a a = false.
Proof. unfold pos_ltb. lia. Qed.

Lemma pos_ltb_trans a b c : pos_ltb a b = true -> pos_ltb b c = true -> pos_ltb a c = true.
Proof. unfold pos_ltb. lia. Qed.

Lemma pos_ltb_asym a b : pos_ltb a b = true -> pos_ltb b a = false.
Proof. unfold pos_ltb. lia. Qed.

(* negative transitivity: the non-strict order b <= a is transitive *)
Lemma pos_geb_trans a b c : pos_ltb b a = false -> pos_ltb c b = false -> pos_ltb c a = false.
Proof. unfold pos_ltb. lia. Qed.

Definition ble (a b : block) : Prop := pos_ltb (b_ts b) (b_ts a) = false.

Lemma insert_block_Forall (P : block -> Prop) b l :
  P b -> Forall P l -> Forall P (insert_block b l).
Proof.
  intros Hb Hl. eapply Permutation_Forall; [symmetry; apply insert_block_perm|].
  constructor; assumption.
Qed.

Lemma insert_block_sorted b l :
  StronglySorted ble l -> StronglySorted ble (insert_block b l).
Proof.
  induction 1 as [|x l Hs IH Hx]; cbn [insert_block].
  - constructor; constructor.
  - destruct (pos_ltb (b_ts x) (b_ts b)) eqn:E.
    + constructor; [exact IH|].
      apply insert_block_Forall; [|exact Hx].
      unfold ble. apply pos_ltb_asym. exact E.
    + constructor; [constructor; assumption|].
      constructor; [exact E|].
      eapply Forall_impl; [|exact Hx]. intros y Hy. unfold ble in *.
      eapply pos_geb_trans; eassumption.
Qed.

Lemma sort_blocks_StronglySorted l : StronglySorted ble (sort_blocks l).
Proof.
  induction l as [|b l IH]; cbn [sort_blocks fold_right]; [constructor|].
  apply insert_block_sorted. exact IH.
Qed.

Lemma StronglySorted_nth {A} (R : A -> A -> Prop) l :
  StronglySorted R l ->
  forall i j a b, (i < j)%nat -> nth_error l i = Some a -> nth_error l j = Some b -> R a b.
Proof.
  induction 1 as [|x l Hs IH Hx]; intros i j a b Hij Ha Hb.
  - destruct i; discriminate.
  - destruct j as [|j]; [lia|]. cbn [nth_error] in Hb.
    destruct i as [|i].
    + cbn [nth_error] in Ha. inversion Ha; subst.
      rewrite Forall_forall in Hx. apply Hx. eapply nth_error_In; eassumption.
    + cbn [nth_error] in Ha. apply (IH i j); [lia|assumption|assumption].
Qed.

Theorem sort_blocks_sorted : forall l, sorted_by_start (sort_blocks l).
Proof.
  intros l i j a b Hij Ha Hb.
  exact (StronglySorted_nth ble _ (sort_blocks_StronglySorted l) i j a b Hij Ha Hb).
Qed.

(* the sort is stable: blocks with equal keys keep their relative order.  Stated
   as: sorting a list that is already sorted leaves it unchanged. *)
Lemma insert_block_sorted_id b l :
  Forall (ble b) l -> insert_block b l = b :: l.
Proof.
  intros H. destruct l as [|x l]; [reflexivity|]. cbn [insert_block].
  inversion H as [|? ? Hx _]; subst. unfold ble in Hx. rewrite Hx. reflexivity.
Qed.

Theorem sort_blocks_idem l : StronglySorted ble l -> sort_blocks l = l.
Proof.
  induction 1 as [|x l Hs IH Hx]; cbn [sort_blocks fold_right]; [reflexivity|].
  fold (sort_blocks l). rewrite IH. apply insert_block_sorted_id. exact Hx.
Qed.

(* F64_proofs.v - the f64 comparison of the keep-sorted validator
   (theories/Validators.v: f64_is_nan, f64_total_key, f64_num_key, f64_cmp) on
   IEEE-754 binary64 bit patterns, against the exact value of the pattern as a
   scaled integer. *)
From BW Require Import Validators.
From Coq Require Import ZArith Lia ZifyBool ZifyN ZifyNat.
Arguments N.pow : simpl never.
Arguments N.add : simpl never. Arguments N.sub : simpl never. Arguments N.mul : simpl never.
Arguments N.eqb : simpl never. Arguments N.ltb : simpl never. Arguments N.leb : simpl never.
Arguments N.div : simpl never. Arguments N.modulo : simpl never.

(* ---------- the value of a bit pattern ---------- *)
(* |value| * 2^1075 of a finite or infinite pattern (infinity is simply the
   largest magnitude of the non-NaN patterns; the formula is also monotone on
   NaN patterns, which are excluded where it matters):
     subnormal (e = 0):  m * 2^-1074            -> 2 * m
     normal:  (1 + m / 2^52) * 2^(e - 1023)     -> (2^52 + m) * 2^e          *)
Definition f64_mag (bits : N) : N :=
  let e := (bits / 2^52) mod 2^11 in
  let m := bits mod 2^52 in
  if e =? 0 then 2 * m else (2^52 + m) * 2^e.

Definition sval (bits : N) : Z :=
  if bits / 2^63 =? 0 then Z.of_N (f64_mag bits) else (- Z.of_N (f64_mag bits))%Z.

(* the closed powers of two, as literals (lia decides div/mod by literals) *)
Ltac lits :=
  change (2^64) with 18446744073709551616 in *;
  change (2^63) with 9223372036854775808 in *;
  change (2^52) with 4503599627370496 in *;
  change (2^11) with 2048 in *.

(* ---------- B1 ---------- *)
Lemma f64_is_nan_spec : forall bits, bits < 2^64 ->
  (f64_is_nan bits = true <-> (bits / 2^52) mod 2^11 = 2047 /\ bits mod 2^52 <> 0).
Proof.
  intros bits _. unfold f64_is_nan, two63. lits. lia.
Qed.

(* ---------- B4 ---------- *)
Theorem f64_total_key_injective : forall a b, a < 2^64 -> b < 2^64 ->
  f64_total_key a = f64_total_key b -> a = b.
Proof.
  intros a b Ha Hb. unfold f64_total_key, two63. lits.
  destruct (a <? 9223372036854775808) eqn:Ea; destruct (b <? 9223372036854775808) eqn:Eb; lia.
Qed.

Theorem f64_cmp_nan_total : forall a b, (f64_is_nan a || f64_is_nan b) = true ->
  f64_cmp a b = N.compare (f64_total_key a) (f64_total_key b).
Proof. intros a b H. unfold f64_cmp. rewrite H. reflexivity. Qed.

(* total_cmp is a total order on bit patterns: the key is injective and
   compared by the total order of N *)
Corollary f64_total_key_range : forall a, a < 2^64 -> f64_total_key a < 2^64.
Proof.
  intros a Ha. unfold f64_total_key, two63. lits.
  destruct (a <? 9223372036854775808) eqn:Ea; lia.
Qed.

(* ---------- B2 ---------- *)
Lemma pow2_pos e : 0 < 2 ^ e.
Proof. apply N.neq_0_lt_0. apply N.pow_nonzero. discriminate. Qed.

Lemma pow2_step e1 e2 : e1 < e2 -> 2 * 2 ^ e1 <= 2 ^ e2.
Proof.
  intros H. rewrite <- N.pow_succ_r'. apply N.pow_le_mono_r; [discriminate|lia].
Qed.

(* the formula on an (exponent, mantissa) pair *)
Definition mag_em (e m : N) : N := if e =? 0 then 2 * m else (4503599627370496 + m) * 2 ^ e.

Lemma mag_em_lex e1 m1 e2 m2 :
  m1 < 4503599627370496 -> m2 < 4503599627370496 ->
  e1 < e2 \/ (e1 = e2 /\ m1 < m2) -> mag_em e1 m1 < mag_em e2 m2.
Proof.
  intros H1 H2 [Hlt|[-> Hlt]]; unfold mag_em.
  - pose proof (pow2_step e1 e2 Hlt) as Hs. pose proof (pow2_pos e1) as Hp.
    replace (e2 =? 0) with false by lia.
    destruct (e1 =? 0) eqn:E1.
    + assert (e1 = 0) by lia. subst e1. change (2 ^ 0) with 1 in Hs.
      generalize dependent (2 ^ e2). intros q Hs.
      apply N.lt_le_trans with (4503599627370496 * q); [lia|].
      apply N.mul_le_mono_r. lia.
    + generalize dependent (2 ^ e2). generalize dependent (2 ^ e1). intros p Hp q Hs.
      apply N.lt_le_trans with (4503599627370496 * q).
      * apply N.lt_le_trans with (9007199254740992 * p); [|lia].
        apply N.mul_lt_mono_pos_r; [exact Hp|lia].
      * apply N.mul_le_mono_r. lia.
  - destruct (e2 =? 0); [lia|].
    apply N.mul_lt_mono_pos_r; [apply pow2_pos|lia].
Qed.

Lemma f64_mag_em bits :
  f64_mag bits = mag_em ((bits / 4503599627370496) mod 2048) (bits mod 4503599627370496).
Proof. reflexivity. Qed.

Lemma mag_monotone : forall a b, a < 2^63 -> b < 2^63 -> a < b -> f64_mag a < f64_mag b.
Proof.
  intros a b Ha Hb Hab. lits. rewrite !f64_mag_em.
  apply mag_em_lex; lia.
Qed.

(* ---------- B3 ---------- *)
Lemma mag_zero : f64_mag 0 = 0.
Proof. reflexivity. Qed.

Lemma mag_pos x : x < 2^63 -> 0 < x -> 0 < f64_mag x.
Proof.
  intros Hx H0. rewrite <- mag_zero. apply mag_monotone; [reflexivity|exact Hx|exact H0].
Qed.

(* the sign bit does not enter the magnitude *)
Lemma mag_high x : x < 2^63 -> f64_mag (2^63 + x) = f64_mag x.
Proof.
  intros Hx. lits. rewrite !f64_mag_em.
  replace ((9223372036854775808 + x) mod 4503599627370496) with (x mod 4503599627370496) by lia.
  replace (((9223372036854775808 + x) / 4503599627370496) mod 2048)
    with ((x / 4503599627370496) mod 2048) by lia.
  reflexivity.
Qed.

Lemma sval_low x : x < 2^63 -> sval x = Z.of_N (f64_mag x).
Proof.
  intros Hx. unfold sval. lits.
  replace (x / 9223372036854775808 =? 0) with true by lia. reflexivity.
Qed.

Lemma sval_high x : x < 2^63 -> sval (2^63 + x) = (- Z.of_N (f64_mag x))%Z.
Proof.
  intros Hx. unfold sval. rewrite (mag_high x Hx). lits.
  replace ((9223372036854775808 + x) / 9223372036854775808 =? 0) with false by lia. reflexivity.
Qed.

Lemma num_key_low x : x < 2^63 -> f64_num_key x = 2^63 + x.
Proof.
  intros Hx. unfold f64_num_key, f64_total_key, two63. lits.
  replace (x =? 9223372036854775808) with false by lia.
  replace (x <? 9223372036854775808) with true by lia. reflexivity.
Qed.

Lemma num_key_high x : x < 2^63 ->
  f64_num_key (2^63 + x) = if x =? 0 then 2^63 else 2^63 - 1 - x.
Proof.
  intros Hx. unfold f64_num_key, f64_total_key, two63. lits.
  destruct (x =? 0) eqn:E.
  - replace (9223372036854775808 + x =? 9223372036854775808) with true by lia. reflexivity.
  - replace (9223372036854775808 + x =? 9223372036854775808) with false by lia.
    replace (9223372036854775808 + x <? 9223372036854775808) with false by lia. lia.
Qed.

(* trichotomy transported through the magnitude *)
Lemma mag_trichotomy x y : x < 2^63 -> y < 2^63 ->
  (x < y /\ f64_mag x < f64_mag y) \/ (x = y /\ f64_mag x = f64_mag y) \/
  (y < x /\ f64_mag y < f64_mag x).
Proof.
  intros Hx Hy. destruct (N.lt_total x y) as [H|[H|H]].
  - left. split; [exact H|apply mag_monotone; assumption].
  - right; left. subst y. split; reflexivity.
  - right; right. split; [exact H|apply mag_monotone; assumption].
Qed.

Lemma split_sign a : a < 2^64 -> a < 2^63 \/ exists x, x < 2^63 /\ a = 2^63 + x.
Proof.
  intros Ha. lits. destruct (a <? 9223372036854775808) eqn:E; [left; lia|].
  right. exists (a - 9223372036854775808). lia.
Qed.

(* reduce an equation between an N comparison and a Z comparison to arithmetic *)
Ltac cmp_cases :=
  match goal with
  | |- (?A ?= ?B) = (?C ?= ?D)%Z =>
    destruct (N.compare_spec A B); symmetry;
    [apply Z.compare_eq_iff | apply Z.compare_lt_iff | apply Z.compare_gt_iff]
  end.

Theorem f64_cmp_is_numeric : forall a b, a < 2^64 -> b < 2^64 ->
  f64_is_nan a = false -> f64_is_nan b = false ->
  f64_cmp a b = Z.compare (sval a) (sval b).
Proof.
  intros a b Ha Hb Na Nb. unfold f64_cmp. rewrite Na, Nb. cbn [orb].
  destruct (split_sign a Ha) as [Ha'|(x & Hx & ->)];
  destruct (split_sign b Hb) as [Hb'|(y & Hy & ->)].
  - (* + + *)
    rewrite !num_key_low, !sval_low by assumption.
    destruct (mag_trichotomy a b Ha' Hb') as [[H1 H2]|[[H1 H2]|[H1 H2]]];
      lits; cmp_cases; lia.
  - (* + - *)
    rewrite (num_key_low a), (num_key_high y), (sval_low a), (sval_high y) by assumption.
    pose proof (mag_zero) as M0.
    destruct (y =? 0) eqn:Ey.
    + assert (y = 0) by lia. subst y. rewrite M0.
      destruct (N.eq_dec a 0) as [->|Hnz].
      * rewrite M0. reflexivity.
      * pose proof (mag_pos a Ha' ltac:(lia)). lits; cmp_cases; lia.
    + pose proof (mag_pos y Hy ltac:(lia)). lits; cmp_cases; lia.
  - (* - + *)
    rewrite (num_key_low b), (num_key_high x), (sval_low b), (sval_high x) by assumption.
    pose proof (mag_zero) as M0.
    destruct (x =? 0) eqn:Ex.
    + assert (x = 0) by lia. subst x. rewrite M0.
      destruct (N.eq_dec b 0) as [->|Hnz].
      * rewrite M0. reflexivity.
      * pose proof (mag_pos b Hb' ltac:(lia)). lits; cmp_cases; lia.
    + pose proof (mag_pos x Hx ltac:(lia)). lits; cmp_cases; lia.
  - (* - - *)
    rewrite !num_key_high, !sval_high by assumption.
    pose proof (mag_zero) as M0.
    destruct (mag_trichotomy x y Hx Hy) as [[H1 H2]|[[H1 H2]|[H1 H2]]];
      destruct (x =? 0) eqn:Ex; destruct (y =? 0) eqn:Ey;
      try (assert (x = 0) by lia; subst x); try (assert (y = 0) by lia; subst y);
      try rewrite M0 in *; lits; cmp_cases; lia.
Qed.

(* the two zeros compare equal, and both have value 0 *)
Corollary f64_cmp_zeros : f64_cmp 0 two63 = Eq /\ sval 0 = 0%Z /\ sval two63 = 0%Z.
Proof. repeat split. Qed.

(* consequences: on non-NaN patterns f64_cmp is exactly the order of the values *)
Corollary f64_cmp_lt_iff : forall a b, a < 2^64 -> b < 2^64 ->
  f64_is_nan a = false -> f64_is_nan b = false ->
  (f64_cmp a b = Lt <-> (sval a < sval b)%Z).
Proof. intros a b Ha Hb Na Nb. rewrite f64_cmp_is_numeric by assumption. apply Z.compare_lt_iff. Qed.

Corollary f64_cmp_eq_iff : forall a b, a < 2^64 -> b < 2^64 ->
  f64_is_nan a = false -> f64_is_nan b = false ->
  (f64_cmp a b = Eq <-> sval a = sval b).
Proof. intros a b Ha Hb Na Nb. rewrite f64_cmp_is_numeric by assumption. apply Z.compare_eq_iff. Qed.

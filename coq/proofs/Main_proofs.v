(* Main_proofs.v - facts about the model of main.rs / flags.rs (theories/Main.v). *)
From BW Require Import Main.
From BWGen Require Import ExtTable.
From BWP Require Import TextFacts Keys_proofs Context_proofs.
From Coq Require Import ZifyBool ZifyN ZifyNat.
Arguments N.add : simpl never. Arguments N.eqb : simpl never.

(* ---------- map_opt ---------- *)
Lemma map_opt_some {A B} (f : A -> option B) : forall l ys,
  map_opt f l = Some ys -> forall x, In x l -> exists y, f x = Some y /\ In y ys.
Proof.
  induction l as [|a l IH]; intros ys H x Hin; cbn [map_opt] in H.
  - destruct Hin.
  - destruct (f a) as [y|] eqn:Ea; [|discriminate].
    destruct (map_opt f l) as [ys'|] eqn:El; [|discriminate].
    injection H as <-. destruct Hin as [<-|Hin].
    + exists y. split; [exact Ea|left; reflexivity].
    + destruct (IH ys' eq_refl x Hin) as (y' & Hy & Hi). exists y'. split; [exact Hy|right; exact Hi].
Qed.

Lemma map_opt_none {A B} (f : A -> option B) : forall l x,
  In x l -> f x = None -> map_opt f l = None.
Proof.
  induction l as [|a l IH]; intros x Hin Hx; [destruct Hin|].
  cbn [map_opt]. destruct Hin as [<-|Hin].
  - rewrite Hx. reflexivity.
  - rewrite (IH x Hin Hx). destruct (f a); reflexivity.
Qed.

Lemma map_opt_length {A B} (f : A -> option B) : forall l ys, map_opt f l = Some ys -> length ys = length l.
Proof.
  induction l as [|a l IH]; intros ys H; cbn [map_opt] in H.
  - injection H as <-. reflexivity.
  - destruct (f a); [|discriminate]. destruct (map_opt f l) as [ys'|]; [|discriminate].
    injection H as <-. cbn [length]. rewrite (IH ys' eq_refl). reflexivity.
Qed.

(* ---------- validator names ---------- *)
Lemma index_of_none s : forall l i, ~ In s l -> index_of s l i = None.
Proof.
  induction l as [|x l IH]; intros i H; cbn [index_of]; [reflexivity|].
  destruct (str_eqb s x) eqn:E.
  - apply str_eqb_eq in E. subst x. exfalso. apply H. left. reflexivity.
  - apply IH. intro Hin. apply H. right. exact Hin.
Qed.

Lemma index_of_some s : forall l i n, index_of s l i = Some n -> In s l.
Proof.
  induction l as [|x l IH]; intros i n H; cbn [index_of] in H; [discriminate|].
  destruct (str_eqb s x) eqn:E.
  - apply str_eqb_eq in E. subst x. left. reflexivity.
  - right. exact (IH _ _ H).
Qed.

(* a name that is not registered, as typed, is a usage error - whatever else is on the command line,
   and even when the occurrence is one that main would never see (F12) *)
Theorem unknown_validator_is_usage_error : forall a s,
  In s (ca_dis_raw a ++ ca_en_raw a) -> ~ In s validator_names -> plan_of a = Err E_USAGE.
Proof.
  intros a s Hin Hnot. unfold plan_of.
  assert (Hp : parse_validator s = None) by (apply index_of_none; exact Hnot).
  apply in_app_or in Hin. destruct Hin as [Hin|Hin].
  - rewrite (map_opt_none parse_validator _ s Hin Hp).
    destruct (map_opt parse_extension (ca_ext_raw a)); reflexivity.
  - rewrite (map_opt_none parse_validator _ s Hin Hp).
    destruct (map_opt parse_extension (ca_ext_raw a)); [|reflexivity].
    destruct (map_opt parse_validator (ca_dis_raw a)); reflexivity.
Qed.

Ltac plan_cases H :=
  unfold plan_of in H;
  destruct (map_opt parse_extension (ca_ext_raw _)); [|discriminate H];
  destruct (map_opt parse_validator (ca_dis_raw _)); [|discriminate H];
  destruct (map_opt parse_validator (ca_en_raw _)); [|discriminate H].

(* --enable and --disable together never reach the files *)
Theorem enable_and_disable_rejected : forall a,
  effective (ca_dis_pre a) (ca_dis_post a) <> [] -> effective (ca_en_pre a) (ca_en_post a) <> [] ->
  exists e, plan_of a = Err e.
Proof.
  intros a Hd He. unfold plan_of.
  destruct (map_opt parse_extension (ca_ext_raw a)); [|eexists; reflexivity].
  destruct (map_opt parse_validator (ca_dis_raw a)); [|eexists; reflexivity].
  destruct (map_opt parse_validator (ca_en_raw a)); [|eexists; reflexivity].
  destruct (map_opt parse_extension (effective _ _)) as [exts|]; [|eexists; reflexivity].
  destruct (map_opt parse_validator (effective (ca_dis_pre a) _)) as [dis|] eqn:Ed; [|eexists; reflexivity].
  destruct (map_opt parse_validator (effective (ca_en_pre a) _)) as [en|] eqn:Ee; [|eexists; reflexivity].
  destruct (negb (forallb (fun kv => supported (snd kv)) exts)); [eexists; reflexivity|].
  assert (Hdn : nonempty dis = true).
  { apply map_opt_length in Ed. destruct dis; [|reflexivity]. destruct (effective (ca_dis_pre a) _); [congruence|discriminate]. }
  assert (Hen : nonempty en = true).
  { apply map_opt_length in Ee. destruct en; [|reflexivity]. destruct (effective (ca_en_pre a) _); [congruence|discriminate]. }
  rewrite Hdn, Hen. eexists. reflexivity.
Qed.

(* a plan only exists when every -E value main sees is KEY=VALUE with a registered VALUE *)
Theorem plan_ext_supported : forall a p k v,
  plan_of a = Ok p -> In (k, v) (pl_ext p) -> supported v = true.
Proof.
  intros a p k v H Hin. plan_cases H.
  destruct (map_opt parse_extension (effective _ _)) as [exts|]; [|discriminate].
  destruct (map_opt parse_validator (effective (ca_dis_pre a) _)) as [dis|]; [|discriminate].
  destruct (map_opt parse_validator (effective (ca_en_pre a) _)) as [en|]; [|discriminate].
  destruct (forallb (fun kv => supported (snd kv)) exts) eqn:Ef; cbn [negb] in H; [|discriminate].
  destruct (nonempty dis && nonempty en); [discriminate|].
  destruct (negb (ca_globs_ok a)); [discriminate|].
  destruct (negb (if ca_ign_post a =? 0 then _ else _)); [discriminate|].
  destruct (negb (ca_root a)); [discriminate|].
  injection H as <-. cbn [pl_ext] in Hin.
  rewrite forallb_forall in Ef. exact (Ef (k, v) Hin).
Qed.

Lemma plan_never_panics a n : plan_of a <> Panic n.
Proof.
  unfold plan_of.
  destruct (map_opt parse_extension (ca_ext_raw a)); [|discriminate].
  destruct (map_opt parse_validator (ca_dis_raw a)); [|discriminate].
  destruct (map_opt parse_validator (ca_en_raw a)); [|discriminate].
  destruct (map_opt parse_extension (effective _ _)); [|discriminate].
  destruct (map_opt parse_validator (effective (ca_dis_pre a) _)); [|discriminate].
  destruct (map_opt parse_validator (effective (ca_en_pre a) _)); [|discriminate].
  destruct (negb _); [discriminate|]. destruct (_ && _); [discriminate|].
  destruct (negb _); [discriminate|]. destruct (negb _); [discriminate|].
  destruct (negb _); discriminate.
Qed.

Theorem unsupported_ext_rejected : forall a s k v,
  In s (effective (ca_ext_pre a) (ca_ext_post a)) -> parse_extension s = Some (k, v) -> supported v = false ->
  exists e, plan_of a = Err e.
Proof.
  intros a s k v Hin Hs Hv.
  destruct (plan_of a) as [p|e|n] eqn:E; [|eexists; reflexivity|exfalso; exact (plan_never_panics a n E)].
  exfalso. plan_cases E.
  destruct (map_opt parse_extension (effective _ _)) as [exts|] eqn:Ex; [|discriminate].
  destruct (map_opt_some parse_extension _ exts Ex s Hin) as (y & Hy & Hiy).
  rewrite Hs in Hy. injection Hy as <-.
  destruct (map_opt parse_validator (effective (ca_dis_pre a) _)); [|discriminate].
  destruct (map_opt parse_validator (effective (ca_en_pre a) _)); [|discriminate].
  destruct (forallb (fun kv => supported (snd kv)) exts) eqn:Ef; cbn [negb] in E; [|discriminate].
  rewrite forallb_forall in Ef. specialize (Ef (k, v) Hiy). cbn [snd] in Ef. congruence.
Qed.

(* a -E value without '=' is a usage error *)
Lemma find_char_none p : forall s, (forall c, In c s -> p c = false) -> find_char p s = None.
Proof.
  induction s as [|c s IH]; intros H; cbn [find_char]; [reflexivity|].
  rewrite (H c (or_introl eq_refl)). rewrite IH; [reflexivity|].
  intros c' Hc'. apply H. right. exact Hc'.
Qed.

Theorem ext_without_equals_is_usage_error : forall a s,
  In s (ca_ext_raw a) -> ~ In 61 s -> plan_of a = Err E_USAGE.
Proof.
  intros a s Hin Hno. unfold plan_of.
  assert (Hp : parse_extension s = None).
  { unfold parse_extension, split_once. pose proof (find_char_none (N.eqb 61) s) as Hf. unfold str, char in *.
    rewrite Hf; [reflexivity|].
    intros c Hc. destruct (N.eqb_spec 61 c) as [<-|]; [contradiction|reflexivity]. }
  rewrite (map_opt_none parse_extension _ s Hin Hp). reflexivity.
Qed.

(* KEY = VALUE is read with both sides trimmed, split at the FIRST '=' *)
Lemma find_char_first p : forall k c rest, (forall x, In x k -> p x = false) -> p c = true ->
  find_char p (k ++ c :: rest) = Some (k, c :: rest).
Proof.
  induction k as [|x k IH]; intros c rest Hk Hc; cbn [app find_char].
  - rewrite Hc. reflexivity.
  - rewrite (Hk x (or_introl eq_refl)). rewrite IH; [reflexivity| |exact Hc].
    intros y Hy. apply Hk. right. exact Hy.
Qed.

Theorem parse_extension_trims : forall k v, ~ In 61 k ->
  parse_extension (k ++ 61 :: v) = Some (trim k, trim v).
Proof.
  intros k v Hk. unfold parse_extension, split_once.
  pose proof (find_char_first (N.eqb 61) k 61 v) as Hf. unfold str, char in *.
  rewrite Hf; [reflexivity| |reflexivity].
  intros x Hx. destruct (N.eqb_spec 61 x) as [<-|]; [contradiction|reflexivity].
Qed.

(* ---------- the mode matrix ---------- *)
Theorem plan_modes : forall a p, plan_of a = Ok p ->
  pl_scan p = (negb (ca_nglobs a =? 0) || ca_terminal a) /\
  pl_star p = ((ca_nglobs a =? 0) && ca_terminal a) /\
  pl_diff p = (if ca_terminal a then None else Some (ca_stdin a)) /\
  ca_root a = true /\ ca_globs_ok a = true.
Proof.
  intros a p H. plan_cases H.
  destruct (map_opt parse_extension (effective _ _)); [|discriminate].
  destruct (map_opt parse_validator (effective (ca_dis_pre a) _)); [|discriminate].
  destruct (map_opt parse_validator (effective (ca_en_pre a) _)); [|discriminate].
  destruct (negb (forallb _ _)); [discriminate|]. destruct (_ && _); [discriminate|].
  destruct (ca_globs_ok a); cbn [negb] in H; [|discriminate].
  destruct (negb (if ca_ign_post a =? 0 then _ else _)); [discriminate|].
  destruct (ca_root a); cbn [negb] in H; [|discriminate].
  injection H as <-. cbn [pl_scan pl_star pl_diff].
  destruct (ca_nglobs a =? 0), (ca_terminal a); repeat split; reflexivity.
Qed.

(* a diff on stdin is never read in terminal mode; without globs and with a diff nothing is scanned *)
Corollary diff_only_mode : forall a p, plan_of a = Ok p -> ca_terminal a = false -> ca_nglobs a = 0 ->
  pl_scan p = false /\ pl_diff p = Some (ca_stdin a).
Proof.
  intros a p H Ht Hg. destruct (plan_modes a p H) as (Hs & _ & Hd & _).
  rewrite Hs, Hd, Ht, Hg. split; reflexivity.
Qed.

(* with no globs in terminal mode every walked, non-ignored file is scanned *)
Theorem star_scans_every_file : forall p fs tb cd f, pl_star p = true -> In f fs ->
  rf_exists f = true -> rf_ignore f = false ->
  exists f', In f' (rc_files (rcase_of p fs tb cd)) /\ rf_path f' = rf_path f /\ rf_text f' = rf_text f /\ scanned f' = true.
Proof.
  intros p fs tb cd f Hs Hin He Hi. exists (allow_all f). unfold rcase_of. cbn [rc_files]. rewrite Hs.
  split; [apply in_map; exact Hin|]. split; [reflexivity|]. split; [reflexivity|].
  unfold scanned, allow_all. cbn [rf_exists rf_allow rf_ignore]. rewrite He, Hi. reflexivity.
Qed.

(* ---------- failing early; list vs run ---------- *)
Theorem flag_errors_touch_no_file : forall a e fs fs' tb tb' cd cd', plan_of a = Err e ->
  main_model a fs tb cd = MFail e /\ main_model a fs' tb' cd' = MFail e.
Proof. intros a e fs fs' tb tb' cd cd' H. unfold main_model. rewrite H. split; reflexivity. Qed.

Theorem exit_2_iff_usage : forall a fs tb cd,
  main_exit (main_model a fs tb cd) = 2 ->
  plan_of a = Err E_USAGE \/ (exists v, main_model a fs tb cd = MRun v /\ exit_code v = 2).
Proof.
  intros a fs tb cd H. unfold main_model in *.
  destruct (plan_of a) as [p|e|n] eqn:E.
  - right. destruct (ca_list a).
    + cbn [main_exit] in H. destruct (cr_panic _); [discriminate|]. destruct (cr_errs _); discriminate.
    + cbn [main_exit] in H. destruct (vr_panic _); [discriminate|].
      destruct (vr_errs _) eqn:Ev; [|discriminate]. eexists. split; [reflexivity|exact H].
  - left. cbn [main_exit] in H. destruct (N.eqb_spec e E_USAGE) as [->|]; [reflexivity|discriminate].
  - exfalso. exact (plan_never_panics a n E).
Qed.

(* `list` prints the context and nothing else: the validator flags, once accepted, do not matter *)
Theorem list_ignores_validator_flags : forall a a' p p' fs tb cd,
  plan_of a = Ok p -> plan_of a' = Ok p' ->
  pl_scan p = pl_scan p' -> pl_star p = pl_star p' -> pl_diff p = pl_diff p' -> pl_ext p = pl_ext p' ->
  ca_ign_post a = ca_ign_post a' ->
  ca_list a = true -> ca_list a' = true ->
  main_model a fs tb cd = main_model a' fs tb cd.
Proof.
  intros a a' p p' fs tb cd H H' Hs Hst Hd He Hi Hl Hl'. unfold main_model. rewrite H, H', Hl, Hl'.
  f_equal. unfold model_context, model_changes, rcase_of, cdiff_of. cbn [rc_files rc_diff rc_scan rc_ext rc_cdiff].
  assert (Hm : map (effective_file a) fs = map (effective_file a') fs).
  { apply map_ext. intros m. unfold effective_file. rewrite Hi. reflexivity. }
  rewrite Hs, Hst, Hd, He, Hm. reflexivity.
Qed.

(* the run is exactly the model of RunCase on the case main assembles *)
Theorem main_run_is_model_run : forall a p fs tb cd, plan_of a = Ok p -> ca_list a = false ->
  main_model a fs tb cd = MRun (model_run (rcase_of p (map (effective_file a) fs) tb cd)).
Proof. intros a p fs tb cd H Hl. unfold main_model. rewrite H, Hl. reflexivity. Qed.

(* ---------- --ignore wins ... over the globs main gets to see (F12) ---------- *)
Lemma effective_unsplit {A} (pre post : list A) : pre = [] \/ post = [] -> effective pre post = pre ++ post.
Proof. intros [H|H]; subst; unfold effective; [destruct post; reflexivity|rewrite app_nil_r; reflexivity]. Qed.

(* a listed file is not ignored by the --ignore globs of the deepest level *)
Theorem listed_file_not_effectively_ignored : forall a ms tb cd cr fc,
  main_model a ms tb cd = MList cr -> In fc (cr_ctx cr) ->
  exists m, In m ms /\ fc_path fc = rf_path (mf_file m) /\
            (if ca_ign_post a =? 0 then mf_ign_pre m else mf_ign_post m) = false.
Proof.
  intros a ms tb cd cr fc H Hin. unfold main_model in H.
  destruct (plan_of a) as [p|e|n]; [|discriminate|discriminate].
  destruct (ca_list a); [|discriminate]. injection H as <-.
  unfold model_context in Hin.
  destruct (model_changes _) as [ch|e|n]; [|destruct Hin|destruct Hin].
  apply ignored_never_examined_any in Hin. destruct Hin as (f & Hf & Hp & Hi).
  unfold rcase_of in Hf. cbn [rc_files] in Hf.
  assert (Hm : exists m, In m ms /\ rf_path f = rf_path (mf_file m) /\ rf_ignore f = rf_ignore (effective_file a m)).
  { destruct (pl_star p).
    - apply in_map_iff in Hf. destruct Hf as (g & <- & Hg). apply in_map_iff in Hg. destruct Hg as (m & <- & Hm).
      exists m. repeat split; [exact Hm]. 
    - apply in_map_iff in Hf. destruct Hf as (m & <- & Hm). exists m. repeat split; exact Hm. }
  destruct Hm as (m & Hm & Hpath & Hig). exists m. split; [exact Hm|]. split; [congruence|].
  rewrite Hig in Hi. exact Hi.
Qed.

(* unless the --ignore flags are split around the subcommand, --ignore wins: a listed file
   matches no --ignore glob at all.  (mf_ign_post is false when nothing was typed after `list`.) *)
Theorem ignore_wins_unless_split : forall a ms tb cd cr fc,
  main_model a ms tb cd = MList cr -> In fc (cr_ctx cr) ->
  (ca_ign_post a = 0 -> forall m, In m ms -> mf_ign_post m = false) ->
  (ca_ign_post a <> 0 -> forall m, In m ms -> mf_ign_pre m = true -> mf_ign_post m = true) ->
  exists m, In m ms /\ fc_path fc = rf_path (mf_file m) /\ mf_ign_pre m || mf_ign_post m = false.
Proof.
  intros a ms tb cd cr fc H Hin Hzero Hnosplit.
  destruct (listed_file_not_effectively_ignored a ms tb cd cr fc H Hin) as (m & Hm & Hp & Hi).
  exists m. split; [exact Hm|]. split; [exact Hp|].
  destruct (N.eqb_spec (ca_ign_post a) 0) as [E|E].
  - rewrite Hi, (Hzero E m Hm). reflexivity.
  - rewrite Hi, orb_false_r. destruct (mf_ign_pre m) eqn:Ep; [|reflexivity].
    rewrite (Hnosplit E m Hm Ep) in Hi. discriminate.
Qed.

(* F12: with --ignore typed on both sides of `list` the statement is false - a file matching
   an --ignore glob is examined and listed.  The witness is replayed on the real binary by
   the C15 check (and is the shape of every case in the known class). *)
Definition f12_file : mfile :=
  mkmfile (T "a.py") (T "# <block name=""a"">
x
# </block>
") [mkspan 0 18 K_HASH 0; mkspan 21 31 K_HASH 0] true true false true false.
Definition f12_args : cliargs :=   (* blockwatch --ignore a.py list --ignore b.py *)
  mkcli [] [] [] [] [] [] 1 0 true true true true true [] true.
Theorem ignore_wins_refuted :
  exists cr fc, main_model f12_args [f12_file] (mktables [] [] [] [] []) [] = MList cr /\
                In fc (cr_ctx cr) /\ fc_path fc = T "a.py" /\ mf_ign_pre f12_file = true.
Proof. eexists. eexists. split; [vm_compute; reflexivity|]. split; [left; reflexivity|]. split; reflexivity. Qed.

(* non-vacuity: a command line that is accepted, one that is not *)
Example accepted_command_line :
  exists p, plan_of (mkcli [T "cxx = cpp"] [] [T "check-ai"] [] [] [] 0 0 true true true false true [] true) = Ok p
            /\ pl_ext p = [(T "cxx", T "cpp")] /\ pl_disabled p = [5] /\ pl_scan p = true /\ pl_star p = true.
Proof. eexists. split; [vm_compute; reflexivity|]. repeat split. Qed.
Example rejected_command_line :
  plan_of (mkcli [] [] [T "check-ai"] [] [T "keep-sorted"] [] 0 0 true true true false true [] true) = Err E_FLAGS.
Proof. vm_compute. reflexivity. Qed.
(* the registered names, in registration order, are the validator numbers of the model *)
Example validator_numbering :
  map parse_validator validator_names =
  map Some [V_AFFECTS; V_SORTED; V_UNIQUE; V_PATTERN; V_COUNT; V_AI; V_LUA].
Proof. vm_compute. reflexivity. Qed.

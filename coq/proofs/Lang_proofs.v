(* Lang_proofs.v - the family table against the reflected extension table; kinds. *)
From BW Require Import Lang.
From BWGen Require Import ExtTable.
From BWP Require Import TextFacts Keys_proofs NoPanic_proofs.
From Coq Require Import ZifyBool ZifyN ZifyNat.
Arguments N.add : simpl never. Arguments N.eqb : simpl never.

(* every registered suffix shares its parser object with a hand-listed suffix, so the derived
   table has exactly the registered suffixes, in the same order *)
Theorem every_class_known : forallb (fun kv => match class_family (snd kv) with Some _ => true | None => false end) ext_table = true.
Proof. vm_compute. reflexivity. Qed.
Theorem family_table_keys : map fst family_table = map fst ext_table.
Proof. vm_compute. reflexivity. Qed.
(* the hand-listed conventions are the ones the derived table assigns (no two hand-listed suffixes of
   one parser object disagree), for every hand-listed suffix that is registered *)
Theorem family_hand_consistent :
  forallb (fun sf => match assoc (fst sf) ext_table with
                     | None => true
                     | Some _ => match assoc (fst sf) family_table with Some f => f =? snd sf | None => false end
                     end) family_hand = true.
Proof. vm_compute. reflexivity. Qed.

(* suffixes that share a grammar (one parser object in language_parsers()) share a family *)
Definition same_class_same_family : bool :=
  forallb (fun a => forallb (fun b =>
    negb (snd a =? snd b) ||
    match assoc (fst a) family_table, assoc (fst b) family_table with
    | Some x, Some y => x =? y
    | _, _ => false
    end) ext_table) ext_table.
Theorem family_respects_grammar : same_class_same_family = true.
Proof. vm_compute. reflexivity. Qed.

(* a lookup only depends on which keys a table has *)
Lemma assoc_none_keys {A B} (t1 : list (str * A)) (t2 : list (str * B)) k :
  map fst t1 = map fst t2 -> (assoc k t1 = None <-> assoc k t2 = None).
Proof.
  revert t2. induction t1 as [|[k1 v1] t1 IH]; intros [|[k2 v2] t2] H; cbn [map fst] in H; try discriminate.
  - tauto.
  - injection H as Hk Ht. subst k2. cbn [assoc]. destruct (str_eqb k k1).
    + split; discriminate.
    + apply IH. exact Ht.
Qed.

Lemma first_some_none_keys (t1 t2 : list (str * N)) m cands :
  map fst t1 = map fst t2 -> (first_some t1 m cands = None <-> first_some t2 m cands = None).
Proof.
  intros H. induction cands as [|e r IH]; cbn [first_some]; [tauto|].
  unfold lookup_ext.
  pose proof (assoc_none_keys t1 t2 (match assoc_last e m with Some v => v | None => e end) H) as Hk.
  destruct (assoc _ t1) as [g1|] eqn:E1, (assoc _ t2) as [g2|] eqn:E2.
  - split; discriminate.
  - exfalso. destruct Hk as [_ Hk]. specialize (Hk eq_refl). discriminate.
  - exfalso. destruct Hk as [Hk _]. specialize (Hk eq_refl). discriminate.
  - exact IH.
Qed.

(* a file has a family exactly when it has a grammar *)
Theorem family_iff_grammar : forall m p,
  family_of m p = None <-> grammar_of ext_table m p = None.
Proof.
  intros m p. unfold family_of, grammar_of. destruct (file_name p); [tauto|].
  apply first_some_none_keys. exact family_table_keys.
Qed.

(* rekind touches nothing but the kind *)
Theorem rekind_extents : forall m p t sps,
  map (fun sp => (cs_lo sp, cs_hi sp, cs_group sp)) (rekind m p t sps) =
  map (fun sp => (cs_lo sp, cs_hi sp, cs_group sp)) sps.
Proof. intros m p t sps. unfold rekind. rewrite map_map. reflexivity. Qed.

Theorem rekind_idempotent : forall m p t sps, rekind m p t (rekind m p t sps) = rekind m p t sps.
Proof. intros m p t sps. unfold rekind. rewrite map_map. apply map_ext. intros sp. reflexivity. Qed.

(* only html / xml files get the one normaliser that has a contract *)
Theorem kind_xml_only_for_xml_family : forall fam raw g, kind_of fam raw g = K_XML -> fam = F_XML.
Proof.
  intros fam raw g. unfold kind_of.
  repeat match goal with
  | |- context [if ?c =? ?d then _ else _] => destruct (N.eqb_spec c d); [subst; try discriminate|]
  | |- context [if is_block_comment ?r then _ else _] => destruct (is_block_comment r); try discriminate
  end; try discriminate; auto.
Qed.

Corollary registered_normalisers_total : forall fam raw g site,
  fam <> F_XML -> normalise (kind_of fam raw g) raw <> Panic site.
Proof.
  intros fam raw g site Hf. apply normalise_no_panic.
  intro Hk. apply Hf. exact (kind_xml_only_for_xml_family fam raw g Hk).
Qed.

(* Keys2_proofs.v - validator-level statements for keep-sorted, keep-unique and
   line-pattern: non-numeric keys under the numeric format fail the run (K1),
   what the keys of a pattern are (K2), and the exact outcome of keep-unique
   (K3), line-pattern (K4) and lexicographic keep-sorted (K5) for one block. *)
From BW Require Import Validators.
From BWP Require Import TextFacts Keys_proofs F64_proofs.
From Coq Require Import ZifyBool ZifyN ZifyNat.
From Coq Require Import Sorted.
Arguments N.add : simpl never. Arguments N.sub : simpl never. Arguments N.mul : simpl never.
Arguments N.eqb : simpl never. Arguments N.ltb : simpl never. Arguments N.leb : simpl never.

(* ====================================================================== *)
(* K1  non-numeric keys under the numeric format                           *)
(* ====================================================================== *)

(* (a) the comparison itself *)
Theorem sort_cmp_numeric_err_left o a b :
  o_f64 o a = Some None -> sort_cmp o Numeric a b = Err E_NOT_NUMBER.
Proof. intros H. unfold sort_cmp. rewrite H. reflexivity. Qed.

Theorem sort_cmp_numeric_err_right o a b xa :
  o_f64 o a = Some (Some xa) -> o_f64 o b = Some None ->
  sort_cmp o Numeric a b = Err E_NOT_NUMBER.
Proof. intros Ha Hb. unfold sort_cmp. rewrite Ha, Hb. reflexivity. Qed.

Theorem sort_cmp_numeric_err o a b :
  (o_f64 o a = Some None -> sort_cmp o Numeric a b = Err E_NOT_NUMBER) /\
  (forall xa, o_f64 o a = Some (Some xa) -> o_f64 o b = Some None ->
              sort_cmp o Numeric a b = Err E_NOT_NUMBER).
Proof.
  split; [apply sort_cmp_numeric_err_left|intros xa; apply sort_cmp_numeric_err_right].
Qed.

(* equal texts: no fast path skips the parse *)
Corollary sort_cmp_numeric_err_equal o a :
  o_f64 o a = Some None -> sort_cmp o Numeric a a = Err E_NOT_NUMBER.
Proof. apply sort_cmp_numeric_err_left. Qed.

(* the only ways a numeric comparison ends: used to show the statement above is tight *)
Lemma sort_cmp_numeric_cases o a b :
  sort_cmp o Numeric a b =
  match o_f64 o a, o_f64 o b with
  | None, _ => Err E_ORACLE_MISS
  | Some None, _ => Err E_NOT_NUMBER
  | Some (Some _), None => Err E_ORACLE_MISS
  | Some (Some _), Some None => Err E_NOT_NUMBER
  | Some (Some xa), Some (Some xb) => Ok (f64_cmp xa xb)
  end.
Proof. unfold sort_cmp. destruct (o_f64 o a) as [[xa|]|]; reflexivity. Qed.

(* (b) lifted to the scan *)
Definition cmp_viol (o : oracles) (fmt : sort_format) (want : comparison) : str -> str -> res bool :=
  fun p c => let? r := sort_cmp o fmt p c in Ok (cmp_eqb r want).

(* the violation test of keep_sorted, by direction *)
Definition sort_viol (o : oracles) (fmt : sort_format) (asc : bool) : str -> str -> res bool :=
  cmp_viol o fmt (if asc then Gt else Lt).

(* `a` is not a number, or `a` is one and `b` is not (both known to the oracle
   as far as they are looked at: the comparison parses `a` first) *)
Definition not_number_pair (o : oracles) (a b : str) : Prop :=
  o_f64 o a = Some None \/
  ((exists xa, o_f64 o a = Some (Some xa)) /\ o_f64 o b = Some None).

Lemma cmp_viol_numeric_err o want a b :
  not_number_pair o a b -> cmp_viol o Numeric want a b = Err E_NOT_NUMBER.
Proof.
  intros [H|[[xa Ha] Hb]]; unfold cmp_viol.
  - rewrite sort_cmp_numeric_err_left by exact H. reflexivity.
  - rewrite (sort_cmp_numeric_err_right o a b xa) by assumption. reflexivity.
Qed.

Corollary cmp_viol_numeric_err_equal o want a :
  o_f64 o a = Some None -> cmp_viol o Numeric want a a = Err E_NOT_NUMBER.
Proof. intros H. apply cmp_viol_numeric_err. left; exact H. Qed.

Section Scan.
Context (viol : str -> str -> res bool).

(* no totality assumption is needed in this direction *)
Lemma InOrder_ks_scan prev ks : InOrder viol prev ks -> ks_scan viol prev ks = Ok None.
Proof.
  revert prev; induction ks as [|x ks IH]; intros prev; cbn [InOrder ks_scan]; [reflexivity|].
  intros [Hv H]. rewrite Hv. cbn [bind]. apply IH. exact H.
Qed.

Lemma ks_scan_none_InOrder prev ks : ks_scan viol prev ks = Ok None -> InOrder viol prev ks.
Proof.
  revert prev; induction ks as [|x ks IH]; intros prev; cbn [InOrder ks_scan]; [tauto|].
  destruct (viol prev (k_val x)) as [[|]| |]; cbn [bind]; try discriminate.
  intros H. split; [reflexivity|apply IH; exact H].
Qed.

(* a clean prefix is skipped: the scan resumes after its last key *)
Lemma ks_scan_skip prev pre k1 rest :
  ks_scan viol prev (pre ++ [k1]) = Ok None ->
  ks_scan viol prev (pre ++ k1 :: rest) = ks_scan viol (k_val k1) rest.
Proof.
  revert prev; induction pre as [|p pre IH]; intros prev; cbn [app ks_scan].
  - destruct (viol prev (k_val k1)) as [[|]| |]; cbn [bind]; try discriminate. reflexivity.
  - destruct (viol prev (k_val p)) as [[|]| |]; cbn [bind]; try discriminate. apply IH.
Qed.

Lemma ks_check_skip pre k1 rest :
  ks_check viol (pre ++ [k1]) = Ok None ->
  ks_check viol (pre ++ k1 :: rest) = ks_scan viol (k_val k1) rest.
Proof.
  destruct pre as [|p pre]; cbn [app ks_check].
  - reflexivity.
  - apply ks_scan_skip.
Qed.

(* the first failing comparison after a clean prefix fails the whole check *)
Lemma ks_check_first_err pre k1 k2 rest e :
  ks_check viol (pre ++ [k1]) = Ok None ->
  viol (k_val k1) (k_val k2) = Err e ->
  ks_check viol (pre ++ k1 :: k2 :: rest) = Err e.
Proof.
  intros Hp He. rewrite ks_check_skip by exact Hp. cbn [ks_scan]. rewrite He. reflexivity.
Qed.
End Scan.

(* "every adjacent pair inside pre ++ [k1] is numeric and in order" is
   `ks_check viol (pre ++ [k1]) = Ok None`; it is the same as InOrder: *)
Lemma ks_check_clean_iff viol k0 ks :
  ks_check viol (k0 :: ks) = Ok None <-> InOrder viol (k_val k0) ks.
Proof.
  cbn [ks_check]. split; [apply ks_scan_none_InOrder|apply InOrder_ks_scan].
Qed.

(* in the numeric format a clean pair means both keys parsed and the order holds *)
Lemma cmp_viol_numeric_ok_false o want a b :
  cmp_viol o Numeric want a b = Ok false <->
  exists xa xb, o_f64 o a = Some (Some xa) /\ o_f64 o b = Some (Some xb) /\
                cmp_eqb (f64_cmp xa xb) want = false.
Proof.
  unfold cmp_viol. rewrite sort_cmp_numeric_cases.
  destruct (o_f64 o a) as [[xa|]|]; [destruct (o_f64 o b) as [[xb|]|]|..]; cbn [bind].
  - split.
    + intros H. inversion H as [H']. exists xa, xb. rewrite H'. auto.
    + intros (xa' & xb' & Ha & Hb & Hc). inversion Ha; inversion Hb; subst. rewrite Hc. reflexivity.
  - split; [discriminate|]. intros (? & ? & _ & H & _); discriminate.
  - split; [discriminate|]. intros (? & ? & _ & H & _); discriminate.
  - split; [discriminate|]. intros (? & ? & H & _); discriminate.
  - split; [discriminate|]. intros (? & ? & H & _); discriminate.
Qed.

Theorem ks_check_not_number o want pre k1 k2 rest :
  ks_check (cmp_viol o Numeric want) (pre ++ [k1]) = Ok None ->
  not_number_pair o (k_val k1) (k_val k2) ->
  ks_check (cmp_viol o Numeric want) (pre ++ k1 :: k2 :: rest) = Err E_NOT_NUMBER.
Proof.
  intros Hp Hn. apply ks_check_first_err; [exact Hp|]. apply cmp_viol_numeric_err. exact Hn.
Qed.

(* special case: the first two keys *)
Corollary ks_check_not_number_first o want k1 k2 rest :
  not_number_pair o (k_val k1) (k_val k2) ->
  ks_check (cmp_viol o Numeric want) (k1 :: k2 :: rest) = Err E_NOT_NUMBER.
Proof. intros Hn. apply (ks_check_not_number o want [] k1 k2 rest); [reflexivity|exact Hn]. Qed.

(* two equal non-numeric keys: still an error *)
Corollary ks_check_not_number_equal o want k1 k2 rest :
  k_val k1 = k_val k2 -> o_f64 o (k_val k1) = Some None ->
  ks_check (cmp_viol o Numeric want) (k1 :: k2 :: rest) = Err E_NOT_NUMBER.
Proof. intros _ H. apply ks_check_not_number_first. left; exact H. Qed.

(* (c) validator level *)
Definition sort_pat (b : block) : str :=
  match get_attr (T "keep-sorted-pattern") (b_attrs b) with Some p => p | None => [] end.

Definition dir_word (asc : bool) : str := if asc then T "asc" else T "desc".

(* keep_sorted once its attributes, content and keys are known *)
Lemma keep_sorted_unfold o file b v asc fmt content ks :
  get_attr (T "keep-sorted") (b_attrs b) = Some v ->
  parse_direction v = Ok asc ->
  parse_format (b_attrs b) = Ok fmt ->
  content_of file b = Ok content ->
  keys_of o (sort_pat b) E_SORT_PATTERN content = Ok ks ->
  keep_sorted o file b =
  (let? r := ks_check (sort_viol o fmt asc) ks in
   match r with
   | None => Ok []
   | Some k => let? sev := sev_of (b_attrs b) in
               Ok [key_diag b k V_SORTED sev [dir_word asc]]
   end).
Proof.
  intros H Hd Hf Hc Hk. unfold keep_sorted. rewrite H, Hd. cbn [bind]. cbv zeta.
  rewrite Hf. cbn [bind]. rewrite Hc. cbn [bind]. fold (sort_pat b). rewrite Hk. cbn [bind].
  reflexivity.
Qed.

Theorem keep_sorted_not_number_after_clean_prefix o file b v asc content pre k1 k2 rest :
  get_attr (T "keep-sorted") (b_attrs b) = Some v ->
  parse_direction v = Ok asc ->
  parse_format (b_attrs b) = Ok Numeric ->
  content_of file b = Ok content ->
  keys_of o (sort_pat b) E_SORT_PATTERN content = Ok (pre ++ k1 :: k2 :: rest) ->
  ks_check (sort_viol o Numeric asc) (pre ++ [k1]) = Ok None ->
  not_number_pair o (k_val k1) (k_val k2) ->
  keep_sorted o file b = Err E_NOT_NUMBER.
Proof.
  intros H Hd Hf Hc Hk Hp Hn.
  rewrite (keep_sorted_unfold o file b v asc Numeric content _ H Hd Hf Hc Hk).
  unfold sort_viol in *. rewrite ks_check_not_number by assumption. reflexivity.
Qed.

Theorem keep_sorted_not_number o file b v asc content k1 k2 rest :
  get_attr (T "keep-sorted") (b_attrs b) = Some v ->
  parse_direction v = Ok asc ->
  parse_format (b_attrs b) = Ok Numeric ->
  content_of file b = Ok content ->
  keys_of o (sort_pat b) E_SORT_PATTERN content = Ok (k1 :: k2 :: rest) ->
  not_number_pair o (k_val k1) (k_val k2) ->
  keep_sorted o file b = Err E_NOT_NUMBER.
Proof.
  intros H Hd Hf Hc Hk Hn.
  apply (keep_sorted_not_number_after_clean_prefix o file b v asc content [] k1 k2 rest);
    try assumption. reflexivity.
Qed.

(* two identical non-numeric lines do not pass silently *)
Corollary keep_sorted_not_number_equal o file b v asc content k1 k2 rest :
  get_attr (T "keep-sorted") (b_attrs b) = Some v ->
  parse_direction v = Ok asc ->
  parse_format (b_attrs b) = Ok Numeric ->
  content_of file b = Ok content ->
  keys_of o (sort_pat b) E_SORT_PATTERN content = Ok (k1 :: k2 :: rest) ->
  k_val k1 = k_val k2 -> o_f64 o (k_val k1) = Some None ->
  keep_sorted o file b = Err E_NOT_NUMBER.
Proof.
  intros H Hd Hf Hc Hk _ Hn.
  apply (keep_sorted_not_number o file b v asc content k1 k2 rest); try assumption. left; exact Hn.
Qed.

(* (d) the parse is lazy: with fewer than two keys nothing is compared, so
   nothing can fail - in either format, whatever the oracle says *)
Theorem keep_sorted_lazy o file b v asc fmt content ks :
  get_attr (T "keep-sorted") (b_attrs b) = Some v ->
  parse_direction v = Ok asc ->
  parse_format (b_attrs b) = Ok fmt ->
  content_of file b = Ok content ->
  keys_of o (sort_pat b) E_SORT_PATTERN content = Ok ks ->
  (length ks <= 1)%nat ->
  keep_sorted o file b = Ok [].
Proof.
  intros H Hd Hf Hc Hk Hl.
  rewrite (keep_sorted_unfold o file b v asc fmt content _ H Hd Hf Hc Hk).
  destruct ks as [|k [|k' ks]]; [reflexivity|reflexivity|cbn [length] in Hl; lia].
Qed.

Corollary keep_sorted_no_key o file b v asc fmt content :
  get_attr (T "keep-sorted") (b_attrs b) = Some v ->
  parse_direction v = Ok asc ->
  parse_format (b_attrs b) = Ok fmt ->
  content_of file b = Ok content ->
  keys_of o (sort_pat b) E_SORT_PATTERN content = Ok [] ->
  keep_sorted o file b = Ok [].
Proof. intros H Hd Hf Hc Hk. apply (keep_sorted_lazy o file b v asc fmt content []); auto. Qed.

Corollary keep_sorted_single_key o file b v asc fmt content k :
  get_attr (T "keep-sorted") (b_attrs b) = Some v ->
  parse_direction v = Ok asc ->
  parse_format (b_attrs b) = Ok fmt ->
  content_of file b = Ok content ->
  keys_of o (sort_pat b) E_SORT_PATTERN content = Ok [k] ->
  keep_sorted o file b = Ok [].
Proof. intros H Hd Hf Hc Hk. apply (keep_sorted_lazy o file b v asc fmt content [k]); auto. Qed.

(* in particular a single non-numeric key under the numeric format passes *)
Corollary keep_sorted_single_non_number_passes o file b v asc content k :
  get_attr (T "keep-sorted") (b_attrs b) = Some v ->
  parse_direction v = Ok asc ->
  parse_format (b_attrs b) = Ok Numeric ->
  content_of file b = Ok content ->
  keys_of o (sort_pat b) E_SORT_PATTERN content = Ok [k] ->
  o_f64 o (k_val k) = Some None ->
  keep_sorted o file b = Ok [].
Proof. intros H Hd Hf Hc Hk _. apply (keep_sorted_single_key o file b v asc Numeric content k); auto. Qed.

(* ====================================================================== *)
(* K2  what the keys are, with a pattern                                   *)
(* ====================================================================== *)

(* the byte range a match contributes: the `value` group if it took part,
   the whole match otherwise *)
Definition rx_span (m : rxmatch) : N * N :=
  match m with
  | (ms, me, Some (vs, ve)) => (vs, ve)
  | (ms, me, None) => (ms, me)
  end.

Lemma rx_span_value ms me vs ve : rx_span (ms, me, Some (vs, ve)) = (vs, ve).
Proof. reflexivity. Qed.
Lemma rx_span_whole ms me : rx_span (ms, me, None) = (ms, me).
Proof. reflexivity. Qed.

(* the key a matching line contributes *)
Definition rx_key (idx : N) (m : rxmatch) (v : str) : key :=
  {| k_idx := idx; k_val := v; k_a := fst (rx_span m) + 1; k_b := snd (rx_span m) |}.

Lemma regex_key_cases o pat idx l :
  regex_key o pat idx l =
  match o_rx o pat l with
  | None => Err E_ORACLE_MISS
  | Some None => Ok None
  | Some (Some m) =>
    match bslice l (fst (rx_span m)) (snd (rx_span m)) with
    | Some v => Ok (Some (rx_key idx m v))
    | None => Err E_ORACLE_MISS
    end
  end.
Proof.
  unfold regex_key. destruct (o_rx o pat l) as [[[[ms me] [[vs ve]|]]|]|]; reflexivity.
Qed.

(* ks is, in order, one key per matching line; non-matching lines contribute nothing *)
Inductive KeysRx (o : oracles) (pat : str) : N -> list str -> list key -> Prop :=
| KR_nil idx : KeysRx o pat idx [] []
| KR_skip idx l ls ks :
    o_rx o pat l = Some None ->
    KeysRx o pat (idx + 1) ls ks ->
    KeysRx o pat idx (l :: ls) ks
| KR_match idx l ls ks m v :
    o_rx o pat l = Some (Some m) ->
    bslice l (fst (rx_span m)) (snd (rx_span m)) = Some v ->
    KeysRx o pat (idx + 1) ls ks ->
    KeysRx o pat idx (l :: ls) (rx_key idx m v :: ks).

Theorem keys_rx_spec o pat idx ls ks :
  keys_rx o pat idx ls = Ok ks <-> KeysRx o pat idx ls ks.
Proof.
  split.
  - revert idx ks; induction ls as [|l ls IH]; intros idx ks; cbn [keys_rx].
    + intros H; inversion H; subst. constructor.
    + rewrite regex_key_cases. destruct (o_rx o pat l) as [[m|]|] eqn:R; cbn [bind]; try discriminate.
      * destruct (bslice l _ _) as [v|] eqn:B; cbn [bind]; try discriminate.
        destruct (keys_rx o pat (idx + 1) ls) as [ks'| |] eqn:E; cbn [bind]; try discriminate.
        intros H; inversion H; subst. eapply KR_match; eauto.
      * destruct (keys_rx o pat (idx + 1) ls) as [ks'| |] eqn:E; cbn [bind]; try discriminate.
        intros H; inversion H; subst. apply KR_skip; auto.
  - intros H; induction H as [idx|idx l ls ks R _ IH|idx l ls ks m v R B _ IH]; cbn [keys_rx].
    + reflexivity.
    + rewrite regex_key_cases, R. cbn [bind]. rewrite IH. reflexivity.
    + rewrite regex_key_cases, R, B. cbn [bind]. rewrite IH. reflexivity.
Qed.

(* the same as a function: the list of keys each (index, line) contributes *)
Fixpoint nseq (idx : N) (n : nat) : list N :=
  match n with O => [] | S n' => idx :: nseq (idx + 1) n' end.

Definition line_keys (o : oracles) (pat : str) (il : N * str) : list key :=
  match o_rx o pat (snd il) with
  | Some (Some m) =>
    match bslice (snd il) (fst (rx_span m)) (snd (rx_span m)) with
    | Some v => [rx_key (fst il) m v]
    | None => []
    end
  | _ => []
  end.

Lemma nseq_length idx n : length (nseq idx n) = n.
Proof. revert idx; induction n as [|n IH]; intros idx; cbn [nseq length]; [reflexivity|]. rewrite IH; reflexivity. Qed.

Lemma nseq_nth idx n i : (i < n)%nat -> nth_error (nseq idx n) i = Some (idx + N.of_nat i).
Proof.
  revert idx i; induction n as [|n IH]; intros idx i Hi; [lia|]. cbn [nseq].
  destruct i as [|i]; cbn [nth_error].
  - f_equal; lia.
  - rewrite IH by lia. f_equal; lia.
Qed.

Theorem keys_rx_flat_map o pat idx ls ks :
  keys_rx o pat idx ls = Ok ks ->
  ks = flat_map (line_keys o pat) (combine (nseq idx (length ls)) ls).
Proof.
  rewrite keys_rx_spec. intros H.
  induction H as [idx|idx l ls ks R _ IH|idx l ls ks m v R B _ IH];
    cbn [length nseq combine flat_map]; [reflexivity|..].
  - unfold line_keys at 1. cbn [fst snd]. rewrite R. cbn [app]. exact IH.
  - unfold line_keys at 1. cbn [fst snd]. rewrite R, B. cbn [app]. f_equal. exact IH.
Qed.

(* ---- table misses ---- *)
(* a line the tables cannot answer: no regex entry, or a reported range that is
   not a slice of the line (off a character boundary or out of range) *)
Definition rx_line_miss (o : oracles) (pat : str) (l : str) : Prop :=
  o_rx o pat l = None \/
  exists m, o_rx o pat l = Some (Some m) /\ bslice l (fst (rx_span m)) (snd (rx_span m)) = None.

Definition rx_line_ok (o : oracles) (pat : str) (l : str) : Prop :=
  o_rx o pat l = Some None \/
  exists m v, o_rx o pat l = Some (Some m) /\ bslice l (fst (rx_span m)) (snd (rx_span m)) = Some v.

Lemma rx_line_ok_or_miss o pat l : rx_line_ok o pat l \/ rx_line_miss o pat l.
Proof.
  unfold rx_line_ok, rx_line_miss. destruct (o_rx o pat l) as [[m|]|] eqn:R.
  - destruct (bslice l (fst (rx_span m)) (snd (rx_span m))) as [v|] eqn:B.
    + left. right. eauto.
    + right. right. eauto.
  - left. left. reflexivity.
  - right. left. reflexivity.
Qed.

Lemma rx_line_ok_not_miss o pat l : rx_line_ok o pat l -> ~ rx_line_miss o pat l.
Proof.
  intros [H|(m & v & H & B)] [H'|(m' & H' & B')]; congruence.
Qed.

Lemma rx_lines_ok_or_miss o pat ls : Forall (rx_line_ok o pat) ls \/ Exists (rx_line_miss o pat) ls.
Proof.
  induction ls as [|l ls [IH|IH]]; [left; constructor| |right; apply Exists_cons_tl; exact IH].
  destruct (rx_line_ok_or_miss o pat l) as [H|H]; [left; constructor; assumption|right; apply Exists_cons_hd; exact H].
Qed.

Lemma regex_key_miss o pat idx l : rx_line_miss o pat l -> regex_key o pat idx l = Err E_ORACLE_MISS.
Proof.
  intros [H|(m & H & B)]; rewrite regex_key_cases, H; [reflexivity|rewrite B; reflexivity].
Qed.

Lemma regex_key_ok o pat idx l : rx_line_ok o pat l -> exists r, regex_key o pat idx l = Ok r.
Proof.
  intros [H|(m & v & H & B)]; rewrite regex_key_cases, H; [eauto|rewrite B; eauto].
Qed.

Lemma keys_rx_total o pat idx ls :
  Forall (rx_line_ok o pat) ls -> exists ks, keys_rx o pat idx ls = Ok ks.
Proof.
  intros H; revert idx; induction H as [|l ls Hl _ IH]; intros idx; cbn [keys_rx]; [eauto|].
  destruct (regex_key_ok o pat idx l Hl) as [r ->]. cbn [bind].
  destruct (IH (idx + 1)) as [ks ->]. cbn [bind]. eauto.
Qed.

Lemma keys_rx_miss o pat idx ls :
  Exists (rx_line_miss o pat) ls -> keys_rx o pat idx ls = Err E_ORACLE_MISS.
Proof.
  intros H; revert idx; induction H as [l ls Hl|l ls _ IH]; intros idx; cbn [keys_rx].
  - rewrite regex_key_miss by exact Hl. reflexivity.
  - destruct (rx_line_ok_or_miss o pat l) as [Hl|Hl].
    + destruct (regex_key_ok o pat idx l Hl) as [r ->]. cbn [bind]. rewrite IH. reflexivity.
    + rewrite regex_key_miss by exact Hl. reflexivity.
Qed.

Theorem keys_rx_miss_iff o pat idx ls :
  keys_rx o pat idx ls = Err E_ORACLE_MISS <-> Exists (rx_line_miss o pat) ls.
Proof.
  split; [|apply keys_rx_miss]. intros H.
  destruct (rx_lines_ok_or_miss o pat ls) as [Hok|Hm]; [|exact Hm].
  destruct (keys_rx_total o pat idx ls Hok) as [ks Hk]. congruence.
Qed.

Theorem keys_rx_ok_iff o pat idx ls :
  (exists ks, keys_rx o pat idx ls = Ok ks) <-> Forall (rx_line_ok o pat) ls.
Proof.
  split; [|apply keys_rx_total]. intros [ks Hk].
  destruct (rx_lines_ok_or_miss o pat ls) as [Hok|Hm]; [exact Hok|].
  rewrite (keys_rx_miss o pat idx ls Hm) in Hk. discriminate.
Qed.

(* no other failure exists: never a panic, never another error class *)
Theorem keys_rx_outcomes o pat idx ls :
  (exists ks, keys_rx o pat idx ls = Ok ks) \/ keys_rx o pat idx ls = Err E_ORACLE_MISS.
Proof.
  destruct (rx_lines_ok_or_miss o pat ls) as [Hok|Hm];
    [left; apply keys_rx_total; exact Hok|right; apply keys_rx_miss; exact Hm].
Qed.

(* ---- length, indices ---- *)
Theorem keys_rx_length o pat idx ls ks :
  keys_rx o pat idx ls = Ok ks -> (length ks <= length ls)%nat.
Proof.
  rewrite keys_rx_spec. intros H; induction H; cbn [length]; lia.
Qed.

(* every key comes from a matching line, at that line's index *)
Theorem keys_rx_In o pat idx ls ks k :
  keys_rx o pat idx ls = Ok ks -> In k ks ->
  exists i l m, nth_error ls i = Some l /\ o_rx o pat l = Some (Some m) /\
    k_idx k = idx + N.of_nat i /\
    bslice l (fst (rx_span m)) (snd (rx_span m)) = Some (k_val k) /\
    k_a k = fst (rx_span m) + 1 /\ k_b k = snd (rx_span m).
Proof.
  rewrite keys_rx_spec. intros H; induction H as [idx|idx l ls ks R _ IH|idx l ls ks m v R B _ IH].
  - intros [].
  - intros Hin. destruct (IH Hin) as (i & l' & m & Hn & Hr & Hi & Hrest).
    exists (S i), l', m. split; [exact Hn|]. split; [exact Hr|]. split; [lia|exact Hrest].
  - intros [<-|Hin].
    + exists 0%nat, l, m. cbn [nth_error rx_key k_idx k_val k_a k_b].
      repeat split; auto. lia.
    + destruct (IH Hin) as (i & l' & m' & Hn & Hr & Hi & Hrest).
      exists (S i), l', m'. split; [exact Hn|]. split; [exact Hr|]. split; [lia|exact Hrest].
Qed.

(* every matching line has its key *)
Theorem keys_rx_complete o pat idx ls ks i l m :
  keys_rx o pat idx ls = Ok ks -> nth_error ls i = Some l -> o_rx o pat l = Some (Some m) ->
  exists v, bslice l (fst (rx_span m)) (snd (rx_span m)) = Some v /\
            In (rx_key (idx + N.of_nat i) m v) ks.
Proof.
  rewrite keys_rx_spec. intros H; revert i.
  induction H as [idx|idx l0 ls ks R _ IH|idx l0 ls ks m0 v R B _ IH]; intros i Hn Hm.
  - destruct i; discriminate.
  - destruct i as [|i]; cbn [nth_error] in Hn.
    + inversion Hn; subst. congruence.
    + destruct (IH i Hn Hm) as (v & Hv & Hin). exists v. split; [exact Hv|].
      replace (idx + N.of_nat (S i)) with (idx + 1 + N.of_nat i) by lia. exact Hin.
  - destruct i as [|i]; cbn [nth_error] in Hn.
    + inversion Hn; subst. rewrite R in Hm. inversion Hm; subst. exists v. split; [exact B|].
      left. f_equal. lia.
    + destruct (IH i Hn Hm) as (v' & Hv & Hin). exists v'. split; [exact Hv|].
      right. replace (idx + N.of_nat (S i)) with (idx + 1 + N.of_nat i) by lia. exact Hin.
Qed.

(* a line without a match contributes no key *)
Theorem keys_rx_no_match_no_key o pat idx ls ks i l :
  keys_rx o pat idx ls = Ok ks -> nth_error ls i = Some l -> o_rx o pat l = Some None ->
  forall k, In k ks -> k_idx k <> idx + N.of_nat i.
Proof.
  intros Hk Hn Hr k Hin Heq.
  destruct (keys_rx_In o pat idx ls ks k Hk Hin) as (i' & l' & m & Hn' & Hr' & Hi & _).
  assert (i' = i) by lia. subst i'. rewrite Hn in Hn'. inversion Hn'; subst. congruence.
Qed.

Lemma keys_rx_idx_bounds o pat idx ls ks k :
  keys_rx o pat idx ls = Ok ks -> In k ks -> idx <= k_idx k < idx + nlen ls.
Proof.
  intros Hk Hin. destruct (keys_rx_In o pat idx ls ks k Hk Hin) as (i & l & m & Hn & _ & Hi & _).
  assert (i < length ls)%nat by (apply nth_error_Some; congruence). unfold nlen. lia.
Qed.

(* line indices strictly increase along the keys *)
Theorem keys_rx_idx_increasing o pat idx ls ks :
  keys_rx o pat idx ls = Ok ks -> StronglySorted (fun a b => k_idx a < k_idx b) ks.
Proof.
  intros H. pose proof H as H0. revert H0. rewrite keys_rx_spec in H.
  induction H as [idx|idx l ls ks R H IH|idx l ls ks m v R B H IH]; intros H0.
  - constructor.
  - apply IH. apply keys_rx_spec. exact H.
  - apply keys_rx_spec in H. constructor; [apply IH; exact H|].
    apply Forall_forall. intros k Hin.
    pose proof (keys_rx_idx_bounds o pat (idx + 1) ls ks k H Hin). cbn [rx_key k_idx]. lia.
Qed.

Corollary keys_rx_idx_adjacent o pat idx ls ks i a b :
  keys_rx o pat idx ls = Ok ks -> pair_at ks i a b -> k_idx a < k_idx b.
Proof.
  intros H. apply keys_rx_idx_increasing in H. revert i.
  induction H as [|x ks Hs IH Hall]; intros i [Ha Hb].
  - destruct i; discriminate.
  - destruct i as [|i]; cbn [nth_error] in Ha, Hb.
    + inversion Ha; subst. rewrite Forall_forall in Hall. apply Hall.
      destruct ks; [discriminate|]. cbn [nth_error] in Hb. inversion Hb; subst. left; reflexivity.
    + apply (IH i). split; assumption.
Qed.

(* keys_of with a compiling, non-empty pattern is keys_rx over the content lines *)
Corollary keys_of_rx_spec o pat e content ks :
  pat <> [] -> o_rx_ok o pat = Some true ->
  (keys_of o pat e content = Ok ks <-> KeysRx o pat 0 (lines content) ks).
Proof.
  intros Hne Hok. unfold keys_of. destruct pat as [|c pat]; [congruence|]. rewrite Hok.
  apply keys_rx_spec.
Qed.

(* ====================================================================== *)
(* K3  keep-unique at validator level                                      *)
(* ====================================================================== *)

Lemma keep_unique_unfold o file b pat content ks :
  get_attr (T "keep-unique") (b_attrs b) = Some pat ->
  content_of file b = Ok content ->
  keys_of o pat E_UNIQUE_PATTERN content = Ok ks ->
  keep_unique o file b =
  match ku_scan [] ks with
  | None => Ok []
  | Some k => let? sev := sev_of (b_attrs b) in Ok [key_diag b k V_UNIQUE sev []]
  end.
Proof.
  intros H Hc Hk. unfold keep_unique. rewrite H, Hc. cbn [bind]. rewrite Hk. cbn [bind]. reflexivity.
Qed.

Lemma ku_scan_nil_none ks : ku_scan [] ks = None <-> NoDup (map k_val ks).
Proof.
  rewrite ku_scan_none. split; [intros [H _]; exact H|intros H; split; [exact H|intros k _ []]].
Qed.

(* k is the first key whose value occurred earlier *)
Definition first_dup (ks : list key) (k : key) : Prop :=
  exists pre post, ks = pre ++ k :: post /\ In (k_val k) (map k_val pre) /\ NoDup (map k_val pre).

Lemma ku_scan_nil_some ks k : ku_scan [] ks = Some k <-> first_dup ks k.
Proof.
  rewrite ku_scan_some. unfold first_dup. split.
  - intros (pre & post & -> & [[]|Hin] & Hd & _). exists pre, post. auto.
  - intros (pre & post & -> & Hin & Hd). exists pre, post.
    split; [reflexivity|]. split; [right; exact Hin|]. split; [exact Hd|]. intros x _ [].
Qed.

Lemma first_dup_unique ks k k' : first_dup ks k -> first_dup ks k' -> k = k'.
Proof. rewrite <- !ku_scan_nil_some. congruence. Qed.

Lemma not_NoDup_first_dup ks : ~ NoDup (map k_val ks) -> exists k, first_dup ks k.
Proof.
  intros Hn. destruct (ku_scan [] ks) as [k|] eqn:E.
  - exists k. apply ku_scan_nil_some. exact E.
  - exfalso. apply Hn. apply ku_scan_nil_none. exact E.
Qed.

Theorem keep_unique_ok_iff o file b pat content ks :
  get_attr (T "keep-unique") (b_attrs b) = Some pat ->
  content_of file b = Ok content ->
  keys_of o pat E_UNIQUE_PATTERN content = Ok ks ->
  (keep_unique o file b = Ok [] <-> NoDup (map k_val ks)).
Proof.
  intros H Hc Hk. rewrite (keep_unique_unfold o file b pat content ks H Hc Hk).
  rewrite <- ku_scan_nil_none. destruct (ku_scan [] ks) as [k|].
  - split; [|discriminate]. destruct (sev_of (b_attrs b)); cbn [bind]; discriminate.
  - tauto.
Qed.

(* the diagnostic, predicted from the keys *)
Theorem keep_unique_first_dup o file b pat content ks k :
  get_attr (T "keep-unique") (b_attrs b) = Some pat ->
  content_of file b = Ok content ->
  keys_of o pat E_UNIQUE_PATTERN content = Ok ks ->
  first_dup ks k ->
  keep_unique o file b = (let? sev := sev_of (b_attrs b) in Ok [key_diag b k V_UNIQUE sev []]).
Proof.
  intros H Hc Hk Hf. rewrite (keep_unique_unfold o file b pat content ks H Hc Hk).
  apply ku_scan_nil_some in Hf. rewrite Hf. reflexivity.
Qed.

Theorem keep_unique_dup o file b pat content ks sev :
  get_attr (T "keep-unique") (b_attrs b) = Some pat ->
  content_of file b = Ok content ->
  keys_of o pat E_UNIQUE_PATTERN content = Ok ks ->
  ~ NoDup (map k_val ks) ->
  sev_of (b_attrs b) = Ok sev ->
  exists k, first_dup ks k /\ keep_unique o file b = Ok [key_diag b k V_UNIQUE sev []].
Proof.
  intros H Hc Hk Hn Hs. destruct (not_NoDup_first_dup ks Hn) as [k Hf]. exists k. split; [exact Hf|].
  rewrite (keep_unique_first_dup o file b pat content ks k H Hc Hk Hf), Hs. reflexivity.
Qed.

Theorem keep_unique_dup_bad_severity o file b pat content ks e :
  get_attr (T "keep-unique") (b_attrs b) = Some pat ->
  content_of file b = Ok content ->
  keys_of o pat E_UNIQUE_PATTERN content = Ok ks ->
  ~ NoDup (map k_val ks) ->
  sev_of (b_attrs b) = Err e ->
  keep_unique o file b = Err e.
Proof.
  intros H Hc Hk Hn Hs. destruct (not_NoDup_first_dup ks Hn) as [k Hf].
  rewrite (keep_unique_first_dup o file b pat content ks k H Hc Hk Hf), Hs. reflexivity.
Qed.

(* sev_of has no other failure: E_SEVERITY, never a panic *)
Lemma sev_of_outcomes a : (exists s, sev_of a = Ok s /\ 1 <= s <= 4) \/ sev_of a = Err E_SEVERITY.
Proof.
  unfold sev_of. destruct (get_attr _ a) as [s|]; [|left; exists 1; split; [reflexivity|lia]].
  repeat match goal with
  | |- context [if ?c then _ else _] => destruct c; [left; eexists; split; [reflexivity|lia]|]
  end. right; reflexivity.
Qed.

(* full outcome table of keep-unique once the keys are known *)
Theorem keep_unique_outcomes o file b pat content ks :
  get_attr (T "keep-unique") (b_attrs b) = Some pat ->
  content_of file b = Ok content ->
  keys_of o pat E_UNIQUE_PATTERN content = Ok ks ->
  (NoDup (map k_val ks) /\ keep_unique o file b = Ok []) \/
  (exists k, first_dup ks k /\
     ((exists sev, sev_of (b_attrs b) = Ok sev /\ keep_unique o file b = Ok [key_diag b k V_UNIQUE sev []]) \/
      (sev_of (b_attrs b) = Err E_SEVERITY /\ keep_unique o file b = Err E_SEVERITY))).
Proof.
  intros H Hc Hk. destruct (ku_scan [] ks) as [k|] eqn:E.
  - right. exists k. apply ku_scan_nil_some in E. split; [exact E|].
    rewrite (keep_unique_first_dup o file b pat content ks k H Hc Hk E).
    destruct (sev_of_outcomes (b_attrs b)) as [(s & Hs & _)|Hs]; rewrite Hs; cbn [bind]; eauto.
  - left. apply ku_scan_nil_none in E. split; [exact E|].
    apply (keep_unique_ok_iff o file b pat content ks H Hc Hk). exact E.
Qed.

(* ====================================================================== *)
(* K4  line-pattern at validator level                                     *)
(* ====================================================================== *)

Definition trim_key (idx : N) (l : str) : key :=
  let a := trim_off l + 1 in
  {| k_idx := idx; k_val := trim l; k_a := a; k_b := a + blen (trim l) - 1 |}.

Lemma trimmed_key_nonblank idx l : trim l <> [] -> trimmed_key idx l = Some (trim_key idx l).
Proof. unfold trimmed_key, trim_key. destruct (trim l); [congruence|reflexivity]. Qed.

Lemma trimmed_key_blank idx l : trim l = [] -> trimmed_key idx l = None.
Proof. unfold trimmed_key. intros ->. reflexivity. Qed.

(* converse of lp_scan_some: the first failing line is the one reported *)
Lemma lp_scan_first_fail o pat idx pre l post :
  Forall (lp_passes o pat) pre -> lp_fails o pat l ->
  lp_scan o pat idx (pre ++ l :: post) = Ok (Some (trim_key (idx + N.of_nat (length pre)) l)).
Proof.
  intros Hp [Hne Hr]. revert idx; induction Hp as [|x pre Hx _ IH]; intros idx; cbn [app lp_scan length].
  - rewrite trimmed_key_nonblank by exact Hne. cbn [trim_key k_val]. rewrite Hr.
    replace (idx + N.of_nat 0) with idx by lia. reflexivity.
  - replace (idx + N.of_nat (S (length pre))) with (idx + 1 + N.of_nat (length pre)) by lia.
    destruct Hx as [Hx|[m Hx]].
    + rewrite trimmed_key_blank by exact Hx. apply IH.
    + destruct (trim x) as [|c t] eqn:E.
      * rewrite trimmed_key_blank by exact E. apply IH.
      * rewrite trimmed_key_nonblank by (rewrite E; discriminate). cbn [trim_key k_val].
        rewrite E, Hx. apply IH.
Qed.

Lemma lp_scan_some_iff o pat idx ls k :
  lp_scan o pat idx ls = Ok (Some k) <->
  exists pre l post, ls = pre ++ l :: post /\ Forall (lp_passes o pat) pre /\ lp_fails o pat l /\
                     k = trim_key (idx + N.of_nat (length pre)) l.
Proof.
  split.
  - intros H. destruct (lp_scan_some o pat idx ls k H) as (pre & l & post & -> & Hp & Hf & Hrest).
    exists pre, l, post. repeat split; try assumption; try apply Hf.
    rewrite (lp_scan_first_fail o pat idx pre l post Hp Hf) in H. inversion H. reflexivity.
  - intros (pre & l & post & -> & Hp & Hf & ->). apply lp_scan_first_fail; assumption.
Qed.

Lemma line_pattern_unfold o file b pat content :
  get_attr (T "line-pattern") (b_attrs b) = Some pat ->
  o_rx_ok o pat = Some true ->
  content_of file b = Ok content ->
  line_pattern o file b =
  (let? r := lp_scan o pat 0 (lines content) in
   match r with
   | None => Ok []
   | Some k => let? sev := sev_of (b_attrs b) in Ok [key_diag b k V_PATTERN sev [pat]]
   end).
Proof. intros H Hok Hc. unfold line_pattern. rewrite H, Hok, Hc. cbn [bind]. reflexivity. Qed.

(* no diagnostic iff every line is blank or has a match in its trimmed text *)
Theorem line_pattern_ok_iff o file b pat content :
  get_attr (T "line-pattern") (b_attrs b) = Some pat ->
  o_rx_ok o pat = Some true ->
  content_of file b = Ok content ->
  (line_pattern o file b = Ok [] <-> Forall (lp_passes o pat) (lines content)).
Proof.
  intros H Hok Hc. rewrite (line_pattern_unfold o file b pat content H Hok Hc).
  rewrite <- (lp_scan_none o pat 0).
  destruct (lp_scan o pat 0 (lines content)) as [[k|]| |]; cbn [bind].
  - split; [|discriminate]. destruct (sev_of (b_attrs b)); cbn [bind]; discriminate.
  - tauto.
  - split; discriminate.
  - split; discriminate.
Qed.

(* the diagnostic is that of the first failing trimmed line *)
Theorem line_pattern_first_fail o file b pat content pre l post :
  get_attr (T "line-pattern") (b_attrs b) = Some pat ->
  o_rx_ok o pat = Some true ->
  content_of file b = Ok content ->
  lines content = pre ++ l :: post ->
  Forall (lp_passes o pat) pre -> lp_fails o pat l ->
  line_pattern o file b =
  (let? sev := sev_of (b_attrs b) in
   Ok [key_diag b (trim_key (N.of_nat (length pre)) l) V_PATTERN sev [pat]]).
Proof.
  intros H Hok Hc Hl Hp Hf. rewrite (line_pattern_unfold o file b pat content H Hok Hc).
  rewrite Hl, (lp_scan_first_fail o pat 0 pre l post Hp Hf). cbn [bind].
  replace (0 + N.of_nat (length pre)) with (N.of_nat (length pre)) by lia. reflexivity.
Qed.

Corollary line_pattern_first_fail_sev o file b pat content pre l post sev :
  get_attr (T "line-pattern") (b_attrs b) = Some pat ->
  o_rx_ok o pat = Some true ->
  content_of file b = Ok content ->
  lines content = pre ++ l :: post ->
  Forall (lp_passes o pat) pre -> lp_fails o pat l ->
  sev_of (b_attrs b) = Ok sev ->
  line_pattern o file b = Ok [key_diag b (trim_key (N.of_nat (length pre)) l) V_PATTERN sev [pat]].
Proof.
  intros H Hok Hc Hl Hp Hf Hs.
  rewrite (line_pattern_first_fail o file b pat content pre l post H Hok Hc Hl Hp Hf), Hs. reflexivity.
Qed.

(* and conversely any diagnostic arises that way *)
Theorem line_pattern_diag_inv o file b pat content d :
  get_attr (T "line-pattern") (b_attrs b) = Some pat ->
  o_rx_ok o pat = Some true ->
  content_of file b = Ok content ->
  line_pattern o file b = Ok [d] ->
  exists pre l post sev, lines content = pre ++ l :: post /\ Forall (lp_passes o pat) pre /\
    lp_fails o pat l /\ sev_of (b_attrs b) = Ok sev /\
    d = key_diag b (trim_key (N.of_nat (length pre)) l) V_PATTERN sev [pat].
Proof.
  intros H Hok Hc. rewrite (line_pattern_unfold o file b pat content H Hok Hc).
  destruct (lp_scan o pat 0 (lines content)) as [[k|]| |] eqn:E; cbn [bind]; try discriminate.
  apply lp_scan_some_iff in E. destruct E as (pre & l & post & Hl & Hp & Hf & ->).
  destruct (sev_of (b_attrs b)) as [sev| |] eqn:Hs; cbn [bind]; try discriminate.
  intros Hd; inversion Hd; subst. exists pre, l, post, sev.
  replace (0 + N.of_nat (length pre)) with (N.of_nat (length pre)) by lia. auto 10.
Qed.

(* the remaining outcome: a table miss on the first line that is neither blank nor answered *)
Theorem line_pattern_outcomes o file b pat content :
  get_attr (T "line-pattern") (b_attrs b) = Some pat ->
  o_rx_ok o pat = Some true ->
  content_of file b = Ok content ->
  (Forall (lp_passes o pat) (lines content) /\ line_pattern o file b = Ok []) \/
  (exists pre l post, lines content = pre ++ l :: post /\ Forall (lp_passes o pat) pre /\
     lp_fails o pat l /\
     line_pattern o file b =
     (let? sev := sev_of (b_attrs b) in
      Ok [key_diag b (trim_key (N.of_nat (length pre)) l) V_PATTERN sev [pat]])) \/
  line_pattern o file b = Err E_ORACLE_MISS.
Proof.
  intros H Hok Hc.
  destruct (lp_scan o pat 0 (lines content)) as [[k|]|e|s] eqn:E.
  - right; left. apply lp_scan_some_iff in E. destruct E as (pre & l & post & Hl & Hp & Hf & _).
    exists pre, l, post. repeat split; try assumption; try apply Hf.
    apply (line_pattern_first_fail o file b pat content pre l post); assumption.
  - left. apply lp_scan_none in E. split; [exact E|].
    apply (line_pattern_ok_iff o file b pat content H Hok Hc). exact E.
  - right; right. rewrite (line_pattern_unfold o file b pat content H Hok Hc), E. cbn [bind].
    f_equal. revert E. generalize 0. induction (lines content) as [|l ls IH]; intros idx; cbn [lp_scan]; [discriminate|].
    destruct (trimmed_key idx l) as [k|]; [|apply IH].
    destruct (o_rx o pat (k_val k)) as [[m|]|]; [apply IH|discriminate|intros E; inversion E; reflexivity].
  - exfalso. revert E. generalize 0. induction (lines content) as [|l ls IH]; intros idx; cbn [lp_scan]; [discriminate|].
    destruct (trimmed_key idx l) as [k|]; [|apply IH].
    destruct (o_rx o pat (k_val k)) as [[m|]|]; [apply IH|discriminate|discriminate].
Qed.

(* ====================================================================== *)
(* K5  keep-sorted at validator level, lexicographic                       *)
(* ====================================================================== *)

Lemma cmp_eqb_true_iff a b : cmp_eqb a b = true <-> a = b.
Proof. destruct a, b; cbn [cmp_eqb]; split; congruence. Qed.

Lemma cmp_eqb_false_iff a b : cmp_eqb a b = false <-> a <> b.
Proof. destruct a, b; cbn [cmp_eqb]; split; congruence. Qed.

(* the result that makes a pair a violation: Gt when ascending, Lt when descending *)
Definition bad_cmp (asc : bool) : comparison := if asc then Gt else Lt.

Lemma sort_viol_lex o asc a b :
  sort_viol o Lexicographic asc a b = Ok (cmp_eqb (str_cmp a b) (bad_cmp asc)).
Proof. reflexivity. Qed.

Lemma sort_viol_lex_total o asc a b : exists r, sort_viol o Lexicographic asc a b = Ok r.
Proof. rewrite sort_viol_lex. eauto. Qed.

Lemma sort_viol_lex_false o asc a b :
  sort_viol o Lexicographic asc a b = Ok false <-> str_cmp a b <> bad_cmp asc.
Proof.
  rewrite sort_viol_lex, <- cmp_eqb_false_iff. split; [intros H; inversion H; reflexivity|intros ->; reflexivity].
Qed.

Lemma sort_viol_lex_true o asc a b :
  sort_viol o Lexicographic asc a b = Ok true <-> str_cmp a b = bad_cmp asc.
Proof.
  rewrite sort_viol_lex, <- cmp_eqb_true_iff. split; [intros H; inversion H; reflexivity|intros ->; reflexivity].
Qed.

(* every adjacent pair is in order *)
Definition lex_sorted (asc : bool) (ks : list key) : Prop :=
  forall i x y, pair_at ks i x y -> str_cmp (k_val x) (k_val y) <> bad_cmp asc.

(* k is the first key strictly out of order w.r.t. its predecessor *)
Definition lex_first_bad (asc : bool) (ks : list key) (k : key) : Prop :=
  exists i a, pair_at ks i a k /\ str_cmp (k_val a) (k_val k) = bad_cmp asc /\
    forall j x y, (j < i)%nat -> pair_at ks j x y -> str_cmp (k_val x) (k_val y) <> bad_cmp asc.

Lemma lex_check_none o asc ks :
  ks_check (sort_viol o Lexicographic asc) ks = Ok None <-> lex_sorted asc ks.
Proof.
  rewrite (ks_check_none _ (sort_viol_lex_total o asc)). unfold lex_sorted.
  split; intros H i x y Hp.
  - apply (proj1 (sort_viol_lex_false o asc (k_val x) (k_val y))). apply (H i). exact Hp.
  - apply (proj2 (sort_viol_lex_false o asc (k_val x) (k_val y))). apply (H i). exact Hp.
Qed.

Lemma lex_check_some o asc ks k :
  ks_check (sort_viol o Lexicographic asc) ks = Ok (Some k) <-> lex_first_bad asc ks k.
Proof.
  rewrite (ks_check_some _ (sort_viol_lex_total o asc)). unfold lex_first_bad.
  split; intros (i & a & Hp & Hb & Hm); exists i, a; (split; [exact Hp|]).
  - split; [apply (proj1 (sort_viol_lex_true o asc _ _)); exact Hb|].
    intros j x y Hj Hxy. apply (proj1 (sort_viol_lex_false o asc _ _)). apply (Hm j); assumption.
  - split; [apply (proj2 (sort_viol_lex_true o asc _ _)); exact Hb|].
    intros j x y Hj Hxy. apply (proj2 (sort_viol_lex_false o asc _ _)). apply (Hm j); assumption.
Qed.

Lemma lex_sorted_or_first_bad asc ks : lex_sorted asc ks \/ exists k, lex_first_bad asc ks k.
Proof.
  pose (o := {| o_rx_ok := fun _ => None; o_rx := fun _ _ => None; o_f64 := fun _ => None;
                o_lua := fun _ _ _ => None; o_ai := fun _ _ => None |}).
  destruct (ks_check_total _ (sort_viol_lex_total o asc) ks) as [[k|] Hr].
  - right. exists k. apply (lex_check_some o). exact Hr.
  - left. apply (lex_check_none o). exact Hr.
Qed.

Lemma lex_first_bad_not_sorted asc ks k : lex_first_bad asc ks k -> ~ lex_sorted asc ks.
Proof. intros (i & a & Hp & Hb & _) Hs. exact (Hs i a k Hp Hb). Qed.

Lemma lex_first_bad_unique asc ks k k' : lex_first_bad asc ks k -> lex_first_bad asc ks k' -> k = k'.
Proof.
  pose (o := {| o_rx_ok := fun _ => None; o_rx := fun _ _ => None; o_f64 := fun _ => None;
                o_lua := fun _ _ _ => None; o_ai := fun _ _ => None |}).
  rewrite <- !(lex_check_some o). congruence.
Qed.

Theorem keep_sorted_lex_ok_iff o file b v asc content ks :
  get_attr (T "keep-sorted") (b_attrs b) = Some v ->
  parse_direction v = Ok asc ->
  parse_format (b_attrs b) = Ok Lexicographic ->
  content_of file b = Ok content ->
  keys_of o (sort_pat b) E_SORT_PATTERN content = Ok ks ->
  (keep_sorted o file b = Ok [] <-> lex_sorted asc ks).
Proof.
  intros H Hd Hf Hc Hk.
  rewrite (keep_sorted_unfold o file b v asc Lexicographic content ks H Hd Hf Hc Hk).
  rewrite <- (lex_check_none o).
  destruct (ks_check (sort_viol o Lexicographic asc) ks) as [[k|]| |]; cbn [bind].
  - split; [|discriminate]. destruct (sev_of (b_attrs b)); cbn [bind]; discriminate.
  - tauto.
  - split; discriminate.
  - split; discriminate.
Qed.

Theorem keep_sorted_lex_first_bad o file b v asc content ks k :
  get_attr (T "keep-sorted") (b_attrs b) = Some v ->
  parse_direction v = Ok asc ->
  parse_format (b_attrs b) = Ok Lexicographic ->
  content_of file b = Ok content ->
  keys_of o (sort_pat b) E_SORT_PATTERN content = Ok ks ->
  lex_first_bad asc ks k ->
  keep_sorted o file b =
  (let? sev := sev_of (b_attrs b) in Ok [key_diag b k V_SORTED sev [dir_word asc]]).
Proof.
  intros H Hd Hf Hc Hk Hb.
  rewrite (keep_sorted_unfold o file b v asc Lexicographic content ks H Hd Hf Hc Hk).
  apply (lex_check_some o) in Hb. rewrite Hb. reflexivity.
Qed.

Theorem keep_sorted_lex_unsorted o file b v asc content ks sev :
  get_attr (T "keep-sorted") (b_attrs b) = Some v ->
  parse_direction v = Ok asc ->
  parse_format (b_attrs b) = Ok Lexicographic ->
  content_of file b = Ok content ->
  keys_of o (sort_pat b) E_SORT_PATTERN content = Ok ks ->
  ~ lex_sorted asc ks ->
  sev_of (b_attrs b) = Ok sev ->
  exists k, lex_first_bad asc ks k /\
            keep_sorted o file b = Ok [key_diag b k V_SORTED sev [dir_word asc]].
Proof.
  intros H Hd Hf Hc Hk Hn Hs. destruct (lex_sorted_or_first_bad asc ks) as [Hsrt|[k Hb]]; [contradiction|].
  exists k. split; [exact Hb|].
  rewrite (keep_sorted_lex_first_bad o file b v asc content ks k H Hd Hf Hc Hk Hb), Hs. reflexivity.
Qed.

Theorem keep_sorted_lex_unsorted_bad_severity o file b v asc content ks e :
  get_attr (T "keep-sorted") (b_attrs b) = Some v ->
  parse_direction v = Ok asc ->
  parse_format (b_attrs b) = Ok Lexicographic ->
  content_of file b = Ok content ->
  keys_of o (sort_pat b) E_SORT_PATTERN content = Ok ks ->
  ~ lex_sorted asc ks ->
  sev_of (b_attrs b) = Err e ->
  keep_sorted o file b = Err e.
Proof.
  intros H Hd Hf Hc Hk Hn Hs. destruct (lex_sorted_or_first_bad asc ks) as [Hsrt|[k Hb]]; [contradiction|].
  rewrite (keep_sorted_lex_first_bad o file b v asc content ks k H Hd Hf Hc Hk Hb), Hs. reflexivity.
Qed.

(* the two directions spelled out *)
Corollary keep_sorted_lex_asc_ok_iff o file b v content ks :
  get_attr (T "keep-sorted") (b_attrs b) = Some v ->
  parse_direction v = Ok true ->
  parse_format (b_attrs b) = Ok Lexicographic ->
  content_of file b = Ok content ->
  keys_of o (sort_pat b) E_SORT_PATTERN content = Ok ks ->
  (keep_sorted o file b = Ok [] <->
   forall i x y, pair_at ks i x y -> str_cmp (k_val x) (k_val y) <> Gt).
Proof. apply keep_sorted_lex_ok_iff. Qed.

Corollary keep_sorted_lex_desc_ok_iff o file b v content ks :
  get_attr (T "keep-sorted") (b_attrs b) = Some v ->
  parse_direction v = Ok false ->
  parse_format (b_attrs b) = Ok Lexicographic ->
  content_of file b = Ok content ->
  keys_of o (sort_pat b) E_SORT_PATTERN content = Ok ks ->
  (keep_sorted o file b = Ok [] <->
   forall i x y, pair_at ks i x y -> str_cmp (k_val x) (k_val y) <> Lt).
Proof. apply keep_sorted_lex_ok_iff. Qed.

Corollary keep_sorted_lex_asc_diag o file b v content ks sev i a k :
  get_attr (T "keep-sorted") (b_attrs b) = Some v ->
  parse_direction v = Ok true ->
  parse_format (b_attrs b) = Ok Lexicographic ->
  content_of file b = Ok content ->
  keys_of o (sort_pat b) E_SORT_PATTERN content = Ok ks ->
  sev_of (b_attrs b) = Ok sev ->
  pair_at ks i a k -> str_cmp (k_val a) (k_val k) = Gt ->
  (forall j x y, (j < i)%nat -> pair_at ks j x y -> str_cmp (k_val x) (k_val y) <> Gt) ->
  keep_sorted o file b = Ok [key_diag b k V_SORTED sev [T "asc"]].
Proof.
  intros H Hd Hf Hc Hk Hs Hp Hb Hm.
  rewrite (keep_sorted_lex_first_bad o file b v true content ks k H Hd Hf Hc Hk), Hs; [reflexivity|].
  exists i, a. auto.
Qed.

Corollary keep_sorted_lex_desc_diag o file b v content ks sev i a k :
  get_attr (T "keep-sorted") (b_attrs b) = Some v ->
  parse_direction v = Ok false ->
  parse_format (b_attrs b) = Ok Lexicographic ->
  content_of file b = Ok content ->
  keys_of o (sort_pat b) E_SORT_PATTERN content = Ok ks ->
  sev_of (b_attrs b) = Ok sev ->
  pair_at ks i a k -> str_cmp (k_val a) (k_val k) = Lt ->
  (forall j x y, (j < i)%nat -> pair_at ks j x y -> str_cmp (k_val x) (k_val y) <> Lt) ->
  keep_sorted o file b = Ok [key_diag b k V_SORTED sev [T "desc"]].
Proof.
  intros H Hd Hf Hc Hk Hs Hp Hb Hm.
  rewrite (keep_sorted_lex_first_bad o file b v false content ks k H Hd Hf Hc Hk), Hs; [reflexivity|].
  exists i, a. auto.
Qed.

(* the lexicographic format never reaches the f64 oracle and never fails in the comparison *)
Theorem keep_sorted_lex_outcomes o file b v asc content ks :
  get_attr (T "keep-sorted") (b_attrs b) = Some v ->
  parse_direction v = Ok asc ->
  parse_format (b_attrs b) = Ok Lexicographic ->
  content_of file b = Ok content ->
  keys_of o (sort_pat b) E_SORT_PATTERN content = Ok ks ->
  (lex_sorted asc ks /\ keep_sorted o file b = Ok []) \/
  (exists k, lex_first_bad asc ks k /\
     ((exists sev, sev_of (b_attrs b) = Ok sev /\
                   keep_sorted o file b = Ok [key_diag b k V_SORTED sev [dir_word asc]]) \/
      (sev_of (b_attrs b) = Err E_SEVERITY /\ keep_sorted o file b = Err E_SEVERITY))).
Proof.
  intros H Hd Hf Hc Hk. destruct (lex_sorted_or_first_bad asc ks) as [Hs|[k Hb]].
  - left. split; [exact Hs|]. apply (keep_sorted_lex_ok_iff o file b v asc content ks H Hd Hf Hc Hk). exact Hs.
  - right. exists k. split; [exact Hb|].
    rewrite (keep_sorted_lex_first_bad o file b v asc content ks k H Hd Hf Hc Hk Hb).
    destruct (sev_of_outcomes (b_attrs b)) as [(s & Hs & _)|Hs]; rewrite Hs; cbn [bind]; eauto.
Qed.

(* K1(b) with the clean prefix spelled as InOrder (Keys_proofs): every adjacent
   pair of k0 :: pre ++ [k1] parsed and is not a violation *)
Corollary ks_check_not_number_InOrder o want k0 pre k1 k2 rest :
  InOrder (cmp_viol o Numeric want) (k_val k0) (pre ++ [k1]) ->
  not_number_pair o (k_val k1) (k_val k2) ->
  ks_check (cmp_viol o Numeric want) (k0 :: pre ++ k1 :: k2 :: rest) = Err E_NOT_NUMBER.
Proof.
  intros Hp Hn. apply (ks_check_not_number o want (k0 :: pre) k1 k2 rest); [|exact Hn].
  apply ks_check_clean_iff. exact Hp.
Qed.

(* ---------- concrete instances (the hypotheses are satisfiable) ---------- *)
Module Examples.
Definition o_nan : oracles :=
  {| o_rx_ok := fun _ => None; o_rx := fun _ _ => None; o_f64 := fun _ => Some None;
     o_lua := fun _ _ _ => None; o_ai := fun _ _ => None |}.
Definition blk (attrs : attrs) (hi : N) : block :=
  {| b_attrs := attrs; b_ts := (1, 1); b_te := (1, 1); b_clo := 0; b_chi := hi;
     b_cs := (1, 1); b_ce := (1, 1) |}.
Definition num_attrs : attrs := [(T "keep-sorted", T "asc"); (T "keep-sorted-format", T "numeric")].

(* two identical non-numeric lines "x", "x": the run fails *)
Example equal_non_numbers_fail :
  keep_sorted o_nan [120; 10; 120; 10] (blk num_attrs 4) = Err E_NOT_NUMBER.
Proof. vm_compute. reflexivity. Qed.

(* a single non-numeric line "x": nothing is compared, the block passes *)
Example single_non_number_passes :
  keep_sorted o_nan [120; 10] (blk num_attrs 2) = Ok [].
Proof. vm_compute. reflexivity. Qed.

(* keep-unique on "x", "y", "x": the third line (index 2) is reported *)
Example unique_third_line :
  keep_unique o_nan [120; 10; 121; 10; 120; 10] (blk [(T "keep-unique", [])] 6) =
  Ok [{| d_sl := 3; d_sc := 1; d_el := 3; d_ec := 1; d_code := V_UNIQUE; d_sev := 1; d_data := [] |}].
Proof. vm_compute. reflexivity. Qed.
End Examples.

(* ---------- assumptions ---------- *)
Print Assumptions sort_cmp_numeric_err.
Print Assumptions sort_cmp_numeric_err_equal.
Print Assumptions ks_check_not_number.
Print Assumptions ks_check_not_number_first.
Print Assumptions ks_check_not_number_InOrder.
Print Assumptions keep_sorted_not_number_after_clean_prefix.
Print Assumptions keep_sorted_not_number.
Print Assumptions keep_sorted_not_number_equal.
Print Assumptions keep_sorted_lazy.
Print Assumptions keep_sorted_single_key.
Print Assumptions keep_sorted_no_key.
Print Assumptions keys_rx_spec.
Print Assumptions keys_rx_flat_map.
Print Assumptions keys_of_rx_spec.
Print Assumptions keys_rx_length.
Print Assumptions keys_rx_In.
Print Assumptions keys_rx_complete.
Print Assumptions keys_rx_no_match_no_key.
Print Assumptions keys_rx_idx_increasing.
Print Assumptions keys_rx_idx_adjacent.
Print Assumptions keys_rx_miss_iff.
Print Assumptions keys_rx_ok_iff.
Print Assumptions keys_rx_outcomes.
Print Assumptions keep_unique_ok_iff.
Print Assumptions keep_unique_first_dup.
Print Assumptions keep_unique_dup.
Print Assumptions keep_unique_dup_bad_severity.
Print Assumptions keep_unique_outcomes.
Print Assumptions line_pattern_ok_iff.
Print Assumptions line_pattern_first_fail.
Print Assumptions line_pattern_first_fail_sev.
Print Assumptions line_pattern_diag_inv.
Print Assumptions line_pattern_outcomes.
Print Assumptions keep_sorted_lex_ok_iff.
Print Assumptions keep_sorted_lex_first_bad.
Print Assumptions keep_sorted_lex_unsorted.
Print Assumptions keep_sorted_lex_unsorted_bad_severity.
Print Assumptions keep_sorted_lex_asc_ok_iff.
Print Assumptions keep_sorted_lex_desc_ok_iff.
Print Assumptions keep_sorted_lex_asc_diag.
Print Assumptions keep_sorted_lex_desc_diag.
Print Assumptions keep_sorted_lex_outcomes.

(* ---------- round 4: blank lines and line-pattern ---------- *)
(* blank lines never count: a line of whitespace only passes every pattern *)
Lemma blank_line_passes o pat l : all_ws l -> lp_passes o pat l.
Proof. intros H. left. apply trim_nil_iff. exact H. Qed.

(* a failing line is never blank *)
Lemma failing_line_not_blank o pat l : lp_fails o pat l -> ~ all_ws l.
Proof. intros [H _] Hw. apply H. apply trim_nil_iff. exact Hw. Qed.

(* passing and failing exclude each other *)
Lemma lp_passes_fails_exclusive o pat l : lp_passes o pat l -> lp_fails o pat l -> False.
Proof. intros [Hb|[m Hm]] [Hn Hf]; [exact (Hn Hb)|rewrite Hm in Hf; discriminate]. Qed.

(* inserting a blank line anywhere does not change whether every line passes *)
Lemma all_pass_blank_insert o pat pre w post :
  all_ws w ->
  (Forall (lp_passes o pat) (pre ++ w :: post) <-> Forall (lp_passes o pat) (pre ++ post)).
Proof.
  intros Hw. rewrite !Forall_app. split.
  - intros [Hp Hq]. split; [exact Hp|]. inversion Hq; assumption.
  - intros [Hp Hq]. split; [exact Hp|]. constructor; [apply blank_line_passes; exact Hw|exact Hq].
Qed.

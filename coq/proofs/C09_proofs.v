(* C09_proofs.v - line-count: count characterisation, constraint round trip,
   violation iff the comparison fails. *)
From BW Require Import SpecC09.
From BWP Require Import TextFacts.
From Coq Require Import ZifyBool ZifyN ZifyNat.

Arguments N.add : simpl never.
Arguments N.sub : simpl never.
Arguments N.mul : simpl never.
Arguments N.eqb : simpl never.
Arguments N.ltb : simpl never.
Arguments N.leb : simpl never.

Lemma seg_nonblank_false_iff l : seg_nonblank l = false <-> all_ws l.
Proof.
  unfold seg_nonblank, all_ws. induction l as [|c l IH]; cbn [existsb].
  - split; auto.
  - rewrite orb_false_iff, IH, negb_false_iff. split.
    + intros [H1 H2]; constructor; assumption.
    + intros H; inversion H; auto.
Qed.

Lemma nonblank_seg l : nonblank l = seg_nonblank l.
Proof.
  unfold nonblank. destruct (seg_nonblank l) eqn:E.
  - destruct (trim l) eqn:T; [|reflexivity].
    apply trim_nil_iff, seg_nonblank_false_iff in T. congruence.
  - apply seg_nonblank_false_iff, trim_nil_iff in E. rewrite E. reflexivity.
Qed.

Lemma count_nonblank_spec s : count_nonblank s = spec_count s.
Proof.
  unfold count_nonblank, spec_count. destruct s as [|c s]; [reflexivity|].
  rewrite (filter_ext nonblank seg_nonblank nonblank_seg). reflexivity.
Qed.

(* ---------- constraint round trip ---------- *)
Lemma cop_str_solid op : solid (cop_str op).
Proof.
  destruct op; cbv [cop_str T utf8_decode utf8_decode_fuel map bstr_to Byte.to_N length N.ltb N.compare Pos.compare Pos.compare_cont].
  all: match goal with
       | |- solid [?a] => exists a, [], a; repeat split; auto
       | |- solid [?a; ?b] => exists a, [], b; repeat split; auto; discriminate
       end.
Qed.

Lemma solid_app a w b : solid a -> solid b -> solid (a ++ w ++ b).
Proof.
  intros Ha Hb.
  destruct (solid_head _ Ha) as (x & r & -> & Hx).
  destruct (solid_last _ Hb) as (r' & z & -> & Hz).
  exists x, (r ++ w ++ r'), z. split.
  - right. cbn [app]. rewrite <- !app_assoc. reflexivity.
  - repeat split; auto. intros H. cbn [app] in H. rewrite !app_assoc in H.
    destruct ((r ++ w) ++ r'); discriminate.
Qed.

(* first character after the operator is whitespace or a digit: never '=' *)
Lemma after_op_not_eq w2 n rest c r :
  all_ws w2 -> w2 ++ dec n ++ rest = c :: r -> (c =? 61) = false.
Proof.
  intros Hw E. destruct w2 as [|x w2].
  - destruct (dec_spec n) as (ds & Hd & Hne & Hds & _). rewrite Hd in E.
    destruct ds as [|d ds]; [congruence|]. cbn [app] in E. inversion E; subst.
    inversion Hds as [|? ? Hdig _]; subst. unfold is_ascii_digit in Hdig. lia.
  - cbn [app] in E. inversion E; subst. inversion Hw as [|? ? Hx _]; subst.
    unfold is_ws in Hx. lia.
Qed.

Lemma strip_op_print op r :
  (forall c r', r = c :: r' -> (c =? 61) = false) -> strip_op (cop_str op ++ r) = Some (op, r).
Proof.
  intros H. destruct r as [|c r'].
  - destruct op; vm_compute; reflexivity.
  - specialize (H c r' eq_refl).
    assert (Hc : forall k, (k =? c) = true -> k <> 61) by (intros k Hk; lia).
    destruct op; unfold strip_op;
      change (T "<=") with [60; 61]; change (T ">=") with [62; 61]; change (T "==") with [61; 61];
      change (T "<") with [60]; change (T ">") with [62];
      cbn [cop_str]; change (T "<=") with [60; 61]; change (T ">=") with [62; 61]; change (T "==") with [61; 61];
      change (T "<") with [60]; change (T ">") with [62];
      cbn [app strip_prefix];
      repeat match goal with
             | |- context [?a =? ?b] =>
               first [ is_var b; fail 1 | is_var a; fail 1 |
                       let v := eval vm_compute in (a =? b) in change (a =? b) with v ]
             end; cbn [strip_prefix];
      rewrite ?(N.eqb_sym 61 c), ?H; reflexivity.
Qed.

Lemma parse_constraint_print w1 w2 w3 op n :
  all_ws w1 -> all_ws w2 -> all_ws w3 -> n < 18446744073709551616 ->
  parse_constraint (print_constraint w1 w2 w3 op n) = Some (op, n).
Proof.
  intros H1 H2 H3 Hn. unfold parse_constraint, print_constraint.
  replace (w1 ++ cop_str op ++ w2 ++ dec n ++ w3) with (w1 ++ (cop_str op ++ w2 ++ dec n) ++ w3)
    by (rewrite <- !app_assoc; reflexivity).
  rewrite trim_app_ws; [|exact H1|exact H3|apply solid_app; [apply cop_str_solid|apply dec_solid]].
  rewrite strip_op_print.
  2:{ intros c r E. eapply (after_op_not_eq w2 n []); [exact H2|]. rewrite app_nil_r. exact E. }
  assert (Hrest : trim (w2 ++ dec n) = dec n).
  { rewrite <- (app_nil_r (dec n)) at 1. apply trim_app_ws; [exact H2|constructor|apply dec_solid]. }
  rewrite Hrest.
  assert (Hne : dec n <> []) by (destruct (dec_spec n) as (ds & -> & ? & _); assumption).
  destruct (dec n) eqn:Ed; [congruence|]. rewrite <- Ed, parse_usize_dec by exact Hn. reflexivity.
Qed.

(* ---------- the validator ---------- *)
Lemma line_count_correct file b expr op n content sev :
  get_attr (T "line-count") (b_attrs b) = Some expr ->
  parse_constraint expr = Some (op, n) ->
  content_of file b = Ok content ->
  sev_of (b_attrs b) = Ok sev ->
  line_count file b =
    Ok (if cop_holds op (spec_count content) n then []
        else [tag_diag b V_COUNT sev [dec (spec_count content); cop_str op; dec n]]).
Proof.
  intros Ha Hp Hc Hs. unfold line_count. rewrite Ha, Hp, Hc. cbn [bind].
  rewrite count_nonblank_spec. destruct (cop_holds op (spec_count content) n); [reflexivity|].
  rewrite Hs. reflexivity.
Qed.

Lemma line_count_bad_expr file b expr :
  get_attr (T "line-count") (b_attrs b) = Some expr ->
  parse_constraint expr = None ->
  line_count file b = Err E_LINE_COUNT.
Proof. intros Ha Hp. unfold line_count. rewrite Ha, Hp. reflexivity. Qed.

Lemma line_count_absent file b :
  get_attr (T "line-count") (b_attrs b) = None -> line_count file b = Ok [].
Proof. intros Ha. unfold line_count. rewrite Ha. reflexivity. Qed.

(* the model's output satisfies the executable specification used on the implementation *)
Lemma line_count_meets_spec file b expr op n content sev ds :
  get_attr (T "line-count") (b_attrs b) = Some expr ->
  parse_constraint expr = Some (op, n) ->
  content_of file b = Ok content ->
  sev_of (b_attrs b) = Ok sev ->
  line_count file b = Ok ds ->
  spec_c09 (mkintent09 (b_ts b) (b_te b) content op n sev) ds = true.
Proof.
  intros Ha Hp Hc Hs Hl. rewrite (line_count_correct _ _ _ _ _ _ _ Ha Hp Hc Hs) in Hl.
  inversion Hl; subst ds; clear Hl. unfold spec_c09, mkintent09; cbn [i9_content i9_op i9_n i9_ts i9_te i9_sev].
  destruct (cop_holds op (spec_count content) n); [reflexivity|].
  cbn [filter tag_diag d_code d_sl d_sc d_el d_ec d_sev d_data].
  unfold V_COUNT. rewrite !N.eqb_refl. cbn [andb].
  unfold at_tag. cbn [d_sl d_sc d_el d_ec d_sev d_data fst snd]. rewrite !N.eqb_refl. cbn [andb].
  assert (Hrefl : forall l, list_eqb str_eqb l l = true).
  { assert (Hs' : forall s, str_eqb s s = true) by (induction s as [|c s IH]; cbn; [reflexivity|rewrite N.eqb_refl; exact IH]).
    induction l as [|x l IH]; cbn [list_eqb]; [reflexivity|]. rewrite Hs', IH. reflexivity. }
  apply Hrefl.
Qed.

(* non-vacuity: a concrete block meets the hypotheses *)
Example c09_example :
  let file := T "# <block line-count="">= 2"">
a

b
# </block>" in
  let b := {| b_attrs := [(T "line-count", T ">= 2")]; b_ts := (1, 3); b_te := (1, 27);
              b_clo := 27; b_chi := 33; b_cs := (1, 28); b_ce := (5, 1) |} in
  parse_constraint (T ">= 2") = Some (OGe, 2) /\ content_of file b = Ok (T "
a

b
") /\ line_count file b = Ok [].
Proof. vm_compute. repeat split. Qed.

(* ---------- round 4: the comparison, the bound, silence ---------- *)
(* the five operators are the mathematical comparisons on naturals *)
Lemma cop_holds_iff op a n :
  cop_holds op a n = true <->
  match op with OLt => a < n | OLe => a <= n | OEq => a = n | OGe => n <= a | OGt => n < a end.
Proof.
  destruct op; cbn [cop_holds];
    [apply N.ltb_lt | apply N.leb_le | apply N.eqb_eq | apply N.leb_le | apply N.ltb_lt].
Qed.

(* usize::from_str never yields a value of 2^64 or more (overflow is an error) *)
Lemma parse_usize_bound s n : parse_usize s = Some n -> n < 18446744073709551616.
Proof.
  unfold parse_usize. intros H.
  destruct (match s with [] => s | c :: r => if c =? 43 then r else s end) as [|d ds]; [discriminate|].
  destruct (digits_val 0 (d :: ds)) as [m|]; [|discriminate].
  destruct (m <? 18446744073709551616) eqn:E; [|discriminate].
  inversion H; subst. apply N.ltb_lt. exact E.
Qed.

(* a bound that does not fit a 64-bit usize is rejected, never wrapped *)
Lemma parse_constraint_bound expr op n :
  parse_constraint expr = Some (op, n) -> n < 18446744073709551616.
Proof.
  unfold parse_constraint. intros H.
  destruct (strip_op (trim expr)) as [[o r]|]; [|discriminate].
  destruct (trim r) as [|c t]; [discriminate|].
  destruct (parse_usize (c :: t)) as [m|] eqn:E; [|discriminate].
  inversion H; subst. exact (parse_usize_bound _ _ E).
Qed.


(* the block is silent exactly when the comparison holds *)
Lemma line_count_silent_iff file b expr op n content sev :
  get_attr (T "line-count") (b_attrs b) = Some expr ->
  parse_constraint expr = Some (op, n) ->
  content_of file b = Ok content ->
  sev_of (b_attrs b) = Ok sev ->
  (line_count file b = Ok [] <->
   match op with
   | OLt => spec_count content < n | OLe => spec_count content <= n
   | OEq => spec_count content = n
   | OGe => n <= spec_count content | OGt => n < spec_count content end).
Proof.
  intros Ha Hp Hc Hs. rewrite (line_count_correct _ _ _ _ _ _ _ Ha Hp Hc Hs).
  rewrite <- cop_holds_iff.
  destruct (cop_holds op (spec_count content) n); split; intros H; try reflexivity; discriminate.
Qed.

(* a broken severity attribute cannot hide a violation: the run stops instead *)
Lemma line_count_bad_severity file b expr op n content e :
  get_attr (T "line-count") (b_attrs b) = Some expr ->
  parse_constraint expr = Some (op, n) ->
  content_of file b = Ok content ->
  sev_of (b_attrs b) = Err e ->
  cop_holds op (spec_count content) n = false ->
  line_count file b = Err e.
Proof.
  intros Ha Hp Hc Hs Hv. unfold line_count. rewrite Ha, Hp, Hc. cbn [bind].
  rewrite count_nonblank_spec, Hv, Hs. reflexivity.
Qed.

(* ---------- the accepted language of the constraint parser (converse of the round trip) ---------- *)
Lemma drop_while_decomp (p : char -> bool) (s : str) :
  exists a, s = a ++ drop_while p s /\ Forall (fun c => p c = true) a.
Proof.
  induction s as [|c s IH]; cbn [drop_while].
  - exists []. split; [reflexivity|constructor].
  - destruct (p c) eqn:E.
    + destruct IH as (a & Hs & Ha). exists (c :: a). split; [cbn [app]; f_equal; exact Hs|constructor; assumption].
    + exists []. split; [reflexivity|constructor].
Qed.

Lemma trim_decompose s : exists w1 w3, all_ws w1 /\ all_ws w3 /\ s = w1 ++ trim s ++ w3.
Proof.
  unfold trim, trim_end, trim_start.
  destruct (drop_while_decomp is_ws s) as (w1 & Hs & H1).
  set (t := drop_while is_ws s) in *.
  destruct (drop_while_decomp is_ws (rev t)) as (a & Ht & Ha).
  exists w1, (rev a). split; [exact H1|]. split; [apply Forall_rev; exact Ha|].
  rewrite <- rev_app_distr, <- Ht, rev_involutive. exact Hs.
Qed.

Lemma strip_prefix_some p : forall s r, strip_prefix p s = Some r -> s = p ++ r.
Proof.
  induction p as [|x p IH]; intros s r H; cbn [strip_prefix] in H.
  - inversion H. reflexivity.
  - destruct s as [|y s]; [discriminate|]. destruct (x =? y) eqn:E; [|discriminate].
    apply N.eqb_eq in E. subst y. cbn [app]. f_equal. apply IH. exact H.
Qed.

Lemma strip_op_some t op r : strip_op t = Some (op, r) -> t = cop_str op ++ r.
Proof.
  unfold strip_op. intros H.
  destruct (strip_prefix (T "<=") t) eqn:E1; [inversion H; subst; exact (strip_prefix_some _ _ _ E1)|].
  destruct (strip_prefix (T ">=") t) eqn:E2; [inversion H; subst; exact (strip_prefix_some _ _ _ E2)|].
  destruct (strip_prefix (T "==") t) eqn:E3; [inversion H; subst; exact (strip_prefix_some _ _ _ E3)|].
  destruct (strip_prefix (T "<") t) eqn:E4; [inversion H; subst; exact (strip_prefix_some _ _ _ E4)|].
  destruct (strip_prefix (T ">") t) eqn:E5; [inversion H; subst; exact (strip_prefix_some _ _ _ E5)|].
  discriminate.
Qed.

(* Everything the parser accepts has the shape  ws OP ws NUMERAL ws  with a numeral that
   usize::from_str reads as the bound: there is no other way to obtain (op, n). *)
Lemma parse_constraint_shape expr op n :
  parse_constraint expr = Some (op, n) ->
  exists w1 w2 w3 num, all_ws w1 /\ all_ws w2 /\ all_ws w3 /\ num <> [] /\
    expr = w1 ++ cop_str op ++ w2 ++ num ++ w3 /\ parse_usize num = Some n.
Proof.
  unfold parse_constraint. intros H.
  destruct (strip_op (trim expr)) as [[o r]|] eqn:Es; [|discriminate].
  destruct (trim r) as [|c t] eqn:Et; [discriminate|].
  destruct (parse_usize (c :: t)) as [m|] eqn:Ep; [|discriminate].
  inversion H; subst o m. clear H.
  apply strip_op_some in Es.
  destruct (trim_decompose expr) as (w1 & w3 & H1 & H3 & He).
  destruct (trim_decompose r) as (w2 & w3' & H2 & H3' & Hr).
  exists w1, w2, (w3' ++ w3), (c :: t).
  split; [exact H1|]. split; [exact H2|]. split; [apply Forall_app; split; assumption|].
  split; [discriminate|]. split; [|exact Ep].
  rewrite He at 1. rewrite Es. rewrite Hr at 1. rewrite Et. rewrite <- !app_assoc. reflexivity.
Qed.

Lemma digits_val_some_digits : forall s acc n, digits_val acc s = Some n -> Forall (fun c => is_ascii_digit c = true) s.
Proof.
  induction s as [|c s IH]; intros acc n H; [constructor|].
  cbn [digits_val] in H. destruct (is_ascii_digit c) eqn:E; [|discriminate].
  constructor; [exact E|exact (IH _ _ H)].
Qed.

(* the numeral: an optional '+', then one or more ASCII digits whose value is below 2^64 *)
Lemma parse_usize_shape num n :
  parse_usize num = Some n ->
  exists ds, (num = ds \/ num = 43 :: ds) /\ ds <> [] /\
    Forall (fun c => is_ascii_digit c = true) ds /\ digits_val 0 ds = Some n /\ n < 18446744073709551616.
Proof.
  intros H. pose proof (parse_usize_bound _ _ H) as Hb. unfold parse_usize in H.
  set (d := match num with [] => num | c :: r => if c =? 43 then r else num end) in *.
  assert (Hd : num = d \/ num = 43 :: d).
  { subst d. destruct num as [|c r]; [left; reflexivity|].
    destruct (c =? 43) eqn:E; [right; apply N.eqb_eq in E; subst; reflexivity|left; reflexivity]. }
  clearbody d. destruct d as [|x xs]; [discriminate|].
  destruct (digits_val 0 (x :: xs)) as [m|] eqn:Ev; [|discriminate].
  destruct (m <? 18446744073709551616); [|discriminate]. inversion H; subst m.
  exists (x :: xs). split; [exact Hd|]. split; [discriminate|].
  split; [exact (digits_val_some_digits _ _ _ Ev)|]. split; [exact Ev|exact Hb].
Qed.

(* ---------- the count is additive over line-terminated pieces; blank lines never count ---------- *)
Lemma starts_nl_app_nl a b : starts_nl (a ++ 10 :: b) = starts_nl (a ++ [10]).
Proof. destruct a as [|c a]; reflexivity. Qed.

Lemma lines_nil_iff s : lines s = [] -> s = [].
Proof.
  induction s as [|c s IH]; [reflexivity|]. cbn [lines].
  destruct (c =? 10); [discriminate|].
  destruct ((c =? 13) && starts_nl s) eqn:E.
  - intros H. apply IH in H. subst s. apply andb_prop in E. destruct E as [_ E]. discriminate.
  - destruct (lines s); discriminate.
Qed.

Lemma lines_app_nl a b : lines (a ++ 10 :: b) = lines (a ++ [10]) ++ lines b.
Proof.
  induction a as [|c a IH]; [reflexivity|].
  cbn [app lines]. rewrite starts_nl_app_nl.
  destruct (c =? 10); [rewrite IH; reflexivity|].
  destruct ((c =? 13) && starts_nl (a ++ [10])); [exact IH|].
  rewrite IH. destruct (lines (a ++ [10])) as [|l ls] eqn:El.
  - apply lines_nil_iff in El. destruct a; discriminate.
  - reflexivity.
Qed.

Lemma spec_count_app_nl a b : spec_count (a ++ 10 :: b) = spec_count (a ++ [10]) + spec_count b.
Proof.
  unfold spec_count, nlen. rewrite lines_app_nl, filter_app, app_length. lia.
Qed.

Lemma lines_chars s : forall l c, In l (lines s) -> In c l -> In c s.
Proof.
  induction s as [|x s IH]; intros l c Hl Hc; [destruct Hl|].
  cbn [lines] in Hl. destruct (x =? 10).
  - destruct Hl as [<-|Hl]; [destruct Hc|right; exact (IH l c Hl Hc)].
  - destruct ((x =? 13) && starts_nl s); [right; exact (IH l c Hl Hc)|].
    destruct (lines s) as [|l0 ls] eqn:El.
    + destruct Hl as [<-|[]]. destruct Hc as [<-|[]]. left; reflexivity.
    + destruct Hl as [<-|Hl].
      * destruct Hc as [<-|Hc]; [left; reflexivity|right; apply (IH l0 c); [left; reflexivity|exact Hc]].
      * right. apply (IH l c); [right; exact Hl|exact Hc].
Qed.

Lemma filter_none {A} (f : A -> bool) (l : list A) : (forall x, In x l -> f x = false) -> filter f l = [].
Proof.
  induction l as [|x l IH]; intros H; [reflexivity|]. cbn [filter].
  rewrite (H x (or_introl eq_refl)). apply IH. intros y Hy. apply H. right; exact Hy.
Qed.

(* a piece made of whitespace only (blank lines, however many) contributes nothing *)
Lemma spec_count_all_ws w : all_ws w -> spec_count w = 0.
Proof.
  intros Hw. unfold spec_count, nlen. rewrite filter_none; [reflexivity|].
  intros l Hl. unfold seg_nonblank.
  destruct (existsb (fun c => negb (is_ws c)) l) eqn:E; [|reflexivity].
  apply existsb_exists in E. destruct E as (c & Hc & Hn).
  pose proof (lines_chars w l c Hl Hc) as Hin.
  unfold all_ws in Hw. rewrite Forall_forall in Hw. rewrite (Hw c Hin) in Hn. discriminate.
Qed.

(* inserting blank lines anywhere between two lines never changes the count *)
Lemma spec_count_blank_lines_ignored a w b :
  all_ws w -> spec_count (a ++ 10 :: w ++ 10 :: b) = spec_count (a ++ 10 :: b).
Proof.
  intros Hw.
  transitivity (spec_count (a ++ [10]) + spec_count (w ++ 10 :: b)); [apply spec_count_app_nl|].
  transitivity (spec_count (a ++ [10]) + (spec_count (w ++ [10]) + spec_count b)); [f_equal; apply spec_count_app_nl|].
  transitivity (spec_count (a ++ [10]) + spec_count b); [|symmetry; apply spec_count_app_nl].
  f_equal. rewrite spec_count_all_ws; [apply N.add_0_l|].
  apply Forall_app. split; [exact Hw|]. constructor; [reflexivity|constructor].
Qed.

(* Diff_proofs.v - the unified-diff parser (BW.Unidiff) and the translation of
   hunks into line changes (BW.LineChanges). *)
From BW Require Import Select.
From BWP Require Import TextFacts.
From Coq Require Import ZifyBool ZifyN ZifyNat.
From Coq Require Import Sorted.
Arguments N.add : simpl never. Arguments N.sub : simpl never. Arguments N.mul : simpl never.
Arguments N.eqb : simpl never. Arguments N.ltb : simpl never. Arguments N.leb : simpl never.

(* ====================================================================== *)
(* PART 2 - line changes                                                   *)
(* ====================================================================== *)

Lemma clear_or_fold_incl prev deleted acc x :
  In x acc -> In x (clear_or_fold prev deleted acc).
Proof.
  intros Hx. unfold clear_or_fold, fold_deleted.
  destruct prev; [exact Hx|]. destruct deleted as [|d ds]; [exact Hx|]. right. exact Hx.
Qed.

Section Changes.
Context (cdiff : str -> str -> option (list diffop)).
Hypothesis cdiff_total : forall a b, exists ops, cdiff a b = Some ops.

(* ---------- totality (the only place the oracle's totality is needed) ---------- *)
Lemma hunk_lines_total : forall ls deleted prev acc,
  exists r, hunk_lines cdiff ls deleted prev acc = Some r.
Proof.
  induction ls as [|l ls IH]; intros deleted prev acc; cbn [hunk_lines]; [eauto|].
  destruct (dl_kind l); try apply IH.
  destruct deleted as [|d ds]; [apply IH|].
  destruct (cdiff_total (dl_val d) (dl_val l)) as [ops Hops]. rewrite Hops. apply IH.
Qed.

Lemma hunks_changes_total : forall hs deleted prev acc,
  exists lcs, hunks_changes cdiff hs deleted prev acc = Some lcs.
Proof.
  induction hs as [|h hs IH]; intros deleted prev acc; cbn [hunks_changes]; [eauto|].
  destruct (hunk_lines_total (h_lines h) deleted prev acc) as [[[d' p'] a'] Hr].
  rewrite Hr. apply IH.
Qed.

(* ---------- 2a: every added line yields a change ---------- *)
(* hunk_lines only ever conses onto the accumulator, and each KAdd line adds
   an entry at its target line *)
Lemma hunk_lines_mono : forall ls deleted prev acc deleted' prev' acc',
  hunk_lines cdiff ls deleted prev acc = Some (deleted', prev', acc') ->
  (forall x, In x acc -> In x acc') /\
  (forall l, In l ls -> dl_kind l = KAdd -> exists lc, In lc acc' /\ lc_line lc = dl_tgt l).
Proof.
  induction ls as [|a ls IH]; intros deleted prev acc deleted' prev' acc' Hrun;
    cbn [hunk_lines] in Hrun.
  - inversion Hrun; subst. split; [auto|]. intros l [].
  - destruct (dl_kind a) eqn:Hk.
    + (* KAdd *)
      destruct deleted as [|d ds].
      * apply IH in Hrun. destruct Hrun as [Hm Ha]. split.
        -- intros x Hx. apply Hm. right. exact Hx.
        -- intros l [<-|Hl] Hkl; [|apply Ha; assumption].
           eexists. split; [apply Hm; left; reflexivity|reflexivity].
      * destruct (cdiff (dl_val d) (dl_val a)) as [ops|] eqn:Hops; [|discriminate].
        apply IH in Hrun. destruct Hrun as [Hm Ha]. split.
        -- intros x Hx. apply Hm. right. exact Hx.
        -- intros l [<-|Hl] Hkl; [|apply Ha; assumption].
           eexists. split; [apply Hm; left; reflexivity|reflexivity].
    + (* KDel *)
      apply IH in Hrun. destruct Hrun as [Hm Ha]. split; [exact Hm|].
      intros l [<-|Hl] Hkl; [congruence|apply Ha; assumption].
    + (* KCtx *)
      apply IH in Hrun. destruct Hrun as [Hm Ha]. split.
      * intros x Hx. apply Hm. apply clear_or_fold_incl. exact Hx.
      * intros l [<-|Hl] Hkl; [congruence|apply Ha; assumption].
    + (* KOther *)
      apply IH in Hrun. destruct Hrun as [Hm Ha]. split; [exact Hm|].
      intros l [<-|Hl] Hkl; [congruence|apply Ha; assumption].
Qed.

Lemma hunks_changes_mono : forall hs deleted prev acc lcs,
  hunks_changes cdiff hs deleted prev acc = Some lcs ->
  (forall x, In x acc -> In x lcs) /\
  (forall h l, In h hs -> In l (h_lines h) -> dl_kind l = KAdd ->
     exists lc, In lc lcs /\ lc_line lc = dl_tgt l).
Proof.
  induction hs as [|h hs IH]; intros deleted prev acc lcs Hrun; cbn [hunks_changes] in Hrun.
  - inversion Hrun; subst. split.
    + intros x Hx. apply in_rev in Hx. exact Hx.
    + intros h l [].
  - destruct (hunk_lines cdiff (h_lines h) deleted prev acc) as [[[d' p'] a']|] eqn:Hh;
      [|discriminate].
    apply hunk_lines_mono in Hh. destruct Hh as [Hm1 Ha1].
    apply IH in Hrun. destruct Hrun as [Hm2 Ha2]. split.
    + intros x Hx. apply Hm2, clear_or_fold_incl, Hm1. exact Hx.
    + intros h0 l [<-|Hh0] Hl Hk.
      * destruct (Ha1 l Hl Hk) as (lc & Hin & Hline).
        exists lc. split; [|exact Hline]. apply Hm2, clear_or_fold_incl. exact Hin.
      * apply (Ha2 h0 l Hh0 Hl Hk).
Qed.

Theorem added_line_yields_change : forall hs h l lcs,
  hunks_changes cdiff hs [] false [] = Some lcs ->
  In h hs -> In l (h_lines h) -> dl_kind l = KAdd ->
  exists lc, In lc lcs /\ lc_line lc = dl_tgt l.
Proof.
  intros hs h l lcs Hrun Hh Hl Hk.
  apply hunks_changes_mono in Hrun. destruct Hrun as [_ Ha]. apply (Ha h l Hh Hl Hk).
Qed.

(* ---------- 2b: soundness ---------- *)
Definition from_hunks (hs : list hunk) (l : dline) : Prop :=
  exists h, In h hs /\ In l (h_lines h).

Definition origin (hs : list hunk) (lc : lchange) : Prop :=
  exists h l, In h hs /\ In l (h_lines h) /\
    ((dl_kind l = KAdd /\ lc_line lc = dl_tgt l) \/
     (dl_kind l = KDel /\ lc_line lc = dl_src l /\ lc_ranges lc = None)).

Definition good_deque (hs : list hunk) (deleted : list dline) : Prop :=
  forall d, In d deleted -> dl_kind d = KDel /\ from_hunks hs d.

Lemma origin_add hs l rs : from_hunks hs l -> dl_kind l = KAdd ->
  origin hs {| lc_line := dl_tgt l; lc_ranges := rs |}.
Proof.
  intros (h & Hh & Hl) Hk. exists h, l. split; [exact Hh|]. split; [exact Hl|].
  left. split; [exact Hk|reflexivity].
Qed.

Lemma clear_or_fold_sound hs prev deleted acc :
  good_deque hs deleted -> (forall lc, In lc acc -> origin hs lc) ->
  forall lc, In lc (clear_or_fold prev deleted acc) -> origin hs lc.
Proof.
  intros Hd Hacc lc Hin. unfold clear_or_fold, fold_deleted in Hin.
  destruct prev; [apply Hacc; exact Hin|].
  destruct deleted as [|d ds]; [apply Hacc; exact Hin|].
  destruct Hin as [<-|Hin]; [|apply Hacc; exact Hin].
  destruct (Hd d (or_introl eq_refl)) as (Hk & h & Hh & Hl).
  exists h, d. split; [exact Hh|]. split; [exact Hl|]. right. auto.
Qed.

Lemma good_deque_nil hs : good_deque hs [].
Proof. intros d []. Qed.

Lemma hunk_lines_sound hs : forall ls deleted prev acc deleted' prev' acc',
  (forall l, In l ls -> from_hunks hs l) ->
  good_deque hs deleted ->
  (forall lc, In lc acc -> origin hs lc) ->
  hunk_lines cdiff ls deleted prev acc = Some (deleted', prev', acc') ->
  good_deque hs deleted' /\ (forall lc, In lc acc' -> origin hs lc).
Proof.
  induction ls as [|a ls IH]; intros deleted prev acc deleted' prev' acc' Hls Hd Hacc Hrun;
    cbn [hunk_lines] in Hrun.
  - inversion Hrun; subst. split; assumption.
  - assert (Ha : from_hunks hs a) by (apply Hls; left; reflexivity).
    assert (Hls' : forall l, In l ls -> from_hunks hs l) by (intros l Hl; apply Hls; right; exact Hl).
    destruct (dl_kind a) eqn:Hk.
    + destruct deleted as [|d ds].
      * eapply IH in Hrun; [exact Hrun|exact Hls'|apply good_deque_nil|].
        intros lc [<-|Hin]; [apply origin_add; assumption|apply Hacc; exact Hin].
      * destruct (cdiff (dl_val d) (dl_val a)) as [ops|] eqn:Hops; [|discriminate].
        eapply IH in Hrun; [exact Hrun|exact Hls'| |].
        -- intros x Hx. apply Hd. right. exact Hx.
        -- intros lc [<-|Hin]; [apply origin_add; assumption|apply Hacc; exact Hin].
    + eapply IH in Hrun; [exact Hrun|exact Hls'| |exact Hacc].
      intros x Hx. apply in_app_or in Hx. destruct Hx as [Hx|[<-|[]]]; [apply Hd; exact Hx|].
      split; assumption.
    + eapply IH in Hrun; [exact Hrun|exact Hls'|apply good_deque_nil|].
      apply clear_or_fold_sound; assumption.
    + eapply IH in Hrun; [exact Hrun|exact Hls'|exact Hd|exact Hacc].
Qed.

Lemma hunks_changes_sound hs : forall hs' deleted prev acc lcs,
  incl hs' hs ->
  good_deque hs deleted ->
  (forall lc, In lc acc -> origin hs lc) ->
  hunks_changes cdiff hs' deleted prev acc = Some lcs ->
  forall lc, In lc lcs -> origin hs lc.
Proof.
  induction hs' as [|h hs' IH]; intros deleted prev acc lcs Hincl Hd Hacc Hrun;
    cbn [hunks_changes] in Hrun.
  - inversion Hrun; subst. intros lc Hin. apply in_rev in Hin. apply Hacc. exact Hin.
  - destruct (hunk_lines cdiff (h_lines h) deleted prev acc) as [[[d' p'] a']|] eqn:Hh;
      [|discriminate].
    apply (hunk_lines_sound hs) in Hh; [|
      intros l Hl; exists h; split; [apply Hincl; left; reflexivity|exact Hl] | exact Hd | exact Hacc].
    destruct Hh as [Hd' Hacc'].
    apply (IH [] p' (clear_or_fold p' d' a') lcs).
    + intros x Hx. apply Hincl. right. exact Hx.
    + apply good_deque_nil.
    + apply clear_or_fold_sound; assumption.
    + exact Hrun.
Qed.

Theorem changes_sound : forall hs lcs lc,
  hunks_changes cdiff hs [] false [] = Some lcs -> In lc lcs ->
  exists h l, In h hs /\ In l (h_lines h) /\
    ((dl_kind l = KAdd /\ lc_line lc = dl_tgt l) \/
     (dl_kind l = KDel /\ lc_line lc = dl_src l /\ lc_ranges lc = None)).
Proof.
  intros hs lcs lc Hrun Hin.
  apply (hunks_changes_sound hs hs [] false [] lcs (incl_refl hs) (good_deque_nil hs)); try assumption.
  intros x [].
Qed.

(* ---------- 2c: an added line with no pending deletion ---------- *)
Lemma added_without_pending_step : forall l ls prev acc,
  dl_kind l = KAdd ->
  hunk_lines cdiff (l :: ls) [] prev acc =
  hunk_lines cdiff ls [] true ({| lc_line := dl_tgt l; lc_ranges := None |} :: acc).
Proof. intros l ls prev acc Hk. cbn [hunk_lines]. rewrite Hk. reflexivity. Qed.

Lemma added_without_pending_whole_line : forall l ls prev acc deleted' prev' acc',
  dl_kind l = KAdd ->
  hunk_lines cdiff (l :: ls) [] prev acc = Some (deleted', prev', acc') ->
  In {| lc_line := dl_tgt l; lc_ranges := None |} acc'.
Proof.
  intros l ls prev acc deleted' prev' acc' Hk Hrun.
  rewrite added_without_pending_step in Hrun by exact Hk.
  apply hunk_lines_mono in Hrun. destruct Hrun as [Hm _]. apply Hm. left. reflexivity.
Qed.

(* ---------- 2d: pure deletions fold to the first deleted line ---------- *)
Lemma deletions_enqueue : forall dels rest deque prev acc,
  (forall x, In x dels -> dl_kind x = KDel) ->
  hunk_lines cdiff (dels ++ rest) deque prev acc =
  hunk_lines cdiff rest (deque ++ dels) (match dels with [] => prev | _ => false end) acc.
Proof.
  induction dels as [|x dels IH]; intros rest deque prev acc Hall.
  - cbn [app]. rewrite app_nil_r. reflexivity.
  - cbn [app hunk_lines]. rewrite (Hall x (or_introl eq_refl)).
    rewrite IH by (intros y Hy; apply Hall; right; exact Hy).
    rewrite <- app_assoc. cbn [app]. destruct dels; reflexivity.
Qed.

(* a run of removed lines followed by a context line, met with an empty deque
   (whatever the previous line was), contributes exactly one change: a
   whole-line change at the OLD-file number of the first removed line *)
Lemma fold_pure_deletion : forall dels ctx rest prev acc d,
  dl_kind ctx = KCtx -> dels <> [] ->
  (forall x, In x dels -> dl_kind x = KDel) ->
  hd_error dels = Some d ->
  hunk_lines cdiff (dels ++ ctx :: rest) [] prev acc =
  hunk_lines cdiff rest [] false ({| lc_line := dl_src d; lc_ranges := None |} :: acc).
Proof.
  intros dels ctx rest prev acc d Hctx Hne Hall Hhd.
  rewrite deletions_enqueue by exact Hall. cbn [app].
  destruct dels as [|x dels]; [congruence|]. cbn [hd_error] in Hhd. inversion Hhd; subst x.
  cbn [hunk_lines]. rewrite Hctx. reflexivity.
Qed.

(* the same at the end of a hunk (no following context line) *)
Lemma fold_pure_deletion_at_hunk_end : forall dels hs h prev acc d,
  h_lines h = dels -> dels <> [] ->
  (forall x, In x dels -> dl_kind x = KDel) ->
  hd_error dels = Some d ->
  hunks_changes cdiff (h :: hs) [] prev acc =
  hunks_changes cdiff hs [] false ({| lc_line := dl_src d; lc_ranges := None |} :: acc).
Proof.
  intros dels hs h prev acc d Hh Hne Hall Hhd.
  cbn [hunks_changes]. rewrite Hh.
  rewrite <- (app_nil_r dels) at 1. rewrite deletions_enqueue by exact Hall.
  destruct dels as [|x dels]; [congruence|]. cbn [hd_error] in Hhd. inversion Hhd; subst x.
  cbn [hunk_lines app]. reflexivity.
Qed.

End Changes.

(* known finding F2: the deletion is recorded at its OLD-file line number (11),
   although the surrounding context lines sit at new-file lines 13 and 14 *)
Definition f2_diff : str := T "--- a/f
+++ b/f
@@ -1,2 +1,5 @@
+x
+y
+z
 a
 b
@@ -10,3 +13,2 @@
 c
-d
 e
".

Example f2_deletion_at_old_line_number :
  exists f h1 c d e,
    parse_patch f2_diff = Ok [f] /\ pf_hunks f = [h1; {| h_ss := 10; h_sl := 3; h_ts := 13; h_tl := 2; h_lines := [c; d; e] |}] /\
    dl_kind c = KCtx /\ dl_kind d = KDel /\ dl_kind e = KCtx /\
    dl_tgt c = 13 /\ dl_src d = 11 /\ dl_tgt e = 14 /\
    line_changes_from_diff (fun _ _ => Some []) f2_diff =
      Ok [(T "f", [ {| lc_line := 1; lc_ranges := None |};
                    {| lc_line := 2; lc_ranges := None |};
                    {| lc_line := 3; lc_ranges := None |};
                    {| lc_line := dl_src d; lc_ranges := None |} ])] /\
    dl_src d <> dl_tgt e.
Proof.
  vm_compute. do 5 eexists. repeat (split; [reflexivity|]). discriminate.
Qed.

(* ====================================================================== *)
(* PART 3 - the unified-diff parser                                        *)
(* ====================================================================== *)

(* ---------- 3a: numbering of hunk lines ---------- *)
Definition adv_src (k : dkind) : N := match k with KDel | KCtx => 1 | _ => 0 end.
Definition adv_tgt (k : dkind) : N := match k with KAdd | KCtx => 1 | _ => 0 end.

(* parse_hunk_lines without the early exit *)
Fixpoint numbered (ls : list str) (src tgt : N) : list dline :=
  match ls with
  | [] => []
  | l :: ls' =>
    let k := fst (classify l) in
    {| dl_kind := k; dl_val := snd (classify l); dl_src := src; dl_tgt := tgt |}
      :: numbered ls' (src + adv_src k) (tgt + adv_tgt k)
  end.

(* number of lines that advance the source (KDel/KCtx) resp. target (KAdd/KCtx) counter *)
Fixpoint count_src (ls : list str) : N :=
  match ls with [] => 0 | l :: ls' => adv_src (fst (classify l)) + count_src ls' end.
Fixpoint count_tgt (ls : list str) : N :=
  match ls with [] => 0 | l :: ls' => adv_tgt (fst (classify l)) + count_tgt ls' end.

Lemma parse_hunk_lines_numbering : forall ls src tgt se te,
  exists n, (n <= length ls)%nat /\
    parse_hunk_lines ls src tgt se te = numbered (firstn n ls) src tgt.
Proof.
  induction ls as [|l ls IH]; intros src tgt se te.
  - exists 0%nat. split; [apply le_n|reflexivity].
  - cbn [parse_hunk_lines]. destruct (classify l) as [k v] eqn:Hc.
    match goal with |- context [if ?c then _ else _] => destruct c eqn:Hstop end.
    + exists 1%nat. split; [cbn [length]; lia|].
      cbn [firstn numbered]. rewrite Hc. reflexivity.
    + match goal with |- context [parse_hunk_lines ls ?s ?t se te] =>
        destruct (IH s t se te) as (n & Hn & Heq) end.
      exists (S n). split; [cbn [length]; lia|].
      cbn [firstn numbered]. rewrite Hc. cbn [fst snd]. rewrite Heq.
      f_equal. destruct k; cbn [adv_src adv_tgt]; rewrite ?N.add_0_r; reflexivity.
Qed.

(* the i-th numbered line: kind and value from [classify], numbers from the counts *)
Lemma numbered_nth : forall ls src tgt i l,
  nth_error ls i = Some l ->
  nth_error (numbered ls src tgt) i =
    Some {| dl_kind := fst (classify l); dl_val := snd (classify l);
            dl_src := src + count_src (firstn i ls);
            dl_tgt := tgt + count_tgt (firstn i ls) |}.
Proof.
  induction ls as [|x ls IH]; intros src tgt i l Hnth.
  - destruct i; discriminate.
  - destruct i as [|i]; cbn [nth_error] in Hnth.
    + inversion Hnth; subst. cbn [numbered nth_error firstn count_src count_tgt].
      rewrite !N.add_0_r. reflexivity.
    + cbn [numbered nth_error firstn count_src count_tgt].
      rewrite (IH _ _ i l Hnth). rewrite !N.add_assoc. reflexivity.
Qed.

Lemma numbered_length ls src tgt : length (numbered ls src tgt) = length ls.
Proof. revert src tgt; induction ls as [|l ls IH]; intros; cbn [numbered length]; [reflexivity|]. rewrite IH. reflexivity. Qed.

Lemma nth_error_firstn_some {A} : forall n (ls : list A) i x,
  nth_error (firstn n ls) i = Some x -> nth_error ls i = Some x /\ firstn i (firstn n ls) = firstn i ls.
Proof.
  induction n as [|n IH]; intros ls i x Hx.
  - cbn [firstn] in Hx. destruct i; discriminate.
  - destruct ls as [|a ls]; [destruct i; discriminate|].
    cbn [firstn] in Hx |- *. destruct i as [|i]; cbn [nth_error firstn] in Hx |- *.
    + split; [exact Hx|reflexivity].
    + destruct (IH ls i x Hx) as [H1 H2]. split; [exact H1|]. rewrite H2. reflexivity.
Qed.

(* the combination: every produced line is the classified input line with
   the counted line numbers *)
Corollary parse_hunk_lines_nth : forall ls src tgt se te i d,
  nth_error (parse_hunk_lines ls src tgt se te) i = Some d ->
  exists l, nth_error ls i = Some l /\
    d = {| dl_kind := fst (classify l); dl_val := snd (classify l);
           dl_src := src + count_src (firstn i ls);
           dl_tgt := tgt + count_tgt (firstn i ls) |}.
Proof.
  intros ls src tgt se te i d Hd.
  destruct (parse_hunk_lines_numbering ls src tgt se te) as (n & Hn & Heq).
  rewrite Heq in Hd.
  destruct (nth_error (firstn n ls) i) as [l|] eqn:Hl.
  - rewrite (numbered_nth _ _ _ _ _ Hl) in Hd.
    destruct (nth_error_firstn_some _ _ _ _ Hl) as [H1 H2].
    exists l. split; [exact H1|]. rewrite H2 in Hd. inversion Hd. reflexivity.
  - exfalso. apply nth_error_None in Hl.
    assert (Hsome : nth_error (numbered (firstn n ls) src tgt) i <> None) by congruence.
    apply nth_error_Some in Hsome. rewrite numbered_length in Hsome. lia.
Qed.

(* ---------- 3b: header look-alikes on hunk body lines (known finding F3) ---------- *)
Lemma take_while_not_tab_nonempty : forall rest,
  rest <> [] -> (forall c, hd_error rest = Some c -> c <> 9) ->
  take_while (fun c => negb (c =? 9)) rest <> [].
Proof.
  intros rest Hne Hhd. destruct rest as [|c r]; [congruence|].
  cbn [take_while]. specialize (Hhd c eq_refl).
  destruct (c =? 9) eqn:E; [lia|]. cbn [negb]. discriminate.
Qed.

Lemma header_name_on_body_line : forall prefix rest,
  rest <> [] -> (forall c, hd_error rest = Some c -> c <> 9) ->
  header_name prefix (prefix ++ rest) = Some (take_while (fun c => negb (c =? 9)) rest).
Proof.
  intros prefix rest Hne Hhd. unfold header_name. rewrite strip_prefix_app.
  pose proof (take_while_not_tab_nonempty rest Hne Hhd) as Hnz.
  destruct (take_while (fun c => negb (c =? 9)) rest); [congruence|reflexivity].
Qed.

(* a removed line whose text starts with "-- " is printed as "--- ..." *)
Lemma source_header_on_body_line : forall rest,
  rest <> [] -> (forall c, hd_error rest = Some c -> c <> 9) ->
  source_header (T "--- " ++ rest) = Some (take_while (fun c => negb (c =? 9)) rest).
Proof. intros rest Hne Hhd. apply header_name_on_body_line; assumption. Qed.

(* an added line whose text starts with "++ " is printed as "+++ ..." *)
Lemma target_header_on_body_line : forall rest,
  rest <> [] -> (forall c, hd_error rest = Some c -> c <> 9) ->
  target_header (T "+++ " ++ rest) = Some (take_while (fun c => negb (c =? 9)) rest).
Proof. intros rest Hne Hhd. apply header_name_on_body_line; assumption. Qed.

(* what the outer loop does with such a line while a file is open *)
Lemma lookalike_source_closes_file : forall l n ls files f src,
  source_header l = Some n ->
  parse_lines (l :: ls) files (Some f) src = parse_lines ls (f :: files) None (Some n).
Proof. intros l n ls files f src H. cbn [parse_lines]. rewrite H. reflexivity. Qed.

Lemma lookalike_target_rejected : forall l n ls files f src,
  source_header l = None -> target_header l = Some n ->
  parse_lines (l :: ls) files (Some f) src = Err E_DIFF.
Proof. intros l n ls files f src Hs Ht. cbn [parse_lines]. rewrite Hs, Ht. reflexivity. Qed.

(* once no file is open, lines that are no headers are skipped and the next
   hunk header is an error *)
Definition plain_line (l : str) : Prop :=
  source_header l = None /\ target_header l = None /\ hunk_header l = None.

Lemma hunk_without_file_rejected : forall mid hh hdr rest files src,
  Forall plain_line mid ->
  source_header hh = None -> target_header hh = None -> hunk_header hh = Some hdr ->
  parse_lines (mid ++ hh :: rest) files None src = Err E_DIFF.
Proof.
  induction mid as [|m mid IH]; intros hh hdr rest files src Hmid Hs Ht Hh; cbn [app parse_lines].
  - rewrite Hs, Ht, Hh. reflexivity.
  - inversion Hmid as [|? ? (H1 & H2 & H3) Hmid']; subst. rewrite H1, H2, H3.
    apply (IH hh hdr); assumption.
Qed.

Lemma T_hunk_prefix : T "@@ -" = [64; 64; 32; 45]. Proof. reflexivity. Qed.
Lemma T_src_prefix : T "--- " = [45; 45; 45; 32]. Proof. reflexivity. Qed.
Lemma T_tgt_prefix : T "+++ " = [43; 43; 43; 32]. Proof. reflexivity. Qed.

Lemma hunk_header_not_file_header : forall l hdr,
  hunk_header l = Some hdr -> source_header l = None /\ target_header l = None.
Proof.
  intros l hdr H. unfold hunk_header in H.
  destruct (strip_prefix (T "@@ -") l) as [r|] eqn:E; [|discriminate]. clear H.
  rewrite T_hunk_prefix in E. destruct l as [|c l]; cbn [strip_prefix] in E; [discriminate|].
  destruct (64 =? c) eqn:Ec; [|discriminate]. apply N.eqb_eq in Ec. subst c.
  unfold source_header, target_header, header_name.
  rewrite T_src_prefix, T_tgt_prefix. cbn [strip_prefix].
  replace (45 =? 64) with false by reflexivity.
  replace (43 =? 64) with false by reflexivity. split; reflexivity.
Qed.

(* F3 in general form: a "--- x" body line closes the open file, so any later
   hunk of the same file is rejected *)
Theorem later_hunk_after_lookalike_rejected : forall l n mid hh hdr rest files f src,
  source_header l = Some n -> Forall plain_line mid -> hunk_header hh = Some hdr ->
  parse_lines (l :: mid ++ hh :: rest) files (Some f) src = Err E_DIFF.
Proof.
  intros l n mid hh hdr rest files f src Hl Hmid Hh.
  rewrite (lookalike_source_closes_file _ _ _ _ _ _ Hl).
  destruct (hunk_header_not_file_header _ _ Hh) as [Hs Ht].
  apply (hunk_without_file_rejected mid hh hdr); assumption.
Qed.

(* The statement asked for - "a well-formed one-file, ONE-hunk diff whose hunk
   removes the line `-- x` is not parsed to the expected single file" - is
   FALSE in the model (and in the crate's loop the model transcribes): the
   hunk body is parsed from the remaining lines when the hunk header is met,
   and the look-alike "--- x" line only closes the current file, which the
   end of input would have done anyway.  The result IS the expected file: *)
Definition f3_one_hunk : str := T "--- a/f.sql
+++ b/f.sql
@@ -1,3 +1,2 @@
 a
--- x
 b
".

Example f3_removed_sql_comment_one_hunk_accepted :
  parse_patch f3_one_hunk =
  Ok [ {| pf_source := T "a/f.sql"; pf_target := T "b/f.sql";
          pf_hunks := [ {| h_ss := 1; h_sl := 3; h_ts := 1; h_tl := 2;
                           h_lines := [ {| dl_kind := KCtx; dl_val := T "a"; dl_src := 1; dl_tgt := 1 |};
                                        {| dl_kind := KDel; dl_val := T "-- x"; dl_src := 2; dl_tgt := 2 |};
                                        {| dl_kind := KCtx; dl_val := T "b"; dl_src := 3; dl_tgt := 2 |} ] |} ] |} ].
Proof. vm_compute. reflexivity. Qed.

(* What IS true (strongest variants):
   (i) as soon as the file has a later hunk, the diff is rejected *)
Definition f3_two_hunks : str := T "--- a/f.sql
+++ b/f.sql
@@ -1,3 +1,2 @@
 a
--- x
 b
@@ -10,2 +9,3 @@
 c
+d
 e
".

Example f3_removed_sql_comment_rejected_partial : parse_patch f3_two_hunks = Err E_DIFF.
Proof. vm_compute. reflexivity. Qed.

(* (ii) a one-file, one-hunk diff that ADDS the line `++ y` is rejected
   (TargetWithoutSource) *)
Definition f3_added : str := T "--- a/f.sql
+++ b/f.sql
@@ -1,2 +1,3 @@
 a
+++ y
 b
".

Example f3_added_plusplus_line_rejected : parse_patch f3_added = Err E_DIFF.
Proof. vm_compute. reflexivity. Qed.

(* (iii) a one-file, one-hunk diff that replaces `-- x` by `++ y` is accepted
   but yields a phantom second file x -> y without hunks *)
Definition f3_replaced : str := T "--- a/f.sql
+++ b/f.sql
@@ -1,3 +1,3 @@
 a
--- x
+++ y
 b
".

Example f3_replaced_comment_phantom_file :
  exists f, parse_patch f3_replaced =
    Ok [f; {| pf_source := T "x"; pf_target := T "y"; pf_hunks := [] |}] /\
    pf_target f = T "b/f.sql" /\ length (pf_hunks f) = 1%nat.
Proof. vm_compute. eexists. repeat split. Qed.

(* ---------- 3c: the target path loses exactly one "b/" ---------- *)
Lemma target_path_strips_once : forall s h p,
  target_path {| pf_source := s; pf_target := T "b/" ++ p; pf_hunks := h |} = p.
Proof. intros s h p. unfold target_path. cbn [pf_target]. rewrite strip_prefix_app. reflexivity. Qed.

Example target_path_top_level_b : forall s h,
  target_path {| pf_source := s; pf_target := T "b/b/x"; pf_hunks := h |} = T "b/x".
Proof. intros s h. reflexivity. Qed.

(* ---------- 3d: printing and re-classifying a hunk line ---------- *)
Definition print_dline (l : dline) : str :=
  (match dl_kind l with KAdd => [43] | KDel => [45] | KCtx => [32] | KOther => [92] end) ++ dl_val l.

Lemma classify_print_dline : forall l, classify (print_dline l) = (dl_kind l, dl_val l).
Proof. intros l. unfold print_dline. destruct (dl_kind l); reflexivity. Qed.

(* round trip for a whole hunk body: consistently numbered lines are
   recovered from their printed form *)
Fixpoint well_numbered (ds : list dline) (src tgt : N) : Prop :=
  match ds with
  | [] => True
  | d :: ds' => dl_src d = src /\ dl_tgt d = tgt /\
                well_numbered ds' (src + adv_src (dl_kind d)) (tgt + adv_tgt (dl_kind d))
  end.

Lemma numbered_print_roundtrip : forall ds src tgt,
  well_numbered ds src tgt -> numbered (map print_dline ds) src tgt = ds.
Proof.
  induction ds as [|d ds IH]; intros src tgt Hwn; cbn [map numbered]; [reflexivity|].
  destruct Hwn as (Hs & Ht & Hwn). rewrite classify_print_dline. cbn [fst snd].
  rewrite (IH _ _ Hwn). subst src tgt. destruct d; reflexivity.
Qed.

Lemma well_numbered_firstn : forall n ds src tgt,
  well_numbered ds src tgt -> well_numbered (firstn n ds) src tgt.
Proof.
  induction n as [|n IH]; intros ds src tgt Hwn; [exact I|].
  destruct ds as [|d ds]; [exact I|]. cbn [firstn well_numbered] in *.
  destruct Hwn as (Hs & Ht & Hwn). repeat split; try assumption. apply IH. exact Hwn.
Qed.

Theorem parse_print_hunk_prefix : forall ds src tgt se te,
  well_numbered ds src tgt ->
  exists n, (n <= length ds)%nat /\
    parse_hunk_lines (map print_dline ds) src tgt se te = firstn n ds.
Proof.
  intros ds src tgt se te Hwn.
  destruct (parse_hunk_lines_numbering (map print_dline ds) src tgt se te) as (n & Hn & Heq).
  exists n. rewrite map_length in Hn. split; [exact Hn|].
  rewrite Heq, firstn_map. apply numbered_print_roundtrip, well_numbered_firstn. exact Hwn.
Qed.

(* ====================================================================== *)
(* PART 2e - push_or_merge keeps the reversed range list sorted            *)
(* ====================================================================== *)
Definition rsorted (l : list (N * N)) : Prop := StronglySorted (fun a b => fst b <= fst a) l.
Definition sorted_by_start (l : list (N * N)) : Prop := StronglySorted (fun a b => fst a <= fst b) l.

Lemma sink_in r l x : In x (sink r l) -> x = r \/ In x l.
Proof.
  induction l as [|a l IH]; cbn [sink]; intros Hin.
  - destruct Hin as [<-|[]]. left. reflexivity.
  - destruct (fst r <? fst a).
    + destruct Hin as [<-|Hin]; [right; left; reflexivity|].
      destruct (IH Hin) as [->|Hx]; [left; reflexivity|right; right; exact Hx].
    + destruct Hin as [<-|Hin]; [left; reflexivity|right; exact Hin].
Qed.

Lemma sink_rsorted r l : rsorted l -> rsorted (sink r l).
Proof.
  unfold rsorted. induction l as [|a l IH]; cbn [sink]; intros Hs.
  - constructor; constructor.
  - inversion Hs as [|? ? Hs' Hf]; subst.
    destruct (fst r <? fst a) eqn:E.
    + constructor; [apply IH; exact Hs'|].
      apply Forall_forall. intros x Hx. apply sink_in in Hx. destruct Hx as [->|Hx]; [lia|].
      rewrite Forall_forall in Hf. apply Hf. exact Hx.
    + constructor; [exact Hs|]. constructor; [lia|].
      eapply Forall_impl; [|exact Hf]. cbn beta. intros x Hx. lia.
Qed.

Lemma push_or_merge_rsorted l new : rsorted l -> rsorted (push_or_merge l new).
Proof.
  intros Hs. unfold push_or_merge. destruct l as [|last rest].
  - constructor; constructor.
  - destruct ((fst new <=? snd last) && (fst last <=? snd new)).
    + apply sink_rsorted. inversion Hs; assumption.
    + apply sink_rsorted. exact Hs.
Qed.

Lemma ssorted_snoc {A} (R : A -> A -> Prop) l a :
  StronglySorted R l -> Forall (fun x => R x a) l -> StronglySorted R (l ++ [a]).
Proof.
  induction 1 as [|x l Hs IH Hf]; intros Hall; cbn [app].
  - constructor; constructor.
  - inversion Hall; subst. constructor; [apply IH; assumption|].
    apply Forall_app. split; [exact Hf|]. constructor; [assumption|constructor].
Qed.

Lemma rsorted_rev l : rsorted l -> sorted_by_start (rev l).
Proof.
  unfold rsorted, sorted_by_start. induction 1 as [|a l Hs IH Hf]; cbn [rev].
  - constructor.
  - apply ssorted_snoc; [exact IH|]. apply Forall_rev_iff. exact Hf.
Qed.

Lemma line_diff_ops_sorted : forall new ops pd acc,
  rsorted acc -> sorted_by_start (line_diff_ops new ops pd acc).
Proof.
  intros new ops. induction ops as [|op ops IH]; intros pd acc Hs; cbn [line_diff_ops].
  - apply rsorted_rev. exact Hs.
  - apply IH. destruct op; try exact Hs; try (apply push_or_merge_rsorted; exact Hs).
    destruct pd; [exact Hs|apply push_or_merge_rsorted; exact Hs].
Qed.

Corollary line_diff_sorted : forall new ops, sorted_by_start (line_diff_ops new ops false []).
Proof. intros new ops. apply line_diff_ops_sorted. constructor. Qed.

(* DiffScanE2E_proofs.v - "diff mode validates exactly the touched blocks, with
   full-scan verdicts", from the two contexts (theories/Context.v) through the
   validators (theories/Run.v) to two runs of main (theories/Main.v).

   D1  the diff context is the selected part of the scan context
       (diff_context_is_selected_scan_context, file by file; ..._whole for the
       whole context; selected_scan_file_in_diff_context for the converse)
   D2  a content validator's diagnostics on the diff context are the scan
       verdicts of the selected blocks (diff_run_validator_is_selected_scan_partial:
       as multisets in general, as lists when the diff lists its sections in walk
       order; diff_nothing_extra, diff_nothing_lost)
   D3  the same between two accepted command lines, through main_model
       (main_diff_run_vs_scan_run)
   and computed examples: the two runs on a concrete file, the hypotheses of D3
   instantiated, and the two counterexamples that explain the side conditions. *)
From BW Require Import Main.
From BWGen Require Import ExtTable.
From BWP Require Import TextFacts Keys_proofs Select_proofs Context_proofs Run_proofs Compose_proofs Order_proofs Main_proofs MainCompose_proofs Scope_proofs.
From Coq Require Import ZifyBool ZifyN ZifyNat Permutation.
Arguments N.add : simpl never. Arguments N.sub : simpl never. Arguments N.mul : simpl never.
Arguments N.eqb : simpl never. Arguments N.ltb : simpl never. Arguments N.leb : simpl never.

(* ================================================================== *)
(* 0. lists                                                            *)
(* ================================================================== *)

Lemma flat_map_flat_map_ {A B C} (f : A -> list B) (g : B -> list C) l :
  flat_map g (flat_map f l) = flat_map (fun x => flat_map g (f x)) l.
Proof.
  induction l as [|x l IH]; cbn [flat_map]; [reflexivity|].
  rewrite flat_map_app, IH. reflexivity.
Qed.

Lemma flat_map_map_l {A B C} (f : A -> list B) (g : B -> C) l :
  map g (flat_map f l) = flat_map (fun x => map g (f x)) l.
Proof.
  induction l as [|x l IH]; cbn [flat_map map]; [reflexivity|].
  rewrite map_app, IH. reflexivity.
Qed.

Lemma str_eqb_false_neq (a b : str) : str_eqb a b = false -> a <> b.
Proof. intros H E. subst b. rewrite str_eqb_refl in H. discriminate H. Qed.

Lemma assoc_not_key_ {A} (k : str) (l : list (str * A)) : ~ In k (map fst l) -> assoc k l = None.
Proof.
  induction l as [|[k' v] l IH]; intros H; cbn [assoc]; [reflexivity|].
  destruct (str_eqb k k') eqn:E.
  - exfalso. apply H. left. symmetry. apply str_eqb_eq. exact E.
  - apply IH. intros Hin. apply H. right. exact Hin.
Qed.

(* ================================================================== *)
(* 1. what the diff selects                                            *)
(* ================================================================== *)

(* Select.v keeps a block in ModifiedOnly mode when some line change hits its
   content range or its start-tag range *)
Definition touched_by (lcs : list lchange) (bc : bctx) : bool :=
  existsb (content_hit (bc_block bc)) lcs || existsb (tag_hit (bc_block bc)) lcs.

(* the line changes the diff holds for a path (none: the diff does not name it) *)
Definition lcs_of (ch : list (str * list lchange)) (p : str) : list lchange :=
  match assoc p ch with Some l => l | None => [] end.

Lemma touched_by_nil bc : touched_by [] bc = false.
Proof. reflexivity. Qed.

Lemma touched_by_block lcs bc bc' : bc_block bc = bc_block bc' -> touched_by lcs bc = touched_by lcs bc'.
Proof. intros H. unfold touched_by. rewrite H. reflexivity. Qed.

(* in the words of Select.v / Select_proofs.selected_iff_touched *)
Lemma touched_by_iff lcs bc :
  touched_by lcs bc = true <->
  content_modified (bc_block bc) lcs = true \/ tag_modified (bc_block bc) lcs = true.
Proof. unfold touched_by, content_modified, tag_modified. apply orb_true_iff. Qed.

(* the flags mk_bctx computes are these two tests (Compose_proofs.touched is their disjunction) *)
Lemma touched_mk_bctx lcs lcs' b :
  touched (mk_bctx lcs b) = touched_by lcs (mk_bctx lcs' b).
Proof. reflexivity. Qed.

(* what is left of a file context once the modified flags are forgotten *)
Definition shape := (str * str * list block)%type.
Definition strip (f : fctx) : shape := (fc_path f, fc_text f, map bc_block (fc_blocks f)).

(* the selected part of a scan file context (nothing when no block is touched:
   add_result drops a file without blocks) *)
Definition selected_with (lcs : list lchange) (f : fctx) : list shape :=
  match filter (touched_by lcs) (fc_blocks f) with
  | [] => []
  | l => [(fc_path f, fc_text f, map bc_block l)]
  end.
Definition selected (ch : list (str * list lchange)) (f : fctx) : list shape :=
  selected_with (lcs_of ch (fc_path f)) f.

Lemma select_false_blocks lcs lcs' bs :
  map bc_block (select_blocks false lcs bs) =
  map bc_block (filter (touched_by lcs) (map (mk_bctx lcs') bs)).
Proof.
  unfold select_blocks. cbn [orb].
  induction bs as [|b bs IH]; cbn [map filter]; [reflexivity|].
  change (bc_contmod (mk_bctx lcs b) || bc_tagmod (mk_bctx lcs b)) with (touched_by lcs (mk_bctx lcs' b)).
  destruct (touched_by lcs (mk_bctx lcs' b)); cbn [map]; rewrite IH; reflexivity.
Qed.

(* one file, examined by the diff loop with line changes lcs and by the scan
   loop without a diff *)
Lemma file_contrib_selected ext rf lcs :
  map strip (contrib_ctx rf (parse_one ext rf false lcs)) =
  flat_map (selected_with lcs) (contrib_ctx rf (parse_one ext rf true [])).
Proof.
  unfold parse_one. destruct (grammar_of ext_table ext (rf_path rf)); [|reflexivity].
  destruct (rf_readable rf); [|reflexivity].
  destruct (parse_file (rf_text rf) (rf_spans rf)) as [bs|e|s]; cbn [bind]; try reflexivity.
  rewrite select_blocks_all.
  pose proof (select_false_blocks lcs [] bs) as HS.
  destruct bs as [|b bs]; [reflexivity|].
  cbn [map contrib_ctx flat_map]. rewrite app_nil_r.
  unfold selected_with. cbn [fc_blocks fc_path fc_text].
  change (mk_bctx [] b :: map (mk_bctx []) bs) with (map (mk_bctx []) (b :: bs)).
  destruct (select_blocks false lcs (b :: bs)) as [|c cs];
    destruct (filter (touched_by lcs) (map (mk_bctx []) (b :: bs))) as [|d ds];
    cbn [map contrib_ctx] in *; try discriminate HS; [reflexivity|].
  unfold strip. cbn [fc_path fc_text fc_blocks map]. rewrite HS. reflexivity.
Qed.

(* ================================================================== *)
(* 2. the two contexts in closed form                                  *)
(* ================================================================== *)

Lemma scan_ctx_closed ext fs :
  cr_ctx (build_context ext fs true []) =
  flat_map (fun f => contrib_ctx f (scan_step ext [] f)) fs.
Proof.
  unfold build_context. cbn [diff_files]. rewrite scan_files_closed. reflexivity.
Qed.

Lemma diff_ctx_closed ext fs ch :
  (forall p l, In (p, l) ch -> find_file p fs <> None) ->
  cr_ctx (build_context ext fs false ch) =
  flat_map (fun e => dstep_ctx (diff_step ext fs false e)) ch.
Proof.
  intros Hall. unfold build_context. rewrite (diff_files_closed ext fs false ch _ Hall). reflexivity.
Qed.

(* a diff context without errors: every path of the diff has a file entry *)
Lemma diff_files_no_miss ext fs scan : forall ch acc,
  cr_errs (diff_files ext fs scan ch acc) = [] ->
  forall p l, In (p, l) ch -> find_file p fs <> None.
Proof.
  induction ch as [|[q lq] rest IH]; intros acc He p l Hin; [destruct Hin|].
  cbn [diff_files] in He. destruct (find_file q fs) as [f|] eqn:Ef.
  - destruct Hin as [Heq|Hin].
    + inversion Heq; subst q lq. rewrite Ef. discriminate.
    + destruct ((scan && scanned f) || rf_ignore f); eapply IH; eassumption.
  - exfalso. cbn [cr_errs] in He. destruct (cr_errs acc); discriminate He.
Qed.

Lemma build_context_no_miss ext fs scan ch :
  cr_errs (build_context ext fs scan ch) = [] ->
  forall p l, In (p, l) ch -> find_file p fs <> None.
Proof. unfold build_context. apply diff_files_no_miss. Qed.

(* the scan loop's result for a file, without a diff *)
Lemma scan_step_nil ext f :
  scan_step ext [] f = if scanned f then parse_one ext f true [] else None.
Proof. reflexivity. Qed.

(* ================================================================== *)
(* 3. walking the diff's sections vs walking the files                 *)
(* ================================================================== *)

Section Join.
Context {X : Type} (G : rfile -> list lchange -> list X).

Definition by_change (fs : list rfile) (e : str * list lchange) : list X :=
  match find_file (fst e) fs with Some f => G f (snd e) | None => [] end.
Definition by_file (ch : list (str * list lchange)) (f : rfile) : list X :=
  match assoc (rf_path f) ch with Some l => G f l | None => [] end.

Lemma find_file_not_in p fs : ~ In p (map rf_path fs) -> find_file p fs = None.
Proof.
  unfold find_file. induction fs as [|g fs IH]; intros H; cbn [find]; [reflexivity|].
  destruct (str_eqb (rf_path g) p) eqn:E.
  - exfalso. apply H. left. apply str_eqb_eq. exact E.
  - apply IH. intros Hin. apply H. right. exact Hin.
Qed.

Lemma by_file_cons p l rest : ~ In p (map fst rest) -> forall fs, NoDup (map rf_path fs) ->
  Permutation (flat_map (by_file ((p, l) :: rest)) fs)
              (by_change fs (p, l) ++ flat_map (by_file rest) fs).
Proof.
  intros Hp. unfold by_change. cbn [fst snd].
  induction fs as [|f fs IH]; intros Hnd; cbn [flat_map]; [apply Permutation_refl|].
  inversion Hnd as [|x xs Hnotin Hnd']; subst x xs.
  unfold by_file at 1. cbn [assoc]. unfold find_file. cbn [find]. fold (find_file p fs).
  destruct (str_eqb (rf_path f) p) eqn:E.
  - apply str_eqb_eq in E.
    assert (Hr : by_file rest f = []).
    { unfold by_file. rewrite E, (assoc_not_key_ p rest Hp). reflexivity. }
    rewrite Hr. cbn [app].
    apply Permutation_app_head.
    eapply perm_trans; [apply (IH Hnd')|].
    rewrite find_file_not_in by (rewrite <- E; exact Hnotin). apply Permutation_refl.
  - fold (by_file rest f).
    eapply perm_trans; [apply Permutation_app_head, (IH Hnd')|].
    apply Permutation_app_swap_app.
Qed.

Lemma join_perm fs : NoDup (map rf_path fs) -> forall ch, NoDup (map fst ch) ->
  Permutation (flat_map (by_change fs) ch) (flat_map (by_file ch) fs).
Proof.
  intros Hnd. induction ch as [|[p l] rest IH]; intros Hndc; cbn [flat_map].
  - rewrite flat_map_nil; [apply Permutation_refl|]. intros f _. reflexivity.
  - inversion Hndc as [|x xs Hnotin Hndc']; subst x xs. cbn [fst] in Hnotin.
    apply Permutation_sym.
    eapply perm_trans; [apply (by_file_cons p l rest Hnotin fs Hnd)|].
    apply Permutation_app_head, Permutation_sym, (IH Hndc').
Qed.

(* the diff lists its sections in the order in which the walk yields the files *)
Definition in_walk_order (fs : list rfile) (ch : list (str * list lchange)) : Prop :=
  ch = flat_map (fun f => match assoc (rf_path f) ch with Some l => [(rf_path f, l)] | None => [] end) fs.

Lemma join_eq fs ch : NoDup (map rf_path fs) -> in_walk_order fs ch ->
  flat_map (by_change fs) ch = flat_map (by_file ch) fs.
Proof.
  intros Hnd Hord. unfold in_walk_order in Hord.
  set (F := fun f => match assoc (rf_path f) ch with Some l => [(rf_path f, l)] | None => [] end) in Hord.
  transitivity (flat_map (by_change fs) (flat_map F fs)); [rewrite <- Hord; reflexivity|].
  rewrite flat_map_flat_map_. apply flat_map_ext_in. intros f Hf.
  unfold F, by_file. destruct (assoc (rf_path f) ch) as [l|]; [|reflexivity].
  cbn [flat_map]. rewrite app_nil_r. unfold by_change. cbn [fst snd].
  assert (Hff : find_file (rf_path f) fs = Some f).
  { apply find_file_in_nodup; [exact Hnd|]. split; [exact Hf|reflexivity]. }
  rewrite Hff. reflexivity.
Qed.
End Join.

(* ================================================================== *)
(* D1. the diff context is the selected part of the scan context       *)
(* ================================================================== *)

Lemma in_contrib_ctx f r fc :
  In fc (contrib_ctx f r) -> fc_path fc = rf_path f /\ fc_text fc = rf_text f.
Proof.
  destruct r as [[[|b bs]|e|s]|]; cbn [contrib_ctx In]; intros H; try (destruct H; fail).
  destruct H as [<-|[]]. split; reflexivity.
Qed.

Lemma selected_with_nil f : selected_with [] f = [].
Proof.
  unfold selected_with. rewrite filter_all_false; [reflexivity|]. intros bc _. reflexivity.
Qed.

Lemma selected_contrib ch f r :
  flat_map (selected ch) (contrib_ctx f r) =
  flat_map (selected_with (lcs_of ch (rf_path f))) (contrib_ctx f r).
Proof. apply flat_map_ext_in. intros fc H. unfold selected. rewrite (proj1 (in_contrib_ctx f r fc H)). reflexivity. Qed.

Lemma scanned_ignored f : rf_ignore f = true -> scanned f = false.
Proof. intros H. unfold scanned. rewrite H. apply andb_false_r. Qed.

Lemma scanned_iff f : scanned f = true <-> (rf_exists f && rf_allow f = true /\ rf_ignore f = false).
Proof. unfold scanned. rewrite andb_true_iff, negb_true_iff. tauto. Qed.

(* every file the diff names and --ignore does not exclude is one the scan examines:
   walked, and allowed by the positional globs (or the "**" fallback).  Diff mode reads
   a file by the name the diff gives, so it also examines hidden or git-ignored files and
   files outside the globs; the scan never does (cf. unwalked_file_validated_in_diff_mode_only
   at the end of this file). *)
Definition diff_in_scan_scope (fs : list rfile) (ch : list (str * list lchange)) : Prop :=
  forall p l f, In (p, l) ch -> find_file p fs = Some f -> rf_ignore f = false ->
                rf_exists f && rf_allow f = true.

(* what the diff loop contributes for one section, forgetting the flags *)
Definition diff_part (ext : list (str * str)) (f : rfile) (l : list lchange) : list shape :=
  if rf_ignore f then [] else map strip (contrib_ctx f (parse_one ext f false l)).

Lemma diff_part_by_change ext fs e :
  map strip (dstep_ctx (diff_step ext fs false e)) = by_change (diff_part ext) fs e.
Proof.
  unfold diff_step, by_change, diff_part. cbn [andb orb].
  destruct (find_file (fst e) fs) as [f|]; [|reflexivity].
  destruct (rf_ignore f); reflexivity.
Qed.

Lemma scan_part_by_file ext fs ch f :
  NoDup (map rf_path fs) -> NoDup (map fst ch) -> diff_in_scan_scope fs ch -> In f fs ->
  flat_map (selected ch) (contrib_ctx f (scan_step ext [] f)) = by_file (diff_part ext) ch f.
Proof.
  intros Hnd Hndc Hscope Hf. rewrite selected_contrib. unfold lcs_of, by_file.
  destruct (assoc (rf_path f) ch) as [l|] eqn:Ea.
  - apply (assoc_in_nodup _ _ _ Hndc) in Ea.
    assert (Hff : find_file (rf_path f) fs = Some f).
    { apply find_file_in_nodup; [exact Hnd|]. split; [exact Hf|reflexivity]. }
    unfold diff_part. rewrite scan_step_nil. destruct (rf_ignore f) eqn:Ei.
    + rewrite (scanned_ignored f Ei). reflexivity.
    + assert (Hs : scanned f = true).
      { apply scanned_iff. split; [exact (Hscope _ _ _ Ea Hff Ei)|exact Ei]. }
      rewrite Hs. symmetry. apply file_contrib_selected.
  - apply flat_map_nil. intros fc _. apply selected_with_nil.
Qed.

(* the whole context: up to the order of the files (the diff's order vs the walk's)
   and up to the modified flags, the diff context is the scan context with the
   untouched blocks - and the files left without a block - removed *)
Theorem diff_context_is_selected_scan_context_whole : forall ext fs ch,
  NoDup (map rf_path fs) -> NoDup (map fst ch) ->
  (forall p l, In (p, l) ch -> find_file p fs <> None) ->
  diff_in_scan_scope fs ch ->
  let scan := build_context ext fs true [] in
  let dif := build_context ext fs false ch in
  Permutation (map strip (cr_ctx dif)) (flat_map (selected ch) (cr_ctx scan)) /\
  (in_walk_order fs ch -> map strip (cr_ctx dif) = flat_map (selected ch) (cr_ctx scan)).
Proof.
  intros ext fs ch Hnd Hndc Hall Hscope scan dif. unfold scan, dif.
  rewrite (diff_ctx_closed ext fs ch Hall), scan_ctx_closed.
  rewrite flat_map_map_l, flat_map_flat_map_.
  rewrite (flat_map_ext_in _ (by_change (diff_part ext) fs) ch)
    by (intros e _; apply diff_part_by_change).
  rewrite (flat_map_ext_in _ (by_file (diff_part ext) ch) fs)
    by (intros f Hf; apply (scan_part_by_file ext fs ch f); assumption).
  split.
  - apply join_perm; assumption.
  - intros Hord. apply join_eq; assumption.
Qed.

(* file by file (no hypothesis on errors is needed: a file that made it into the diff
   context has a grammar, was read and parsed, and the scan parses the same text) *)
Theorem diff_context_is_selected_scan_context : forall ext fs ch,
  NoDup (map rf_path fs) -> NoDup (map fst ch) ->
  (forall p l, In (p, l) ch -> find_file p fs <> None) ->
  let scan := build_context ext fs true [] in
  let dif := build_context ext fs false ch in
  forall f_dif, In f_dif (cr_ctx dif) ->
  exists rf lcs,
    In rf fs /\ rf_path rf = fc_path f_dif /\ rf_text rf = fc_text f_dif /\ rf_ignore rf = false /\
    In (fc_path f_dif, lcs) ch /\ lcs_of ch (fc_path f_dif) = lcs /\
    (* when the scan examines the file too: walked and allowed *)
    (rf_exists rf && rf_allow rf = true ->
     exists f_scan, In f_scan (cr_ctx scan) /\
       fc_path f_scan = fc_path f_dif /\ fc_text f_scan = fc_text f_dif /\
       map bc_block (fc_blocks f_dif) = map bc_block (filter (touched_by lcs) (fc_blocks f_scan))).
Proof.
  intros ext fs ch Hnd Hndc Hall scan dif fd Hin. unfold scan, dif in *.
  rewrite (diff_ctx_closed ext fs ch Hall) in Hin.
  apply in_flat_map in Hin. destruct Hin as ([p l] & He & Hin).
  unfold diff_step in Hin. cbn [fst snd andb orb] in Hin.
  destruct (find_file p fs) as [rf|] eqn:Ef; [|destruct Hin].
  destruct (rf_ignore rf) eqn:Ei; [destruct Hin|]. cbn [dstep_ctx] in Hin.
  destruct (in_contrib_ctx _ _ _ Hin) as [Hp Ht].
  apply (find_file_in_nodup _ _ _ Hnd) in Ef. destruct Ef as [Hrf Hpp].
  exists rf, l. split; [exact Hrf|]. split; [congruence|]. split; [congruence|]. split; [exact Ei|].
  assert (Hkey : In (fc_path fd, l) ch) by (rewrite Hp, Hpp; exact He).
  split; [exact Hkey|]. split.
  { unfold lcs_of. apply (assoc_in_nodup _ _ _ Hndc) in Hkey. rewrite Hkey. reflexivity. }
  intros Hea.
  assert (Hs : scanned rf = true) by (apply scanned_iff; split; assumption).
  assert (Hst : In (strip fd) (map strip (contrib_ctx rf (parse_one ext rf false l))))
    by (apply in_map; exact Hin).
  rewrite file_contrib_selected in Hst. apply in_flat_map in Hst. destruct Hst as (fsn & Hfsn & Hsel).
  exists fsn. split.
  - rewrite scan_ctx_closed. apply in_flat_map. exists rf. split; [exact Hrf|].
    rewrite scan_step_nil, Hs. exact Hfsn.
  - unfold selected_with in Hsel.
    destruct (filter (touched_by l) (fc_blocks fsn)) as [|d ds]; [destruct Hsel|].
    destruct Hsel as [Hsel|[]]. unfold strip in Hsel. inversion Hsel as [[H1 H2 H3]].
    repeat split; reflexivity.
Qed.

(* ... and conversely: a scan file the diff names, some block of which is touched, is in
   the diff context with exactly its touched blocks *)
Theorem selected_scan_file_in_diff_context : forall ext fs ch,
  NoDup (map rf_path fs) -> NoDup (map fst ch) ->
  (forall p l, In (p, l) ch -> find_file p fs <> None) ->
  let scan := build_context ext fs true [] in
  let dif := build_context ext fs false ch in
  forall f_scan lcs, In f_scan (cr_ctx scan) -> In (fc_path f_scan, lcs) ch ->
  filter (touched_by lcs) (fc_blocks f_scan) <> [] ->
  exists f_dif, In f_dif (cr_ctx dif) /\
    fc_path f_dif = fc_path f_scan /\ fc_text f_dif = fc_text f_scan /\
    map bc_block (fc_blocks f_dif) = map bc_block (filter (touched_by lcs) (fc_blocks f_scan)).
Proof.
  intros ext fs ch Hnd Hndc Hall scan dif fsn lcs Hin Hkey Hne. unfold scan, dif in *.
  rewrite scan_ctx_closed in Hin. apply in_flat_map in Hin. destruct Hin as (rf & Hrf & Hin).
  rewrite scan_step_nil in Hin. destruct (scanned rf) eqn:Hs; [|destruct Hin].
  apply scanned_iff in Hs. destruct Hs as [_ Hi].
  destruct (in_contrib_ctx _ _ _ Hin) as [Hp Ht].
  assert (Hsel : In (fc_path fsn, fc_text fsn, map bc_block (filter (touched_by lcs) (fc_blocks fsn)))
                    (flat_map (selected_with lcs) (contrib_ctx rf (parse_one ext rf true [])))).
  { apply in_flat_map. exists fsn. split; [exact Hin|]. unfold selected_with.
    destruct (filter (touched_by lcs) (fc_blocks fsn)) as [|d ds]; [exfalso; apply Hne; reflexivity|].
    left. reflexivity. }
  rewrite <- file_contrib_selected in Hsel. apply in_map_iff in Hsel. destruct Hsel as (fd & Hst & Hfd).
  exists fd. split.
  - rewrite (diff_ctx_closed ext fs ch Hall). apply in_flat_map. exists (fc_path fsn, lcs).
    split; [exact Hkey|]. unfold diff_step. cbn [fst snd andb orb].
    assert (Hff : find_file (fc_path fsn) fs = Some rf).
    { apply find_file_in_nodup; [exact Hnd|]. split; [exact Hrf|]. symmetry. exact Hp. }
    rewrite Hff, Hi. exact Hfd.
  - unfold strip in Hst. inversion Hst as [[H1 H2 H3]]. repeat split; reflexivity.
Qed.

(* ================================================================== *)
(* D2. one content validator on the two contexts                       *)
(* ================================================================== *)

Definition content_validators : list N := [V_SORTED; V_UNIQUE; V_PATTERN; V_COUNT; V_AI; V_LUA].

(* the verdict of a content validator on a bare block of a file (path, text) *)
Definition block_diags (o : oracles) (v : N) (path text : str) (b : block) : list (str * diag) :=
  vr_diags (vres_of path
    (validate_block o [] v {| fc_path := path; fc_text := text; fc_blocks := [] |} (mk_bctx [] b))).
Definition shape_diags (o : oracles) (v : N) (s : shape) : list (str * diag) :=
  flat_map (block_diags o v (fst (fst s)) (snd (fst s))) (snd s).

(* the scan verdict that the statements below speak about *)
Definition block_verdict (o : oracles) (nm : list (str * str)) (v : N) (f : fctx) (bc : bctx) : list (str * diag) :=
  vr_diags (vres_of (fc_path f) (validate_block o nm v f bc)).

Lemma block_verdict_diags o nm v f bc : In v content_validators ->
  block_verdict o nm v f bc = block_diags o v (fc_path f) (fc_text f) (bc_block bc).
Proof.
  intros Hv. unfold block_verdict, block_diags.
  rewrite (validate_block_local_gen o nm [] v f
             {| fc_path := fc_path f; fc_text := fc_text f; fc_blocks := [] |} bc (mk_bctx [] (bc_block bc)) Hv);
    reflexivity.
Qed.

Definition prepass_clean (v : N) (ctx : context) : Prop :=
  forall f bc, In f ctx -> In bc (fc_blocks f) -> prepass_block v bc = Ok tt.
Definition shapes_prepass_clean (v : N) (S : list shape) : Prop :=
  forall s b, In s S -> In b (snd s) -> prepass_block v (mk_bctx [] b) = Ok tt.

Lemma prepass_clean_shapes v ctx : prepass_clean v ctx <-> shapes_prepass_clean v (map strip ctx).
Proof.
  unfold prepass_clean, shapes_prepass_clean. split.
  - intros H s b Hs Hb. apply in_map_iff in Hs. destruct Hs as (f & <- & Hf).
    unfold strip in Hb. cbn [snd] in Hb. apply in_map_iff in Hb. destruct Hb as (bc & <- & Hbc).
    rewrite <- (H f bc Hf Hbc). apply prepass_block_local. reflexivity.
  - intros H f bc Hf Hbc. rewrite <- (H (strip f) (bc_block bc)).
    + apply prepass_block_local. reflexivity.
    + apply in_map. exact Hf.
    + unfold strip. cbn [snd]. apply in_map. exact Hbc.
Qed.

(* with a clean pre-pass, everything a content validator reports: block by block *)
Lemma run_validator_all_blocks o ctx v : prepass_clean v ctx ->
  vr_diags (run_validator o ctx v) =
  flat_map (fun f => flat_map (block_verdict o (named_modified ctx) v f) (fc_blocks f)) ctx.
Proof.
  intros Hpre. rewrite (run_validator_blocks o ctx v Hpre), fold_vres_diags, block_results_eq.
  rewrite flat_map_flat_map_. apply flat_map_ext_in. intros f _.
  rewrite flat_map_map_. reflexivity.
Qed.

(* ... which only depends on the paths, the texts and the blocks: not on the flags *)
Lemma run_validator_shapes o ctx v : In v content_validators -> prepass_clean v ctx ->
  vr_diags (run_validator o ctx v) = flat_map (shape_diags o v) (map strip ctx).
Proof.
  intros Hv Hpre. rewrite (run_validator_all_blocks o ctx v Hpre), flat_map_map_.
  apply flat_map_ext_in. intros f _. unfold shape_diags, strip. cbn [fst snd].
  rewrite flat_map_map_. apply flat_map_ext_in. intros bc _. apply block_verdict_diags. exact Hv.
Qed.

(* the variant of Compose_proofs.diff_mode_verdicts_agree that the diff context needs:
   ctx' is the restriction of ctx up to the modified flags of its blocks *)
Theorem diff_mode_verdicts_agree_up_to_flags : forall o ctx ctx' sel v,
  In v content_validators -> prepass_clean v ctx ->
  map strip ctx' = map strip (restrict sel ctx) ->
  vr_diags (run_validator o ctx' v) =
  flat_map (fun f => flat_map (fun bc =>
      if sel bc then block_verdict o (named_modified ctx) v f bc else []) (fc_blocks f)) ctx.
Proof.
  intros o ctx ctx' sel v Hv Hpre Hst.
  assert (Hpr : prepass_clean v (restrict sel ctx)).
  { intros f' bc Hf' Hbc. destruct (in_restrict sel ctx f' bc Hf' Hbc) as (f & Hf & Hb & _).
    exact (Hpre f bc Hf Hb). }
  assert (Hpc : prepass_clean v ctx').
  { apply prepass_clean_shapes. rewrite Hst. apply prepass_clean_shapes. exact Hpr. }
  rewrite (run_validator_shapes o ctx' v Hv Hpc), Hst, <- (run_validator_shapes o _ v Hv Hpr).
  exact (diff_mode_verdicts_agree o ctx sel v Hv Hpre).
Qed.

(* the same when the files come in another order and the files left without a block are gone *)
Lemma run_validator_of_shapes o ctx v S : In v content_validators ->
  shapes_prepass_clean v S ->
  (Permutation (map strip ctx) S -> Permutation (vr_diags (run_validator o ctx v)) (flat_map (shape_diags o v) S)) /\
  (map strip ctx = S -> vr_diags (run_validator o ctx v) = flat_map (shape_diags o v) S).
Proof.
  intros Hv HS. split.
  - intros Hp.
    assert (Hpc : prepass_clean v ctx).
    { apply prepass_clean_shapes. intros s b Hs Hb. apply (HS s b); [|exact Hb].
      eapply Permutation_in; eassumption. }
    rewrite (run_validator_shapes o ctx v Hv Hpc). apply perm_flat_map. exact Hp.
  - intros <-. apply run_validator_shapes; [exact Hv|]. apply prepass_clean_shapes. exact HS.
Qed.

Lemma filter_block_diags o v p t (sel : bctx -> bool) bs :
  flat_map (block_diags o v p t) (map bc_block (filter sel bs)) =
  flat_map (fun bc => if sel bc then block_diags o v p t (bc_block bc) else []) bs.
Proof.
  induction bs as [|bc bs IH]; cbn [filter map flat_map]; [reflexivity|].
  destruct (sel bc); cbn [map flat_map]; rewrite IH; reflexivity.
Qed.

(* the selected part of one scan file: the scan verdicts of its touched blocks *)
Lemma selected_with_diags o nm v lcs f : In v content_validators ->
  flat_map (shape_diags o v) (selected_with lcs f) =
  flat_map (fun bc => if touched_by lcs bc then block_verdict o nm v f bc else []) (fc_blocks f).
Proof.
  intros Hv.
  transitivity (flat_map (block_diags o v (fc_path f) (fc_text f))
                         (map bc_block (filter (touched_by lcs) (fc_blocks f)))).
  - unfold selected_with. destruct (filter (touched_by lcs) (fc_blocks f)) as [|d ds]; [reflexivity|].
    cbn [flat_map]. rewrite app_nil_r. reflexivity.
  - rewrite filter_block_diags. apply flat_map_ext_in. intros bc _.
    destruct (touched_by lcs bc); [|reflexivity]. symmetry. apply block_verdict_diags. exact Hv.
Qed.

Lemma selected_prepass_clean v ch ctx : prepass_clean v ctx ->
  shapes_prepass_clean v (flat_map (selected ch) ctx).
Proof.
  intros Hpre s b Hs Hb. apply in_flat_map in Hs. destruct Hs as (f & Hf & Hs).
  unfold selected, selected_with in Hs.
  destruct (filter (touched_by (lcs_of ch (fc_path f))) (fc_blocks f)) as [|d ds] eqn:E; [destruct Hs|].
  destruct Hs as [<-|[]]. cbn [snd] in Hb. rewrite <- E in Hb.
  apply in_map_iff in Hb. destruct Hb as (bc & <- & Hbc). apply filter_In in Hbc.
  rewrite <- (Hpre f bc Hf (proj1 Hbc)). apply prepass_block_local. reflexivity.
Qed.

(* what the statement asks for: the diff run of v reports the scan verdicts of the selected
   blocks, file by file and block by block, and nothing for the others *)
Definition selected_scan_diags (o : oracles) (v : N) (ch : list (str * list lchange)) (ctx : context)
  : list (str * diag) :=
  flat_map (fun f => flat_map (fun bc =>
      if touched_by (lcs_of ch (fc_path f)) bc then block_verdict o (named_modified ctx) v f bc else [])
    (fc_blocks f)) ctx.

(* D2.  As an equality of lists "in the order of the scan context" the statement is FALSE in
   general: the diff context lists its files in the order of the diff's sections, the scan
   context in the order of the walk (counterexample: diff_order_is_not_walk_order at the end of
   this file).  What holds: the two lists are equal as multisets - which is all the
   implementation promises, its report being merged per file from concurrently running
   validators - and they are equal as lists when the diff lists its sections in walk order.
   Within one file the blocks come in the same order in both. *)
Theorem diff_run_validator_is_selected_scan_partial : forall o ext fs ch v,
  In v content_validators ->
  NoDup (map rf_path fs) -> NoDup (map fst ch) ->
  (forall p l, In (p, l) ch -> find_file p fs <> None) ->
  diff_in_scan_scope fs ch ->
  let scan := build_context ext fs true [] in
  let dif := build_context ext fs false ch in
  prepass_clean v (cr_ctx scan) ->
  Permutation (vr_diags (run_validator o (cr_ctx dif) v)) (selected_scan_diags o v ch (cr_ctx scan)) /\
  (in_walk_order fs ch ->
   vr_diags (run_validator o (cr_ctx dif) v) = selected_scan_diags o v ch (cr_ctx scan)).
Proof.
  intros o ext fs ch v Hv Hnd Hndc Hall Hscope scan dif Hpre.
  destruct (diff_context_is_selected_scan_context_whole ext fs ch Hnd Hndc Hall Hscope) as [Hperm Heq].
  fold scan dif in Hperm, Heq.
  assert (HS : shapes_prepass_clean v (flat_map (selected ch) (cr_ctx scan)))
    by (apply selected_prepass_clean; exact Hpre).
  destruct (run_validator_of_shapes o (cr_ctx dif) v _ Hv HS) as [Hp He].
  assert (Hsd : flat_map (shape_diags o v) (flat_map (selected ch) (cr_ctx scan)) =
                selected_scan_diags o v ch (cr_ctx scan)).
  { rewrite flat_map_flat_map_. unfold selected_scan_diags. apply flat_map_ext_in. intros f _.
    unfold selected. apply selected_with_diags. exact Hv. }
  rewrite <- Hsd. split.
  - apply Hp. exact Hperm.
  - intros Hord. apply He. apply Heq. exact Hord.
Qed.

Section D2_corollaries.
Variables (o : oracles) (ext : list (str * str)) (fs : list rfile) (ch : list (str * list lchange)) (v : N).
Hypothesis Hv : In v content_validators.
Hypothesis Hnd : NoDup (map rf_path fs).
Hypothesis Hndc : NoDup (map fst ch).
Hypothesis Hall : forall p l, In (p, l) ch -> find_file p fs <> None.
Hypothesis Hscope : diff_in_scan_scope fs ch.
Let scan := build_context ext fs true [].
Let dif := build_context ext fs false ch.
Hypothesis Hpre : prepass_clean v (cr_ctx scan).

(* nothing extra: a diagnostic of the diff run is the scan verdict of a selected block,
   hence a diagnostic of the scan run *)
Corollary diff_nothing_extra : forall pd,
  In pd (vr_diags (run_validator o (cr_ctx dif) v)) ->
  In pd (vr_diags (run_validator o (cr_ctx scan) v)) /\
  exists f bc, In f (cr_ctx scan) /\ In bc (fc_blocks f) /\
    touched_by (lcs_of ch (fc_path f)) bc = true /\
    In pd (block_verdict o (named_modified (cr_ctx scan)) v f bc).
Proof.
  intros pd Hin.
  destruct (diff_run_validator_is_selected_scan_partial o ext fs ch v Hv Hnd Hndc Hall Hscope Hpre) as [Hp _].
  fold scan dif in Hp. apply (Permutation_in _ Hp) in Hin.
  unfold selected_scan_diags in Hin.
  apply in_flat_map in Hin. destruct Hin as (f & Hf & Hin).
  apply in_flat_map in Hin. destruct Hin as (bc & Hbc & Hin).
  destruct (touched_by (lcs_of ch (fc_path f)) bc) eqn:Ht; [|destruct Hin].
  split.
  - rewrite (run_validator_all_blocks o (cr_ctx scan) v Hpre).
    apply in_flat_map. exists f. split; [exact Hf|]. apply in_flat_map. exists bc. split; assumption.
  - exists f, bc. repeat split; assumption.
Qed.

(* nothing lost: the scan verdict of a selected block is reported by the diff run *)
Corollary diff_nothing_lost : forall f bc pd,
  In f (cr_ctx scan) -> In bc (fc_blocks f) ->
  touched_by (lcs_of ch (fc_path f)) bc = true ->
  In pd (block_verdict o (named_modified (cr_ctx scan)) v f bc) ->
  In pd (vr_diags (run_validator o (cr_ctx dif) v)).
Proof.
  intros f bc pd Hf Hbc Ht Hin.
  destruct (diff_run_validator_is_selected_scan_partial o ext fs ch v Hv Hnd Hndc Hall Hscope Hpre) as [Hp _].
  fold scan dif in Hp. apply (Permutation_in _ (Permutation_sym Hp)).
  unfold selected_scan_diags.
  apply in_flat_map. exists f. split; [exact Hf|]. apply in_flat_map. exists bc. split; [exact Hbc|].
  rewrite Ht. exact Hin.
Qed.

End D2_corollaries.

(* ================================================================== *)
(* D3. two runs of main                                                *)
(* ================================================================== *)

(* ---------- the part of a whole run that belongs to one validator ---------- *)
Lemma filter_eqb_nodup (v : N) l : NoDup l -> In v l -> filter (fun c => c =? v) l = [v].
Proof.
  induction l as [|a l IH]; intros Hnd Hin; [destruct Hin|].
  inversion Hnd as [|x xs Hnotin Hnd']; subst x xs. cbn [filter].
  destruct (N.eqb_spec a v) as [->|Hne].
  - f_equal. apply filter_all_false. intros x Hx.
    destruct (N.eqb_spec x v) as [->|]; [contradiction|reflexivity].
  - destruct Hin as [->|Hin]; [congruence|]. apply (IH Hnd' Hin).
Qed.

Lemma active_validator_part o ctx en dis v : In v (active_validators en dis) ->
  Permutation (filter (fun pd => d_code (snd pd) =? v)
                      (vr_diags (run_validators o ctx (detected_validators en dis ctx))))
              (vr_diags (run_validator o ctx v)).
Proof.
  intros Hact.
  eapply perm_trans; [apply perm_filter, run_detected_diags|].
  rewrite (filter_code_flat_map o ctx (fun c => c =? v)) by apply fired_active_subset.
  destruct (fires ctx v) eqn:Ef.
  - rewrite filter_eqb_nodup.
    + cbn [flat_map]. rewrite app_nil_r. apply Permutation_refl.
    + apply NoDup_filter, active_nodup.
    + apply filter_In. split; assumption.
  - rewrite filter_all_false.
    + destruct (undetected_silent o ctx v (active_subset _ _ _ Hact) Ef) as (-> & _). apply Permutation_refl.
    + intros x Hx. apply filter_In in Hx. destruct Hx as [_ Hx].
      destruct (N.eqb_spec x v) as [->|]; [congruence|reflexivity].
Qed.

(* ---------- the diff loop never looks at the positional globs ---------- *)
Lemma find_file_allow_all p fs :
  find_file p (map allow_all fs) = option_map allow_all (find_file p fs).
Proof.
  unfold find_file. induction fs as [|f fs IH]; cbn [map find option_map]; [reflexivity|].
  change (rf_path (allow_all f)) with (rf_path f).
  destruct (str_eqb (rf_path f) p); [reflexivity|exact IH].
Qed.

Lemma add_result_allow_all f r acc : add_result (allow_all f) r acc = add_result f r acc.
Proof. destruct r as [[[|b bs]|e|s]|]; reflexivity. Qed.

Lemma diff_files_allow_all ext fs : forall ch acc,
  diff_files ext (map allow_all fs) false ch acc = diff_files ext fs false ch acc.
Proof.
  induction ch as [|[p l] rest IH]; intros acc; cbn [diff_files]; [reflexivity|].
  rewrite find_file_allow_all. destruct (find_file p fs) as [f|]; cbn [option_map andb orb]; [|reflexivity].
  change (rf_ignore (allow_all f)) with (rf_ignore f).
  destruct (rf_ignore f); [apply IH|].
  rewrite add_result_allow_all.
  change (parse_one ext (allow_all f) false l) with (parse_one ext f false l). apply IH.
Qed.

Lemma build_context_allow_all ext fs ch :
  build_context ext (map allow_all fs) false ch = build_context ext fs false ch.
Proof. unfold build_context. apply diff_files_allow_all. Qed.

(* the files the two runs see: the same, up to the "**" fallback of the scanning run *)
Lemma diff_run_files a_scan a_diff p_s p_d ms ext ch :
  pl_star p_d = false -> ca_ign_post a_scan = ca_ign_post a_diff ->
  build_context ext (map (seen_file a_diff p_d) ms) false ch =
  build_context ext (map (seen_file a_scan p_s) ms) false ch.
Proof.
  intros Hst Hi.
  assert (Hd : map (seen_file a_diff p_d) ms = map (effective_file a_scan) ms).
  { apply map_ext. intros m. unfold seen_file, effective_file. rewrite Hst, Hi. reflexivity. }
  rewrite Hd. unfold seen_file. destruct (pl_star p_s).
  - rewrite <- (map_map (effective_file a_scan) allow_all), build_context_allow_all. reflexivity.
  - reflexivity.
Qed.

Lemma seen_files_paths a p ms :
  map rf_path (map (seen_file a p) ms) = map (fun m => rf_path (mf_file m)) ms.
Proof. rewrite map_map. apply map_ext. intros m. apply seen_file_path. Qed.

(* the two command lines *)
Record scan_vs_diff (a_scan a_diff : cliargs) : Prop := {
  svd_run_s : ca_list a_scan = false;
  svd_run_d : ca_list a_diff = false;
  svd_terminal : ca_terminal a_scan = true;      (* no diff is read: positional globs, or the "**" fallback *)
  svd_piped : ca_terminal a_diff = false;        (* a diff on stdin ... *)
  svd_noglobs : ca_nglobs a_diff = 0;            (* ... and no positional glob: Main_proofs.diff_only_mode *)
  svd_ext_pre : ca_ext_pre a_scan = ca_ext_pre a_diff;
  svd_ext_post : ca_ext_post a_scan = ca_ext_post a_diff;
  svd_dis_pre : ca_dis_pre a_scan = ca_dis_pre a_diff;
  svd_dis_post : ca_dis_post a_scan = ca_dis_post a_diff;
  svd_en_pre : ca_en_pre a_scan = ca_en_pre a_diff;
  svd_en_post : ca_en_post a_scan = ca_en_post a_diff;
  svd_ign : ca_ign_post a_scan = ca_ign_post a_diff
}.

Lemma scan_vs_diff_plans a_scan a_diff p_s p_d :
  plan_of a_scan = Ok p_s -> plan_of a_diff = Ok p_d -> scan_vs_diff a_scan a_diff ->
  pl_scan p_s = true /\ pl_diff p_s = None /\
  pl_scan p_d = false /\ pl_star p_d = false /\ pl_diff p_d = Some (ca_stdin a_diff) /\
  pl_ext p_d = pl_ext p_s /\ pl_enabled p_d = pl_enabled p_s /\ pl_disabled p_d = pl_disabled p_s.
Proof.
  intros Hs Hd [_ _ Ht Hp Hg He1 He2 Hd1 Hd2 Hn1 Hn2 _].
  destruct (plan_modes a_scan p_s Hs) as (Hsc & _ & Hdf & _).
  destruct (plan_modes a_diff p_d Hd) as (Hsc' & Hst' & Hdf' & _).
  destruct (plan_fields a_scan p_s Hs) as (Hx & Hy & Hz).
  destruct (plan_fields a_diff p_d Hd) as (Hx' & Hy' & Hz').
  rewrite Ht in Hsc, Hdf. rewrite Hp in Hsc', Hst', Hdf'. rewrite Hg in Hsc'.
  rewrite orb_true_r in Hsc. rewrite andb_false_r in Hst'.
  rewrite He1, He2, Hx' in Hx. rewrite Hd1, Hd2, Hy' in Hy. rewrite Hn1, Hn2, Hz' in Hz.
  injection Hx as Hx. injection Hy as Hy. injection Hz as Hz.
  repeat split; assumption.
Qed.

(* the contexts the two runs assemble *)
Lemma scan_run_context a p ms tb cd :
  pl_scan p = true -> pl_diff p = None ->
  model_context (main_case a p ms tb cd) = build_context (pl_ext p) (map (seen_file a p) ms) true [].
Proof.
  intros Hsc Hdf. unfold model_context, model_changes.
  replace (rc_diff (main_case a p ms tb cd)) with (pl_diff p) by reflexivity.
  replace (rc_scan (main_case a p ms tb cd)) with (pl_scan p) by reflexivity.
  replace (rc_ext (main_case a p ms tb cd)) with (pl_ext p) by reflexivity.
  rewrite Hdf, Hsc, main_case_files. reflexivity.
Qed.

Lemma diff_run_context a p ms tb cd ch :
  pl_scan p = false -> model_changes (main_case a p ms tb cd) = Ok ch ->
  model_context (main_case a p ms tb cd) = build_context (pl_ext p) (map (seen_file a p) ms) false ch.
Proof.
  intros Hsc Hch. unfold model_context. rewrite Hch.
  replace (rc_scan (main_case a p ms tb cd)) with (pl_scan p) by reflexivity.
  replace (rc_ext (main_case a p ms tb cd)) with (pl_ext p) by reflexivity.
  rewrite Hsc, main_case_files. reflexivity.
Qed.

(* D3.  a_scan: a scanning run without a diff; a_diff: the diff-only run; same files, tables,
   oracle, -E, -d/-e, --ignore.  For a content validator v that is switched on, the part of
   the diff run's report that carries v's code is - as a multiset - the scan verdicts of the
   selected blocks; the part of the scan run's report that carries v's code is the scan
   verdicts of all blocks; hence nothing extra and nothing lost.
   Side conditions: distinct paths; the diff translates to line changes ch with distinct
   keys; every file the diff names (and --ignore does not exclude) is one the scan examines;
   no context error or panic in either run (otherwise that run reports no diagnostic at all:
   MainCompose_proofs.main_run_no_diags_on_failure); pre-pass of v clean on the scan context. *)
Theorem main_diff_run_vs_scan_run : forall a_scan a_diff p_s p_d ms tb cd ch v,
  plan_of a_scan = Ok p_s -> plan_of a_diff = Ok p_d -> scan_vs_diff a_scan a_diff ->
  NoDup (map (fun m => rf_path (mf_file m)) ms) ->
  model_changes (main_case a_diff p_d ms tb cd) = Ok ch -> NoDup (map fst ch) ->
  (forall m l, In m ms -> In (rf_path (mf_file m), l) ch -> eff_ignored a_diff m = false ->
     rf_exists (mf_file m) = true /\ (pl_star p_s = true \/ rf_allow (mf_file m) = true)) ->
  let cs := model_context (main_case a_scan p_s ms tb cd) in
  let cdf := model_context (main_case a_diff p_d ms tb cd) in
  cr_panic cs = false -> cr_errs cs = [] -> cr_panic cdf = false -> cr_errs cdf = [] ->
  In v content_validators ->
  In v (active_validators (pl_enabled p_s) (pl_disabled p_s)) ->
  prepass_clean v (cr_ctx cs) ->
  let o := oracles_of tb in
  let of_v := fun pd : str * diag => d_code (snd pd) =? v in
  exists r_s r_d,
    main_model a_scan ms tb cd = MRun r_s /\ main_model a_diff ms tb cd = MRun r_d /\
    (* exactly the touched blocks, with full-scan verdicts *)
    Permutation (filter of_v (vr_diags r_d)) (selected_scan_diags o v ch (cr_ctx cs)) /\
    Permutation (filter of_v (vr_diags r_s))
      (flat_map (fun f => flat_map (block_verdict o (named_modified (cr_ctx cs)) v f) (fc_blocks f)) (cr_ctx cs)) /\
    (* nothing extra *)
    (forall pd, In pd (vr_diags r_d) -> d_code (snd pd) = v -> In pd (vr_diags r_s)) /\
    (* nothing lost *)
    (forall f bc pd, In f (cr_ctx cs) -> In bc (fc_blocks f) ->
       touched_by (lcs_of ch (fc_path f)) bc = true ->
       In pd (block_verdict o (named_modified (cr_ctx cs)) v f bc) ->
       In pd (vr_diags r_d) /\ In pd (vr_diags r_s) /\ d_code (snd pd) = v).
Proof.
  intros a_scan a_diff p_s p_d ms tb cd ch v Hps Hpd Hsvd Hnd Hch Hndc Hscope cs cdf
         Hcsp Hcse Hcdp Hcde Hv Hact Hpre o of_v.
  destruct (scan_vs_diff_plans a_scan a_diff p_s p_d Hps Hpd Hsvd)
    as (Hsc & Hdf & Hsc' & Hst' & _ & Hext & Hen & Hdis).
  set (fs := map (seen_file a_scan p_s) ms).
  assert (Ecs : cs = build_context (pl_ext p_s) fs true [])
    by (apply scan_run_context; assumption).
  assert (Ecd : cdf = build_context (pl_ext p_s) fs false ch).
  { unfold cdf. rewrite (diff_run_context a_diff p_d ms tb cd ch Hsc' Hch), Hext.
    apply diff_run_files; [exact Hst'|exact (svd_ign _ _ Hsvd)]. }
  assert (Hndf : NoDup (map rf_path fs)) by (unfold fs; rewrite seen_files_paths; exact Hnd).
  assert (Hall : forall p l, In (p, l) ch -> find_file p fs <> None).
  { apply (build_context_no_miss (pl_ext p_s) fs false ch). rewrite <- Ecd. exact Hcde. }
  assert (Hsco : diff_in_scan_scope fs ch).
  { intros p l f Hin Hff Hi. apply (find_file_in_nodup _ _ _ Hndf) in Hff. destruct Hff as [Hf Hp].
    unfold fs in Hf. apply in_map_iff in Hf. destruct Hf as (m & <- & Hm).
    rewrite seen_file_path in Hp. rewrite seen_file_ignore in Hi.
    destruct (Hscope m l Hm) as [He Ha].
    - rewrite Hp. exact Hin.
    - unfold eff_ignored. rewrite <- (svd_ign _ _ Hsvd). exact Hi.
    - rewrite seen_file_exists, seen_file_allow, He. cbn [andb].
      destruct Ha as [->| ->]; [reflexivity|apply orb_true_r]. }
  (* the two runs *)
  pose proof (main_run_diags a_scan p_s ms tb cd Hps (svd_run_s _ _ Hsvd) Hcsp Hcse) as Hrs.
  pose proof (main_run_diags a_diff p_d ms tb cd Hpd (svd_run_d _ _ Hsvd) Hcdp Hcde) as Hrd.
  fold cs in Hrs. fold cdf in Hrd. rewrite Hen, Hdis in Hrd. fold o in Hrs, Hrd.
  eexists. eexists. split; [exact Hrs|]. split; [exact Hrd|].
  (* the parts of v *)
  pose proof (active_validator_part o (cr_ctx cs) _ _ v Hact) as Ps.
  pose proof (active_validator_part o (cr_ctx cdf) _ _ v Hact) as Pd.
  fold of_v in Ps, Pd.
  pose proof Hpre as Hpre'. rewrite Ecs in Hpre'.
  destruct (diff_run_validator_is_selected_scan_partial o (pl_ext p_s) fs ch v Hv Hndf Hndc Hall Hsco Hpre')
    as [Hsel _].
  rewrite <- Ecs, <- Ecd in Hsel.
  assert (Hcode : forall ctx pd, In pd (vr_diags (run_validator o ctx v)) -> d_code (snd pd) = v).
  { intros ctx pd H. apply (run_validator_code o ctx v pd); [|exact H]. exact (active_subset _ _ _ Hact). }
  assert (Hin_part : forall (r : vresult) pd, In pd (filter of_v (vr_diags r)) <->
                                              In pd (vr_diags r) /\ d_code (snd pd) = v).
  { intros r pd. rewrite filter_In. unfold of_v. rewrite N.eqb_eq. tauto. }
  split; [eapply perm_trans; [exact Pd|exact Hsel]|].
  split; [rewrite <- (run_validator_all_blocks o (cr_ctx cs) v Hpre); exact Ps|].
  split.
  - intros pd Hin Hc.
    assert (H1 : In pd (vr_diags (run_validator o (cr_ctx cdf) v))).
    { apply (Permutation_in _ Pd). apply Hin_part. split; assumption. }
    assert (H2 : In pd (vr_diags (run_validator o (cr_ctx cs) v))).
    { rewrite Ecs. rewrite Ecd in H1.
      exact (proj1 (diff_nothing_extra o (pl_ext p_s) fs ch v Hv Hndf Hndc Hall Hsco Hpre' pd H1)). }
    apply (Permutation_in _ (Permutation_sym Ps)) in H2. apply Hin_part in H2. exact (proj1 H2).
  - intros f bc pd Hf Hbc Ht Hin.
    assert (H1 : In pd (vr_diags (run_validator o (cr_ctx cdf) v))).
    { rewrite Ecd. rewrite Ecs in Hf, Hin.
      exact (diff_nothing_lost o (pl_ext p_s) fs ch v Hv Hndf Hndc Hall Hsco Hpre' f bc pd Hf Hbc Ht Hin). }
    assert (H2 : In pd (vr_diags (run_validator o (cr_ctx cs) v))).
    { rewrite (run_validator_all_blocks o (cr_ctx cs) v Hpre).
      apply in_flat_map. exists f. split; [exact Hf|]. apply in_flat_map. exists bc. split; assumption. }
    pose proof (Hcode _ _ H1) as Hc.
    apply (Permutation_in _ (Permutation_sym Pd)) in H1. apply Hin_part in H1.
    apply (Permutation_in _ (Permutation_sym Ps)) in H2. apply Hin_part in H2.
    split; [exact (proj1 H1)|]. split; [exact (proj1 H2)|exact Hc].
Qed.

(* ================================================================== *)
(* a computed case                                                     *)
(* ================================================================== *)

(* a.py: two keep-sorted blocks, both out of order; the patch adds line 7 ("c"), inside the
   content of the second.  blockwatch (terminal, no globs: "**")  vs  blockwatch < patch *)
Definition ex2_m : mfile :=
  mkmfile (T "a.py") (T "# <block keep-sorted>
b
a
# </block>
# <block keep-sorted>
d
c
# </block>
") [mkspan 0 21 K_HASH 0; mkspan 26 36 K_HASH 0; mkspan 37 58 K_HASH 0; mkspan 63 73 K_HASH 0]
    true true false false false.
Definition ex2_patch : str := T "--- a/a.py
+++ b/a.py
@@ -6,0 +7,1 @@
+c
".
Definition ex2_tb : tables := mktables [] [] [] [] [].
Definition ex2_scan : cliargs := mkcli [] [] [] [] [] [] 0 0 true true true false true [] true.
Definition ex2_diff : cliargs := mkcli [] [] [] [] [] [] 0 0 true true true false false ex2_patch true.
Definition ex2_d1 : str * diag := (T "a.py", mkdiag 3 1 3 1 V_SORTED 1 [T "asc"]).
Definition ex2_d2 : str * diag := (T "a.py", mkdiag 7 1 7 1 V_SORTED 1 [T "asc"]).

(* the scan reports both blocks, the diff run exactly the second one's diagnostic *)
Example ex2_scan_run :
  main_model ex2_scan [ex2_m] ex2_tb [] =
  MRun {| vr_diags := [ex2_d1; ex2_d2]; vr_errs := []; vr_panic := false |}.
Proof. vm_compute. reflexivity. Qed.
Example ex2_diff_run :
  main_model ex2_diff [ex2_m] ex2_tb [] =
  MRun {| vr_diags := [ex2_d2]; vr_errs := []; vr_panic := false |}.
Proof. vm_compute. reflexivity. Qed.

(* the hypotheses of D3 hold on the case (they are satisfiable), and its conclusion read off *)
Definition ex2_ps : plan :=
  {| pl_scan := true; pl_star := true; pl_diff := None; pl_ext := []; pl_enabled := []; pl_disabled := [] |}.
Definition ex2_pd : plan :=
  {| pl_scan := false; pl_star := false; pl_diff := Some ex2_patch; pl_ext := []; pl_enabled := []; pl_disabled := [] |}.
Definition ex2_ch : list (str * list lchange) := [(T "a.py", [mklc 7 None])].

Example ex2_by_theorem :
  exists r_s r_d,
    main_model ex2_scan [ex2_m] ex2_tb [] = MRun r_s /\ main_model ex2_diff [ex2_m] ex2_tb [] = MRun r_d /\
    (forall pd, In pd (vr_diags r_d) -> d_code (snd pd) = V_SORTED -> In pd (vr_diags r_s)) /\
    Permutation (filter (fun pd => d_code (snd pd) =? V_SORTED) (vr_diags r_d)) [ex2_d2].
Proof.
  assert (H := main_diff_run_vs_scan_run ex2_scan ex2_diff ex2_ps ex2_pd [ex2_m] ex2_tb [] ex2_ch V_SORTED).
  cbv zeta in H.
  destruct H as (r_s & r_d & H1 & H2 & H3 & _ & H4 & _).
  - vm_compute. reflexivity.                            (* plan_of a_scan *)
  - vm_compute. reflexivity.                            (* plan_of a_diff *)
  - constructor; reflexivity.                           (* the two command lines *)
  - vm_compute. constructor; [intros []|constructor].   (* distinct paths *)
  - vm_compute. reflexivity.                            (* the patch translates to ex2_ch *)
  - vm_compute. constructor; [intros []|constructor].   (* distinct keys *)
  - intros m l [<-|[]] _ _. split; [reflexivity|left; reflexivity].   (* walked, "**" *)
  - vm_compute. reflexivity.
  - vm_compute. reflexivity.
  - vm_compute. reflexivity.
  - vm_compute. reflexivity.
  - left. reflexivity.                                  (* keep-sorted is a content rule *)
  - vm_compute. right. left. reflexivity.               (* ... and switched on *)
  - intros f bc _ _. reflexivity.                       (* no pre-pass for keep-sorted *)
  - exists r_s, r_d. split; [exact H1|]. split; [exact H2|]. split; [exact H4|].
    eapply perm_trans; [exact H3|]. vm_compute. apply Permutation_refl.
Qed.

(* ---------- why D2 is a statement about multisets ---------- *)
(* a.py and b.py, one unsorted block each; the patch names b.py first.  The diff run reports
   b.py's diagnostic first, the walk order puts a.py's first: same multiset, other list *)
Definition cx_text : str := T "# <block keep-sorted>
b
a
# </block>
".
Definition cx_spans : list cspan := [mkspan 0 21 K_HASH 0; mkspan 26 36 K_HASH 0].
Definition cx_fs : list rfile :=
  [mkrfile (T "a.py") cx_text cx_spans true true false; mkrfile (T "b.py") cx_text cx_spans true true false].
Definition cx_ch : list (str * list lchange) := [(T "b.py", [mklc 3 None]); (T "a.py", [mklc 3 None])].
Definition cx_da : str * diag := (T "a.py", mkdiag 3 1 3 1 V_SORTED 1 [T "asc"]).
Definition cx_db : str * diag := (T "b.py", mkdiag 3 1 3 1 V_SORTED 1 [T "asc"]).

Example diff_order_is_not_walk_order :
  let o := oracles_of ex2_tb in
  let scan := build_context [] cx_fs true [] in
  let dif := build_context [] cx_fs false cx_ch in
  vr_diags (run_validator o (cr_ctx dif) V_SORTED) = [cx_db; cx_da] /\
  selected_scan_diags o V_SORTED cx_ch (cr_ctx scan) = [cx_da; cx_db] /\
  (* every hypothesis of D2 holds *)
  NoDup (map rf_path cx_fs) /\ NoDup (map fst cx_ch) /\
  (forall p l, In (p, l) cx_ch -> find_file p cx_fs <> None) /\
  diff_in_scan_scope cx_fs cx_ch /\ prepass_clean V_SORTED (cr_ctx scan) /\
  cr_errs scan = [] /\ cr_errs dif = [] /\ cr_panic scan = false /\ cr_panic dif = false.
Proof.
  cbv zeta. split; [vm_compute; reflexivity|]. split; [vm_compute; reflexivity|].
  split. { vm_compute. constructor; [intros [H|[]]; discriminate H|]. constructor; [intros []|constructor]. }
  split. { vm_compute. constructor; [intros [H|[]]; discriminate H|]. constructor; [intros []|constructor]. }
  split. { intros p l [H|[H|[]]]; inversion H; subst; vm_compute; discriminate. }
  split.
  { intros p l f [H|[H|[]]] Hf _; inversion H; subst; vm_compute in Hf; inversion Hf; reflexivity. }
  split; [intros f bc _ _; reflexivity|].
  repeat split; vm_compute; reflexivity.
Qed.

(* in_walk_order is satisfiable: the same sections, a.py first *)
Example walk_order_example : in_walk_order cx_fs (rev cx_ch) /\ ~ in_walk_order cx_fs cx_ch.
Proof. split; [vm_compute; reflexivity|]. intros H. vm_compute in H. discriminate H. Qed.

(* the same through main: blockwatch < patch, the patch naming b.py first *)
Definition cx_ms : list mfile :=
  [mkmfile (T "a.py") cx_text cx_spans true true false false false;
   mkmfile (T "b.py") cx_text cx_spans true true false false false].
Definition cx_patch : str := T "--- a/b.py
+++ b/b.py
@@ -2,0 +3,1 @@
+a
--- a/a.py
+++ b/a.py
@@ -2,0 +3,1 @@
+a
".
Definition cx_diff : cliargs := mkcli [] [] [] [] [] [] 0 0 true true true false false cx_patch true.
Example diff_order_is_not_walk_order_main :
  main_model ex2_scan cx_ms ex2_tb [] = MRun {| vr_diags := [cx_da; cx_db]; vr_errs := []; vr_panic := false |} /\
  main_model cx_diff cx_ms ex2_tb [] = MRun {| vr_diags := [cx_db; cx_da]; vr_errs := []; vr_panic := false |}.
Proof. split; vm_compute; reflexivity. Qed.

(* ---------- why the diff's files must be in the scan's scope ---------- *)
(* .h.py is hidden: the walk does not yield it, the scan never examines it.  The diff names
   it, diff mode reads it by that name and validates it: a diagnostic the scan run does not
   have.  "Nothing extra" needs diff_in_scan_scope. *)
Definition cx_hidden : mfile := mkmfile (T ".h.py") cx_text cx_spans false true false false false.
Definition cx_hpatch : str := T "--- a/.h.py
+++ b/.h.py
@@ -2,0 +3,1 @@
+a
".
Definition cx_hdiff : cliargs := mkcli [] [] [] [] [] [] 0 0 true true true false false cx_hpatch true.
Example unwalked_file_validated_in_diff_mode_only :
  main_model ex2_scan [cx_hidden] ex2_tb [] = MRun {| vr_diags := []; vr_errs := []; vr_panic := false |} /\
  main_model cx_hdiff [cx_hidden] ex2_tb [] =
    MRun {| vr_diags := [(T ".h.py", mkdiag 3 1 3 1 V_SORTED 1 [T "asc"])]; vr_errs := []; vr_panic := false |}.
Proof. split; vm_compute; reflexivity. Qed.

(* ================================================================== *)
Print Assumptions diff_context_is_selected_scan_context.
Print Assumptions diff_context_is_selected_scan_context_whole.
Print Assumptions selected_scan_file_in_diff_context.
Print Assumptions diff_mode_verdicts_agree_up_to_flags.
Print Assumptions diff_run_validator_is_selected_scan_partial.
Print Assumptions diff_nothing_extra.
Print Assumptions diff_nothing_lost.
Print Assumptions main_diff_run_vs_scan_run.
Print Assumptions ex2_by_theorem.
Print Assumptions diff_order_is_not_walk_order.

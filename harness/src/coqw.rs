//! Writing Coq terms.
pub fn cstr(s: &str) -> String {
    // byte-string literal decoded by BW.Text.T; only '"' needs escaping
    let mut o = String::with_capacity(s.len() + 8);
    o.push_str("(T \"");
    for ch in s.chars() {
        if ch == '"' {
            o.push_str("\"\"");
        } else {
            o.push(ch);
        }
    }
    o.push_str("\")");
    o
}
pub fn cbool(b: bool) -> &'static str {
    if b { "true" } else { "false" }
}
pub fn clist<T, F: Fn(&T) -> String>(xs: &[T], f: F) -> String {
    let mut o = String::from("[");
    for (i, x) in xs.iter().enumerate() {
        if i > 0 {
            o.push_str("; ");
        }
        o.push_str(&f(x));
    }
    o.push(']');
    o
}
pub fn copt<T, F: Fn(&T) -> String>(x: &Option<T>, f: F) -> String {
    match x {
        None => "None".to_string(),
        Some(v) => format!("(Some {})", f(v)),
    }
}
pub fn cpair(a: String, b: String) -> String {
    format!("({}, {})", a, b)
}
/// Strings the Coq lexer cannot carry in a literal (NUL) are avoided by generators.
pub fn coq_safe(s: &str) -> bool {
    !s.contains('\0')
}
